import PyaModel.Spec.Flow
/-!
# Proofs/C09 — helper lemmas for the reaching-definitions property

Part 1: list / dictionary basics.
Part 2: a generic frame theorem over the FULL syntax: a relation on states that only looks at
        `usage_to_definition_nodes` and the checking-phase output is established by every visit as soon as
        it is established by the visited uses.
-/
namespace Pya.C09

/-! ## Part 1 — basics -/

theorem mem_uniq {n : Node} : ∀ {l : List Node}, n ∈ uniq l ↔ n ∈ l
  | [] => by simp [uniq]
  | a :: l => by
    have ih := @mem_uniq n l
    by_cases h : n = a
    · subst h; simp [uniq]
    · simp [uniq, List.mem_filter, ih, h]

theorem mem_union {n : Node} {a b : List Node} : n ∈ union a b ↔ n ∈ a ∨ n ∈ b := by
  unfold union
  by_cases h : n ∈ a <;> simp [List.mem_filter, h]

theorem lookup_addUse_self (u : Nat) (ds : List Node) :
    ∀ m, lookup u (addUse u ds m) = some ((lookup u m).getD [] ++ ds)
  | [] => by simp [addUse, lookup]
  | (k, v) :: r => by
    by_cases h : k = u
    · simp [addUse, lookup, h]
    · simp [addUse, lookup, h, lookup_addUse_self u ds r]

theorem lookup_addUse_ne {u u' : Nat} (ds : List Node) (h : u' ≠ u) :
    ∀ m, lookup u' (addUse u ds m) = lookup u' m
  | [] => by simp [addUse, lookup, h.symm]
  | (k, v) :: r => by
    by_cases hk : k = u
    · subst hk; simp [addUse, lookup, h.symm]
    · by_cases hk' : k = u'
      · subst hk'; simp [addUse, lookup, hk]
      · simp [addUse, lookup, hk, hk', lookup_addUse_ne ds h r]

/-! ## Part 2 — generic frame theorem -/

/-- the two states agree on everything a use can observe or write -/
def SameObs (a b : St) : Prop := b.u2d = a.u2d ∧ b.out = a.out

theorem SameObs.rfl' {a : St} : SameObs a a := ⟨rfl, rfl⟩

@[simp] theorem combine_u2d (ss : List Sub) (st : St) : (combine ss st).u2d = st.u2d := by
  unfold combine; dsimp only; split
  · rfl
  · split <;> rfl

@[simp] theorem combine_out (ss : List Sub) (st : St) : (combine ss st).out = st.out := by
  unfold combine; dsimp only; split
  · rfl
  · split <;> rfl

@[simp] theorem combine_allX (ss : List Sub) (st : St) : (combine ss st).allX = st.allX := by
  unfold combine; dsimp only; split
  · rfl
  · split <;> rfl

@[simp] theorem combine_allJ (ss : List Sub) (st : St) : (combine ss st).allJ = st.allJ := by
  unfold combine; dsimp only; split
  · rfl
  · split <;> rfl

@[simp] theorem combine_loops (ss : List Sub) (st : St) :
    (combine ss st).loops = st.loops ++ ss.filter (·.ll) := by
  unfold combine; dsimp only; split
  · rfl
  · split <;> rfl

@[simp] theorem combine_ll (ss : List Sub) (st : St) : (combine ss st).cur.ll = st.cur.ll := by
  unfold combine; dsimp only; split
  · rfl
  · split <;> rfl

theorem sameObs_combine (ss : List Sub) (st : St) : SameObs st (combine ss st) := ⟨by simp, by simp⟩

/-- A relation on states that only depends on the observable part, reflexive and transitive. -/
structure FrameRel (R : St → St → Prop) : Prop where
  refl : ∀ a, R a a
  trans : ∀ a b c, R a b → R b c → R a c
  congr : ∀ a a' b b', SameObs a a' → SameObs b b' → R a b → R a' b'

section Frame
variable {R : St → St → Prop} (hR : FrameRel R)
include hR

theorem FrameRel.of_same {a b : St} (h : SameObs a b) : R a b :=
  hR.congr a a a b SameObs.rfl' h (hR.refl a)

theorem FrameRel.post {a b b' : St} (h : R a b) (hs : SameObs b b') : R a b' :=
  hR.congr a a b b' SameObs.rfl' hs h

theorem FrameRel.pre {a a' b : St} (h : R a b) (hs : SameObs a a') : R a' b :=
  hR.congr a a' b b hs SameObs.rfl' h

/-- state transformers that establish `R` -/
def Est (R : St → St → Prop) (f : St → St) : Prop := ∀ st, R st (f st)

theorem est_subscope {f : St → St} (hf : Est R f) (st : St) : R st (subscope f st).2 := by
  unfold subscope
  have h := hf (enter st)
  exact hR.congr (enter st) st (f (enter st)) _ ⟨rfl, rfl⟩ ⟨rfl, rfl⟩ h

theorem est_subscopeR {α : Type} {f : St → α × St} (hf : ∀ st, R st (f st).2) (st : St) :
    R st (subscopeR f st).2.2 := by
  unfold subscopeR
  have h := hf (enter st)
  exact hR.congr (enter st) st (f (enter st)).2 _ ⟨rfl, rfl⟩ ⟨rfl, rfl⟩ h

theorem est_combine (ss : List Sub) (st : St) : R st (combine ss st) :=
  hR.of_same (sameObs_combine ss st)

theorem est_loopScope {f : St → St} (hf : Est R f) (st : St) : R st (loopScope f st).2 := by
  unfold loopScope
  have h := hf { enter st with loops := [] }
  have h1 : R st { f { enter st with loops := [] } with cur := st.cur, loops := st.loops } :=
    hR.congr { enter st with loops := [] } st (f { enter st with loops := [] }) _ ⟨rfl, rfl⟩ ⟨rfl, rfl⟩ h
  exact hR.trans _ _ _ h1 (est_combine hR _ _)

theorem est_suppressing {f : St → St} (hf : Est R f) (st : St) : R st (suppressing f st).2 := by
  unfold suppressing
  have h := est_subscope hR hf st
  exact hR.trans _ _ _ h (est_combine hR _ _)

theorem est_tryExcept {vB vE : St → St} {vH : Sub → Sub → St → List Sub × St}
    (hB : Est R vB) (hE : Est R vE) (hH : ∀ d f st, R st (vH d f st).2) : Est R (tryExcept vB vE vH) := by
  intro st
  unfold tryExcept
  have h0 : R st (enter st) := hR.of_same ⟨rfl, rfl⟩
  have h1 := est_subscope hR (f := id) (fun s => hR.refl s) (enter st)
  have h2 := est_subscopeR hR (f := suppressing vB) (fun s => est_suppressing hR hB s) (subscope id (enter st)).2
  generalize hs2 : subscopeR (suppressing vB) (subscope id (enter st)).2 = r2 at h2
  have h3 := est_subscope hR (f := fun s => vE (combine [r2.1] s))
    (fun s => hR.trans _ _ _ (est_combine hR _ s) (hE _)) r2.2.2
  generalize hs3 : subscope (fun s => vE (combine [r2.1] s)) r2.2.2 = r3 at h3
  have h4 := hH (subscope id (enter st)).1 r2.2.1 r3.2
  generalize hs4 : vH (subscope id (enter st)).1 r2.2.1 r3.2 = r4 at h4
  have h5 : R st r4.2 := hR.trans _ _ _ (hR.trans _ _ _ (hR.trans _ _ _ (hR.trans _ _ _ h0 h1) h2) h3) h4
  have h6 : R st { r4.2 with cur := st.cur } := hR.post h5 ⟨rfl, rfl⟩
  have := hR.trans _ _ _ h6 (est_combine hR (r3.1 :: r4.1) { r4.2 with cur := st.cur })
  simpa [hs2, hs3, hs4] using this

mutual
theorem visitStmt_est (c : Bool) (x : Nat) (s : Stmt) (h : ∀ u ∈ s.useIds, Est R (useX c u)) :
    Est R (visitStmt c x s) := by
  intro st
  cases s with
  | assign v d =>
    unfold visitStmt; split
    · exact hR.of_same ⟨rfl, rfl⟩
    · exact hR.refl _
  | use v u =>
    unfold visitStmt; split
    · exact h u (by simp [Stmt.useIds]) st
    · exact hR.refl _
  | call => unfold visitStmt; exact hR.refl _
  | ite t e =>
    unfold visitStmt
    have ht := visitBlock_est c x t (fun u hu => h u (by simp [Stmt.useIds, hu]))
    have he := visitBlock_est c x e (fun u hu => h u (by simp [Stmt.useIds, hu]))
    have h1 := est_subscope hR ht st
    have h2 := est_subscope hR he (subscope (visitBlock c x t) st).2
    exact hR.trans _ _ _ (hR.trans _ _ _ h1 h2) (est_combine hR _ _)
  | loop w a body orelse =>
    unfold visitStmt
    have hb := visitBlock_est c x body (fun u hu => h u (by simp [Stmt.useIds, hu]))
    have he := visitBlock_est c x orelse (fun u hu => h u (by simp [Stmt.useIds, hu]))
    have h1 := est_subscopeR hR (f := loopScope (visitBlock c x body)) (fun s => est_loopScope hR hb s) st
    generalize subscopeR (loopScope (visitBlock c x body)) st = r1 at h1
    dsimp only
    have h2 : R r1.2.2 (if a = true then subscope id (combine [r1.2.1] r1.2.2) else (r1.2.1, r1.2.2)).2 := by
      split
      · exact hR.trans _ _ _ (est_combine hR _ _) (est_subscope hR (f := id) (fun s => hR.refl s) _)
      · exact hR.refl _
    generalize (if a = true then subscope id (combine [r1.2.1] r1.2.2) else (r1.2.1, r1.2.2)) = r2 at h2
    have h3 := est_subscope hR he r2.2
    generalize subscope (visitBlock c x orelse) r2.2 = r3 at h3
    have h4 := est_combine hR [r2.1, r3.1] r3.2
    have h5 : R (combine [r2.1, r3.1] r3.2)
        (if c = true then (subscope (visitBlock c x body) (combine [r2.1, r3.1] r3.2)).2
         else combine [r2.1, r3.1] r3.2) := by
      split
      · exact est_subscope hR hb _
      · exact hR.refl _
    have h6 := hR.trans _ _ _ (hR.trans _ _ _ (hR.trans _ _ _ (hR.trans _ _ _ h1 h2) h3) h4) h5
    split
    · exact hR.post h6 ⟨rfl, rfl⟩
    · exact h6
  | brk j => unfold visitStmt; exact hR.of_same ⟨rfl, rfl⟩
  | cont j => unfold visitStmt; exact hR.of_same ⟨rfl, rfl⟩
  | ret => unfold visitStmt; exact hR.of_same ⟨rfl, rfl⟩
  | raise => unfold visitStmt; exact hR.of_same ⟨rfl, rfl⟩
  | with_ sup body =>
    unfold visitStmt
    have hb := visitBlock_est c x body (fun u hu => h u (by simp [Stmt.useIds, hu]))
    split
    · exact est_suppressing hR hb st
    · exact hb st
  | try_ body hs orelse hasFin fin =>
    unfold visitStmt
    have hb := visitBlock_est c x body (fun u hu => h u (by simp [Stmt.useIds, hu]))
    have he := visitBlock_est c x orelse (fun u hu => h u (by simp [Stmt.useIds, hu]))
    have hf := visitBlock_est c x fin (fun u hu => h u (by simp [Stmt.useIds, hu]))
    have hh := visitHandlers_est c x hs (fun u hu => h u (by simp [Stmt.useIds, hu]))
    have hte := est_tryExcept hR hb he hh
    dsimp only
    split
    · have h1 := est_subscopeR hR (f := suppressing (tryExcept (visitBlock c x body) (visitBlock c x orelse)
        (visitHandlers c x hs))) (fun s => est_suppressing hR hte s) st
      generalize subscopeR (suppressing (tryExcept (visitBlock c x body) (visitBlock c x orelse)
        (visitHandlers c x hs))) st = r1 at h1
      have h2 := est_subscope hR (f := fun s => visitBlock c x fin (combine [r1.2.1] s))
        (fun s => hR.trans _ _ _ (est_combine hR _ s) (hf _)) r1.2.2
      have h3 := hR.trans _ _ _ (est_combine hR [r1.1] _) (hf (combine [r1.1]
        (subscope (fun s => visitBlock c x fin (combine [r1.2.1] s)) r1.2.2).2))
      exact hR.trans _ _ _ (hR.trans _ _ _ h1 h2) h3
    · exact hte st

theorem visitHandlers_est (c : Bool) (x : Nat) (hs : Handlers) (h : ∀ u ∈ hs.useIds, Est R (useX c u)) :
    ∀ d f st, R st (visitHandlers c x hs d f st).2 := by
  intro d f st
  cases hs with
  | nil => unfold visitHandlers; exact hR.refl _
  | cons hd tl =>
    unfold visitHandlers
    have hb := visitBlock_est c x hd (fun u hu => h u (by simp [Handlers.useIds, hu]))
    have ht := visitHandlers_est c x tl (fun u hu => h u (by simp [Handlers.useIds, hu]))
    have h1 := est_subscope hR (f := fun s => visitBlock c x hd (combine [d, f] s))
      (fun s => hR.trans _ _ _ (est_combine hR _ s) (hb _)) st
    exact hR.trans _ _ _ h1 (ht d f _)

theorem visitBlock_est (c : Bool) (x : Nat) (b : Block) (h : ∀ u ∈ b.useIds, Est R (useX c u)) :
    Est R (visitBlock c x b) := by
  intro st
  cases b with
  | nil => unfold visitBlock; exact hR.refl _
  | cons s r =>
    unfold visitBlock
    have hs := visitStmt_est c x s (fun u hu => h u (by simp [Block.useIds, hu]))
    have hr := visitBlock_est c x r (fun u hu => h u (by simp [Block.useIds, hu]))
    exact hR.trans _ _ _ (hs st) (hr _)
end

end Frame

/-! ### Instances of the frame theorem -/

/-- the entry of `u` in `usage_to_definition_nodes` is the same in both states -/
def SameAt (u : Nat) (a b : St) : Prop := lookup u b.u2d = lookup u a.u2d

theorem frame_sameAt (u : Nat) : FrameRel (SameAt u) where
  refl := fun _ => rfl
  trans := fun _ _ _ h1 h2 => by unfold SameAt at *; rw [h2, h1]
  congr := fun a a' b b' h1 h2 h => by unfold SameAt SameObs at *; rw [h2.1, h1.1]; exact h

theorem useX_sameAt {c : Bool} {u u' : Nat} (h : u ≠ u') : Est (SameAt u) (useX c u') := by
  intro st
  unfold useX SameAt
  split
  · split
    · simp [lookup_addUse_ne _ h]
    · rfl
  · rfl

/-- **F3** a visit does not touch the entries of uses that do not occur in the visited code -/
theorem visitBlock_sameAt (c : Bool) (x u : Nat) (b : Block) (h : u ∉ b.useIds) (st : St) :
    lookup u (visitBlock c x b st).u2d = lookup u st.u2d :=
  visitBlock_est (frame_sameAt u) c x b
    (fun u' hu' => useX_sameAt (fun e => h (e ▸ hu'))) st

theorem visitStmt_sameAt (c : Bool) (x u : Nat) (s : Stmt) (h : u ∉ s.useIds) (st : St) :
    lookup u (visitStmt c x s st).u2d = lookup u st.u2d :=
  visitStmt_est (frame_sameAt u) c x s
    (fun u' hu' => useX_sameAt (fun e => h (e ▸ hu'))) st

/-- collecting never writes the checking-phase output -/
def SameOut (a b : St) : Prop := b.out = a.out

theorem frame_sameOut : FrameRel SameOut where
  refl := fun _ => rfl
  trans := fun _ _ _ h1 h2 => by unfold SameOut at *; rw [h2, h1]
  congr := fun a a' b b' h1 h2 h => by unfold SameOut SameObs at *; rw [h2.2, h1.2]; exact h

theorem collect_out (p : Block) (x : Nat) : (collect p x).out = [] :=
  visitBlock_est frame_sameOut true x p (fun u _ st => by unfold useX SameOut; simp; split <;> rfl) {}

/-- checking never writes `usage_to_definition_nodes`, and everything it outputs is read from there -/
def CheckRel (a b : St) : Prop :=
  b.u2d = a.u2d ∧ ∀ e ∈ b.out, e ∈ a.out ∨ e.2 = lookup e.1 a.u2d

theorem frame_check : FrameRel CheckRel where
  refl := fun _ => ⟨rfl, fun _ he => Or.inl he⟩
  trans := fun a b c h1 h2 => by
    refine ⟨by rw [h2.1, h1.1], fun e he => ?_⟩
    rcases h2.2 e he with h | h
    · exact h1.2 e h
    · right; rw [h, h1.1]
  congr := fun a a' b b' h1 h2 h => by
    unfold CheckRel SameObs at *
    rw [h2.1, h2.2, h1.1, h1.2]; exact h

/-- **Two-phase lemma.** Every value the checking phase hands to `resolve_name` at a use is exactly the entry the
collecting phase left in `usage_to_definition_nodes` (all syntax). -/
theorem analyse_out (p : Block) (x : Nat) :
    ∀ e ∈ (analyse p x).out, e.2 = lookup e.1 (collect p x).u2d := by
  have h := visitBlock_est frame_check false x p
    (fun u _ st => by
      unfold useX CheckRel
      refine ⟨rfl, fun e he => ?_⟩
      simp at he
      rcases he with he | he
      · exact Or.inl he
      · right; subst he; rfl) (collect p x)
  intro e he
  rcases h.2 e he with h' | h'
  · rw [collect_out] at h'; cases h'
  · exact h'

theorem analyse_u2d (p : Block) (x : Nat) : (analyse p x).u2d = (collect p x).u2d :=
  (visitBlock_est frame_check false x p
    (fun u _ st => by
      unfold useX CheckRel
      refine ⟨rfl, fun e he => ?_⟩
      simp at he
      rcases he with he | he
      · exact Or.inl he
      · right; subst he; rfl) (collect p x)).1

/-! ## Part 3 — coverage -/

/-- `n` is one of the definitions the dictionary `s` allows for `x` (a missing key means: unbound) -/
def Cov (s : Sub) (n : Node) : Prop := n ∈ s.x.getD [none]

/-- `n` is among what is reported at use `u` given `usage_to_definition_nodes = m` -/
def Good (m : List (Nat × List Node)) (u : Nat) (n : Node) : Prop := n ∈ (lookup u m).getD [none]

theorem combine_cov {ss : List Sub} {st : St} {s : Sub} {n : Node} (hs : s ∈ ss) (hll : s.ll = false)
    (hls : s.ls = false) (hc : Cov s n) (hx : s.x = none → st.cur.x = none) : Cov (combine ss st).cur n := by
  have hk : s ∈ ss.filter (fun s => !s.ll && !s.ls) := by simp [List.mem_filter, hs, hll, hls]
  unfold combine; dsimp only
  split
  · rename_i h; simp [List.isEmpty_iff] at h; have := h s hs hll; simp [hls] at this
  · split
    · unfold Cov; simp only [Option.getD_some, mem_uniq, List.mem_flatMap]
      exact ⟨s, hk, hc⟩
    · rename_i h
      simp only [List.any_eq_true, not_exists, not_and] at h
      have hsx : s.x = none := by
        have := h s hk
        cases hx' : s.x <;> simp [hx'] at this ⊢
      have := hx hsx
      unfold Cov at hc ⊢
      rw [hsx] at hc
      simpa [this] using hc

theorem combine_ls_kept {ss : List Sub} {st : St} {s : Sub} (hs : s ∈ ss) (hll : s.ll = false)
    (hls : s.ls = false) : (combine ss st).cur.ls = st.cur.ls := by
  have hk : s ∈ ss.filter (fun s => !s.ll && !s.ls) := by simp [List.mem_filter, hs, hll, hls]
  unfold combine; dsimp only
  split
  · rename_i h; simp [List.isEmpty_iff] at h; have := h s hs hll; simp [hls] at this
  · split <;> rfl

theorem combine_x_isSome {ss : List Sub} {st : St} (h : st.cur.x.isSome) : (combine ss st).cur.x.isSome := by
  unfold combine; dsimp only
  split
  · exact h
  · split
    · rfl
    · exact h

/-! ## Part 4 — execution paths of the simple fragment (a proof device; the specification is `flowBlock`) -/

/-- `k` rounds of the relation `R` -/
def iter (R : Node → Node → Prop) : Nat → Node → Node → Prop
  | 0, w, n => n = w
  | k + 1, w, n => ∃ m, iter R k w m ∧ R m n

mutual
/-- `runS x s w c n`: some execution of `s` started with definition `w` current leaves it normally
(`c = false`) or by `continue` (`c = true`) with definition `n` current. Constructs outside the simple
fragment have no paths. -/
def runS (x : Nat) : Stmt → Node → Bool → Node → Prop
  | .assign v d, w, c, n => c = false ∧ n = (if v = x then some d else w)
  | .use _ _, w, c, n => c = false ∧ n = w
  | .call, w, c, n => c = false ∧ n = w
  | .ite t e, w, c, n => runB x t w c n ∨ runB x e w c n
  | .loop _ _ b _, w, c, n =>
    c = false ∧ ∃ k m, iter (fun a m => runB x b a false m ∨ runB x b a true m) k w m ∧
      (n = m ∨ brkB x b m n)
  | .cont _, w, c, n => c = true ∧ n = w
  | _, _, _, _ => False
def runB (x : Nat) : Block → Node → Bool → Node → Prop
  | .nil, w, c, n => c = false ∧ n = w
  | .cons s r, w, c, n => (c = true ∧ runS x s w true n) ∨ ∃ m, runS x s w false m ∧ runB x r m c n
/-- `brkS x s w n`: some execution of `s` started with `w` leaves it by `break` with `n` current -/
def brkS (x : Nat) : Stmt → Node → Node → Prop
  | .brk _, w, n => n = w
  | .ite t e, w, n => brkB x t w n ∨ brkB x e w n
  | _, _, _ => False
def brkB (x : Nat) : Block → Node → Node → Prop
  | .nil, _, _ => False
  | .cons s r, w, n => brkS x s w n ∨ ∃ m, runS x s w false m ∧ brkB x r m n
end

mutual
/-- `obsS x s w u n`: some execution of `s` started with `w` passes use `u` of `x` while `n` is current -/
def obsS (x : Nat) : Stmt → Node → Nat → Node → Prop
  | .use v u', w, u, n => v = x ∧ u' = u ∧ n = w
  | .ite t e, w, u, n => obsB x t w u n ∨ obsB x e w u n
  | .loop _ _ b _, w, u, n =>
    ∃ k m, iter (fun a m => runB x b a false m ∨ runB x b a true m) k w m ∧ obsB x b m u n
  | _, _, _, _ => False
def obsB (x : Nat) : Block → Node → Nat → Node → Prop
  | .nil, _, _, _ => False
  | .cons s r, w, u, n => obsS x s w u n ∨ ∃ m, runS x s w false m ∧ obsB x r m u n
end

/-- a relation is "generate or pass": the result is either the input, on a path every input can take, or a
value every input produces -/
def GenPass (R : Node → Node → Prop) : Prop :=
  ∀ w n, R w n → (n = w ∧ ∀ w', R w' w') ∨ (∀ w', R w' n)

theorem iter_genPass {R : Node → Node → Prop} (hR : GenPass R) : ∀ k, GenPass (iter R k)
  | 0 => fun w n h => Or.inl ⟨h, fun _ => rfl⟩
  | k + 1 => fun w n ⟨m, h1, h2⟩ => by
    rcases iter_genPass hR k w m h1 with ⟨e, hp⟩ | hg
    · subst e
      rcases hR _ _ h2 with ⟨e, hp'⟩ | hg'
      · subst e; exact Or.inl ⟨rfl, fun w' => ⟨w', hp w', hp' w'⟩⟩
      · exact Or.inr fun w' => ⟨w', hp w', hg' w'⟩
    · rcases hR _ _ h2 with ⟨e, hp'⟩ | hg'
      · subst e; exact Or.inr fun w' => ⟨n, hg w', hp' n⟩
      · exact Or.inr fun w' => ⟨m, hg w', hg' m⟩

theorem genPass_or {R S : Node → Node → Prop} (hR : GenPass R) (hS : GenPass S) :
    GenPass (fun a m => R a m ∨ S a m) := by
  intro w n h
  rcases h with h | h
  · rcases hR _ _ h with ⟨e, hp⟩ | hg
    · exact Or.inl ⟨e, fun w' => Or.inl (hp w')⟩
    · exact Or.inr fun w' => Or.inl (hg w')
  · rcases hS _ _ h with ⟨e, hp⟩ | hg
    · exact Or.inl ⟨e, fun w' => Or.inr (hp w')⟩
    · exact Or.inr fun w' => Or.inr (hg w')

mutual
/-- **Two visits suffice, path form.** Conditions are opaque, so which path is taken does not depend on the
current definition: every path either passes the incoming definition through or produces the same
definition whatever came in. -/
theorem runS_genPass (x : Nat) (s : Stmt) (c : Bool) : GenPass (fun w n => runS x s w c n) := by
  intro w n h
  cases s with
  | assign v d =>
    simp only [runS] at h ⊢
    by_cases hv : v = x
    · simp only [hv, if_true] at h ⊢
      exact Or.inr fun w' => ⟨h.1, h.2⟩
    · simp only [hv, if_false] at h ⊢
      exact Or.inl ⟨h.2, fun w' => ⟨h.1, trivial⟩⟩
  | use v u => simp only [runS] at h ⊢; exact Or.inl ⟨h.2, fun w' => ⟨h.1, trivial⟩⟩
  | call => simp only [runS] at h ⊢; exact Or.inl ⟨h.2, fun w' => ⟨h.1, trivial⟩⟩
  | ite t e =>
    simp only [runS] at h ⊢
    exact genPass_or (runB_genPass x t c) (runB_genPass x e c) w n h
  | loop iw a b e =>
    simp only [runS] at h ⊢
    obtain ⟨hc, k, m, hk, hn⟩ := h
    have hR := genPass_or (runB_genPass x b false) (runB_genPass x b true)
    have hbk := brkB_genPass x b
    rcases iter_genPass hR k w m hk with ⟨e', hp⟩ | hg
    · subst e'
      rcases hn with hn | hn
      · subst hn; exact Or.inl ⟨rfl, fun w' => ⟨hc, k, w', hp w', Or.inl rfl⟩⟩
      · rcases hbk _ n hn with ⟨e'', hp'⟩ | hg'
        · subst e''; exact Or.inl ⟨rfl, fun w' => ⟨hc, k, w', hp w', Or.inr (hp' w')⟩⟩
        · exact Or.inr fun w' => ⟨hc, k, w', hp w', Or.inr (hg' w')⟩
    · rcases hn with hn | hn
      · subst hn; exact Or.inr fun w' => ⟨hc, k, n, hg w', Or.inl rfl⟩
      · exact Or.inr fun w' => ⟨hc, k, m, hg w', Or.inr hn⟩
  | cont j => simp only [runS] at h ⊢; exact Or.inl ⟨h.2, fun w' => ⟨h.1, trivial⟩⟩
  | brk j => simp [runS] at h
  | ret => simp [runS] at h
  | raise => simp [runS] at h
  | with_ sup b => simp [runS] at h
  | try_ b hs e hf f => simp [runS] at h

theorem runB_genPass (x : Nat) (b : Block) (c : Bool) : GenPass (fun w n => runB x b w c n) := by
  intro w n h
  cases b with
  | nil => simp only [runB] at h ⊢; exact Or.inl ⟨h.2, fun w' => ⟨h.1, trivial⟩⟩
  | cons s r =>
    simp only [runB] at h ⊢
    rcases h with ⟨hc, h⟩ | ⟨m, h1, h2⟩
    · rcases runS_genPass x s true w n h with ⟨e, hp⟩ | hg
      · exact Or.inl ⟨e, fun w' => Or.inl ⟨hc, hp w'⟩⟩
      · exact Or.inr fun w' => Or.inl ⟨hc, hg w'⟩
    · rcases runS_genPass x s false w m h1 with ⟨e, hp⟩ | hg
      · subst e
        rcases runB_genPass x r c _ n h2 with ⟨e, hp'⟩ | hg'
        · subst e; exact Or.inl ⟨rfl, fun w' => Or.inr ⟨w', hp w', hp' w'⟩⟩
        · exact Or.inr fun w' => Or.inr ⟨w', hp w', hg' w'⟩
      · rcases runB_genPass x r c _ n h2 with ⟨e, hp'⟩ | hg'
        · subst e; exact Or.inr fun w' => Or.inr ⟨n, hg w', hp' n⟩
        · exact Or.inr fun w' => Or.inr ⟨m, hg w', hg' m⟩

theorem brkS_genPass (x : Nat) (s : Stmt) : GenPass (fun w n => brkS x s w n) := by
  intro w n h
  cases s with
  | brk j => simp only [brkS] at h ⊢; exact Or.inl ⟨h, fun w' => trivial⟩
  | ite t e =>
    simp only [brkS] at h ⊢
    exact genPass_or (brkB_genPass x t) (brkB_genPass x e) w n h
  | assign v d => simp [brkS] at h
  | use v u => simp [brkS] at h
  | call => simp [brkS] at h
  | loop iw a b e => simp [brkS] at h
  | cont j => simp [brkS] at h
  | ret => simp [brkS] at h
  | raise => simp [brkS] at h
  | with_ sup b => simp [brkS] at h
  | try_ b hs e hf f => simp [brkS] at h

theorem brkB_genPass (x : Nat) (b : Block) : GenPass (fun w n => brkB x b w n) := by
  intro w n h
  cases b with
  | nil => simp [brkB] at h
  | cons s r =>
    simp only [brkB] at h ⊢
    rcases h with h | ⟨m, h1, h2⟩
    · rcases brkS_genPass x s w n h with ⟨e, hp⟩ | hg
      · exact Or.inl ⟨e, fun w' => Or.inl (hp w')⟩
      · exact Or.inr fun w' => Or.inl (hg w')
    · rcases runS_genPass x s false w m h1 with ⟨e, hp⟩ | hg
      · subst e
        rcases brkB_genPass x r _ n h2 with ⟨e, hp'⟩ | hg'
        · subst e; exact Or.inl ⟨rfl, fun w' => Or.inr ⟨w', hp w', hp' w'⟩⟩
        · exact Or.inr fun w' => Or.inr ⟨w', hp w', hg' w'⟩
      · rcases brkB_genPass x r _ n h2 with ⟨e, hp'⟩ | hg'
        · subst e; exact Or.inr fun w' => Or.inr ⟨n, hg w', hp' n⟩
        · exact Or.inr fun w' => Or.inr ⟨m, hg w', hg' m⟩
end

/-! ## Part 5 — the loop case of the visitor, unfolded for the simple fragment -/

/-- state at the end of the first visit of a loop body -/
def loopV1 (f : St → St) (st : St) : St := f { enter st with loops := [] }
/-- state after `loop_scope` has been left (inside the `body_scope` subscope) -/
def loopA (f : St → St) (st : St) : St :=
  combine (((loopV1 f st).cur :: (loopV1 f st).loops).map fun s => { s with ll := false })
    { loopV1 f st with cur := (enter st).cur, loops := st.loops }
/-- state after `_handle_loop_else` (no `else`, not always entered): the seed of the second visit -/
def loopB (f : St → St) (st : St) : St :=
  combine [(loopA f st).cur, { st.cur with ls := false }] { loopA f st with cur := st.cur }

theorem visit_loop_simple (x : Nat) (w : Bool) (body : Block) (st : St) :
    visitStmt true x (.loop w false body .nil) st =
      { visitBlock true x body (enter (loopB (visitBlock true x body) st)) with
        cur := (loopB (visitBlock true x body) st).cur } := by
  unfold visitStmt
  simp [subscope, visitBlock, enter, subscopeR, loopScope, loopB, loopA, loopV1]

theorem visit_ite (c : Bool) (x : Nat) (t e : Block) (st : St) :
    visitStmt c x (.ite t e) st =
      combine [(visitBlock c x t (enter st)).cur,
               (visitBlock c x e (enter { visitBlock c x t (enter st) with cur := st.cur })).cur]
        { visitBlock c x e (enter { visitBlock c x t (enter st) with cur := st.cur }) with cur := st.cur } := by
  unfold visitStmt
  simp [subscope]

theorem filter_ll_strip (l : List Sub) : (l.map fun s => { s with ll := false }).filter (·.ll) = [] := by
  induction l with
  | nil => rfl
  | cons a l ih => simp [List.filter, ih]

/-! ## Part 6 — frame facts for the simple fragment -/

/-- what every visit guarantees: `current_loop_scopes` only grows, and a variable that is a key of the
dictionary stays one (also in the scopes pushed on `current_loop_scopes`) -/
structure Fr (a b : St) : Prop where
  loops : ∃ extra, b.loops = a.loops ++ extra ∧ ∀ sc ∈ extra, a.cur.x.isSome → sc.x.isSome
  xs : a.cur.x.isSome → b.cur.x.isSome

theorem Fr.rfl' (a : St) : Fr a a := ⟨⟨[], by simp, by simp⟩, id⟩

theorem Fr.trans {a b c : St} (h1 : Fr a b) (h2 : Fr b c) : Fr a c := by
  obtain ⟨e1, hl1, hx1⟩ := h1.loops
  obtain ⟨e2, hl2, hx2⟩ := h2.loops
  refine ⟨⟨e1 ++ e2, by rw [hl2, hl1, List.append_assoc], fun sc hsc ha => ?_⟩, fun ha => h2.xs (h1.xs ha)⟩
  rcases List.mem_append.1 hsc with h | h
  · exact hx1 sc h ha
  · exact hx2 sc h (h1.xs ha)

/-- leaving a subscope: the dictionary is restored -/
theorem Fr.restore {a b : St} (h : Fr (enter a) b) : Fr a { b with cur := a.cur } := by
  obtain ⟨e, hl, hx⟩ := h.loops
  exact ⟨⟨e, hl, hx⟩, id⟩

theorem Fr.combine {a : St} (ss : List Sub) (h : ∀ sc ∈ ss, a.cur.x.isSome → sc.x.isSome) :
    Fr a (combine ss a) :=
  ⟨⟨ss.filter (·.ll), by simp, fun sc hsc => h sc (List.mem_filter.1 hsc).1⟩, combine_x_isSome⟩

mutual
theorem frS (x : Nat) (s : Stmt) (hs : s.simple = true) (st : St) :
    Fr st (visitStmt true x s st) ∧ (s.isJump = false → (visitStmt true x s st).cur.ll = st.cur.ll) := by
  cases s with
  | assign v d =>
    unfold visitStmt; split
    · exact ⟨⟨⟨[], by simp [setX], by simp⟩, fun _ => rfl⟩, fun _ => rfl⟩
    · exact ⟨Fr.rfl' _, fun _ => rfl⟩
  | use v u =>
    unfold visitStmt; split
    · refine ⟨⟨⟨[], ?_, by simp⟩, ?_⟩, fun _ => ?_⟩ <;> (unfold useX; simp only [if_true]; split <;> simp)
    · exact ⟨Fr.rfl' _, fun _ => rfl⟩
  | call => unfold visitStmt; exact ⟨Fr.rfl' _, fun _ => rfl⟩
  | cont j =>
    unfold visitStmt
    exact ⟨⟨⟨[], by simp [setLL], by simp⟩, id⟩, fun h => by simp [Stmt.isJump] at h⟩
  | ret => unfold visitStmt; exact ⟨⟨⟨[], by simp [setLS], by simp⟩, id⟩, fun _ => rfl⟩
  | raise => unfold visitStmt; exact ⟨⟨⟨[], by simp [setLS], by simp⟩, id⟩, fun _ => rfl⟩
  | brk j =>
    unfold visitStmt
    exact ⟨⟨⟨[], by simp [setLL], by simp⟩, id⟩, fun h => by simp [Stmt.isJump] at h⟩
  | with_ sup b => simp [Stmt.simple] at hs
  | try_ b hs' e hf f => simp [Stmt.simple] at hs
  | ite t e =>
    simp only [Stmt.simple, Bool.and_eq_true] at hs
    rw [visit_ite]
    have h1 := (frB x t hs.1 (enter st)).restore
    have h2 := (frB x e hs.2 (enter { visitBlock true x t (enter st) with cur := st.cur })).restore
    have h12 := h1.trans h2
    have hb := (frB x t hs.1 (enter st)).xs
    have he := (frB x e hs.2 (enter { visitBlock true x t (enter st) with cur := st.cur })).xs
    refine ⟨h12.trans (Fr.combine _ ?_), fun _ => by simp⟩
    intro sc hsc hx
    simp only [List.mem_cons, List.mem_nil_iff, or_false] at hsc
    rcases hsc with h | h
    · subst h; exact hb hx
    · subst h; exact he hx
  | loop w a body orelse =>
    simp only [Stmt.simple, Bool.and_eq_true, Bool.not_eq_true'] at hs
    obtain ⟨⟨ha, he⟩, hb⟩ := hs
    subst ha
    cases orelse with
    | cons _ _ => simp [Block.isNil] at he
    | nil =>
    rw [visit_loop_simple]
    have f1 := frB x body hb { enter st with loops := [] }
    -- A
    have hA : Fr st { loopA (visitBlock true x body) st with cur := st.cur } ∧
        (st.cur.x.isSome → (loopA (visitBlock true x body) st).cur.x.isSome) ∧
        (loopA (visitBlock true x body) st).cur.ll = st.cur.ll := by
      unfold loopA
      refine ⟨⟨⟨[], ?_, by simp⟩, id⟩, fun hx => combine_x_isSome hx, by simp [enter]⟩
      simp only [combine_loops, filter_ll_strip, List.append_nil]
    -- B
    have hB : Fr st (loopB (visitBlock true x body) st) ∧
        (loopB (visitBlock true x body) st).cur.ll = st.cur.ll := by
      unfold loopB
      refine ⟨hA.1.trans (Fr.combine _ ?_), by simp⟩
      intro sc hsc hx
      simp only [List.mem_cons, List.mem_nil_iff, or_false] at hsc
      rcases hsc with h | h
      · subst h; exact hA.2.1 hx
      · subst h; exact hx
    have f2 := (frB x body hb (enter (loopB (visitBlock true x body) st)))
    have f2' : Fr (loopB (visitBlock true x body) st)
        { visitBlock true x body (enter (loopB (visitBlock true x body) st)) with
          cur := (loopB (visitBlock true x body) st).cur } := f2.restore
    exact ⟨hB.1.trans f2', fun _ => hB.2⟩

theorem frB (x : Nat) (b : Block) (hb : b.simple = true) (st : St) : Fr st (visitBlock true x b st) := by
  cases b with
  | nil => unfold visitBlock; exact Fr.rfl' _
  | cons s r =>
    simp only [Block.simple, Bool.and_eq_true] at hb
    unfold visitBlock
    exact (frS x s hb.1.1 st).1.trans (frB x r hb.1.2 _)
end

/-! ## Part 7 — every path of the simple fragment is covered by the visitor (definitions) -/

/-- the assignment `x = d` is recorded for use `u` -/
def GoodD (m : List (Nat × List Node)) (u d : Nat) : Prop := ∃ l, lookup u m = some l ∧ some d ∈ l

/-- entries of `usage_to_definition_nodes` only grow -/
def Grow (a b : St) : Prop := ∀ u l, lookup u a.u2d = some l → ∃ l', lookup u b.u2d = some (l ++ l')

theorem frame_grow : FrameRel Grow where
  refl := fun _ u l h => ⟨[], by simpa using h⟩
  trans := fun a b c h1 h2 u l h => by
    obtain ⟨l1, h1'⟩ := h1 u l h
    obtain ⟨l2, h2'⟩ := h2 u _ h1'
    exact ⟨l1 ++ l2, by simpa [List.append_assoc] using h2'⟩
  congr := fun a a' b b' h1 h2 h => by unfold Grow SameObs at *; rw [h2.1, h1.1]; exact h

theorem useX_grow (c : Bool) (u : Nat) : Est Grow (useX c u) := by
  intro st u' l h
  unfold useX
  split
  · split
    · rename_i ds _
      by_cases hu : u' = u
      · subst hu; exact ⟨ds, by simp [lookup_addUse_self, h]⟩
      · exact ⟨[], by simpa [lookup_addUse_ne _ hu] using h⟩
    · exact ⟨[], by simpa using h⟩
  · exact ⟨[], by simpa using h⟩

theorem visitBlock_grow (c : Bool) (x : Nat) (b : Block) (st : St) : Grow st (visitBlock c x b st) :=
  visitBlock_est frame_grow c x b (fun u _ => useX_grow c u) st

theorem visitStmt_grow (c : Bool) (x : Nat) (s : Stmt) (st : St) : Grow st (visitStmt c x s st) :=
  visitStmt_est frame_grow c x s (fun u _ => useX_grow c u) st

theorem GoodD.mono {a b : St} (h : Grow a b) {u d : Nat} (hg : GoodD a.u2d u d) : GoodD b.u2d u d := by
  obtain ⟨l, hl, hd⟩ := hg
  obtain ⟨l', hl'⟩ := h u l hl
  exact ⟨l ++ l', hl', List.mem_append_left _ hd⟩

/-- a scope pushed on `current_loop_scopes` between the two states -/
def NewLoop (a b : St) (sc : Sub) : Prop := sc ∈ b.loops.drop a.loops.length

theorem NewLoop.of_mem {a b : St} {e : List Sub} (h : b.loops = a.loops ++ e) {sc : Sub} (hs : sc ∈ e) :
    NewLoop a b sc := by
  unfold NewLoop; rw [h]; simpa using hs

theorem NewLoop.mem {a b : St} {e : List Sub} (h : b.loops = a.loops ++ e) {sc : Sub} (hs : NewLoop a b sc) :
    sc ∈ e := by
  unfold NewLoop at hs; rw [h] at hs; simpa using hs

theorem NewLoop.right {a b c : St} {sc : Sub} (h : NewLoop a b sc) (hab : Fr a b) (hbc : Fr b c) :
    NewLoop a c sc := by
  obtain ⟨e1, h1, _⟩ := hab.loops
  obtain ⟨e2, h2, _⟩ := hbc.loops
  have := h.mem h1
  exact NewLoop.of_mem (e := e1 ++ e2) (by rw [h2, h1, List.append_assoc]) (List.mem_append_left _ this)

theorem NewLoop.left {a b c : St} {sc : Sub} (h : NewLoop b c sc) (hab : Fr a b) (hbc : Fr b c) :
    NewLoop a c sc := by
  obtain ⟨e1, h1, _⟩ := hab.loops
  obtain ⟨e2, h2, _⟩ := hbc.loops
  have := h.mem h2
  exact NewLoop.of_mem (e := e1 ++ e2) (by rw [h2, h1, List.append_assoc]) (List.mem_append_right _ this)

/-- what the simulation of one statement / block guarantees -/
structure Sim (x : Nat) (run : Bool → Node → Prop) (brk : Node → Prop) (obs : Nat → Node → Prop)
    (st st' : St) : Prop where
  norm : ∀ n, run false n → Cov st'.cur n ∧ st'.cur.ls = st.cur.ls ∧ st'.cur.ll = false
  cont : ∀ n, (run true n ∨ brk n) →
    (st'.cur.ll = true ∧ st'.cur.ls = st.cur.ls ∧ Cov st'.cur n) ∨
      ∃ sc, NewLoop st st' sc ∧ sc.ls = false ∧ sc.ll = true ∧ Cov sc n
  uses : ∀ u d, obs u (some d) → GoodD st'.u2d u d

theorem cov_enter {st : St} {w : Node} (h : Cov st.cur w) : Cov (enter st).cur w := h

theorem useX_cur (c : Bool) (u : Nat) (st : St) : (useX c u st).cur = st.cur := by
  unfold useX; split
  · split <;> rfl
  · rfl

theorem useX_loops (c : Bool) (u : Nat) (st : St) : (useX c u st).loops = st.loops := by
  unfold useX; split
  · split <;> rfl
  · rfl

theorem x_none_of_fr {a b : St} (h : Fr a b) (hb : b.cur.x = none) : a.cur.x = none := by
  cases ha : a.cur.x with
  | none => rfl
  | some l => have := h.xs (by simp [ha]); simp [hb] at this

theorem fr_enter_restore {st b : St} (h : Fr (enter st) b) : Fr st { b with cur := st.cur } := h.restore

mutual
theorem simS (x : Nat) (s : Stmt) (hs : s.simple = true) (st : St) (hll : st.cur.ll = false)
    (w : Node) (hw : Cov st.cur w) :
    Sim x (fun c n => runS x s w c n) (fun n => brkS x s w n) (fun u n => obsS x s w u n) st
      (visitStmt true x s st) := by
  cases s with
  | assign v d =>
    refine ⟨?_, ?_, ?_⟩
    · intro n h; simp only [runS] at h
      unfold visitStmt
      by_cases hv : v = x
      · rw [if_pos hv] at h; rw [if_pos hv, h.2]; exact ⟨by simp [Cov, setX], rfl, hll⟩
      · rw [if_neg hv] at h; rw [if_neg hv, h.2]; exact ⟨hw, rfl, hll⟩
    · intro n h; simp [runS, brkS] at h
    · intro u d h; simp [obsS] at h
  | use v u' =>
    refine ⟨?_, ?_, ?_⟩
    · intro n h; simp only [runS] at h
      unfold visitStmt
      split
      · rw [useX_cur, h.2]; exact ⟨hw, rfl, hll⟩
      · rw [h.2]; exact ⟨hw, rfl, hll⟩
    · intro n h; simp [runS, brkS] at h
    · intro u d h; simp only [obsS] at h
      obtain ⟨hv, hu, hd⟩ := h
      subst hv; subst hu
      unfold visitStmt; simp only [if_true]
      unfold useX; simp only [if_true]
      unfold Cov at hw
      cases hx : st.cur.x with
      | none => rw [hx] at hw; simp at hw; rw [← hd] at hw; cases hw
      | some ds =>
        rw [hx] at hw; simp only [Option.getD_some] at hw
        exact ⟨_, lookup_addUse_self _ _ _, List.mem_append_right _ (hd ▸ hw)⟩
  | call =>
    refine ⟨?_, ?_, ?_⟩
    · intro n h; simp only [runS] at h; unfold visitStmt; rw [h.2]; exact ⟨hw, rfl, hll⟩
    · intro n h; simp [runS, brkS] at h
    · intro u d h; simp [obsS] at h
  | cont j =>
    refine ⟨?_, ?_, ?_⟩
    · intro n h; simp [runS] at h
    · intro n h
      rcases h with h | h
      · simp only [runS] at h; unfold visitStmt; rw [h.2]
        exact Or.inl ⟨by simp [setLL], by simp [setLL], by simpa [Cov, setLL] using hw⟩
      · simp [brkS] at h
    · intro u d h; simp [obsS] at h
  | brk j =>
    refine ⟨?_, ?_, ?_⟩
    · intro n h; simp [runS] at h
    · intro n h
      rcases h with h | h
      · simp [runS] at h
      · simp only [brkS] at h; unfold visitStmt; rw [h]
        exact Or.inl ⟨by simp [setLL], by simp [setLL], by simpa [Cov, setLL] using hw⟩
    · intro u d h; simp [obsS] at h
  | ret =>
    refine ⟨?_, ?_, ?_⟩
    · intro n h; simp [runS] at h
    · intro n h; simp [runS, brkS] at h
    · intro u d h; simp [obsS] at h
  | raise =>
    refine ⟨?_, ?_, ?_⟩
    · intro n h; simp [runS] at h
    · intro n h; simp [runS, brkS] at h
    · intro u d h; simp [obsS] at h
  | with_ sup b => simp [Stmt.simple] at hs
  | try_ b hs' e hf f => simp [Stmt.simple] at hs
  | ite t e =>
    simp only [Stmt.simple, Bool.and_eq_true] at hs
    rw [visit_ite]
    -- names
    generalize hT : visitBlock true x t (enter st) = stT
    generalize hE : visitBlock true x e (enter { stT with cur := st.cur }) = stE
    have simT := simB x t hs.1 (enter st) hll w hw
    have simE := simB x e hs.2 (enter { stT with cur := st.cur }) hll w hw
    rw [hT] at simT; rw [hE] at simE
    have frT := frB x t hs.1 (enter st); rw [hT] at frT
    have frE := frB x e hs.2 (enter { stT with cur := st.cur }); rw [hE] at frE
    have fr1 : Fr st { stT with cur := st.cur } := frT.restore
    have fr2 : Fr { stT with cur := st.cur } { stE with cur := st.cur } := frE.restore
    have fr3 : Fr { stE with cur := st.cur } (combine [stT.cur, stE.cur] { stE with cur := st.cur }) :=
      Fr.combine _ (by
        intro sc hsc hx
        simp only [List.mem_cons, List.mem_nil_iff, or_false] at hsc
        rcases hsc with h | h
        · subst h; exact frT.xs hx
        · subst h; exact frE.xs hx)
    have hxT : stT.cur.x = none → st.cur.x = none := fun h => by
      have := x_none_of_fr frT h; exact this
    have hxE : stE.cur.x = none → st.cur.x = none := fun h => by
      have := x_none_of_fr frE h; exact this
    refine ⟨?_, ?_, ?_⟩
    · intro n h; simp only [runS] at h
      rcases h with h | h
      · obtain ⟨hc, hls, hl⟩ := simT.norm n h
        exact ⟨combine_cov (s := stT.cur) (by simp) hl hls hc hxT,
          combine_ls_kept (s := stT.cur) (by simp) hl hls, by simpa using hll⟩
      · obtain ⟨hc, hls, hl⟩ := simE.norm n h
        exact ⟨combine_cov (s := stE.cur) (by simp) hl hls hc hxE,
          combine_ls_kept (s := stE.cur) (by simp) hl hls, by simpa using hll⟩
    · intro n h; simp only [runS, brkS] at h
      have h' : (runB x t w true n ∨ brkB x t w n) ∨ (runB x e w true n ∨ brkB x e w n) := by
        rcases h with (h | h) | (h | h)
        · exact Or.inl (Or.inl h)
        · exact Or.inr (Or.inl h)
        · exact Or.inl (Or.inr h)
        · exact Or.inr (Or.inr h)
      right
      rcases h' with h | h
      · rcases simT.cont n h with ⟨hl, hls, hc⟩ | ⟨sc, hn, h1, h2, h3⟩
        · refine ⟨stT.cur, ?_, hls, hl, hc⟩
          have : NewLoop { stE with cur := st.cur } (combine [stT.cur, stE.cur] { stE with cur := st.cur }) stT.cur :=
            NewLoop.of_mem (e := [stT.cur, stE.cur].filter (·.ll)) (by simp) (by simp [List.filter, hl])
          exact (this.left fr2 fr3).left fr1 (fr2.trans fr3)
        · have : NewLoop st { stT with cur := st.cur } sc := hn
          exact ⟨sc, this.right fr1 (fr2.trans fr3), h1, h2, h3⟩
      · rcases simE.cont n h with ⟨hl, hls, hc⟩ | ⟨sc, hn, h1, h2, h3⟩
        · refine ⟨stE.cur, ?_, hls, hl, hc⟩
          have : NewLoop { stE with cur := st.cur } (combine [stT.cur, stE.cur] { stE with cur := st.cur }) stE.cur :=
            NewLoop.of_mem (e := [stT.cur, stE.cur].filter (·.ll)) (by simp) (by
              simp only [List.filter]; split <;> simp [hl])
          exact (this.left fr2 fr3).left fr1 (fr2.trans fr3)
        · have : NewLoop { stT with cur := st.cur } { stE with cur := st.cur } sc := hn
          exact ⟨sc, (this.right fr2 fr3).left fr1 (fr2.trans fr3), h1, h2, h3⟩
    · intro u d h; simp only [obsS] at h
      rcases h with h | h
      · have g := simT.uses u d h
        have gr : Grow stT stE := by
          have := visitBlock_grow true x e (enter { stT with cur := st.cur }); rw [hE] at this; exact this
        have := g.mono gr
        simpa using this
      · have := simE.uses u d h
        simpa using this
  | loop iw a body orelse =>
    simp only [Stmt.simple, Bool.and_eq_true, Bool.not_eq_true'] at hs
    obtain ⟨⟨ha, he⟩, hb⟩ := hs
    subst ha
    cases orelse with
    | cons _ _ => simp [Block.isNil] at he
    | nil =>
    rw [visit_loop_simple]
    -- the first visit
    have sim1 := fun w' (hw' : Cov st.cur w') =>
      simB x body hb { enter st with loops := [] } hll w' hw'
    have fr1 := frB x body hb { enter st with loops := [] }
    generalize hV1 : visitBlock true x body { enter st with loops := [] } = V1 at sim1 fr1
    have hA : loopA (visitBlock true x body) st =
        combine ((V1.cur :: V1.loops).map fun s => { s with ll := false })
          { V1 with cur := (enter st).cur, loops := st.loops } := by
      unfold loopA loopV1; rw [hV1]
    generalize hAe : loopA (visitBlock true x body) st = A at hA
    have hB : loopB (visitBlock true x body) st = combine [A.cur, { st.cur with ls := false }] { A with cur := st.cur } := by
      unfold loopB; rw [hAe]
    generalize hBe : loopB (visitBlock true x body) st = B at hB
    obtain ⟨ex1, hl1, hx1⟩ := fr1.loops
    simp only [List.nil_append] at hl1
    have hAxs : A.cur.x = none → st.cur.x = none := by
      intro h
      cases hx : st.cur.x with
      | none => rfl
      | some l =>
        have : A.cur.x.isSome := by
          rw [hA]; exact combine_x_isSome (by simp [enter, hx])
        simp [h] at this
    have hAll : A.cur.ll = false := by rw [hA]; simpa [enter] using hll
    -- everything the body can produce at a back edge or a break is covered by the seed of the second visit
    have cover1 : ∀ w' n, Cov st.cur w' →
        ((runB x body w' false n ∨ runB x body w' true n) ∨ brkB x body w' n) → Cov B.cur n := by
      intro w' n hw' hr
      have hsc : ∃ sc, sc ∈ V1.cur :: V1.loops ∧ sc.ls = false ∧ Cov sc n := by
        have hjump : (runB x body w' true n ∨ brkB x body w' n) → ∃ sc, sc ∈ V1.cur :: V1.loops ∧ sc.ls = false ∧ Cov sc n := by
          intro hr
          rcases (sim1 w' hw').cont n hr with ⟨_, hls, hc⟩ | ⟨sc, hn, h1, _, h3⟩
          · exact ⟨V1.cur, by simp, hls, hc⟩
          · have : sc ∈ ex1 := NewLoop.mem (a := { enter st with loops := [] }) (by simpa using hl1) hn
            exact ⟨sc, by simp [hl1, this], h1, h3⟩
        rcases hr with (hr | hr) | hr
        · obtain ⟨hc, hls, _⟩ := (sim1 w' hw').norm n hr
          exact ⟨V1.cur, by simp, hls, hc⟩
        · exact hjump (Or.inl hr)
        · exact hjump (Or.inr hr)
      obtain ⟨sc, hmem, hls, hc⟩ := hsc
      have hscx : sc.x = none → st.cur.x = none := by
        intro h
        simp only [List.mem_cons] at hmem
        rcases hmem with hm | hm
        · subst hm; have := x_none_of_fr fr1 h; exact this
        · cases hx : st.cur.x with
          | none => rfl
          | some l =>
            have := hx1 sc (hl1 ▸ hm) (by simp [enter, hx])
            simp [h] at this
      have hcA : Cov A.cur n := by
        rw [hA]
        refine combine_cov (s := { sc with ll := false }) ?_ rfl hls hc (by simpa [enter] using hscx)
        exact List.mem_map.2 ⟨sc, hmem, rfl⟩
      have hlsA : A.cur.ls = false := by
        rw [hA]
        have := combine_ls_kept (ss := (V1.cur :: V1.loops).map fun s => { s with ll := false })
          (st := { V1 with cur := (enter st).cur, loops := st.loops }) (s := { sc with ll := false })
          (List.mem_map.2 ⟨sc, hmem, rfl⟩) rfl hls
        simpa [enter] using this
      rw [hB]
      exact combine_cov (s := A.cur) (by simp) hAll hlsA hcA hAxs
    have cover0 : ∀ w', Cov st.cur w' → Cov B.cur w' := by
      intro w' hw'
      rw [hB]
      exact combine_cov (s := { st.cur with ls := false }) (by simp) hll rfl hw' (fun h => h)
    have hBls : B.cur.ls = st.cur.ls := by
      rw [hB]
      exact combine_ls_kept (s := { st.cur with ls := false }) (by simp) hll rfl
    have hBll : B.cur.ll = false := by rw [hB]; simpa using hll
    have gp := genPass_or (runB_genPass x body false) (runB_genPass x body true)
    have iterCover : ∀ k m, iter (fun a m => runB x body a false m ∨ runB x body a true m) k w m → Cov B.cur m := by
      intro k
      induction k with
      | zero => intro m h; simp only [iter] at h; rw [h]; exact cover0 w hw
      | succ k ih =>
        intro m h
        obtain ⟨m', h1, h2⟩ := h
        rcases gp m' m h2 with ⟨e', _⟩ | hg
        · rw [e']; exact ih m' h1
        · exact cover1 w m hw (Or.inl (hg w))
    -- the second visit
    have sim2 := fun m (hm : Cov B.cur m) => simB x body hb (enter B) hBll m hm
    refine ⟨?_, ?_, ?_⟩
    · intro n h; simp only [runS] at h
      obtain ⟨_, k, m, hk, hn⟩ := h
      refine ⟨?_, hBls, hBll⟩
      rcases hn with hn | hn
      · rw [hn]; exact iterCover k m hk
      · rcases brkB_genPass x body m n hn with ⟨e', _⟩ | hg
        · rw [e']; exact iterCover k m hk
        · exact cover1 w n hw (Or.inr (hg w))
    · intro n h; simp [runS, brkS] at h
    · intro u d h; simp only [obsS] at h
      obtain ⟨k, m, hk, ho⟩ := h
      exact (sim2 m (iterCover k m hk)).uses u d ho

theorem simB (x : Nat) (b : Block) (hb : b.simple = true) (st : St) (hll : st.cur.ll = false)
    (w : Node) (hw : Cov st.cur w) :
    Sim x (fun c n => runB x b w c n) (fun n => brkB x b w n) (fun u n => obsB x b w u n) st
      (visitBlock true x b st) := by
  cases b with
  | nil =>
    unfold visitBlock
    exact ⟨fun n h => by simp only [runB] at h; rw [h.2]; exact ⟨hw, rfl, hll⟩,
      fun n h => by simp [runB, brkB] at h, fun u d h => by simp [obsB] at h⟩
  | cons s r =>
    simp only [Block.simple, Bool.and_eq_true, Bool.or_eq_true, Bool.not_eq_true'] at hb
    obtain ⟨⟨hs, hr⟩, hj⟩ := hb
    unfold visitBlock
    have simS' := simS x s hs st hll w hw
    have frS' := frS x s hs st
    generalize hst1 : visitStmt true x s st = st1 at simS' frS'
    have frR := frB x r hr st1
    have simR := fun m (h1 : st1.cur.ll = false) (hm : Cov st1.cur m) => simB x r hr st1 h1 m hm
    refine ⟨?_, ?_, ?_⟩
    · intro n h; simp only [runB] at h
      rcases h with ⟨hc, _⟩ | ⟨m, h1, h2⟩
      · cases hc
      · obtain ⟨hc, hls, hl⟩ := simS'.norm m h1
        obtain ⟨hc', hls', hl'⟩ := (simR m hl hc).norm n h2
        exact ⟨hc', hls'.trans hls, hl'⟩
    · intro n h; simp only [runB, brkB] at h
      have h' : (runS x s w true n ∨ brkS x s w n) ∨
          ∃ m, runS x s w false m ∧ (runB x r m true n ∨ brkB x r m n) := by
        rcases h with (⟨_, h⟩ | ⟨m, h1, h2⟩) | (h | ⟨m, h1, h2⟩)
        · exact Or.inl (Or.inl h)
        · exact Or.inr ⟨m, h1, Or.inl h2⟩
        · exact Or.inl (Or.inr h)
        · exact Or.inr ⟨m, h1, Or.inr h2⟩
      rcases h' with h | ⟨m, h1, h2⟩
      · rcases simS'.cont n h with ⟨hl, hls, hc⟩ | ⟨sc, hn, h1, h2, h3⟩
        · cases r with
          | nil => unfold visitBlock; exact Or.inl ⟨hl, hls, hc⟩
          | cons s' r' =>
            simp [Block.isNil] at hj
            have := frS'.2 hj
            rw [this, hll] at hl; cases hl
        · exact Or.inr ⟨sc, hn.right frS'.1 frR, h1, h2, h3⟩
      · obtain ⟨hc, hls, hl⟩ := simS'.norm m h1
        rcases (simR m hl hc).cont n h2 with ⟨hl', hls', hc'⟩ | ⟨sc, hn, h1', h2', h3'⟩
        · exact Or.inl ⟨hl', hls'.trans hls, hc'⟩
        · exact Or.inr ⟨sc, hn.left frS'.1 frR, h1', h2', h3'⟩
    · intro u d h; simp only [obsB] at h
      rcases h with h | ⟨m, h1, h2⟩
      · exact (simS'.uses u d h).mono (visitBlock_grow true x r st1)
      · obtain ⟨hc, _, hl⟩ := simS'.norm m h1
        exact (simR m hl hc).uses u d h2
end

/-! ## Part 8 — everything the strict analysis computes is realised by a path (simple fragment) -/

@[simp] theorem union_nil_nil : union [] [] = [] := rfl

theorem union_eq_nil {a b : List Node} (ha : a = []) (hb : b = []) : union a b = [] := by subst ha; subst hb; rfl

/-- what "the analysis result `o` for input `ins` is justified by paths" means -/
structure Just (x : Nat) (ins : List Node) (o : Out) (run : Node → Bool → Node → Prop)
    (brk : Node → Node → Prop) (obs : Node → Nat → Node → Prop) : Prop where
  norm : ∀ n ∈ o.norm, ∃ w ∈ ins, run w false n
  cont : ∀ n ∈ o.cont, ∃ w ∈ ins, run w true n
  uses : ∀ u n, (u, n) ∈ o.uses → ∃ w ∈ ins, obs w u n
  brk : ∀ n ∈ o.brk, ∃ w ∈ ins, brk w n

theorem iterHead_paths {R : Node → Node → Prop} {back : List Node → List Node} {ins : List Node}
    (hb : ∀ h n, n ∈ back h → ∃ m ∈ h, R m n) :
    ∀ k n, n ∈ iterHead back ins k → ∃ w ∈ ins, ∃ j, iter R j w n
  | 0, n, h => ⟨n, h, 0, rfl⟩
  | k + 1, n, h => by
    simp only [iterHead, mem_union] at h
    rcases h with h | h
    · exact iterHead_paths hb k n h
    · obtain ⟨m, hm, hr⟩ := hb _ n h
      obtain ⟨w, hw, j, hj⟩ := iterHead_paths hb k m hm
      exact ⟨w, hw, j + 1, m, hj, hr⟩

mutual
theorem justS (x : Nat) (s : Stmt) (hs : s.simple = true) (ins : List Node) (hne : ins ≠ []) :
    Just x ins (flowStmt false x s ins) (fun w c n => runS x s w c n) (fun w n => brkS x s w n)
      (fun w u n => obsS x s w u n) := by
  obtain ⟨w0, hw0⟩ := List.exists_mem_of_ne_nil ins hne
  cases s with
  | assign v d =>
    unfold flowStmt
    refine ⟨?_, by simp, by simp, by simp⟩
    intro n hn
    by_cases hv : v = x
    · simp only [hv, if_true, List.mem_singleton] at hn
      exact ⟨w0, hw0, by simp [runS, hv, hn]⟩
    · simp only [hv, if_false] at hn
      exact ⟨n, hn, by simp [runS, hv]⟩
  | use v u' =>
    unfold flowStmt
    refine ⟨fun n hn => ⟨n, hn, by simp [runS]⟩, by simp, ?_, by simp⟩
    intro u n hn
    by_cases hv : v = x
    · simp only [hv, if_true, List.mem_map, Prod.mk.injEq] at hn
      obtain ⟨a, ha, hu, hna⟩ := hn
      exact ⟨n, hna ▸ ha, by simp [obsS, hv, hu]⟩
    · simp [hv] at hn
  | call =>
    unfold flowStmt
    exact ⟨fun n hn => ⟨n, hn, by simp [runS]⟩, by simp, by simp, by simp⟩
  | cont j =>
    unfold flowStmt
    exact ⟨by simp, fun n hn => ⟨n, hn, by simp [runS]⟩, by simp, by simp⟩
  | brk j =>
    unfold flowStmt
    exact ⟨by simp, by simp, by simp, fun n hn => ⟨n, hn, by simp [brkS]⟩⟩
  | ret => unfold flowStmt; exact ⟨by simp, by simp, by simp, by simp⟩
  | raise => unfold flowStmt; exact ⟨by simp, by simp, by simp, by simp⟩
  | with_ sup b => simp [Stmt.simple] at hs
  | try_ b hs' e hf f => simp [Stmt.simple] at hs
  | ite t e =>
    simp only [Stmt.simple, Bool.and_eq_true] at hs
    have jt := justB x t hs.1 ins
    have je := justB x e hs.2 ins
    unfold flowStmt
    refine ⟨?_, ?_, ?_, ?_⟩
    · intro n hn
      simp only [Out.absorbN, Out.absorb, mem_union, List.not_mem_nil, false_or] at hn
      rcases hn with hn | hn
      · obtain ⟨w, hw, hr⟩ := jt.norm n hn; exact ⟨w, hw, by simp only [runS]; exact Or.inl hr⟩
      · obtain ⟨w, hw, hr⟩ := je.norm n hn; exact ⟨w, hw, by simp only [runS]; exact Or.inr hr⟩
    · intro n hn
      simp only [Out.absorbN, Out.absorb, mem_union, List.not_mem_nil, false_or] at hn
      rcases hn with hn | hn
      · obtain ⟨w, hw, hr⟩ := jt.cont n hn; exact ⟨w, hw, by simp only [runS]; exact Or.inl hr⟩
      · obtain ⟨w, hw, hr⟩ := je.cont n hn; exact ⟨w, hw, by simp only [runS]; exact Or.inr hr⟩
    · intro u n hn
      simp only [Out.absorbN, Out.absorb, List.nil_append, List.mem_append] at hn
      rcases hn with hn | hn
      · obtain ⟨w, hw, hr⟩ := jt.uses u n hn; exact ⟨w, hw, by simp only [obsS]; exact Or.inl hr⟩
      · obtain ⟨w, hw, hr⟩ := je.uses u n hn; exact ⟨w, hw, by simp only [obsS]; exact Or.inr hr⟩
    · intro n hn
      simp only [Out.absorbN, Out.absorb, mem_union, List.not_mem_nil, false_or] at hn
      rcases hn with hn | hn
      · obtain ⟨w, hw, hr⟩ := jt.brk n hn; exact ⟨w, hw, by simp only [brkS]; exact Or.inl hr⟩
      · obtain ⟨w, hw, hr⟩ := je.brk n hn; exact ⟨w, hw, by simp only [brkS]; exact Or.inr hr⟩
  | loop iw a body orelse =>
    simp only [Stmt.simple, Bool.and_eq_true, Bool.not_eq_true'] at hs
    obtain ⟨⟨ha, he⟩, hb⟩ := hs
    subst ha
    cases orelse with
    | cons _ _ => simp [Block.isNil] at he
    | nil =>
    have jb := fun h => justB x body hb h
    have hback : ∀ h n, n ∈ (fun h => union (flowBlock false x body h).norm (flowBlock false x body h).cont) h →
        ∃ m ∈ h, (fun a m => runB x body a false m ∨ runB x body a true m) m n := by
      intro h n hn
      simp only [mem_union] at hn
      rcases hn with hn | hn
      · obtain ⟨m, hm, hr⟩ := (jb h).norm n hn; exact ⟨m, hm, Or.inl hr⟩
      · obtain ⟨m, hm, hr⟩ := (jb h).cont n hn; exact ⟨m, hm, Or.inr hr⟩
    have hhead := iterHead_paths (ins := ins) hback (body.size + 2)
    unfold flowStmt
    simp only [flowLoop, Bool.and_false, Bool.not_false, Bool.false_or, if_true, flowBlock]
    generalize hH : iterHead (fun h => union (flowBlock false x body h).norm (flowBlock false x body h).cont) ins
      (body.size + 2) = head at hhead
    refine ⟨?_, ?_, ?_, ?_⟩
    · intro n hn
      simp only [Out.absorb, mem_union, Bool.false_eq_true, if_false] at hn
      rcases hn with hn | hn
      · obtain ⟨m, hm, hbk⟩ := (jb head).brk n hn
        obtain ⟨w, hw, j, hj⟩ := hhead m hm
        exact ⟨w, hw, by simp only [runS]; exact ⟨trivial, j, m, hj, Or.inr hbk⟩⟩
      · obtain ⟨w, hw, j, hj⟩ := hhead n hn
        exact ⟨w, hw, by simp only [runS]; exact ⟨trivial, j, n, hj, Or.inl rfl⟩⟩
    · intro n hn
      simp [Out.absorb] at hn
    · intro u n hn
      simp only [Out.absorb, List.append_nil] at hn
      obtain ⟨m, hm, ho⟩ := (jb head).uses u n hn
      obtain ⟨w, hw, j, hj⟩ := hhead m hm
      exact ⟨w, hw, by simp only [obsS]; exact ⟨j, m, hj, ho⟩⟩
    · intro n hn
      simp [Out.absorb] at hn

theorem justB (x : Nat) (b : Block) (hb : b.simple = true) (ins : List Node) :
    Just x ins (flowBlock false x b ins) (fun w c n => runB x b w c n) (fun w n => brkB x b w n)
      (fun w u n => obsB x b w u n) := by
  cases b with
  | nil =>
    unfold flowBlock
    exact ⟨fun n hn => ⟨n, hn, by simp [runB]⟩, by simp, by simp, by simp⟩
  | cons s r =>
    simp only [Block.simple, Bool.and_eq_true] at hb
    unfold flowBlock
    by_cases hemp : ins.isEmpty = true
    · simp only [hemp, if_true]
      exact ⟨by simp, by simp, by simp, by simp⟩
    · simp only [hemp]
      have hne : ins ≠ [] := by intro h; simp [h] at hemp
      have js := justS x s hb.1.1 ins hne
      have jr := justB x r hb.1.2 (flowStmt false x s ins).norm
      refine ⟨?_, ?_, ?_, ?_⟩
      · intro n hn
        simp only [Bool.false_eq_true, if_false] at hn
        obtain ⟨m, hm, hr⟩ := jr.norm n hn
        obtain ⟨w, hw, hs'⟩ := js.norm m hm
        exact ⟨w, hw, by simp only [runB]; exact Or.inr ⟨m, hs', hr⟩⟩
      · intro n hn
        simp only [Bool.false_eq_true, if_false, mem_union] at hn
        rcases hn with hn | hn
        · obtain ⟨w, hw, hs'⟩ := js.cont n hn
          exact ⟨w, hw, by simp only [runB]; exact Or.inl ⟨trivial, hs'⟩⟩
        · obtain ⟨m, hm, hr⟩ := jr.cont n hn
          obtain ⟨w, hw, hs'⟩ := js.norm m hm
          exact ⟨w, hw, by simp only [runB]; exact Or.inr ⟨m, hs', hr⟩⟩
      · intro u n hn
        simp only [Bool.false_eq_true, if_false, List.mem_append] at hn
        rcases hn with hn | hn
        · obtain ⟨w, hw, ho⟩ := js.uses u n hn
          exact ⟨w, hw, by simp only [obsB]; exact Or.inl ho⟩
        · obtain ⟨m, hm, ho⟩ := jr.uses u n hn
          obtain ⟨w, hw, hs'⟩ := js.norm m hm
          exact ⟨w, hw, by simp only [obsB]; exact Or.inr ⟨m, hs', ho⟩⟩
      · intro n hn
        simp only [Bool.false_eq_true, if_false, mem_union] at hn
        rcases hn with hn | hn
        · obtain ⟨w, hw, hs'⟩ := js.brk n hn
          exact ⟨w, hw, by simp only [brkB]; exact Or.inl hs'⟩
        · obtain ⟨m, hm, hr⟩ := jr.brk n hn
          obtain ⟨w, hw, hs'⟩ := js.norm m hm
          exact ⟨w, hw, by simp only [brkB]; exact Or.inr ⟨m, hs', hr⟩⟩
end

/-! ## Part 9 — soundness for definitions -/

theorem mem_reaching {lib : Bool} {p : Block} {x u : Nat} {n : Node} :
    n ∈ reaching lib p x u ↔ (u, n) ∈ (flowBlock lib x p [none]).uses := by
  unfold reaching
  simp only [List.mem_map, List.mem_filter, decide_eq_true_eq]
  constructor
  · rintro ⟨⟨u', n'⟩, ⟨hm, hu⟩, hn⟩
    simp only at hu hn; subst hu; subst hn; exact hm
  · intro h; exact ⟨(u, n), ⟨h, rfl⟩, rfl⟩

theorem cov_init : Cov ({} : St).cur none := by simp [Cov]

theorem sound_defs (p : Block) (hp : p.simple = true) (x u d : Nat)
    (h : some d ∈ reaching false p x u) : some d ∈ reported p x u := by
  rw [mem_reaching] at h
  obtain ⟨w, hw, ho⟩ := (justB x p hp [none]).uses u (some d) h
  simp only [List.mem_singleton] at hw; subst hw
  obtain ⟨l, hl, hd⟩ := (simB x p hp {} rfl none cov_init).uses u d ho
  unfold reported collect
  rw [hl]; exact hd

/-! ## Part 10 — a visit is a function of the current dictionary (simple fragment)

`usage_to_definition_nodes` and `current_loop_scopes` are write-only accumulators: what a visit appends to them
depends only on `name_to_current_definition_nodes` at its start. -/

/-- a fresh scope object whose current dictionary is `c` -/
def base (c : Sub) : St := { cur := c }

/-- `defaultdict(list)` accumulation of two logs -/
def merge : Option (List Node) → Option (List Node) → Option (List Node)
  | none, y => y
  | some a, none => some a
  | some a, some b => some (a ++ b)

@[simp] theorem merge_none_right (a : Option (List Node)) : merge a none = a := by cases a <;> rfl
@[simp] theorem merge_none_left (a : Option (List Node)) : merge none a = a := rfl

theorem merge_assoc (a b c : Option (List Node)) : merge (merge a b) c = merge a (merge b c) := by
  cases a <;> cases b <;> cases c <;> simp [merge]

theorem lookup_addUse (u u0 : Nat) (ds : List Node) (m : List (Nat × List Node)) :
    lookup u (addUse u0 ds m) = merge (lookup u m) (if u = u0 then some ds else none) := by
  by_cases h : u = u0
  · subst h; rw [lookup_addUse_self]; cases lookup u m <;> simp [merge]
  · rw [lookup_addUse_ne _ h]; simp [h]

/-- `b` is obtained from `a` as `r` is obtained from the fresh state with the same dictionary -/
structure Fun (a b r : St) : Prop where
  cur : b.cur = r.cur
  loops : b.loops = a.loops ++ r.loops
  u2d : ∀ u, lookup u b.u2d = merge (lookup u a.u2d) (lookup u r.u2d)

theorem combine_cur (ss : List Sub) (st : St) : (combine ss st).cur = (combine ss (base st.cur)).cur := by
  unfold combine base; dsimp only
  split
  · rfl
  · split <;> rfl

theorem lookup_nil (u : Nat) : lookup u ([] : List (Nat × List Node)) = none := rfl

mutual
theorem funS (x : Nat) (s : Stmt) (hs : s.simple = true) (a : St) :
    Fun a (visitStmt true x s a) (visitStmt true x s (base a.cur)) := by
  cases s with
  | assign v d =>
    unfold visitStmt; split
    · exact ⟨rfl, by simp [setX, base], fun u => by simp [setX, base, lookup_nil]⟩
    · exact ⟨rfl, by simp [base], fun u => by simp [base, lookup_nil]⟩
  | use v u0 =>
    unfold visitStmt; split
    · unfold useX; simp only [if_true]
      cases hx : a.cur.x with
      | none => simp only [base, hx]; exact ⟨rfl, by simp, fun u => by simp [lookup_nil]⟩
      | some ds =>
        simp only [base, hx]
        exact ⟨rfl, by simp, fun u => by rw [lookup_addUse, lookup_addUse]; simp [lookup_nil]⟩
    · exact ⟨rfl, by simp [base], fun u => by simp [base, lookup_nil]⟩
  | call => unfold visitStmt; exact ⟨rfl, by simp [base], fun u => by simp [base, lookup_nil]⟩
  | cont j => unfold visitStmt; exact ⟨rfl, by simp [setLL, base], fun u => by simp [setLL, base, lookup_nil]⟩
  | ret => unfold visitStmt; exact ⟨rfl, by simp [setLS, base], fun u => by simp [setLS, base, lookup_nil]⟩
  | raise => unfold visitStmt; exact ⟨rfl, by simp [setLS, base], fun u => by simp [setLS, base, lookup_nil]⟩
  | brk j => unfold visitStmt; exact ⟨rfl, by simp [setLL, base], fun u => by simp [setLL, base, lookup_nil]⟩
  | with_ sup b => simp [Stmt.simple] at hs
  | try_ b hs' e hf f => simp [Stmt.simple] at hs
  | ite t e =>
    simp only [Stmt.simple, Bool.and_eq_true] at hs
    rw [visit_ite, visit_ite]
    -- run from `a`
    have t1 := funB x t hs.1 (enter a)
    have t2 := funB x t hs.1 (enter (base a.cur))
    have hc : (enter (base a.cur)).cur = (enter a).cur := rfl
    rw [hc] at t2
    generalize visitBlock true x t (enter a) = T1 at t1
    generalize visitBlock true x t (enter (base a.cur)) = T2 at t2
    generalize visitBlock true x t (base (enter a).cur) = T0 at t1 t2
    have e1 := funB x e hs.2 (enter { T1 with cur := a.cur })
    have e2 := funB x e hs.2 (enter { T2 with cur := (base a.cur).cur })
    have hc2 : (enter { T2 with cur := (base a.cur).cur }).cur = (enter { T1 with cur := a.cur }).cur := rfl
    rw [hc2] at e2
    generalize visitBlock true x e (enter { T1 with cur := a.cur }) = E1 at e1
    generalize visitBlock true x e (enter { T2 with cur := (base a.cur).cur }) = E2 at e2
    generalize visitBlock true x e (base (enter { T1 with cur := a.cur }).cur) = E0 at e1 e2
    refine ⟨?_, ?_, ?_⟩
    · rw [combine_cur, combine_cur (st := { E2 with cur := (base a.cur).cur })]
      rw [t1.cur, t2.cur, e1.cur, e2.cur]; rfl
    · simp only [combine_loops]
      rw [e1.loops, e2.loops, t1.cur, t2.cur, e1.cur, e2.cur]
      simp only [enter]
      rw [t1.loops, t2.loops]
      simp [enter, base]
    · intro u
      simp only [combine_u2d]
      rw [e1.u2d, e2.u2d]
      simp only [enter]
      rw [t1.u2d, t2.u2d]
      simp [enter, base, lookup_nil, merge_assoc]
  | loop iw al body orelse =>
    simp only [Stmt.simple, Bool.and_eq_true, Bool.not_eq_true'] at hs
    obtain ⟨⟨ha, he⟩, hb⟩ := hs
    subst ha
    cases orelse with
    | cons _ _ => simp [Block.isNil] at he
    | nil =>
    rw [visit_loop_simple, visit_loop_simple]
    -- first visits
    have v1 := funB x body hb { enter a with loops := [] }
    have v2 := funB x body hb { enter (base a.cur) with loops := [] }
    have hc : ({ enter (base a.cur) with loops := [] } : St).cur = ({ enter a with loops := [] } : St).cur := rfl
    rw [hc] at v2
    unfold loopB loopA loopV1
    generalize visitBlock true x body { enter a with loops := [] } = V1 at v1
    generalize visitBlock true x body { enter (base a.cur) with loops := [] } = V2 at v2
    generalize visitBlock true x body (base ({ enter a with loops := [] } : St).cur) = V0 at v1 v2
    have hl1 : V1.loops = V0.loops := by simpa using v1.loops
    have hl2 : V2.loops = V0.loops := by simpa using v2.loops
    -- A
    generalize hA1 : combine ((V1.cur :: V1.loops).map fun s => { s with ll := false })
      { V1 with cur := (enter a).cur, loops := a.loops } = A1
    generalize hA2 : combine ((V2.cur :: V2.loops).map fun s => { s with ll := false })
      { V2 with cur := (enter (base a.cur)).cur, loops := (base a.cur).loops } = A2
    have hAc : A1.cur = A2.cur := by
      rw [← hA1, ← hA2, combine_cur, combine_cur (st := { V2 with cur := _, loops := _ })]
      rw [v1.cur, v2.cur, hl1, hl2]; rfl
    have hAl1 : A1.loops = a.loops := by rw [← hA1]; simp [filter_ll_strip]
    have hAl2 : A2.loops = [] := by rw [← hA2]; simp [filter_ll_strip, base]
    have hAu1 : A1.u2d = V1.u2d := by rw [← hA1]; simp
    have hAu2 : A2.u2d = V2.u2d := by rw [← hA2]; simp
    -- B
    generalize hB1 : combine [A1.cur, { a.cur with ls := false }] { A1 with cur := a.cur } = B1
    generalize hB2 : combine [A2.cur, { (base a.cur).cur with ls := false }] { A2 with cur := (base a.cur).cur } = B2
    have hBc : B1.cur = B2.cur := by
      rw [← hB1, ← hB2, combine_cur, combine_cur (st := { A2 with cur := _ }), hAc]; rfl
    have hBl1 : B1.loops = a.loops ++ [A1.cur, { a.cur with ls := false }].filter (·.ll) := by
      rw [← hB1]; simp [hAl1]
    have hBl2 : B2.loops = [A1.cur, { a.cur with ls := false }].filter (·.ll) := by
      rw [← hB2]; simp [hAl2, hAc, base]
    have hBu1 : B1.u2d = V1.u2d := by rw [← hB1]; simp [hAu1]
    have hBu2 : B2.u2d = V2.u2d := by rw [← hB2]; simp [hAu2]
    -- second visits
    have w1 := funB x body hb (enter B1)
    have w2 := funB x body hb (enter B2)
    have hc3 : (enter B2).cur = (enter B1).cur := by simp [enter, hBc]
    rw [hc3] at w2
    generalize visitBlock true x body (enter B1) = W1 at w1
    generalize visitBlock true x body (enter B2) = W2 at w2
    generalize visitBlock true x body (base (enter B1).cur) = W0 at w1 w2
    refine ⟨hBc, ?_, ?_⟩
    · show W1.loops = a.loops ++ W2.loops
      rw [w1.loops, w2.loops]; simp [enter, hBl1, hBl2]
    · intro u
      show lookup u W1.u2d = merge (lookup u a.u2d) (lookup u W2.u2d)
      rw [w1.u2d, w2.u2d]
      simp only [enter, hBu1, hBu2]
      rw [v1.u2d, v2.u2d]
      simp [enter, base, lookup_nil, merge_assoc]

theorem funB (x : Nat) (b : Block) (hb : b.simple = true) (a : St) :
    Fun a (visitBlock true x b a) (visitBlock true x b (base a.cur)) := by
  cases b with
  | nil => unfold visitBlock; exact ⟨rfl, by simp [base], fun u => by simp [base, lookup_nil]⟩
  | cons s r =>
    simp only [Block.simple, Bool.and_eq_true] at hb
    unfold visitBlock
    have s1 := funS x s hb.1.1 a
    generalize visitStmt true x s a = S1 at s1
    generalize visitStmt true x s (base a.cur) = S0 at s1
    have r1 := funB x r hb.1.2 S1
    have r0 := funB x r hb.1.2 S0
    rw [s1.cur] at r1
    generalize visitBlock true x r S1 = R1 at r1
    generalize visitBlock true x r S0 = R0 at r0
    generalize visitBlock true x r (base S0.cur) = RR at r1 r0
    refine ⟨by rw [r1.cur, r0.cur], ?_, ?_⟩
    · rw [r1.loops, r0.loops, s1.loops, List.append_assoc]
    · intro u; rw [r1.u2d, r0.u2d, s1.u2d, merge_assoc]
end

/-! ## Part 11 — soundness for the unbound marker (simple fragment, distinct use ids) -/

mutual
theorem obsS_mem (x : Nat) (s : Stmt) (w : Node) (u : Nat) (n : Node) (h : obsS x s w u n) : u ∈ s.useIds := by
  cases s with
  | use v u' => simp only [obsS] at h; simp [Stmt.useIds, h.2.1]
  | ite t e =>
    simp only [obsS] at h
    rcases h with h | h
    · simp [Stmt.useIds, obsB_mem x t w u n h]
    · simp [Stmt.useIds, obsB_mem x e w u n h]
  | loop iw a b e =>
    simp only [obsS] at h
    obtain ⟨k, m, _, ho⟩ := h
    simp [Stmt.useIds, obsB_mem x b m u n ho]
  | assign v d => simp [obsS] at h
  | call => simp [obsS] at h
  | brk j => simp [obsS] at h
  | cont j => simp [obsS] at h
  | ret => simp [obsS] at h
  | raise => simp [obsS] at h
  | with_ sup b => simp [obsS] at h
  | try_ b hs e hf f => simp [obsS] at h

theorem obsB_mem (x : Nat) (b : Block) (w : Node) (u : Nat) (n : Node) (h : obsB x b w u n) : u ∈ b.useIds := by
  cases b with
  | nil => simp [obsB] at h
  | cons s r =>
    simp only [obsB] at h
    rcases h with h | ⟨m, _, h⟩
    · simp [Block.useIds, obsS_mem x s w u n h]
    · simp [Block.useIds, obsB_mem x r m u n h]
end

theorem grow_isSome {a b : St} (h : Grow a b) {u : Nat} (hs : (lookup u a.u2d).isSome) :
    (lookup u b.u2d).isSome := by
  cases hl : lookup u a.u2d with
  | none => simp [hl] at hs
  | some l => obtain ⟨l', h'⟩ := h u l hl; simp [h']

mutual
/-- once `x` is a key of the dictionary every use of `x` that a path reaches gets an entry -/
theorem recS (x : Nat) (s : Stmt) (hs : s.simple = true) (a : St) (hx : a.cur.x.isSome)
    (w : Node) (u : Nat) (n : Node) (ho : obsS x s w u n) :
    (lookup u (visitStmt true x s a).u2d).isSome := by
  cases s with
  | use v u' =>
    simp only [obsS] at ho
    obtain ⟨hv, hu, _⟩ := ho
    subst hv; subst hu
    unfold visitStmt useX; simp only [if_true]
    cases hc : a.cur.x with
    | none => simp [hc] at hx
    | some ds => simp [lookup_addUse_self]
  | ite t e =>
    simp only [Stmt.simple, Bool.and_eq_true] at hs
    simp only [obsS] at ho
    rw [visit_ite]; simp only [combine_u2d]
    rcases ho with ho | ho
    · have := recB x t hs.1 (enter a) hx w u n ho
      exact grow_isSome (visitBlock_grow true x e (enter { visitBlock true x t (enter a) with cur := a.cur })) this
    · exact recB x e hs.2 (enter { visitBlock true x t (enter a) with cur := a.cur }) hx w u n ho
  | loop iw al body orelse =>
    simp only [Stmt.simple, Bool.and_eq_true, Bool.not_eq_true'] at hs
    obtain ⟨⟨ha, he⟩, hb⟩ := hs
    subst ha
    cases orelse with
    | cons _ _ => simp [Block.isNil] at he
    | nil =>
    simp only [obsS] at ho
    obtain ⟨k, m, _, ho⟩ := ho
    rw [visit_loop_simple]
    have h1 := recB x body hb { enter a with loops := [] } hx m u n ho
    have hBu : (loopB (visitBlock true x body) a).u2d = (visitBlock true x body { enter a with loops := [] }).u2d := by
      unfold loopB loopA loopV1; simp
    have := grow_isSome (visitBlock_grow true x body (enter (loopB (visitBlock true x body) a)))
      (u := u) (by simpa [enter, hBu] using h1)
    exact this
  | assign v d => simp [obsS] at ho
  | call => simp [obsS] at ho
  | brk j => simp [obsS] at ho
  | cont j => simp [obsS] at ho
  | ret => simp [obsS] at ho
  | raise => simp [obsS] at ho
  | with_ sup b => simp [obsS] at ho
  | try_ b hs' e hf f => simp [obsS] at ho

theorem recB (x : Nat) (b : Block) (hb : b.simple = true) (a : St) (hx : a.cur.x.isSome)
    (w : Node) (u : Nat) (n : Node) (ho : obsB x b w u n) :
    (lookup u (visitBlock true x b a).u2d).isSome := by
  cases b with
  | nil => simp [obsB] at ho
  | cons s r =>
    simp only [Block.simple, Bool.and_eq_true] at hb
    simp only [obsB] at ho
    unfold visitBlock
    rcases ho with ho | ⟨m, _, ho⟩
    · exact grow_isSome (visitBlock_grow true x r _) (recS x s hb.1.1 a hx w u n ho)
    · exact recB x r hb.1.2 _ ((frS x s hb.1.1 a).1.xs hx) m u n ho
end

theorem mem_merge_right {a : Option (List Node)} {l : List Node} {n : Node} (h : n ∈ l) :
    n ∈ (merge a (some l)).getD [none] := by
  cases a <;> simp [merge, h]

mutual
theorem noneS (x : Nat) (s : Stmt) (hs : s.simple = true) (hn : s.useIds.Nodup) (a : St)
    (hll : a.cur.ll = false) (w : Node) (hw : Cov a.cur w) (u : Nat) (ho : obsS x s w u none)
    (fresh : lookup u a.u2d = none) : Good (visitStmt true x s a).u2d u none := by
  cases s with
  | use v u' =>
    simp only [obsS] at ho
    obtain ⟨hv, hu, hwn⟩ := ho
    subst hv; subst hu; subst hwn
    unfold visitStmt useX Good; simp only [if_true]
    cases hc : a.cur.x with
    | none => simp [fresh]
    | some ds =>
      simp only [lookup_addUse_self, fresh]
      unfold Cov at hw; rw [hc] at hw
      simpa using hw
  | ite t e =>
    simp only [Stmt.simple, Bool.and_eq_true] at hs
    simp only [Stmt.useIds] at hn
    have hnd := List.nodup_append.1 hn
    simp only [obsS] at ho
    rw [visit_ite]; unfold Good; simp only [combine_u2d]
    rcases ho with ho | ho
    · have hu : u ∈ t.useIds := obsB_mem x t w u none ho
      have hne : u ∉ e.useIds := fun h => (hnd.2.2 u hu u h) rfl
      have := noneB x t hs.1 hnd.1 (enter a) hll w hw u ho fresh
      rw [visitBlock_sameAt true x u e hne]
      exact this
    · have hu : u ∈ e.useIds := obsB_mem x e w u none ho
      have hne : u ∉ t.useIds := fun h => (hnd.2.2 u h u hu) rfl
      have hf : lookup u (enter { visitBlock true x t (enter a) with cur := a.cur }).u2d = none := by
        show lookup u (visitBlock true x t (enter a)).u2d = none
        rw [visitBlock_sameAt true x u t hne]; exact fresh
      exact noneB x e hs.2 hnd.2.1 (enter { visitBlock true x t (enter a) with cur := a.cur }) hll w hw u ho hf
  | loop iw al body orelse =>
    have hsimp := hs
    simp only [Stmt.simple, Bool.and_eq_true, Bool.not_eq_true'] at hs
    obtain ⟨⟨ha, he⟩, hb⟩ := hs
    subst ha
    cases orelse with
    | cons _ _ => simp [Block.isNil] at he
    | nil =>
    simp only [Stmt.useIds, Block.useIds, List.append_nil] at hn
    simp only [obsS] at ho
    obtain ⟨k, m, hk, ho⟩ := ho
    -- the seed of the second visit covers the state of every iteration
    have hnorm := (simS x (.loop iw false body .nil) hsimp a hll w hw).norm m (by simp only [runS]; exact ⟨trivial, k, m, hk, Or.inl rfl⟩)
    rw [visit_loop_simple] at hnorm ⊢
    generalize hB : loopB (visitBlock true x body) a = B at hnorm
    have hcovB : Cov (enter B).cur m := hnorm.1
    have hllB : (enter B).cur.ll = false := hnorm.2.2
    have hBu : B.u2d = (visitBlock true x body { enter a with loops := [] }).u2d := by
      rw [← hB]; unfold loopB loopA loopV1; simp
    have hBx : a.cur.x.isSome → B.cur.x.isSome := by
      intro h; rw [← hB]; unfold loopB; exact combine_x_isSome h
    have hBl : B.cur.ll = a.cur.ll := by rw [← hB]; unfold loopB; simp
    -- logs
    have f1 := (funB x body hb { enter a with loops := [] }).u2d u
    have f2 := (funB x body hb (enter B)).u2d u
    have ih := noneB x body hb hn (base (enter B).cur) hllB m hcovB u ho (lookup_nil u)
    unfold Good at ih ⊢
    show none ∈ (lookup u (visitBlock true x body (enter B)).u2d).getD [none]
    rw [f2]
    show none ∈ (merge (lookup u B.u2d) (lookup u (visitBlock true x body (base (enter B).cur)).u2d)).getD [none]
    rw [hBu, f1]
    have hfr : lookup u ({ enter a with loops := [] } : St).u2d = none := fresh
    rw [hfr, merge_none_left]
    cases hL2 : lookup u (visitBlock true x body (base (enter B).cur)).u2d with
    | some l2 =>
      rw [hL2] at ih
      exact mem_merge_right (by simpa using ih)
    | none =>
      rw [merge_none_right]
      cases hx : B.cur.x with
      | some l =>
        have := recB x body hb (base (enter B).cur) (by simp [base, enter, hx]) m u none ho
        simp [hL2] at this
      | none =>
        have hax : a.cur.x = none := by
          cases hax : a.cur.x with
          | none => rfl
          | some l => have := hBx (by simp [hax]); simp [hx] at this
        have : (enter B).cur = ({ enter a with loops := [] } : St).cur := by
          simp only [enter]
          cases hBc : B.cur with
          | mk bx bls bll =>
            cases hac : a.cur with
            | mk ax als all =>
              rw [hBc] at hx hBl; rw [hac] at hax hBl
              simp only at hx hax hBl
              subst hx; subst hax; subst hBl; rfl
        rw [← this, hL2]; simp
  | assign v d => simp [obsS] at ho
  | call => simp [obsS] at ho
  | brk j => simp [obsS] at ho
  | cont j => simp [obsS] at ho
  | ret => simp [obsS] at ho
  | raise => simp [obsS] at ho
  | with_ sup b => simp [obsS] at ho
  | try_ b hs' e hf f => simp [obsS] at ho

theorem noneB (x : Nat) (b : Block) (hb : b.simple = true) (hn : b.useIds.Nodup) (a : St)
    (hll : a.cur.ll = false) (w : Node) (hw : Cov a.cur w) (u : Nat) (ho : obsB x b w u none)
    (fresh : lookup u a.u2d = none) : Good (visitBlock true x b a).u2d u none := by
  cases b with
  | nil => simp [obsB] at ho
  | cons s r =>
    simp only [Block.simple, Bool.and_eq_true] at hb
    simp only [Block.useIds] at hn
    have hnd := List.nodup_append.1 hn
    simp only [obsB] at ho
    unfold visitBlock
    rcases ho with ho | ⟨m, hr, ho⟩
    · have hu : u ∈ s.useIds := obsS_mem x s w u none ho
      have hne : u ∉ r.useIds := fun h => (hnd.2.2 u hu u h) rfl
      have := noneS x s hb.1.1 hnd.1 a hll w hw u ho fresh
      unfold Good at this ⊢
      rw [visitBlock_sameAt true x u r hne]; exact this
    · have hu : u ∈ r.useIds := obsB_mem x r m u none ho
      have hne : u ∉ s.useIds := fun h => (hnd.2.2 u h u hu) rfl
      obtain ⟨hc, _, hl⟩ := (simS x s hb.1.1 a hll w hw).norm m hr
      have hf : lookup u (visitStmt true x s a).u2d = none := by
        rw [visitStmt_sameAt true x u s hne]; exact fresh
      exact noneB x r hb.1.2 hnd.2.1 _ hl m hc u ho hf
end

theorem sound_unbound (p : Block) (hp : p.simple = true) (hn : p.useIds.Nodup) (x u : Nat)
    (h : none ∈ reaching false p x u) : none ∈ reported p x u := by
  rw [mem_reaching] at h
  obtain ⟨w, hw, ho⟩ := (justB x p hp [none]).uses u none h
  simp only [List.mem_singleton] at hw; subst hw
  have := noneB x p hp hn {} rfl none cov_init u ho rfl
  unfold Good at this
  unfold reported collect
  cases hl : lookup u (visitBlock true x p {}).u2d with
  | none => simp
  | some l => rw [hl] at this; simpa using this

/-! ## Part 12 — the simple fragment is what the exception classes leave of the try/with-free skeletons -/

mutual
theorem simpleS_of (s : Stmt) (h1 : s.noTryWith = true) (h2 : s.jumpsLast = true) (h3 : s.plainFor = true)
    (h4 : s.hasLoopElse = false) (h6 : s.hasWhileTrue = false) : s.simple = true := by
  cases s with
  | ite t e =>
    simp only [Stmt.noTryWith, Stmt.jumpsLast, Stmt.plainFor, Stmt.hasLoopElse, Stmt.hasWhileTrue,
      Bool.and_eq_true, Bool.or_eq_false_iff] at h1 h2 h3 h4 h6
    simp only [Stmt.simple, Bool.and_eq_true]
    exact ⟨simpleB_of t h1.1 h2.1 h3.1 h4.1 h6.1, simpleB_of e h1.2 h2.2 h3.2 h4.2 h6.2⟩
  | loop w a b e =>
    simp only [Stmt.noTryWith, Stmt.jumpsLast, Stmt.plainFor, Stmt.hasLoopElse, Stmt.hasWhileTrue,
      Bool.and_eq_true, Bool.or_eq_false_iff, Bool.or_eq_true, Bool.not_eq_true', Bool.and_eq_false_imp] at h1 h2 h3 h4 h6
    have ha : a = false := by
      cases a with
      | false => rfl
      | true =>
        cases w with
        | true => exact absurd (h6.1.1 rfl) (by simp)
        | false => rcases h3.1.1 with h | h <;> simp at h
    have he : e.isNil = true := by
      cases e with
      | nil => rfl
      | cons _ _ => simp at h4
    simp only [Stmt.simple, Bool.and_eq_true, Bool.not_eq_true']
    exact ⟨⟨ha, he⟩, simpleB_of b h1.1 h2.1 h3.1.2 h4.1.2 h6.1.2⟩
  | brk j => rfl
  | with_ sup b => simp [Stmt.noTryWith] at h1
  | try_ b hs e hf f => simp [Stmt.noTryWith] at h1
  | assign v d => rfl
  | use v u => rfl
  | call => rfl
  | cont j => rfl
  | ret => rfl
  | raise => rfl

theorem simpleB_of (b : Block) (h1 : b.noTryWith = true) (h2 : b.jumpsLast = true) (h3 : b.plainFor = true)
    (h4 : b.hasLoopElse = false) (h6 : b.hasWhileTrue = false) : b.simple = true := by
  cases b with
  | nil => rfl
  | cons s r =>
    simp only [Block.noTryWith, Block.jumpsLast, Block.plainFor, Block.hasLoopElse,
      Block.hasWhileTrue, Bool.and_eq_true, Bool.or_eq_false_iff] at h1 h2 h3 h4 h6
    simp only [Block.simple, Bool.and_eq_true]
    exact ⟨⟨simpleS_of s h1.1 h2.1.1 h3.1 h4.1 h6.1, simpleB_of r h1.2 h2.1.2 h3.2 h4.2 h6.2⟩, h2.2⟩
end

mutual
/-- a variable that is a key of the dictionary stays one (loop-free fragment) -/
theorem frS' (x : Nat) (s : Stmt) (hs : s.loopFree = true) (st : St) :
    st.cur.x.isSome → (visitStmt true x s st).cur.x.isSome := by
  intro h
  cases s with
  | assign v d => unfold visitStmt; split <;> simp [setX, h]
  | use v u => unfold visitStmt; split <;> simp [useX_cur, h]
  | call => unfold visitStmt; exact h
  | ret => unfold visitStmt; exact h
  | raise => unfold visitStmt; exact h
  | ite t e => rw [visit_ite]; exact combine_x_isSome h
  | brk j => simp [Stmt.loopFree] at hs
  | cont j => simp [Stmt.loopFree] at hs
  | loop w a b e => simp [Stmt.loopFree] at hs
  | with_ sup b => simp [Stmt.loopFree] at hs
  | try_ b hs' e hf f => simp [Stmt.loopFree] at hs

theorem frB' (x : Nat) (b : Block) (hb : b.loopFree = true) (st : St) :
    st.cur.x.isSome → (visitBlock true x b st).cur.x.isSome := by
  intro h
  cases b with
  | nil => unfold visitBlock; exact h
  | cons s r =>
    simp only [Block.loopFree, Bool.and_eq_true] at hb
    unfold visitBlock
    exact frB' x r hb.2 _ (frS' x s hb.1 st h)
end

/-! ## Part 13 — precision on the loop-free fragment: everything reported reaches the use on some path -/

/-- `n` is recorded for use `u` -/
def Rec (m : List (Nat × List Node)) (u : Nat) (n : Node) : Prop := ∃ l, lookup u m = some l ∧ n ∈ l

theorem uniq_ne_nil {l : List Node} (h : l ≠ []) : uniq l ≠ [] := by
  cases l with
  | nil => exact absurd rfl h
  | cons a l => simp [uniq]

theorem cov_exists {c : Sub} (h : c.x ≠ some []) : ∃ n, Cov c n := by
  unfold Cov
  cases hx : c.x with
  | none => exact ⟨none, by simp⟩
  | some l =>
    cases l with
    | nil => exact absurd hx h
    | cons a l => exact ⟨a, by simp⟩

theorem combine_cov_rev {ss : List Sub} {st : St} {n : Node} (hls : (combine ss st).cur.ls = false)
    (h : Cov (combine ss st).cur n) (hx : ∀ s ∈ ss, s.x = none → st.cur.x = none) :
    ∃ s ∈ ss, s.ll = false ∧ s.ls = false ∧ Cov s n := by
  unfold combine at hls h; dsimp only at hls h
  by_cases hE : (List.filter (fun s => !s.ll && !s.ls) ss).isEmpty = true
  · rw [if_pos hE] at hls; simp at hls
  · rw [if_neg hE] at h
    by_cases hA : ((List.filter (fun s => !s.ll && !s.ls) ss).any fun x => x.x.isSome) = true
    · rw [if_pos hA] at h
      unfold Cov at h; simp only [Option.getD_some, mem_uniq, List.mem_flatMap] at h
      obtain ⟨s, hs, hn⟩ := h
      simp only [List.mem_filter, Bool.and_eq_true, Bool.not_eq_true'] at hs
      exact ⟨s, hs.1, hs.2.1, hs.2.2, hn⟩
    · rw [if_neg hA] at h
      simp only [List.any_eq_true, not_exists, not_and] at hA
      simp only [List.isEmpty_iff] at hE
      obtain ⟨s, hs⟩ := List.exists_mem_of_ne_nil _ hE
      have hsx : s.x = none := by
        have := hA s hs
        cases hx' : s.x <;> simp [hx'] at this ⊢
      simp only [List.mem_filter, Bool.and_eq_true, Bool.not_eq_true'] at hs
      have hstx := hx s hs.1 hsx
      refine ⟨s, hs.1, hs.2.1, hs.2.2, ?_⟩
      unfold Cov at h ⊢
      rw [hsx]; simpa [hstx] using h

theorem combine_ne {ss : List Sub} {st : St} (hst : st.cur.x ≠ some []) (hss : ∀ s ∈ ss, s.x ≠ some []) :
    (combine ss st).cur.x ≠ some [] := by
  unfold combine; dsimp only
  split
  · exact hst
  · rename_i hne
    split
    · simp only [ne_eq, Option.some.injEq]
      apply uniq_ne_nil
      simp only [List.isEmpty_iff] at hne
      obtain ⟨s, hs⟩ := List.exists_mem_of_ne_nil _ hne
      have hs' := (List.mem_filter.1 hs).1
      obtain ⟨n, hn⟩ := cov_exists (hss s hs')
      intro hnil
      have : n ∈ List.flatMap (fun s => s.x.getD [none]) (List.filter (fun s => !s.ll && !s.ls) ss) :=
        List.mem_flatMap.2 ⟨s, hs, hn⟩
      rw [hnil] at this; cases this
    · exact hst

/-- what the precision induction carries -/
structure Prec (st st' : St) (o : Out) : Prop where
  norm : st'.cur.ls = false → ∀ n, Cov st'.cur n → n ∈ o.norm
  ll : st'.cur.ll = false
  ne : st'.cur.x ≠ some []
  uses : ∀ u n, Rec st'.u2d u n → Rec st.u2d u n ∨ (u, n) ∈ o.uses
  zero : ∀ u m, (u, m) ∈ o.uses → lookup u st'.u2d = none → (u, none) ∈ o.uses

theorem lookup_none_of_grow {a b : St} (h : Grow a b) {u : Nat} (hb : lookup u b.u2d = none) :
    lookup u a.u2d = none := by
  cases ha : lookup u a.u2d with
  | none => rfl
  | some l => obtain ⟨l', h'⟩ := h u l ha; rw [hb] at h'; cases h'

mutual
theorem precS (x : Nat) (s : Stmt) (hs : s.loopFree = true) (hd : s.noDead = true) (st : St)
    (hls : st.cur.ls = false) (hll : st.cur.ll = false) (hne : st.cur.x ≠ some [])
    (ins : List Node) (hcov : ∀ n, Cov st.cur n → n ∈ ins) :
    Prec st (visitStmt true x s st) (flowStmt true x s ins) ∧
      (s.falls = true → (visitStmt true x s st).cur.ls = false) := by
  cases s with
  | assign v d =>
    unfold visitStmt flowStmt
    by_cases hv : v = x
    · simp only [hv, if_true]
      refine ⟨⟨fun _ n hn => ?_, hll, by simp [setX], fun u n h => Or.inl h, by simp⟩, fun _ => hls⟩
      unfold Cov setX at hn; simpa using hn
    · simp only [hv, if_false]
      exact ⟨⟨fun _ n hn => hcov n hn, hll, hne, fun u n h => Or.inl h, by simp⟩, fun _ => hls⟩
  | use v u0 =>
    unfold visitStmt flowStmt
    by_cases hv : v = x
    · simp only [hv, if_true]
      refine ⟨⟨fun _ n hn => ?_, ?_, ?_, ?_, ?_⟩, fun _ => ?_⟩
      · rw [useX_cur] at hn; exact hcov n hn
      · rw [useX_cur]; exact hll
      · rw [useX_cur]; exact hne
      · intro u n h
        unfold useX at h; simp only [if_true] at h
        cases hx : st.cur.x with
        | none => rw [hx] at h; exact Or.inl h
        | some ds =>
          rw [hx] at h
          obtain ⟨l, hl, hn⟩ := h
          simp only at hl
          rw [lookup_addUse] at hl
          by_cases hu : u = u0
          · subst hu
            simp only [if_true] at hl
            cases hold : lookup u st.u2d with
            | none =>
              rw [hold] at hl; simp only [merge_none_left, Option.some.injEq] at hl
              subst hl
              right
              have : Cov st.cur n := by unfold Cov; rw [hx]; simpa using hn
              exact List.mem_map.2 ⟨n, hcov n this, rfl⟩
            | some lo =>
              rw [hold] at hl; simp only [merge, Option.some.injEq] at hl
              subst hl
              rcases List.mem_append.1 hn with h1 | h1
              · exact Or.inl ⟨lo, hold, h1⟩
              · right
                have : Cov st.cur n := by unfold Cov; rw [hx]; simpa using h1
                exact List.mem_map.2 ⟨n, hcov n this, rfl⟩
          · simp only [hu, if_false, merge_none_right] at hl
            exact Or.inl ⟨l, hl, hn⟩
      · intro u m hm hnone
        simp only [List.mem_map, Prod.mk.injEq] at hm
        obtain ⟨a, _, hu, _⟩ := hm
        subst hu
        unfold useX at hnone; simp only [if_true] at hnone
        cases hx : st.cur.x with
        | none =>
          have : Cov st.cur none := by unfold Cov; rw [hx]; simp
          exact List.mem_map.2 ⟨none, hcov none this, rfl⟩
        | some ds => rw [hx] at hnone; simp [lookup_addUse_self] at hnone
      · rw [useX_cur]; exact hls
    · simp only [hv, if_false]
      exact ⟨⟨fun _ n hn => hcov n hn, hll, hne, fun u n h => Or.inl h, by simp⟩, fun _ => hls⟩
  | call =>
    unfold visitStmt flowStmt
    exact ⟨⟨fun _ n hn => hcov n hn, hll, hne, fun u n h => Or.inl h, by simp⟩, fun _ => hls⟩
  | ret =>
    unfold visitStmt flowStmt
    exact ⟨⟨fun h => by simp [setLS] at h, hll, hne, fun u n h => Or.inl h, by simp⟩, fun h => by simp [Stmt.falls] at h⟩
  | raise =>
    unfold visitStmt flowStmt
    exact ⟨⟨fun h => by simp [setLS] at h, hll, hne, fun u n h => Or.inl h, by simp⟩, fun h => by simp [Stmt.falls] at h⟩
  | brk j => simp [Stmt.loopFree] at hs
  | cont j => simp [Stmt.loopFree] at hs
  | loop w a b e => simp [Stmt.loopFree] at hs
  | with_ sup b => simp [Stmt.loopFree] at hs
  | try_ b hs' e hf f => simp [Stmt.loopFree] at hs
  | ite t e =>
    simp only [Stmt.loopFree, Bool.and_eq_true] at hs
    simp only [Stmt.noDead, Bool.and_eq_true] at hd
    rw [visit_ite]
    unfold flowStmt
    have pt := precB x t hs.1 hd.1 (enter st) rfl hll hne ins hcov
    generalize hT : visitBlock true x t (enter st) = stT at pt
    have pe := precB x e hs.2 hd.2 (enter { stT with cur := st.cur }) rfl hll hne ins hcov
    have grE := visitBlock_grow true x e (enter { stT with cur := st.cur })
    generalize hE : visitBlock true x e (enter { stT with cur := st.cur }) = stE at pe grE
    have frT := frB' x t hs.1 (enter st); rw [hT] at frT
    have frE := frB' x e hs.2 (enter { stT with cur := st.cur }); rw [hE] at frE
    have hxs : ∀ s ∈ [stT.cur, stE.cur], s.x = none → st.cur.x = none := by
      intro s hs' hx
      simp only [List.mem_cons, List.mem_nil_iff, or_false] at hs'
      rcases hs' with h | h
      · subst h
        cases hc : st.cur.x with
        | none => rfl
        | some l => have := frT (by simp [enter, hc]); simp [hx] at this
      · subst h
        cases hc : st.cur.x with
        | none => rfl
        | some l => have := frE (by simp [enter, hc]); simp [hx] at this
    refine ⟨⟨?_, by simpa using hll, ?_, ?_, ?_⟩, ?_⟩
    · intro hfin n hn
      obtain ⟨s, hs', hsl, hss, hc⟩ := combine_cov_rev hfin hn hxs
      simp only [List.mem_cons, List.mem_nil_iff, or_false] at hs'
      simp only [Out.absorbN, Out.absorb, mem_union]
      rcases hs' with h | h
      · subst h; exact Or.inl (Or.inr (pt.1.norm hss n hc))
      · subst h; exact Or.inr (pe.1.norm hss n hc)
    · refine combine_ne (st := { stE with cur := st.cur }) hne ?_
      intro s hs'
      simp only [List.mem_cons, List.mem_nil_iff, or_false] at hs'
      rcases hs' with h | h
      · subst h; exact pt.1.ne
      · subst h; exact pe.1.ne
    · intro u n h
      simp only [combine_u2d] at h
      simp only [Out.absorbN, Out.absorb, List.nil_append, List.mem_append]
      rcases pe.1.uses u n h with h1 | h1
      · rcases pt.1.uses u n h1 with h2 | h2
        · exact Or.inl h2
        · exact Or.inr (Or.inl h2)
      · exact Or.inr (Or.inr h1)
    · intro u m hm hnone
      simp only [combine_u2d] at hnone
      simp only [Out.absorbN, Out.absorb, List.nil_append, List.mem_append] at hm ⊢
      rcases hm with hm | hm
      · have : lookup u stT.u2d = none := lookup_none_of_grow (a := enter { stT with cur := st.cur }) grE hnone
        exact Or.inl (pt.1.zero u m hm this)
      · exact Or.inr (pe.1.zero u m hm hnone)
    · intro hf
      simp only [Stmt.falls, Bool.or_eq_true] at hf
      rcases hf with hf | hf
      · have := pt.2 hf
        rw [combine_ls_kept (s := stT.cur) (by simp) pt.1.ll this]; exact hls
      · have := pe.2 hf
        rw [combine_ls_kept (s := stE.cur) (by simp) pe.1.ll this]; exact hls

theorem precB (x : Nat) (b : Block) (hb : b.loopFree = true) (hd : b.noDead = true) (st : St)
    (hls : st.cur.ls = false) (hll : st.cur.ll = false) (hne : st.cur.x ≠ some [])
    (ins : List Node) (hcov : ∀ n, Cov st.cur n → n ∈ ins) :
    Prec st (visitBlock true x b st) (flowBlock true x b ins) ∧
      (b.falls = true → (visitBlock true x b st).cur.ls = false) := by
  cases b with
  | nil =>
    unfold visitBlock flowBlock
    exact ⟨⟨fun _ n hn => hcov n hn, hll, hne, fun u n h => Or.inl h, by simp⟩, fun _ => hls⟩
  | cons s r =>
    simp only [Block.loopFree, Bool.and_eq_true] at hb
    simp only [Block.noDead, Bool.and_eq_true, Bool.or_eq_true] at hd
    obtain ⟨n0, hn0⟩ := cov_exists hne
    have hins : ins.isEmpty = false := by
      cases ins with
      | nil => exact absurd (hcov n0 hn0) (by simp)
      | cons _ _ => rfl
    unfold visitBlock flowBlock
    simp only [hins, Bool.false_eq_true, if_false, if_true]
    have ps := precS x s hb.1 hd.1.1 st hls hll hne ins hcov
    have grR := visitBlock_grow true x r (visitStmt true x s st)
    generalize hS : visitStmt true x s st = st1 at ps grR
    by_cases hf : s.falls = true
    · have hls1 := ps.2 hf
      have pr := precB x r hb.2 hd.1.2 st1 hls1 ps.1.ll ps.1.ne (flowStmt true x s ins).norm
        (fun n hn => ps.1.norm hls1 n hn)
      refine ⟨⟨pr.1.norm, pr.1.ll, pr.1.ne, ?_, ?_⟩, ?_⟩
      · intro u n h
        simp only [List.mem_append]
        rcases pr.1.uses u n h with h1 | h1
        · rcases ps.1.uses u n h1 with h2 | h2
          · exact Or.inl h2
          · exact Or.inr (Or.inl h2)
        · exact Or.inr (Or.inr h1)
      · intro u m hm hnone
        simp only [List.mem_append] at hm ⊢
        rcases hm with hm | hm
        · exact Or.inl (ps.1.zero u m hm (lookup_none_of_grow grR hnone))
        · exact Or.inr (pr.1.zero u m hm hnone)
      · intro hfb
        simp only [Block.falls, Bool.and_eq_true] at hfb
        exact pr.2 hfb.2
    · have hrn : r = .nil := by
        rcases hd.2 with h | h
        · exact absurd h hf
        · cases r with
          | nil => rfl
          | cons _ _ => simp [Block.isNil] at h
      subst hrn
      unfold visitBlock flowBlock
      refine ⟨⟨ps.1.norm, ps.1.ll, ps.1.ne, ?_, ?_⟩, ?_⟩
      · intro u n h
        simp only [List.append_nil]
        exact ps.1.uses u n h
      · intro u m hm hnone
        simp only [List.append_nil] at hm ⊢
        exact ps.1.zero u m hm hnone
      · intro hfb
        simp only [Block.falls, Bool.and_eq_true] at hfb
        exact absurd hfb.1 hf
end

theorem precise_loopFree (p : Block) (hp : p.loopFree = true) (hd : p.noDead = true) (x u : Nat) (n : Node)
    (hn : n ∈ reported p x u) (hr : reaching true p x u ≠ []) : n ∈ reaching true p x u := by
  have P := (precB x p hp hd {} rfl rfl (by simp) [none] (fun n hn => by simpa [Cov] using hn)).1
  rw [mem_reaching]
  unfold reported collect at hn
  cases hl : lookup u (visitBlock true x p {}).u2d with
  | some ds =>
    rw [hl] at hn
    rcases P.uses u n ⟨ds, hl, hn⟩ with ⟨l, h1, _⟩ | h
    · simp [lookup] at h1
    · exact h
  | none =>
    rw [hl] at hn
    simp only [List.mem_singleton] at hn
    subst hn
    obtain ⟨m, hm⟩ := List.exists_mem_of_ne_nil _ hr
    exact P.zero u m (mem_reaching.1 hm) hl

mutual
theorem noTryWithS_classes (s : Stmt) (h : s.noTryWith = true) :
    s.jumpInFinally = false ∧ s.loopJumpInSuppress = false ∧ s.suppressInFinally = false := by
  cases s with
  | ite t e =>
    simp only [Stmt.noTryWith, Bool.and_eq_true] at h
    have ht := noTryWithB_classes t h.1
    have he := noTryWithB_classes e h.2
    simp [Stmt.jumpInFinally, Stmt.loopJumpInSuppress, Stmt.suppressInFinally, ht, he]
  | loop w a b e =>
    simp only [Stmt.noTryWith, Bool.and_eq_true] at h
    have ht := noTryWithB_classes b h.1
    have he := noTryWithB_classes e h.2
    simp [Stmt.jumpInFinally, Stmt.loopJumpInSuppress, Stmt.suppressInFinally, ht, he]
  | with_ sup b => simp [Stmt.noTryWith] at h
  | try_ b hs e hf f => simp [Stmt.noTryWith] at h
  | assign v d => simp [Stmt.jumpInFinally, Stmt.loopJumpInSuppress, Stmt.suppressInFinally]
  | use v u => simp [Stmt.jumpInFinally, Stmt.loopJumpInSuppress, Stmt.suppressInFinally]
  | call => simp [Stmt.jumpInFinally, Stmt.loopJumpInSuppress, Stmt.suppressInFinally]
  | brk j => simp [Stmt.jumpInFinally, Stmt.loopJumpInSuppress, Stmt.suppressInFinally]
  | cont j => simp [Stmt.jumpInFinally, Stmt.loopJumpInSuppress, Stmt.suppressInFinally]
  | ret => simp [Stmt.jumpInFinally, Stmt.loopJumpInSuppress, Stmt.suppressInFinally]
  | raise => simp [Stmt.jumpInFinally, Stmt.loopJumpInSuppress, Stmt.suppressInFinally]

theorem noTryWithB_classes (b : Block) (h : b.noTryWith = true) :
    b.jumpInFinally = false ∧ b.loopJumpInSuppress = false ∧ b.suppressInFinally = false := by
  cases b with
  | nil => simp [Block.jumpInFinally, Block.loopJumpInSuppress, Block.suppressInFinally]
  | cons s r =>
    simp only [Block.noTryWith, Bool.and_eq_true] at h
    have hs := noTryWithS_classes s h.1
    have hr := noTryWithB_classes r h.2
    simp [Block.jumpInFinally, Block.loopJumpInSuppress, Block.suppressInFinally, hs, hr]
end

theorem noTryWith_classes (p : Block) (h : p.noTryWith = true) :
    D09_jumpThroughFinally p = false ∧ D09_loopJumpInSuppressing p = false ∧ D09_suppressingInFinally p = false :=
  noTryWithB_classes p h

theorem diag_of_mem_none {ds : List Node} (h : none ∈ ds) : diagOf ds ≠ .ok := by
  unfold diagOf
  split
  · simp
  · rw [if_pos (by simpa using h)]; simp

theorem mem_none_of_diag_possibly {ds : List Node} (h : diagOf ds = .possibly) : none ∈ ds := by
  unfold diagOf at h
  split at h
  · cases h
  · split at h
    · rename_i hc; simpa using hc
    · cases h

theorem diag_undefined (ds : List Node) (h : ∀ n ∈ ds, n = none) : diagOf ds = .undefined := by
  unfold diagOf
  have : ds.all (· == none) = true := by
    simp only [List.all_eq_true, beq_iff_eq]; exact h
  rw [if_pos this]

/-! ## Part 14 — scope kinds: parameters and `global` / `nonlocal` names -/

mutual
/-- observations are "generate or pass" too: what is current at a use is either the definition the path started
with, on a path every start can take, or a definition the path itself made -/
theorem obsS_genPass (x : Nat) (s : Stmt) (u : Nat) : GenPass (fun w n => obsS x s w u n) := by
  intro w n h
  cases s with
  | use v u' =>
    simp only [obsS] at h ⊢
    exact Or.inl ⟨h.2.2, fun w' => ⟨h.1, h.2.1, trivial⟩⟩
  | ite t e =>
    simp only [obsS] at h ⊢
    exact genPass_or (obsB_genPass x t u) (obsB_genPass x e u) w n h
  | loop iw a b e =>
    simp only [obsS] at h ⊢
    obtain ⟨k, m, hk, ho⟩ := h
    have hR := genPass_or (runB_genPass x b false) (runB_genPass x b true)
    rcases iter_genPass hR k w m hk with ⟨e', hp⟩ | hg
    · subst e'
      rcases obsB_genPass x b u _ n ho with ⟨e'', hp'⟩ | hg'
      · subst e''; exact Or.inl ⟨rfl, fun w' => ⟨k, w', hp w', hp' w'⟩⟩
      · exact Or.inr fun w' => ⟨k, w', hp w', hg' w'⟩
    · rcases obsB_genPass x b u _ n ho with ⟨e'', hp'⟩ | hg'
      · subst e''; exact Or.inr fun w' => ⟨k, n, hg w', hp' n⟩
      · exact Or.inr fun w' => ⟨k, m, hg w', hg' m⟩
  | assign v d => simp [obsS] at h
  | call => simp [obsS] at h
  | brk j => simp [obsS] at h
  | cont j => simp [obsS] at h
  | ret => simp [obsS] at h
  | raise => simp [obsS] at h
  | with_ sup b => simp [obsS] at h
  | try_ b hs e hf f => simp [obsS] at h

theorem obsB_genPass (x : Nat) (b : Block) (u : Nat) : GenPass (fun w n => obsB x b w u n) := by
  intro w n h
  cases b with
  | nil => simp [obsB] at h
  | cons s r =>
    simp only [obsB] at h ⊢
    rcases h with h | ⟨m, h1, h2⟩
    · rcases obsS_genPass x s u w n h with ⟨e, hp⟩ | hg
      · exact Or.inl ⟨e, fun w' => Or.inl (hp w')⟩
      · exact Or.inr fun w' => Or.inl (hg w')
    · rcases runS_genPass x s false w m h1 with ⟨e, hp⟩ | hg
      · subst e
        rcases obsB_genPass x r u _ n h2 with ⟨e, hp'⟩ | hg'
        · subst e; exact Or.inl ⟨rfl, fun w' => Or.inr ⟨w', hp w', hp' w'⟩⟩
        · exact Or.inr fun w' => Or.inr ⟨w', hp w', hg' w'⟩
      · rcases obsB_genPass x r u _ n h2 with ⟨e, hp'⟩ | hg'
        · subst e; exact Or.inr fun w' => Or.inr ⟨n, hg w', hp' n⟩
        · exact Or.inr fun w' => Or.inr ⟨m, hg w', hg' m⟩
end

theorem mem_reachingFrom {lib : Bool} {p : Block} {x u : Nat} {n : Node} {entry : List Node} :
    n ∈ reachingFrom lib p x u entry ↔ (u, n) ∈ (flowBlock lib x p entry).uses := by
  unfold reachingFrom
  simp only [List.mem_map, List.mem_filter, decide_eq_true_eq]
  constructor
  · rintro ⟨⟨u', n'⟩, ⟨hm, hu⟩, hn⟩
    simp only at hu hn; subst hu; subst hn; exact hm
  · intro h; exact ⟨(u, n), ⟨h, rfl⟩, rfl⟩

/-- every observation of a path started unbound is reported (simple fragment, distinct use ids) -/
theorem sound_obs (p : Block) (hp : p.simple = true) (hn : p.useIds.Nodup) (x u : Nat) (n : Node)
    (ho : obsB x p none u n) : n ∈ reported p x u := by
  cases n with
  | none =>
    have := noneB x p hp hn {} rfl none cov_init u ho rfl
    unfold Good at this
    unfold reported collect
    cases hl : lookup u (visitBlock true x p {}).u2d with
    | none => simp
    | some l => rw [hl] at this; simpa using this
  | some d =>
    obtain ⟨l, hl, hd⟩ := (simB x p hp {} rfl none cov_init).uses u d ho
    unfold reported collect
    rw [hl]; exact hd

theorem mem_expandRef {d0 : Nat} {p : Block} {x : Nat} {ds : List Node} {n : Node} :
    n ∈ expandRef d0 p x ds ↔ (none ∈ ds ∧ n ∈ ownerHolds d0 p x) ∨ (∃ d, n = some d ∧ some d ∈ ds) := by
  unfold expandRef
  simp only [List.mem_flatMap]
  constructor
  · rintro ⟨a, ha, hn⟩
    cases a with
    | none => exact Or.inl ⟨ha, hn⟩
    | some d => simp only [List.mem_singleton] at hn; exact Or.inr ⟨d, hn, hn ▸ ha⟩
  · rintro (⟨h1, h2⟩ | ⟨d, h1, h2⟩)
    · exact ⟨none, h1, h2⟩
    · exact ⟨some d, h2, by simp [h1]⟩

/-- **`global` / `nonlocal` names.** Whatever reaches a use on a strict path when the function is entered with the
outside binding `d0` current is reported (simple fragment): the model resolves `_UNINITIALIZED` through the owning
scope, which holds `d0`. -/
theorem sound_ref (p : Block) (hp : p.simple = true) (hn : p.useIds.Nodup) (x u d0 d : Nat)
    (h : some d ∈ reachingFrom false p x u [some d0]) : some d ∈ expandRef d0 p x (reported p x u) := by
  rw [mem_reachingFrom] at h
  obtain ⟨w, hw, ho⟩ := (justB x p hp [some d0]).uses u (some d) h
  simp only [List.mem_singleton] at hw; subst hw
  rcases obsB_genPass x p u _ _ ho with ⟨e, hp'⟩ | hg
  · have := sound_obs p hp hn x u none (hp' none)
    rw [e]
    exact mem_expandRef.2 (Or.inl ⟨this, by simp [ownerHolds]⟩)
  · exact mem_expandRef.2 (Or.inr ⟨d, rfl, sound_obs p hp hn x u (some d) (hg none)⟩)

/-- a parameter is an assignment in front of the body -/
theorem reaching_param (p : Block) (x u d0 : Nat) (n : Node) :
    n ∈ reachingFrom false p x u [some d0] ↔ n ∈ reaching false (.cons (.assign x d0) p) x u := by
  rw [mem_reachingFrom, mem_reaching]
  have : (flowBlock false x (.cons (.assign x d0) p) [none]).uses = (flowBlock false x p [some d0]).uses := by
    rw [flowBlock]; simp [flowStmt]
  rw [this]

end Pya.C09
