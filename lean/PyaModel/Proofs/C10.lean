import PyaModel.Spec.CacheSpec
import PyaModel.Generated.SetSites
namespace Pya.C10
end Pya.C10
