import PyaModel.Spec.CacheSpec
import PyaModel.Generated.SetSites
import PyaModel.Generated.CacheSites
import PyaModel.Generated.CacheKeys
import PyaModel.Generated.InterpreterState
/-!
# Proofs/C10 — helper lemmas for Props/C10.lean

* the scan/registry obligation `sites_registered`;
* permutation lemmas for the order-insensitive site kinds (`any`, set building, lookup maps,
  singletons, `sorted`, first failure / first success with at most one hit, worklist closure);
* memo tables: invariant and transparency;
* the protocol check: `check_spec` (induction on the fuel, nested inductions over members and
  slots): from a state whose cache is valid and whose assumptions have larger rank, the check
  returns the structural answer `sem`, keeps the cache valid and restores the stack.
-/
namespace Pya.C10
set_option linter.unusedSimpArgs false

/-- Every set-iteration site the AST scan finds in the live tree has a modelled kind. -/
theorem sites_registered_proof : sitesRegistered Gen.scannedSites = true := by decide

/-- Every container attribute of the per-Checker classes the scan finds has a registered kind. -/
theorem caches_registered_proof : cachesRegistered Gen.scannedCaches = true := by decide

/-- Every piece of process-level state the scan finds has a registered kind. -/
theorem proc_state_registered_proof : procStateRegistered Gen.scannedProcState = true := by decide

/-- In every store into a memo table the key mentions every parameter the stored value is computed
from (or the omission is a registered waiver). -/
theorem memo_keys_cover_parameters_proof : memoKeysCover Gen.scannedMemoKeys = true := by decide

/-- The reads of interpreter-global state and the import calls of the live tree are exactly the
registered ones. -/
theorem interpreter_state_reads_registered_proof :
    interpreterReadsRegistered Gen.scannedInterpreterReads = true := by decide

/-- Every `id(…)` key / hash / membership expression the scan finds is registered with the reason
why the address identifies a live object. -/
theorem id_keys_registered_proof : idKeysRegistered Gen.scannedIdKeys = true := by decide


/-! ## Order sites -/

theorem perm_length_le_one {α : Type} {l₁ l₂ : List α} (h : l₁.Perm l₂) (hl : l₂.length ≤ 1) : l₁ = l₂ := by
  have hlen := h.length_eq
  match l₁, l₂, hlen, hl with
  | [], [], _, _ => rfl
  | [a], [b], _, _ =>
    have := h.mem_iff (a := a)
    simp at this
    rw [this]
  | _ :: _ :: _, _, hlen, hl => simp at hlen; omega
  | [], _ :: _, hlen, _ => simp at hlen
  | [_], [], hlen, _ => simp at hlen
  | [_], _ :: _ :: _, _, hl => simp at hl

/-- Two iteration orders of a set with fewer than two elements are equal. -/
theorem orders_eq_of_small {α : Type} (elems o₁ o₂ : List α) (hd : D10_twoOrMore elems = false)
    (h₁ : o₁.Perm elems) (h₂ : o₂.Perm elems) : o₁ = o₂ := by
  have hl : elems.length ≤ 1 := by simp [D10_twoOrMore] at hd; omega
  rw [perm_length_le_one h₁ hl, perm_length_le_one h₂ hl]

theorem any_perm {α : Type} (p : α → Bool) {o₁ o₂ : List α} (h : o₁.Perm o₂) : o₁.any p = o₂.any p := by
  induction h with
  | nil => rfl
  | cons x _ ih => simp [ih]
  | swap x y l => simp [Bool.or_left_comm]
  | trans _ _ ih₁ ih₂ => rw [ih₁, ih₂]

theorem all_perm {α : Type} (p : α → Bool) {o₁ o₂ : List α} (h : o₁.Perm o₂) : o₁.all p = o₂.all p := by
  induction h with
  | nil => rfl
  | cons x _ ih => simp [ih]
  | swap x y l => simp [Bool.and_left_comm]
  | trans _ _ ih₁ ih₂ => rw [ih₁, ih₂]

theorem lookup_map_self {κ ν : Type} [BEq κ] [LawfulBEq κ] (f : κ → ν) (l : List κ) (k : κ) :
    (l.map fun k => (k, f k)).lookup k = if k ∈ l then some (f k) else none := by
  induction l with
  | nil => simp
  | cons x l ih =>
    by_cases hk : k = x
    · subst hk; simp [List.lookup]
    · have : (k == x) = false := by simpa using hk
      simp [List.lookup, this, ih, hk]

theorem mem_dedup {α : Type} [BEq α] [LawfulBEq α] (l : List α) (x : α) : x ∈ dedup l ↔ x ∈ l := by
  induction l with
  | nil => simp [dedup]
  | cons a l ih =>
    simp only [dedup, List.mem_cons, List.mem_filter, ih]
    by_cases h : x = a
    · simp [h]
    · simp [h]

/-- A decidable linear order given as a Boolean `≤`. -/
structure LinearLe {α : Type} (le : α → α → Bool) : Prop where
  total : ∀ a b, le a b = true ∨ le b a = true
  antisymm : ∀ a b, le a b = true → le b a = true → a = b
  trans : ∀ a b c, le a b = true → le b c = true → le a c = true

theorem insBy_comm {α : Type} (le : α → α → Bool) (hl : LinearLe le) (a b : α) (l : List α) :
    insBy le a (insBy le b l) = insBy le b (insBy le a l) := by
  induction l with
  | nil =>
    simp only [insBy]
    cases h1 : le a b <;> cases h2 : le b a <;> simp [insBy, h1, h2]
    · cases hl.total a b with
      | inl h => rw [h] at h1; cases h1
      | inr h => rw [h] at h2; cases h2
    · have := hl.antisymm a b h1 h2; subst this; simp
  | cons c l ih =>
    simp only [insBy]
    cases h1 : le a c <;> cases h2 : le b c <;> simp only [if_true, if_false, insBy, h1, h2, Bool.false_eq_true]
    · rw [ih]
    · -- ¬ a ≤ c, b ≤ c : so c ≤ a, b ≤ a, and ¬ a ≤ b
      have hca : le c a = true := by
        cases hl.total a c with
        | inl h => rw [h] at h1; cases h1
        | inr h => exact h
      have hba : le b a = true := hl.trans b c a h2 hca
      have hab : le a b = false := by
        cases h : le a b with
        | false => rfl
        | true => have := hl.trans a b c h h2; rw [this] at h1; cases h1
      simp [hba, hab, h1]
    · have hcb : le c b = true := by
        cases hl.total b c with
        | inl h => rw [h] at h2; cases h2
        | inr h => exact h
      have hab : le a b = true := hl.trans a c b h1 hcb
      have hba : le b a = false := by
        cases h : le b a with
        | false => rfl
        | true => have := hl.trans b a c h h1; rw [this] at h2; cases h2
      simp [hab, hba, h2]
    · cases h3 : le a b <;> cases h4 : le b a <;> simp [h3, h4, h1, h2]
      · cases hl.total a b with
        | inl h => rw [h] at h3; cases h3
        | inr h => rw [h] at h4; cases h4
      · have := hl.antisymm a b h3 h4; subst this; simp

theorem isortBy_perm {α : Type} (le : α → α → Bool) (hl : LinearLe le) {o₁ o₂ : List α} (h : o₁.Perm o₂) :
    isortBy le o₁ = isortBy le o₂ := by
  induction h with
  | nil => rfl
  | cons x _ ih => simp [isortBy, ih]
  | swap x y l => simp [isortBy, insBy_comm le hl]
  | trans _ _ ih₁ ih₂ => rw [ih₁, ih₂]

theorem strLe_linear : LinearLe strLe where
  total a b := by
    cases String.le_total a b with
    | inl h => exact Or.inl (by simpa [strLe] using h)
    | inr h => exact Or.inr (by simpa [strLe] using h)
  antisymm a b h1 h2 := String.le_antisymm (by simpa [strLe] using h1) (by simpa [strLe] using h2)
  trans a b c h1 h2 := by
    have := String.le_trans (a := a) (b := b) (c := c) (by simpa [strLe] using h1) (by simpa [strLe] using h2)
    simpa [strLe] using this
theorem natLe_linear : LinearLe natLe where
  total a b := by simp [natLe]; omega
  antisymm a b h1 h2 := by simp [natLe] at h1 h2; omega
  trans a b c h1 h2 := by simp [natLe] at h1 h2 ⊢; omega

theorem isort_perm {o₁ o₂ : List Nat} (h : o₁.Perm o₂) : isort o₁ = isort o₂ :=
  isortBy_perm natLe natLe_linear h

theorem contains_perm {o₁ o₂ : List String} (h : o₁.Perm o₂) (k : String) : o₁.contains k = o₂.contains k := by
  cases h1 : o₁.contains k <;> cases h2 : o₂.contains k <;> simp_all [h.mem_iff]

theorem findSome?_filter {α β : Type} (f : α → Option β) (l : List α) :
    l.findSome? f = (l.filter fun x => (f x).isSome).findSome? f := by
  induction l with
  | nil => rfl
  | cons x l ih =>
    cases hx : f x with
    | none => simp [List.findSome?, List.filter, hx, ih]
    | some y => simp [List.findSome?, List.filter, hx]

theorem findSome?_isSome_eq_any {α β : Type} (f : α → Option β) (l : List α) :
    (l.findSome? f).isSome = l.any fun x => (f x).isSome := by
  induction l with
  | nil => rfl
  | cons x l ih =>
    cases hx : f x with
    | none => simp [List.findSome?, hx, ih]
    | some y => simp [List.findSome?, hx]

/-- `findSome?` over two orders of a set in which at most one element succeeds. -/
theorem findSome?_perm_of_le_one {α β : Type} (f : α → Option β) (elems o₁ o₂ : List α)
    (hd : (elems.filter fun x => (f x).isSome).length ≤ 1)
    (h₁ : o₁.Perm elems) (h₂ : o₂.Perm elems) : o₁.findSome? f = o₂.findSome? f := by
  rw [findSome?_filter f o₁, findSome?_filter f o₂]
  have e₁ := perm_length_le_one (h₁.filter fun x => (f x).isSome) hd
  have e₂ := perm_length_le_one (h₂.filter fun x => (f x).isSome) hd
  rw [e₁, e₂]


/-! ## Worklist closure -/

theorem removeAt_mem {α : Type} : ∀ (i : Nat) (l : List α) (y : α) (r : List α),
    removeAt i l = some (y, r) → ∀ z, z ∈ l ↔ z = y ∨ z ∈ r := by
  intro i l
  induction l generalizing i with
  | nil => intro y r h; simp [removeAt] at h
  | cons x l ih =>
    intro y r h z
    cases i with
    | zero =>
      simp [removeAt] at h
      obtain ⟨h1, h2⟩ := h
      subst h1; subst h2; simp
    | succ i =>
      simp only [removeAt, Option.map_eq_some_iff] at h
      obtain ⟨⟨y', r'⟩, hr, heq⟩ := h
      simp at heq
      obtain ⟨h1, h2⟩ := heq
      subst h1; subst h2
      have := ih i y' r' hr z
      simp only [List.mem_cons, this]
      constructor
      · rintro (h | h | h)
        · exact Or.inr (Or.inl h)
        · exact Or.inl h
        · exact Or.inr (Or.inr h)
      · rintro (h | h | h)
        · exact Or.inr (Or.inl h)
        · exact Or.inl h
        · exact Or.inr (Or.inr h)

theorem removeAt_none {α : Type} (i : Nat) (l : List α) (h : removeAt (i % l.length) l = none) : l = [] := by
  cases l with
  | nil => rfl
  | cons x l =>
    exfalso
    have hlt : i % (x :: l).length < (x :: l).length := Nat.mod_lt _ (by simp)
    generalize i % (x :: l).length = k at h hlt
    clear i
    induction k generalizing x l with
    | zero => simp [removeAt] at h
    | succ k ih =>
      cases l with
      | nil => simp at hlt
      | cons y l =>
        simp only [removeAt, Option.map_eq_none_iff] at h
        exact ih y l h (by simp at hlt ⊢; omega)

/-- Reachability from `start` along `succ` (reflexive, transitive). -/
inductive Reach (succ : Nat → List Nat) (start : Nat) : Nat → Prop
  | refl : Reach succ start start
  | step {x y : Nat} : Reach succ start x → y ∈ succ x → Reach succ start y

/-- The invariant of the worklist loop. -/
structure ClosureInv (succ : Nat → List Nat) (start : Nat) (st : List Nat × List Nat × List Nat) : Prop where
  reach : ∀ x, x ∈ st.1 ∨ x ∈ st.2.1 → Reach succ start x
  start_in : start ∈ st.1 ∨ start ∈ st.2.1
  closed : ∀ x ∈ st.1, ∀ y ∈ succ x, y ∈ st.1 ∨ y ∈ st.2.1
  result : ∀ y, y ∈ st.2.2 ↔ ∃ x ∈ st.1, y ∈ succ x

theorem closureStep_inv (succ : Nat → List Nat) (start c : Nat) (st : List Nat × List Nat × List Nat)
    (hi : ClosureInv succ start st) : ClosureInv succ start (closureStep succ c st) := by
  obtain ⟨seen, pending, result⟩ := st
  unfold closureStep
  cases hrm : removeAt (c % pending.length) pending with
  | none => simpa [hrm] using hi
  | some yr =>
    obtain ⟨x, pending'⟩ := yr
    have hmem := removeAt_mem _ _ _ _ hrm
    simp only [hrm]
    by_cases hs : seen.contains x = true
    · simp only [hs, if_true]
      have hxs : x ∈ seen := by simpa using hs
      refine ⟨?_, ?_, ?_, hi.result⟩
      · intro z hz
        cases hz with
        | inl h => exact hi.reach z (Or.inl h)
        | inr h => exact hi.reach z (Or.inr ((hmem z).mpr (Or.inr h)))
      · cases hi.start_in with
        | inl h => exact Or.inl h
        | inr h =>
          cases (hmem start).mp h with
          | inl h' => exact Or.inl (h' ▸ hxs)
          | inr h' => exact Or.inr h'
      · intro z hz y hy
        cases hi.closed z hz y hy with
        | inl h => exact Or.inl h
        | inr h =>
          cases (hmem y).mp h with
          | inl h' => exact Or.inl (h' ▸ hxs)
          | inr h' => exact Or.inr h'
    · have hs' : seen.contains x = false := by simpa using hs
      simp only [hs', Bool.false_eq_true, if_false]
      have hxr : Reach succ start x := hi.reach x (Or.inr ((hmem x).mpr (Or.inl rfl)))
      have hnew : ∀ y, y ∈ pending' ++ (succ x).filter (fun y => !pending'.contains y) ↔ y ∈ pending' ∨ y ∈ succ x := by
        intro y
        simp only [List.mem_append, List.mem_filter]
        by_cases hp : y ∈ pending'
        · simp [hp]
        · simp [hp]
      refine ⟨?_, ?_, ?_, ?_⟩
      · intro z hz
        cases hz with
        | inl h =>
          cases List.mem_cons.mp h with
          | inl h' => exact h' ▸ hxr
          | inr h' => exact hi.reach z (Or.inl h')
        | inr h =>
          cases (hnew z).mp h with
          | inl h' => exact hi.reach z (Or.inr ((hmem z).mpr (Or.inr h')))
          | inr h' => exact Reach.step hxr h'
      · cases hi.start_in with
        | inl h => exact Or.inl (List.mem_cons_of_mem _ h)
        | inr h =>
          cases (hmem start).mp h with
          | inl h' => exact Or.inl (h' ▸ List.mem_cons_self)
          | inr h' => exact Or.inr ((hnew start).mpr (Or.inl h'))
      · intro z hz y hy
        cases List.mem_cons.mp hz with
        | inl h => exact Or.inr ((hnew y).mpr (Or.inr (h ▸ hy)))
        | inr h =>
          cases hi.closed z h y hy with
          | inl h' => exact Or.inl (List.mem_cons_of_mem _ h')
          | inr h' =>
            cases (hmem y).mp h' with
            | inl h'' => exact Or.inl (h'' ▸ List.mem_cons_self)
            | inr h'' => exact Or.inr ((hnew y).mpr (Or.inl h''))
      · intro y
        simp only [List.mem_append, List.mem_filter, List.mem_cons]
        constructor
        · rintro (h | ⟨h, _⟩)
          · obtain ⟨z, hz, hy⟩ := (hi.result y).mp h
            exact ⟨z, Or.inr hz, hy⟩
          · exact ⟨x, Or.inl rfl, h⟩
        · rintro ⟨z, hz | hz, hy⟩
          · subst hz
            by_cases hr : y ∈ result
            · exact Or.inl hr
            · exact Or.inr ⟨hy, by simpa using hr⟩
          · exact Or.inl ((hi.result y).mpr ⟨z, hz, hy⟩)

theorem closureRun_inv (succ : Nat → List Nat) (start : Nat) (choices : List Nat) :
    ClosureInv succ start (closureRun succ start choices) := by
  unfold closureRun
  have h0 : ClosureInv succ start ([], [start], []) :=
    ⟨by intro x hx; simp at hx; exact hx ▸ Reach.refl, by simp, by simp, by simp⟩
  generalize ([], [start], []) = st at h0
  induction choices generalizing st with
  | nil => exact h0
  | cons c cs ih => exact ih _ (closureStep_inv succ start c st h0)

/-- When the worklist has run empty, the result is the union of `succ x` over everything reachable
from the start — whatever elements `pop()` chose. -/
theorem closure_result (succ : Nat → List Nat) (start : Nat) (choices : List Nat)
    (hdone : (closureRun succ start choices).2.1 = []) (y : Nat) :
    y ∈ (closureRun succ start choices).2.2 ↔ ∃ x, Reach succ start x ∧ y ∈ succ x := by
  have hi := closureRun_inv succ start choices
  rw [hi.result y]
  have hstart : start ∈ (closureRun succ start choices).1 := by
    cases hi.start_in with
    | inl h => exact h
    | inr h => rw [hdone] at h; cases h
  have hall : ∀ x, Reach succ start x → x ∈ (closureRun succ start choices).1 := by
    intro x hx
    induction hx with
    | refl => exact hstart
    | step _ hy ih =>
      cases hi.closed _ ih _ hy with
      | inl h => exact h
      | inr h => rw [hdone] at h; cases h
  constructor
  · rintro ⟨x, hx, hy⟩; exact ⟨x, hi.reach x (Or.inl hx), hy⟩
  · rintro ⟨x, hx, hy⟩; exact ⟨x, hall x hx, hy⟩


/-! ## Memo tables -/
section memo
variable {Q κ ν : Type} [BEq κ] [LawfulBEq κ]
variable (key : Q → κ) (hashable : κ → Bool) (f fallback : Q → Option ν)

/-- The uncached function a memoised lookup stands for. -/
def memoSpec (q : Q) : Option ν := if hashable (key q) then f q else fallback q

/-- Every entry of the table is what the computation returns for any query with that key. -/
def MemoInv (tbl : List (κ × ν)) : Prop := ∀ q v, tbl.lookup (key q) = some v → f q = some v

/-- The cache key determines the result (arg_spec.py keys `known_argspecs` by the object although
`impl` / `is_asynq` are also inputs of the computation). -/
def KeyDetermines : Prop := ∀ q q', key q = key q' → f q = f q'

theorem memoStep_spec (hk : KeyDetermines key f) (tbl : List (κ × ν)) (hi : MemoInv key f tbl) (q : Q) :
    (memoStep key hashable f fallback tbl q).1 = memoSpec key hashable f fallback q ∧
      MemoInv key f (memoStep key hashable f fallback tbl q).2.1 := by
  unfold memoStep memoSpec
  by_cases hh : hashable (key q) = true
  · simp only [hh, Bool.not_true, Bool.false_eq_true, if_false, if_true]
    cases hl : tbl.lookup (key q) with
    | some v => exact ⟨(hi q v hl).symm, hi⟩
    | none =>
      cases hf : f q with
      | none => exact ⟨rfl, hi⟩
      | some v =>
        refine ⟨rfl, ?_⟩
        intro q' v' hl'
        by_cases hkk : key q' = key q
        · rw [hkk] at hl'
          simp [List.lookup] at hl'
          rw [hk q' q hkk, hf, hl']
        · have : (key q' == key q) = false := by simpa using hkk
          simp [List.lookup, this] at hl'
          exact hi q' v' hl'
  · have hh' : hashable (key q) = false := by simpa using hh
    simp only [hh', Bool.not_false, if_true, Bool.false_eq_true, if_false]
    exact ⟨trivial, hi⟩

theorem memoRun_inv (hk : KeyDetermines key f) : ∀ (h : List Q) (tbl : List (κ × ν)),
    MemoInv key f tbl → MemoInv key f (memoRun key hashable f fallback tbl h) := by
  intro h
  induction h with
  | nil => intro tbl hi; exact hi
  | cons q h ih =>
    intro tbl hi
    simp only [memoRun, List.foldl_cons]
    exact ih _ (memoStep_spec key hashable f fallback hk tbl hi q).2

end memo

def atomSemB (W : World) (ex : Bool) (n : Nat) : Atom → Ans
  | .const b => if b then some [] else none
  | .anyOk => if ex then none else some []
  | .bound tv b => some [(tv, [b])]
  | .sub p a v => semB W ex n p a v

/-- The map of one member: the unification of its slots' maps. -/
def memberSemB (W : World) (ex : Bool) (n : Nat) (m : List Atom) : Ans :=
  (optMapM (atomSemB W ex n) m).map unifyBM

theorem semB_succ (W : World) (ex : Bool) (n : Nat) (p : Pid) (a : Nat) (v : Vid) :
    semB W ex (n + 1) p a v = (optMapM (memberSemB W ex n) (W.req p a v)).map unifyBM := by
  simp only [semB]
  rfl

theorem optMapM_congr {α β : Type} (l : List α) (f g : α → Option β) (h : ∀ x ∈ l, f x = g x) :
    optMapM f l = optMapM g l := by
  induction l with
  | nil => rfl
  | cons x l ih =>
    simp only [optMapM]
    rw [h x (by simp), ih (fun y hy => h y (List.mem_cons_of_mem _ hy))]

theorem lookup_mem {α β : Type} [BEq α] [LawfulBEq α] (l : List (α × β)) (k : α) (v : β)
    (h : l.lookup k = some v) : (k, v) ∈ l := by
  induction l with
  | nil => simp at h
  | cons x l ih =>
    obtain ⟨k', v'⟩ := x
    by_cases hk : k = k'
    · subst hk; simp [List.lookup] at h; subst h; simp
    · have : (k == k') = false := by simpa using hk
      simp [List.lookup, this] at h
      exact List.mem_cons_of_mem _ (ih h)

/-- An atom of a member of a pair of rank `r`: nested checks go to a smaller rank. -/
def GoodAtom (W : World) (rk : Rank) (r : Nat) (at' : Atom) : Prop :=
  ∀ p' a' v', at' = .sub p' a' v' → rk p' (W.tobj v') < r

theorem req_good (W : World) (rk : Rank) (hr : rankOK W rk = true) (p : Pid) (a : Nat) (v : Vid) :
    ∀ m ∈ W.req p a v, ∀ at' ∈ m, GoodAtom W rk (rk p (W.tobj v)) at' := by
  intro m hm at' hat p' a' v' heq
  unfold World.req at hm
  cases hl : W.reqs.lookup (p, a, v) with
  | none =>
    simp [hl] at hm
    subst hm
    simp at hat
    subst hat
    cases heq
  | some ms =>
    simp [hl] at hm
    have hmem := lookup_mem _ _ _ hl
    subst heq
    have := (List.all_eq_true.mp hr) _ hmem
    have h2 := (List.all_eq_true.mp ((List.all_eq_true.mp this) m hm)) _ hat
    simpa using h2

/-! ### The cache only grows: entries are immutable after insertion -/

/-- `c₂` is `c₁` with entries put in front: every (key, bounds map) pair of `c₁` is still there,
unchanged. -/
def CacheExtends (c₁ c₂ : List (CKey × BMap)) : Prop := ∃ new, c₂ = new ++ c₁

theorem CacheExtends.refl (c : List (CKey × BMap)) : CacheExtends c c := ⟨[], rfl⟩

theorem CacheExtends.trans {c₁ c₂ c₃ : List (CKey × BMap)} (h₁ : CacheExtends c₁ c₂)
    (h₂ : CacheExtends c₂ c₃) : CacheExtends c₁ c₃ := by
  obtain ⟨n₁, e₁⟩ := h₁
  obtain ⟨n₂, e₂⟩ := h₂
  exact ⟨n₂ ++ n₁, by rw [e₂, e₁, List.append_assoc]⟩

theorem CacheExtends.mem {c₁ c₂ : List (CKey × BMap)} (h : CacheExtends c₁ c₂) (e : CKey × BMap)
    (he : e ∈ c₁) : e ∈ c₂ := by
  obtain ⟨n, rfl⟩ := h
  exact List.mem_append_right _ he

def RecExtends (rec : St → Pid → Nat → Vid → Ans × St) : Prop :=
  ∀ st p a v, CacheExtends st.cache (rec st p a v).2.cache

theorem evalAtoms_extends (rec : St → Pid → Nat → Vid → Ans × St) (ex : Bool) (hrec : RecExtends rec) :
    ∀ (as : List Atom) (st : St), CacheExtends st.cache (evalAtoms rec ex st as).2.cache := by
  intro as
  induction as with
  | nil => intro st; exact CacheExtends.refl _
  | cons a as ih =>
    intro st
    have h1 : CacheExtends st.cache (evalAtom rec ex st a).2.cache := by
      cases a with
      | const b => exact CacheExtends.refl _
      | anyOk => exact CacheExtends.refl _
      | bound tv b => exact CacheExtends.refl _
      | sub p a v => exact hrec st p a v
    simp only [evalAtoms]
    cases hr : (evalAtom rec ex st a).1 with
    | none => simpa [hr] using h1
    | some m => simpa [hr] using h1.trans (ih _)

theorem evalMembers_extends (rec : St → Pid → Nat → Vid → Ans × St) (ex : Bool) (hrec : RecExtends rec) :
    ∀ (ms : List (List Atom)) (st : St), CacheExtends st.cache (evalMembers rec ex st ms).2.cache := by
  intro ms
  induction ms with
  | nil => intro st; exact CacheExtends.refl _
  | cons m ms ih =>
    intro st
    have h1 := evalAtoms_extends rec ex hrec m st
    simp only [evalMembers]
    cases hr : (evalAtoms rec ex st m).1 with
    | none => simpa [hr] using h1
    | some bms => simpa [hr] using h1.trans (ih _)

/-- One protocol check — hit, guard, miss, with all its nested checks — never removes or changes a
cache entry: the old cache is a suffix of the new one. No hypothesis on the world. -/
theorem check_extends (W : World) (ex : Bool) : ∀ n, RecExtends (check W ex n) := by
  intro n
  induction n with
  | zero => intro st p a v; exact CacheExtends.refl _
  | succ n ih =>
    intro st p a v
    simp only [check]
    cases hl : st.cache.lookup (ex, a, p, v) with
    | some bm => exact CacheExtends.refl _
    | none =>
      simp only []
      by_cases hg : st.stack.contains (p, W.tobj v) = true
      · rw [if_pos hg]; exact CacheExtends.refl _
      · rw [if_neg hg]
        have h1 := evalMembers_extends (check W ex n) ex ih (W.req p a v)
          { st with stack := st.stack ++ [(p, W.tobj v)] }
        cases hr : (evalMembers (check W ex n) ex { st with stack := st.stack ++ [(p, W.tobj v)] }
            (W.req p a v)).1 with
        | none => simpa [hr] using h1
        | some bms =>
          simp only [hr]
          obtain ⟨new, hnew⟩ := h1
          split
          · exact ⟨new, by simp [hnew]⟩
          · exact ⟨((ex, a, p, v), unifyBM bms) :: new, by simp [hnew]⟩

theorem runHist_extends (W : World) (fuel : Nat) : ∀ (h : List Query) (st : St),
    CacheExtends st.cache (runHist W fuel st h).cache := by
  intro h
  induction h with
  | nil => intro st; exact CacheExtends.refl _
  | cons q h ih =>
    intro st
    simp only [runHist, List.foldl_cons]
    exact (check_extends W q.ex fuel st q.p q.a q.v).trans (ih _)

section proto
variable (W : World) (rk : Rank)
variable (hr : rankOK W rk = true)

include hr in
/-- Once the fuel exceeds the rank of a pair, `semB` no longer depends on it. -/
theorem semB_stable (ex : Bool) : ∀ (n m : Nat) (p : Pid) (a : Nat) (v : Vid), rk p (W.tobj v) < n →
    rk p (W.tobj v) < m → semB W ex n p a v = semB W ex m p a v := by
  intro n
  induction n with
  | zero => intro m p a v h; omega
  | succ n ih =>
    intro m p a v hn hm
    cases m with
    | zero => omega
    | succ m =>
      rw [semB_succ, semB_succ]
      congr 1
      apply optMapM_congr
      intro mem hmem
      unfold memberSemB
      congr 1
      apply optMapM_congr
      intro at' hat
      have hg := req_good W rk hr p a v mem hmem at' hat
      cases at' with
      | const b => rfl
      | anyOk => rfl
      | bound tv b => rfl
      | sub p' a' v' =>
        have hlt := hg p' a' v' rfl
        simp only [atomSemB]
        exact ih m p' a' v' (by omega) (by omega)

/-- Every cached bounds map is the structural one of its key (mode, variant, protocol, value). -/
def CacheOK (st : St) : Prop :=
  ∀ e a p v bm, ((e, a, p, v), bm) ∈ st.cache → semB W e (rk p (W.tobj v) + 1) p a v = some bm

/-- Every assumption on the stack has rank at least `r`. -/
def StackGe (st : St) (r : Nat) : Prop := ∀ e ∈ st.stack, r ≤ rk e.1 e.2

/-- What the nested `can_assign` must satisfy for pairs of rank below `r`. -/
def RecOK (ex : Bool) (rec : St → Pid → Nat → Vid → Ans × St) (n r : Nat) : Prop :=
  ∀ st p' a' v', rk p' (W.tobj v') < r → CacheOK W rk st → StackGe rk st r →
    (rec st p' a' v').1 = semB W ex n p' a' v' ∧ CacheOK W rk (rec st p' a' v').2 ∧
      (rec st p' a' v').2.stack = st.stack

theorem evalAtoms_spec (ex : Bool) (rec : St → Pid → Nat → Vid → Ans × St) (n r : Nat)
    (hrec : RecOK W rk ex rec n r) :
    ∀ (as : List Atom) (st : St), (∀ at' ∈ as, GoodAtom W rk r at') → CacheOK W rk st →
      StackGe rk st r →
      (evalAtoms rec ex st as).1 = optMapM (atomSemB W ex n) as ∧
        CacheOK W rk (evalAtoms rec ex st as).2 ∧ (evalAtoms rec ex st as).2.stack = st.stack := by
  intro as
  induction as with
  | nil => intro st _ hc _; exact ⟨rfl, hc, rfl⟩
  | cons a as ih =>
    intro st hg hc hs
    have hga := hg a (by simp)
    have hrest : ∀ at' ∈ as, GoodAtom W rk r at' := fun x hx => hg x (List.mem_cons_of_mem _ hx)
    have h1 : (evalAtom rec ex st a).1 = atomSemB W ex n a ∧ CacheOK W rk (evalAtom rec ex st a).2 ∧
        (evalAtom rec ex st a).2.stack = st.stack := by
      cases a with
      | const b => exact ⟨rfl, hc, rfl⟩
      | anyOk => exact ⟨rfl, hc, rfl⟩
      | bound tv b => exact ⟨rfl, hc, rfl⟩
      | sub p' a' v' => exact hrec st p' a' v' (hga p' a' v' rfl) hc hs
    obtain ⟨e1, c1, s1⟩ := h1
    simp only [evalAtoms, optMapM]
    rw [← e1]
    cases hb : (evalAtom rec ex st a).1 with
    | none => simp only []; exact ⟨trivial, c1, s1⟩
    | some m =>
      have hs' : StackGe rk (evalAtom rec ex st a).2 r := by
        intro e he; rw [s1] at he; exact hs e he
      obtain ⟨e2, c2, s2⟩ := ih (evalAtom rec ex st a).2 hrest c1 hs'
      simp only []
      exact ⟨by rw [e2], c2, by rw [s2, s1]⟩

theorem evalMembers_spec (ex : Bool) (rec : St → Pid → Nat → Vid → Ans × St) (n r : Nat)
    (hrec : RecOK W rk ex rec n r) :
    ∀ (ms : List (List Atom)) (st : St), (∀ m ∈ ms, ∀ at' ∈ m, GoodAtom W rk r at') →
      CacheOK W rk st → StackGe rk st r →
      (evalMembers rec ex st ms).1 = optMapM (memberSemB W ex n) ms ∧
        CacheOK W rk (evalMembers rec ex st ms).2 ∧ (evalMembers rec ex st ms).2.stack = st.stack := by
  intro ms
  induction ms with
  | nil => intro st _ hc _; exact ⟨rfl, hc, rfl⟩
  | cons m ms ih =>
    intro st hg hc hs
    obtain ⟨e1, c1, s1⟩ := evalAtoms_spec W rk ex rec n r hrec m st (hg m (by simp)) hc hs
    have hrest : ∀ m' ∈ ms, ∀ at' ∈ m', GoodAtom W rk r at' :=
      fun x hx => hg x (List.mem_cons_of_mem _ hx)
    simp only [evalMembers, optMapM, memberSemB]
    rw [← e1]
    cases hb : (evalAtoms rec ex st m).1 with
    | none => simp only [Option.map_none]; exact ⟨trivial, c1, s1⟩
    | some bms =>
      have hs' : StackGe rk (evalAtoms rec ex st m).2 r := by
        intro e he; rw [s1] at he; exact hs e he
      obtain ⟨e2, c2, s2⟩ := ih (evalAtoms rec ex st m).2 hrest c1 hs'
      simp only [Option.map_some]
      refine ⟨?_, c2, by rw [s2, s1]⟩
      rw [e2]

include hr in
/-- The protocol check (any mode `ex`, any variant `a`) on a pair whose rank the fuel exceeds, from a
state whose cache is valid and whose assumptions all have larger rank: the answer — verdict and
bounds map — is the structural one, the cache stays valid, the stack is restored. -/
theorem check_spec (ex : Bool) : ∀ (n : Nat) (st : St) (p : Pid) (a : Nat) (v : Vid),
    rk p (W.tobj v) < n → CacheOK W rk st → (∀ e ∈ st.stack, rk p (W.tobj v) < rk e.1 e.2) →
    (check W ex n st p a v).1 = semB W ex n p a v ∧ CacheOK W rk (check W ex n st p a v).2 ∧
      (check W ex n st p a v).2.stack = st.stack := by
  intro n
  induction n with
  | zero => intro st p a v h; omega
  | succ n ih =>
    intro st p a v hn hc hs
    simp only [check]
    cases hl : st.cache.lookup (ex, a, p, v) with
    | some bm =>
      simp only []
      refine ⟨?_, hc, trivial⟩
      have := hc ex a p v bm (lookup_mem _ _ _ hl)
      rw [← this]
      exact semB_stable W rk hr ex (rk p (W.tobj v) + 1) (n + 1) p a v (by omega) hn
    | none =>
      simp only []
      have hguard : ¬ st.stack.contains (p, W.tobj v) = true := by
        intro hgd
        have hmem : (p, W.tobj v) ∈ st.stack := by simpa using hgd
        have := hs _ hmem
        simp at this
      rw [if_neg hguard]
      obtain ⟨st1, hst1⟩ : ∃ st1 : St, st1 = { st with stack := st.stack ++ [(p, W.tobj v)] } := ⟨_, rfl⟩
      rw [← hst1]
      have hc1 : CacheOK W rk st1 := by rw [hst1]; exact hc
      have hs1 : StackGe rk st1 (rk p (W.tobj v)) := by
        intro e he
        have : e ∈ st.stack ∨ e = (p, W.tobj v) := by simpa [hst1] using he
        cases this with
        | inl h => exact Nat.le_of_lt (hs e h)
        | inr h => subst h; exact Nat.le_refl _
      have hrec : RecOK W rk ex (check W ex n) n (rk p (W.tobj v)) := by
        intro st' p' a' v' hlt hc' hs'
        exact ih st' p' a' v' (by omega) hc' (fun e he => Nat.lt_of_lt_of_le hlt (hs' e he))
      obtain ⟨e1, c1, s1⟩ := evalMembers_spec W rk ex (check W ex n) n _ hrec (W.req p a v) st1
        (req_good W rk hr p a v) hc1 hs1
      have hpop : (evalMembers (check W ex n) ex st1 (W.req p a v)).2.stack.dropLast = st.stack := by
        rw [s1, hst1]; simp
      have hsem : (evalMembers (check W ex n) ex st1 (W.req p a v)).1.map unifyBM = semB W ex (n + 1) p a v := by
        rw [e1, semB_succ]
      cases hb : (evalMembers (check W ex n) ex st1 (W.req p a v)).1 with
      | some bms =>
        rw [hb] at hsem
        simp only [Option.map_some] at hsem
        simp only []
        refine ⟨hsem, ?_, ?_⟩
        · split
          · intro e2 a2 p2 v2 bm2 hmem
            exact c1 e2 a2 p2 v2 bm2 (by simpa using hmem)
          · intro e2 a2 p2 v2 bm2 hmem
            have : ((e2, a2, p2, v2), bm2) = ((ex, a, p, v), unifyBM bms) ∨
                ((e2, a2, p2, v2), bm2) ∈ (evalMembers (check W ex n) ex st1 (W.req p a v)).2.cache := by
              simpa using hmem
            cases this with
            | inl h =>
              cases h
              rw [semB_stable W rk hr ex (rk p (W.tobj v) + 1) (n + 1) p a v (by omega) hn, ← hsem]
            | inr h => exact c1 e2 a2 p2 v2 bm2 h
        · split <;> simpa using hpop
      | none =>
        rw [hb] at hsem
        simp only [Option.map_none] at hsem
        simp only []
        refine ⟨hsem, ?_, by simpa using hpop⟩
        intro e2 a2 p2 v2 bm2 hmem
        exact c1 e2 a2 p2 v2 bm2 (by simpa using hmem)

include hr in
theorem runHist_inv (fuel : Nat) : ∀ (h : List Query) (st : St), CacheOK W rk st → st.stack = [] →
    (∀ q ∈ h, rk q.p (W.tobj q.v) < fuel) →
    CacheOK W rk (runHist W fuel st h) ∧ (runHist W fuel st h).stack = [] := by
  intro h
  induction h with
  | nil => intro st hc hs _; exact ⟨hc, hs⟩
  | cons q h ih =>
    intro st hc hs hq
    have hf := hq q (by simp)
    have hstep := check_spec W rk hr q.ex fuel st q.p q.a q.v hf hc (by rw [hs]; intro e he; cases he)
    simp only [runHist, List.foldl_cons]
    exact ih _ hstep.2.1 (by rw [hstep.2.2, hs]) (fun q' hq' => hq q' (List.mem_cons_of_mem _ hq'))

end proto

/-- In a world whose nested checks are well-founded w.r.t. `rk`, with enough fuel, the answer to `q`
after any history `h` (any mix of modes and of generic-argument variants) is the structural answer
`semB`: the same verdict and the same bounds map. -/
theorem answerAfter_eq_semB (W : World) (rk : Rank) (fuel : Nat) (h : List Query) (q : Query)
    (h1 : D10_cyclic W rk = false) (h4 : fuelOK W rk fuel (q :: h) = true) :
    answerAfter W fuel h q = semB W q.ex fuel q.p q.a q.v := by
  have hr : rankOK W rk = true := by simpa [D10_cyclic] using h1
  have hfuel : ∀ q' ∈ q :: h, rk q'.p (W.tobj q'.v) < fuel := by
    intro q' hq'
    have := (List.all_eq_true.mp h4) q' hq'
    simpa using this
  have hinv := runHist_inv W rk hr fuel h {} (by intro e a p v bm hm; cases hm) rfl
    (fun q' hq' => hfuel q' (List.mem_cons_of_mem _ hq'))
  have hstep := check_spec W rk hr q.ex fuel (runHist W fuel {} h) q.p q.a q.v (hfuel q (by simp)) hinv.1
    (by rw [hinv.2]; intro e he; cases he)
  unfold answerAfter
  exact hstep.1

/-! ### Recursive worlds: the verdict when answers are cached at top level only (5ad1557) -/

def atomV (W : World) (ex : Bool) (n : Nat) (S : List (Pid × Nat)) : Atom → Bool
  | .const b => b
  | .anyOk => !ex
  | .bound _ _ => true
  | .sub p a v => guardVerdict W ex n S p a v

theorem guardVerdict_succ (W : World) (ex : Bool) (n : Nat) (S : List (Pid × Nat)) (p : Pid) (a : Nat) (v : Vid) :
    guardVerdict W ex (n + 1) S p a v =
      if S.contains (p, W.tobj v) then true
      else (W.req p a v).all fun m => m.all (atomV W ex n (S ++ [(p, W.tobj v)])) := by
  simp only [guardVerdict]
  rfl

/-- More fuel and more assumptions never turn an accepted pair into a rejected one. -/
theorem guardVerdict_mono (W : World) (ex : Bool) : ∀ (n m : Nat) (S S' : List (Pid × Nat)) (p : Pid) (a : Nat) (v : Vid),
    n ≤ m → (∀ e ∈ S, e ∈ S') → guardVerdict W ex n S p a v = true → guardVerdict W ex m S' p a v = true := by
  intro n
  induction n with
  | zero => intro m S S' p a v _ _ h; simp [guardVerdict] at h
  | succ n ih =>
    intro m S S' p a v hnm hsub h
    cases m with
    | zero => omega
    | succ m =>
      rw [guardVerdict_succ] at h ⊢
      by_cases hc' : S'.contains (p, W.tobj v) = true
      · rw [if_pos hc']
      · rw [if_neg hc']
        have hc : ¬ S.contains (p, W.tobj v) = true := by
          intro hh
          apply hc'
          have : (p, W.tobj v) ∈ S := by simpa using hh
          simpa using hsub _ this
        rw [if_neg hc] at h
        rw [List.all_eq_true] at h ⊢
        intro mem hmem
        have h2 := h mem hmem
        rw [List.all_eq_true] at h2 ⊢
        intro at' hat
        have h3 := h2 at' hat
        cases at' with
        | const b => exact h3
        | anyOk => exact h3
        | bound tv b => rfl
        | sub p' a' v' =>
          simp only [atomV] at h3 ⊢
          apply ih m _ _ p' a' v' (by omega) _ h3
          intro e he
          have : e ∈ S ∨ e = (p, W.tobj v) := by simpa using he
          cases this with
          | inl h' => simpa using Or.inl (hsub e h')
          | inr h' => simp [h']

/-- Every cached key is accepted by the cache-free algorithm with fuel `N`, in the key's own mode. -/
def CacheV (W : World) (N : Nat) (c : List (CKey × BMap)) : Prop :=
  ∀ e a p v bm, ((e, a, p, v), bm) ∈ c → guardVerdict W e N [] p a v = true

/-- What a nested `can_assign` (an assumption is in force) does: it leaves cache and stack alone, is at
least as permissive as the cache-free algorithm and at most as permissive as that algorithm with
`N` more fuel. -/
def RecG (W : World) (ex : Bool) (N : Nat) (rec : St → Pid → Nat → Vid → Ans × St) (n : Nat) : Prop :=
  ∀ st p a v, CacheV W N st.cache → st.stack ≠ [] →
    (guardVerdict W ex n st.stack p a v = true → (rec st p a v).1.isSome = true) ∧
    ((rec st p a v).1.isSome = true → guardVerdict W ex (n + N) st.stack p a v = true) ∧
    (rec st p a v).2.stack = st.stack ∧ (rec st p a v).2.cache = st.cache

theorem evalAtoms_guard (W : World) (ex : Bool) (N : Nat) (rec : St → Pid → Nat → Vid → Ans × St) (n : Nat)
    (hrec : RecG W ex N rec n) : ∀ (as : List Atom) (st : St), CacheV W N st.cache → st.stack ≠ [] →
    (as.all (atomV W ex n st.stack) = true → (evalAtoms rec ex st as).1.isSome = true) ∧
    ((evalAtoms rec ex st as).1.isSome = true → as.all (atomV W ex (n + N) st.stack) = true) ∧
    (evalAtoms rec ex st as).2.stack = st.stack ∧ (evalAtoms rec ex st as).2.cache = st.cache := by
  intro as
  induction as with
  | nil => intro st _ _; exact ⟨fun _ => rfl, fun _ => rfl, rfl, rfl⟩
  | cons a as ih =>
    intro st hc hs
    have h1 : (atomV W ex n st.stack a = true → (evalAtom rec ex st a).1.isSome = true) ∧
        ((evalAtom rec ex st a).1.isSome = true → atomV W ex (n + N) st.stack a = true) ∧
        (evalAtom rec ex st a).2.stack = st.stack ∧ (evalAtom rec ex st a).2.cache = st.cache := by
      cases a with
      | const b => cases b <;> simp [evalAtom, atomV]
      | anyOk => cases ex <;> simp [evalAtom, atomV]
      | bound tv b => simp [evalAtom, atomV]
      | sub p' a' v' => exact hrec st p' a' v' hc hs
    obtain ⟨l1, u1, s1, c1⟩ := h1
    have hc' : CacheV W N (evalAtom rec ex st a).2.cache := by rw [c1]; exact hc
    have hs' : (evalAtom rec ex st a).2.stack ≠ [] := by rw [s1]; exact hs
    obtain ⟨l2, u2, s2, c2⟩ := ih (evalAtom rec ex st a).2 hc' hs'
    rw [s1] at l2 u2
    simp only [evalAtoms, List.all_cons, Bool.and_eq_true]
    cases hb : (evalAtom rec ex st a).1 with
    | none =>
      simp only []
      refine ⟨?_, ?_, s1, c1⟩
      · intro h; have := l1 h.1; rw [hb] at this; simp at this
      · intro h; simp at h
    | some m =>
      simp only []
      refine ⟨?_, ?_, by rw [s2, s1], by rw [c2, c1]⟩
      · intro h
        have := l2 h.2
        cases hr : (evalAtoms rec ex (evalAtom rec ex st a).2 as).1 with
        | none => rw [hr] at this; simp at this
        | some ms => simp
      · intro h
        refine ⟨u1 (by rw [hb]; rfl), u2 ?_⟩
        cases hr : (evalAtoms rec ex (evalAtom rec ex st a).2 as).1 with
        | none => rw [hr] at h; simp at h
        | some ms => rfl

theorem evalMembers_guard (W : World) (ex : Bool) (N : Nat) (rec : St → Pid → Nat → Vid → Ans × St) (n : Nat)
    (hrec : RecG W ex N rec n) : ∀ (ms : List (List Atom)) (st : St), CacheV W N st.cache → st.stack ≠ [] →
    ((ms.all fun m => m.all (atomV W ex n st.stack)) = true → (evalMembers rec ex st ms).1.isSome = true) ∧
    ((evalMembers rec ex st ms).1.isSome = true → (ms.all fun m => m.all (atomV W ex (n + N) st.stack)) = true) ∧
    (evalMembers rec ex st ms).2.stack = st.stack ∧ (evalMembers rec ex st ms).2.cache = st.cache := by
  intro ms
  induction ms with
  | nil => intro st _ _; exact ⟨fun _ => rfl, fun _ => rfl, rfl, rfl⟩
  | cons m ms ih =>
    intro st hc hs
    obtain ⟨l1, u1, s1, c1⟩ := evalAtoms_guard W ex N rec n hrec m st hc hs
    have hc' : CacheV W N (evalAtoms rec ex st m).2.cache := by rw [c1]; exact hc
    have hs' : (evalAtoms rec ex st m).2.stack ≠ [] := by rw [s1]; exact hs
    obtain ⟨l2, u2, s2, c2⟩ := ih (evalAtoms rec ex st m).2 hc' hs'
    rw [s1] at l2 u2
    simp only [evalMembers, List.all_cons, Bool.and_eq_true]
    cases hb : (evalAtoms rec ex st m).1 with
    | none =>
      simp only []
      refine ⟨?_, ?_, s1, c1⟩
      · intro h; have := l1 h.1; rw [hb] at this; simp at this
      · intro h; simp at h
    | some bms =>
      simp only []
      refine ⟨?_, ?_, by rw [s2, s1], by rw [c2, c1]⟩
      · intro h
        have := l2 h.2
        cases hr : (evalMembers rec ex (evalAtoms rec ex st m).2 ms).1 with
        | none => rw [hr] at this; simp at this
        | some x => simp
      · intro h
        refine ⟨u1 (by rw [hb]; rfl), u2 ?_⟩
        cases hr : (evalMembers rec ex (evalAtoms rec ex st m).2 ms).1 with
        | none => rw [hr] at h; simp at h
        | some x => rfl

/-- One protocol check with top-level-only caching, from any state whose cache is `CacheV N`: lower and
upper bound of the verdict by the cache-free algorithm, the stack restored, the cache untouched when
an assumption is in force, and extended by at most the answered key at top level. -/
theorem check_guard (W : World) (ex : Bool) (N : Nat) (hto : topOnly = true) : ∀ (n : Nat) (st : St) (p : Pid) (a : Nat) (v : Vid),
    CacheV W N st.cache →
    (guardVerdict W ex n st.stack p a v = true → (check W ex n st p a v).1.isSome = true) ∧
    ((check W ex n st p a v).1.isSome = true → guardVerdict W ex (n + N) st.stack p a v = true) ∧
    (check W ex n st p a v).2.stack = st.stack ∧
    (st.stack ≠ [] → (check W ex n st p a v).2.cache = st.cache) ∧
    ((check W ex n st p a v).2.cache = st.cache ∨
      ∃ bm, (check W ex n st p a v).1 = some bm ∧ (check W ex n st p a v).2.cache = ((ex, a, p, v), bm) :: st.cache) := by
  intro n
  induction n with
  | zero =>
    intro st p a v _
    simp [check, guardVerdict]
  | succ n ih =>
    intro st p a v hc
    simp only [check]
    cases hl : st.cache.lookup (ex, a, p, v) with
    | some bm =>
      simp only []
      refine ⟨fun _ => by first | rfl | trivial, ?_, by first | rfl | trivial, fun _ => by first | rfl | trivial,
        Or.inl (by first | rfl | trivial)⟩
      intro _
      have hv := hc ex a p v bm (lookup_mem _ _ _ hl)
      exact guardVerdict_mono W ex N (n + 1 + N) [] st.stack p a v (by omega) (by intro e he; cases he) hv
    | none =>
      simp only []
      by_cases hg : st.stack.contains (p, W.tobj v) = true
      · rw [if_pos hg]
        refine ⟨fun _ => rfl, ?_, rfl, fun _ => rfl, Or.inl rfl⟩
        intro _
        have : n + 1 + N = (n + N) + 1 := by omega
        rw [this, guardVerdict_succ, if_pos hg]
      · rw [if_neg hg]
        obtain ⟨st1, hst1⟩ : ∃ st1 : St, st1 = { st with stack := st.stack ++ [(p, W.tobj v)] } := ⟨_, rfl⟩
        rw [← hst1]
        have hst1s : st1.stack = st.stack ++ [(p, W.tobj v)] := by rw [hst1]
        have hst1c : st1.cache = st.cache := by rw [hst1]
        have hne : st1.stack ≠ [] := by rw [hst1s]; simp
        have hrec : RecG W ex N (check W ex n) n := by
          intro st' p' a' v' hc' hs'
          obtain ⟨l, u, s, c, _⟩ := ih st' p' a' v' hc'
          exact ⟨l, u, s, c hs'⟩
        obtain ⟨l1, u1, s1, c1⟩ := evalMembers_guard W ex N (check W ex n) n hrec (W.req p a v) st1
          (by rw [hst1c]; exact hc) hne
        rw [hst1s] at l1 u1
        have hpop : (evalMembers (check W ex n) ex st1 (W.req p a v)).2.stack.dropLast = st.stack := by
          rw [s1, hst1s]; simp
        cases hb : (evalMembers (check W ex n) ex st1 (W.req p a v)).1 with
        | none =>
          simp only []
          refine ⟨?_, ?_, by simpa using hpop, fun _ => by simpa [hst1c] using c1, Or.inl (by simpa [hst1c] using c1)⟩
          · intro h
            rw [guardVerdict_succ, if_neg hg] at h
            have := l1 h
            rw [hb] at this; simp at this
          · intro h; simp at h
        | some bms =>
          simp only []
          have hU : guardVerdict W ex (n + 1 + N) st.stack p a v = true := by
            have : n + 1 + N = (n + N) + 1 := by omega
            rw [this, guardVerdict_succ, if_neg hg]
            exact u1 (by rw [hb]; rfl)
          refine ⟨fun _ => rfl, fun _ => hU, ?_, ?_, ?_⟩
          · split <;> simpa using hpop
          · intro hs
            have : (topOnly && !(evalMembers (check W ex n) ex st1 (W.req p a v)).2.stack.dropLast.isEmpty) = true := by
              rw [hto, hpop]
              cases hst : st.stack with
              | nil => exact absurd hst hs
              | cons x xs => rfl
            rw [if_pos this]
            simpa [hst1c] using c1
          · split
            · exact Or.inl (by simpa [hst1c] using c1)
            · exact Or.inr ⟨unifyBM bms, rfl, by simp [c1, hst1c]⟩

/-- The cache after a history of top-level queries: every cached key is accepted by the cache-free
algorithm with fuel `h.length * fuel`, and no assumption is left. -/
theorem runHist_guard (W : World) (fuel : Nat) (hto : topOnly = true) : ∀ (h : List Query) (st : St) (N : Nat),
    CacheV W N st.cache → st.stack = [] →
    CacheV W (N + h.length * fuel) (runHist W fuel st h).cache ∧ (runHist W fuel st h).stack = [] := by
  intro h
  induction h with
  | nil =>
    intro st N hc hs
    simp only [runHist, List.foldl_nil, List.length_nil, Nat.zero_mul, Nat.add_zero]
    exact ⟨hc, hs⟩
  | cons q h ih =>
    intro st N hc hs
    obtain ⟨_, u, s, _, cc⟩ := check_guard W q.ex N hto fuel st q.p q.a q.v hc
    have hc' : CacheV W (fuel + N) (check W q.ex fuel st q.p q.a q.v).2.cache := by
      intro e a p v bm hmem
      have hold : ∀ e a p v bm, ((e, a, p, v), bm) ∈ st.cache → guardVerdict W e (fuel + N) [] p a v = true :=
        fun e a p v bm hm => guardVerdict_mono W e N (fuel + N) [] [] p a v (by omega) (fun _ h => h) (hc e a p v bm hm)
      cases cc with
      | inl h1 => rw [h1] at hmem; exact hold e a p v bm hmem
      | inr h1 =>
        obtain ⟨bm', hans, hcache⟩ := h1
        rw [hcache] at hmem
        cases List.mem_cons.mp hmem with
        | inl heq =>
          cases heq
          have := u (by rw [hans]; rfl)
          rw [hs] at this
          exact this
        | inr hm => exact hold e a p v bm hm
    have := ih _ (fuel + N) hc' (by rw [s, hs])
    simp only [runHist, List.foldl_cons, List.length_cons]
    have heq : N + (h.length + 1) * fuel = fuel + N + h.length * fuel := by
      rw [Nat.add_mul]; omega
    rw [heq]
    exact this

/-! ### Histories of one process: several Checkers, process-level table -/

/-- The key of the process-level table determines what the memoised computation reads: entries are
keyed by values, never by bare addresses. -/
def KeyedByValue (key : Obj → Nat) : Prop := ∀ o o' : Obj, key o = key o' → o.content = o'.content

theorem keyedByValue_determines (key : Obj → Nat) (g : Nat → Nat) (hk : KeyedByValue key) :
    KeyDetermines key (fun o : Obj => some (g o.content)) := by
  intro o o' h
  show some (g o.content) = some (g o'.content)
  rw [hk o o' h]

/-- The queries among the events stay below the fuel. -/
def fuelOKE (W : World) (rk : Rank) (fuel : Nat) (es : List Event) : Bool :=
  es.all fun e => match e with
    | .query q => decide (rk q.p (W.tobj q.v) < fuel)
    | _ => true

/-- Invariant of the process state. -/
def ProcOK (W : World) (rk : Rank) (key : Obj → Nat) (g : Nat → Nat) (s : PSt) : Prop :=
  CacheOK W rk s.chk ∧ s.chk.stack = [] ∧ MemoInv key (fun o : Obj => some (g o.content)) s.proc

theorem stepE_spec (W : World) (rk : Rank) (hr : rankOK W rk = true) (fuel : Nat) (key : Obj → Nat)
    (g : Nat → Nat) (hk : KeyedByValue key) (s : PSt) (hs : ProcOK W rk key g s) (e : Event)
    (hf : fuelOKE W rk fuel [e] = true) :
    (stepE W fuel key g s e).1 = (stepE W fuel key g {} e).1 ∧ ProcOK W rk key g (stepE W fuel key g s e).2 := by
  obtain ⟨hc, hst, hm⟩ := hs
  have h0c : CacheOK W rk ({} : St) := by intro e a p v bm hmem; cases hmem
  have h0m : MemoInv key (fun o : Obj => some (g o.content)) ([] : List (Nat × Nat)) := by
    intro q v hl; simp at hl
  cases e with
  | query q =>
    have hlt : rk q.p (W.tobj q.v) < fuel := by simpa [fuelOKE] using hf
    have h1 := check_spec W rk hr q.ex fuel s.chk q.p q.a q.v hlt hc (by rw [hst]; intro e he; cases he)
    have h2 := check_spec W rk hr q.ex fuel {} q.p q.a q.v hlt h0c (by intro e he; cases he)
    simp only [stepE]
    exact ⟨by rw [h1.1, h2.1], h1.2.1, by rw [h1.2.2, hst], hm⟩
  | newChecker =>
    simp only [stepE]
    exact ⟨trivial, h0c, rfl, hm⟩
  | resolve o =>
    have hkd := keyedByValue_determines key g hk
    have h1 := memoStep_spec key (fun _ => true) (fun o : Obj => some (g o.content)) (fun _ => none) hkd s.proc hm o
    have h2 := memoStep_spec key (fun _ => true) (fun o : Obj => some (g o.content)) (fun _ => none) hkd [] h0m o
    simp only [stepE, procStep]
    exact ⟨by rw [h1.1, h2.1], hc, hst, h1.2⟩

theorem runE_inv (W : World) (rk : Rank) (hr : rankOK W rk = true) (fuel : Nat) (key : Obj → Nat)
    (g : Nat → Nat) (hk : KeyedByValue key) : ∀ (h : List Event) (s : PSt), ProcOK W rk key g s →
    fuelOKE W rk fuel h = true → ProcOK W rk key g (runE W fuel key g s h) := by
  intro h
  induction h with
  | nil => intro s hs _; exact hs
  | cons e h ih =>
    intro s hs hf
    simp only [fuelOKE, List.all_cons, Bool.and_eq_true] at hf
    simp only [runE, List.foldl_cons]
    exact ih _ (stepE_spec W rk hr fuel key g hk s hs e (by simp [fuelOKE, hf.1])).2 (by simpa [fuelOKE] using hf.2)

end Pya.C10
