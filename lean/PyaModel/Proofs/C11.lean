import PyaModel.Spec.Suppress
import PyaModel.Generated.EmitConsts
/-!
# Proofs/C11 — helper lemmas for Props/C11

1. `showError` restated through two pure functions of the call (`gateOpen`, `verdict`).
2. Disabling codes: a simulation between the run with `en` and the run with `en` minus `S`.
3. The run's failure list / `used` set in closed form, and their agreement with the declarative spec
   (`nub`, `suppressed`, `credited`) — for every well-formed stream since the repair 0cba813.
4. The end-of-file passes.
5. String lemmas about the comment texts (`withTrailing`, `ownLine`).
6. Inserting a comment into a file without ignore comments.
-/
set_option linter.unusedSimpArgs false
set_option linter.unusedVariables false

namespace Pya.C11

/-! ## 0. Tie to the live source: the constants `translate` regenerates are the model's -/

theorem gen_ignoreComment : IC = Gen.ignoreComment.toList := by decide
theorem gen_bareRegexSuffix : Gen.bareRegexSuffix = "(?!\\[)" := by decide
theorem gen_unusedIgnoreCode : Gen.unusedIgnoreCode = "unused_ignore" := by decide
theorem gen_bareIgnoreCode : Gen.bareIgnoreCode = "bare_ignore" := by decide
/-- `_lines()` splits at `\\r\\n`, `\\r`, `\\n` — what `pyLines` (via `isReBreak` and the `afterCR` state) models. -/
theorem gen_linesSplitRegex : Gen.linesSplitRegex = "\\r\\n|\\r|\\n" := by decide

/-- **options_state_registered.** Everything in `pyanalyze/options.py` that could carry state from one
lookup (one module, one option) to the next — mutable containers held by a class, caching decorators,
in-place mutation sites, `dataclasses.replace` copies — is known and harmless for the model
(`isErrorCodeEnabled` is a pure function of the instance table, `runModules` shares nothing):
the class registry filled at import time, the `lru_cache` on the constant set of code names, the
local `by_name` table of `from_option_list`, and a class-level default. A new memo dict, a new cache
or a new in-place update changes the regenerated list and breaks this obligation. -/
theorem options_state_registered : Gen.optionsState =
    ["cache get_all_error_codes @lru_cache",
     "mutate ConfigOption.__init_subclass__: cls.registry[...] =",
     "mutate Options.from_option_list: by_name[].append()",
     "state ConfigOption.registry",
     "state StringSequenceOption.default_value"] := by decide

/-! ## 1. `showError` through pure functions of the call -/

/-- What the per-line part of `show_error` decides for a call, as a function of file and call only. -/
inductive Verdict
  | crash
  | ign (k : Int)
  | show
  deriving DecidableEq, Repr

def verdict (lines : List Line) (r : Raw) : Verdict :=
  match (if r.obey then r.pos else none) with
  | none => .show
  | some (ln, _) =>
    match pyGet lines ((ln : Int) - 1) with
    | none => .crash
    | some l =>
      if trailingMatch l r.code then .ign ((ln : Int) - 1)
      else match (if 2 ≤ ln then pyGet lines ((ln : Int) - 2) else some []) with
        | none => .crash
        | some p => if ownLineMatch p r.code then .ign ((ln : Int) - 2) else .show

def pushFail (st : St) (r : Raw) : St :=
  { seen := r.key :: st.seen, used := st.used, fails := if r.save then st.fails ++ [r] else st.fails }

theorem showError_eq (en : String → Bool) (lines : List Line) (st : St) (r : Raw) :
    showError en lines st r =
      if r.captured || disabledBy en r then some st
      else match fileLevelIdx r.code 0 lines with
        | some i => some { st with used := (i : Int) :: st.used }
        | none =>
          if st.seen.contains r.key then some st
          else match verdict lines r with
            | .crash => none
            | .ign k => some { seen := r.key :: st.seen, used := k :: st.used, fails := st.fails }
            | .show => some (pushFail st r) := by
  unfold showError verdict pushFail
  by_cases hc : r.captured = true
  · simp [hc]
  · by_cases hd : disabledBy en r = true
    · simp [hc, hd]
    · simp only [hc, hd, Bool.false_eq_true, if_false, Bool.or_self]
      cases fileLevelIdx r.code 0 lines with
      | some i => rfl
      | none =>
        simp only
        by_cases hs : st.seen.contains r.key = true
        · rw [if_pos hs, if_pos hs]
        · rw [if_neg hs, if_neg hs]
          cases (if r.obey then r.pos else none) with
          | none => cases r.save <;> rfl
          | some p =>
            obtain ⟨ln, c⟩ := p
            simp only
            cases pyGet lines ((ln : Int) - 1) with
            | none => rfl
            | some l =>
              simp only
              by_cases ht : trailingMatch l r.code = true
              · simp [ht]
              · simp only [ht, Bool.false_eq_true, if_false]
                cases (if 2 ≤ ln then pyGet lines ((ln : Int) - 2) else some []) with
                | none => rfl
                | some p =>
                  simp only
                  by_cases ho : ownLineMatch p r.code = true
                  · simp [ho]
                  · simp only [ho, Bool.false_eq_true, if_false]
                    cases r.save <;> rfl

/-! ## 2. Disabling codes: simulation -/

def keepKey (S : List String) (k : Key) : Bool :=
  match k.tag with
  | .inl c => !S.contains c
  | .inr _ => true

theorem keepKey_key (S : List String) (r : Raw) : keepKey S r.key = !codeIn S r := by
  unfold keepKey Raw.key codeIn
  cases r.code <;> rfl

theorem disabledBy_disable (S : List String) (en : String → Bool) (r : Raw) :
    disabledBy (disable S en) r = (disabledBy en r || codeIn S r) := by
  unfold disabledBy disable codeIn
  cases r.code with
  | none => rfl
  | some c =>
    show (!(en c && !S.contains c)) = (!en c || S.contains c)
    cases en c <;> cases S.contains c <;> rfl

/-- The invariant between the run with `en` (left) and the run with `disable S en` (right). -/
structure Rel (S : List String) (st st2 : St) : Prop where
  fails : st2.fails = st.fails.filter fun r => !codeIn S r
  seen : ∀ k, k ∈ st2.seen ↔ (k ∈ st.seen ∧ keepKey S k = true)

theorem Rel.contains {S : List String} {st st2 : St} (h : Rel S st st2) (r : Raw)
    (hk : codeIn S r = false) : st2.seen.contains r.key = st.seen.contains r.key := by
  have := h.seen r.key
  rw [keepKey_key, hk] at this
  simp only [Bool.not_false, and_true] at this
  rw [Bool.eq_iff_iff, List.contains_iff_mem, List.contains_iff_mem]
  exact this

theorem Rel.step {S : List String} {en : String → Bool} {lines : List Line} {st st2 st' : St} {r : Raw}
    (h : Rel S st st2) (hr : showError en lines st r = some st') :
    ∃ st2', showError (disable S en) lines st2 r = some st2' ∧ Rel S st' st2' := by
  rw [showError_eq] at hr ⊢
  rw [disabledBy_disable]
  by_cases hc : r.captured = true
  · simp only [hc, Bool.true_or, if_true, Option.some.injEq] at hr ⊢
    exact ⟨st2, rfl, hr ▸ h⟩
  by_cases hd : disabledBy en r = true
  · simp only [hd, Bool.or_true, Bool.true_or, if_true, Option.some.injEq] at hr ⊢
    exact ⟨st2, rfl, hr ▸ h⟩
  simp only [hc, hd, Bool.or_self, Bool.false_eq_true, if_false, Bool.false_or] at hr ⊢
  by_cases hS : codeIn S r = true
  · -- the right run drops the call; the left run changes `used`, or `seen` by a key of a disabled code
    simp only [hS, if_true, Option.some.injEq]
    refine ⟨st2, rfl, ?_⟩
    have hkk : keepKey S r.key = false := by rw [keepKey_key, hS]; rfl
    have addSeen : ∀ (u : List Int) (f : List Raw), f.filter (fun r => !codeIn S r) = st.fails.filter (fun r => !codeIn S r) →
        Rel S { seen := r.key :: st.seen, used := u, fails := f } st2 := by
      intro u f hf
      refine ⟨by rw [h.fails, hf], fun k => ?_⟩
      rw [h.seen k]
      constructor
      · rintro ⟨a, b⟩; exact ⟨List.mem_cons_of_mem _ a, b⟩
      · rintro ⟨a, b⟩
        rcases List.mem_cons.mp a with rfl | a
        · rw [hkk] at b; cases b
        · exact ⟨a, b⟩
    cases hfl : fileLevelIdx r.code 0 lines with
    | some i =>
      rw [hfl] at hr; simp only [Option.some.injEq] at hr
      subst hr; exact ⟨h.fails, h.seen⟩
    | none =>
      rw [hfl] at hr; simp only at hr
      by_cases hs : st.seen.contains r.key = true
      · simp only [hs, if_true, Option.some.injEq] at hr; subst hr; exact h
      · simp only [hs, Bool.false_eq_true, if_false] at hr
        cases hv : verdict lines r with
        | crash => rw [hv] at hr; cases hr
        | ign k => rw [hv] at hr; simp only [Option.some.injEq] at hr; subst hr; exact addSeen _ _ rfl
        | «show» =>
          rw [hv] at hr; simp only [Option.some.injEq] at hr; subst hr
          unfold pushFail
          apply addSeen
          cases r.save
          · rfl
          · simp [List.filter_append, hS]
  · -- the call is treated identically on both sides
    have hS' : codeIn S r = false := by simpa using hS
    simp only [hS', Bool.false_eq_true, if_false]
    cases hfl : fileLevelIdx r.code 0 lines with
    | some i =>
      rw [hfl] at hr; simp only [Option.some.injEq] at hr ⊢
      subst hr; exact ⟨_, rfl, h.fails, h.seen⟩
    | none =>
      rw [hfl] at hr; simp only at hr ⊢
      rw [h.contains r hS']
      by_cases hs : st.seen.contains r.key = true
      · simp only [hs, if_true, Option.some.injEq] at hr ⊢; subst hr; exact ⟨_, rfl, h⟩
      · simp only [hs, Bool.false_eq_true, if_false] at hr ⊢
        have hkk : keepKey S r.key = true := by rw [keepKey_key, hS']; rfl
        have addSeen : ∀ (u u2 : List Int) (f f2 : List Raw), f2 = f.filter (fun r => !codeIn S r) →
            Rel S { seen := r.key :: st.seen, used := u, fails := f } { seen := r.key :: st2.seen, used := u2, fails := f2 } := by
          intro u u2 f f2 hf
          refine ⟨hf, fun k => ?_⟩
          simp only [List.mem_cons]
          rw [h.seen k]
          constructor
          · rintro (rfl | ⟨a, b⟩)
            · exact ⟨Or.inl rfl, hkk⟩
            · exact ⟨Or.inr a, b⟩
          · rintro ⟨rfl | a, b⟩
            · exact Or.inl rfl
            · exact Or.inr ⟨a, b⟩
        cases hv : verdict lines r with
        | crash => rw [hv] at hr; cases hr
        | ign k =>
          rw [hv] at hr; simp only [Option.some.injEq] at hr ⊢; subst hr
          exact ⟨_, rfl, addSeen _ _ _ _ h.fails⟩
        | «show» =>
          rw [hv] at hr; simp only [Option.some.injEq] at hr ⊢; subst hr
          refine ⟨_, rfl, ?_⟩
          unfold pushFail
          apply addSeen
          cases r.save
          · exact h.fails
          · simp [List.filter_append, hS', h.fails]

theorem Rel.run {S : List String} {en : String → Bool} {lines : List Line} (raw : List Raw) :
    ∀ {st st2 st' : St}, Rel S st st2 → run en lines st raw = some st' →
      ∃ st2', run (disable S en) lines st2 raw = some st2' ∧ Rel S st' st2' := by
  induction raw with
  | nil => intro st st2 st' h hr; simp only [C11.run, Option.some.injEq] at hr ⊢; exact ⟨st2, rfl, hr ▸ h⟩
  | cons r rs ih =>
    intro st st2 st' h hr
    simp only [C11.run] at hr ⊢
    cases hs : showError en lines st r with
    | none => rw [hs] at hr; cases hr
    | some st1 =>
      rw [hs] at hr
      obtain ⟨st21, h1, hrel⟩ := h.step hs
      rw [h1]
      exact ih hrel hr

theorem Rel.init (S : List String) : Rel S {} {} := ⟨rfl, fun k => by simp⟩

/-! ## 3. The run in closed form -/

/-- The call reaches the duplicate filter. -/
def gateOpen (en : String → Bool) (lines : List Line) (r : Raw) : Bool :=
  !(r.captured || disabledBy en r) && (fileLevelIdx r.code 0 lines).isNone

/-- The call is stopped by a file-level ignore comment on (0-based) line `i`. -/
def fileCredit (en : String → Bool) (lines : List Line) (r : Raw) : Option Nat :=
  if r.captured || disabledBy en r then none else fileLevelIdx r.code 0 lines

/-- The duplicate filter as a function of the keys seen so far. -/
def dedupFrom : List Key → List Raw → List Raw
  | _, [] => []
  | seen, r :: rs => if seen.contains r.key then dedupFrom seen rs else r :: dedupFrom (r.key :: seen) rs

theorem showError_eq2 (en : String → Bool) (lines : List Line) (st : St) (r : Raw) :
    showError en lines st r =
      match fileCredit en lines r with
      | some i => some { st with used := (i : Int) :: st.used }
      | none =>
        if gateOpen en lines r && !st.seen.contains r.key then
          match verdict lines r with
          | .crash => none
          | .ign k => some { seen := r.key :: st.seen, used := k :: st.used, fails := st.fails }
          | .show => some (pushFail st r)
        else some st := by
  rw [showError_eq]
  unfold fileCredit gateOpen
  by_cases h : (r.captured || disabledBy en r) = true
  · simp [h]
  · simp only [h, Bool.false_eq_true, if_false, Bool.not_false, Bool.true_and]
    cases fileLevelIdx r.code 0 lines with
    | some i => rfl
    | none =>
      simp only [Option.isNone_none, Bool.true_and]
      by_cases hs : st.seen.contains r.key = true
      · rw [if_pos hs]; simp only [hs, Bool.not_true, Bool.false_eq_true, if_false]
      · rw [if_neg hs]; simp only [Bool.not_eq_true] at hs; simp only [hs, Bool.not_false, if_true]

theorem mem_cons_key {k x : Key} {l : List Key} (a : k ∈ x :: l) : k ∈ l ∨ k = x := by
  rcases List.mem_cons.mp a with rfl | a
  · exact Or.inr rfl
  · exact Or.inl a

/-- Everything `run` does to the state, as functions of the input. -/
structure Closed (en : String → Bool) (lines : List Line) (raw : List Raw) (st st' : St) : Prop where
  fails : st'.fails = st.fails ++
    (dedupFrom st.seen (raw.filter (gateOpen en lines))).filter fun r => verdict lines r == .show && r.save
  used : ∀ k : Int, k ∈ st'.used ↔
    (k ∈ st.used ∨ (∃ r ∈ raw, ∃ i : Nat, fileCredit en lines r = some i ∧ k = (i : Int)) ∨
      ∃ r ∈ dedupFrom st.seen (raw.filter (gateOpen en lines)), verdict lines r = .ign k)
  seen : ∀ k, k ∈ st'.seen → k ∈ st.seen ∨ ∃ r ∈ raw, k = r.key
  nocrash : ∀ r ∈ dedupFrom st.seen (raw.filter (gateOpen en lines)), verdict lines r ≠ .crash

theorem run_closed (en : String → Bool) (lines : List Line) (raw : List Raw) :
    ∀ st st', run en lines st raw = some st' → Closed en lines raw st st' := by
  induction raw with
  | nil =>
    intro st st' h
    simp only [run, Option.some.injEq] at h; subst h
    exact ⟨by simp [dedupFrom], fun k => by simp [dedupFrom], fun k hk => Or.inl hk, by simp [dedupFrom]⟩
  | cons r rs ih =>
    intro st st' h
    simp only [run] at h
    cases hs : showError en lines st r with
    | none => rw [hs] at h; cases h
    | some st1 =>
      rw [hs] at h
      have c := ih st1 st' h
      rw [showError_eq2] at hs
      cases hfc : fileCredit en lines r with
      | some i =>
        rw [hfc] at hs; simp only [Option.some.injEq] at hs; subst hs
        have hg : gateOpen en lines r = false := by
          unfold fileCredit at hfc; unfold gateOpen
          by_cases hx : (r.captured || disabledBy en r) = true
          · simp [hx]
          · simp only [hx, Bool.false_eq_true, if_false] at hfc; simp [hfc]
        have hf : (r :: rs).filter (gateOpen en lines) = rs.filter (gateOpen en lines) := by
          simp [List.filter_cons, hg]
        refine ⟨by rw [hf]; exact c.fails, fun k => ?_, fun k hk => ?_, by rw [hf]; exact c.nocrash⟩
        · rw [c.used k, hf]
          simp only [List.mem_cons, exists_eq_or_imp, hfc, Option.some.injEq]
          constructor
          · rintro ((rfl | a) | a | a)
            · exact Or.inr (Or.inl (Or.inl ⟨i, rfl, rfl⟩))
            · exact Or.inl a
            · exact Or.inr (Or.inl (Or.inr a))
            · exact Or.inr (Or.inr a)
          · rintro (a | (⟨j, rfl, rfl⟩ | a) | a)
            · exact Or.inl (Or.inr a)
            · exact Or.inl (Or.inl rfl)
            · exact Or.inr (Or.inl a)
            · exact Or.inr (Or.inr a)
        · rcases c.seen k hk with a | ⟨r', hr', rfl⟩
          · exact Or.inl a
          · exact Or.inr ⟨r', List.mem_cons_of_mem _ hr', rfl⟩
      | none =>
        rw [hfc] at hs; simp only at hs
        have noFile : ∀ k : Int, (∃ r' ∈ r :: rs, ∃ i : Nat, fileCredit en lines r' = some i ∧ k = (i : Int)) ↔
            ∃ r' ∈ rs, ∃ i : Nat, fileCredit en lines r' = some i ∧ k = (i : Int) := by
          intro k; simp [hfc]
        have seenMono : ∀ k, (k ∈ st1.seen → k ∈ st.seen ∨ k = r.key) → k ∈ st'.seen →
            k ∈ st.seen ∨ ∃ r' ∈ r :: rs, k = r'.key := by
          intro k hmono hk
          rcases c.seen k hk with a | ⟨r', hr', rfl⟩
          · rcases hmono a with a | rfl
            · exact Or.inl a
            · exact Or.inr ⟨r, List.mem_cons_self, rfl⟩
          · exact Or.inr ⟨r', List.mem_cons_of_mem _ hr', rfl⟩
        by_cases hg : (gateOpen en lines r && !st.seen.contains r.key) = true
        · rw [if_pos hg] at hs
          simp only [Bool.and_eq_true, Bool.not_eq_true'] at hg
          obtain ⟨hg1, hg2⟩ := hg
          have hd : dedupFrom st.seen ((r :: rs).filter (gateOpen en lines)) =
              r :: dedupFrom (r.key :: st.seen) (rs.filter (gateOpen en lines)) := by
            simp only [List.filter_cons, hg1, if_true, dedupFrom, hg2, Bool.false_eq_true, if_false]
          cases hv : verdict lines r with
          | crash => rw [hv] at hs; cases hs
          | ign k0 =>
            rw [hv] at hs; simp only [Option.some.injEq] at hs; subst hs
            refine ⟨?_, fun k => ?_, fun k hk => seenMono k (fun a => mem_cons_key a) hk, ?_⟩
            · rw [hd, List.filter_cons]; simp only [hv]; exact c.fails
            · rw [c.used k, noFile k, hd]
              simp only [List.mem_cons, exists_eq_or_imp, hv, Verdict.ign.injEq]
              constructor
              · rintro ((rfl | a) | a | a)
                · exact Or.inr (Or.inr (Or.inl rfl))
                · exact Or.inl a
                · exact Or.inr (Or.inl a)
                · exact Or.inr (Or.inr (Or.inr a))
              · rintro (a | a | (rfl | a))
                · exact Or.inl (Or.inr a)
                · exact Or.inr (Or.inl a)
                · exact Or.inl (Or.inl rfl)
                · exact Or.inr (Or.inr a)
            · rw [hd]; intro r' hr'
              rcases List.mem_cons.mp hr' with rfl | hr'
              · rw [hv]; simp
              · exact c.nocrash r' hr'
          | «show» =>
            rw [hv] at hs; simp only [Option.some.injEq] at hs; subst hs
            refine ⟨?_, fun k => ?_, fun k hk => seenMono k (fun a => mem_cons_key (x := r.key) (l := st.seen) a) hk, ?_⟩
            · rw [hd, List.filter_cons, c.fails]
              simp only [hv, pushFail]
              cases r.save <;> simp
            · rw [c.used k, noFile k, hd]
              simp only [List.mem_cons, exists_eq_or_imp, hv, pushFail]
              simp
            · rw [hd]; intro r' hr'
              rcases List.mem_cons.mp hr' with rfl | hr'
              · rw [hv]; simp
              · exact c.nocrash r' hr'
        · rw [if_neg hg] at hs; simp only [Option.some.injEq] at hs; subst hs
          have hd : dedupFrom st.seen ((r :: rs).filter (gateOpen en lines)) =
              dedupFrom st.seen (rs.filter (gateOpen en lines)) := by
            by_cases hg1 : gateOpen en lines r = true
            · have hg2 : st.seen.contains r.key = true := by
                simp only [hg1, Bool.true_and, Bool.not_eq_true', Bool.not_eq_false] at hg; exact hg
              simp only [List.filter_cons, hg1, if_true, dedupFrom, hg2]
            · simp only [List.filter_cons, hg1, Bool.false_eq_true, if_false]
          refine ⟨by rw [hd]; exact c.fails, fun k => by rw [c.used k, noFile k, hd],
            fun k hk => seenMono k (fun a => Or.inl a) hk, by rw [hd]; exact c.nocrash⟩

/-! ## 3b. Agreement of the closed form with the declarative spec -/

theorem firstIdx_isSome {α} (p : α → Bool) (l : List α) : (firstIdx p l).isSome = l.any p := by
  induction l with
  | nil => rfl
  | cons a as ih =>
    simp only [firstIdx, List.any_cons]
    by_cases h : p a = true
    · simp [h]
    · simp only [h, Bool.false_eq_true, if_false, Option.isSome_map, ih, Bool.false_or]

theorem fileLevelIdx_eq (code : Option String) (lines : List Line) (i : Nat) :
    fileLevelIdx code i lines = (firstIdx (ownLineMatch · code) (leading lines)).map (· + i) := by
  induction lines generalizing i with
  | nil => rfl
  | cons l ls ih =>
    unfold fileLevelIdx leading
    by_cases h : (l.head? == some '#') = true
    · have h' : (l.head? != some '#') = false := by simp [bne, h]
      simp only [h', Bool.false_eq_true, if_false, List.takeWhile_cons, h, if_true, firstIdx]
      by_cases hm : ownLineMatch l code = true
      · simp [hm]
      · simp only [hm, Bool.false_eq_true, if_false, Option.map_map]
        rw [ih (i + 1)]
        unfold leading
        congr 1
        funext x
        simp only [Function.comp]
        omega
    · have h' : (l.head? != some '#') = true := by simp only [Bool.not_eq_true] at h; simp [bne, h]
      simp [h', List.takeWhile_cons, h, firstIdx]

theorem fileLevelIdx_zero (code : Option String) (lines : List Line) :
    fileLevelIdx code 0 lines = firstIdx (ownLineMatch · code) (leading lines) := by
  rw [fileLevelIdx_eq]; simp

theorem fileLevelIdx_isNone (code : Option String) (lines : List Line) :
    (fileLevelIdx code 0 lines).isNone = !fileSuppressed lines code := by
  rw [fileLevelIdx_zero, fileSuppressed, ← firstIdx_isSome]
  cases firstIdx (fun x => ownLineMatch x code) (leading lines) <;> rfl

theorem codeOn_eq (en : String → Bool) (r : Raw) : codeOn en r = !disabledBy en r := by
  unfold codeOn disabledBy; cases r.code <;> simp

theorem gateOpen_eq (en : String → Bool) (lines : List Line) (r : Raw) :
    gateOpen en lines r = (counted en r && !fileSuppressed lines r.code) := by
  unfold gateOpen counted
  rw [fileLevelIdx_isNone, codeOn_eq]
  cases r.captured <;> cases disabledBy en r <;> rfl

theorem key_code {a b : Raw} (h : a.key = b.key) : a.code = b.code := by
  unfold Raw.key at h
  have h2 := congrArg Key.tag h
  simp only at h2
  cases ha : a.code <;> cases hb : b.code <;> rw [ha, hb] at h2 <;> simp_all

theorem nub_subset {l : List Raw} {r : Raw} (h : r ∈ nub l) : r ∈ l := by
  induction l with
  | nil => exact h
  | cons a as ih =>
    simp only [nub, List.mem_cons] at h
    rcases h with rfl | h
    · exact List.mem_cons_self
    · exact List.mem_cons_of_mem _ (ih (List.mem_filter.mp h).1)

/-- `nub` commutes with a filter that cannot tell duplicates apart. -/
theorem nub_filter (p : Raw → Bool) (hp : ∀ a b : Raw, a.key = b.key → p a = p b) (l : List Raw) :
    nub (l.filter p) = (nub l).filter p := by
  induction l with
  | nil => rfl
  | cons r rs ih =>
    by_cases h : p r = true
    · simp only [List.filter_cons, h, if_true, nub, ih, List.filter_filter]
      congr 1
      apply List.filter_congr
      intro x _
      exact Bool.and_comm _ _
    · simp only [List.filter_cons, h, Bool.false_eq_true, if_false, nub, ih, List.filter_filter]
      apply List.filter_congr
      intro x _
      by_cases hk : x.key = r.key
      · have : p x = false := by rw [hp x r hk]; simpa using h
        simp [this]
      · simp [bne, hk]

theorem dedupFrom_eq (seen : List Key) (l : List Raw) :
    dedupFrom seen l = (nub l).filter fun r => !seen.contains r.key := by
  induction l generalizing seen with
  | nil => rfl
  | cons r rs ih =>
    unfold dedupFrom
    by_cases h : seen.contains r.key = true
    · rw [if_pos h, ih]
      simp only [nub, List.filter_cons, h, Bool.not_true, Bool.false_eq_true, if_false, List.filter_filter]
      apply List.filter_congr
      intro x _
      by_cases hk : x.key = r.key
      · rw [hk, h]; rfl
      · simp [bne, hk]
    · rw [if_neg h, ih]
      simp only [Bool.not_eq_true] at h
      simp only [nub, List.filter_cons, h, Bool.not_false, if_true, List.filter_filter]
      congr 1
      apply List.filter_congr
      intro x _
      by_cases hk : x.key = r.key
      · simp [hk, bne]
      · have : (r.key == x.key) = false := by
          simp only [beq_eq_false_iff_ne, ne_eq]; exact fun e => hk e.symm
        simp [List.contains_cons, bne, hk, this]

theorem dedupFrom_nil (l : List Raw) : dedupFrom [] l = nub l := by
  rw [dedupFrom_eq]; simp

/-- The first occurrences that pass the gate = the counted first occurrences not suppressed at
file level. -/
theorem nub_gate (en : String → Bool) (lines : List Line) (raw : List Raw) :
    nub (raw.filter (gateOpen en lines)) =
      (nub (raw.filter (counted en))).filter fun r => !fileSuppressed lines r.code := by
  rw [← nub_filter _ (fun a b h => by rw [key_code h]), List.filter_filter]
  congr 1
  apply List.filter_congr
  intro x _
  rw [gateOpen_eq, Bool.and_comm]

/-! ## 3c. The per-line verdict against the line-level credit -/

theorem pyGet_nat (ls : List Line) (n : Nat) : pyGet ls (n : Int) = ls[n]? := by
  unfold pyGet
  simp

theorem pyGet_neg_one (ls : List Line) (h : ls ≠ []) : pyGet ls (-1) = ls.getLast? := by
  unfold pyGet
  have : 1 ≤ ls.length := by
    cases ls with
    | nil => exact absurd rfl h
    | cons a as => simp
  simp [this, List.getLast?_eq_getElem?]

theorem trailingAt_lt {lines : List Line} {j : Nat} (h : j < lines.length) (code : Option String) :
    trailingAt lines j code = trailingMatch lines[j] code := by
  unfold trailingAt; rw [List.getElem?_eq_getElem h]

theorem ownLineAt_lt {lines : List Line} {j : Nat} (h : j < lines.length) (code : Option String) :
    ownLineAt lines j code = ownLineMatch lines[j] code := by
  unfold ownLineAt; rw [List.getElem?_eq_getElem h]

theorem trailingAt_bound {lines : List Line} {j : Nat} {code : Option String}
    (h : trailingAt lines j code = true) : j < lines.length := by
  unfold trailingAt at h
  cases hl : lines[j]? with
  | none => rw [hl] at h; cases h
  | some l => rcases List.getElem?_eq_some_iff.mp hl with ⟨w, _⟩; exact w

theorem ownLineAt_bound {lines : List Line} {j : Nat} {code : Option String}
    (h : ownLineAt lines j code = true) : j < lines.length := by
  unfold ownLineAt at h
  cases hl : lines[j]? with
  | none => rw [hl] at h; cases h
  | some l => rcases List.getElem?_eq_some_iff.mp hl with ⟨w, _⟩; exact w

theorem ownLineMatch_nil (code : Option String) : ownLineMatch [] code = false := by
  unfold ownLineMatch
  have h1 : (strip [] == IC) = false := by decide
  rw [h1, Bool.false_or]
  cases code with
  | none => rfl
  | some c =>
    simp only
    have : strip [] = [] := by decide
    rw [this, beq_eq_false_iff_ne]
    unfold codedIC
    intro e
    have := congrArg List.length e
    simp at this

theorem verdict_eq (lines : List Line) (r : Raw) (hwf : wfAt lines r = true) :
    verdict lines r = match lineCredit lines r with
      | some i => .ign (i : Int)
      | none => .show := by
  unfold verdict lineCredit
  cases hob : r.obey with
  | false => simp
  | true =>
    simp only [if_true, Bool.not_true, Bool.false_eq_true, if_false]
    cases hpos : r.pos with
    | none => simp
    | some p =>
      obtain ⟨ln, c⟩ := p
      simp only
      unfold wfAt at hwf
      rw [hpos, hob] at hwf
      simp only [Bool.not_true, Bool.false_or, Bool.and_eq_true, decide_eq_true_eq] at hwf
      obtain ⟨h1, h2⟩ := hwf
      have e1 : (ln : Int) - 1 = ((ln - 1 : Nat) : Int) := by omega
      rw [e1, pyGet_nat]
      have hl : ln - 1 < lines.length := by omega
      rw [List.getElem?_eq_getElem hl, trailingAt_lt hl]
      simp only [ge_iff_le, h1, decide_true, Bool.true_and]
      by_cases ht : trailingMatch lines[ln - 1] r.code = true
      · simp [ht]
      · simp only [ht, Bool.false_eq_true, if_false]
        by_cases h3 : 2 ≤ ln
        · have e2 : (ln : Int) - 2 = ((ln - 2 : Nat) : Int) := by omega
          rw [if_pos h3, e2, pyGet_nat]
          have hl2 : ln - 2 < lines.length := by omega
          rw [List.getElem?_eq_getElem hl2, ownLineAt_lt hl2]
          simp only [h3, decide_true, Bool.true_and]
          by_cases ho : ownLineMatch lines[ln - 2] r.code = true
          · simp [ho]
          · simp [ho]
        · rw [if_neg h3]
          simp [ownLineMatch_nil, h3]

theorem verdict_ne_crash (lines : List Line) (r : Raw) (hwf : wfAt lines r = true) :
    verdict lines r ≠ .crash := by
  rw [verdict_eq lines r hwf]
  cases lineCredit lines r <;> simp

theorem run_some_of_wf (en : String → Bool) (lines : List Line) (raw : List Raw)
    (hwf : RawWF lines raw = true) : ∀ st, ∃ st', run en lines st raw = some st' := by
  induction raw with
  | nil => intro st; exact ⟨st, rfl⟩
  | cons r rs ih =>
    intro st
    unfold RawWF at hwf
    simp only [List.all_cons, Bool.and_eq_true] at hwf
    have hstep : ∃ st1, showError en lines st r = some st1 := by
      rw [showError_eq2]
      cases fileCredit en lines r with
      | some i => exact ⟨_, rfl⟩
      | none =>
        simp only
        split
        · have := verdict_ne_crash lines r hwf.1
          cases hv : verdict lines r with
          | crash => exact absurd hv this
          | ign k => exact ⟨_, rfl⟩
          | «show» => exact ⟨_, rfl⟩
        · exact ⟨_, rfl⟩
    obtain ⟨st1, h1⟩ := hstep
    obtain ⟨st', h'⟩ := ih hwf.2 st1
    exact ⟨st', by simp only [run, h1]; exact h'⟩

theorem lineSuppressed_eq (lines : List Line) (r : Raw) :
    lineSuppressed lines r = (lineCredit lines r).isSome := by
  rw [Bool.eq_iff_iff]
  unfold lineSuppressed lineCredit lineTargets
  simp only [List.any_eq_true, List.mem_range]
  cases hob : r.obey with
  | false => simp
  | true =>
    cases hpos : r.pos with
    | none => simp
    | some p =>
      obtain ⟨ln, c⟩ := p
      simp only [Bool.true_and, Bool.not_true, Bool.false_eq_true, if_false, ge_iff_le,
        Bool.or_eq_true, Bool.and_eq_true, beq_iff_eq, decide_eq_true_eq]
      constructor
      · rintro ⟨j, _, ⟨e, ht⟩ | ⟨e, ho⟩⟩
        · subst e
          have : 1 ≤ j + 1 ∧ trailingAt lines (j + 1 - 1) r.code = true := ⟨by omega, by simpa using ht⟩
          rw [if_pos this]; rfl
        · subst e
          have : 2 ≤ j + 2 ∧ ownLineAt lines (j + 2 - 2) r.code = true := ⟨by omega, by simpa using ho⟩
          by_cases h1 : 1 ≤ j + 2 ∧ trailingAt lines (j + 2 - 1) r.code = true
          · rw [if_pos h1]; rfl
          · rw [if_neg h1, if_pos this]; rfl
      · intro h
        by_cases h1 : 1 ≤ ln ∧ trailingAt lines (ln - 1) r.code = true
        · exact ⟨ln - 1, trailingAt_bound h1.2, Or.inl ⟨by omega, h1.2⟩⟩
        · rw [if_neg h1] at h
          by_cases h2 : 2 ≤ ln ∧ ownLineAt lines (ln - 2) r.code = true
          · exact ⟨ln - 2, ownLineAt_bound h2.2, Or.inr ⟨by omega, h2.2⟩⟩
          · rw [if_neg h2] at h; cases h

theorem shown_eq (lines : List Line) (r : Raw) (hwf : wfAt lines r = true) :
    (verdict lines r == .show) = !lineSuppressed lines r := by
  rw [verdict_eq lines r hwf, lineSuppressed_eq]
  cases lineCredit lines r <;> rfl

/-! ## 3d. The visit phase against the spec -/

theorem mem_nub_gate {en : String → Bool} {lines : List Line} {raw : List Raw} {r : Raw} :
    r ∈ nub (raw.filter (gateOpen en lines)) ↔
      r ∈ nub (raw.filter (counted en)) ∧ fileSuppressed lines r.code = false := by
  rw [nub_gate, List.mem_filter]; simp

theorem wf_of_mem {lines : List Line} {raw : List Raw} (hwf : RawWF lines raw = true) {r : Raw}
    (h : r ∈ raw) : wfAt lines r = true := by
  unfold RawWF at hwf
  exact List.all_eq_true.mp hwf r h

theorem run_fails_spec (en : String → Bool) (lines : List Line) (raw : List Raw) (st : St)
    (hrun : run en lines {} raw = some st) (hwf : RawWF lines raw = true) :
    st.fails = specFails en lines raw := by
  have c := run_closed en lines raw {} st hrun
  rw [c.fails, dedupFrom_nil, nub_gate]
  unfold specFails specDiags
  simp only [List.nil_append, List.filter_filter]
  apply List.filter_congr
  intro r hr
  have hraw : r ∈ raw := (List.mem_filter.mp (nub_subset hr)).1
  unfold suppressed
  cases hf : fileSuppressed lines r.code with
  | true => simp
  | false =>
    have := shown_eq lines r (wf_of_mem hwf hraw)
    rw [this]
    cases lineSuppressed lines r <;> cases r.save <;> rfl

/-- A property of calls that cannot tell duplicates apart holds of some call iff it holds of some
first occurrence. -/
theorem exists_nub (p : Raw → Prop) (hp : ∀ a b : Raw, a.key = b.key → (p a ↔ p b)) (l : List Raw) :
    (∃ r ∈ l, p r) ↔ (∃ r ∈ nub l, p r) := by
  constructor
  · induction l with
    | nil => rintro ⟨r, hr, _⟩; cases hr
    | cons a as ih =>
      rintro ⟨r, hr, hpr⟩
      rcases List.mem_cons.mp hr with rfl | hr
      · exact ⟨r, by simp [nub], hpr⟩
      · obtain ⟨r', hr', hpr'⟩ := ih ⟨r, hr, hpr⟩
        by_cases hk : r'.key = a.key
        · exact ⟨a, by simp [nub], (hp r' a hk).mp hpr'⟩
        · refine ⟨r', ?_, hpr'⟩
          simp only [nub, List.mem_cons, List.mem_filter]
          exact Or.inr ⟨hr', by simp [bne, hk]⟩
  · rintro ⟨r, hr, hpr⟩; exact ⟨r, nub_subset hr, hpr⟩

theorem fileCredit_eq (en : String → Bool) (lines : List Line) (r : Raw) (j : Nat) :
    fileCredit en lines r = some j ↔
      (counted en r = true ∧ firstIdx (ownLineMatch · r.code) (leading lines) = some j) := by
  unfold fileCredit counted
  rw [codeOn_eq, fileLevelIdx_zero]
  cases r.captured <;> cases disabledBy en r <;> simp

theorem credited_eq (lines : List Line) (r : Raw) (i : Nat) :
    credited lines r = some i ↔
      (firstIdx (ownLineMatch · r.code) (leading lines) = some i ∨
        (fileSuppressed lines r.code = false ∧ lineCredit lines r = some i)) := by
  unfold credited fileSuppressed
  rw [← firstIdx_isSome]
  cases firstIdx (fun x => ownLineMatch x r.code) (leading lines) <;> simp

theorem run_used_spec (en : String → Bool) (lines : List Line) (raw : List Raw) (st : St)
    (hrun : run en lines {} raw = some st) (hwf : RawWF lines raw = true) (i : Nat) :
    (i : Int) ∈ st.used ↔ creditedBySome en lines raw i = true := by
  have c := run_closed en lines raw {} st hrun
  rw [c.used, dedupFrom_nil]
  unfold creditedBySome
  simp only [List.any_eq_true, beq_iff_eq, credited_eq]
  have ha : (∃ r ∈ raw, ∃ j : Nat, fileCredit en lines r = some j ∧ (i : Int) = (j : Int)) ↔
      ∃ r ∈ nub (raw.filter (counted en)), firstIdx (ownLineMatch · r.code) (leading lines) = some i := by
    rw [← exists_nub (fun r => firstIdx (ownLineMatch · r.code) (leading lines) = some i)
      (fun a b h => by rw [key_code h])]
    constructor
    · rintro ⟨r, hr, j, hj, e⟩
      have e' : i = j := by omega
      subst e'
      have := (fileCredit_eq en lines r i).mp hj
      exact ⟨r, List.mem_filter.mpr ⟨hr, this.1⟩, this.2⟩
    · rintro ⟨r, hr, h⟩
      have hm := List.mem_filter.mp hr
      exact ⟨r, hm.1, i, (fileCredit_eq en lines r i).mpr ⟨hm.2, h⟩, rfl⟩
  have hb : (∃ r ∈ nub (raw.filter (gateOpen en lines)), verdict lines r = .ign (i : Int)) ↔
      ∃ r ∈ nub (raw.filter (counted en)), fileSuppressed lines r.code = false ∧ lineCredit lines r = some i := by
    constructor
    · rintro ⟨r, hr, hv⟩
      obtain ⟨h1, h2⟩ := mem_nub_gate.mp hr
      have hraw : r ∈ raw := (List.mem_filter.mp (nub_subset h1)).1
      rw [verdict_eq lines r (wf_of_mem hwf hraw)] at hv
      refine ⟨r, h1, h2, ?_⟩
      cases hl : lineCredit lines r with
      | none => rw [hl] at hv; cases hv
      | some j =>
        rw [hl] at hv
        simp only [Verdict.ign.injEq] at hv
        have : j = i := by omega
        rw [this]
    · rintro ⟨r, h1, h2, hl⟩
      have hraw : r ∈ raw := (List.mem_filter.mp (nub_subset h1)).1
      refine ⟨r, mem_nub_gate.mpr ⟨h1, h2⟩, ?_⟩
      rw [verdict_eq lines r (wf_of_mem hwf hraw), hl]
  rw [ha, hb]
  constructor
  · rintro (h | ⟨r, hr, h⟩ | ⟨r, hr, h⟩)
    · cases h
    · exact ⟨r, hr, Or.inl h⟩
    · exact ⟨r, hr, Or.inr h⟩
  · rintro ⟨r, hr, h | h⟩
    · exact Or.inr (Or.inl ⟨r, hr, h⟩)
    · exact Or.inr (Or.inr ⟨r, hr, h⟩)

/-! ## 4. The end-of-file passes -/

def fakeDiags (code : String) (L : List (Nat × Line)) : List Raw := L.map fun p => commentDiag code p.1 p.2

theorem filterMap_zipIdx {β} (c : Nat → Line → Bool) (g : Nat → Line → β) (lines : List Line) (i : Nat) :
    (zipIdxFrom i lines).filterMap (fun p => if c p.1 p.2 then some (g p.1 p.2) else none) =
      ((enumFrom i lines).filter fun p => c p.1 p.2).map fun p => g p.1 p.2 := by
  induction lines generalizing i with
  | nil => rfl
  | cons l ls ih =>
    simp only [zipIdxFrom, enumFrom, List.filterMap_cons, List.filter_cons]
    by_cases h : c i l = true
    · simp [h, ih]
    · simp [h, ih]

theorem unusedRaws_eq (lines : List Line) (used : List Int) :
    unusedRaws lines used =
      fakeDiags "unused_ignore" ((commentLines lines).filter fun p => !used.contains (p.1 : Int)) := by
  unfold unusedRaws fakeDiags commentLines
  rw [List.filter_filter]
  have := filterMap_zipIdx (fun j l => hasSub IC l && !used.contains (j : Int))
    (fun j l => commentDiag "unused_ignore" j l) lines 0
  simp only [Bool.and_comm] at this ⊢
  exact this

theorem bareRaws_eq (lines : List Line) : bareRaws lines = fakeDiags "bare_ignore" (specBare lines) := by
  unfold bareRaws fakeDiags specBare commentLines
  rw [List.filter_filter]
  have := filterMap_zipIdx (fun _ l => hasSub IC l && !hasSub (IC ++ ['[']) l)
    (fun j l => commentDiag "bare_ignore" j l) lines 0
  simp only [Bool.and_comm] at this ⊢
  exact this

theorem verdict_noobey (lines : List Line) (r : Raw) (h : r.obey = false) : verdict lines r = .show := by
  unfold verdict; simp [h]

theorem commentDiag_key (code : String) (i : Nat) (l : Line) :
    (commentDiag code i l).key = ⟨.fake (i + 1) ((findSub IC l).getD 0), .inl code⟩ := rfl

theorem endPass_cons (en : String → Bool) (lines : List Line) (code : String) (p : Nat × Line)
    (L : List (Nat × Line)) :
    endPass en lines code (p :: L) =
      (if en code && !fileSuppressed lines (some code) then [commentDiag code p.1 p.2] else []) ++
        endPass en lines code L := by
  unfold endPass; split <;> simp

theorem run_endpass (en : String → Bool) (lines : List Line) (code : String) :
    ∀ (L : List (Nat × Line)) (st : St),
      (∀ p ∈ L, (commentDiag code p.1 p.2).key ∉ st.seen) → (L.map (·.1)).Nodup →
      ∃ st', run en lines st (fakeDiags code L) = some st' ∧
        st'.fails = st.fails ++ endPass en lines code L ∧
        (∀ k ∈ st'.seen, k ∈ st.seen ∨ ∃ p ∈ L, k = (commentDiag code p.1 p.2).key) := by
  intro L
  induction L with
  | nil => intro st _ _; exact ⟨st, rfl, by simp [endPass], fun k hk => Or.inl hk⟩
  | cons p L ih =>
    intro st hfresh hnd
    simp only [List.map_cons, List.nodup_cons] at hnd
    have hfreshL : ∀ q ∈ L, (commentDiag code q.1 q.2).key ∉ st.seen :=
      fun q hq => hfresh q (List.mem_cons_of_mem _ hq)
    have lift : ∀ st1 : St, (∀ k ∈ st1.seen, k ∈ st.seen ∨ k = (commentDiag code p.1 p.2).key) →
        (∃ st', run en lines st1 (fakeDiags code L) = some st' ∧
          st'.fails = st1.fails ++ endPass en lines code L ∧
          (∀ k ∈ st'.seen, k ∈ st1.seen ∨ ∃ q ∈ L, k = (commentDiag code q.1 q.2).key)) := by
      intro st1 hseen
      apply ih st1 _ hnd.2
      intro q hq hmem
      rcases hseen _ hmem with a | a
      · exact hfreshL q hq a
      · rw [commentDiag_key, commentDiag_key] at a
        have : q.1 = p.1 := by
          have := congrArg Key.node a
          simp only [NodeKey.fake.injEq] at this
          omega
        exact hnd.1 (List.mem_map.mpr ⟨q, hq, this⟩)
    have hstep : showError en lines st (commentDiag code p.1 p.2) =
        if en code then
          match fileLevelIdx (some code) 0 lines with
          | some i => some { st with used := (i : Int) :: st.used }
          | none => some (pushFail st (commentDiag code p.1 p.2))
        else some st := by
      rw [showError_eq2]
      have hcap : (commentDiag code p.1 p.2).captured = false := rfl
      have hcode : (commentDiag code p.1 p.2).code = some code := rfl
      have hdis : disabledBy en (commentDiag code p.1 p.2) = !en code := rfl
      unfold fileCredit gateOpen
      rw [hcap, hdis, hcode]
      cases hen : en code with
      | false => simp
      | true =>
        simp only [Bool.not_true, Bool.or_self, Bool.false_eq_true, if_false, Bool.not_false, Bool.true_and, if_true]
        cases hfl : fileLevelIdx (some code) 0 lines with
        | some i => rfl
        | none =>
          have hns : st.seen.contains (commentDiag code p.1 p.2).key = false := by
            have := hfresh p List.mem_cons_self
            rw [← List.contains_iff_mem] at this
            simpa using this
          simp only [Option.isNone_none, hns, Bool.not_false, Bool.and_self, if_true]
          rw [verdict_noobey _ _ rfl]
    show ∃ st', run en lines st (commentDiag code p.1 p.2 :: fakeDiags code L) = some st' ∧ _
    simp only [run, hstep]
    rw [endPass_cons]
    cases hen : en code with
    | false =>
      simp only [Bool.false_eq_true, if_false, Bool.false_and, List.nil_append]
      obtain ⟨st', h1, h2, h3⟩ := lift st (fun k hk => Or.inl hk)
      refine ⟨st', h1, h2, fun k hk => ?_⟩
      rcases h3 k hk with a | ⟨q, hq, e⟩
      · exact Or.inl a
      · exact Or.inr ⟨q, List.mem_cons_of_mem _ hq, e⟩
    | true =>
      simp only [if_true, Bool.true_and]
      cases hfl : fileLevelIdx (some code) 0 lines with
      | some i =>
        have hfs : fileSuppressed lines (some code) = true := by
          have := fileLevelIdx_isNone (some code) lines
          rw [hfl] at this; simpa using this.symm
        simp only [hfs, Bool.not_true, Bool.false_eq_true, if_false, List.nil_append]
        obtain ⟨st', h1, h2, h3⟩ := lift { st with used := (i : Int) :: st.used } (fun k hk => Or.inl hk)
        refine ⟨st', h1, h2, fun k hk => ?_⟩
        rcases h3 k hk with a | ⟨q, hq, e⟩
        · exact Or.inl a
        · exact Or.inr ⟨q, List.mem_cons_of_mem _ hq, e⟩
      | none =>
        have hfs : fileSuppressed lines (some code) = false := by
          have := fileLevelIdx_isNone (some code) lines
          rw [hfl] at this; simpa using this.symm
        simp only [hfs, Bool.not_false, if_true]
        obtain ⟨st', h1, h2, h3⟩ := lift (pushFail st (commentDiag code p.1 p.2))
          (fun k hk => mem_cons_key (x := (commentDiag code p.1 p.2).key) (l := st.seen) hk)
        refine ⟨st', h1, ?_, fun k hk => ?_⟩
        · rw [h2]
          show (if (commentDiag code p.1 p.2).save = true then st.fails ++ [commentDiag code p.1 p.2] else st.fails) ++ _ = _
          have : (commentDiag code p.1 p.2).save = true := rfl
          simp [this]
        · rcases h3 k hk with a | ⟨q, hq, e⟩
          · rcases mem_cons_key (x := (commentDiag code p.1 p.2).key) (l := st.seen) a with a | a
            · exact Or.inl a
            · exact Or.inr ⟨p, List.mem_cons_self, a⟩
          · exact Or.inr ⟨q, List.mem_cons_of_mem _ hq, e⟩

theorem enumFrom_fst (i : Nat) (l : List Line) : (enumFrom i l).map (·.1) = List.range' i l.length := by
  induction l generalizing i with
  | nil => rfl
  | cons a as ih => simp [enumFrom, ih, List.range'_succ]

theorem nodup_filter_enum (p : Nat × Line → Bool) (lines : List Line) :
    (((enumFrom 0 lines).filter p).map (·.1)).Nodup := by
  have h1 : (((enumFrom 0 lines).filter p).map (·.1)).Sublist ((enumFrom 0 lines).map (·.1)) :=
    (List.filter_sublist).map _
  rw [enumFrom_fst] at h1
  exact h1.nodup List.nodup_range'

theorem nodup_specUnused (en : String → Bool) (lines : List Line) (raw : List Raw) :
    ((specUnused en lines raw).map (·.1)).Nodup := by
  unfold specUnused commentLines; rw [List.filter_filter]; exact nodup_filter_enum _ _

theorem nodup_specBare (lines : List Line) : ((specBare lines).map (·.1)).Nodup := by
  unfold specBare commentLines; rw [List.filter_filter]; exact nodup_filter_enum _ _

theorem ast_key_ne {raw : List Raw} (hast : RawAst raw = true) {r : Raw} (hr : r ∈ raw)
    (code : String) (i : Nat) (l : Line) : r.key ≠ (commentDiag code i l).key := by
  unfold RawAst at hast
  have := List.all_eq_true.mp hast r hr
  intro e
  rw [commentDiag_key] at e
  have e2 := congrArg Key.node e
  simp only [Raw.key] at e2
  rw [e2] at this
  cases this

theorem bare_file_suppresses (lines : List Line) (code : String) (i : Nat)
    (h : fileLevelIdx none 0 lines = some i) : fileSuppressed lines (some code) = true := by
  have h1 := fileLevelIdx_isNone none lines
  rw [h] at h1
  have h2 : fileSuppressed lines none = true := by simpa using h1.symm
  unfold fileSuppressed at h2 ⊢
  rw [List.any_eq_true] at h2 ⊢
  obtain ⟨l, hl, hm⟩ := h2
  refine ⟨l, hl, ?_⟩
  unfold ownLineMatch at hm ⊢
  simp only [Bool.or_false] at hm
  simp [hm]

/-- **The whole check against the spec.** -/
theorem check_eq_spec_aux (en : String → Bool) (lines : List Line) (raw : List Raw)
    (hwf : RawWF lines raw = true) (hast : RawAst raw = true) :
    ∃ st, check en lines raw = some st ∧ st.fails = specCheck en lines raw := by
  obtain ⟨st1, h1⟩ := run_some_of_wf en lines raw hwf {}
  have hf1 := run_fails_spec en lines raw st1 h1 hwf
  have hu1 := run_used_spec en lines raw st1 h1 hwf
  have c1 := run_closed en lines raw {} st1 h1
  have hseen1 : ∀ k ∈ st1.seen, ∃ r ∈ raw, k = r.key := by
    intro k hk
    rcases c1.seen k hk with a | a
    · cases a
    · exact a
  -- the unused-ignore pass
  have hun : unusedRaws lines st1.used = fakeDiags "unused_ignore" (specUnused en lines raw) := by
    rw [unusedRaws_eq]; unfold specUnused
    congr 1
    apply List.filter_congr
    intro p _
    have := hu1 p.1
    rw [← List.contains_iff_mem] at this
    cases hc : st1.used.contains (p.1 : Int) <;> cases hb : creditedBySome en lines raw p.1 <;> simp_all
  obtain ⟨st2, h2, hf2, hs2⟩ := run_endpass en lines "unused_ignore" (specUnused en lines raw) st1
    (fun p _ hmem => by
      obtain ⟨r, hr, e⟩ := hseen1 _ hmem
      exact ast_key_ne hast hr _ _ _ e.symm)
    (nodup_specUnused en lines raw)
  unfold check specCheck
  rw [h1]; simp only
  rw [hun, h2]; simp only
  cases hfl : fileLevelIdx none 0 lines with
  | some i =>
    refine ⟨_, rfl, ?_⟩
    simp only
    rw [hf2, hf1]
    have : endPass en lines "bare_ignore" (specBare lines) = [] := by
      unfold endPass; rw [bare_file_suppresses lines "bare_ignore" i hfl]; simp
    rw [this, List.append_nil]
  | none =>
    simp only
    rw [bareRaws_eq]
    obtain ⟨st3, h3, hf3, _⟩ := run_endpass en lines "bare_ignore" (specBare lines) st2
      (fun p _ hmem => by
        rcases hs2 _ hmem with a | ⟨q, _, e⟩
        · obtain ⟨r, hr, e⟩ := hseen1 _ a
          exact ast_key_ne hast hr _ _ _ e.symm
        · rw [commentDiag_key, commentDiag_key] at e
          have := congrArg Key.tag e
          simp at this)
      (nodup_specBare lines)
    exact ⟨st3, h3, by rw [hf3, hf2, hf1]⟩

/-! ## 5. String lemmas about the comment texts -/

theorem IC_eq : IC = '#' :: IC.tail := by decide
theorem IC_tail_noHash : IC.tail.contains '#' = false := by decide

theorem IC_append (t : Line) : IC ++ t = '#' :: (IC.tail ++ t) := by
  rw [← List.cons_append]; exact congrArg (· ++ t) IC_eq

theorem isPrefixOf_self_append (a t : Line) : a.isPrefixOf (a ++ t) = true := by
  induction a with
  | nil => simp
  | cons x xs ih => simp [List.isPrefixOf, ih]

theorem isPrefixOf_append_left (a x y : Line) : (a ++ x).isPrefixOf (a ++ y) = x.isPrefixOf y := by
  induction a with
  | nil => rfl
  | cons c cs ih => simp [List.isPrefixOf, ih]

theorem isPrefixOf_of_append {a b m : Line} (h : (a ++ b).isPrefixOf m = true) : a.isPrefixOf m = true := by
  induction a generalizing m with
  | nil => simp
  | cons c cs ih =>
    cases m with
    | nil => simp [List.isPrefixOf] at h
    | cons d ds =>
      simp only [List.cons_append, List.isPrefixOf, Bool.and_eq_true] at h ⊢
      exact ⟨h.1, ih h.2⟩

theorem isPrefixOf_append_right {p a : Line} (b : Line) (h : p.isPrefixOf a = true) :
    p.isPrefixOf (a ++ b) = true := by
  induction p generalizing a with
  | nil => simp
  | cons c cs ih =>
    cases a with
    | nil => simp [List.isPrefixOf] at h
    | cons d ds =>
      simp only [List.cons_append, List.isPrefixOf, Bool.and_eq_true] at h ⊢
      exact ⟨h.1, ih h.2⟩

/-- A pattern starting with `#` does not start at a character that is not `#`. -/
theorem hashPrefix_false {p cs : Line} {c : Char} (hp : p.head? = some '#') (hc : c ≠ '#') :
    p.isPrefixOf (c :: cs) = false := by
  cases p with
  | nil => cases hp
  | cons x xs =>
    simp only [List.head?_cons, Option.some.injEq] at hp
    subst hp
    simp only [List.isPrefixOf, Bool.and_eq_false_imp, beq_iff_eq]
    intro e; exact absurd e.symm hc

theorem contains_cons_false {c : Char} {l : Line} (h : (c :: l).contains '#' = false) :
    c ≠ '#' ∧ l.contains '#' = false := by
  simp only [List.contains_cons, Bool.or_eq_false_iff, beq_eq_false_iff_ne, ne_eq] at h
  exact ⟨fun e => h.1 e.symm, h.2⟩

theorem hasSub_append_noHash {p : Line} (hp : p.head? = some '#') {l : Line} (t : Line)
    (h : l.contains '#' = false) : hasSub p (l ++ t) = hasSub p t := by
  induction l with
  | nil => rfl
  | cons c cs ih =>
    obtain ⟨hc, hcs⟩ := contains_cons_false h
    simp only [List.cons_append, hasSub, hashPrefix_false hp hc, Bool.false_or, ih hcs]

theorem hasSub_noHash {p : Line} (hp : p.head? = some '#') {l : Line} (h : l.contains '#' = false) :
    hasSub p l = false := by
  have := hasSub_append_noHash hp [] h
  rw [List.append_nil] at this
  rw [this]
  cases p with
  | nil => cases hp
  | cons x xs => rfl

theorem hasBare_append_noHash {l : Line} (t : Line) (h : l.contains '#' = false) :
    hasBare (l ++ t) = hasBare t := by
  induction l with
  | nil => rfl
  | cons c cs ih =>
    obtain ⟨hc, hcs⟩ := contains_cons_false h
    have : IC.isPrefixOf (c :: (cs ++ t)) = false := hashPrefix_false (by decide) hc
    simp only [List.cons_append, hasBare, this, Bool.false_and, Bool.false_or, ih hcs]

theorem hasBare_noHash {l : Line} (h : l.contains '#' = false) : hasBare l = false := by
  have := hasBare_append_noHash [] h
  rw [List.append_nil] at this
  rw [this]; rfl

theorem hasBare_IC_append (t : Line) : hasBare (IC ++ t) = (t.head? != some '[' || hasBare t) := by
  have e : IC ++ t = '#' :: (IC.tail ++ t) := by rw [← List.cons_append, ← IC_eq]
  rw [e, hasBare, ← e, isPrefixOf_self_append, List.drop_left, Bool.true_and,
    hasBare_append_noHash t IC_tail_noHash]

theorem hasSub_IC_append (t : Line) : hasSub IC (IC ++ t) = true := by
  have e : IC ++ t = '#' :: (IC.tail ++ t) := by rw [← List.cons_append, ← IC_eq]
  rw [e, hasSub, ← e, isPrefixOf_self_append]; rfl

theorem hasBare_imp_hasSub {l : Line} (h : hasBare l = true) : hasSub IC l = true := by
  induction l with
  | nil => cases h
  | cons c cs ih =>
    simp only [hasBare, hasSub, Bool.or_eq_true, Bool.and_eq_true] at h ⊢
    rcases h with ⟨a, _⟩ | a
    · exact Or.inl a
    · exact Or.inr (ih a)

theorem codedIC_eq (c : String) : codedIC c = IC ++ ('[' :: (c.toList ++ [']'])) := rfl

theorem hasSub_coded_imp {l : Line} {c : String} (h : hasSub (codedIC c) l = true) : hasSub IC l = true := by
  induction l with
  | nil => simp [hasSub, codedIC] at h
  | cons x xs ih =>
    simp only [hasSub, Bool.or_eq_true] at h ⊢
    rcases h with a | a
    · exact Or.inl (isPrefixOf_of_append (by rw [codedIC_eq] at a; exact a))
    · exact Or.inr (ih a)

theorem hasSub_append_right {p a : Line} (b : Line) (h : hasSub p a = true) : hasSub p (a ++ b) = true := by
  induction a with
  | nil =>
    simp only [hasSub, List.isEmpty_iff] at h
    subst h
    cases b <;> simp [hasSub]
  | cons c cs ih =>
    simp only [List.cons_append, hasSub, Bool.or_eq_true] at h ⊢
    rcases h with a | a
    · exact Or.inl (isPrefixOf_append_right (a := c :: cs) b a)
    · exact Or.inr (ih a)

theorem hasSub_append_left {p t : Line} (s : Line) (h : hasSub p t = true) : hasSub p (s ++ t) = true := by
  induction s with
  | nil => exact h
  | cons c cs ih => simp only [List.cons_append, hasSub, Bool.or_eq_true]; exact Or.inr ih

theorem hasSub_strip {p l : Line} (h : hasSub p (strip l) = true) : hasSub p l = true := by
  unfold strip at h
  have h1 : ((l.dropWhile isSpace).reverse.dropWhile isSpace).reverse <+: l.dropWhile isSpace := by
    have := (List.reverse_prefix).mpr (List.dropWhile_suffix isSpace (l := (l.dropWhile isSpace).reverse))
    rw [List.reverse_reverse] at this
    exact this
  obtain ⟨t, ht⟩ := h1
  obtain ⟨s, hs⟩ := List.dropWhile_suffix isSpace (l := l)
  rw [← hs, ← ht]
  exact hasSub_append_left s (hasSub_append_right t h)

theorem ownLineMatch_imp {l : Line} {code : Option String} (h : ownLineMatch l code = true) :
    hasSub IC l = true := by
  unfold ownLineMatch at h
  apply hasSub_strip
  simp only [Bool.or_eq_true, beq_iff_eq] at h
  rcases h with e | h
  · rw [e]; decide
  · cases code with
    | none => cases h
    | some c =>
      simp only [beq_iff_eq] at h
      rw [h, codedIC_eq]; exact hasSub_IC_append _

theorem trailingMatch_imp {l : Line} {code : Option String} (h : trailingMatch l code = true) :
    hasSub IC l = true := by
  unfold trailingMatch at h
  simp only [Bool.or_eq_true] at h
  rcases h with h | h
  · exact hasBare_imp_hasSub h
  · cases code with
    | none => cases h
    | some c => exact hasSub_coded_imp h

theorem noIC_trailing {l : Line} (h : hasSub IC l = false) (code : Option String) :
    trailingMatch l code = false := by
  cases ht : trailingMatch l code with
  | false => rfl
  | true => rw [trailingMatch_imp ht] at h; cases h

theorem noIC_ownLine {l : Line} (h : hasSub IC l = false) (code : Option String) :
    ownLineMatch l code = false := by
  cases ht : ownLineMatch l code with
  | false => rfl
  | true => rw [ownLineMatch_imp ht] at h; cases h

/-- `(a ++ [x])` is a prefix of `(b ++ [x])` only if `a = b`, when `x` does not occur in `b`. -/
theorem isPrefixOf_snoc {x : Char} (a b : Line) (hb : b.contains x = false) :
    (a ++ [x]).isPrefixOf (b ++ [x]) = decide (a = b) := by
  induction a generalizing b with
  | nil =>
    cases b with
    | nil => simp
    | cons y ys =>
      simp only [List.contains_cons, Bool.or_eq_false_iff, beq_eq_false_iff_ne, ne_eq] at hb
      have : (x == y) = false := by simp only [beq_eq_false_iff_ne, ne_eq]; exact hb.1
      simp [List.isPrefixOf, this]
  | cons z zs ih =>
    cases b with
    | nil =>
      cases zs <;> simp [List.isPrefixOf]
    | cons y ys =>
      simp only [List.contains_cons, Bool.or_eq_false_iff] at hb
      simp only [List.cons_append, List.isPrefixOf, ih ys hb.2, List.cons.injEq]
      by_cases e : z = y
      · subst e; simp
      · have : (z == y) = false := by simpa using e
        simp [this, e]

theorem hasSub_coded_coded (c' c : String) (hc : codeOK c = true) :
    hasSub (codedIC c') (codedIC c) = decide (c' = c) := by
  unfold codeOK at hc
  simp only [Bool.and_eq_true, Bool.not_eq_true'] at hc
  have hp : (codedIC c').head? = some '#' := by rw [codedIC_eq, IC_eq]; rfl
  have e : codedIC c = '#' :: (IC.tail ++ ('[' :: (c.toList ++ [']']))) := by
    rw [codedIC_eq, IC_append]
  have hrest : (IC.tail ++ ('[' :: (c.toList ++ [']']))).contains '#' = false := by
    simp only [List.contains_append, List.contains_cons, IC_tail_noHash, hc.1, Bool.false_or]
    decide
  rw [e, hasSub, hasSub_noHash hp hrest, Bool.or_false, ← e, codedIC_eq, codedIC_eq,
    isPrefixOf_append_left, List.isPrefixOf]
  simp only [beq_self_eq_true, Bool.true_and]
  rw [isPrefixOf_snoc _ _ hc.2]
  by_cases e2 : c' = c
  · simp [e2]
  · have : c'.toList ≠ c.toList := fun h => e2 (String.toList_inj.mp h)
    simp [e2, this]

theorem coded_ne_IC (c : String) : (codedIC c == IC) = false := by
  rw [beq_eq_false_iff_ne]
  intro e
  have := congrArg List.length e
  rw [codedIC_eq] at this
  simp at this

theorem coded_beq_coded (c c' : String) : (codedIC c == codedIC c') = decide (c = c') := by
  by_cases e : c = c'
  · subst e; simp
  · have : codedIC c ≠ codedIC c' := by
      intro h
      rw [codedIC_eq, codedIC_eq] at h
      have h2 := List.append_cancel_left h
      simp only [List.cons.injEq, true_and] at h2
      have h3 := List.append_cancel_right h2
      exact e (String.toList_inj.mp h3)
    simp [e, beq_eq_false_iff_ne.mpr this]

/-- The trailing form: what `old  # static analysis: ignore…` matches as "this line". -/
theorem trailing_withTrailing (old : Line) (s : Sel) (hold : old.contains '#' = false) (hs : s.ok = true)
    (code : Option String) : trailingMatch (withTrailing old s) code = s.matches code := by
  have hpre : (old ++ [' ', ' ']).contains '#' = false := by
    simp only [List.contains_append, hold, Bool.false_or]; decide
  have e : withTrailing old s = (old ++ [' ', ' ']) ++ s.text := by simp [withTrailing]
  unfold trailingMatch
  rw [e, hasBare_append_noHash _ hpre]
  cases s with
  | bare =>
    have : hasBare Sel.bare.text = true := by decide
    rw [this]; rfl
  | code c =>
    have hc : codeOK c = true := hs
    have hb : hasBare (Sel.code c).text = false := by
      show hasBare (codedIC c) = false
      rw [codedIC_eq, hasBare_IC_append]
      have : ('[' :: (c.toList ++ [']'])).contains '#' = false := by
        unfold codeOK at hc
        simp only [Bool.and_eq_true, Bool.not_eq_true'] at hc
        simp only [List.contains_cons, List.contains_append, hc.1, Bool.false_or]
        decide
      rw [hasBare_noHash this]; rfl
    rw [hb, Bool.false_or]
    cases code with
    | none => rfl
    | some c' =>
      have hp : (codedIC c').head? = some '#' := by rw [codedIC_eq, IC_eq]; rfl
      simp only
      rw [hasSub_append_noHash hp _ hpre]
      show hasSub (codedIC c') (codedIC c) = (c == c')
      rw [hasSub_coded_coded c' c hc]
      by_cases e2 : c' = c
      · subst e2; simp
      · have : ¬ c = c' := fun h => e2 h.symm
        simp [e2, this]

theorem dropWhile_snoc {p : Char → Bool} {x : Char} (a : Line) (hx : p x = false) :
    (a ++ [x]).dropWhile p = a.dropWhile p ++ [x] := by
  induction a with
  | nil => simp [List.dropWhile, hx]
  | cons c cs ih =>
    by_cases hc : p c = true
    · simp [List.dropWhile_cons, hc, ih]
    · simp [List.dropWhile_cons, hc]

/-- Stripping on the right keeps a leading non-blank character. -/
theorem rstrip_head {x : Char} (rest : Line) (hx : isSpace x = false) :
    (((x :: rest).reverse.dropWhile isSpace).reverse).head? = some x := by
  rw [List.reverse_cons, dropWhile_snoc _ hx, List.reverse_append]
  rfl

theorem dropWhile_append_any {old : Line} (t : Line) (h : old.any (fun c => !isSpace c) = true) :
    (old ++ t).dropWhile isSpace = old.dropWhile isSpace ++ t := by
  induction old with
  | nil => cases h
  | cons c cs ih =>
    by_cases hc : isSpace c = true
    · simp only [List.any_cons, hc, Bool.not_true, Bool.false_or] at h
      simp only [List.cons_append, List.dropWhile_cons, hc, if_true, ih h]
    · simp only [List.cons_append, List.dropWhile_cons, hc, Bool.false_eq_true, if_false]

theorem dropWhile_any {l : Line} (h : l.any (fun c => !isSpace c) = true) :
    ∃ x r, l.dropWhile isSpace = x :: r ∧ isSpace x = false ∧ x ∈ l := by
  induction l with
  | nil => cases h
  | cons c cs ih =>
    by_cases hc : isSpace c = true
    · simp only [List.any_cons, hc, Bool.not_true, Bool.false_or] at h
      obtain ⟨x, r, e, hx, hm⟩ := ih h
      exact ⟨x, r, by simp only [List.dropWhile_cons, hc, if_true, e], hx, List.mem_cons_of_mem _ hm⟩
    · simp only [Bool.not_eq_true] at hc
      exact ⟨c, cs, by simp only [List.dropWhile_cons, hc, Bool.false_eq_true, if_false], hc, List.mem_cons_self⟩

theorem strip_append_head {old : Line} (t : Line) (h : old.any (fun c => !isSpace c) = true) :
    ∃ x, (strip (old ++ t)).head? = some x ∧ x ∈ old := by
  obtain ⟨x, r, e, hx, hm⟩ := dropWhile_any h
  refine ⟨x, ?_, hm⟩
  unfold strip
  rw [dropWhile_append_any t h, e, List.cons_append]
  exact rstrip_head _ hx

theorem ownLine_withTrailing (old : Line) (s : Sel) (hold : plainCode old = true) (code : Option String) :
    ownLineMatch (withTrailing old s) code = false := by
  unfold plainCode at hold
  simp only [Bool.and_eq_true, Bool.not_eq_true'] at hold
  obtain ⟨x, hx, hm⟩ := strip_append_head (' ' :: ' ' :: s.text) hold.2
  have hne : x ≠ '#' := by
    intro e; subst e
    have : old.contains '#' = true := List.contains_iff_mem.mpr hm
    rw [hold.1] at this; cases this
  have key : ∀ p : Line, p.head? = some '#' → (strip (withTrailing old s) == p) = false := by
    intro p hp
    rw [beq_eq_false_iff_ne]
    intro e
    unfold withTrailing at e
    rw [e, hp] at hx
    exact hne (Option.some.inj hx).symm
  unfold ownLineMatch
  rw [key IC (by decide)]
  cases code with
  | none => rfl
  | some c => simp only [Bool.false_or]; exact key _ (by rw [codedIC_eq, IC_eq]; rfl)

theorem text_head (s : Sel) : s.text.head? = some '#' := by
  cases s with
  | bare => decide
  | code c => show (codedIC c).head? = _; rw [codedIC_eq, IC_eq]; rfl

theorem text_hasIC (s : Sel) : hasSub IC s.text = true := by
  cases s with
  | bare => decide
  | code c => show hasSub IC (codedIC c) = true; rw [codedIC_eq]; exact hasSub_IC_append _

theorem strip_ownLine (k : Nat) (s : Sel) : strip (ownLine k s) = s.text := by
  unfold strip ownLine
  have h1 : (List.replicate k ' ' ++ s.text).dropWhile isSpace = s.text := by
    induction k with
    | zero =>
      simp only [List.replicate_zero, List.nil_append]
      have := text_head s
      cases hs : s.text with
      | nil => rw [hs] at this; cases this
      | cons x xs =>
        rw [hs] at this
        simp only [List.head?_cons, Option.some.injEq] at this
        subst this
        rfl
    | succ k ih =>
      simp only [List.replicate_succ, List.cons_append, List.dropWhile_cons]
      have : isSpace ' ' = true := by decide
      rw [if_pos this]; exact ih
  rw [h1]
  cases s with
  | bare => decide
  | code c =>
    show ((codedIC c).reverse.dropWhile isSpace).reverse = codedIC c
    have : (codedIC c).reverse = ']' :: (IC ++ ('[' :: c.toList)).reverse := by
      rw [codedIC_eq]; simp [List.reverse_append]
    rw [this]
    have h2 : isSpace ']' = false := by decide
    simp only [List.dropWhile_cons, h2, Bool.false_eq_true, if_false]
    rw [← this, List.reverse_reverse]

/-- The own-line form: what a line consisting of the comment matches as "previous line". -/
theorem ownLine_ownLine (k : Nat) (s : Sel) (code : Option String) :
    ownLineMatch (ownLine k s) code = s.matches code := by
  unfold ownLineMatch
  rw [strip_ownLine]
  cases s with
  | bare =>
    have : (Sel.bare.text == IC) = true := by decide
    rw [this]; rfl
  | code c =>
    show (codedIC c == IC || _) = _
    rw [coded_ne_IC, Bool.false_or]
    cases code with
    | none => rfl
    | some c' => show (codedIC c == codedIC c') = (c == c'); rw [coded_beq_coded]; by_cases e : c = c' <;> simp [e]

theorem ownLine_hasIC (k : Nat) (s : Sel) : hasSub IC (ownLine k s) = true :=
  hasSub_append_left _ (text_hasIC s)

theorem withTrailing_hasIC (old : Line) (s : Sel) : hasSub IC (withTrailing old s) = true :=
  hasSub_append_left old (hasSub_append_left [' ', ' '] (text_hasIC s))

/-! ## 6. Files with at most one comment line -/

theorem mem_takeWhile {α} {q : α → Bool} {L : List α} {a : α} (h : a ∈ L.takeWhile q) : q a = true ∧ a ∈ L := by
  induction L with
  | nil => cases h
  | cons x xs ih =>
    by_cases hx : q x = true
    · simp only [List.takeWhile_cons, hx, if_true, List.mem_cons] at h
      rcases h with rfl | h
      · exact ⟨hx, List.mem_cons_self⟩
      · exact ⟨(ih h).1, List.mem_cons_of_mem _ (ih h).2⟩
    · simp [List.takeWhile_cons, hx] at h

theorem mem_of_getElem? {lines : List Line} {j : Nat} {l : Line} (h : lines[j]? = some l) : l ∈ lines :=
  List.mem_of_getElem? h

theorem noIgnore_mem {lines : List Line} (h : NoIgnore lines = true) {l : Line} (hl : l ∈ lines) :
    hasSub IC l = false := by
  unfold NoIgnore at h
  have := List.all_eq_true.mp h l hl
  simpa using this

theorem at_noIC {lines : List Line} {j : Nat} (h : ∀ l, lines[j]? = some l → hasSub IC l = false)
    (code : Option String) : trailingAt lines j code = false ∧ ownLineAt lines j code = false := by
  unfold trailingAt ownLineAt
  cases hl : lines[j]? with
  | none => exact ⟨rfl, rfl⟩
  | some l => exact ⟨noIC_trailing (h l hl) code, noIC_ownLine (h l hl) code⟩

theorem lineTargets_noIC {lines : List Line} {j : Nat} (h : ∀ l, lines[j]? = some l → hasSub IC l = false)
    (r : Raw) : lineTargets lines j r = false := by
  unfold lineTargets
  cases r.pos with
  | none => simp
  | some p => simp [(at_noIC h r.code).1, (at_noIC h r.code).2]

theorem lineTargets_bound {lines : List Line} {j : Nat} {r : Raw} (h : lineTargets lines j r = true) :
    j < lines.length := by
  unfold lineTargets at h
  cases hp : r.pos with
  | none => rw [hp] at h; simp at h
  | some p =>
    rw [hp] at h
    simp only [Bool.and_eq_true, Bool.or_eq_true] at h
    rcases h.2 with a | a
    · exact trailingAt_bound a.2
    · exact ownLineAt_bound a.2

/-- In a file whose only possible comment line is `i0`, a diagnostic is suppressed at line level
iff line `i0` targets it. -/
theorem lineSuppressed_single {lines : List Line} {i0 : Nat}
    (h : ∀ j l, j ≠ i0 → lines[j]? = some l → hasSub IC l = false) (r : Raw) :
    lineSuppressed lines r = lineTargets lines i0 r := by
  rw [Bool.eq_iff_iff]
  unfold lineSuppressed
  simp only [List.any_eq_true, List.mem_range]
  constructor
  · rintro ⟨j, _, ht⟩
    by_cases e : j = i0
    · subst e; exact ht
    · rw [lineTargets_noIC (h j · e) r] at ht; cases ht
  · intro ht; exact ⟨i0, lineTargets_bound ht, ht⟩

theorem fileSuppressed_of {lines : List Line} {code : Option String}
    (h : ∀ l ∈ leading lines, ownLineMatch l code = false) : fileSuppressed lines code = false := by
  unfold fileSuppressed
  rw [List.any_eq_false]
  intro l hl
  simp [h l hl]

theorem noIgnore_suppressed {lines : List Line} (h : NoIgnore lines = true) (r : Raw) :
    suppressed lines r = false := by
  unfold suppressed
  rw [fileSuppressed_of (fun l hl => noIC_ownLine (noIgnore_mem h (mem_takeWhile hl).2) _),
    lineSuppressed_single (i0 := lines.length) (fun j l _ hl => noIgnore_mem h (mem_of_getElem? hl)) r,
    Bool.false_or]
  cases ht : lineTargets lines lines.length r with
  | false => rfl
  | true => exact absurd (lineTargets_bound ht) (Nat.lt_irrefl _)

/-- The visit-phase output of a file without ignore comments: the counted first occurrences. -/
theorem noIgnore_fails {en : String → Bool} {lines : List Line} {raw : List Raw} {st : St}
    (hno : NoIgnore lines = true) (hwf : RawWF lines raw = true) (hrun : run en lines {} raw = some st) :
    st.fails = (nub (raw.filter (counted en))).filter (·.save) := by
  rw [run_fails_spec en lines raw st hrun hwf]
  unfold specFails specDiags
  congr 1
  rw [List.filter_eq_self]
  intro r _
  simp [noIgnore_suppressed hno r]

/-! ## 6a. A trailing comment appended to one line -/

theorem RawWF_length {lines lines' : List Line} (h : lines'.length = lines.length) (raw : List Raw) :
    RawWF lines' raw = RawWF lines raw := by
  unfold RawWF wfAt; rw [h]

theorem trailing_suppressed (lines : List Line) (i : Nat) (hi : i < lines.length) (s : Sel)
    (hno : NoIgnore lines = true) (hplain : plainCode lines[i] = true) (hs : s.ok = true) (r : Raw) :
    suppressed (lines.set i (withTrailing lines[i] s)) r = s.hits (i + 1) r := by
  have hold : lines[i].contains '#' = false := by
    unfold plainCode at hplain; simp only [Bool.and_eq_true, Bool.not_eq_true'] at hplain; exact hplain.1
  unfold suppressed
  rw [fileSuppressed_of (fun l hl => by
      rcases List.mem_or_eq_of_mem_set (mem_takeWhile hl).2 with a | a
      · exact noIC_ownLine (noIgnore_mem hno a) _
      · rw [a]; exact ownLine_withTrailing _ s hplain _),
    lineSuppressed_single (i0 := i) (fun j l hj hl => by
      rw [List.getElem?_set_ne (fun e => hj e.symm)] at hl
      exact noIgnore_mem hno (mem_of_getElem? hl)) r, Bool.false_or]
  unfold lineTargets trailingAt ownLineAt Sel.hits Raw.line
  rw [List.getElem?_set_self hi]
  simp only [trailing_withTrailing _ s hold hs, ownLine_withTrailing _ s hplain, Bool.and_false, Bool.or_false]
  cases r.pos with
  | none => simp
  | some p => simp [Bool.and_assoc]

theorem trailing_exact (en : String → Bool) (lines : List Line) (raw : List Raw) (i : Nat)
    (hi : i < lines.length) (s : Sel) (hno : NoIgnore lines = true)
    (hplain : plainCode lines[i] = true) (hs : s.ok = true) (hwf : RawWF lines raw = true) :
    ∃ st st', run en lines {} raw = some st ∧
      run en (lines.set i (withTrailing lines[i] s)) {} raw = some st' ∧
      st'.fails = st.fails.filter fun r => !s.hits (i + 1) r := by
  obtain ⟨st, h⟩ := run_some_of_wf en lines raw hwf {}
  have hwf' : RawWF (lines.set i (withTrailing lines[i] s)) raw = true := by
    rw [RawWF_length (lines := lines) (by simp)]; exact hwf
  obtain ⟨st', h'⟩ := run_some_of_wf en _ raw hwf' {}
  refine ⟨st, st', h, h', ?_⟩
  rw [noIgnore_fails hno hwf h, run_fails_spec en _ raw st' h' hwf']
  unfold specFails specDiags
  rw [List.filter_filter, List.filter_filter]
  apply List.filter_congr
  intro r _
  rw [trailing_suppressed lines i hi s hno hplain hs r, Bool.and_comm]

/-! ## 6b. An own-line comment inserted before line `i` -/

theorem insertAt_length (lines : List Line) (i : Nat) (cm : Line) (hi : i ≤ lines.length) :
    (insertAt lines i cm).length = lines.length + 1 := by
  unfold insertAt
  simp only [List.length_append, List.length_take, List.length_cons, List.length_drop]
  omega

theorem insertAt_self (lines : List Line) (i : Nat) (cm : Line) (hi : i ≤ lines.length) :
    (insertAt lines i cm)[i]? = some cm := by
  unfold insertAt
  have : (lines.take i).length = i := by simp [List.length_take]; omega
  rw [List.getElem?_append_right (by omega), this]
  simp

theorem insertAt_other (lines : List Line) (i : Nat) (cm : Line) (hi : i ≤ lines.length) (j : Nat) (l : Line)
    (hj : j ≠ i) (h : (insertAt lines i cm)[j]? = some l) : l ∈ lines := by
  unfold insertAt at h
  have hlen : (lines.take i).length = i := by simp [List.length_take]; omega
  by_cases hlt : j < i
  · rw [List.getElem?_append_left (by omega)] at h
    exact List.mem_of_mem_take (mem_of_getElem? h)
  · rw [List.getElem?_append_right (by omega), hlen] at h
    have : j - i = (j - i - 1) + 1 := by omega
    rw [this, List.getElem?_cons_succ] at h
    exact List.mem_of_mem_drop (mem_of_getElem? h)

theorem getLast?_append_ne_nil {α} (X B : List α) (h : B ≠ []) : (X ++ B).getLast? = B.getLast? := by
  induction X with
  | nil => rfl
  | cons x xs ih =>
    rw [List.cons_append, List.getLast?_cons_of_ne_nil (by simp [h]), ih]

theorem shift_key (i : Nat) (r : Raw) : (r.shift i).key = r.key := rfl
theorem shift_counted (en : String → Bool) (i : Nat) (r : Raw) : counted en (r.shift i) = counted en r := rfl

theorem nub_map (f : Raw → Raw) (hf : ∀ r, (f r).key = r.key) (l : List Raw) :
    nub (l.map f) = (nub l).map f := by
  induction l with
  | nil => rfl
  | cons r rs ih =>
    simp only [List.map_cons, nub, ih, List.filter_map, hf]
    congr 2
    apply List.filter_congr
    intro x _
    simp only [Function.comp, hf]

theorem wf_shift (lines : List Line) (i : Nat) (cm : Line) (hi : i ≤ lines.length) (raw : List Raw)
    (hwf : RawWF lines raw = true) : RawWF (insertAt lines i cm) (raw.map (Raw.shift i)) = true := by
  unfold RawWF at hwf ⊢
  rw [List.all_eq_true] at hwf ⊢
  intro r' hr'
  obtain ⟨r, hr, rfl⟩ := List.mem_map.mp hr'
  have := hwf r hr
  unfold wfAt at this ⊢
  unfold Raw.shift
  rw [insertAt_length lines i cm hi]
  cases hp : r.pos with
  | none => simp
  | some p =>
    rw [hp] at this
    simp only [Option.map_some, Bool.or_eq_true, Bool.not_eq_true', Bool.and_eq_true, decide_eq_true_eq] at this ⊢
    rcases this with a | ⟨a, b⟩
    · exact Or.inl a
    · refine Or.inr ⟨?_, ?_⟩ <;> split <;> omega

/-- The spec output of the file with an inserted line, on the renumbered stream. -/
theorem specFails_shift (en : String → Bool) (lines' : List Line) (raw : List Raw) (i : Nat) :
    specFails en lines' (raw.map (Raw.shift i)) =
      (((nub (raw.filter (counted en))).filter fun r => !suppressed lines' (r.shift i)).filter (·.save)).map
        (Raw.shift i) := by
  unfold specFails specDiags
  rw [List.filter_map, nub_map _ (shift_key i), List.filter_map, List.filter_map]
  rfl

theorem lineTargets_insert (lines : List Line) (i : Nat) (k : Nat) (s : Sel) (hi : i ≤ lines.length) (r : Raw) :
    lineTargets (insertAt lines i (ownLine k s)) i (r.shift i) = s.hits (i + 1) r := by
  unfold lineTargets trailingAt ownLineAt Sel.hits Raw.line Raw.shift
  rw [insertAt_self lines i _ hi]
  simp only [ownLine_ownLine]
  cases r.pos with
  | none => simp
  | some p =>
    obtain ⟨ln, c⟩ := p
    simp only [Option.map_some, Option.some.injEq, beq_iff_eq]
    by_cases h : ln > i
    · simp only [h, if_true]
      have e1 : (ln + 1 == i + 1) = false := by simp; omega
      have e2 : (ln + 1 == i + 2) = (ln == i + 1) := by
        by_cases e : ln = i + 1
        · simp [e]
        · have : ¬ ln + 1 = i + 2 := by omega
          simp [e, this]
      simp [e1, e2, Bool.and_assoc]
    · simp only [h, if_false]
      have e1 : (ln == i + 2) = false := by simp; omega
      have e2 : (ln == i + 1) = false := by simp; omega
      simp [e1, e2]

theorem takeWhile_stop {α} {q : α → Bool} {x : α} (hx : q x = false) (A B : List α) :
    ∀ a ∈ (A ++ x :: B).takeWhile q, a ∈ A := by
  induction A with
  | nil => intro a ha; simp [List.takeWhile_cons, hx] at ha
  | cons y ys ih =>
    intro a ha
    by_cases hy : q y = true
    · simp only [List.cons_append, List.takeWhile_cons, hy, if_true, List.mem_cons] at ha
      rcases ha with rfl | ha
      · exact List.mem_cons_self
      · exact List.mem_cons_of_mem _ (ih a ha)
    · simp [List.takeWhile_cons, hy] at ha

theorem takeWhile_stop_in {α} {q : α → Bool} (A R : List α) (h : A.any (fun a => !q a) = true) :
    ∀ a ∈ (A ++ R).takeWhile q, a ∈ A := by
  induction A with
  | nil => cases h
  | cons y ys ih =>
    intro a ha
    by_cases hy : q y = true
    · simp only [List.any_cons, hy, Bool.not_true, Bool.false_or] at h
      simp only [List.cons_append, List.takeWhile_cons, hy, if_true, List.mem_cons] at ha
      rcases ha with rfl | ha
      · exact List.mem_cons_self
      · exact List.mem_cons_of_mem _ (ih h a ha)
    · simp [List.takeWhile_cons, hy] at ha

theorem takeWhile_all {α} {q : α → Bool} (A R : List α) (h : A.all q = true) :
    (A ++ R).takeWhile q = A ++ R.takeWhile q := by
  induction A with
  | nil => rfl
  | cons y ys ih =>
    simp only [List.all_cons, Bool.and_eq_true] at h
    simp [List.takeWhile_cons, h.1, ih h.2]

theorem ownLine_head_indent (k : Nat) (s : Sel) (hk : 1 ≤ k) : (ownLine k s).head? = some ' ' := by
  unfold ownLine
  cases k with
  | zero => omega
  | succ n => simp [List.replicate_succ]

theorem ownLine_head_zero (s : Sel) : (ownLine 0 s).head? = some '#' := by
  unfold ownLine; simp [text_head]

/-- Own-line form, not in the leading block: exactly the next line's matching diagnostics. -/
theorem ownline_suppressed (lines : List Line) (i k : Nat) (s : Sel) (hi : i ≤ lines.length)
    (hno : NoIgnore lines = true)
    (hpos : (decide (1 ≤ k) || (lines.take i).any (fun l => l.head? != some '#')) = true) (r : Raw) :
    suppressed (insertAt lines i (ownLine k s)) (r.shift i) = s.hits (i + 1) r := by
  unfold suppressed
  have hfile : fileSuppressed (insertAt lines i (ownLine k s)) (r.shift i).code = false := by
    apply fileSuppressed_of
    intro l hl
    have hin : l ∈ lines.take i := by
      unfold leading insertAt at hl
      simp only [Bool.or_eq_true, decide_eq_true_eq] at hpos
      rcases hpos with hk | hany
      · exact takeWhile_stop (by rw [ownLine_head_indent k s hk]; decide) _ _ l hl
      · apply takeWhile_stop_in _ _ _ l hl
        rw [List.any_eq_true] at hany ⊢
        obtain ⟨a, ha, hq⟩ := hany
        exact ⟨a, ha, by simpa [bne] using hq⟩
    exact noIC_ownLine (noIgnore_mem hno (List.mem_of_mem_take hin)) _
  rw [hfile, Bool.false_or,
    lineSuppressed_single (i0 := i) (fun j l hj hl => noIgnore_mem hno (insertAt_other lines i _ hi j l hj hl)),
    lineTargets_insert lines i k s hi r]

/-- Own-line form at column 0 inside the leading block: the whole file, for the named code(s). -/
theorem filelevel_suppressed (lines : List Line) (i : Nat) (s : Sel) (hi : i ≤ lines.length)
    (hno : NoIgnore lines = true) (hlead : (lines.take i).all (fun l => l.head? == some '#') = true) (r : Raw) :
    suppressed (insertAt lines i (ownLine 0 s)) (r.shift i) = s.matches r.code := by
  unfold suppressed
  have hfile : fileSuppressed (insertAt lines i (ownLine 0 s)) (r.shift i).code = s.matches r.code := by
    unfold fileSuppressed leading insertAt
    rw [takeWhile_all _ _ hlead, List.takeWhile_cons]
    have hq : ((ownLine 0 s).head? == some '#') = true := by rw [ownLine_head_zero]; rfl
    simp only [hq, if_true, List.any_append, List.any_cons, ownLine_ownLine]
    have h1 : (lines.take i).any (fun x => ownLineMatch x (r.shift i).code) = false := by
      rw [List.any_eq_false]; intro l hl
      simp [noIC_ownLine (noIgnore_mem hno (List.mem_of_mem_take hl))]
    have h2 : ((lines.drop i).takeWhile fun l => l.head? == some '#').any
        (fun x => ownLineMatch x (r.shift i).code) = false := by
      rw [List.any_eq_false]; intro l hl
      simp [noIC_ownLine (noIgnore_mem hno (List.mem_of_mem_drop (mem_takeWhile hl).2))]
    rw [h1, h2]
    show (false || (s.matches r.code || false)) = _
    simp
  rw [hfile,
    lineSuppressed_single (i0 := i) (fun j l hj hl => noIgnore_mem hno (insertAt_other lines i _ hi j l hj hl)),
    lineTargets_insert lines i 0 s hi r]
  unfold Sel.hits
  cases s.matches r.code <;> simp

theorem insert_exact (en : String → Bool) (lines : List Line) (raw : List Raw) (i k : Nat) (s : Sel)
    (hi : i ≤ lines.length) (hno : NoIgnore lines = true) (hwf : RawWF lines raw = true)
    (hit : Raw → Bool) (hsup : ∀ r, suppressed (insertAt lines i (ownLine k s)) (r.shift i) = hit r) :
    ∃ st st', run en lines {} raw = some st ∧
      run en (insertAt lines i (ownLine k s)) {} (raw.map (Raw.shift i)) = some st' ∧
      st'.fails = (st.fails.filter fun r => !hit r).map (Raw.shift i) := by
  obtain ⟨st, h⟩ := run_some_of_wf en lines raw hwf {}
  have hwf' := wf_shift lines i (ownLine k s) hi raw hwf
  obtain ⟨st', h'⟩ := run_some_of_wf en _ _ hwf' {}
  refine ⟨st, st', h, h', ?_⟩
  rw [noIgnore_fails hno hwf h, run_fails_spec en _ _ st' h' hwf',
    specFails_shift]
  congr 1
  rw [List.filter_filter, List.filter_filter]
  apply List.filter_congr
  intro r _
  rw [hsup r, Bool.and_comm]

/-! ## 7. Disabling codes, whole check -/

theorem run_all_dropped (en : String → Bool) (lines : List Line) (L : List Raw) (st : St)
    (h : ∀ r ∈ L, disabledBy en r = true) : run en lines st L = some st := by
  induction L with
  | nil => rfl
  | cons r rs ih =>
    have h1 : showError en lines st r = some st := by
      rw [showError_eq]; simp [h r List.mem_cons_self]
    simp only [run, h1]
    exact ih fun r' hr' => h r' (List.mem_cons_of_mem _ hr')

/-- Calls whose code is in `S` leave the relation with the right-hand run untouched. -/
theorem Rel.left {S : List String} {en : String → Bool} {lines : List Line} (L : List Raw) :
    ∀ {st st2 st' : St}, Rel S st st2 → (∀ r ∈ L, codeIn S r = true) →
      C11.run en lines st L = some st' → Rel S st' st2 := by
  induction L with
  | nil => intro st st2 st' h _ hr; simp only [C11.run, Option.some.injEq] at hr; exact hr ▸ h
  | cons r rs ih =>
    intro st st2 st' h hS hr
    simp only [C11.run] at hr
    cases hs : showError en lines st r with
    | none => rw [hs] at hr; cases hr
    | some st1 =>
      rw [hs] at hr
      obtain ⟨st21, h1, hrel⟩ := h.step hs
      have : showError (disable S en) lines st2 r = some st2 := by
        rw [showError_eq, disabledBy_disable]; simp [hS r List.mem_cons_self]
      rw [this] at h1
      simp only [Option.some.injEq] at h1
      subst h1
      exact ih hrel (fun r' hr' => hS r' (List.mem_cons_of_mem _ hr')) hr

theorem fakeDiags_code {code : String} {L : List (Nat × Line)} {r : Raw} (h : r ∈ fakeDiags code L) :
    r.code = some code := by
  unfold fakeDiags at h
  obtain ⟨p, _, rfl⟩ := List.mem_map.mp h
  rfl

theorem enumFrom_snd_mem {i : Nat} {lines : List Line} {p : Nat × Line} (h : p ∈ enumFrom i lines) :
    p.2 ∈ lines := by
  induction lines generalizing i with
  | nil => cases h
  | cons l ls ih =>
    simp only [enumFrom, List.mem_cons] at h
    rcases h with rfl | h
    · exact List.mem_cons_self
    · exact List.mem_cons_of_mem _ (ih h)

theorem noIgnore_commentLines {lines : List Line} (h : NoIgnore lines = true) : commentLines lines = [] := by
  unfold commentLines
  rw [List.filter_eq_nil_iff]
  intro p hp
  simp [noIgnore_mem h (enumFrom_snd_mem hp)]

theorem check_disable (S : List String) (en : String → Bool) (lines : List Line) (raw : List Raw) (st : St)
    (h : check en lines raw = some st)
    (hyp : (!en "unused_ignore" || S.contains "unused_ignore" || NoIgnore lines) = true) :
    ∃ st2, check (disable S en) lines raw = some st2 ∧
      st2.fails = st.fails.filter fun r => !codeIn S r := by
  unfold check at h ⊢
  cases h1 : run en lines {} raw with
  | none => rw [h1] at h; cases h
  | some st1 =>
    rw [h1] at h; simp only at h
    obtain ⟨st1r, h1r, rel1⟩ := (Rel.init S).run raw h1
    rw [h1r]; simp only
    cases h2 : run en lines st1 (unusedRaws lines st1.used) with
    | none => rw [h2] at h; cases h
    | some st2l =>
      rw [h2] at h; simp only at h
      -- second pass: nothing on the right, nothing visible on the left
      have second : ∃ st2r, run (disable S en) lines st1r (unusedRaws lines st1r.used) = some st2r ∧
          Rel S st2l st2r := by
        by_cases hno : NoIgnore lines = true
        · have e1 : unusedRaws lines st1.used = [] := by
            rw [unusedRaws_eq, noIgnore_commentLines hno]; rfl
          have e2 : unusedRaws lines st1r.used = [] := by
            rw [unusedRaws_eq, noIgnore_commentLines hno]; rfl
          rw [e1] at h2; simp only [C11.run, Option.some.injEq] at h2
          rw [e2]; exact ⟨st1r, rfl, h2 ▸ rel1⟩
        · have hoff : (disable S en) "unused_ignore" = false := by
            simp only [hno, Bool.or_false, Bool.or_eq_true, Bool.not_eq_true'] at hyp
            unfold disable
            rcases hyp with a | a
            · rw [a]; rfl
            · rw [a]; simp
          refine ⟨st1r, run_all_dropped _ _ _ _ (fun r hr => ?_), ?_⟩
          · rw [unusedRaws_eq] at hr
            unfold disabledBy; rw [fakeDiags_code hr]; simp [hoff]
          · by_cases hen : en "unused_ignore" = true
            · have hS : S.contains "unused_ignore" = true := by
                unfold disable at hoff; simpa [hen] using hoff
              apply rel1.left _ _ h2
              intro r hr
              rw [unusedRaws_eq] at hr
              unfold codeIn; rw [fakeDiags_code hr]; exact hS
            · have : run en lines st1 (unusedRaws lines st1.used) = some st1 := by
                apply run_all_dropped
                intro r hr
                rw [unusedRaws_eq] at hr
                unfold disabledBy; rw [fakeDiags_code hr]; simpa using hen
              rw [this] at h2; simp only [Option.some.injEq] at h2
              exact h2 ▸ rel1
      obtain ⟨st2r, h2r, rel2⟩ := second
      rw [h2r]; simp only
      cases hfl : fileLevelIdx none 0 lines with
      | some i =>
        rw [hfl] at h; simp only [Option.some.injEq] at h
        subst h
        exact ⟨_, rfl, rel2.fails⟩
      | none =>
        rw [hfl] at h; simp only at h
        obtain ⟨st3r, h3r, rel3⟩ := rel2.run (bareRaws lines) h
        exact ⟨st3r, h3r, rel3.fails⟩

/-! ## 8. What is emitted has passed the gate -/

theorem dedupFrom_subset {seen : List Key} {l : List Raw} {r : Raw} (h : r ∈ dedupFrom seen l) : r ∈ l := by
  rw [dedupFrom_eq] at h
  exact nub_subset (List.mem_filter.mp h).1

theorem run_emits_gate {en : String → Bool} {lines : List Line} {raw : List Raw} {st st' : St}
    (h : run en lines st raw = some st') {r : Raw} (hr : r ∈ st'.fails) :
    r ∈ st.fails ∨ (r ∈ raw ∧ gateOpen en lines r = true) := by
  have c := run_closed en lines raw st st' h
  rw [c.fails, List.mem_append] at hr
  rcases hr with a | a
  · exact Or.inl a
  · have := List.mem_filter.mp (dedupFrom_subset (List.mem_filter.mp a).1)
    exact Or.inr this

theorem check_emits_gate {en : String → Bool} {lines : List Line} {raw : List Raw} {st : St}
    (h : check en lines raw = some st) {r : Raw} (hr : r ∈ st.fails) : gateOpen en lines r = true := by
  unfold check at h
  cases h1 : run en lines {} raw with
  | none => rw [h1] at h; cases h
  | some st1 =>
    rw [h1] at h; simp only at h
    cases h2 : run en lines st1 (unusedRaws lines st1.used) with
    | none => rw [h2] at h; cases h
    | some st2 =>
      rw [h2] at h; simp only at h
      have two : ∀ r ∈ st2.fails, gateOpen en lines r = true := by
        intro r hr
        rcases run_emits_gate h2 hr with a | a
        · rcases run_emits_gate h1 a with b | b
          · cases b
          · exact b.2
        · exact a.2
      cases hfl : fileLevelIdx none 0 lines with
      | some i =>
        rw [hfl] at h; simp only [Option.some.injEq] at h; subst h
        exact two r hr
      | none =>
        rw [hfl] at h; simp only at h
        rcases run_emits_gate h hr with a | a
        · exact two r a
        · exact a.2

/-! ## 9. Unused comments, pointwise -/

theorem unusedRaws_spec (en : String → Bool) (lines : List Line) (raw : List Raw) (st : St)
    (hrun : run en lines {} raw = some st) (hwf : RawWF lines raw = true) :
    unusedRaws lines st.used = fakeDiags "unused_ignore" (specUnused en lines raw) := by
  have hu1 := run_used_spec en lines raw st hrun hwf
  rw [unusedRaws_eq]; unfold specUnused
  congr 1
  apply List.filter_congr
  intro p _
  have := hu1 p.1
  rw [← List.contains_iff_mem] at this
  cases hc : st.used.contains (p.1 : Int) <;> cases hb : creditedBySome en lines raw p.1 <;> simp_all

theorem commentDiag_inj {code : String} {p q : Nat × Line} (h : commentDiag code p.1 p.2 = commentDiag code q.1 q.2) :
    p.1 = q.1 := by
  have := congrArg Raw.key h
  rw [commentDiag_key, commentDiag_key] at this
  have := congrArg Key.node this
  simp only [NodeKey.fake.injEq] at this
  omega

theorem enumFrom_fun {i : Nat} {lines : List Line} {p q : Nat × Line}
    (hp : p ∈ enumFrom i lines) (hq : q ∈ enumFrom i lines) (h : p.1 = q.1) : p = q := by
  induction lines generalizing i with
  | nil => cases hp
  | cons l ls ih =>
    have bound : ∀ {j : Nat} {x : Nat × Line}, x ∈ enumFrom j ls → j ≤ x.1 := by
      intro j x hx
      have : x.1 ∈ (enumFrom j ls).map (·.1) := List.mem_map.mpr ⟨x, hx, rfl⟩
      rw [enumFrom_fst] at this
      exact (List.mem_range'_1.mp this).1
    simp only [enumFrom, List.mem_cons] at hp hq
    rcases hp with rfl | hp <;> rcases hq with rfl | hq
    · rfl
    · have := bound hq; simp only at h; omega
    · have := bound hp; simp only at h; omega
    · exact ih hp hq

/-- A comment line is reported by the unused-ignore pass iff no counted first occurrence is
credited to it. -/
theorem unused_pointwise (en : String → Bool) (lines : List Line) (raw : List Raw) (st : St)
    (hrun : run en lines {} raw = some st) (hwf : RawWF lines raw = true)
    (p : Nat × Line) (hp : p ∈ commentLines lines) :
    commentDiag "unused_ignore" p.1 p.2 ∈ unusedRaws lines st.used ↔
      ∀ r ∈ nub (raw.filter (counted en)), credited lines r ≠ some p.1 := by
  rw [unusedRaws_spec en lines raw st hrun hwf]
  unfold fakeDiags specUnused
  have hcred : creditedBySome en lines raw p.1 = false ↔
      ∀ r ∈ nub (raw.filter (counted en)), credited lines r ≠ some p.1 := by
    unfold creditedBySome
    rw [List.any_eq_false]
    constructor
    · intro h r hr e; exact h r hr (by simp [e])
    · intro h r hr; simpa using h r hr
  rw [← hcred]
  constructor
  · intro h
    obtain ⟨q, hq, e⟩ := List.mem_map.mp h
    have hq' := List.mem_filter.mp hq
    have : q = p := by
      unfold commentLines at hp hq'
      exact enumFrom_fun (List.mem_filter.mp hq'.1).1 (List.mem_filter.mp hp).1 (commentDiag_inj e)
    subst this
    simpa using hq'.2
  · intro h
    exact List.mem_map.mpr ⟨p, List.mem_filter.mpr ⟨hp, by simp [h]⟩, rfl⟩

/-! ## 10. Enablement through options -/

theorem isErrorCodeEnabled_other (x : Inst) (insts : List Inst) (path : List String) (dflt : String → Bool)
    (code : String) (h : x.name ≠ code) :
    isErrorCodeEnabled (x :: insts) path dflt code = isErrorCodeEnabled insts path dflt code := by
  unfold isErrorCodeEnabled
  have : (x.name == code) = false := by simpa using h
  simp [List.filter_cons, this]

theorem insertSorted_head (x : Inst) (ys : List Inst) (h : ∀ y ∈ ys, x.le y = true) :
    insertSorted x ys = x :: ys := by
  cases ys with
  | nil => rfl
  | cons y ys => simp [insertSorted, h y List.mem_cons_self]

theorem mem_insertSorted {x a : Inst} {ys : List Inst} (h : a ∈ insertSorted x ys) : a = x ∨ a ∈ ys := by
  induction ys with
  | nil => simp [insertSorted] at h; exact Or.inl h
  | cons y ys ih =>
    unfold insertSorted at h
    split at h
    · rcases List.mem_cons.mp h with rfl | h
      · exact Or.inl rfl
      · exact Or.inr h
    · rcases List.mem_cons.mp h with rfl | h
      · exact Or.inr List.mem_cons_self
      · rcases ih h with a | a
        · exact Or.inl a
        · exact Or.inr (List.mem_cons_of_mem _ a)

theorem mem_sortInsts {a : Inst} {l : List Inst} (h : a ∈ sortInsts l) : a ∈ l := by
  induction l with
  | nil => exact h
  | cons x xs ih =>
    rcases mem_insertSorted (by simpa [sortInsts] using h) with rfl | h
    · exact List.mem_cons_self
    · exact List.mem_cons_of_mem _ (ih h)

/-- A command-line instance `code = false` (what `-d code` / `settings[code] = False` becomes in
`prepare_constructor_kwargs`) wins over every configuration-file instance. -/
theorem isErrorCodeEnabled_cmdline_off (code : String) (insts : List Inst) (path : List String)
    (dflt : String → Bool) (h : ∀ y ∈ insts, y.name = code → y.fromCmd = false) :
    isErrorCodeEnabled ({ name := code, value := false, fromCmd := true } :: insts) path dflt code = false := by
  unfold isErrorCodeEnabled
  simp only [List.filter_cons, beq_self_eq_true, if_true, sortInsts]
  rw [insertSorted_head]
  · simp [Inst.applies]
  · intro y hy
    have hy' := List.mem_filter.mp (mem_sortInsts hy)
    have := h y hy'.1 (by simpa using hy'.2)
    simp [Inst.le, this]

/-! ## 11. Credit and cover -/

theorem firstIdx_some {α} {p : α → Bool} {l : List α} {i : Nat} (h : firstIdx p l = some i) :
    ∃ hi : i < l.length, p l[i] = true := by
  induction l generalizing i with
  | nil => cases h
  | cons a as ih =>
    unfold firstIdx at h
    by_cases ha : p a = true
    · simp only [ha, if_true, Option.some.injEq] at h
      subst h
      exact ⟨by simp, ha⟩
    · simp only [ha, Bool.false_eq_true, if_false, Option.map_eq_some_iff] at h
      obtain ⟨j, hj, rfl⟩ := h
      obtain ⟨hj', hp⟩ := ih hj
      exact ⟨by simp; omega, by simpa using hp⟩

theorem leading_getElem {lines : List Line} {i : Nat} (hi : i < (leading lines).length) :
    ∃ hl : i < lines.length, (leading lines)[i] = lines[i] := by
  have hpre : leading lines <+: lines := List.takeWhile_prefix _
  have hlen := hpre.length_le
  exact ⟨by omega, hpre.getElem hi⟩

theorem covers_of_credited {lines : List Line} {r : Raw} {i : Nat} (h : credited lines r = some i) :
    covers lines i r = true := by
  rw [credited_eq] at h
  unfold covers
  rcases h with h | ⟨_, h⟩
  · obtain ⟨hi, hp⟩ := firstIdx_some h
    obtain ⟨hl, e⟩ := leading_getElem hi
    rw [e] at hp
    simp [hi, ownLineAt_lt hl, hp]
  · have : lineTargets lines i r = true := by
      unfold lineCredit at h
      unfold lineTargets
      cases hob : r.obey with
      | false => simp [hob] at h
      | true =>
        rw [hob] at h
        simp only [Bool.not_true, Bool.false_eq_true, if_false] at h
        cases hp : r.pos with
        | none => rw [hp] at h; cases h
        | some p =>
          obtain ⟨ln, c⟩ := p
          rw [hp] at h
          simp only [ge_iff_le, Bool.and_eq_true, decide_eq_true_eq] at h
          simp only [Bool.true_and, Bool.or_eq_true, Bool.and_eq_true, beq_iff_eq]
          by_cases h1 : 1 ≤ ln ∧ trailingAt lines (ln - 1) r.code = true
          · rw [if_pos h1] at h
            simp only [Option.some.injEq] at h
            subst h
            exact Or.inl ⟨by omega, h1.2⟩
          · rw [if_neg h1] at h
            by_cases h2 : 2 ≤ ln ∧ ownLineAt lines (ln - 2) r.code = true
            · rw [if_pos h2] at h
              simp only [Option.some.injEq] at h
              subst h
              exact Or.inr ⟨by omega, h2.2⟩
            · rw [if_neg h2] at h; cases h
    simp [this]

theorem covers_bound {lines : List Line} {r : Raw} {i : Nat} (h : covers lines i r = true) :
    i < lines.length := by
  unfold covers at h
  simp only [Bool.or_eq_true, Bool.and_eq_true, decide_eq_true_eq] at h
  rcases h with ⟨_, h⟩ | h
  · exact ownLineAt_bound h
  · exact lineTargets_bound h

theorem credited_of_covers {lines : List Line} {r : Raw} {i : Nat} (h : covers lines i r = true) :
    ∃ j, credited lines r = some j := by
  unfold covers at h
  simp only [Bool.or_eq_true, Bool.and_eq_true, decide_eq_true_eq] at h
  cases hf : firstIdx (ownLineMatch · r.code) (leading lines) with
  | some j => exact ⟨j, by unfold credited; rw [hf]⟩
  | none =>
    have hfs : fileSuppressed lines r.code = false := by
      unfold fileSuppressed; rw [← firstIdx_isSome, hf]; rfl
    rcases h with ⟨hi, ho⟩ | h
    · exfalso
      obtain ⟨hl, e⟩ := leading_getElem hi
      rw [ownLineAt_lt hl] at ho
      unfold fileSuppressed at hfs
      rw [List.any_eq_false] at hfs
      have := hfs _ (List.getElem_mem hi)
      rw [e, ho] at this
      exact this rfl
    · have hs : lineSuppressed lines r = true := by
        unfold lineSuppressed
        rw [List.any_eq_true]
        exact ⟨i, List.mem_range.mpr (lineTargets_bound h), h⟩
      rw [lineSuppressed_eq] at hs
      cases hl : lineCredit lines r with
      | none => rw [hl] at hs; cases hs
      | some j => exact ⟨j, by unfold credited; rw [hf, hl]⟩

theorem credited_iff_covers {en : String → Bool} {lines : List Line} {raw : List Raw}
    (hu : UniqueCover en lines raw = true) (i : Nat) :
    (∃ r ∈ nub (raw.filter (counted en)), credited lines r = some i) ↔
      (∃ r ∈ nub (raw.filter (counted en)), covers lines i r = true) := by
  constructor
  · rintro ⟨r, hr, h⟩; exact ⟨r, hr, covers_of_credited h⟩
  · rintro ⟨r, hr, h⟩
    obtain ⟨j, hj⟩ := credited_of_covers h
    have hcj := covers_of_credited hj
    unfold UniqueCover at hu
    have := List.all_eq_true.mp (List.all_eq_true.mp (List.all_eq_true.mp hu r hr) i
      (List.mem_range.mpr (covers_bound h))) j (List.mem_range.mpr (covers_bound hcj))
    simp only [h, hcj, Bool.and_self, Bool.not_true, Bool.false_or, beq_iff_eq] at this
    exact ⟨r, hr, this ▸ hj⟩

/-! ## 12. `splitlines()` against the tokenizer's lines -/

theorem splitBy_congr (f g : Char → Bool) (src : List Char) (h : ∀ c ∈ src, f c = g c) :
    ∀ cur afterCR, splitBy f src cur afterCR = splitBy g src cur afterCR := by
  induction src with
  | nil => intro cur a; rfl
  | cons c cs ih =>
    intro cur a
    have hc := h c List.mem_cons_self
    have ih' := ih (fun c' hc' => h c' (List.mem_cons_of_mem _ hc'))
    simp only [splitBy, hc, ih']

theorem tok_imp_py (c : Char) (h : isTokBreak c = true) : isPyBreak c = true := by
  unfold isTokBreak at h
  unfold isPyBreak
  simp only [Bool.or_eq_true, beq_iff_eq] at h
  rcases h with h | h <;> simp [h]

/-- What `_lines()` computed before ba62f49 agrees with the tokenizer's lines only without the
extra separators (regression documentation). -/
theorem oldPyLines_eq_tokLines (src : List Char) (h : D11_splitlinesMismatch src = false) :
    oldPyLines src = tokLines src := by
  unfold oldPyLines tokLines
  apply splitBy_congr
  intro c hc
  unfold D11_splitlinesMismatch at h
  have h1 := List.any_eq_false.mp h c hc
  have h2 := tok_imp_py c
  cases hx : isPyBreak c <;> cases hy : isTokBreak c <;> simp_all

/-- The repaired `_lines()`: the regex's characters are the tokenizer's line ends. -/
theorem pyLines_eq_tokLines (src : List Char) : pyLines src = tokLines src := by
  unfold pyLines tokLines
  apply splitBy_congr
  intro c _
  unfold isReBreak isTokBreak
  exact Bool.or_comm _ _

/-! ## 13. The stack of layers: sort-based lookup = documented precedence -/

theorem Inst.le_total (a b : Inst) : a.le b = true ∨ b.le a = true := by
  unfold Inst.le
  cases a.fromCmd <;> cases b.fromCmd <;> simp
  all_goals
    by_cases h : a.priority = b.priority
    · simp [h]; omega
    · have h' : ¬ b.priority = a.priority := fun e => h e.symm
      simp [h, h']; omega

theorem Inst.le_trans {a b c : Inst} (h1 : a.le b = true) (h2 : b.le c = true) : a.le c = true := by
  unfold Inst.le at *
  cases ha : a.fromCmd <;> cases hb : b.fromCmd <;> cases hc : c.fromCmd <;> simp [ha, hb, hc] at h1 h2 ⊢
  all_goals (split at h1 <;> split at h2 <;> split <;> omega)

/-- The first of the smallest elements (what a stable sort puts in front). -/
def minFirst : List Inst → Option Inst
  | [] => none
  | x :: xs =>
    match minFirst xs with
    | none => some x
    | some m => if x.le m then some x else some m

def Sorted (l : List Inst) : Prop := l.Pairwise fun a b => a.le b = true

theorem insertSorted_sorted (x : Inst) : ∀ {ys : List Inst}, Sorted ys → Sorted (insertSorted x ys) := by
  intro ys
  induction ys with
  | nil => intro _; simp [insertSorted, Sorted]
  | cons y ys ih =>
    intro h
    unfold Sorted at h ih ⊢
    rw [List.pairwise_cons] at h
    unfold insertSorted
    by_cases hxy : x.le y = true
    · rw [if_pos hxy, List.pairwise_cons, List.pairwise_cons]
      refine ⟨fun z hz => ?_, h⟩
      rcases List.mem_cons.mp hz with rfl | hz
      · exact hxy
      · exact Inst.le_trans hxy (h.1 z hz)
    · rw [if_neg hxy, List.pairwise_cons]
      refine ⟨fun z hz => ?_, ih h.2⟩
      rcases mem_insertSorted hz with rfl | hz
      · rcases Inst.le_total z y with a | a
        · exact absurd a hxy
        · exact a
      · exact h.1 z hz

theorem sortInsts_sorted : ∀ l : List Inst, Sorted (sortInsts l)
  | [] => by simp [sortInsts, Sorted]
  | x :: xs => by unfold sortInsts; exact insertSorted_sorted x (sortInsts_sorted xs)

theorem find_insertSorted (p : Inst → Bool) (x : Inst) : ∀ {S : List Inst}, Sorted S →
    (insertSorted x S).find? p =
      if p x then (match S.find? p with
        | none => some x
        | some m => if x.le m then some x else some m)
      else S.find? p := by
  intro S
  induction S with
  | nil => intro _; by_cases hp : p x = true <;> simp [insertSorted, hp]
  | cons y ys ih =>
    intro h
    unfold Sorted at h
    rw [List.pairwise_cons] at h
    unfold insertSorted
    by_cases hxy : x.le y = true
    · rw [if_pos hxy]
      by_cases hp : p x = true
      · rw [List.find?_cons, hp]; simp only [if_true]
        cases hf : (y :: ys).find? p with
        | none => rfl
        | some m =>
          have hm : m ∈ y :: ys := List.mem_of_find?_eq_some hf
          have : x.le m = true := by
            rcases List.mem_cons.mp hm with rfl | hm
            · exact hxy
            · exact Inst.le_trans hxy (h.1 m hm)
          simp [this]
      · rw [List.find?_cons, if_neg hp]; simp [hp]
    · rw [if_neg hxy]
      by_cases hpy : p y = true
      · simp only [List.find?_cons, hpy]
        by_cases hp : p x = true
        · simp [hp, hxy]
        · simp [hp]
      · simp only [List.find?_cons, hpy]
        exact ih h.2

theorem find_sortInsts (p : Inst → Bool) : ∀ L : List Inst, (sortInsts L).find? p = minFirst (L.filter p)
  | [] => rfl
  | x :: xs => by
    unfold sortInsts
    rw [find_insertSorted p x (sortInsts_sorted xs), find_sortInsts p xs]
    by_cases hp : p x = true
    · simp only [hp, if_true, List.filter_cons, minFirst]
    · simp only [hp, Bool.false_eq_true, if_false, List.filter_cons]

theorem minFirst_mem : ∀ {X : List Inst} {m : Inst}, minFirst X = some m → m ∈ X
  | [], _, h => by cases h
  | x :: xs, m, h => by
    unfold minFirst at h
    cases hm : minFirst xs with
    | none => rw [hm] at h; simp only [Option.some.injEq] at h; subst h; exact List.mem_cons_self
    | some m' =>
      rw [hm] at h
      simp only at h
      split at h
      · simp only [Option.some.injEq] at h; subst h; exact List.mem_cons_self
      · simp only [Option.some.injEq] at h; subst h; exact List.mem_cons_of_mem _ (minFirst_mem hm)

theorem minFirst_eq_none : ∀ {X : List Inst}, minFirst X = none → X = []
  | [], _ => rfl
  | x :: xs, h => by
    unfold minFirst at h
    cases hm : minFirst xs with
    | none => rw [hm] at h; cases h
    | some m' => rw [hm] at h; simp only at h; split at h <;> cases h

/-- Everything in `X` is `≤` everything in `Y`: the front of `X ++ Y` comes from `X`. -/
theorem minFirst_append_left : ∀ {X Y : List Inst}, X ≠ [] → (∀ x ∈ X, ∀ y ∈ Y, x.le y = true) →
    minFirst (X ++ Y) = minFirst X
  | [], _, h, _ => absurd rfl h
  | x :: xs, Y, _, hle => by
    simp only [List.cons_append, minFirst]
    by_cases hxs : xs = []
    · subst hxs
      simp only [List.nil_append, minFirst]
      cases hm : minFirst Y with
      | none => rfl
      | some m => simp [hle x List.mem_cons_self m (minFirst_mem hm)]
    · rw [minFirst_append_left hxs (fun a ha b hb => hle a (List.mem_cons_of_mem _ ha) b hb)]

/-- Nothing in `X` is `≤` anything in `Y`: the front of `X ++ Y` comes from `Y`. -/
theorem minFirst_append_right : ∀ {X Y : List Inst}, Y ≠ [] → (∀ x ∈ X, ∀ y ∈ Y, x.le y = false) →
    minFirst (X ++ Y) = minFirst Y
  | [], _, _, _ => rfl
  | x :: xs, Y, hY, hlt => by
    simp only [List.cons_append, minFirst]
    rw [minFirst_append_right hY (fun a ha b hb => hlt a (List.mem_cons_of_mem _ ha) b hb)]
    cases hm : minFirst Y with
    | none => exact absurd (minFirst_eq_none hm) hY
    | some m => simp [hlt x List.mem_cons_self m (minFirst_mem hm)]

/-- All keys equal: the front is the head. -/
theorem minFirst_all_le : ∀ {X : List Inst}, (∀ x ∈ X, ∀ y ∈ X, x.le y = true) → minFirst X = X.head?
  | [], _ => rfl
  | x :: xs, h => by
    simp only [minFirst, List.head?_cons]
    cases hm : minFirst xs with
    | none => rfl
    | some m => simp [h x List.mem_cons_self m (List.mem_cons_of_mem _ (minFirst_mem hm))]

def proj (i : Inst) : Nat × Bool := (i.applicableTo.length, i.value)

/-- Among configuration-file instances of one priority the front is the most specific one. -/
theorem minFirst_firstMax (p : Nat) : ∀ {X : List Inst}, (∀ x ∈ X, x.fromCmd = false ∧ x.priority = p) →
    (minFirst X).map proj = firstMax (X.map proj)
  | [], _ => rfl
  | x :: xs, h => by
    have ih := minFirst_firstMax p (X := xs) (fun a ha => h a (List.mem_cons_of_mem _ ha))
    simp only [minFirst, List.map_cons, firstMax]
    cases hm : minFirst xs with
    | none => rw [hm] at ih; simp only [Option.map_none] at ih; rw [← ih]; rfl
    | some m =>
      rw [hm] at ih
      simp only [Option.map_some] at ih
      rw [← ih]
      have hx := h x List.mem_cons_self
      have hmm := h m (List.mem_cons_of_mem _ (minFirst_mem hm))
      have : x.le m = decide (m.applicableTo.length ≤ x.applicableTo.length) := by
        unfold Inst.le; simp [hx.1, hx.2, hmm.1, hmm.2]
      simp only [this, proj]
      by_cases hl : m.applicableTo.length ≤ x.applicableTo.length <;> simp [hl] <;> rfl

/-! ### The relevant instances -/

def rel (code : String) (path : List String) (L : List Inst) : List Inst :=
  (L.filter (·.name == code)).filter (·.applies path)

theorem rel_append (code : String) (path : List String) (A B : List Inst) :
    rel code path (A ++ B) = rel code path A ++ rel code path B := by
  simp [rel, List.filter_append]

theorem isErrorCodeEnabled_eq (insts : List Inst) (path : List String) (dflt : String → Bool) (code : String) :
    isErrorCodeEnabled insts path dflt code =
      ((minFirst (rel code path insts)).map (·.value)).getD (dflt code) := by
  unfold isErrorCodeEnabled rel
  rw [find_sortInsts]
  cases minFirst (List.filter (fun x => x.applies path) (List.filter (fun x => x.name == code) insts)) <;> rfl

theorem applies_nil (i : Inst) (path : List String) (h : i.applicableTo = []) : i.applies path = true := by
  unfold Inst.applies; rw [h]; simp

/-! ### The command-line layer -/

theorem rel_settings (code : String) (path : List String) (s : List (String × Bool)) :
    rel code path (settingsInsts s) = settingsInsts (s.filter (·.1 == code)) := by
  unfold rel settingsInsts
  induction s with
  | nil => rfl
  | cons e es ih =>
    simp only [List.map_cons, List.filter_cons]
    by_cases h : (e.1 == code) = true
    · simp only [h, if_true, List.filter_cons, List.map_cons]
      rw [applies_nil _ path rfl]
      simp only [if_true]
      exact congrArg _ ih
    · simp only [h, Bool.false_eq_true, if_false]
      exact ih

theorem minFirst_settings (s : List (String × Bool)) :
    (minFirst (settingsInsts s)).map (·.value) = (s.head?).map (·.2) := by
  rw [minFirst_all_le]
  · cases s <;> rfl
  · intro x hx y hy
    unfold settingsInsts at hx hy
    obtain ⟨a, _, rfl⟩ := List.mem_map.mp hx
    obtain ⟨b, _, rfl⟩ := List.mem_map.mp hy
    simp [Inst.le]

theorem settings_front (code : String) (path : List String) (s : List (String × Bool)) :
    (minFirst (rel code path (settingsInsts s))).map (·.value) = lookupFirst s code := by
  rw [rel_settings, minFirst_settings, List.head?_filter]; rfl

theorem settingsInsts_cmd {s : List (String × Bool)} {i : Inst} (h : i ∈ settingsInsts s) :
    i.fromCmd = true := by
  unfold settingsInsts at h
  obtain ⟨a, _, rfl⟩ := List.mem_map.mp h
  rfl

theorem mem_rel {code : String} {path : List String} {L : List Inst} {i : Inst} (h : i ∈ rel code path L) :
    i ∈ L := (List.mem_filter.mp (List.mem_filter.mp h).1).1

theorem cmd_le_any {x y : Inst} (hx : x.fromCmd = true) (hx2 : x.priority = 0) (hx3 : x.applicableTo = [])
    (hy : y.fromCmd = false ∨ (y.fromCmd = true ∧ y.priority = 0 ∧ y.applicableTo = [])) : x.le y = true := by
  unfold Inst.le
  rcases hy with hy | ⟨h1, h2, h3⟩
  · simp [hx, hy]
  · simp [hx, h1, hx2, h2, hx3, h3]

/-! ### The configuration-file layers -/

theorem insts_props {f : CfgFile} {p : Nat} {i : Inst} (h : i ∈ f.insts p) :
    i.fromCmd = false ∧ i.priority = p := by
  unfold CfgFile.insts at h
  rcases List.mem_append.mp h with h | h
  · obtain ⟨a, _, rfl⟩ := List.mem_map.mp h; exact ⟨rfl, rfl⟩
  · obtain ⟨o, _, ho⟩ := List.mem_flatMap.mp h
    obtain ⟨a, _, rfl⟩ := List.mem_map.mp ho; exact ⟨rfl, rfl⟩

theorem filesInsts_props : ∀ {fs : List CfgFile} {p : Nat} {i : Inst}, i ∈ filesInsts p fs →
    i.fromCmd = false ∧ p ≤ i.priority
  | [], _, _, h => by cases h
  | f :: fs, p, i, h => by
    unfold filesInsts at h
    rcases List.mem_append.mp h with h | h
    · have := insts_props h; exact ⟨this.1, by omega⟩
    · have := filesInsts_props h; exact ⟨this.1, by omega⟩

def topInsts (f : CfgFile) (p : Nat) : List Inst := f.top.map fun e => { name := e.1, value := e.2, priority := p }
def ovInsts (f : CfgFile) (p : Nat) : List Inst :=
  f.overrides.flatMap fun o => o.2.map fun e => { name := e.1, value := e.2, applicableTo := o.1, priority := p }

theorem top_front (code : String) (path : List String) (f : CfgFile) (p : Nat) :
    (minFirst (rel code path (topInsts f p))).map (·.value) = lookupFirst f.top code := by
  have e : rel code path (topInsts f p) =
      (f.top.filter (·.1 == code)).map fun e => ({ name := e.1, value := e.2, priority := p } : Inst) := by
    unfold rel topInsts
    induction f.top with
    | nil => rfl
    | cons e es ih =>
      simp only [List.map_cons, List.filter_cons]
      by_cases h : (e.1 == code) = true
      · simp only [h, if_true, List.filter_cons, List.map_cons]
        rw [applies_nil _ path rfl]
        simp only [if_true]
        exact congrArg _ ih
      · simp only [h, Bool.false_eq_true, if_false]
        exact ih
  rw [e, minFirst_all_le]
  · unfold lookupFirst
    rw [← List.head?_filter]
    cases f.top.filter (·.1 == code) <;> rfl
  · intro x hx y hy
    obtain ⟨a, _, rfl⟩ := List.mem_map.mp hx
    obtain ⟨b, _, rfl⟩ := List.mem_map.mp hy
    simp [Inst.le]

theorem ov_entries (code : String) (path : List String) (f : CfgFile) (p : Nat) :
    (rel code path (ovInsts f p)).map proj = ovEntries f path code := by
  unfold ovInsts ovEntries
  induction f.overrides with
  | nil => rfl
  | cons o os ih =>
    simp only [List.flatMap_cons, rel_append, List.map_append, ih]
    congr 1
    unfold rel
    simp only [Inst.applies]
    induction o.2 with
    | nil => by_cases h : (path.take o.1.length == o.1) = true <;> simp [h]
    | cons e es ih2 =>
      simp only [List.map_cons, List.filter_cons]
      by_cases hn : (e.1 == code) = true
      · simp only [hn, if_true, List.filter_cons]
        by_cases h : (path.take o.1.length == o.1) = true
        · simp only [h, if_true, List.map_cons, List.filter_cons, hn] at ih2 ⊢
          rw [ih2]; rfl
        · simp only [h, Bool.false_eq_true, if_false] at ih2 ⊢
          exact ih2
      · simp only [hn, Bool.false_eq_true, if_false]
        by_cases h : (path.take o.1.length == o.1) = true
        · simp only [h, if_true, List.filter_cons, hn, Bool.false_eq_true, if_false] at ih2 ⊢
          exact ih2
        · simp only [h, Bool.false_eq_true, if_false] at ih2 ⊢
          exact ih2

theorem insts_split (f : CfgFile) (p : Nat) : f.insts p = topInsts f p ++ ovInsts f p := rfl

theorem ovInsts_props {f : CfgFile} (hwf : f.wf = true) {p : Nat} {i : Inst} (h : i ∈ ovInsts f p) :
    i.fromCmd = false ∧ i.priority = p ∧ 1 ≤ i.applicableTo.length := by
  unfold ovInsts at h
  obtain ⟨o, ho, hi⟩ := List.mem_flatMap.mp h
  obtain ⟨a, _, rfl⟩ := List.mem_map.mp hi
  unfold CfgFile.wf at hwf
  have := List.all_eq_true.mp hwf o ho
  refine ⟨rfl, rfl, ?_⟩
  simp only
  cases h1 : o.1 with
  | nil => rw [h1] at this; simp at this
  | cons a as => simp

/-- One file: the most specific applicable override entry, else the top-level entry. -/
theorem file_front (code : String) (path : List String) (f : CfgFile) (hwf : f.wf = true) (p : Nat) :
    (minFirst (rel code path (f.insts p))).map (·.value) = fileValue f path code := by
  rw [insts_split, rel_append]
  unfold fileValue
  rw [← ov_entries code path f p]
  by_cases hO : rel code path (ovInsts f p) = []
  · rw [hO, List.append_nil, top_front]; rfl
  · rw [minFirst_append_right hO]
    · have hE := minFirst_firstMax p (X := rel code path (ovInsts f p))
        (fun x hx => by have := ovInsts_props hwf (mem_rel hx); exact ⟨this.1, this.2.1⟩)
      rw [← hE]
      cases hm : minFirst (rel code path (ovInsts f p)) with
      | none => exact absurd (minFirst_eq_none hm) hO
      | some m => rfl
    · intro x hx y hy
      have hx' := mem_rel hx
      obtain ⟨hy1, hy2, hy3⟩ := ovInsts_props hwf (mem_rel hy)
      unfold topInsts at hx'
      obtain ⟨a, _, rfl⟩ := List.mem_map.mp hx'
      unfold Inst.le
      simp [hy1, hy2]
      intro e; rw [e] at hy3; simp at hy3

theorem files_front (code : String) (path : List String) : ∀ (fs : List CfgFile) (p : Nat),
    (∀ f ∈ fs, f.wf = true) →
    (minFirst (rel code path (filesInsts p fs))).map (·.value) = filesValue path code fs
  | [], _, _ => rfl
  | f :: fs, p, hwf => by
    unfold filesInsts filesValue
    rw [rel_append, ← file_front code path f (hwf f List.mem_cons_self) p,
      ← files_front code path fs (p + 1) (fun g hg => hwf g (List.mem_cons_of_mem _ hg))]
    by_cases hF : rel code path (f.insts p) = []
    · rw [hF]; rfl
    · rw [minFirst_append_left hF]
      · cases hm : minFirst (rel code path (f.insts p)) with
        | none => exact absurd (minFirst_eq_none hm) hF
        | some m => rfl
      · intro x hx y hy
        have hx' := insts_props (mem_rel hx)
        have hy' := filesInsts_props (mem_rel hy)
        unfold Inst.le
        have : x.priority ≠ y.priority := by omega
        simp [hx'.1, hy'.1, this]
        omega

/-- **The code's lookup is the documented precedence.** -/
theorem enabledStack_spec (s : List (String × Bool)) (files : List CfgFile) (hwf : ∀ f ∈ files, f.wf = true)
    (path : List String) (dflt : String → Bool) (code : String) :
    enabledStack s files path dflt code = specEnabled (lookupFirst s code) files path dflt code := by
  unfold enabledStack stackInsts specEnabled
  rw [isErrorCodeEnabled_eq, rel_append, ← settings_front code path s, ← files_front code path files 0 hwf]
  by_cases hS : rel code path (settingsInsts s) = []
  · rw [hS]; rfl
  · rw [minFirst_append_left hS]
    · cases hm : minFirst (rel code path (settingsInsts s)) with
      | none => exact absurd (minFirst_eq_none hm) hS
      | some m => rfl
    · intro x hx y hy
      have hx' := mem_rel hx
      have hy' := filesInsts_props (mem_rel hy)
      unfold settingsInsts at hx'
      obtain ⟨a, _, rfl⟩ := List.mem_map.mp hx'
      unfold Inst.le
      simp [hy'.1]

/-! ### What `main()` puts into the settings dict -/

theorem lookupFirst_setKey (k : String) (v : Bool) (l : List (String × Bool)) (k' : String) :
    lookupFirst (setKey k v l) k' = if k' = k then some v else lookupFirst l k' := by
  unfold lookupFirst
  induction l with
  | nil =>
    by_cases h : k' = k
    · subst h; simp [setKey]
    · have : (k == k') = false := by simpa using fun e => h e.symm
      simp [setKey, h, this]
  | cons e es ih =>
    unfold setKey
    by_cases he : (e.1 == k) = true
    · have hk : e.1 = k := by simpa using he
      rw [if_pos he]
      by_cases h : k' = k
      · subst h; simp [List.find?_cons, hk]
      · have : (e.1 == k') = false := by rw [hk]; simpa using fun e => h e.symm
        simp [List.find?_cons, this, h]
    · rw [if_neg he]
      simp only [List.find?_cons]
      by_cases h2 : (e.1 == k') = true
      · have hk : e.1 = k' := by simpa using h2
        have : ¬ k' = k := by rw [← hk]; simpa using he
        simp [h2, this]
      · simp only [h2]; exact ih

theorem lookupFirst_foldl (v : Bool) (ks : List String) : ∀ (l : List (String × Bool)) (k' : String),
    lookupFirst (ks.foldl (fun l k => setKey k v l) l) k' = if k' ∈ ks then some v else lookupFirst l k' := by
  induction ks with
  | nil => intro l k'; rfl
  | cons k ks ih =>
    intro l k'
    rw [List.foldl_cons, ih, lookupFirst_setKey]
    by_cases h1 : k' ∈ ks
    · simp [h1]
    · by_cases h2 : k' = k
      · simp [h2]
      · simp [h1, h2]

theorem lookupFirst_const (v : Bool) (cs : List String) (k : String) :
    lookupFirst (cs.map (·, v)) k = if k ∈ cs then some v else none := by
  unfold lookupFirst
  induction cs with
  | nil => rfl
  | cons c cs ih =>
    simp only [List.map_cons, List.find?_cons, List.mem_cons]
    by_cases h : c = k
    · subst h; simp
    · have h1 : (c == k) = false := by simpa using h
      have h2 : ¬ k = c := fun e => h e.symm
      simp only [h1, h2, false_or]; exact ih

/-- The settings dict says about a code what the documented reading of the flags says. -/
theorem settings_value (c : Cli) (allCodes : List String) (code : String) :
    lookupFirst (c.settings allCodes) code = c.value allCodes code := by
  unfold Cli.settings Cli.value
  simp only [lookupFirst_foldl, List.contains_iff_mem]
  by_cases hd : code ∈ c.disable
  · simp [hd]
  · by_cases he : code ∈ c.enable
    · simp [hd, he]
    · simp only [hd, he, if_false]
      have hnil : lookupFirst [] code = none := rfl
      cases c.enableAll <;> cases c.disableAll <;> by_cases ha : code ∈ allCodes <;>
        simp [lookupFirst_const, hnil, ha]

/-- A command-line entry decides, whatever the files (well-formed or not) and the default. -/
theorem cmd_front (s : List (String × Bool)) (files : List CfgFile) (path : List String)
    (dflt : String → Bool) (code : String) (v : Bool) (h : lookupFirst s code = some v) :
    enabledStack s files path dflt code = v := by
  unfold enabledStack stackInsts
  rw [isErrorCodeEnabled_eq, rel_append]
  have hS : rel code path (settingsInsts s) ≠ [] := by
    intro e
    have := settings_front code path s
    rw [e, h] at this
    cases this
  rw [minFirst_append_left hS, settings_front, h]
  · rfl
  · intro x hx y hy
    have hx' := mem_rel hx
    have hy' := filesInsts_props (mem_rel hy)
    unfold settingsInsts at hx'
    obtain ⟨a, _, rfl⟩ := List.mem_map.mp hx'
    unfold Inst.le
    simp [hy'.1]

end Pya.C11
