import PyaModel.Spec.Total
/-!
# Proofs/C12 — helper lemmas for Props/C12.lean
-/
namespace Pya.C12
open Pya Pya.C11

/-! ## A. the annotation visitor -/

mutual
theorem oldAnnVisit_ok (sup : String → Bool) : ∀ e : AExpr, AExpr.hasUnsupported sup e = false →
    ∃ c, oldAnnVisit sup e = .ok c
  | .name c, h => by simp [AExpr.hasUnsupported] at h; exact ⟨c, by simp [oldAnnVisit, h]⟩
  | .const, h => by simp [AExpr.hasUnsupported] at h; exact ⟨none, by simp [oldAnnVisit, h]⟩
  | .attr v c, h => by
    simp [AExpr.hasUnsupported] at h
    obtain ⟨c', hc'⟩ := oldAnnVisit_ok sup v h.2
    exact ⟨c, by simp [oldAnnVisit, h.1, hc']⟩
  | .sub v s, h => by
    simp [AExpr.hasUnsupported] at h
    obtain ⟨c1, h1⟩ := oldAnnVisit_ok sup v h.1.2
    obtain ⟨c2, h2⟩ := oldAnnVisit_ok sup s h.2
    exact ⟨none, by simp [oldAnnVisit, h.1.1, h1, h2]⟩
  | .tuple es, h => by
    simp [AExpr.hasUnsupported] at h
    exact ⟨none, by simp [oldAnnVisit, h.1, oldAnnVisitL_ok sup es h.2]⟩
  | .list es, h => by
    simp [AExpr.hasUnsupported] at h
    exact ⟨none, by simp [oldAnnVisit, h.1, oldAnnVisitL_ok sup es h.2]⟩
  | .set es, h => by
    simp [AExpr.hasUnsupported] at h
    exact ⟨none, by simp [oldAnnVisit, h.1, oldAnnVisitL_ok sup es h.2]⟩
  | .dict ks vs, h => by
    simp [AExpr.hasUnsupported] at h
    exact ⟨none, by simp [oldAnnVisit, h.1.1, oldAnnVisitL_ok sup ks h.1.2, oldAnnVisitL_ok sup vs h.2]⟩
  | .binop b l r, h => by
    simp [AExpr.hasUnsupported] at h
    obtain ⟨c1, h1⟩ := oldAnnVisit_ok sup l h.1.2
    obtain ⟨c2, h2⟩ := oldAnnVisit_ok sup r h.2
    exact ⟨none, by cases b <;> simp [oldAnnVisit, h.1.1, h1, h2]⟩
  | .unary b e, h => by
    simp [AExpr.hasUnsupported] at h
    obtain ⟨c1, h1⟩ := oldAnnVisit_ok sup e h.2
    exact ⟨none, by cases b <;> simp [oldAnnVisit, h.1, h1]⟩
  | .call f as ks, h => by
    simp [AExpr.hasUnsupported] at h
    obtain ⟨c1, h1⟩ := oldAnnVisit_ok sup f h.1.1.2
    have ha := oldAnnVisitL_ok sup as h.1.2
    have hk := oldAnnVisitL_ok sup ks h.2
    refine ⟨none, ?_⟩
    rcases c1 with _ | c1
    · simp [oldAnnVisit, h.1.1.1, h1]
    · cases c1 <;> simp [oldAnnVisit, h.1.1.1, h1, ha, hk]
  | .other k, h => by simp [AExpr.hasUnsupported] at h; exact ⟨none, by simp [oldAnnVisit, h]⟩
theorem oldAnnVisitL_ok (sup : String → Bool) : ∀ es : List AExpr, AExpr.hasUnsupportedL sup es = false →
    oldAnnVisitL sup es = none
  | [], _ => by simp [oldAnnVisitL]
  | e :: es, h => by
    simp [AExpr.hasUnsupportedL] at h
    obtain ⟨c, hc⟩ := oldAnnVisit_ok sup e h.1
    simp [oldAnnVisitL, hc, oldAnnVisitL_ok sup es h.2]
end

/-- a visit either returns or raises -/
theorem Res.cases' (r : Res) : (∃ k, r = .raise k) ∨ (∃ c, r = .ok c) := by
  cases r with
  | raise k => exact .inl ⟨k, rfl⟩
  | ok c => exact .inr ⟨c, rfl⟩

mutual
theorem oldAnnVisit_raise (sup : String → Bool) : ∀ (e : AExpr) (k : String), oldAnnVisit sup e = .raise k →
    sup k = false ∧ k ∈ AExpr.kinds e
  | .name c, k, h => by
    by_cases hs : sup "Name" = true <;> simp [oldAnnVisit, hs] at h
    subst h; simp [AExpr.kinds]; simpa using hs
  | .const, k, h => by
    by_cases hs : sup "Constant" = true <;> simp [oldAnnVisit, hs] at h
    subst h; simp [AExpr.kinds]; simpa using hs
  | .attr v c, k, h => by
    by_cases hs : sup "Attribute" = true
    · simp [oldAnnVisit, hs] at h
      rcases Res.cases' (oldAnnVisit sup v) with ⟨k', hk⟩ | ⟨c', hk⟩ <;> simp [hk] at h
      subst h
      have := oldAnnVisit_raise sup v k' hk
      exact ⟨this.1, by simp [AExpr.kinds, this.2]⟩
    · simp [oldAnnVisit, hs] at h; subst h; simp [AExpr.kinds]; simpa using hs
  | .sub v s, k, h => by
    by_cases hs : sup "Subscript" = true
    · simp [oldAnnVisit, hs] at h
      rcases Res.cases' (oldAnnVisit sup v) with ⟨k', hk⟩ | ⟨c', hk⟩ <;> simp [hk] at h
      · subst h
        have := oldAnnVisit_raise sup v k' hk
        exact ⟨this.1, by simp [AExpr.kinds, this.2]⟩
      · rcases Res.cases' (oldAnnVisit sup s) with ⟨k', hk2⟩ | ⟨c', hk2⟩ <;> simp [hk2] at h
        subst h
        have := oldAnnVisit_raise sup s k' hk2
        exact ⟨this.1, by simp [AExpr.kinds, this.2]⟩
    · simp [oldAnnVisit, hs] at h; subst h; simp [AExpr.kinds]; simpa using hs
  | .tuple es, k, h => by
    by_cases hs : sup "Tuple" = true
    · simp [oldAnnVisit, hs] at h
      cases hl : oldAnnVisitL sup es with
      | none => simp [hl] at h
      | some k' =>
        simp [hl] at h; subst h
        have := oldAnnVisitL_raise sup es k' hl
        exact ⟨this.1, by simp [AExpr.kinds, this.2]⟩
    · simp [oldAnnVisit, hs] at h; subst h; simp [AExpr.kinds]; simpa using hs
  | .list es, k, h => by
    by_cases hs : sup "List" = true
    · simp [oldAnnVisit, hs] at h
      cases hl : oldAnnVisitL sup es with
      | none => simp [hl] at h
      | some k' =>
        simp [hl] at h; subst h
        have := oldAnnVisitL_raise sup es k' hl
        exact ⟨this.1, by simp [AExpr.kinds, this.2]⟩
    · simp [oldAnnVisit, hs] at h; subst h; simp [AExpr.kinds]; simpa using hs
  | .set es, k, h => by
    by_cases hs : sup "Set" = true
    · simp [oldAnnVisit, hs] at h
      cases hl : oldAnnVisitL sup es with
      | none => simp [hl] at h
      | some k' =>
        simp [hl] at h; subst h
        have := oldAnnVisitL_raise sup es k' hl
        exact ⟨this.1, by simp [AExpr.kinds, this.2]⟩
    · simp [oldAnnVisit, hs] at h; subst h; simp [AExpr.kinds]; simpa using hs
  | .dict ks vs, k, h => by
    by_cases hs : sup "Dict" = true
    · simp [oldAnnVisit, hs] at h
      cases hl : oldAnnVisitL sup ks with
      | some k' =>
        simp [hl] at h; subst h
        have := oldAnnVisitL_raise sup ks k' hl
        exact ⟨this.1, by simp [AExpr.kinds, this.2]⟩
      | none =>
        simp [hl] at h
        cases hv : oldAnnVisitL sup vs with
        | none => simp [hv] at h
        | some k' =>
          simp [hv] at h; subst h
          have := oldAnnVisitL_raise sup vs k' hv
          exact ⟨this.1, by simp [AExpr.kinds, this.2]⟩
    · simp [oldAnnVisit, hs] at h; subst h; simp [AExpr.kinds]; simpa using hs
  | .binop b l r, k, h => by
    by_cases hs : sup "BinOp" = true
    · cases b
      · simp [oldAnnVisit, hs] at h
      · simp [oldAnnVisit, hs] at h
        rcases Res.cases' (oldAnnVisit sup l) with ⟨k', hk⟩ | ⟨c', hk⟩ <;> simp [hk] at h
        · subst h
          have := oldAnnVisit_raise sup l k' hk
          exact ⟨this.1, by simp [AExpr.kinds, this.2]⟩
        · rcases Res.cases' (oldAnnVisit sup r) with ⟨k', hk2⟩ | ⟨c', hk2⟩ <;> simp [hk2] at h
          subst h
          have := oldAnnVisit_raise sup r k' hk2
          exact ⟨this.1, by simp [AExpr.kinds, this.2]⟩
    · simp [oldAnnVisit, hs] at h; subst h; simp [AExpr.kinds]; simpa using hs
  | .unary b e, k, h => by
    by_cases hs : sup "UnaryOp" = true
    · cases b
      · simp [oldAnnVisit, hs] at h
      · simp [oldAnnVisit, hs] at h
        rcases Res.cases' (oldAnnVisit sup e) with ⟨k', hk⟩ | ⟨c', hk⟩ <;> simp [hk] at h
        subst h
        have := oldAnnVisit_raise sup e k' hk
        exact ⟨this.1, by simp [AExpr.kinds, this.2]⟩
    · simp [oldAnnVisit, hs] at h; subst h; simp [AExpr.kinds]; simpa using hs
  | .call f as ks, k, h => by
    by_cases hs : sup "Call" = true
    · have key : ∀ k', (oldAnnVisitL sup as = some k' ∨ oldAnnVisitL sup ks = some k') →
          sup k' = false ∧ k' ∈ AExpr.kinds (.call f as ks) := by
        intro k' h'
        rcases h' with h' | h'
        · have := oldAnnVisitL_raise sup as k' h'
          exact ⟨this.1, by simp [AExpr.kinds, this.2]⟩
        · have := oldAnnVisitL_raise sup ks k' h'
          exact ⟨this.1, by simp [AExpr.kinds, this.2]⟩
      rcases Res.cases' (oldAnnVisit sup f) with ⟨k', hk⟩ | ⟨c', hk⟩
      · simp [oldAnnVisit, hs, hk] at h; subst h
        have := oldAnnVisit_raise sup f k' hk
        exact ⟨this.1, by simp [AExpr.kinds, this.2]⟩
      · rcases c' with _ | c'
        · simp [oldAnnVisit, hs, hk] at h
        · cases ha : oldAnnVisitL sup as with
          | some k' =>
            cases c' with
            | deprecated =>
              by_cases hke : ks = []
              · simp [oldAnnVisit, hs, hk, ha, hke] at h; subst h; exact key _ (.inl ha)
              · simp [oldAnnVisit, hs, hk, hke] at h
            | newType => simp [oldAnnVisit, hs, hk, ha] at h; subst h; exact key _ (.inl ha)
            | typeVar => simp [oldAnnVisit, hs, hk, ha] at h; subst h; exact key _ (.inl ha)
            | paramSpec => simp [oldAnnVisit, hs, hk, ha] at h; subst h; exact key _ (.inl ha)
          | none =>
            cases hk2 : oldAnnVisitL sup ks with
            | some k' =>
              cases c' <;> simp [oldAnnVisit, hs, hk, ha, hk2] at h
              all_goals (subst h; exact key _ (.inr hk2))
            | none => cases c' <;> simp [oldAnnVisit, hs, hk, ha, hk2] at h
    · simp [oldAnnVisit, hs] at h; subst h; simp [AExpr.kinds]; simpa using hs
  | .other k0, k, h => by
    by_cases hs : sup k0 = true <;> simp [oldAnnVisit, hs] at h
    subst h; simp [AExpr.kinds]; simpa using hs
theorem oldAnnVisitL_raise (sup : String → Bool) : ∀ (es : List AExpr) (k : String), oldAnnVisitL sup es = some k →
    sup k = false ∧ k ∈ AExpr.kindsL es
  | [], k, h => by simp [oldAnnVisitL] at h
  | e :: es, k, h => by
    rcases Res.cases' (oldAnnVisit sup e) with ⟨k', hk⟩ | ⟨c', hk⟩
    · simp [oldAnnVisitL, hk] at h; subst h
      have := oldAnnVisit_raise sup e k' hk
      exact ⟨this.1, by simp [AExpr.kindsL, this.2]⟩
    · simp [oldAnnVisitL, hk] at h
      have := oldAnnVisitL_raise sup es k h
      exact ⟨this.1, by simp [AExpr.kindsL, this.2]⟩
end

/-! ## A'. the visitor since fix 9c1e869 (reports instead of raising) -/

mutual
theorem annVisit_errors (sup : String → Bool) : ∀ (e : AExpr) (k : String), k ∈ (annVisit sup e).1 →
    sup k = false ∧ k ∈ AExpr.kinds e
  | .name c, k, h => by
    by_cases hs : sup "Name" = true <;> simp [annVisit, hs] at h
    subst h; simp [AExpr.kinds]; simpa using hs
  | .const, k, h => by
    by_cases hs : sup "Constant" = true <;> simp [annVisit, hs] at h
    subst h; simp [AExpr.kinds]; simpa using hs
  | .attr v c, k, h => by
    by_cases hs : sup "Attribute" = true
    · simp [annVisit, hs] at h
      have := annVisit_errors sup v k h
      exact ⟨this.1, by simp [AExpr.kinds, this.2]⟩
    · simp [annVisit, hs] at h; subst h; simp [AExpr.kinds]; simpa using hs
  | .sub v s, k, h => by
    by_cases hs : sup "Subscript" = true
    · simp [annVisit, hs] at h
      rcases h with h | h
      · have := annVisit_errors sup v k h; exact ⟨this.1, by simp [AExpr.kinds, this.2]⟩
      · have := annVisit_errors sup s k h; exact ⟨this.1, by simp [AExpr.kinds, this.2]⟩
    · simp [annVisit, hs] at h; subst h; simp [AExpr.kinds]; simpa using hs
  | .tuple es, k, h => by
    by_cases hs : sup "Tuple" = true
    · simp [annVisit, hs] at h
      have := annVisitL_errors sup es k h; exact ⟨this.1, by simp [AExpr.kinds, this.2]⟩
    · simp [annVisit, hs] at h; subst h; simp [AExpr.kinds]; simpa using hs
  | .list es, k, h => by
    by_cases hs : sup "List" = true
    · simp [annVisit, hs] at h
      have := annVisitL_errors sup es k h; exact ⟨this.1, by simp [AExpr.kinds, this.2]⟩
    · simp [annVisit, hs] at h; subst h; simp [AExpr.kinds]; simpa using hs
  | .set es, k, h => by
    by_cases hs : sup "Set" = true
    · simp [annVisit, hs] at h
      have := annVisitL_errors sup es k h; exact ⟨this.1, by simp [AExpr.kinds, this.2]⟩
    · simp [annVisit, hs] at h; subst h; simp [AExpr.kinds]; simpa using hs
  | .dict ks vs, k, h => by
    by_cases hs : sup "Dict" = true
    · simp [annVisit, hs] at h
      rcases h with h | h
      · have := annVisitL_errors sup ks k h; exact ⟨this.1, by simp [AExpr.kinds, this.2]⟩
      · have := annVisitL_errors sup vs k h; exact ⟨this.1, by simp [AExpr.kinds, this.2]⟩
    · simp [annVisit, hs] at h; subst h; simp [AExpr.kinds]; simpa using hs
  | .binop b l r, k, h => by
    by_cases hs : sup "BinOp" = true
    · cases b <;> simp [annVisit, hs] at h
      rcases h with h | h
      · have := annVisit_errors sup l k h; exact ⟨this.1, by simp [AExpr.kinds, this.2]⟩
      · have := annVisit_errors sup r k h; exact ⟨this.1, by simp [AExpr.kinds, this.2]⟩
    · simp [annVisit, hs] at h; subst h; simp [AExpr.kinds]; simpa using hs
  | .unary b e, k, h => by
    by_cases hs : sup "UnaryOp" = true
    · cases b <;> simp [annVisit, hs] at h
      have := annVisit_errors sup e k h; exact ⟨this.1, by simp [AExpr.kinds, this.2]⟩
    · simp [annVisit, hs] at h; subst h; simp [AExpr.kinds]; simpa using hs
  | .call f as ks, k, h => by
    by_cases hs : sup "Call" = true
    · have hf : ∀ k', k' ∈ (annVisit sup f).1 → sup k' = false ∧ k' ∈ AExpr.kinds (.call f as ks) := fun k' h' => by
        have := annVisit_errors sup f k' h'; exact ⟨this.1, by simp [AExpr.kinds, this.2]⟩
      have ha : ∀ k', k' ∈ annVisitL sup as → sup k' = false ∧ k' ∈ AExpr.kinds (.call f as ks) := fun k' h' => by
        have := annVisitL_errors sup as k' h'; exact ⟨this.1, by simp [AExpr.kinds, this.2]⟩
      have hk : ∀ k', k' ∈ annVisitL sup ks → sup k' = false ∧ k' ∈ AExpr.kinds (.call f as ks) := fun k' h' => by
        have := annVisitL_errors sup ks k' h'; exact ⟨this.1, by simp [AExpr.kinds, this.2]⟩
      simp only [annVisit, hs, if_true] at h
      rcases hv : annVisit sup f with ⟨ef, cf⟩
      rw [hv] at h hf
      rcases cf with _ | cf
      · exact hf k h
      · cases cf
        case deprecated =>
          by_cases hke : ks.isEmpty = true
          · simp [hke] at h; rcases h with h | h
            · exact hf k h
            · exact ha k h
          · simp [hke] at h; exact hf k h
        all_goals
          simp at h
          rcases h with h | h | h
          · exact hf k h
          · exact ha k h
          · exact hk k h
    · simp [annVisit, hs] at h; subst h; simp [AExpr.kinds]; simpa using hs
  | .other k0, k, h => by
    by_cases hs : sup k0 = true <;> simp [annVisit, hs] at h
    subst h; simp [AExpr.kinds]; simpa using hs
theorem annVisitL_errors (sup : String → Bool) : ∀ (es : List AExpr) (k : String), k ∈ annVisitL sup es →
    sup k = false ∧ k ∈ AExpr.kindsL es
  | [], k, h => by simp [annVisitL] at h
  | e :: es, k, h => by
    simp [annVisitL] at h
    rcases h with h | h
    · have := annVisit_errors sup e k h; exact ⟨this.1, by simp [AExpr.kindsL, this.2]⟩
    · have := annVisitL_errors sup es k h; exact ⟨this.1, by simp [AExpr.kindsL, this.2]⟩
end


/-- the old visitor's outcome, read off the new one: a raise is the first error now reported; a value
comes back unchanged and without errors -/
def agrees (o : Res) (n : List String × Option Ctor) : Prop :=
  match o with
  | .raise k => ∃ rest, n.1 = k :: rest
  | .ok c => n = ([], c)

mutual
theorem old_new (sup : String → Bool) : ∀ e : AExpr, agrees (oldAnnVisit sup e) (annVisit sup e)
  | .name c => by by_cases hs : sup "Name" = true <;> simp [oldAnnVisit, annVisit, hs, agrees]
  | .const => by by_cases hs : sup "Constant" = true <;> simp [oldAnnVisit, annVisit, hs, agrees]
  | .attr v c => by
    by_cases hs : sup "Attribute" = true
    · have iv := old_new sup v
      rcases Res.cases' (oldAnnVisit sup v) with ⟨k, hk⟩ | ⟨c', hk⟩ <;> rw [hk] at iv <;> simp only [agrees] at iv
      · obtain ⟨rest, hr⟩ := iv
        simp [oldAnnVisit, annVisit, hs, hk, agrees, hr]
      · simp [oldAnnVisit, annVisit, hs, hk, agrees, iv]
    · simp [oldAnnVisit, annVisit, hs, agrees]
  | .sub v s => by
    by_cases hs : sup "Subscript" = true
    · have iv := old_new sup v
      have is_ := old_new sup s
      rcases Res.cases' (oldAnnVisit sup v) with ⟨k, hk⟩ | ⟨c', hk⟩ <;> rw [hk] at iv <;> simp only [agrees] at iv
      · obtain ⟨rest, hr⟩ := iv
        simp [oldAnnVisit, annVisit, hs, hk, agrees, hr]
      · rcases Res.cases' (oldAnnVisit sup s) with ⟨k, hk2⟩ | ⟨c2, hk2⟩ <;> rw [hk2] at is_ <;> simp only [agrees] at is_
        · obtain ⟨rest, hr⟩ := is_
          simp [oldAnnVisit, annVisit, hs, hk, hk2, agrees, iv, hr]
        · simp [oldAnnVisit, annVisit, hs, hk, hk2, agrees, iv, is_]
    · simp [oldAnnVisit, annVisit, hs, agrees]
  | .tuple es => by
    by_cases hs : sup "Tuple" = true
    · have il := old_newL sup es
      cases hl : oldAnnVisitL sup es with
      | none => rw [hl] at il; simp [oldAnnVisit, annVisit, hs, hl, agrees, il]
      | some k => rw [hl] at il; obtain ⟨rest, hr⟩ := il; simp [oldAnnVisit, annVisit, hs, hl, agrees, hr]
    · simp [oldAnnVisit, annVisit, hs, agrees]
  | .list es => by
    by_cases hs : sup "List" = true
    · have il := old_newL sup es
      cases hl : oldAnnVisitL sup es with
      | none => rw [hl] at il; simp [oldAnnVisit, annVisit, hs, hl, agrees, il]
      | some k => rw [hl] at il; obtain ⟨rest, hr⟩ := il; simp [oldAnnVisit, annVisit, hs, hl, agrees, hr]
    · simp [oldAnnVisit, annVisit, hs, agrees]
  | .set es => by
    by_cases hs : sup "Set" = true
    · have il := old_newL sup es
      cases hl : oldAnnVisitL sup es with
      | none => rw [hl] at il; simp [oldAnnVisit, annVisit, hs, hl, agrees, il]
      | some k => rw [hl] at il; obtain ⟨rest, hr⟩ := il; simp [oldAnnVisit, annVisit, hs, hl, agrees, hr]
    · simp [oldAnnVisit, annVisit, hs, agrees]
  | .dict ks vs => by
    by_cases hs : sup "Dict" = true
    · have ik := old_newL sup ks
      have iv := old_newL sup vs
      cases hl : oldAnnVisitL sup ks with
      | some k => rw [hl] at ik; obtain ⟨rest, hr⟩ := ik; simp [oldAnnVisit, annVisit, hs, hl, agrees, hr]
      | none =>
        rw [hl] at ik
        cases hv : oldAnnVisitL sup vs with
        | none => rw [hv] at iv; simp [oldAnnVisit, annVisit, hs, hl, hv, agrees, ik, iv]
        | some k => rw [hv] at iv; obtain ⟨rest, hr⟩ := iv; simp [oldAnnVisit, annVisit, hs, hl, hv, agrees, ik, hr]
    · simp [oldAnnVisit, annVisit, hs, agrees]
  | .binop b l r => by
    by_cases hs : sup "BinOp" = true
    · cases b
      · simp [oldAnnVisit, annVisit, hs, agrees]
      · have il := old_new sup l
        have ir := old_new sup r
        rcases Res.cases' (oldAnnVisit sup l) with ⟨k, hk⟩ | ⟨c', hk⟩ <;> rw [hk] at il <;> simp only [agrees] at il
        · obtain ⟨rest, hr⟩ := il
          simp [oldAnnVisit, annVisit, hs, hk, agrees, hr]
        · rcases Res.cases' (oldAnnVisit sup r) with ⟨k, hk2⟩ | ⟨c2, hk2⟩ <;> rw [hk2] at ir <;> simp only [agrees] at ir
          · obtain ⟨rest, hr⟩ := ir
            simp [oldAnnVisit, annVisit, hs, hk, hk2, agrees, il, hr]
          · simp [oldAnnVisit, annVisit, hs, hk, hk2, agrees, il, ir]
    · simp [oldAnnVisit, annVisit, hs, agrees]
  | .unary b e => by
    by_cases hs : sup "UnaryOp" = true
    · cases b
      · simp [oldAnnVisit, annVisit, hs, agrees]
      · have ie := old_new sup e
        rcases Res.cases' (oldAnnVisit sup e) with ⟨k, hk⟩ | ⟨c', hk⟩ <;> rw [hk] at ie <;> simp only [agrees] at ie
        · obtain ⟨rest, hr⟩ := ie
          simp [oldAnnVisit, annVisit, hs, hk, agrees, hr]
        · simp [oldAnnVisit, annVisit, hs, hk, agrees, ie]
    · simp [oldAnnVisit, annVisit, hs, agrees]
  | .call f as ks => by
    by_cases hs : sup "Call" = true
    · have if_ := old_new sup f
      have ia := old_newL sup as
      have ik := old_newL sup ks
      rcases Res.cases' (oldAnnVisit sup f) with ⟨k, hk⟩ | ⟨c', hk⟩ <;> rw [hk] at if_ <;> simp only [agrees] at if_
      · obtain ⟨rest, hr⟩ := if_
        rcases hv : annVisit sup f with ⟨ef, cf⟩
        rw [hv] at hr; simp at hr; subst hr
        rcases cf with _ | cf
        · simp [oldAnnVisit, annVisit, hs, hk, hv, agrees]
        · cases cf <;> by_cases hke : ks.isEmpty = true <;> simp [oldAnnVisit, annVisit, hs, hk, hv, agrees, hke]
      · rcases c' with _ | c'
        · simp [oldAnnVisit, annVisit, hs, hk, if_, agrees]
        · cases ha : oldAnnVisitL sup as with
          | some k =>
            rw [ha] at ia; obtain ⟨rest, hr⟩ := ia
            cases c' <;> by_cases hke : ks = [] <;> simp [oldAnnVisit, annVisit, hs, hk, if_, ha, agrees, hr, hke]
          | none =>
            rw [ha] at ia
            cases hk2 : oldAnnVisitL sup ks with
            | some k =>
              rw [hk2] at ik; obtain ⟨rest, hr⟩ := ik
              have hne : ks ≠ [] := by intro h0; subst h0; simp [oldAnnVisitL] at hk2
              cases c' <;> simp [oldAnnVisit, annVisit, hs, hk, if_, ha, hk2, agrees, ia, hr, hne]
            | none =>
              rw [hk2] at ik
              simp only at ia ik
              cases c' <;> by_cases hke : ks = [] <;>
                simp [oldAnnVisit, annVisit, hs, hk, if_, ha, hk2, agrees, ia, ik, hke, oldAnnVisitL, annVisitL]
    · simp [oldAnnVisit, annVisit, hs, agrees]
  | .other k0 => by by_cases hs : sup k0 = true <;> simp [oldAnnVisit, annVisit, hs, agrees]
theorem old_newL (sup : String → Bool) : ∀ es : List AExpr,
    (match oldAnnVisitL sup es with
     | some k => ∃ rest, annVisitL sup es = k :: rest
     | none => annVisitL sup es = [])
  | [] => by simp [oldAnnVisitL, annVisitL]
  | e :: es => by
    have ie := old_new sup e
    have il := old_newL sup es
    rcases Res.cases' (oldAnnVisit sup e) with ⟨k, hk⟩ | ⟨c', hk⟩ <;> rw [hk] at ie <;> simp only [agrees] at ie
    · obtain ⟨rest, hr⟩ := ie
      simp [oldAnnVisitL, annVisitL, hk, hr]
    · cases hl : oldAnnVisitL sup es with
      | none => rw [hl] at il; simp [oldAnnVisitL, annVisitL, hk, hl, ie, il]
      | some k => rw [hl] at il; obtain ⟨rest, hr⟩ := il; simp [oldAnnVisitL, annVisitL, hk, hl, ie, hr]
end


theorem annVisit_clean (sup : String → Bool) (e : AExpr) (h : AExpr.hasUnsupported sup e = false) :
    ∃ c, annVisit sup e = ([], c) := by
  obtain ⟨c, hc⟩ := oldAnnVisit_ok sup e h
  have := old_new sup e
  rw [hc] at this
  exact ⟨c, this⟩

/-! ## C. measures on value terms -/

theorem tsize_pos (t : Ty) : 0 < tsize t := by cases t <;> simp [tsize] <;> omega
theorem tw_pos (t : Ty) : 2 ≤ tw t ∨ (∃ u, t = .annotated u) ∨ 1 ≤ tw t := by
  cases t <;> simp [tw] <;> omega
theorem tdepth_pos (t : Ty) : 0 < tdepth t := by cases t <;> simp [tdepth] <;> omega

theorem tsize_le_sizeL {c : Ty} : ∀ {ts : List Ty}, c ∈ ts → tsize c ≤ tsizeL ts
  | [], h => by cases h
  | t :: ts, h => by
    rcases List.mem_cons.1 h with rfl | h
    · simp [tsizeL]
    · have := tsize_le_sizeL h; simp [tsizeL]; omega

theorem tdepth_le_depthL {c : Ty} : ∀ {ts : List Ty}, c ∈ ts → tdepth c ≤ tdepthL ts
  | [], h => by cases h
  | t :: ts, h => by
    rcases List.mem_cons.1 h with rfl | h
    · simp [tdepthL]; omega
    · have := tdepth_le_depthL h; simp [tdepthL]; omega

theorem child_size_lt {c t : Ty} (h : c ∈ tchildren t) : tsize c < tsize t := by
  cases t <;> simp [tchildren] at h
  case generic cl as => have := tsize_le_sizeL h; simp [tsize]; omega
  case seq cl ms => have := tsize_le_sizeL h; simp [tsize]; omega
  case many u => subst h; simp [tsize]
  case union ts => have := tsize_le_sizeL h; simp [tsize]; omega
  case annotated u => subst h; simp [tsize]

theorem child_depth_lt {c t : Ty} (h : c ∈ tchildren t) : tdepth c < tdepth t := by
  cases t <;> simp [tchildren] at h
  case generic cl as => have := tdepth_le_depthL h; simp [tdepth]; omega
  case seq cl ms => have := tdepth_le_depthL h; simp [tdepth]; omega
  case many u => subst h; simp [tdepth]
  case union ts => have := tdepth_le_depthL h; simp [tdepth]; omega
  case annotated u => subst h; simp [tdepth]

/-! ### `flatten_values` and the de-duplication never add anything -/

theorem twL_append (xs ys : List Ty) : twL (xs ++ ys) = twL xs + twL ys := by
  induction xs with
  | nil => simp [twL]
  | cons x xs ih => simp [twL, ih]; omega

theorem tw_annotate (t : Ty) : tw (annotate t) = tw t := by
  cases t <;> simp [annotate, tw]

theorem twL_map_annotate (ts : List Ty) : twL (ts.map annotate) = twL ts := by
  induction ts with
  | nil => simp [twL]
  | cons t ts ih => simp [twL, ih, tw_annotate]

theorem twL_flatten1 (v : Ty) : twL (flatten1 v) ≤ tw v := by
  cases v with
  | union ts => simp [flatten1, tw]
  | annotated u =>
    cases u with
    | union ts => simp [flatten1, tw, twL_map_annotate]
    | _ => simp [flatten1, tw, twL]
  | _ => simp [flatten1, tw, twL]

theorem twL_flatMap_flatten1 (vs : List Ty) : twL (vs.flatMap flatten1) ≤ twL vs := by
  induction vs with
  | nil => simp [twL]
  | cons v vs ih =>
    simp [List.flatMap_cons, twL_append, twL]
    have := twL_flatten1 v
    omega

theorem dedup_sub : ∀ (l acc : List Ty) (x : Ty), x ∈ dedup acc l → x ∈ acc ∨ x ∈ l
  | [], acc, x, h => by simp [dedup] at h; exact .inl h
  | v :: vs, acc, x, h => by
    simp only [dedup] at h
    split at h
    · rcases dedup_sub vs acc x h with h | h
      · exact .inl h
      · exact .inr (List.mem_cons_of_mem _ h)
    · rcases dedup_sub vs (acc ++ [v]) x h with h | h
      · rcases List.mem_append.1 h with h | h
        · exact .inl h
        · simp at h; subst h; exact .inr (List.mem_cons_self ..)
      · exact .inr (List.mem_cons_of_mem _ h)

theorem dedup_length : ∀ (l acc : List Ty), (dedup acc l).length ≤ acc.length + l.length
  | [], acc => by simp [dedup]
  | v :: vs, acc => by
    simp only [dedup]
    split
    · have := dedup_length vs acc; simp; omega
    · have := dedup_length vs (acc ++ [v]); simp at this ⊢; omega

theorem dedup_twL : ∀ (l acc : List Ty), twL (dedup acc l) ≤ twL acc + twL l
  | [], acc => by simp [dedup, twL]
  | v :: vs, acc => by
    simp only [dedup]
    split
    · have := dedup_twL vs acc; simp [twL]; omega
    · have := dedup_twL vs (acc ++ [v]); simp [twL, twL_append] at this ⊢; omega

theorem unite_eq_pack (vs : List Ty) : unite vs = pack (uniteList vs) := by
  simp only [unite, uniteList]
  generalize dedup [] (vs.flatMap flatten1) = l
  rcases l with _ | ⟨a, _ | ⟨b, l⟩⟩ <;> rfl

theorem tw_unite_le (vs : List Ty) : tw (unite vs) ≤ 1 + twL vs := by
  have h1 := dedup_twL (vs.flatMap flatten1) []
  have h2 := twL_flatMap_flatten1 vs
  simp only [unite]
  split
  · simp [tw, twL]
  · rename_i v heq; rw [heq] at h1; simp [twL] at h1; omega
  · rename_i l h3 h4; simp [tw]; simp [twL] at h1; omega

/-! ### substitution -/

theorem mapBound_pos : ∀ m : TvMap, 1 ≤ mapBound m
  | [] => by simp [mapBound]
  | (_, t) :: m => by have := mapBound_pos m; simp [mapBound]; omega

theorem get_le_mapBound : ∀ (m : TvMap) (i : Nat) (t : Ty), TvMap.get m i = some t → tw t ≤ mapBound m
  | [], i, t, h => by simp [TvMap.get] at h
  | (j, u) :: m, i, t, h => by
    simp only [TvMap.get, List.find?] at h
    by_cases hj : (j == i) = true
    · simp [hj] at h; subst h; simp [mapBound]; omega
    · simp [hj] at h
      have := get_le_mapBound m i t (by simpa [TvMap.get] using h)
      simp [mapBound]; omega

theorem get_le_mapDepth : ∀ (m : TvMap) (i : Nat) (t : Ty), TvMap.get m i = some t → tdepth t ≤ mapDepth m
  | [], i, t, h => by simp [TvMap.get] at h
  | (j, u) :: m, i, t, h => by
    simp only [TvMap.get, List.find?] at h
    by_cases hj : (j == i) = true
    · simp [hj] at h; subst h; simp [mapDepth]; omega
    · simp [hj] at h
      have := get_le_mapDepth m i t (by simpa [TvMap.get] using h)
      simp [mapDepth]; omega

theorem tw_mkUnion_le (vs : List Ty) : tw (mkUnion vs) ≤ 1 + twL vs := by
  have := twL_flatMap_flatten1 vs
  simp [mkUnion, tw]; omega

mutual
theorem tw_subst_le (m : TvMap) : ∀ t : Ty, tw (subst m t) ≤ tw t * mapBound m
  | .tvar i => by
    have hb := mapBound_pos m
    simp only [subst, tw]
    cases hg : TvMap.get m i with
    | none => simp [tw]; omega
    | some u => have := get_le_mapBound m i u hg; simp; omega
  | .generic c as => by
    have hb := mapBound_pos m
    have := twL_substL_le m as
    simp only [subst, tw, Nat.add_mul]; omega
  | .seq c ms => by
    have hb := mapBound_pos m
    have := twL_substL_le m ms
    simp only [subst, tw, Nat.add_mul]; omega
  | .many t => by
    have hb := mapBound_pos m
    have := tw_subst_le m t
    simp only [subst, tw, Nat.add_mul]; omega
  | .union ts => by
    have hb := mapBound_pos m
    simp only [subst]
    split
    · simp only [tw, Nat.add_mul]
      have : twL ts ≤ twL ts * mapBound m := Nat.le_mul_of_pos_right _ hb
      omega
    · have h1 := tw_mkUnion_le (substL m ts)
      have h2 := twL_substL_le m ts
      simp only [tw, Nat.add_mul]; omega
  | .annotated t => by
    have := tw_subst_le m t
    simpa [subst, tw] using this
  | .any => by have hb := mapBound_pos m; simp [subst, tw]; omega
  | .known o => by have hb := mapBound_pos m; simp [subst, tw]; omega
  | .typed c => by have hb := mapBound_pos m; simp [subst, tw]; omega
  | .newtype n c => by have hb := mapBound_pos m; simp [subst, tw]; omega
  | .subclass c => by have hb := mapBound_pos m; simp [subst, tw]; omega
theorem twL_substL_le (m : TvMap) : ∀ ts : List Ty, twL (substL m ts) ≤ twL ts * mapBound m
  | [] => by simp [substL, twL]
  | t :: ts => by
    have h1 := tw_subst_le m t
    have h2 := twL_substL_le m ts
    simp only [substL, twL, Nat.add_mul]; omega
end

theorem tdepthL_append (xs ys : List Ty) : tdepthL (xs ++ ys) = max (tdepthL xs) (tdepthL ys) := by
  induction xs with
  | nil => simp [tdepthL]
  | cons x xs ih => simp [tdepthL, ih, Nat.max_assoc]

theorem tdepth_annotate (t : Ty) : tdepth (annotate t) ≤ 1 + tdepth t := by
  cases t <;> simp [annotate, tdepth]

theorem tdepthL_map_annotate (ts : List Ty) : tdepthL (ts.map annotate) ≤ 1 + tdepthL ts := by
  induction ts with
  | nil => simp [tdepthL]
  | cons t ts ih => have := tdepth_annotate t; simp [tdepthL]; omega

theorem tdepthL_flatten1 (v : Ty) : tdepthL (flatten1 v) ≤ tdepth v := by
  cases v with
  | union ts => simp [flatten1, tdepth]
  | annotated u =>
    cases u with
    | union ts => have := tdepthL_map_annotate ts; simp [flatten1, tdepth]; omega
    | _ => simp [flatten1, tdepth, tdepthL]
  | _ => simp [flatten1, tdepth, tdepthL]

theorem tdepthL_flatMap_flatten1 (vs : List Ty) : tdepthL (vs.flatMap flatten1) ≤ tdepthL vs := by
  induction vs with
  | nil => simp [tdepthL]
  | cons v vs ih =>
    have := tdepthL_flatten1 v
    simp [List.flatMap_cons, tdepthL_append, tdepthL]; omega

theorem tdepth_mkUnion_le (vs : List Ty) : tdepth (mkUnion vs) ≤ 1 + tdepthL vs := by
  have := tdepthL_flatMap_flatten1 vs
  simp [mkUnion, tdepth]; omega

mutual
theorem tdepth_subst_le (m : TvMap) : ∀ t : Ty, tdepth (subst m t) ≤ tdepth t + mapDepth m
  | .tvar i => by
    simp only [subst, tdepth]
    cases hg : TvMap.get m i with
    | none => simp [tdepth]
    | some u => have := get_le_mapDepth m i u hg; simp; omega
  | .generic c as => by have := tdepthL_substL_le m as; simp only [subst, tdepth]; omega
  | .seq c ms => by have := tdepthL_substL_le m ms; simp only [subst, tdepth]; omega
  | .many t => by have := tdepth_subst_le m t; simp only [subst, tdepth]; omega
  | .union ts => by
    simp only [subst]
    split
    · omega
    · have h1 := tdepth_mkUnion_le (substL m ts)
      have h2 := tdepthL_substL_le m ts
      simp only [tdepth]; omega
  | .annotated t => by have := tdepth_subst_le m t; simp only [subst, tdepth]; omega
  | .any => by simp [subst]
  | .known o => by simp [subst]
  | .typed c => by simp [subst]
  | .newtype n c => by simp [subst]
  | .subclass c => by simp [subst]
theorem tdepthL_substL_le (m : TvMap) : ∀ ts : List Ty, tdepthL (substL m ts) ≤ tdepthL ts + mapDepth m
  | [] => by simp [substL, tdepthL]
  | t :: ts => by
    have h1 := tdepth_subst_le m t
    have h2 := tdepthL_substL_le m ts
    simp only [substL, tdepthL]; omega
end

-- the budgeted substitution agrees with `subst` as soon as the budget covers the nesting depth
mutual
theorem substF_eq (m : TvMap) : ∀ (n : Nat) (t : Ty), tdepth t ≤ n → substF n m t = some (subst m t)
  | 0, t, h => by have := tdepth_pos t; omega
  | n + 1, .tvar i, _ => by simp [substF, subst]
  | n + 1, .generic c as, h => by
    simp only [tdepth] at h
    simp [substF, subst, substFL_eq m n as (by omega)]
  | n + 1, .seq c ms, h => by
    simp only [tdepth] at h
    simp [substF, subst, substFL_eq m n ms (by omega)]
  | n + 1, .many t, h => by
    simp only [tdepth] at h
    simp [substF, subst, substF_eq m n t (by omega)]
  | n + 1, .union ts, h => by
    simp only [tdepth] at h
    simp only [substF, subst]
    split
    · rfl
    · simp [substFL_eq m n ts (by omega)]
  | n + 1, .annotated t, h => by
    simp only [tdepth] at h
    simp [substF, subst, substF_eq m n t (by omega)]
  | n + 1, .any, _ => by simp [substF, subst]
  | n + 1, .known o, _ => by simp [substF, subst]
  | n + 1, .typed c, _ => by simp [substF, subst]
  | n + 1, .newtype k c, _ => by simp [substF, subst]
  | n + 1, .subclass c, _ => by simp [substF, subst]
theorem substFL_eq (m : TvMap) : ∀ (n : Nat) (ts : List Ty), tdepthL ts ≤ n → substFL n m ts = some (substL m ts)
  | n, [], _ => by simp [substFL, substL]
  | n, t :: ts, h => by
    simp only [tdepthL] at h
    simp [substFL, substL, substF_eq m n t (by omega), substFL_eq m n ts (by omega)]
end

-- an exhausted budget is reported, never a wrong result
mutual
theorem substF_sound (m : TvMap) : ∀ (n : Nat) (t r : Ty), substF n m t = some r → r = subst m t
  | 0, t, r, h => by simp [substF] at h
  | n + 1, .tvar i, r, h => by simp [substF] at h; simp [subst, h]
  | n + 1, .generic c as, r, h => by
    simp only [substF, Option.map_eq_some_iff] at h
    obtain ⟨l, hl, rfl⟩ := h
    simp [subst, substFL_sound m n as l hl]
  | n + 1, .seq c ms, r, h => by
    simp only [substF, Option.map_eq_some_iff] at h
    obtain ⟨l, hl, rfl⟩ := h
    simp [subst, substFL_sound m n ms l hl]
  | n + 1, .many t, r, h => by
    simp only [substF, Option.map_eq_some_iff] at h
    obtain ⟨u, hu, rfl⟩ := h
    simp [subst, substF_sound m n t u hu]
  | n + 1, .union ts, r, h => by
    simp only [substF] at h
    simp only [subst]
    split at h
    · rename_i hc; simp [hc]; simpa using h.symm
    · rename_i hc
      simp only [Option.map_eq_some_iff] at h
      obtain ⟨l, hl, rfl⟩ := h
      simp [hc, substFL_sound m n ts l hl]
  | n + 1, .annotated t, r, h => by
    simp only [substF, Option.map_eq_some_iff] at h
    obtain ⟨u, hu, rfl⟩ := h
    simp [subst, substF_sound m n t u hu]
  | n + 1, .any, r, h => by simp [substF] at h; simp [subst, h]
  | n + 1, .known o, r, h => by simp [substF] at h; simp [subst, h]
  | n + 1, .typed c, r, h => by simp [substF] at h; simp [subst, h]
  | n + 1, .newtype k c, r, h => by simp [substF] at h; simp [subst, h]
  | n + 1, .subclass c, r, h => by simp [substF] at h; simp [subst, h]
theorem substFL_sound (m : TvMap) : ∀ (n : Nat) (ts l : List Ty), substFL n m ts = some l → l = substL m ts
  | n, [], l, h => by simp [substFL] at h; simp [substL, h]
  | n, t :: ts, l, h => by
    simp only [substFL] at h
    split at h
    · rename_i t' ts' h1 h2
      simp at h; subst h
      simp [substL, substF_sound m n t t' h1, substFL_sound m n ts ts' h2]
    · simp at h
end

/-! ### the list helpers of `ca` are plain quantifiers over `ca` -/

theorem caAllR_eq_all (tbl : ClassTable) (x : Bool) (e : Ty) : ∀ bs : List Ty,
    caAllR tbl x e bs = bs.all (fun b => ca tbl x e b)
  | [] => by simp [caAllR]
  | b :: bs => by simp [caAllR, caAllR_eq_all tbl x e bs]

theorem caAnyL_eq_any (tbl : ClassTable) (x : Bool) (a : Ty) : ∀ es : List Ty,
    caAnyL tbl x es a = es.any (fun e => ca tbl x e a)
  | [] => by simp [caAnyL]
  | e :: es => by simp [caAnyL, caAnyL_eq_any tbl x a es]

theorem ca_any_left (tbl : ClassTable) (x : Bool) (a : Ty) : ca tbl x .any a = true := by
  simp [ca]

theorem ca_annotated_right (tbl : ClassTable) (x : Bool) (e t : Ty) :
    ca tbl x e (.annotated t) = ca tbl x e t := by
  cases e <;> simp [ca]

theorem ca_union_right (tbl : ClassTable) (x : Bool) (e : Ty) (bs : List Ty) :
    ca tbl x e (.union bs) = bs.all (fun b => ca tbl x e b) := by
  cases e <;> simp [ca, caAllR_eq_all]

/-! ## B. the emit model -/

theorem str_append_ne_left {a b : String} (h : a ≠ "") : a ++ b ≠ "" := by
  intro hh
  have := congrArg String.length hh
  simp [String.length_append] at this
  exact h this.1

theorem render_message_ne (n : Nat) (fname : String) (lines : List Line) (c : Call) (e : String) :
    (render n fname lines c e).message ≠ "" := by
  unfold render
  simp only []
  apply str_append_ne_left
  cases c.code <;> cases c.detail <;> cases c.pos <;>
    simp only [] <;> (repeat' apply str_append_ne_left) <;> decide

/-- what a returning `show_error` does to `all_failures`: nothing, or it appends the record rendered
from this call and its message text -/
theorem showError_fails (env : Env) (lines : List Line) (st st' : St) (c : Call)
    (h : showError env lines st c = some st') :
    st'.fails = st.fails ∨
      ∃ e, c.text env.reg = some e ∧ st'.fails = st.fails ++ [render env.ctxLines env.fname lines c e] := by
  unfold showError at h
  cases ht : c.text env.reg with
  | none =>
    simp only [ht] at h
    repeat' split at h
    all_goals (simp at h)
    all_goals (subst h; exact .inl rfl)
  | some e =>
    simp only [ht] at h
    repeat' split at h
    all_goals (simp at h)
    all_goals (subst h)
    all_goals (first | exact .inl rfl | exact .inr ⟨e, rfl, rfl⟩)

theorem run_inv (env : Env) (lines : List Line) (P : Failure → Prop) :
    ∀ (calls : List Call) (st st' : St), run env lines st calls = some st' →
      (∀ f ∈ st.fails, P f) →
      (∀ c ∈ calls, ∀ e, c.text env.reg = some e → P (render env.ctxLines env.fname lines c e)) →
      ∀ f ∈ st'.fails, P f
  | [], st, st', h, h0, _ => by simp [run] at h; subst h; exact h0
  | c :: cs, st, st', h, h0, hc => by
    simp only [run] at h
    cases hs : showError env lines st c with
    | none => simp [hs] at h
    | some st1 =>
      simp only [hs] at h
      refine run_inv env lines P cs st1 st' h ?_ (fun c' hc' => hc c' (List.mem_cons_of_mem _ hc'))
      rcases showError_fails env lines st st1 c hs with h1 | ⟨e, he, h1⟩
      · rw [h1]; exact h0
      · rw [h1]; intro f hf
        rcases List.mem_append.1 hf with hf | hf
        · exact h0 f hf
        · simp at hf; subst hf; exact hc c (List.mem_cons_self ..) e he

theorem descr_of_has : ∀ (reg : Reg) (k : String), reg.has k = true → reg.descrOk = true →
    ∃ d, reg.descr k = some d ∧ d ≠ ""
  | [], k, h, _ => by simp [Reg.has] at h
  | (n, d) :: reg, k, h, hok => by
    simp only [Reg.descrOk, List.all_cons, Bool.and_eq_true] at hok
    by_cases hn : (n == k) = true
    · exact ⟨d, by simp [Reg.descr, List.find?, hn], by simpa using hok.1⟩
    · simp only [Reg.has, List.any_cons, hn, Bool.false_or] at h
      obtain ⟨d', h1, h2⟩ := descr_of_has reg k (by simpa [Reg.has] using h) (by simpa [Reg.descrOk] using hok.2)
      exact ⟨d', by simpa [Reg.descr, List.find?, hn] using h1, h2⟩

/-- **one record**: a call that names a registered code, lies inside the file and has a message
renders to a well-formed record -/
theorem render_wf (env : Env) (lines : List Line) (c : Call) (e : String)
    (hok : env.reg.descrOk = true) (hin : c.inFile env.reg lines = true) (ht : c.text env.reg = some e) :
    wellFormed env.reg lines (render env.ctxLines env.fname lines c e) = true := by
  simp only [Call.inFile, Bool.and_eq_true] at hin
  obtain ⟨⟨hcode, hpos⟩, hmsg⟩ := hin
  cases hc : c.code with
  | none => simp [hc] at hcode
  | some k =>
    cases hp : c.pos with
    | none => simp [hp] at hpos
    | some p =>
      simp only [hc] at hcode
      simp only [hp, posInside, Bool.and_eq_true, decide_eq_true_eq] at hpos
      have he : e ≠ "" := by
        simp only [Call.text] at ht
        cases hce : c.e with
        | some s => simp [hce] at ht hmsg; subst ht; exact hmsg
        | none =>
          simp [hce, hc] at ht
          obtain ⟨d, hd, hne⟩ := descr_of_has env.reg k hcode hok
          rw [hd] at ht; simp at ht; subst ht; exact hne
      have hm := render_message_ne env.ctxLines env.fname lines c e
      simp only [wellFormed, Bool.and_eq_true]
      refine ⟨⟨⟨?_, ?_⟩, ?_⟩, ?_⟩
      · simp [render, hc, hcode]
      · have h2 := hpos.2
        simp only [List.getD_eq_getElem?_getD] at h2
        simp [render, hp, hpos.1.1, hpos.1.2, h2]
      · simpa [render] using he
      · simpa using hm

theorem findSub_le (p : Line) : ∀ (l : Line) (n : Nat), findSub p l = some n → n ≤ l.length
  | [], n, h => by
    simp only [findSub] at h
    split at h <;> simp at h
    omega
  | c :: cs, n, h => by
    simp only [findSub] at h
    split at h
    · simp at h; omega
    · simp only [Option.map_eq_some_iff] at h
      obtain ⟨m, hm, rfl⟩ := h
      have := findSub_le p cs m hm
      simp; omega

theorem zipIdxFrom_mem {α : Type} : ∀ (ls : List α) (k i : Nat) (l : α), (i, l) ∈ zipIdxFrom k ls →
    k ≤ i ∧ i - k < ls.length ∧ ls[i - k]? = some l
  | [], k, i, l, h => by simp [zipIdxFrom] at h
  | a :: as, k, i, l, h => by
    simp only [zipIdxFrom, List.mem_cons] at h
    rcases h with h | h
    · simp only [Prod.mk.injEq] at h; obtain ⟨rfl, rfl⟩ := h; simp
    · obtain ⟨h1, h2, h3⟩ := zipIdxFrom_mem as (k + 1) i l h
      refine ⟨by omega, by simp; omega, ?_⟩
      have : i - k = (i - (k + 1)) + 1 := by omega
      rw [this]; simpa using h3

/-- the positions `show_errors_for_unused_ignores` / `…_bare_ignores` make up lie inside the file -/
theorem fake_inFile (reg : Reg) (lines : List Line) (code : String) (hreg : reg.has code = true)
    (i : Nat) (l : Line) (hm : (i, l) ∈ zipIdxFrom 0 lines) :
    Call.inFile reg lines { node := .fake (i + 1) ((findSub IC l).getD 0), code := some code, e := none,
                            pos := some (i + 1, (findSub IC l).getD 0), obey := false } = true := by
  obtain ⟨_, h2, h3⟩ := zipIdxFrom_mem lines 0 i l hm
  simp only [Nat.sub_zero] at h2 h3
  have hcol : (findSub IC l).getD 0 ≤ l.length := by
    cases hf : findSub IC l with
    | none => simp
    | some n => simpa using findSub_le IC l n hf
  have hli : lines[i]'h2 = l := by
    have h4 := h3
    rw [List.getElem?_eq_getElem h2] at h4
    simpa using h4
  simp [Call.inFile, posInside, hreg, h2, hli, hcol]
  omega

theorem unusedCalls_inFile (reg : Reg) (lines : List Line) (used : List Int) (code : String)
    (hreg : reg.has code = true) : ∀ c ∈ unusedCalls code lines used, c.inFile reg lines = true := by
  intro c hc
  simp only [unusedCalls, List.mem_filterMap] at hc
  obtain ⟨⟨i, l⟩, hm, hc⟩ := hc
  split at hc
  · simp at hc; subst hc; exact fake_inFile reg lines code hreg i l hm
  · simp at hc

theorem bareCalls_inFile (reg : Reg) (lines : List Line) (code : String)
    (hreg : reg.has code = true) : ∀ c ∈ bareCalls code lines, c.inFile reg lines = true := by
  intro c hc
  simp only [bareCalls, List.mem_filterMap] at hc
  obtain ⟨⟨i, l⟩, hm, hc⟩ := hc
  split at hc
  · simp at hc; subst hc; exact fake_inFile reg lines code hreg i l hm
  · simp at hc

theorem pyGet_nat (lines : List Line) (k : Nat) (h : k < lines.length) :
    pyGet lines (k : Int) = some lines[k] := by
  simp [pyGet, List.getElem?_eq_getElem h]

theorem pyGet_neg1 (lines : List Line) (h : 0 < lines.length) :
    ∃ l, pyGet lines (-1) = some l := by
  have hlt : lines.length - 1 < lines.length := by omega
  refine ⟨lines[lines.length - 1], ?_⟩
  simp [pyGet, List.getElem?_eq_getElem hlt]
  intro h0; subst h0; simp at h

theorem pyGet_inside (lines : List Line) (ln : Nat) (h1 : 1 ≤ ln) (h2 : ln ≤ lines.length) :
    (∃ l, pyGet lines ((ln : Int) - 1) = some l) ∧
    (∃ l, (if 2 ≤ ln then pyGet lines ((ln : Int) - 2) else some []) = some l) := by
  constructor
  · have e1 : (ln : Int) - 1 = ((ln - 1 : Nat) : Int) := by omega
    rw [e1]; exact ⟨_, pyGet_nat lines (ln - 1) (by omega)⟩
  · by_cases h : 2 ≤ ln
    · have e1 : (ln : Int) - 2 = ((ln - 2 : Nat) : Int) := by omega
      rw [if_pos h, e1]; exact ⟨_, pyGet_nat lines (ln - 2) (by omega)⟩
    · rw [if_neg h]; exact ⟨_, rfl⟩

theorem showError_isSome (env : Env) (lines : List Line) (st : St) (c : Call)
    (hin : c.inFile env.reg lines = true) : ∃ st', showError env lines st c = some st' := by
  simp only [Call.inFile, Bool.and_eq_true] at hin
  obtain ⟨⟨hcode, hpos⟩, _⟩ := hin
  cases hc : c.code with
  | none => simp [hc] at hcode
  | some k =>
    cases hp : c.pos with
    | none => simp [hp] at hpos
    | some p =>
      obtain ⟨ln, col⟩ := p
      simp only [hp, posInside, Bool.and_eq_true, decide_eq_true_eq] at hpos
      obtain ⟨⟨l1, hl1⟩, ⟨l2, hl2⟩⟩ := pyGet_inside lines ln hpos.1.1 hpos.1.2
      have ht : ∃ e, c.text env.reg = some e := by
        simp only [Call.text]
        cases c.e with
        | some s => exact ⟨s, rfl⟩
        | none => simp [hc]
      obtain ⟨e, he⟩ := ht
      unfold showError
      simp only [he, hp]
      by_cases hob : c.obey = true
      · simp only [if_pos hob, hl1, hl2]
        repeat' split
        all_goals exact ⟨_, rfl⟩
      · simp only [if_neg hob]
        repeat' split
        all_goals exact ⟨_, rfl⟩

theorem run_isSome (env : Env) (lines : List Line) : ∀ (calls : List Call) (st : St),
    (∀ c ∈ calls, c.inFile env.reg lines = true) → ∃ st', run env lines st calls = some st'
  | [], st, _ => ⟨st, by simp [run]⟩
  | c :: cs, st, h => by
    obtain ⟨st1, h1⟩ := showError_isSome env lines st c (h c (List.mem_cons_self ..))
    obtain ⟨st2, h2⟩ := run_isSome env lines cs st1 (fun c' hc' => h c' (List.mem_cons_of_mem _ hc'))
    exact ⟨st2, by simp [run, h1, h2]⟩

theorem uniteList_sub (vs : List Ty) : ∀ x ∈ uniteList vs, x ∈ vs.flatMap flatten1 := by
  intro x hx
  rcases dedup_sub (vs.flatMap flatten1) [] x hx with h | h
  · cases h
  · exact h

theorem uniteList_length (vs : List Ty) : (uniteList vs).length ≤ (vs.flatMap flatten1).length := by
  have := dedup_length (vs.flatMap flatten1) []
  simpa [uniteList] using this

/-! ## D. the recursion guard of `_type_from_runtime` -/

theorem hasExhL_map_false {α : Type} (f : α → Shape) : ∀ (l : List α), (∀ a ∈ l, (f a).hasExh = false) →
    Shape.hasExhL (l.map f) = false
  | [], _ => by simp [Shape.hasExhL]
  | a :: l, h => by
    simp [Shape.hasExhL, h a (List.mem_cons_self ..), hasExhL_map_false f l (fun b hb => h b (List.mem_cons_of_mem _ hb))]

theorem hasExhL_map_any {α : Type} (f : α → Shape) : ∀ (l : List α),
    Shape.hasExhL (l.map f) = l.any (fun a => (f a).hasExh)
  | [] => by simp [Shape.hasExhL]
  | a :: l => by simp [Shape.hasExhL, hasExhL_map_any f l]

theorem tfrDiverges_eq (ug : Bool) (g : RGraph) : ∀ (f : Nat) (gs : List Nat) (n : Nat),
    tfrDiverges ug g f gs n = (tfr ug g f gs n).hasExh
  | 0, gs, n => by simp [tfrDiverges, tfr, Shape.hasExh]
  | f + 1, gs, n => by
    unfold tfrDiverges tfr
    cases hn : g[n]? with
    | none => simp [Shape.hasExh]
    | some x =>
      cases x with
      | leaf c => simp [Shape.hasExh]
      | app args =>
        simp only [Shape.hasExh, hasExhL_map_any]
        congr 1
        funext a
        by_cases ha : a < n <;> simp [ha, tfrDiverges_eq ug g f gs a, Shape.hasExh]
      | fref t ev =>
        have e1 := tfrDiverges_eq ug g f gs t
        have e2 := tfrDiverges_eq ug g f (n :: gs) t
        by_cases hm : n ∈ gs
        · simp [hm, Shape.hasExh]
        · cases ug <;> cases ev <;> simp [hm, e1, e2]

theorem countP_remove (p : Nat → Bool) (n : Nat) : ∀ (l : List Nat), l.Nodup → n ∈ l → p n = true →
    l.countP (fun i => p i && i != n) + 1 = l.countP p
  | [], _, h, _ => by cases h
  | a :: l, hnd, hmem, hp => by
    rw [List.nodup_cons] at hnd
    by_cases ha : a = n
    · subst ha
      have hrest : l.countP (fun i => p i && i != a) = l.countP p := by
        apply List.countP_congr
        intro i hi
        have : i ≠ a := fun h => hnd.1 (h ▸ hi)
        simp [this]
      simp [List.countP_cons, hp, hrest]
    · have hmem' : n ∈ l := by
        rcases List.mem_cons.1 hmem with h | h
        · exact absurd h.symm ha
        · exact h
      have ih := countP_remove p n l hnd.2 hmem' hp
      simp only [List.countP_cons]
      have : (a != n) = true := by simpa using ha
      simp only [this, Bool.and_true]
      omega

theorem remaining_cons (g : RGraph) (gs : List Nat) (n : Nat) (hn : n < g.length) (hf : isFref g n = true)
    (hg : gs.contains n = false) : remaining g (n :: gs) + 1 = remaining g gs := by
  unfold remaining
  have hg' : n ∉ gs := by simpa using hg
  have hp : (fun i => isFref g i && !gs.contains i) n = true := by simp [hf, hg']
  have := countP_remove (fun i => isFref g i && !gs.contains i) n (List.range g.length) List.nodup_range
    (List.mem_range.2 hn) hp
  rw [← this]
  congr 1
  apply List.countP_congr
  intro i _
  by_cases hi : i = n
  · subst hi; simp
  · have hne : (i != n) = true := by simpa using hi
    have hne' : (i == n) = false := by simpa using hi
    simp [hne, hi]

theorem getElem?_lt {g : RGraph} {n : Nat} {x : RNode} (h : g[n]? = some x) : n < g.length := by
  rcases Nat.lt_or_ge n g.length with h1 | h1
  · exact h1
  · rw [List.getElem?_eq_none h1] at h; cases h

/-- with every ForwardRef route inside `add_evaluation`, `tfrBound` frames suffice -/
theorem tfr_no_exh (g : RGraph) : ∀ (f : Nat) (gs : List Nat) (n : Nat), tfrBound g gs n ≤ f →
    (tfr false g f gs n).hasExh = false
  | 0, gs, n, h => by simp [tfrBound] at h
  | f + 1, gs, n, h => by
    unfold tfr
    cases hn : g[n]? with
    | none => simp [Shape.hasExh]
    | some x =>
      have hlt := getElem?_lt hn
      have hmin : min n g.length = n := by omega
      cases x with
      | leaf c => simp [Shape.hasExh]
      | app args =>
        simp only [Shape.hasExh]
        apply hasExhL_map_false
        intro a _
        by_cases ha : a < n
        · simp only [ha, if_true]
          apply tfr_no_exh g f gs a
          have : min a g.length = a := by omega
          simp only [tfrBound, hmin, this] at h ⊢
          omega
        · simp [ha, Shape.hasExh]
      | fref t ev =>
        have key : (tfr false g f (n :: gs) t).hasExh = false ∨ n ∈ gs := by
          by_cases hm : n ∈ gs
          · exact .inr hm
          · left
            have hc' : gs.contains n = false := by simpa using hm
            have hfr : isFref g n = true := by simp [isFref, hn]
            have hrem := remaining_cons g gs n hlt hfr hc'
            apply tfr_no_exh g f (n :: gs) t
            have hmt : min t g.length ≤ g.length := Nat.min_le_right _ _
            simp only [tfrBound, hmin] at h ⊢
            have hr : remaining g gs = remaining g (n :: gs) + 1 := hrem.symm
            rw [hr, Nat.add_mul] at h
            omega
        rcases key with hk | hm
        · by_cases hm : n ∈ gs <;> simp [hm, hk, Shape.hasExh]
        · simp [hm, Shape.hasExh]

/-- `Json = List["Json"]` with the reference already resolved by typing: node 1 is the alias, node 0
the ForwardRef inside it. -/
def cyclicEvaluated : RGraph := [.fref 1 true, .app [0]]

theorem unguarded_diverges : ∀ f : Nat,
    (tfr true cyclicEvaluated f [] 1).hasExh = true ∧ (tfr true cyclicEvaluated f [] 0).hasExh = true
  | 0 => by simp [tfr, Shape.hasExh]
  | f + 1 => by
    have ih := unguarded_diverges f
    constructor
    · simp [tfr, cyclicEvaluated, Shape.hasExh, Shape.hasExhL]
      simpa [cyclicEvaluated] using ih.2
    · simp [tfr, cyclicEvaluated]
      simpa [cyclicEvaluated] using ih.1


end Pya.C12
