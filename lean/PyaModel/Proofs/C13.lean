import PyaModel.Core.AnnotRoutes
/-!
# Proofs/C13 — helper lemmas for the annotation routes and the two signature routes

Sections: (0) induction principles for the nested types; (1) the structural equality tests decide `=`;
(2) the in-source route without starred members; (3) `allow_unpack` is irrelevant on supported
expressions; (4) the AST route against the runtime route; (5) def headers.
-/
namespace Pya.C13

/-! ### 0. induction principles -/

theorem objInd {P : Obj → Prop}
    (int : ∀ n, P (.int n)) (bool : ∀ b, P (.bool b)) (str : ∀ s, P (.str s))
    (bytes : ∀ s, P (.bytes s)) (none : P .none) (flt : ∀ i, P (.flt i)) (cplx : ∀ i, P (.cplx i))
    (inst : ∀ c i, P (.inst c i)) (cls : ∀ c, P (.cls c))
    (tuple : ∀ xs, (∀ x ∈ xs, P x) → P (.tuple xs))
    (list : ∀ xs, (∀ x ∈ xs, P x) → P (.list xs))
    (set : ∀ xs, (∀ x ∈ xs, P x) → P (.set xs))
    (fset : ∀ xs, (∀ x ∈ xs, P x) → P (.fset xs))
    (dict : ∀ ks vs, (∀ x ∈ ks, P x) → (∀ x ∈ vs, P x) → P (.dict ks vs)) : ∀ o, P o
  | .int n => int n | .bool b => bool b | .str s => str s | .bytes s => bytes s | .none => none
  | .flt i => flt i | .cplx i => cplx i | .inst c i => inst c i | .cls c => cls c
  | .tuple xs => tuple xs fun x _ => objInd int bool str bytes none flt cplx inst cls tuple list set fset dict x
  | .list xs => list xs fun x _ => objInd int bool str bytes none flt cplx inst cls tuple list set fset dict x
  | .set xs => set xs fun x _ => objInd int bool str bytes none flt cplx inst cls tuple list set fset dict x
  | .fset xs => fset xs fun x _ => objInd int bool str bytes none flt cplx inst cls tuple list set fset dict x
  | .dict ks vs => dict ks vs
      (fun x _ => objInd int bool str bytes none flt cplx inst cls tuple list set fset dict x)
      (fun x _ => objInd int bool str bytes none flt cplx inst cls tuple list set fset dict x)
termination_by o => sizeOf o

theorem tyInd {P : Ty → Prop}
    (any : P .any) (known : ∀ o, P (.known o)) (typed : ∀ c, P (.typed c))
    (newtype : ∀ n c, P (.newtype n c))
    (generic : ∀ c args, (∀ t ∈ args, P t) → P (.generic c args))
    (seq : ∀ c ms, (∀ t ∈ ms, P t) → P (.seq c ms))
    (many : ∀ t, P t → P (.many t))
    (union : ∀ ts, (∀ t ∈ ts, P t) → P (.union ts))
    (subclass : ∀ c, P (.subclass c))
    (annotated : ∀ t, P t → P (.annotated t))
    (tvar : ∀ i, P (.tvar i)) : ∀ T, P T
  | .any => any | .known o => known o | .typed c => typed c | .newtype n c => newtype n c
  | .generic c args => generic c args fun t _ => tyInd any known typed newtype generic seq many union subclass annotated tvar t
  | .seq c ms => seq c ms fun t _ => tyInd any known typed newtype generic seq many union subclass annotated tvar t
  | .many t => many t (tyInd any known typed newtype generic seq many union subclass annotated tvar t)
  | .union ts => union ts fun t _ => tyInd any known typed newtype generic seq many union subclass annotated tvar t
  | .subclass c => subclass c
  | .tvar i => tvar i
  | .annotated t => annotated t (tyInd any known typed newtype generic seq many union subclass annotated tvar t)
termination_by T => sizeOf T

theorem annInd {P : AnnExpr → Prop}
    (cls : ∀ c, P (.cls c)) (none : P .none) (anyT : P .anyT) (newtype : ∀ n c, P (.newtype n c))
    (bare : ∀ c, P (.bare c))
    (gen : ∀ o c args, (∀ e ∈ args, P e) → P (.gen o c args))
    (tup : ∀ o ms, (∀ e ∈ ms, P e) → P (.tup o ms))
    (tupE : ∀ o, P (.tupE o))
    (tupV : ∀ o e, P e → P (.tupV o e))
    (unpack : ∀ e, P e → P (.unpack e))
    (star : ∀ e, P e → P (.star e))
    (lit : ∀ os, P (.lit os))
    (typ : ∀ o e, P e → P (.typ o e))
    (ann : ∀ e k, P e → P (.ann e k))
    (final : ∀ e, P e → P (.final e))
    (classVar : ∀ e, P e → P (.classVar e))
    (opt : ∀ e, P e → P (.opt e))
    (union : ∀ es, (∀ e ∈ es, P e) → P (.union es))
    (bor : ∀ a b, P a → P b → P (.bor a b))
    (str : ∀ e, P e → P (.str e)) (name : ∀ n, P (.name n)) (dotted : ∀ n p, P (.dotted n p)) : ∀ e, P e
  | .cls c => cls c | .none => none | .anyT => anyT | .newtype n c => newtype n c | .bare c => bare c
  | .gen o c args => gen o c args fun e _ =>
      annInd cls none anyT newtype bare gen tup tupE tupV unpack star lit typ ann final classVar opt union bor str name dotted e
  | .tup o ms => tup o ms fun e _ =>
      annInd cls none anyT newtype bare gen tup tupE tupV unpack star lit typ ann final classVar opt union bor str name dotted e
  | .tupE o => tupE o
  | .tupV o e => tupV o e (annInd cls none anyT newtype bare gen tup tupE tupV unpack star lit typ ann final classVar opt union bor str name dotted e)
  | .unpack e => unpack e (annInd cls none anyT newtype bare gen tup tupE tupV unpack star lit typ ann final classVar opt union bor str name dotted e)
  | .star e => star e (annInd cls none anyT newtype bare gen tup tupE tupV unpack star lit typ ann final classVar opt union bor str name dotted e)
  | .lit os => lit os
  | .typ o e => typ o e (annInd cls none anyT newtype bare gen tup tupE tupV unpack star lit typ ann final classVar opt union bor str name dotted e)
  | .ann e k => ann e k (annInd cls none anyT newtype bare gen tup tupE tupV unpack star lit typ ann final classVar opt union bor str name dotted e)
  | .final e => final e (annInd cls none anyT newtype bare gen tup tupE tupV unpack star lit typ ann final classVar opt union bor str name dotted e)
  | .classVar e => classVar e (annInd cls none anyT newtype bare gen tup tupE tupV unpack star lit typ ann final classVar opt union bor str name dotted e)
  | .opt e => opt e (annInd cls none anyT newtype bare gen tup tupE tupV unpack star lit typ ann final classVar opt union bor str name dotted e)
  | .union es => union es fun e _ =>
      annInd cls none anyT newtype bare gen tup tupE tupV unpack star lit typ ann final classVar opt union bor str name dotted e
  | .bor a b => bor a b
      (annInd cls none anyT newtype bare gen tup tupE tupV unpack star lit typ ann final classVar opt union bor str name dotted a)
      (annInd cls none anyT newtype bare gen tup tupE tupV unpack star lit typ ann final classVar opt union bor str name dotted b)
  | .str e => str e (annInd cls none anyT newtype bare gen tup tupE tupV unpack star lit typ ann final classVar opt union bor str name dotted e)
  | .name n => name n
  | .dotted n p => dotted n p
termination_by e => sizeOf e

/-! ### 1. the structural equality tests decide `=` -/

theorem Obj.eqbL_eq_of (xs ys : List Obj) (h : ∀ x ∈ xs, ∀ y, Obj.eqb x y = true → x = y)
    (h1 : Obj.eqbL xs ys = true) : xs = ys := by
  induction xs generalizing ys with
  | nil => cases ys <;> simp [Obj.eqbL] at h1 ⊢
  | cons x xs ih =>
    cases ys with
    | nil => simp [Obj.eqbL] at h1
    | cons y ys =>
      simp only [Obj.eqbL, Bool.and_eq_true] at h1
      rw [h x (by simp) y h1.1, ih ys (fun z hz => h z (by simp [hz])) h1.2]

theorem Obj.eqb_eq (a : Obj) : ∀ b, Obj.eqb a b = true → a = b := by
  induction a using objInd with
  | tuple xs ih | list xs ih | set xs ih | fset xs ih =>
    intro b h
    cases b <;> simp only [Obj.eqb, Bool.false_eq_true] at h
    rw [Obj.eqbL_eq_of _ _ ih h]
  | dict ks vs ih1 ih2 =>
    intro b h
    cases b <;> simp only [Obj.eqb, Bool.false_eq_true, Bool.and_eq_true] at h
    rw [Obj.eqbL_eq_of _ _ ih1 h.1, Obj.eqbL_eq_of _ _ ih2 h.2]
  | _ =>
    intro b h
    cases b <;> simp_all [Obj.eqb]

theorem Ty.eqbL_eq_of (xs ys : List Ty) (h : ∀ x ∈ xs, ∀ y, Ty.eqb x y = true → x = y)
    (h1 : Ty.eqbL xs ys = true) : xs = ys := by
  induction xs generalizing ys with
  | nil => cases ys <;> simp [Ty.eqbL] at h1 ⊢
  | cons x xs ih =>
    cases ys with
    | nil => simp [Ty.eqbL] at h1
    | cons y ys =>
      simp only [Ty.eqbL, Bool.and_eq_true] at h1
      rw [h x (by simp) y h1.1, ih ys (fun z hz => h z (by simp [hz])) h1.2]

theorem Ty.eqb_eq (a : Ty) : ∀ b, Ty.eqb a b = true → a = b := by
  induction a using tyInd with
  | known o =>
    intro b h
    cases b <;> simp only [Ty.eqb, Bool.false_eq_true] at h
    rw [Obj.eqb_eq _ _ h]
  | generic c as ih | seq c as ih =>
    intro b h
    cases b <;> simp only [Ty.eqb, Bool.false_eq_true, Bool.and_eq_true, beq_iff_eq] at h
    rw [h.1, Ty.eqbL_eq_of _ _ ih h.2]
  | union as ih =>
    intro b h
    cases b <;> simp only [Ty.eqb, Bool.false_eq_true] at h
    rw [Ty.eqbL_eq_of _ _ ih h]
  | many t ih | annotated t ih =>
    intro b h
    cases b <;> simp only [Ty.eqb, Bool.false_eq_true] at h
    rw [ih _ h]
  | _ =>
    intro b h
    cases b <;> simp_all [Ty.eqb]

theorem optResSame_eq {x y : Option Res} (h : optResSame x y = true) : x = y := by
  cases x with
  | none => cases y <;> simp [optResSame] at h ⊢
  | some a =>
    cases y with
    | none => simp [optResSame] at h
    | some b =>
      simp only [optResSame, Res.same, Bool.and_eq_true, beq_iff_eq] at h
      cases a; cases b
      simp only at h
      simp [Ty.eqb_eq _ _ h.1.1, h.1.2, h.2]

/-! ### 2. the in-source route without starred members -/

theorem starUL_false (es : List AnnExpr) :
    AnnExpr.starUL es = false ↔ ∀ e ∈ es, e.starU = false := by
  induction es <;> simp_all [AnnExpr.starUL]

theorem hasOptL_false (es : List AnnExpr) :
    AnnExpr.hasOptL es = false ↔ ∀ e ∈ es, e.hasOpt = false := by
  induction es <;> simp_all [AnnExpr.hasOptL]

theorem squashL_eq_of (es : List AnnExpr) (h : ∀ e ∈ es, squash e = e) : squashL es = es := by
  induction es with
  | nil => simp [squashL]
  | cons e es ih =>
    simp only [squashL]
    rw [h e (by simp), ih fun x hx => h x (by simp [hx])]

theorem starCountL_zero (es : List AnnExpr) (h : ∀ e ∈ es, e.starU = false → e.starCount = 0)
    (hs : AnnExpr.starUL es = false) : AnnExpr.starCountL es = 0 := by
  induction es with
  | nil => rfl
  | cons e es ih =>
    simp only [AnnExpr.starUL, Bool.or_eq_false_iff] at hs
    simp only [AnnExpr.starCountL, h e (by simp) hs.1, ih (fun x hx => h x (by simp [hx])) hs.2]

/-- no starred member outside strings ⇒ the first pass reports none -/
theorem starCount_zero (e : AnnExpr) : e.starU = false → e.starCount = 0 := by
  induction e using annInd with
  | gen o c args ih | tup o args ih | union args ih =>
    intro h; simp only [AnnExpr.starU] at h; simp only [AnnExpr.starCount]; exact starCountL_zero _ ih h
  | bor a b iha ihb =>
    intro h; simp only [AnnExpr.starU, Bool.or_eq_false_iff] at h
    simp [AnnExpr.starCount, iha h.1, ihb h.2]
  | star e ih => intro h; simp [AnnExpr.starU] at h
  | _ => intro h; simp_all [AnnExpr.starCount, AnnExpr.starU]

theorem isStar_starU {e : AnnExpr} (h : e.starU = false) : e.isStar = false := by
  cases e <;> simp_all [AnnExpr.isStar, AnnExpr.starU]

/-- without a starred member (outside strings) evaluating the annotation as an expression yields
the annotation itself -/
theorem squash_id (e : AnnExpr) : e.starU = false → squash e = e := by
  induction e using annInd with
  | gen o c args ih | union args ih =>
    intro h
    simp only [AnnExpr.starU] at h
    simp only [squash]
    rw [squashL_eq_of _ fun e he => ih e he ((starUL_false _).1 h e he)]
  | tup o ms ih =>
    intro h
    simp only [AnnExpr.starU] at h
    have hm := (starUL_false _).1 h
    simp only [squash]
    rw [squashL_eq_of _ fun e he => ih e he (hm e he)]
    have : ms.any AnnExpr.isStar = false := by
      simp only [List.any_eq_false]
      intro x hx
      simp [isStar_starU (hm x hx)]
    simp [this]
  | bor a b iha ihb =>
    intro h
    simp only [AnnExpr.starU, Bool.or_eq_false_iff] at h
    simp [squash, iha h.1, ihb h.2]
  | star e ih => intro h; simp [AnnExpr.starU] at h
  | _ => intro h; simp_all [squash, AnnExpr.starU]

variable {look : Lookup} {env : NameEnv}

/-! ### 3. `allow_unpack` is irrelevant for the AST route on a supported expression that is not
itself `Unpack[...]` -/

theorem supp_mono (e : AnnExpr) (h : supp false e = true) : supp true e = true := by
  cases e <;> simp_all [supp]

theorem astEval_au (e : AnnExpr) : supp false e = true → astEval look true e = astEval look false e := by
  induction e using annInd with
  | str e ih => intro h; simp only [supp] at h; simp only [astEval]; exact ih h
  | unpack e ih => intro h; simp [supp] at h
  | _ => intro _; simp [astEval]

theorem astEval_au' (e : AnnExpr) (h : supp false e = true) (au : Bool) :
    astEval look false e = astEval look au e := by
  cases au
  · rfl
  · exact (astEval_au e h).symm

theorem annotate_idem (t : Ty) : annotate (annotate t) = annotate t := by
  cases t <;> simp [annotate]

theorem annotateK_add (k k' : Nat) (t : Ty) : annotateK k (annotateK k' t) = annotateK (k' + k) t := by
  unfold annotateK
  by_cases hk : k = 0 <;> by_cases hk' : k' = 0 <;> simp_all [annotate_idem]

/-! ### 4. the AST route against the runtime route -/

/-- the two routes agree on `e` for either value of `allow_unpack` -/
def Agree (look : Lookup) (e : AnnExpr) : Prop := ∀ au, astEval look au e = rtEval look au (tnorm (swapOpt e))

theorem agreeL (es : List AnnExpr) (h : ∀ e ∈ es, Agree look e) :
    astEvalL look es = rtEvalL look (tnormL (swapOptL es)) := by
  induction es with
  | nil => simp [astEvalL, rtEvalL, tnormL, swapOptL]
  | cons e es ih =>
    simp only [astEvalL, rtEvalL, tnormL, swapOptL]
    rw [h e (by simp) false, ih fun x hx => h x (by simp [hx])]

theorem agreeM (es : List AnnExpr) (h : ∀ e ∈ es, Agree look e) :
    astEvalM look es = rtEvalM look (tnormL (swapOptL es)) := by
  induction es with
  | nil => simp [astEvalM, rtEvalM, tnormL, swapOptL]
  | cons e es ih =>
    simp only [astEvalM, rtEvalM, tnormL, swapOptL]
    rw [h e (by simp) true, ih fun x hx => h x (by simp [hx])]

theorem suppL_iff (es : List AnnExpr) : suppL es = true ↔ ∀ e ∈ es, supp false e = true := by
  induction es <;> simp_all [suppL]
theorem suppM_iff (es : List AnnExpr) : suppM es = true ↔ ∀ e ∈ es, supp true e = true := by
  induction es <;> simp_all [suppM]
theorem R13L_false (es : List AnnExpr) :
    R13_typingDedupL look es = false ↔ ∀ e ∈ es, R13_typingDedup look e = false := by
  induction es <;> simp_all [R13_typingDedupL]
theorem mem_swapOptL {es : List AnnExpr} {x : AnnExpr} (h : x ∈ swapOptL es) :
    ∃ e ∈ es, x = swapOpt e := by
  induction es with
  | nil => simp [swapOptL] at h
  | cons e es ih =>
    simp only [swapOptL, List.mem_cons] at h
    rcases h with h | h
    · exact ⟨e, by simp, h⟩
    · obtain ⟨e', he', hx⟩ := ih h
      exact ⟨e', by simp [he'], hx⟩
theorem R13L_swap (es : List AnnExpr) (h : R13_typingDedupL look (swapOptL es) = false) :
    ∀ e ∈ es, R13_typingDedup look (swapOpt e) = false := by
  induction es with
  | nil => simp
  | cons e es ih =>
    simp only [swapOptL, R13_typingDedupL, Bool.or_eq_false_iff] at h
    intro x hx
    simp only [List.mem_cons] at hx
    rcases hx with rfl | hx
    · exact h.1
    · exact ih h.2 x hx

theorem normOK {args : List AnnExpr} (h : normMatters look args = false) (au : Bool) :
    rtEval look au (mkTUnion args) = rtUnionOf look args := by
  simp only [normMatters, Bool.not_eq_false', Bool.and_eq_true] at h
  cases au
  · exact optResSame_eq h.1
  · exact optResSame_eq h.2

/-- **Main lemma.** Outside the exception classes the AST route on `e` computes exactly what the
runtime route computes on the object `typing` builds for `e` with every `Optional[X]` read as
`Union[None, X]`. -/
theorem agree_main (e : AnnExpr) :
    supp true e = true → e.starU = false →
    R13_typingDedup look (swapOpt e) = false → Agree look e := by
  induction e using annInd with
  | cls c | none | anyT | newtype n c | bare c | tupE o =>
    intro _ _ _ au; simp [astEval, rtEval, swapOpt, tnorm]
  | gen o c args ih =>
    intro hs hst hr au
    simp only [supp, Bool.and_eq_true] at hs
    simp only [AnnExpr.starU] at hst
    simp only [swapOpt, R13_typingDedup] at hr
    have := agreeL args fun e he => ih e he (supp_mono e ((suppL_iff _).1 hs.2 e he))
      ((starUL_false _).1 hst e he) (R13L_swap _ hr e he)
    simp only [astEval, swapOpt, tnorm, rtEval, this]
  | tup o ms ih =>
    intro hs hst hr au
    simp only [supp, Bool.and_eq_true] at hs
    simp only [AnnExpr.starU] at hst
    simp only [swapOpt, R13_typingDedup] at hr
    have := agreeM ms fun e he => ih e he ((suppM_iff _).1 hs.1.2 e he)
      ((starUL_false _).1 hst e he) (R13L_swap _ hr e he)
    simp only [astEval, swapOpt, tnorm, rtEval, this]
  | tupV o e ih =>
    intro hs hst hr au
    simp only [supp] at hs
    simp only [AnnExpr.starU] at hst
    simp only [swapOpt, R13_typingDedup] at hr
    simp only [astEval, swapOpt, tnorm, rtEval, ih (supp_mono e hs) hst hr false]
  | typ o e ih =>
    intro hs hst hr au
    simp only [supp, Bool.and_eq_true] at hs
    simp only [AnnExpr.starU] at hst
    simp only [swapOpt, R13_typingDedup] at hr
    simp only [astEval, swapOpt, tnorm, rtEval, ih (supp_mono e hs.2) hst hr false]
  | unpack e ih =>
    intro hs hst hr au
    simp only [supp, Bool.and_eq_true] at hs
    simp only [AnnExpr.starU] at hst
    simp only [swapOpt, R13_typingDedup] at hr
    simp only [astEval, swapOpt, tnorm, rtEval, ih (supp_mono e hs.2) hst hr false, starCount_zero e hst]
    simp [errAny]
  | star e ih => intro _ hst; simp [AnnExpr.starU] at hst
  | final e ih | classVar e ih =>
    intro hs hst hr au
    simp only [supp] at hs
    simp only [AnnExpr.starU] at hst
    simp only [swapOpt, R13_typingDedup] at hr
    simp only [astEval, swapOpt, tnorm, rtEval, ih (supp_mono e hs) hst hr false]
  | lit os =>
    intro _ _ hr au
    simp only [swapOpt, R13_typingDedup, litMatters, Bool.not_eq_false'] at hr
    have h := optResSame_eq hr
    simp only [swapOpt, tnorm, astEval, rtEval] at h ⊢
    exact h.symm
  | ann e k ih =>
    intro hs hst hr au
    simp only [supp, Bool.and_eq_true] at hs
    simp only [AnnExpr.starU] at hst
    simp only [swapOpt, R13_typingDedup] at hr
    have ihe := ih (supp_mono e hs.2) hst hr
    have hau := astEval_au' (look := look) e hs.2 au
    simp only [astEval, swapOpt, tnorm]
    split
    · rename_i c k' hX
      have h1 := ihe au
      rw [hX] at h1
      simp only [rtEval] at h1 ⊢
      rw [hau, h1]
      cases rtEval look au c <;> simp [annotateK_add]
    · rename_i hX
      simp only [rtEval]
      rw [hau, ihe au]
  | opt e ih =>
    intro hs hst hr au
    simp only [supp] at hs
    simp only [AnnExpr.starU] at hst
    simp only [swapOpt, R13_typingDedup, R13_typingDedupL, Bool.or_eq_false_iff] at hr
    have ihe := ih (supp_mono e hs) hst hr.1.2.1 false
    simp only [swapOpt, tnorm]
    rw [normOK hr.2 au]
    have hn : tnorm AnnExpr.none = AnnExpr.none := by simp [tnorm]
    simp only [rtUnionOf, tnormL, rtEvalL, hn, astEval, ihe]
    cases rtEval look false (tnorm (swapOpt e)) <;> simp [rtEval, ok]
  | union es ih =>
    intro hs hst hr au
    simp only [supp, Bool.and_eq_true] at hs
    simp only [AnnExpr.starU] at hst
    simp only [swapOpt, R13_typingDedup, Bool.or_eq_false_iff] at hr
    have := agreeL es fun e he => ih e he (supp_mono e ((suppL_iff _).1 hs.2 e he))
      ((starUL_false _).1 hst e he) (R13L_swap _ hr.1 e he)
    simp only [swapOpt, tnorm]
    rw [normOK hr.2 au]
    simp only [rtUnionOf, astEval, this]
  | bor a b iha ihb =>
    intro hs hst hr au
    simp only [supp, Bool.and_eq_true] at hs
    simp only [AnnExpr.starU, Bool.or_eq_false_iff] at hst
    simp only [swapOpt, R13_typingDedup, Bool.or_eq_false_iff] at hr
    have ha := iha (supp_mono a hs.1) hst.1 hr.1.1 false
    have hb := ihb (supp_mono b hs.2) hst.2 hr.1.2 false
    simp only [swapOpt, tnorm]
    rw [normOK hr.2 au]
    simp only [rtUnionOf, rtEvalL, astEval, ha, hb]
    cases rtEval look false (tnorm (swapOpt a)) <;> cases rtEval look false (tnorm (swapOpt b)) <;> simp
  | str e ih =>
    intro _ _ _ au
    simp [astEval, rtEval, swapOpt, tnorm]
  | name n =>
    intro _ _ _ au
    simp [astEval, rtEval, swapOpt, tnorm]
  | dotted n p =>
    intro _ _ _ au
    simp [astEval, rtEval, swapOpt, tnorm]

/-! ### 5. def headers -/

/-- **name resolution**: the visitor's scope walk and the two `globals`-then-`builtins` lookups are
the same function -/
theorem lookups_eq (env : NameEnv) :
    visLookup env = globalsLookup env ∧ defaultLookup env = globalsLookup env := by
  refine ⟨funext fun n => ?_, rfl⟩
  simp [visLookup, scopeLookup, globalsLookup]

theorem attrKey_ge (k a : Nat) : attrBase ≤ attrKey k a := by
  unfold attrKey; omega

theorem chain_congr (l1 l2 : Lookup) (hattr : ∀ n, attrBase ≤ n → l1 n = l2 n) (p : List Nat) :
    ∀ t, chain l1 t p = chain l2 t p := by
  induction p with
  | nil => intro t; cases t <;> rfl
  | cons a p ih =>
    intro t
    cases t <;> simp only [chain]
    rename_i k
    rw [hattr _ (attrKey_ge k a)]
    cases l2 (attrKey k a) <;> simp [ih]

theorem resolveVL_congr (l1 l2 : Lookup) (es : List AnnExpr)
    (ih : ∀ e ∈ es, (∀ n ∈ e.outerNames, l1 n = l2 n) → resolveV l1 e = resolveV l2 e)
    (h : ∀ n ∈ AnnExpr.outerNamesL es, l1 n = l2 n) : resolveVL l1 es = resolveVL l2 es := by
  induction es with
  | nil => rfl
  | cons e es ihl =>
    simp only [AnnExpr.outerNamesL, List.mem_append] at h
    simp only [resolveVL]
    rw [ih e (by simp) fun n hn => h n (.inl hn),
      ihl (fun x hx => ih x (by simp [hx])) fun n hn => h n (.inr hn)]

/-- two lookups that agree on the names outside strings — and on attributes — resolve the expression alike -/
theorem resolveV_congr (l1 l2 : Lookup) (hattr : ∀ n, attrBase ≤ n → l1 n = l2 n) (e : AnnExpr) :
    (∀ n ∈ e.outerNames, l1 n = l2 n) → resolveV l1 e = resolveV l2 e := by
  induction e using annInd with
  | gen o c args ih | tup o args ih | union args ih =>
    intro h
    simp only [AnnExpr.outerNames] at h
    simp only [resolveV]
    rw [resolveVL_congr l1 l2 _ ih h]
  | bor a b iha ihb =>
    intro h
    simp only [AnnExpr.outerNames, List.mem_append] at h
    simp only [resolveV]
    rw [iha fun n hn => h n (.inl hn), ihb fun n hn => h n (.inr hn)]
  | name n =>
    intro h
    simp only [resolveV, h n (by simp [AnnExpr.outerNames])]
  | dotted n p =>
    intro h
    have hn := h n (by simp [AnnExpr.outerNames])
    simp only [resolveV, resolveDotted, hn]
    cases l2 n with
    | none => rfl
    | some t => simp only [chain_congr l1 l2 hattr p t]
  | _ => intro h; simp_all [resolveV, AnnExpr.outerNames]

theorem withAttrs_attr (attrs : Bindings) (f g : Lookup) (n : Nat) (h : attrBase ≤ n) :
    withAttrs attrs f n = withAttrs attrs g n := by
  have : ¬ n < attrBase := by omega
  simp [withAttrs, this]

theorem astEvalL_resolveV (look : Lookup) (es : List AnnExpr)
    (ih : ∀ e ∈ es, ∀ au, astEval look au (resolveV look e) = astEval look au e) :
    astEvalL look (resolveVL look es) = astEvalL look es := by
  induction es with
  | nil => rfl
  | cons e es ihl =>
    simp only [resolveVL, astEvalL]
    rw [ih e (by simp) false, ihl fun x hx => ih x (by simp [hx])]

theorem astEvalM_resolveV (look : Lookup) (es : List AnnExpr)
    (ih : ∀ e ∈ es, ∀ au, astEval look au (resolveV look e) = astEval look au e) :
    astEvalM look (resolveVL look es) = astEvalM look es := by
  induction es with
  | nil => rfl
  | cons e es ihl =>
    simp only [resolveVL, astEvalM]
    rw [ih e (by simp) true, ihl fun x hx => ih x (by simp [hx])]

theorem starCountL_resolveV (look : Lookup) (es : List AnnExpr)
    (h : ∀ e ∈ es, (resolveV look e).starCount = e.starCount) :
    AnnExpr.starCountL (resolveVL look es) = AnnExpr.starCountL es := by
  induction es with
  | nil => simp [resolveVL]
  | cons e es ih =>
    simp only [resolveVL, AnnExpr.starCountL]
    rw [h e (by simp), ih fun x hx => h x (by simp [hx])]

theorem starCount_resolveV (look : Lookup) (e : AnnExpr) : (resolveV look e).starCount = e.starCount := by
  induction e using annInd with
  | gen o c args ih | tup o args ih | union args ih =>
    simp only [resolveV, AnnExpr.starCount]; exact starCountL_resolveV look _ ih
  | bor a b iha ihb => simp [resolveV, AnnExpr.starCount, iha, ihb]
  | name n =>
    simp only [resolveV]
    cases h : look n with
    | none => rfl
    | some t => cases t <;> simp [NameTarget.toAnn, AnnExpr.starCount]
  | dotted n p =>
    simp only [resolveV]
    cases h : resolveDotted look n p with
    | none => rfl
    | some t => cases t <;> simp [NameTarget.toAnn, AnnExpr.starCount]
  | _ => simp_all [resolveV, AnnExpr.starCount]

theorem starUL_resolveV (look : Lookup) (es : List AnnExpr)
    (h : ∀ e ∈ es, (resolveV look e).starU = e.starU) :
    AnnExpr.starUL (resolveVL look es) = AnnExpr.starUL es := by
  induction es with
  | nil => simp [resolveVL]
  | cons e es ih =>
    simp only [resolveVL, AnnExpr.starUL]
    rw [h e (by simp), ih fun x hx => h x (by simp [hx])]

/-- replacing names by the objects they are bound to introduces no starred member -/
theorem starU_resolveV (look : Lookup) (e : AnnExpr) : (resolveV look e).starU = e.starU := by
  induction e using annInd with
  | gen o c args ih | tup o args ih | union args ih =>
    simp only [resolveV, AnnExpr.starU]; exact starUL_resolveV look _ ih
  | bor a b iha ihb => simp [resolveV, AnnExpr.starU, iha, ihb]
  | name n =>
    simp only [resolveV]
    cases h : look n with
    | none => rfl
    | some t => cases t <;> simp [NameTarget.toAnn, AnnExpr.starU]
  | dotted n p =>
    simp only [resolveV]
    cases h : resolveDotted look n p with
    | none => rfl
    | some t => cases t <;> simp [NameTarget.toAnn, AnnExpr.starU]
  | _ => simp_all [resolveV, AnnExpr.starU]

/-- an annotation in checked source without a starred member: a quoted one is the AST route, an
unquoted one is the runtime route on the object the expression evaluates to (names resolved by the
visitor) -/
theorem vis_eq_rt (env : NameEnv) (a : AnnExpr) (au : Bool) (h : a.starU = false) :
    visEval env au a = rtEval (visLookup env) au (tnorm (resolveV (visLookup env) a)) := by
  have hs : (resolveV (visLookup env) a).starU = false := by rw [starU_resolveV]; exact h
  cases a <;> simp only [visEval] <;> (try rw [squash_id _ hs])
  simp [resolveV, tnorm, rtEval]

theorem zipLongest_nil_right {α β : Type} (A : List α) :
    zipLongest A ([] : List β) = A.map (fun a => (some a, none)) := by
  induction A <;> simp_all [zipLongest]

theorem zipLongest_append {α β : Type} (A1 A2 : List α) (B1 B2 : List β) (h : A1.length = B1.length) :
    zipLongest (A1 ++ A2) (B1 ++ B2) = zipLongest A1 B1 ++ zipLongest A2 B2 := by
  induction A1 generalizing B1 with
  | nil => cases B1 <;> simp_all [zipLongest]
  | cons a A1 ih =>
    cases B1 with
    | nil => simp at h
    | cons b B1 =>
      simp only [List.cons_append, zipLongest, List.cons.injEq, true_and]
      exact ih B1 (by simpa using h)

theorem zipLongest_eq_zipWith {α β : Type} (A : List α) (B : List β) (h : A.length = B.length) :
    zipLongest A B = List.zipWith (fun a b => (some a, some b)) A B := by
  induction A generalizing B with
  | nil => cases B <;> simp_all [zipLongest]
  | cons a A ih =>
    cases B with
    | nil => simp at h
    | cons b B => simp only [zipLongest, List.zipWith_cons_cons, List.cons.injEq, true_and]; exact ih B (by simpa using h)

/-- normal form of a header: the parameters in order with their kind and source-level default
(index-based alignment, as CPython does it) -/
def posNF (nPosOnly nPos : Nat) (defaults : List Dflt) : Nat → List PArg → List (Kind × PArg × Option Dflt)
  | _, [] => []
  | i, a :: as =>
    (if i < nPosOnly then Kind.posOnly else Kind.posOrKw, a, posDefault nPos defaults i) ::
      posNF nPosOnly nPos defaults (i + 1) as

def kwNF : List PArg → List (Option Dflt) → List (Kind × PArg × Option Dflt)
  | [], _ => []
  | a :: as, ds => (Kind.kwOnly, a, ds.headD none) :: kwNF as ds.tail

def nf (d : DefArgs) : List (Kind × PArg × Option Dflt) :=
  posNF d.posonly.length (d.posonly ++ d.args).length d.defaults 0 (d.posonly ++ d.args) ++
  (match d.vararg with | some a => [(Kind.varPos, a, none)] | none => []) ++
  kwNF d.kwonly d.kwDefaults ++
  (match d.kwarg with | some a => [(Kind.varKw, a, none)] | none => [])

def toIParam (env : NameEnv) (future : Bool) (x : Kind × PArg × Option Dflt) : IParam :=
  ⟨x.2.1.name, x.1, x.2.2, x.2.1.ann.map (annObject env future)⟩

theorem inspPositional_nf (future : Bool) (nPos nPosOnly : Nat) (ds : List Dflt) (as : List PArg) (i : Nat) :
    inspPositional env future nPos nPosOnly ds i as = (posNF nPosOnly nPos ds i as).map (toIParam env future) := by
  induction as generalizing i with
  | nil => simp [inspPositional, posNF]
  | cons a as ih => simp [inspPositional, posNF, toIParam, ih]

theorem inspKwonly_nf (future : Bool) (as : List PArg) (ds : List (Option Dflt)) :
    inspKwonly env future as ds = (kwNF as ds).map (toIParam env future) := by
  induction as generalizing ds with
  | nil => simp [inspKwonly, kwNF]
  | cons a as ih => simp [inspKwonly, kwNF, toIParam, ih]

theorem inspectOf_nf (d : DefArgs) :
    (inspectOf env d).params = (nf d).map (toIParam env d.future) := by
  simp only [inspectOf, nf, List.map_append, inspPositional_nf, inspKwonly_nf]
  cases d.vararg <;> cases d.kwarg <;> simp [toIParam]

theorem posNF_getElem? (n N : Nat) (ds : List Dflt) (as : List PArg) (j i : Nat) :
    (posNF n N ds j as)[i]? =
      as[i]?.map fun a => (if j + i < n then Kind.posOnly else Kind.posOrKw, a, posDefault N ds (j + i)) := by
  induction as generalizing j i with
  | nil => simp [posNF]
  | cons a as ih =>
    cases i with
    | zero => simp [posNF]
    | succ i =>
      simp only [posNF, List.getElem?_cons_succ, ih]
      have : j + 1 + i = j + (i + 1) := by omega
      rw [this]

/-- what `defLoop` reads of one zipped entry -/
def flatZ (x : Option (Kind × PArg) × Option (Option DVal)) : Option (Kind × PArg) × Option DVal :=
  (x.1, x.2.getD none)

def nfZ (x : Kind × PArg × Option Dflt) : Option (Kind × PArg) × Option DVal :=
  (some (x.1, x.2.1), x.2.2.map visitDefault)

theorem zip_pos (po ar : List PArg) (ds : List Dflt) (h : ds.length ≤ po.length + ar.length) :
    (zipLongest (po.map (fun a => (Kind.posOnly, a)) ++ ar.map (fun a => (Kind.posOrKw, a)))
      (List.replicate (ar.length + po.length - ds.length) none ++ ds.map (fun x => some (visitDefault x)))).map flatZ
    = (posNF po.length (po ++ ar).length ds 0 (po ++ ar)).map nfZ := by
  rw [zipLongest_eq_zipWith _ _ (by simp; omega)]
  apply List.ext_getElem?
  intro i
  simp only [List.getElem?_map, List.getElem?_zipWith, posNF_getElem?, List.getElem?_append,
    List.length_map, List.getElem?_replicate, List.length_replicate, List.length_append, Nat.zero_add]
  rw [Nat.add_comm ar.length po.length]
  generalize hm : po.length + ar.length - ds.length = m
  have hposD : posDefault (po.length + ar.length) ds i = if i < m then none else ds[i - m]? := by
    simp [posDefault, hm]
  rw [hposD]
  by_cases h1 : i < po.length
  · have hpo : po[i]? = some po[i] := List.getElem?_eq_getElem h1
    by_cases h2 : i < m
    · simp [h1, h2, flatZ, nfZ]
    · have hd : i - m < ds.length := by omega
      simp [h1, h2, flatZ, nfZ, List.getElem?_eq_getElem hd]
  · by_cases h3 : i - po.length < ar.length
    · have har : ar[i - po.length]? = some ar[i - po.length] := List.getElem?_eq_getElem h3
      by_cases h2 : i < m
      · simp [h1, h2, har, flatZ, nfZ]
      · have hd : i - m < ds.length := by omega
        simp [h1, h2, har, flatZ, nfZ, List.getElem?_eq_getElem hd]
    · have har : ar[i - po.length]? = none := List.getElem?_eq_none (by omega)
      simp [h1, har]

theorem zip_kw (ko : List PArg) (kd : List (Option Dflt)) (h : kd.length = ko.length) :
    (zipLongest (ko.map (fun a => (Kind.kwOnly, a))) (kd.map (fun x => x.map visitDefault))).map flatZ
    = (kwNF ko kd).map nfZ := by
  induction ko generalizing kd with
  | nil => cases kd <;> simp_all [zipLongest, kwNF]
  | cons a ko ih =>
    cases kd with
    | nil => simp at h
    | cons x kd =>
      simp only [List.map_cons, zipLongest, kwNF, List.headD_cons, List.tail_cons, List.cons.injEq]
      exact ⟨by simp [flatZ, nfZ], ih kd (by simpa using h)⟩

theorem zip_nf (d : DefArgs) (hwf : d.WF = true) :
    (zipLongest d.kinded d.alignedDefaults).map flatZ = (nf d).map nfZ := by
  simp only [DefArgs.WF, Bool.and_eq_true, decide_eq_true_eq, beq_iff_eq] at hwf
  obtain ⟨h1, h2⟩ := hwf
  have hva : (match d.vararg with | some a => [(Kind.varPos, a)] | none => []).length =
      (match d.vararg with | some _ => [(none : Option DVal)] | none => []).length := by
    cases d.vararg <;> rfl
  have e1 : d.alignedDefaults = d.alignedDefaults ++ [] := by simp
  unfold DefArgs.kinded
  rw [e1]
  unfold DefArgs.alignedDefaults
  rw [zipLongest_append _ _ _ _ (by simp; cases d.vararg <;> simp <;> omega),
    zipLongest_append _ _ _ _ (by simp; cases d.vararg <;> simp <;> omega),
    zipLongest_append _ _ _ _ (by simp; omega)]
  simp only [List.map_append, nf]
  rw [zip_pos _ _ _ h1, zip_kw _ _ h2, zipLongest_nil_right]
  cases d.vararg <;> cases d.kwarg <;> simp [zipLongest, flatZ, nfZ]

/-- the common shape of the two parameter loops on the normal form: compute the parameter, and when it
is a positional-or-keyword `__x`, make it and everything accumulated so far positional-only -/
def accLoop (f : Nat → Kind × PArg × Option Dflt → Option SigParam) :
    Nat → List SigParam → List (Kind × PArg × Option Dflt) → Option (List SigParam)
  | _, acc, [] => some acc
  | i, acc, x :: rest =>
    match f i x with
    | none => none
    | some p =>
      if x.1 == Kind.posOrKw && isDunderName x.2.1.name then
        accLoop f (i + 1) (acc.map (fun q => { q with kind := Kind.posOnly }) ++ [{ p with kind := Kind.posOnly }]) rest
      else accLoop f (i + 1) (acc ++ [p]) rest

theorem defLoop_nf (eval : Bool → AnnExpr → Option Res) (m : Option Cls)
    (N : List (Kind × PArg × Option Dflt)) :
    ∀ (i : Nat) (acc : List SigParam) (L : List (Option (Kind × PArg) × Option (Option DVal))),
      L.map flatZ = N.map nfZ →
      defLoop eval m i acc L =
        accLoop (fun i x => defParam eval m i x.1 x.2.1 (x.2.2.map visitDefault)) i acc N := by
  induction N with
  | nil => intro i acc L h; cases L <;> simp_all [defLoop, accLoop]
  | cons x N ih =>
    intro i acc L h
    cases L with
    | nil => simp at h
    | cons y L =>
      simp only [List.map_cons, List.cons.injEq] at h
      obtain ⟨k, a, df⟩ := x
      obtain ⟨y1, y2⟩ := y
      simp only [flatZ, nfZ, Prod.mk.injEq] at h
      obtain ⟨⟨hy1, hy2⟩, hL⟩ := h
      subst hy1
      simp only [defLoop, accLoop, hy2]
      cases defParam eval m i k a (Option.map visitDefault df) with
      | none => rfl
      | some p =>
        simp only
        split <;> exact ih _ _ L hL

theorem inspLoop_nf (m : Option Cls) (fut : Bool) (N : List (Kind × PArg × Option Dflt)) :
    ∀ (i : Nat) (acc : List SigParam),
      inspLoop look m i acc (N.map (toIParam env fut)) = accLoop (fun i x => inspParam look m i (toIParam env fut x)) i acc N := by
  induction N with
  | nil => intro i acc; simp [inspLoop, accLoop]
  | cons x N ih =>
    intro i acc
    simp only [List.map_cons, inspLoop, accLoop]
    cases inspParam look m i (toIParam env fut x) with
    | none => rfl
    | some p =>
      have hc : ((toIParam env fut x).kind == Kind.posOrKw && isDunderName (toIParam env fut x).name) =
          (x.1 == Kind.posOrKw && isDunderName x.2.1.name) := rfl
      simp only [hc]
      by_cases h : (x.1 == Kind.posOrKw && isDunderName x.2.1.name) = true
      · simp only [h, if_true]; exact ih _ _
      · simp only [h]; exact ih _ _

/-- the in-source reading of an annotation and the runtime reading of the object `inspect` reports
for it coincide -/
def AnnOK (env : NameEnv) (fut : Bool) (e : AnnExpr) : Prop :=
  ∀ au, visEval env au e = rtEval (globalsLookup env) au (annObject env fut e)

/-- per-parameter side condition of the exact agreement: the annotation is read alike by both
routes; an unannotated parameter has no default and is not `*args` / `**kwargs` -/
def ParamOK (env : NameEnv) (fut : Bool) (x : Kind × PArg × Option Dflt) : Prop :=
  (∀ e, x.2.1.ann = some e → AnnOK env fut e) ∧
  (x.2.1.ann = none → x.2.2 = none ∧ x.1 ≠ Kind.varPos ∧ x.1 ≠ Kind.varKw)

theorem dflt_core (df : Option Dflt) :
    (df.map visitDefault).map DVal.erase =
      (df.map fun | Dflt.lit o => DVal.known o | Dflt.ellipsis => DVal.knownEllipsis).map DVal.erase := by
  cases df with
  | none => rfl
  | some x => cases x <;> rfl

theorem param_core (fut : Bool) (i : Nat) (x : Kind × PArg × Option Dflt) (h : ParamOK env fut x) :
    (defParam (visEval env) none i x.1 x.2.1 (x.2.2.map visitDefault)).map SigParam.core =
      (inspParam (globalsLookup env) none i (toIParam env fut x)).map SigParam.core := by
  obtain ⟨k, a, df⟩ := x
  obtain ⟨h1, h2⟩ := h
  simp only at h1 h2
  cases ha : a.ann with
  | some e =>
    simp only [defParam, inspParam, toIParam, ha, Option.map_some, h1 e ha (allowUnpackK k)]
    cases rtEval (globalsLookup env) (allowUnpackK k) (annObject env fut e) with
    | none => simp
    | some r =>
      simp [SigParam.core]
      cases df with
      | none => rfl
      | some x => cases x <;> rfl
  | none =>
    obtain ⟨hdf, hk1, hk2⟩ := h2 ha
    subst hdf
    cases k <;> cases i <;> simp_all [defParam, inspParam, toIParam, translateVararg, SigParam.core]

theorem core_setKind (p : SigParam) (k : Kind) :
    SigParam.core { p with kind := k } = ((SigParam.core p).1, k, (SigParam.core p).2.2) := by
  simp [SigParam.core]

theorem map_core_setKind {acc acc' : List SigParam} (h : acc.map SigParam.core = acc'.map SigParam.core)
    (k : Kind) :
    (acc.map fun q => { q with kind := k }).map SigParam.core =
      (acc'.map fun q => { q with kind := k }).map SigParam.core := by
  have := congrArg (List.map fun c : String × Kind × Option (Option Obj) × Ty × Nat => (c.1, k, c.2.2)) h
  simpa [SigParam.core, Function.comp_def] using this

/-- two instances of the loop whose per-parameter results have the same compared components produce
lists with the same compared components -/
theorem accLoop_core (f g : Nat → Kind × PArg × Option Dflt → Option SigParam)
    (N : List (Kind × PArg × Option Dflt))
    (h : ∀ x ∈ N, ∀ i, (f i x).map SigParam.core = (g i x).map SigParam.core) :
    ∀ (i : Nat) (acc acc' : List SigParam), acc.map SigParam.core = acc'.map SigParam.core →
      (accLoop f i acc N).map (·.map SigParam.core) = (accLoop g i acc' N).map (·.map SigParam.core) := by
  induction N with
  | nil => intro i acc acc' ha; simp [accLoop, ha]
  | cons x N ih =>
    intro i acc acc' ha
    have hx := h x (by simp) i
    have ihN := ih fun y hy => h y (by simp [hy])
    simp only [accLoop]
    cases hf : f i x <;> cases hg : g i x <;> simp only [hf, hg, Option.map_none, Option.map_some] at hx ⊢
    · simp at hx
    · simp at hx
    · rename_i p q
      have hpq : SigParam.core p = SigParam.core q := by simpa using hx
      split
      · apply ihN
        simp only [List.map_append, List.map_cons, List.map_nil, map_core_setKind ha, core_setKind, hpq]
      · apply ihN
        simp only [List.map_append, List.map_cons, List.map_nil, ha, hpq]

theorem posNF_args (n N : Nat) (ds : List Dflt) (as : List PArg) (j : Nat) :
    (posNF n N ds j as).map (·.2.1) = as := by
  induction as generalizing j <;> simp_all [posNF]
theorem kwNF_args (as : List PArg) (ds : List (Option Dflt)) : (kwNF as ds).map (·.2.1) = as := by
  induction as generalizing ds <;> simp_all [kwNF]
theorem nf_args (d : DefArgs) : (nf d).map (·.2.1) = d.allArgs := by
  simp only [nf, DefArgs.allArgs, List.map_append, posNF_args, kwNF_args]
  cases d.vararg <;> cases d.kwarg <;> simp

/-- the exact agreement of the two signature routes on the compared components, given that every
annotation of the header is read alike by the two routes -/
theorem params_agree_core (d : DefArgs) (hwf : d.WF = true) (hm : d.methodOf = none)
    (hR : R13_unannotated d = false)
    (hann : ∀ a ∈ d.allArgs, ∀ e, a.ann = some e → AnnOK env d.future e)
    (hret : ∀ e, d.returns = some e → AnnOK env d.future e) :
    (fromDef env d).map SigOut.core = (fromRuntime env d).map SigOut.core := by
  have hnf := inspectOf_nf (env := env) d
  have hok : ∀ x ∈ nf d, ParamOK env d.future x := by
    intro x hx
    have hmem : x.2.1 ∈ d.allArgs := by
      rw [← nf_args]; exact List.mem_map_of_mem hx
    refine ⟨fun e he => hann _ hmem e he, fun hn => ?_⟩
    have hnf0 := inspectOf_nf (env := default) d
    simp only [R13_unannotated, hnf0, List.any_map, List.any_eq_false] at hR
    have := hR x hx
    simp only [Function.comp, toIParam, hn, Option.map_none, Option.isNone_none, Bool.true_and,
      Bool.or_eq_true, not_or] at this
    obtain ⟨⟨h1, h2⟩, h3⟩ := this
    refine ⟨by cases hx2 : x.2.2 <;> simp_all, by intro hk; simp [hk] at h2, by intro hk; simp [hk] at h3⟩
  have hloop := accLoop_core
    (fun i x => defParam (visEval env) none i x.1 x.2.1 (x.2.2.map visitDefault))
    (fun i x => inspParam (globalsLookup env) none i (toIParam env d.future x)) (nf d)
    (fun x hx i => param_core d.future i x (hok x hx)) 0 [] [] rfl
  unfold fromDef fromRuntime fromDefWith fromInspect
  rw [defLoop_nf (visEval env) d.methodOf (nf d) 0 [] _ (zip_nf d hwf), hnf, inspLoop_nf]
  simp only [inspectOf, hm] at hloop ⊢
  cases h1 : accLoop (fun i x => defParam (visEval env) none i x.1 x.2.1 (x.2.2.map visitDefault)) 0 [] (nf d) <;>
    cases h2 : accLoop (fun i x => inspParam (globalsLookup env) none i (toIParam env d.future x)) 0 [] (nf d) <;>
    simp only [h1, h2, Option.map_none, Option.map_some] at hloop ⊢
  · simp at hloop
  · simp at hloop
  · rename_i ps qs
    have hpq : ps.map SigParam.core = qs.map SigParam.core := by simpa using hloop
    cases hr : d.returns with
    | none => simp [SigOut.core, hpq]
    | some e =>
      simp only [Option.map_some, hret e hr false]
      cases rtEval (globalsLookup env) false (annObject env d.future e) <;> simp [SigOut.core, hpq]

/-- reading the expression lazily (names looked up where they stand) or after replacing the names
outside strings by the objects they are bound to is the same for the AST route -/
theorem astEval_resolveV (look : Lookup) (e : AnnExpr) :
    ∀ au, astEval look au (resolveV look e) = astEval look au e := by
  induction e using annInd with
  | gen o c args ih => intro au; simp only [resolveV, astEval, astEvalL_resolveV look _ ih]
  | union args ih => intro au; simp only [resolveV, astEval, astEvalL_resolveV look _ ih]
  | tup o args ih => intro au; simp only [resolveV, astEval, astEvalM_resolveV look _ ih]
  | bor a b iha ihb => intro au; simp only [resolveV, astEval, iha false, ihb false]
  | unpack e ih => intro au; simp only [resolveV, astEval, ih false, starCount_resolveV]
  | tupV o e ih | typ o e ih | ann e k ih | final e ih | classVar e ih | opt e ih =>
    intro au; simp only [resolveV, astEval, ih false]
  | name n =>
    intro au
    simp only [resolveV]
    cases h : look n with
    | none => rfl
    | some t => cases t <;> simp [NameTarget.toAnn, astEval, h, NameTarget.ty]
  | dotted n p =>
    intro au
    simp only [resolveV]
    cases h : resolveDotted look n p with
    | none => rfl
    | some t => cases t <;> simp [NameTarget.toAnn, astEval, h, NameTarget.ty]
  | star e ih => intro au; simp [resolveV, astEval]
  | _ => intro au; simp [resolveV]

/-- without `from __future__ import annotations`: no starred member, and names not rebound after
the def, suffice -/
theorem annOK_now (env : NameEnv) (e : AnnExpr) (h : e.starU = false) (hn : stableNames env e = true) :
    AnnOK env false e := by
  intro au
  simp only [annObject, Bool.false_eq_true, if_false]
  rw [vis_eq_rt env e au h, (lookups_eq env).1]
  have : resolveV (pyLookup env) e = resolveV (globalsLookup env) e := by
    apply resolveV_congr (pyLookup env) (globalsLookup env)
      (fun n hn => by unfold pyLookup globalsLookup; exact withAttrs_attr env.attrs _ _ n hn)
    intro n hm
    simp only [stableNames, List.all_eq_true, decide_eq_true_eq] at hn
    rw [hn n hm, (lookups_eq env).1]
  rw [this]

theorem swapOpt_id (e : AnnExpr) : e.hasOpt = false → swapOpt e = e := by
  induction e using annInd with
  | gen o c args ih | tup o args ih | union args ih =>
    intro h
    simp only [AnnExpr.hasOpt] at h
    simp only [swapOpt]
    congr 1
    have : ∀ es : List AnnExpr, (∀ e ∈ es, swapOpt e = e) → swapOptL es = es := by
      intro es hes
      induction es with
      | nil => rfl
      | cons x xs ihx =>
        simp only [swapOptL]
        rw [hes x (by simp), ihx fun y hy => hes y (by simp [hy])]
    exact this _ fun e he => ih e he ((hasOptL_false _).1 h e he)
  | bor a b iha ihb =>
    intro h
    simp only [AnnExpr.hasOpt, Bool.or_eq_false_iff] at h
    simp [swapOpt, iha h.1, ihb h.2]
  | opt e ih => intro h; simp [AnnExpr.hasOpt] at h
  | _ => intro h; simp_all [swapOpt, AnnExpr.hasOpt]

/-- under `from __future__ import annotations` the function object carries the *text* of the
annotation, so the inspect route reads it by the AST route with names looked up in `f.__globals__`;
the conditions are on `r`, the expression with its names replaced by what the visitor binds them to -/
theorem annOK_future (env : NameEnv) (e : AnnExpr)
    (hs : supp true (resolveV (visLookup env) e) = true) (hst : e.starU = false)
    (hr : R13_typingDedup (visLookup env) (resolveV (visLookup env) e) = false)
    (ho : (resolveV (visLookup env) e).hasOpt = false) : AnnOK env true e := by
  intro au
  simp only [annObject, if_true, rtEval]
  rw [← (lookups_eq env).1]
  have hst' : (resolveV (visLookup env) e).starU = false := by rw [starU_resolveV]; exact hst
  have hsw := swapOpt_id _ ho
  have := agree_main (look := visLookup env) _ hs hst' (by rw [hsw]; exact hr) au
  rw [hsw, astEval_resolveV] at this
  cases e <;> first
    | (simp only [visEval]; rw [squash_id _ hst']; exact this.symm)
    | (simp only [visEval, astEval])

theorem hasStarL_false (es : List AnnExpr) :
    AnnExpr.hasStarL es = false ↔ ∀ e ∈ es, e.hasStar = false := by
  induction es <;> simp_all [AnnExpr.hasStarL]

/-- no starred member anywhere ⇒ none outside strings -/
theorem hasStar_starU (e : AnnExpr) : e.hasStar = false → e.starU = false := by
  induction e using annInd with
  | gen o c args ih | tup o args ih | union args ih =>
    intro h
    simp only [AnnExpr.hasStar] at h
    simp only [AnnExpr.starU]
    exact (starUL_false _).2 fun e he => ih e he ((hasStarL_false _).1 h e he)
  | bor a b iha ihb =>
    intro h
    simp only [AnnExpr.hasStar, Bool.or_eq_false_iff] at h
    simp [AnnExpr.starU, iha h.1, ihb h.2]
  | _ => intro h; simp_all [AnnExpr.starU, AnnExpr.hasStar]

theorem toBindSig_of_core {s t : SigOut} (h : s.core = t.core) :
    toBindSig s = toBindSig t ∧ s.params.map (·.ann) = t.params.map (·.ann) ∧ s.ret = t.ret := by
  simp only [SigOut.core, Prod.mk.injEq] at h
  obtain ⟨hp, hr, _, _⟩ := h
  refine ⟨?_, ?_, hr⟩
  · have := congrArg (List.map fun c : String × Kind × Option (Option Obj) × Ty × Nat =>
      (⟨c.1, c.2.1, c.2.2.1.isSome⟩ : Param)) hp
    simpa [toBindSig, SigParam.core, Function.comp_def] using this
  · have := congrArg (List.map fun c : String × Kind × Option (Option Obj) × Ty × Nat => c.2.2.2.1) hp
    simpa [SigParam.core, Function.comp_def] using this


/-! ### 6. a syntactic sufficient condition for the representation class -/

theorem AnnExpr.beqL_eq_of (xs ys : List AnnExpr) (h : ∀ x ∈ xs, ∀ y, AnnExpr.beq x y = true → x = y)
    (h1 : AnnExpr.beqL xs ys = true) : xs = ys := by
  induction xs generalizing ys with
  | nil => cases ys <;> simp [AnnExpr.beqL] at h1 ⊢
  | cons x xs ih =>
    cases ys with
    | nil => simp [AnnExpr.beqL] at h1
    | cons y ys =>
      simp only [AnnExpr.beqL, Bool.and_eq_true] at h1
      rw [h x (by simp) y h1.1, ih ys (fun z hz => h z (by simp [hz])) h1.2]

theorem AnnExpr.beq_eq (a : AnnExpr) : ∀ b, AnnExpr.beq a b = true → a = b := by
  induction a using annInd with
  | gen o c args ih =>
    intro b h
    cases b <;> simp only [AnnExpr.beq, Bool.false_eq_true, Bool.and_eq_true, beq_iff_eq] at h
    rw [h.1.1, h.1.2, AnnExpr.beqL_eq_of _ _ ih h.2]
  | tup o args ih =>
    intro b h
    cases b <;> simp only [AnnExpr.beq, Bool.false_eq_true, Bool.and_eq_true, beq_iff_eq] at h
    rw [h.1, AnnExpr.beqL_eq_of _ _ ih h.2]
  | union args ih =>
    intro b h
    cases b <;> simp only [AnnExpr.beq, Bool.false_eq_true] at h
    rw [AnnExpr.beqL_eq_of _ _ ih h]
  | bor x y ihx ihy =>
    intro b h
    cases b <;> simp only [AnnExpr.beq, Bool.false_eq_true, Bool.and_eq_true] at h
    rw [ihx _ h.1, ihy _ h.2]
  | tupV o e ih | typ o e ih =>
    intro b h
    cases b <;> simp only [AnnExpr.beq, Bool.false_eq_true, Bool.and_eq_true, beq_iff_eq] at h
    rw [h.1, ih _ h.2]
  | ann e k ih =>
    intro b h
    cases b <;> simp only [AnnExpr.beq, Bool.false_eq_true, Bool.and_eq_true, beq_iff_eq] at h
    rw [h.1, ih _ h.2]
  | unpack e ih | star e ih | final e ih | classVar e ih | opt e ih | str e ih =>
    intro b h
    cases b <;> simp only [AnnExpr.beq, Bool.false_eq_true] at h
    rw [ih _ h]
  | _ =>
    intro b h
    cases b <;> simp_all [AnnExpr.beq]

theorem Obj.eqbL_refl_of (xs : List Obj) (h : ∀ x ∈ xs, Obj.eqb x x = true) : Obj.eqbL xs xs = true := by
  induction xs with
  | nil => simp [Obj.eqbL]
  | cons x xs ih =>
    simp only [Obj.eqbL, Bool.and_eq_true]
    exact ⟨h x (by simp), ih fun y hy => h y (by simp [hy])⟩

theorem Obj.eqb_refl (a : Obj) : Obj.eqb a a = true := by
  induction a using objInd <;> simp_all [Obj.eqb, Obj.eqbL_refl_of]

theorem Ty.eqbL_refl_of (xs : List Ty) (h : ∀ x ∈ xs, Ty.eqb x x = true) : Ty.eqbL xs xs = true := by
  induction xs with
  | nil => simp [Ty.eqbL]
  | cons x xs ih =>
    simp only [Ty.eqbL, Bool.and_eq_true]
    exact ⟨h x (by simp), ih fun y hy => h y (by simp [hy])⟩

theorem Ty.eqb_refl (a : Ty) : Ty.eqb a a = true := by
  induction a using tyInd <;> simp_all [Ty.eqb, Ty.eqbL_refl_of, Obj.eqb_refl]

theorem optResSame_refl (x : Option Res) : optResSame x x = true := by
  cases x <;> simp [optResSame, Res.same, Ty.eqb_refl]

theorem normMatters_plain {args : List AnnExpr} (h : AnnExpr.beq (mkTUnion args) (.union args) = true) :
    normMatters look args = false := by
  have he := AnnExpr.beq_eq _ _ h
  simp only [normMatters, he, rtEval, rtUnionOf, optResSame_refl, Bool.and_self, Bool.not_true]

theorem dedupObjsGo_nodup (acc os : List LitObj) (h : (acc ++ os).Nodup) : dedupObjsGo acc os = acc ++ os := by
  induction os generalizing acc with
  | nil => simp [dedupObjsGo]
  | cons o os ih =>
    have hn : acc.contains o = false := by
      simp only [List.contains_eq_mem, decide_eq_false_iff_not]
      intro hm
      have := List.nodup_append.1 h
      exact this.2.2 o hm o (by simp) rfl
    simp only [dedupObjsGo, hn, Bool.false_eq_true, if_false]
    rw [ih (acc ++ [o]) (by simpa using h)]
    simp

theorem unite_single_known (o : Obj) : unite [.known o] = .known o := by
  simp [unite, flatten1, dedup, dictMem]

theorem litMatters_nodup {os : List LitObj} (h : os.Nodup) : litMatters look os = false := by
  have hd : dedupObjs os = os := by
    simpa [dedupObjs] using dedupObjsGo_nodup [] os (by simpa using h)
  simp only [litMatters, hd, Bool.not_eq_false']
  cases os with
  | nil => simp [rtEval, astEval, optResSame_refl]
  | cons o os =>
    cases os with
    | nil => simp [rtEval, astEval, ok, unite_single_known, optResSame, Res.same, Ty.eqb_refl]
    | cons o' os => simp [rtEval, astEval, optResSame_refl]

theorem plainUnionsL_iff (es : List AnnExpr) :
    plainUnionsL es = true ↔ ∀ e ∈ es, plainUnions e = true := by
  induction es <;> simp_all [plainUnionsL]

/-- where `typing` has nothing to normalise, its normalisation cannot matter -/
theorem plain_R13 (e : AnnExpr) : plainUnions e = true → R13_typingDedup look e = false := by
  induction e using annInd with
  | gen o c args ih | tup o args ih =>
    intro h
    simp only [plainUnions] at h
    simp only [R13_typingDedup]
    exact (R13L_false _).2 fun e he => ih e he ((plainUnionsL_iff _).1 h e he)
  | union args ih =>
    intro h
    simp only [plainUnions, Bool.and_eq_true] at h
    simp only [R13_typingDedup, Bool.or_eq_false_iff]
    exact ⟨(R13L_false _).2 fun e he => ih e he ((plainUnionsL_iff _).1 h.1 e he), normMatters_plain h.2⟩
  | opt e ih =>
    intro h
    simp only [plainUnions, Bool.and_eq_true] at h
    simp only [R13_typingDedup, Bool.or_eq_false_iff]
    exact ⟨ih h.1, normMatters_plain h.2⟩
  | bor a b iha ihb =>
    intro h
    simp only [plainUnions, Bool.and_eq_true] at h
    simp only [R13_typingDedup, Bool.or_eq_false_iff]
    exact ⟨⟨iha h.1.1, ihb h.1.2⟩, normMatters_plain h.2⟩
  | lit os =>
    intro h
    simp only [plainUnions, decide_eq_true_eq] at h
    simp only [R13_typingDedup]
    exact litMatters_nodup h
  | _ => intro h; simp_all [plainUnions, R13_typingDedup]

/-! ### 7. Checker-level state -/

/-- the cache only ever holds, for a function object, the signature computed from that object's own
module environment and header -/
def CacheSound (st : CheckerSt) (run : List (FnId × NameEnv × DefArgs)) : Prop :=
  ∀ id r, (id, r) ∈ st.known → ∀ x ∈ run, x.1 = id → r = fromRuntime x.2.1 x.2.2

theorem lookup_mem {β : Type} (l : List (FnId × β)) (id : FnId) (r : β) (h : l.lookup id = some r) :
    (id, r) ∈ l := by
  induction l with
  | nil => simp at h
  | cons x l ih =>
    obtain ⟨k, v⟩ := x
    by_cases hk : id = k
    · subst hk; simp at h; simp [h]
    · have : (id == k) = false := by simpa using hk
      simp only [List.lookup, this] at h
      exact List.mem_cons_of_mem _ (ih h)

theorem runSt_eq_alone (run : List (FnId × NameEnv × DefArgs))
    (hc : ∀ x ∈ run, ∀ y ∈ run, x.1 = y.1 → x.2 = y.2) :
    ∀ st, CacheSound st run → runSt st run = runAlone run := by
  induction run with
  | nil => intro st _; rfl
  | cons x run ih =>
    intro st hs
    obtain ⟨fid, env, d⟩ := x
    have hc' : ∀ x ∈ run, ∀ y ∈ run, x.1 = y.1 → x.2 = y.2 :=
      fun a ha b hb => hc a (by simp [ha]) b (by simp [hb])
    simp only [runSt, runAlone, List.map_cons, rtSigSt]
    cases hl : st.known.lookup fid with
    | some r =>
      have hr : r = fromRuntime env d := hs fid r (lookup_mem _ _ _ hl) (fid, env, d) (by simp) rfl
      simp only [hr, List.cons.injEq, true_and]
      exact ih hc' st fun i r' hm y hy hi => hs i r' hm y (by simp [hy]) hi
    | none =>
      simp only [List.cons.injEq, true_and]
      apply ih hc'
      intro i r' hm y hy hi
      simp only [List.mem_append, List.mem_singleton, Prod.mk.injEq] at hm
      rcases hm with hm | ⟨h1, h2⟩
      · exact hs i r' hm y (by simp [hy]) hi
      · have := hc (fid, env, d) (by simp) y (by simp [hy]) (by rw [← h1]; exact hi.symm)
        simp only at this
        rw [h2, ← this]

end Pya.C13
