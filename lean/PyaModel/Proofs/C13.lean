import PyaModel.Core.AnnotRoutes
namespace Pya.C13
end Pya.C13
