import PyaModel.Spec.D14
import PyaModel.Spec.Mem
import PyaModel.Proofs.C03
import PyaModel.Proofs.C04Refl
/-!
# Proofs/C14 — helper lemmas for the value algebra (`unite`, `Ty.beq`, `Ty.hashEq`, `subst`)

Sections: (1) `==` on objects is an equivalence; (2) `Ty.beq` is reflexive and symmetric, transitive
on union-free values; on unions it is "same tuple, or mutual inclusion under hash lookup";
(3) `Ty.hashEq` is a partial equivalence contained in `Ty.beq`, and equals it outside the exception
classes; (4) `Ty.beq` respects membership; (5) the theory of `dedup`; (6) the laws of `unite`;
(7) substitution (congruence for `hashEq`, commutation with `unite`).
-/
namespace Pya

/-! ### 1. `==` on objects -/

theorem Obj.ind' {P : Obj → Prop}
    (int : ∀ n, P (.int n)) (bool : ∀ b, P (.bool b)) (str : ∀ s, P (.str s))
    (bytes : ∀ s, P (.bytes s)) (none : P .none) (flt : ∀ i, P (.flt i)) (cplx : ∀ i, P (.cplx i))
    (inst : ∀ c i, P (.inst c i)) (cls : ∀ c, P (.cls c))
    (tuple : ∀ xs, (∀ x ∈ xs, P x) → P (.tuple xs))
    (list : ∀ xs, (∀ x ∈ xs, P x) → P (.list xs))
    (set : ∀ xs, (∀ x ∈ xs, P x) → P (.set xs))
    (fset : ∀ xs, (∀ x ∈ xs, P x) → P (.fset xs))
    (dict : ∀ ks vs, (∀ x ∈ ks, P x) → (∀ x ∈ vs, P x) → P (.dict ks vs)) : ∀ o, P o
  | .int n => int n | .bool b => bool b | .str s => str s | .bytes s => bytes s | .none => none
  | .flt i => flt i | .cplx i => cplx i | .inst c i => inst c i | .cls c => cls c
  | .tuple xs => tuple xs fun x _ => Obj.ind' int bool str bytes none flt cplx inst cls tuple list set fset dict x
  | .list xs => list xs fun x _ => Obj.ind' int bool str bytes none flt cplx inst cls tuple list set fset dict x
  | .set xs => set xs fun x _ => Obj.ind' int bool str bytes none flt cplx inst cls tuple list set fset dict x
  | .fset xs => fset xs fun x _ => Obj.ind' int bool str bytes none flt cplx inst cls tuple list set fset dict x
  | .dict ks vs => dict ks vs
      (fun x _ => Obj.ind' int bool str bytes none flt cplx inst cls tuple list set fset dict x)
      (fun x _ => Obj.ind' int bool str bytes none flt cplx inst cls tuple list set fset dict x)
termination_by o => sizeOf o

theorem Obj.pyEqList_trans_of (xs ys zs : List Obj)
    (h : ∀ x ∈ xs, ∀ y z, Obj.pyEq x y = true → Obj.pyEq y z = true → Obj.pyEq x z = true)
    (h1 : Obj.pyEqList xs ys = true) (h2 : Obj.pyEqList ys zs = true) :
    Obj.pyEqList xs zs = true := by
  induction xs generalizing ys zs with
  | nil =>
    cases ys <;> simp [Obj.pyEqList] at h1
    cases zs <;> simp [Obj.pyEqList] at h2 ⊢
  | cons x xs ih =>
    cases ys with
    | nil => simp [Obj.pyEqList] at h1
    | cons y ys =>
      cases zs with
      | nil => simp [Obj.pyEqList] at h2
      | cons z zs =>
        simp only [Obj.pyEqList, Bool.and_eq_true] at h1 h2 ⊢
        exact ⟨h x (by simp) y z h1.1 h2.1,
          ih ys zs (fun x' hx' => h x' (by simp [hx'])) h1.2 h2.2⟩

theorem Obj.pyEq_trans (a : Obj) : ∀ b c, Obj.pyEq a b = true → Obj.pyEq b c = true →
    Obj.pyEq a c = true := by
  induction a using Obj.ind' with
  | tuple xs ih | list xs ih | set xs ih | fset xs ih =>
    intro b c h1 h2
    cases b <;> simp only [Obj.pyEq, Bool.false_eq_true] at h1 <;>
      cases c <;> simp only [Obj.pyEq, Bool.false_eq_true] at h2 ⊢ <;>
      exact Obj.pyEqList_trans_of _ _ _ ih h1 h2
  | dict ks vs ihk ihv =>
    intro b c h1 h2
    cases b <;> simp only [Obj.pyEq, Bool.false_eq_true, Bool.and_eq_true] at h1
    cases c <;> simp only [Obj.pyEq, Bool.false_eq_true, Bool.and_eq_true] at h2 ⊢
    exact ⟨Obj.pyEqList_trans_of _ _ _ ihk h1.1 h2.1, Obj.pyEqList_trans_of _ _ _ ihv h1.2 h2.2⟩
  | _ =>
    intro b c h1 h2
    cases b <;> simp only [Obj.pyEq, Bool.false_eq_true] at h1 <;>
      cases c <;> simp only [Obj.pyEq, Bool.false_eq_true] at h2 ⊢ <;> grind

theorem Obj.same_trans {a b c : Obj} (h1 : Obj.same a b = true) (h2 : Obj.same b c = true) :
    Obj.same a c = true := by
  simp only [Obj.same, Bool.and_eq_true, beq_iff_eq] at *
  exact ⟨h1.1.trans h2.1, Obj.pyEq_trans _ _ _ h1.2 h2.2⟩

/-- `==`-and-same-type is transitive enough for literal membership: equal literals have the same
members. -/
theorem Obj.same_congr_right {k k' : Obj} (h : Obj.same k k' = true) (o : Obj) :
    Obj.same o k = Obj.same o k' := by
  rw [Bool.eq_iff_iff]
  constructor
  · intro h1; exact Obj.same_trans h1 h
  · intro h1; exact Obj.same_trans h1 (by rw [Obj.same_comm]; exact h)

/-! ### 2. `Ty.beq` (`Value.__eq__`): reflexive, symmetric, transitive without unions -/

theorem Ty.memBy_eq_any (a : Ty) : ∀ bs, Ty.memBy a bs = bs.any (fun b => Ty.beq a b)
  | [] => by simp [Ty.memBy]
  | b :: bs => by simp [Ty.memBy, Ty.memBy_eq_any a bs]

theorem Ty.subsetBy_eq_all : ∀ as bs, Ty.subsetBy as bs = as.all (fun a => Ty.memBy a bs)
  | [], bs => by simp [Ty.subsetBy]
  | a :: as, bs => by simp [Ty.subsetBy, Ty.subsetBy_eq_all as bs]

theorem Ty.memBy_iff {a : Ty} {bs : List Ty} :
    Ty.memBy a bs = true ↔ ∃ b ∈ bs, Ty.beq a b = true := by
  simp [Ty.memBy_eq_any]

theorem Ty.subsetBy_iff {as bs : List Ty} :
    Ty.subsetBy as bs = true ↔ ∀ a ∈ as, ∃ b ∈ bs, Ty.beq a b = true := by
  simp [Ty.subsetBy_eq_all, Ty.memBy_eq_any]

theorem Ty.beqList_refl_of (ts : List Ty) (h : ∀ t ∈ ts, Ty.beq t t = true) :
    Ty.beqList ts ts = true := by
  induction ts with
  | nil => simp [Ty.beqList]
  | cons t ts ih =>
    simp only [Ty.beqList, Bool.and_eq_true]
    exact ⟨h t (by simp), ih fun y hy => h y (by simp [hy])⟩

theorem Ty.beq_refl (a : Ty) : Ty.beq a a = true := by
  induction a using Ty.ind' <;> simp_all [Ty.beq, Ty.beqList_refl_of, Obj.same_refl]

theorem Ty.beqList_comm_of (as bs : List Ty) (h : ∀ a ∈ as, ∀ b, Ty.beq a b = Ty.beq b a) :
    Ty.beqList as bs = Ty.beqList bs as := by
  induction as generalizing bs with
  | nil => cases bs <;> simp [Ty.beqList]
  | cons a as ih =>
    cases bs with
    | nil => simp [Ty.beqList]
    | cons b bs =>
      simp only [Ty.beqList]
      rw [h a (by simp) b, ih bs fun x hx => h x (by simp [hx])]

theorem Ty.beq_comm (a : Ty) : ∀ b, Ty.beq a b = Ty.beq b a := by
  induction a using Ty.ind' with
  | known o => intro b; cases b <;> simp [Ty.beq, Obj.same_comm]
  | generic c as ih | seq c as ih =>
    intro b; cases b <;> simp [Ty.beq]
    rw [Ty.beqList_comm_of _ _ ih, Bool.beq_comm]
  | union as ih =>
    intro b; cases b <;> simp [Ty.beq]
    rw [Ty.beqList_comm_of _ _ ih, Bool.and_comm]
  | many t ih | annotated t ih => intro b; cases b <;> simp [Ty.beq, ih]
  | _ => intro b; cases b <;> simp [Ty.beq] <;> grind

theorem Ty.beqList_fwd {as bs : List Ty} (h : Ty.beqList as bs = true) :
    ∀ a ∈ as, ∃ b ∈ bs, Ty.beq a b = true := by
  induction as generalizing bs with
  | nil => simp
  | cons a as ih =>
    cases bs with
    | nil => simp [Ty.beqList] at h
    | cons b bs =>
      simp only [Ty.beqList, Bool.and_eq_true] at h
      intro x hx
      simp only [List.mem_cons] at hx
      rcases hx with rfl | hx
      · exact ⟨b, by simp, h.1⟩
      · obtain ⟨y, hy, hxy⟩ := ih h.2 x hx
        exact ⟨y, by simp [hy], hxy⟩

theorem Ty.beqList_bwd {as bs : List Ty} (h : Ty.beqList as bs = true) :
    ∀ b ∈ bs, ∃ a ∈ as, Ty.beq b a = true := by
  induction as generalizing bs with
  | nil => cases bs <;> simp [Ty.beqList] at h ⊢
  | cons a as ih =>
    cases bs with
    | nil => simp
    | cons b bs =>
      simp only [Ty.beqList, Bool.and_eq_true] at h
      intro x hx
      simp only [List.mem_cons] at hx
      rcases hx with rfl | hx
      · exact ⟨a, by simp, by rw [Ty.beq_comm]; exact h.1⟩
      · obtain ⟨y, hy, hxy⟩ := ih h.2 x hx
        exact ⟨y, by simp [hy], hxy⟩

theorem Ty.memH_eq_any (a : Ty) :
    ∀ bs, Ty.memH a bs = bs.any (fun b => Ty.hashEq b a && Ty.beq b a)
  | [] => by simp [Ty.memH]
  | b :: bs => by simp [Ty.memH, Ty.memH_eq_any a bs]

theorem Ty.subsetH_eq_all : ∀ as bs, Ty.subsetH as bs = as.all (fun a => Ty.memH a bs)
  | [], bs => by simp [Ty.subsetH]
  | a :: as, bs => by simp [Ty.subsetH, Ty.subsetH_eq_all as bs]

theorem Ty.subsetH_iff {as bs : List Ty} :
    Ty.subsetH as bs = true ↔ ∀ a ∈ as, ∃ b ∈ bs, Ty.hashEq b a = true ∧ Ty.beq b a = true := by
  simp [Ty.subsetH_eq_all, Ty.memH_eq_any]

/-- `==` unions include each other up to `==` (the converse fails: the set comparison of
`MultiValuedValue.__eq__` goes through hashes). -/
theorem Ty.beq_union_incl {as bs : List Ty} (h : Ty.beq (.union as) (.union bs) = true) :
    (∀ a ∈ as, ∃ b ∈ bs, Ty.beq a b = true) ∧ (∀ b ∈ bs, ∃ a ∈ as, Ty.beq b a = true) := by
  simp only [Ty.beq, Bool.or_eq_true, Bool.and_eq_true, Ty.subsetH_iff] at h
  rcases h with h | h
  · exact ⟨Ty.beqList_fwd h, Ty.beqList_bwd h⟩
  · constructor
    · intro a ha
      obtain ⟨b, hb, _, hba⟩ := h.1 a ha
      exact ⟨b, hb, by rw [Ty.beq_comm]; exact hba⟩
    · intro b hb
      obtain ⟨a, ha, _, hab⟩ := h.2 b hb
      exact ⟨a, ha, by rw [Ty.beq_comm]; exact hab⟩
theorem Ty.beqList_trans_of (xs ys zs : List Ty)
    (h : ∀ x ∈ xs, ∀ y z, Ty.beq x y = true → Ty.beq y z = true → Ty.beq x z = true)
    (h1 : Ty.beqList xs ys = true) (h2 : Ty.beqList ys zs = true) :
    Ty.beqList xs zs = true := by
  induction xs generalizing ys zs with
  | nil =>
    cases ys <;> simp [Ty.beqList] at h1
    cases zs <;> simp [Ty.beqList] at h2 ⊢
  | cons x xs ih =>
    cases ys with
    | nil => simp [Ty.beqList] at h1
    | cons y ys =>
      cases zs with
      | nil => simp [Ty.beqList] at h2
      | cons z zs =>
        simp only [Ty.beqList, Bool.and_eq_true] at h1 h2 ⊢
        exact ⟨h x (by simp) y z h1.1 h2.1,
          ih ys zs (fun x' hx' => h x' (by simp [hx'])) h1.2 h2.2⟩

theorem Ty.hasUnhashableL_iff (ts : List Ty) :
    Ty.hasUnhashableL ts = false ↔ ∀ t ∈ ts, t.hasUnhashable = false := by
  induction ts <;> simp_all [Ty.hasUnhashableL]
theorem Ty.hasUnionL_iff (ts : List Ty) :
    Ty.hasUnionL ts = false ↔ ∀ t ∈ ts, t.hasUnion = false := by
  induction ts <;> simp_all [Ty.hasUnionL]


/-- `==` is transitive on values that contain no union (in general it is not: `Props/C14`). -/
theorem Ty.beq_trans (a : Ty) : a.hasUnion = false → ∀ b c, Ty.beq a b = true →
    Ty.beq b c = true → Ty.beq a c = true := by
  induction a using Ty.ind' with
  | known o =>
    intro _ b c h1 h2
    cases b <;> simp only [Ty.beq, Bool.false_eq_true] at h1
    cases c <;> simp only [Ty.beq, Bool.false_eq_true] at h2 ⊢
    exact Obj.same_trans h1 h2
  | generic c as ih | seq c as ih =>
    intro hu b c h1 h2
    simp only [Ty.hasUnion, Ty.hasUnionL_iff] at hu
    cases b <;> simp only [Ty.beq, Bool.false_eq_true, Bool.and_eq_true, beq_iff_eq] at h1
    cases c <;> simp only [Ty.beq, Bool.false_eq_true, Bool.and_eq_true, beq_iff_eq] at h2 ⊢
    exact ⟨h1.1.trans h2.1, Ty.beqList_trans_of _ _ _ (fun x hx => ih x hx (hu x hx)) h1.2 h2.2⟩
  | union as ih => intro hu; simp [Ty.hasUnion] at hu
  | many t ih | annotated t ih =>
    intro hu b c h1 h2
    simp only [Ty.hasUnion] at hu
    cases b <;> simp only [Ty.beq, Bool.false_eq_true] at h1
    cases c <;> simp only [Ty.beq, Bool.false_eq_true] at h2 ⊢
    exact ih hu _ _ h1 h2
  | _ =>
    intro _ b c h1 h2
    cases b <;> simp only [Ty.beq, Bool.false_eq_true] at h1 <;>
      cases c <;> simp only [Ty.beq, Bool.false_eq_true] at h2 ⊢ <;> grind
/-! ### 3. `Ty.hashEq` (equality of hashes) -/

theorem Ty.hashEqList_comm_of (as bs : List Ty) (h : ∀ a ∈ as, ∀ b, Ty.hashEq a b = Ty.hashEq b a) :
    Ty.hashEqList as bs = Ty.hashEqList bs as := by
  induction as generalizing bs with
  | nil => cases bs <;> simp [Ty.hashEqList]
  | cons a as ih =>
    cases bs with
    | nil => simp [Ty.hashEqList]
    | cons b bs =>
      simp only [Ty.hashEqList]
      rw [h a (by simp) b, ih bs fun x hx => h x (by simp [hx])]

theorem Ty.hashEq_comm (a : Ty) : ∀ b, Ty.hashEq a b = Ty.hashEq b a := by
  induction a using Ty.ind' with
  | known o =>
    intro b; cases b <;> simp [Ty.hashEq]
    rw [Obj.same_comm]; grind
  | generic c as ih | seq c as ih =>
    intro b; cases b <;> simp [Ty.hashEq]
    rw [Ty.hashEqList_comm_of _ _ ih, Bool.beq_comm]
  | union as ih =>
    intro b; cases b <;> simp [Ty.hashEq]
    rw [Ty.hashEqList_comm_of _ _ ih]
  | many t ih | annotated t ih => intro b; cases b <;> simp [Ty.hashEq, ih]
  | _ => intro b; cases b <;> simp [Ty.hashEq] <;> grind
theorem Ty.hashEqList_trans_of (xs ys zs : List Ty)
    (h : ∀ x ∈ xs, ∀ y z, Ty.hashEq x y = true → Ty.hashEq y z = true → Ty.hashEq x z = true)
    (h1 : Ty.hashEqList xs ys = true) (h2 : Ty.hashEqList ys zs = true) :
    Ty.hashEqList xs zs = true := by
  induction xs generalizing ys zs with
  | nil =>
    cases ys <;> simp [Ty.hashEqList] at h1
    cases zs <;> simp [Ty.hashEqList] at h2 ⊢
  | cons x xs ih =>
    cases ys with
    | nil => simp [Ty.hashEqList] at h1
    | cons y ys =>
      cases zs with
      | nil => simp [Ty.hashEqList] at h2
      | cons z zs =>
        simp only [Ty.hashEqList, Bool.and_eq_true] at h1 h2 ⊢
        exact ⟨h x (by simp) y z h1.1 h2.1,
          ih ys zs (fun x' hx' => h x' (by simp [hx'])) h1.2 h2.2⟩

theorem Obj.zeroHashCls_same {a b : Obj} (h : Obj.same a b = true) :
    a.zeroHashCls = b.zeroHashCls := by
  cases a <;> cases b <;>
    simp [Obj.same, Obj.tag, Obj.pyEq] at h <;>
    first
      | rfl
      | (simp [Obj.zeroHashCls, h]; done)
      | omega
theorem Obj.zeroHashCls_inj {a b : Obj} {c : Cls} (ha : a.zeroHashCls = some c)
    (hb : b.zeroHashCls = some c) :
    a.hashable = true ∧ b.hashable = true ∧ Obj.same a b = true := by
  cases a <;> cases b <;> simp [Obj.zeroHashCls] at ha hb <;>
    simp_all [Obj.hashable, Obj.same, Obj.tag, Obj.pyEq, C.int, C.bool, C.str, C.bytes] <;>
    (have := ha.2.trans hb.2.symm; simp at this)
theorem Ty.hashEq_trans (a : Ty) : ∀ b c, Ty.hashEq a b = true → Ty.hashEq b c = true →
    Ty.hashEq a c = true := by
  induction a using Ty.ind' with
  | known o =>
    intro b c h1 h2
    cases b <;> simp only [Ty.hashEq, Bool.false_eq_true, Bool.and_eq_true, beq_iff_eq] at h1 <;>
      cases c <;> simp only [Ty.hashEq, Bool.false_eq_true, Bool.and_eq_true, beq_iff_eq] at h2 ⊢
    · exact ⟨⟨h1.1.1, h2.1.2⟩, Obj.same_trans h1.2 h2.2⟩
    · rw [Obj.zeroHashCls_same h1.2]; exact h2
    · exact Obj.zeroHashCls_inj h1 h2 |> fun ⟨x, y, z⟩ => ⟨⟨x, y⟩, z⟩
    · rw [h1, h2]
  | typed d =>
    intro b c h1 h2
    cases b <;> simp only [Ty.hashEq, Bool.false_eq_true, beq_iff_eq] at h1 <;>
      cases c <;> simp only [Ty.hashEq, Bool.false_eq_true, Bool.and_eq_true, beq_iff_eq] at h2 ⊢
    · rw [← Obj.zeroHashCls_same h2.2]; exact h1
    · rw [h1] at h2; exact (Option.some.inj h2)
    · rw [h1]; exact h2
    · exact h1.trans h2
  | generic c as ih | seq c as ih =>
    intro b c h1 h2
    cases b <;> simp only [Ty.hashEq, Bool.false_eq_true, Bool.and_eq_true, beq_iff_eq] at h1
    cases c <;> simp only [Ty.hashEq, Bool.false_eq_true, Bool.and_eq_true, beq_iff_eq] at h2 ⊢
    exact ⟨h1.1.trans h2.1, Ty.hashEqList_trans_of _ _ _ ih h1.2 h2.2⟩
  | union as ih =>
    intro b c h1 h2
    cases b <;> simp only [Ty.hashEq, Bool.false_eq_true] at h1
    cases c <;> simp only [Ty.hashEq, Bool.false_eq_true] at h2 ⊢
    exact Ty.hashEqList_trans_of _ _ _ ih h1 h2
  | many t ih | annotated t ih =>
    intro b c h1 h2
    cases b <;> simp only [Ty.hashEq, Bool.false_eq_true] at h1
    cases c <;> simp only [Ty.hashEq, Bool.false_eq_true] at h2 ⊢
    exact ih _ _ h1 h2
  | _ =>
    intro b c h1 h2
    cases b <;> simp only [Ty.hashEq, Bool.false_eq_true] at h1 <;>
      cases c <;> simp only [Ty.hashEq, Bool.false_eq_true] at h2 ⊢ <;> grind
theorem Ty.hashEqList_of_beqList (as bs : List Ty)
    (h : ∀ a ∈ as, ∀ b ∈ bs, Ty.beq a b = true → Ty.hashEq a b = true)
    (h1 : Ty.beqList as bs = true) : Ty.hashEqList as bs = true := by
  induction as generalizing bs with
  | nil => cases bs <;> simp [Ty.hashEqList, Ty.beqList] at h1 ⊢
  | cons a as ih =>
    cases bs with
    | nil => simp [Ty.beqList] at h1
    | cons b bs =>
      simp only [Ty.hashEqList, Ty.beqList, Bool.and_eq_true] at h1 ⊢
      exact ⟨h a (by simp) b (by simp) h1.1,
        ih bs (fun x hx y hy => h x (by simp [hx]) y (by simp [hy])) h1.2⟩

/-- outside the classes `unionOrder` and `unhashable`, `==` values hash equal -/
theorem Ty.beq_imp_hashEq (a : Ty) : ∀ b, a.hasUnion = false → a.hasUnhashable = false →
    b.hasUnhashable = false → Ty.beq a b = true → Ty.hashEq a b = true := by
  induction a using Ty.ind' with
  | known o =>
    intro b _ h2 h3 h
    cases b <;> simp only [Ty.beq, Bool.false_eq_true] at h
    simp only [Ty.hasUnhashable, Bool.not_eq_false'] at h2 h3
    simp [Ty.hashEq, h2, h3, h]
  | generic c as ih | seq c as ih =>
    intro b h1 h2 h3 h
    cases b <;> simp only [Ty.beq, Bool.false_eq_true, Bool.and_eq_true] at h
    simp only [Ty.hasUnion, Ty.hasUnhashable, Ty.hasUnionL_iff, Ty.hasUnhashableL_iff] at h1 h2 h3
    simp only [Ty.hashEq, Bool.and_eq_true]
    exact ⟨h.1, Ty.hashEqList_of_beqList _ _
      (fun x hx y hy hxy => ih x hx y (h1 x hx) (h2 x hx) (h3 y hy) hxy) h.2⟩
  | union as ih => intro b h1; simp [Ty.hasUnion] at h1
  | many t ih | annotated t ih =>
    intro b h1 h2 h3 h
    cases b <;> simp only [Ty.beq, Bool.false_eq_true] at h
    simp only [Ty.hasUnion, Ty.hasUnhashable] at h1 h2 h3
    simp only [Ty.hashEq]
    exact ih _ h1 h2 h3 h
  | _ =>
    intro b _ _ _ h
    cases b <;> simp only [Ty.beq, Bool.false_eq_true] at h <;> simp only [Ty.hashEq] <;> exact h

theorem Ty.hashEqList_refl_of (ts : List Ty) (h : ∀ t ∈ ts, Ty.hashEq t t = true) :
    Ty.hashEqList ts ts = true := by
  induction ts with
  | nil => simp [Ty.hashEqList]
  | cons t ts ih =>
    simp only [Ty.hashEqList, Bool.and_eq_true]
    exact ⟨h t (by simp), ih fun y hy => h y (by simp [hy])⟩

/-- a value without unhashable literal has a stable hash -/
theorem Ty.hashEq_refl (a : Ty) : a.hasUnhashable = false → Ty.hashEq a a = true := by
  induction a using Ty.ind' with
  | known o => intro h; simp only [Ty.hasUnhashable, Bool.not_eq_false'] at h; simp [Ty.hashEq, h, Obj.same_refl]
  | generic c as ih | seq c as ih | union as ih =>
    intro h
    simp only [Ty.hasUnhashable, Ty.hasUnhashableL_iff] at h
    simp only [Ty.hashEq, beq_self_eq_true, Bool.true_and]
    exact Ty.hashEqList_refl_of _ fun t ht => ih t ht (h t ht)
  | many t ih | annotated t ih => intro h; simp only [Ty.hasUnhashable] at h; simp [Ty.hashEq, ih h]
  | _ => intro _; simp [Ty.hashEq]

/-! ### 3b. `Ty.keq`: "the same dict key" — hash-equal **and** `==`

This is the relation under which `unite_values` de-duplicates and `MultiValuedValue.__eq__` compares
member sets. It is a partial equivalence (reflexive exactly on values without unhashable literal).
Because of the zero-hash collision `Ty.hashEq` alone is not contained in `Ty.beq`. -/

def Ty.keq (a b : Ty) : Bool := Ty.hashEq a b && Ty.beq a b
def Ty.keqList (as bs : List Ty) : Bool := Ty.hashEqList as bs && Ty.beqList as bs

theorem Ty.keq_iff {a b : Ty} : Ty.keq a b = true ↔ Ty.hashEq a b = true ∧ Ty.beq a b = true := by
  simp [Ty.keq]

theorem Ty.keq_imp_beq' (a b : Ty) (h : Ty.keq a b = true) : Ty.beq a b = true := (Ty.keq_iff.mp h).2
theorem Ty.keq_imp_hashEq (a b : Ty) (h : Ty.keq a b = true) : Ty.hashEq a b = true := (Ty.keq_iff.mp h).1


/-- compatibility name (Proofs/C01 applies it to the output of `dictMem_iff`): since the zero-hash
collision is modelled, what implies `==` is the dict-key relation `keq`, not hash equality alone
(`Ty.hashEq_imp_beq_of` is the partial statement about `hashEq`). -/
theorem Ty.hashEq_imp_beq' (a b : Ty) (h : Ty.keq a b = true) : Ty.beq a b = true :=
  Ty.keq_imp_beq' a b h
theorem Ty.keq_comm (a b : Ty) : Ty.keq a b = Ty.keq b a := by
  simp only [Ty.keq, Ty.hashEq_comm a b, Ty.beq_comm a b]

theorem Ty.keq_refl (a : Ty) (h : a.hasUnhashable = false) : Ty.keq a a = true := by
  simp [Ty.keq, Ty.hashEq_refl a h, Ty.beq_refl a]


theorem Ty.keq_self {a : Ty} (h : Ty.hashEq a a = true) : Ty.keq a a = true := by
  simp [Ty.keq, h, Ty.beq_refl a]
theorem Ty.keqList_nil : Ty.keqList [] [] = true := by simp [Ty.keqList, Ty.hashEqList, Ty.beqList]
theorem Ty.keqList_nil_cons (b : Ty) (bs : List Ty) : Ty.keqList [] (b :: bs) = false := by
  simp [Ty.keqList, Ty.hashEqList]
theorem Ty.keqList_cons_nil (a : Ty) (as : List Ty) : Ty.keqList (a :: as) [] = false := by
  simp [Ty.keqList, Ty.hashEqList]
theorem Ty.keqList_cons (a b : Ty) (as bs : List Ty) :
    Ty.keqList (a :: as) (b :: bs) = (Ty.keq a b && Ty.keqList as bs) := by
  simp only [Ty.keqList, Ty.keq, Ty.hashEqList, Ty.beqList]
  cases Ty.hashEq a b <;> cases Ty.beq a b <;> cases Ty.hashEqList as bs <;> cases Ty.beqList as bs <;> rfl

theorem Ty.keqList_iff {as bs : List Ty} :
    Ty.keqList as bs = true ↔ Ty.hashEqList as bs = true ∧ Ty.beqList as bs = true := by
  simp [Ty.keqList]

/-- positional: the i-th elements are the same key -/
theorem Ty.keqList_fwd {as bs : List Ty} (h : Ty.keqList as bs = true) :
    ∀ a ∈ as, ∃ b ∈ bs, Ty.keq b a = true := by
  induction as generalizing bs with
  | nil => simp
  | cons a as ih =>
    cases bs with
    | nil => simp [Ty.keqList_cons_nil] at h
    | cons b bs =>
      simp only [Ty.keqList_cons, Bool.and_eq_true] at h
      intro x hx
      simp only [List.mem_cons] at hx
      rcases hx with rfl | hx
      · exact ⟨b, by simp, by rw [Ty.keq_comm]; exact h.1⟩
      · obtain ⟨y, hy, hxy⟩ := ih h.2 x hx
        exact ⟨y, by simp [hy], hxy⟩

theorem Ty.keqList_bwd {as bs : List Ty} (h : Ty.keqList as bs = true) :
    ∀ b ∈ bs, ∃ a ∈ as, Ty.keq a b = true := by
  induction as generalizing bs with
  | nil => cases bs <;> simp [Ty.keqList_nil_cons] at h ⊢
  | cons a as ih =>
    cases bs with
    | nil => simp
    | cons b bs =>
      simp only [Ty.keqList_cons, Bool.and_eq_true] at h
      intro x hx
      simp only [List.mem_cons] at hx
      rcases hx with rfl | hx
      · exact ⟨a, by simp, h.1⟩
      · obtain ⟨y, hy, hxy⟩ := ih h.2 x hx
        exact ⟨y, by simp [hy], hxy⟩

theorem Ty.keqList_trans_of (xs ys zs : List Ty)
    (h : ∀ x ∈ xs, ∀ y z, Ty.keq x y = true → Ty.keq y z = true → Ty.keq x z = true)
    (h1 : Ty.keqList xs ys = true) (h2 : Ty.keqList ys zs = true) :
    Ty.keqList xs zs = true := by
  induction xs generalizing ys zs with
  | nil =>
    cases ys with
    | cons y ys => simp [Ty.keqList_nil_cons] at h1
    | nil =>
      cases zs with
      | cons z zs => simp [Ty.keqList_nil_cons] at h2
      | nil => exact Ty.keqList_nil
  | cons x xs ih =>
    cases ys with
    | nil => simp [Ty.keqList_cons_nil] at h1
    | cons y ys =>
      cases zs with
      | nil => simp [Ty.keqList_cons_nil] at h2
      | cons z zs =>
        simp only [Ty.keqList_cons, Bool.and_eq_true] at h1 h2 ⊢
        exact ⟨h x (by simp) y z h1.1 h2.1,
          ih ys zs (fun x' hx' => h x' (by simp [hx'])) h1.2 h2.2⟩

theorem Ty.keqList_map_of (f : Ty → Ty) {xs ys : List Ty} (h : Ty.keqList xs ys = true)
    (hf : ∀ x ∈ xs, ∀ y ∈ ys, Ty.keq x y = true → Ty.keq (f x) (f y) = true) :
    Ty.keqList (xs.map f) (ys.map f) = true := by
  induction xs generalizing ys with
  | nil =>
    cases ys with
    | cons y ys => simp [Ty.keqList_nil_cons] at h
    | nil => exact Ty.keqList_nil
  | cons x xs ih =>
    cases ys with
    | nil => simp [Ty.keqList_cons_nil] at h
    | cons y ys =>
      simp only [Ty.keqList_cons, List.map_cons, Bool.and_eq_true] at h ⊢
      exact ⟨hf x (by simp) y (by simp) h.1,
        ih h.2 fun x' hx' y' hy' => hf x' (by simp [hx']) y' (by simp [hy'])⟩

/-- `MultiValuedValue.__eq__`: equal member tuples, or mutual inclusion under hash-and-`==` lookup. -/
theorem Ty.beq_union_iff {as bs : List Ty} :
    Ty.beq (.union as) (.union bs) = true ↔
      Ty.beqList as bs = true ∨
        ((∀ a ∈ as, ∃ b ∈ bs, Ty.keq b a = true) ∧ (∀ b ∈ bs, ∃ a ∈ as, Ty.keq a b = true)) := by
  simp only [Ty.beq, Bool.or_eq_true, Bool.and_eq_true, Ty.subsetH_iff, Ty.keq_iff]

theorem Ty.keq_union_iff {as bs : List Ty} :
    Ty.keq (.union as) (.union bs) = true ↔
      Ty.hashEqList as bs = true ∧
        ((∀ a ∈ as, ∃ b ∈ bs, Ty.keq b a = true) ∧ (∀ b ∈ bs, ∃ a ∈ as, Ty.keq a b = true)) := by
  rw [Ty.keq_iff, Ty.beq_union_iff]
  simp only [Ty.hashEq]
  constructor
  · rintro ⟨hh, hb | hb⟩
    · have hk : Ty.keqList as bs = true := Ty.keqList_iff.mpr ⟨hh, hb⟩
      exact ⟨hh, Ty.keqList_fwd hk, Ty.keqList_bwd hk⟩
    · exact ⟨hh, hb⟩
  · rintro ⟨hh, hb⟩
    exact ⟨hh, .inr hb⟩

theorem Ty.keq_trans (a : Ty) : ∀ b c, Ty.keq a b = true → Ty.keq b c = true →
    Ty.keq a c = true := by
  induction a using Ty.ind' with
  | generic d as ih =>
    intro b c h1 h2
    have hh := Ty.hashEq_trans _ _ _ (Ty.keq_imp_hashEq _ _ h1) (Ty.keq_imp_hashEq _ _ h2)
    cases b <;> try (simp [Ty.keq, Ty.beq] at h1; done)
    cases c <;> try (simp [Ty.keq, Ty.beq] at h2; done)
    simp only [Ty.keq_iff, Ty.hashEq, Ty.beq, Bool.and_eq_true, beq_iff_eq] at h1 h2 hh ⊢
    have := Ty.keqList_trans_of _ _ _ ih (Ty.keqList_iff.mpr ⟨h1.1.2, h1.2.2⟩)
      (Ty.keqList_iff.mpr ⟨h2.1.2, h2.2.2⟩)
    exact ⟨hh, h1.2.1.trans h2.2.1, (Ty.keqList_iff.mp this).2⟩
  | seq d as ih =>
    intro b c h1 h2
    have hh := Ty.hashEq_trans _ _ _ (Ty.keq_imp_hashEq _ _ h1) (Ty.keq_imp_hashEq _ _ h2)
    cases b <;> try (simp [Ty.keq, Ty.beq] at h1; done)
    cases c <;> try (simp [Ty.keq, Ty.beq] at h2; done)
    simp only [Ty.keq_iff, Ty.hashEq, Ty.beq, Bool.and_eq_true, beq_iff_eq] at h1 h2 hh ⊢
    have := Ty.keqList_trans_of _ _ _ ih (Ty.keqList_iff.mpr ⟨h1.1.2, h1.2.2⟩)
      (Ty.keqList_iff.mpr ⟨h2.1.2, h2.2.2⟩)
    exact ⟨hh, h1.2.1.trans h2.2.1, (Ty.keqList_iff.mp this).2⟩
  | union as ih =>
    intro b c h1 h2
    cases b <;> try (simp [Ty.keq, Ty.beq] at h1; done)
    cases c <;> try (simp [Ty.keq, Ty.beq] at h2; done)
    rw [Ty.keq_union_iff] at h1 h2 ⊢
    refine ⟨Ty.hashEqList_trans_of _ _ _ (fun x _ => Ty.hashEq_trans x) h1.1 h2.1, ?_, ?_⟩
    · intro x hx
      obtain ⟨y, hy, hyx⟩ := h1.2.1 x hx
      obtain ⟨z, hz, hzy⟩ := h2.2.1 y hy
      refine ⟨z, hz, ?_⟩
      rw [Ty.keq_comm] at hyx hzy ⊢
      exact ih x hx y z hyx hzy
    · intro z hz
      obtain ⟨y, hy, hyz⟩ := h2.2.2 z hz
      obtain ⟨x, hx, hxy⟩ := h1.2.2 y hy
      exact ⟨x, hx, ih x hx y z hxy hyz⟩
  | many t ih | annotated t ih =>
    intro b c h1 h2
    cases b <;> try (simp [Ty.keq, Ty.beq] at h1; done)
    cases c <;> try (simp [Ty.keq, Ty.beq] at h2; done)
    simp only [Ty.keq, Ty.hashEq, Ty.beq] at h1 h2 ⊢
    exact ih _ _ h1 h2
  | _ =>
    intro b c h1 h2
    rw [Ty.keq_iff] at h1 h2 ⊢
    exact ⟨Ty.hashEq_trans _ _ _ h1.1 h2.1, Ty.beq_trans _ (by simp [Ty.hasUnion]) _ _ h1.2 h2.2⟩

/-! ### 4. `==` values have the same members -/

theorem memAny_eq_any (tbl : ClassTable) (o : Obj) :
    ∀ ts, memAny tbl o ts = ts.any (fun t => mem tbl o t)
  | [] => by simp [memAny]
  | t :: ts => by simp [memAny, memAny_eq_any tbl o ts]

theorem memAll_congr (tbl : ClassTable) {t t' : Ty} (h : ∀ o, mem tbl o t = mem tbl o t') :
    ∀ xs, memAll tbl xs t = memAll tbl xs t'
  | [] => by simp [memAll]
  | x :: xs => by simp [memAll, h x, memAll_congr tbl h xs]

theorem memArgs_congr (tbl : ClassTable) (as bs : List Ty) (h : Ty.beqList as bs = true)
    (ih : ∀ a ∈ as, ∀ b, Ty.beq a b = true → ∀ o, mem tbl o a = mem tbl o b) (o : Obj) :
    memArgs tbl o as = memArgs tbl o bs := by
  match as, bs, h with
  | [], [], _ => rfl
  | [a], [b], h =>
    simp only [Ty.beqList, Bool.and_eq_true] at h
    have := memAll_congr tbl (ih a (by simp) b h.1)
    cases o <;> simp [memArgs, this]
  | [a, a'], [b, b'], h =>
    simp only [Ty.beqList, Bool.and_eq_true] at h
    have h1 := memAll_congr tbl (ih a (by simp) b h.1)
    have h2 := memAll_congr tbl (ih a' (by simp) b' h.2.1)
    cases o <;> simp [memArgs, h1, h2]
  | _ :: _ :: _ :: _, _ :: _ :: _ :: _, _ => cases o <;> simp [memArgs]
  | [], _ :: _, h | _ :: _, [], h | [_], _ :: _ :: _, h | _ :: _ :: _, [_], h
  | [_, _], _ :: _ :: _ :: _, h | _ :: _ :: _ :: _, [_, _], h => simp [Ty.beqList] at h

theorem matchSeq_congr (tbl : ClassTable) (ms ms' : List Ty) (h : Ty.beqList ms ms' = true)
    (ih : ∀ m ∈ ms, ∀ m', Ty.beq m m' = true →
      (∀ o, mem tbl o m = mem tbl o m') ∧ (∀ o, mem tbl o (stripMany m) = mem tbl o (stripMany m'))) :
    ∀ xs, matchSeq tbl xs ms = matchSeq tbl xs ms' := by
  induction ms generalizing ms' with
  | nil => cases ms' <;> simp [Ty.beqList] at h; intro xs; rfl
  | cons m ms ihm =>
    cases ms' with
    | nil => simp [Ty.beqList] at h
    | cons m' ms' =>
      simp only [Ty.beqList, Bool.and_eq_true] at h
      have hrec := ihm ms' h.2 (fun x hx => ih x (by simp [hx]))
      obtain ⟨hm, hs⟩ := ih m (by simp) m' h.1
      have hb := h.1
      cases m <;> cases m' <;> simp only [Ty.beq, Bool.false_eq_true] at hb
      case many.many t t' =>
        simp only [stripMany] at hs
        intro xs
        induction xs with
        | nil => simp [matchSeq, hrec]
        | cons x xs ihx => simp only [matchSeq, hrec, hs, ihx]
      all_goals
        intro xs
        cases xs with
        | nil => simp [matchSeq]
        | cons x xs => simp only [matchSeq, hm, hrec]

theorem Ty.beq_mem_aux (tbl : ClassTable) (a : Ty) : ∀ b, Ty.beq a b = true →
    (∀ o, mem tbl o a = mem tbl o b) ∧
      (∀ o, mem tbl o (stripMany a) = mem tbl o (stripMany b)) := by
  induction a using Ty.ind' with
  | known k =>
    intro b h
    cases b with
    | known k' =>
      simp only [Ty.beq] at h
      have : ∀ o, mem tbl o (.known k) = mem tbl o (.known k') := fun o => by
        simp only [mem]; exact Obj.same_congr_right h o
      exact ⟨this, this⟩
    | _ => simp [Ty.beq] at h
  | generic c as ih =>
    intro b h
    cases b with
    | generic d bs =>
      simp only [Ty.beq, Bool.and_eq_true, beq_iff_eq] at h
      obtain ⟨rfl, h⟩ := h
      have : ∀ o, mem tbl o (.generic c as) = mem tbl o (.generic c bs) := fun o => by
        simp only [mem]
        rw [memArgs_congr tbl _ _ h (fun a ha b hb => (ih a ha b hb).1) o]
      exact ⟨this, this⟩
    | _ => simp [Ty.beq] at h
  | seq c ms ih =>
    intro b h
    cases b with
    | seq d ms' =>
      simp only [Ty.beq, Bool.and_eq_true, beq_iff_eq] at h
      obtain ⟨rfl, h⟩ := h
      have hm := matchSeq_congr tbl _ _ h ih
      have : ∀ o, mem tbl o (.seq c ms) = mem tbl o (.seq c ms') := fun o => by
        simp only [mem]
        cases o <;> simp [memSeq, hm]
      exact ⟨this, this⟩
    | _ => simp [Ty.beq] at h
  | many t ih =>
    intro b h
    cases b with
    | many t' =>
      simp only [Ty.beq] at h
      exact ⟨fun o => by simp [mem], fun o => by simpa [stripMany] using (ih _ h).1 o⟩
    | _ => simp [Ty.beq] at h
  | union as ih =>
    intro b h
    cases b with
    | union bs =>
      replace h := Ty.beq_union_incl h
      have : ∀ o, mem tbl o (.union as) = mem tbl o (.union bs) := fun o => by
        simp only [mem, memAny_eq_any]
        rw [Bool.eq_iff_iff, List.any_eq_true, List.any_eq_true]
        constructor
        · rintro ⟨x, hx, hox⟩
          obtain ⟨y, hy, hxy⟩ := h.1 x hx
          exact ⟨y, hy, by rw [← (ih x hx y hxy).1 o]; exact hox⟩
        · rintro ⟨y, hy, hoy⟩
          obtain ⟨x, hx, hyx⟩ := h.2 y hy
          rw [Ty.beq_comm] at hyx
          exact ⟨x, hx, by rw [(ih x hx y hyx).1 o]; exact hoy⟩
      exact ⟨this, this⟩
    | _ => simp [Ty.beq] at h
  | annotated t ih =>
    intro b h
    cases b with
    | annotated t' =>
      simp only [Ty.beq] at h
      have : ∀ o, mem tbl o (.annotated t) = mem tbl o (.annotated t') := fun o => by
        simp only [mem]; exact (ih _ h).1 o
      exact ⟨this, this⟩
    | _ => simp [Ty.beq] at h
  | _ =>
    intro b h
    cases b <;> simp only [Ty.beq, Bool.false_eq_true, Bool.and_eq_true, beq_iff_eq] at h
    all_goals
      first
        | (obtain ⟨rfl, rfl⟩ := h; exact ⟨fun _ => rfl, fun _ => rfl⟩)
        | (subst h; exact ⟨fun _ => rfl, fun _ => rfl⟩)
        | exact ⟨fun _ => rfl, fun _ => rfl⟩

/-- `==` values have exactly the same members. -/
theorem Ty.beq_mem' (tbl : ClassTable) {a b : Ty} (h : Ty.beq a b = true) (o : Obj) :
    mem tbl o a = mem tbl o b := (Ty.beq_mem_aux tbl a b h).1 o

/-! ### 5. `annotate`, `flatten1`, `dedup`; membership of a union of values -/

theorem mem_annotate (tbl : ClassTable) (o : Obj) (t : Ty) : mem tbl o (annotate t) = mem tbl o t := by
  cases t <;> simp [annotate, mem]

theorem memAny_flatten1 (tbl : ClassTable) (o : Obj) (t : Ty) :
    memAny tbl o (flatten1 t) = mem tbl o t := by
  cases t with
  | annotated t' =>
    cases t' <;> simp [flatten1, mem, memAny_eq_any, List.any_map, Function.comp_def, mem_annotate]
  | _ => simp [flatten1, memAny, mem]

theorem dictMem_eq_any (v : Ty) : ∀ acc, dictMem v acc = acc.any (fun e => Ty.keq e v)
  | [] => by simp [dictMem]
  | e :: es => by simp [dictMem, Ty.keq, dictMem_eq_any v es]
theorem dictMem_iff {v : Ty} {acc : List Ty} :
    dictMem v acc = true ↔ ∃ e ∈ acc, Ty.keq e v = true := by
  simp [dictMem_eq_any]

theorem dictMem_false_iff {v : Ty} {acc : List Ty} :
    dictMem v acc = false ↔ ∀ e ∈ acc, Ty.keq e v = false := by
  simp [dictMem_eq_any]

/-- the part `dedup` adds to the accumulator -/
def ddrop : List Ty → List Ty → List Ty
  | _, [] => []
  | acc, v :: vs => if dictMem v acc then ddrop acc vs else v :: ddrop (acc ++ [v]) vs

theorem dedup_eq (acc l : List Ty) : dedup acc l = acc ++ ddrop acc l := by
  induction l generalizing acc with
  | nil => simp [dedup, ddrop]
  | cons v l ih =>
    simp only [dedup, ddrop]
    split
    · exact ih acc
    · rw [ih]; simp

theorem dedup_append (acc l1 l2 : List Ty) : dedup acc (l1 ++ l2) = dedup (dedup acc l1) l2 := by
  induction l1 generalizing acc with
  | nil => simp [dedup]
  | cons v l ih =>
    simp only [List.cons_append, dedup]
    split <;> exact ih _

theorem ddrop_sub (acc l : List Ty) : ∀ x ∈ ddrop acc l, x ∈ l := by
  induction l generalizing acc with
  | nil => simp [ddrop]
  | cons v l ih =>
    intro x hx
    simp only [ddrop] at hx
    split at hx
    · exact List.mem_cons_of_mem _ (ih _ x hx)
    · simp only [List.mem_cons] at hx ⊢
      rcases hx with rfl | hx
      · exact .inl rfl
      · exact .inr (ih _ x hx)

theorem dedup_sub (acc l : List Ty) : ∀ x ∈ dedup acc l, x ∈ acc ∨ x ∈ l := by
  intro x hx
  rw [dedup_eq, List.mem_append] at hx
  exact hx.imp id (ddrop_sub acc l x)

theorem acc_sub_dedup (acc l : List Ty) : ∀ x ∈ acc, x ∈ dedup acc l := by
  intro x hx; rw [dedup_eq]; exact List.mem_append_left _ hx

/-- every processed value is in the result or hash-equal to something in it -/
theorem dedup_cover (acc l : List Ty) :
    ∀ v ∈ l, v ∈ dedup acc l ∨ ∃ e ∈ dedup acc l, Ty.keq e v = true := by
  induction l generalizing acc with
  | nil => simp
  | cons w l ih =>
    intro v hv
    simp only [List.mem_cons] at hv
    simp only [dedup]
    split
    · rename_i hd
      rcases hv with rfl | hv
      · obtain ⟨e, he, hev⟩ := dictMem_iff.mp hd
        exact .inr ⟨e, acc_sub_dedup _ _ e he, hev⟩
      · exact ih acc v hv
    · rcases hv with rfl | hv
      · exact .inl (acc_sub_dedup _ _ v (by simp))
      · exact ih _ v hv

theorem dedup_cover_beq (acc l : List Ty) :
    ∀ v ∈ l, ∃ e ∈ dedup acc l, Ty.beq v e = true := by
  intro v hv
  rcases dedup_cover acc l v hv with h | ⟨e, he, hev⟩
  · exact ⟨v, h, Ty.beq_refl v⟩
  · exact ⟨e, he, by rw [Ty.beq_comm]; exact Ty.keq_imp_beq' e v hev⟩

theorem memAny_dedup (tbl : ClassTable) (o : Obj) (acc l : List Ty) :
    memAny tbl o (dedup acc l) = (memAny tbl o acc || memAny tbl o l) := by
  rw [Bool.eq_iff_iff]
  simp only [memAny_eq_any, Bool.or_eq_true, List.any_eq_true]
  constructor
  · rintro ⟨x, hx, hox⟩
    exact (dedup_sub acc l x hx).imp (fun h => ⟨x, h, hox⟩) (fun h => ⟨x, h, hox⟩)
  · rintro (⟨x, hx, hox⟩ | ⟨x, hx, hox⟩)
    · exact ⟨x, acc_sub_dedup acc l x hx, hox⟩
    · obtain ⟨e, he, hxe⟩ := dedup_cover_beq acc l x hx
      exact ⟨e, he, by rw [← Ty.beq_mem' tbl hxe o]; exact hox⟩

theorem memAny_flatMap_flatten1 (tbl : ClassTable) (o : Obj) (vs : List Ty) :
    memAny tbl o (vs.flatMap flatten1) = vs.any (fun v => mem tbl o v) := by
  induction vs with
  | nil => simp [memAny]
  | cons v vs ih =>
    rw [List.flatMap_cons, memAny_eq_any, List.any_append, ← memAny_eq_any, ← memAny_eq_any, ih,
      memAny_flatten1, List.any_cons]

/-- the final packaging step of `unite_values` -/
def pack : List Ty → Ty
  | [] => .union []
  | [v] => v
  | existing => .union existing

theorem unite_eq (vs : List Ty) : unite vs = pack (dedup [] (vs.flatMap flatten1)) := by
  unfold unite pack; rfl

theorem mem_pack (tbl : ClassTable) (o : Obj) (l : List Ty) : mem tbl o (pack l) = memAny tbl o l := by
  match l with
  | [] => simp [pack, mem]
  | [v] => simp [pack, memAny]
  | _ :: _ :: _ => simp [pack, mem]

/-- the members of a union of values are exactly the members of the operands -/
theorem unite_mem' (tbl : ClassTable) (o : Obj) (vs : List Ty) :
    mem tbl o (unite vs) = vs.any (fun v => mem tbl o v) := by
  rw [unite_eq, mem_pack, memAny_dedup, memAny_flatMap_flatten1]
  simp [memAny]

/-! ### 6. `dedup` as de-duplication for the partial equivalence `hashEq` -/

/-- no two entries hash equal (what the dict of `unite_values` guarantees for its keys) -/
def HNodup (l : List Ty) : Prop := l.Pairwise (fun e v => Ty.keq e v = false)

theorem dedup_hnodup (acc l : List Ty) (h : HNodup acc) : HNodup (dedup acc l) := by
  induction l generalizing acc with
  | nil => simpa [dedup] using h
  | cons v l ih =>
    simp only [dedup]
    split
    · exact ih acc h
    · rename_i hd
      refine ih _ ?_
      have hd' := dictMem_false_iff.mp (by simpa using hd)
      unfold HNodup at *
      rw [List.pairwise_append]
      exact ⟨h, by simp, fun e he x hx => by simp only [List.mem_singleton] at hx; subst hx; exact hd' e he⟩

theorem dedup_of_hnodup (acc l : List Ty) (h : HNodup (acc ++ l)) : dedup acc l = acc ++ l := by
  induction l generalizing acc with
  | nil => simp [dedup]
  | cons v l ih =>
    have hd : dictMem v acc = false := by
      rw [dictMem_false_iff]
      intro e he
      unfold HNodup at h
      rw [List.pairwise_append] at h
      exact h.2.2 e he v (by simp)
    simp only [dedup, hd, Bool.false_eq_true, if_false]
    have := ih (acc ++ [v]) (by simpa using h)
    simpa using this

theorem dedup_idem (l : List Ty) : dedup [] (dedup [] l) = dedup [] l := by
  have := dedup_of_hnodup [] (dedup [] l) (by simpa using dedup_hnodup [] l List.Pairwise.nil)
  simpa using this

/-- values already dropped against a covered accumulator would be dropped again -/
theorem dedup_ddrop (acc acc0 l : List Ty)
    (hc : ∀ e ∈ acc0, ∀ w, Ty.keq e w = true → dictMem w acc = true) :
    dedup acc (ddrop acc0 l) = dedup acc l := by
  induction l generalizing acc acc0 with
  | nil => simp [ddrop]
  | cons v l ih =>
    simp only [ddrop]
    by_cases h0 : dictMem v acc0 = true
    · obtain ⟨e, he, hev⟩ := dictMem_iff.mp h0
      simp only [h0, if_true, dedup, hc e he v hev]
      exact ih acc acc0 hc
    · simp only [h0, Bool.false_eq_true, if_false, dedup]
      by_cases h1 : dictMem v acc = true
      · simp only [h1, if_true]
        refine ih acc (acc0 ++ [v]) ?_
        intro e he w hew
        simp only [List.mem_append, List.mem_singleton] at he
        rcases he with he | rfl
        · exact hc e he w hew
        · obtain ⟨e', he', hev⟩ := dictMem_iff.mp h1
          exact dictMem_iff.mpr ⟨e', he', Ty.keq_trans _ _ _ hev hew⟩
      · simp only [h1, Bool.false_eq_true, if_false]
        refine ih (acc ++ [v]) (acc0 ++ [v]) ?_
        intro e he w hew
        simp only [List.mem_append, List.mem_singleton] at he
        rcases he with he | rfl
        · obtain ⟨e', he', h'⟩ := dictMem_iff.mp (hc e he w hew)
          exact dictMem_iff.mpr ⟨e', by simp [he'], h'⟩
        · exact dictMem_iff.mpr ⟨e, by simp, hew⟩

theorem dedup_dedup (acc l : List Ty) : dedup acc (dedup [] l) = dedup acc l := by
  rw [dedup_eq [] l, List.nil_append]
  exact dedup_ddrop acc [] l (by simp)

theorem ddrop_nil_iff (acc l : List Ty) : ddrop acc l = [] ↔ ∀ v ∈ l, dictMem v acc = true := by
  induction l generalizing acc with
  | nil => simp [ddrop]
  | cons v l ih =>
    simp only [ddrop]
    by_cases h : dictMem v acc = true
    · simp [h, ih]
    · simp [h]

theorem dedup_nil_iff (l : List Ty) : dedup [] l = [] ↔ l = [] := by
  cases l with
  | nil => simp [dedup]
  | cons v l =>
    simp only [dedup, dictMem, Bool.false_eq_true, if_false, List.nil_append, reduceCtorEq, iff_false]
    rw [dedup_eq]; simp

/-- If the de-duplicated list is a singleton, so is that of any rearrangement. -/
theorem dedup_single_agree {M1 M2 : List Ty} (hlen : M1.length = M2.length)
    (hmem : ∀ v, v ∈ M1 ↔ v ∈ M2) (h : (dedup [] M1).length = 1) : (dedup [] M2).length = 1 := by
  cases M1 with
  | nil => simp [dedup] at h
  | cons x rest =>
    simp only [dedup, dictMem, Bool.false_eq_true, if_false, List.nil_append] at h
    rw [dedup_eq] at h
    have hnil : ddrop [x] rest = [] := by
      simpa using h
    have hx : ∀ v ∈ rest, Ty.keq x v = true := by
      intro v hv
      have := (ddrop_nil_iff _ _).mp hnil v hv
      simpa [dictMem_eq_any] using this
    cases M2 with
    | nil => simp at hlen
    | cons y rest2 =>
      simp only [dedup, dictMem, Bool.false_eq_true, if_false, List.nil_append]
      rw [dedup_eq]
      suffices ddrop [y] rest2 = [] by simp [this]
      rw [ddrop_nil_iff]
      intro v hv
      simp only [dictMem_eq_any, List.any_cons, List.any_nil, Bool.or_false]
      cases rest with
      | nil =>
        simp only [List.length_cons, List.length_nil] at hlen
        have : rest2 = [] := List.eq_nil_of_length_eq_zero (by omega)
        subst this; simp at hv
      | cons r rest' =>
        have hxr := hx r (by simp)
        have hxx : Ty.keq x x = true :=
          Ty.keq_trans _ _ _ hxr (by rw [Ty.keq_comm]; exact hxr)
        have hall : ∀ u ∈ x :: r :: rest', Ty.keq x u = true := by
          intro u hu
          simp only [List.mem_cons] at hu
          rcases hu with rfl | hu
          · exact hxx
          · exact hx u (by simpa using hu)
        have hy := hall y ((hmem y).mpr (by simp))
        have hv' := hall v ((hmem v).mpr (by simp [hv]))
        exact Ty.keq_trans _ _ _ (by rw [Ty.keq_comm]; exact hy) hv'

theorem pack_beq {D1 D2 : List Ty} (h12 : ∀ x ∈ D1, ∃ y ∈ D2, Ty.keq y x = true)
    (h21 : ∀ y ∈ D2, ∃ x ∈ D1, Ty.keq x y = true) (hs : D1.length = 1 ↔ D2.length = 1) :
    Ty.beq (pack D1) (pack D2) = true := by
  match D1, D2 with
  | [], [] => simp [pack, Ty.beq_refl]
  | [], y :: _ => obtain ⟨x, hx, _⟩ := h21 y (by simp); simp at hx
  | x :: _, [] => obtain ⟨y, hy, _⟩ := h12 x (by simp); simp at hy
  | [x], [y] =>
    obtain ⟨x', hx, h⟩ := h21 y (by simp)
    simp only [List.mem_singleton] at hx; subst hx
    simpa [pack] using Ty.keq_imp_beq' _ _ h
  | [x], _ :: _ :: _ => simp at hs
  | _ :: _ :: _, [y] => simp at hs
  | x1 :: x2 :: l, y1 :: y2 :: l' =>
    simp only [pack]
    exact Ty.beq_union_iff.mpr (.inr ⟨h12, h21⟩)
/-- with hash-reflexive values, every processed value is hash-equal to something in the result -/
theorem dedup_coverH (l : List Ty) (hr : ∀ v ∈ l, Ty.hashEq v v = true) :
    ∀ v ∈ l, ∃ e ∈ dedup [] l, Ty.keq e v = true := by
  intro v hv
  rcases dedup_cover [] l v hv with h | h
  · exact ⟨v, h, Ty.keq_self (hr v hv)⟩
  · exact h

/-- `unite_values` is insensitive to the order of the flattened members, up to `==`, when every
member has a stable hash. -/
theorem pack_dedup_perm {M1 M2 : List Ty} (hlen : M1.length = M2.length)
    (hmem : ∀ v, v ∈ M1 ↔ v ∈ M2) (hr : ∀ v ∈ M1, Ty.hashEq v v = true) :
    Ty.beq (pack (dedup [] M1)) (pack (dedup [] M2)) = true := by
  have hr2 : ∀ v ∈ M2, Ty.hashEq v v = true := fun v hv => hr v ((hmem v).mpr hv)
  apply pack_beq
  · intro x hx
    have := dedup_sub [] M1 x hx
    simp only [List.not_mem_nil, false_or] at this
    exact dedup_coverH M2 hr2 x ((hmem x).mp this)
  · intro x hx
    have := dedup_sub [] M2 x hx
    simp only [List.not_mem_nil, false_or] at this
    exact dedup_coverH M1 hr x ((hmem x).mpr this)
  · exact ⟨dedup_single_agree hlen hmem, dedup_single_agree hlen.symm (fun v => (hmem v).symm)⟩
/-! ### 7. the laws of `unite` -/

def Ty.isUnion : Ty → Bool
  | .union _ => true
  | _ => false

/-- a union or an `Annotated[A | B, m]`: what `flatten_values` takes apart -/
def Ty.isU : Ty → Bool
  | .union _ => true
  | .annotated (.union _) => true
  | _ => false

/-- **flat** (top level only): the members of a union / of an annotated union are themselves
neither unions nor annotated unions; any other value is flat. -/
def Ty.flat : Ty → Bool
  | .union ts => ts.all (fun t => !t.isU)
  | .annotated (.union ts) => ts.all (fun t => !t.isU)
  | _ => true

/-- **tidy**: contains no union and no unhashable literal (hash and `==` agree on tidy values) -/
def Ty.tidy (t : Ty) : Bool := !t.hasUnion && !t.hasUnhashable

theorem Ty.isU_eq (t : Ty) : t.isU = (t.isUnion || isAnnUnion t) := by
  cases t with
  | annotated t' => cases t' <;> rfl
  | _ => rfl

theorem flatten1_of_not_isU {t : Ty} (h : t.isU = false) : flatten1 t = [t] := by
  cases t with
  | annotated t' => cases t' <;> simp_all [flatten1, Ty.isU]
  | _ => simp_all [flatten1, Ty.isU]

theorem annotate_not_isU {t : Ty} (h : t.isU = false) : (annotate t).isU = false := by
  cases t with
  | annotated t' => cases t' <;> simp_all [annotate, Ty.isU]
  | _ => simp_all [annotate, Ty.isU]

theorem flat_members {v : Ty} (h : v.flat = true) : ∀ x ∈ flatten1 v, x.isU = false := by
  cases v with
  | union ts =>
    simp only [Ty.flat, List.all_eq_true, Bool.not_eq_true'] at h
    simpa [flatten1] using h
  | annotated t' =>
    cases t' with
    | union ts =>
      simp only [Ty.flat, List.all_eq_true, Bool.not_eq_true'] at h
      intro x hx
      simp only [flatten1, List.mem_map] at hx
      obtain ⟨t, ht, rfl⟩ := hx
      exact annotate_not_isU (h t ht)
    | _ => simp [flatten1, Ty.isU]
  | _ => simp [flatten1, Ty.isU]

theorem flatMap_flat_members {vs : List Ty} (h : ∀ v ∈ vs, v.flat = true) :
    ∀ x ∈ vs.flatMap flatten1, x.isU = false := by
  intro x hx
  obtain ⟨v, hv, hxv⟩ := List.mem_flatMap.mp hx
  exact flat_members (h v hv) x hxv

theorem dedup_nil_sub (l : List Ty) : ∀ x ∈ dedup [] l, x ∈ l := by
  intro x hx
  simpa using dedup_sub [] l x hx

theorem flat_of_not_isU {t : Ty} (h : t.isU = false) : t.flat = true := by
  cases t with
  | annotated t' => cases t' <;> simp_all [Ty.flat, Ty.isU]
  | _ => simp_all [Ty.flat, Ty.isU]

theorem flatten1_pack {D : List Ty} (h : ∀ d ∈ D, d.isU = false) : flatten1 (pack D) = D := by
  match D with
  | [] => simp [pack, flatten1]
  | [v] => simpa [pack] using flatten1_of_not_isU (h v (by simp))
  | _ :: _ :: _ => simp [pack, flatten1]

theorem flat_pack {D : List Ty} (h : ∀ d ∈ D, d.isU = false) : (pack D).flat = true := by
  match D with
  | [] => simp [pack, Ty.flat]
  | [v] => simpa [pack] using flat_of_not_isU (h v (by simp))
  | x :: y :: l =>
    simp only [pack, Ty.flat, List.all_eq_true, Bool.not_eq_true']
    exact h

/-- uniting never nests unions: the result of uniting flat values is flat -/
theorem unite_flat' {vs : List Ty} (h : ∀ v ∈ vs, v.flat = true) : (unite vs).flat = true := by
  rw [unite_eq]
  exact flat_pack fun d hd => flatMap_flat_members h d (dedup_nil_sub _ d hd)

theorem flatten1_unite {vs : List Ty} (h : ∀ v ∈ vs, v.flat = true) :
    flatten1 (unite vs) = dedup [] (vs.flatMap flatten1) := by
  rw [unite_eq]
  exact flatten1_pack fun d hd => flatMap_flat_members h d (dedup_nil_sub _ d hd)

theorem unite_unite_left {vs : List Ty} (ws : List Ty) (h : ∀ v ∈ vs, v.flat = true) :
    unite (unite vs :: ws) = unite (vs ++ ws) := by
  rw [unite_eq, unite_eq (vs ++ ws), List.flatMap_cons, flatten1_unite h, List.flatMap_append,
    dedup_append, dedup_append, dedup_idem]

theorem unite_unite_right (vs : List Ty) {ws : List Ty} (h : ∀ v ∈ ws, v.flat = true) :
    unite (vs ++ [unite ws]) = unite (vs ++ ws) := by
  rw [unite_eq, unite_eq (vs ++ ws), List.flatMap_append, List.flatMap_append, List.flatMap_cons,
    List.flatMap_nil, List.append_nil, flatten1_unite h, dedup_append, dedup_append, dedup_dedup]

theorem unite_assoc' {a b c : Ty} (ha : a.flat = true) (hb : b.flat = true) (hc : c.flat = true) :
    unite [unite [a, b], c] = unite [a, unite [b, c]] := by
  have h1 := unite_unite_left (vs := [a, b]) [c] (by simp [ha, hb])
  have h2 := unite_unite_right [a] (ws := [b, c]) (by simp [hb, hc])
  simp only [List.cons_append, List.nil_append] at h1 h2
  rw [h1, h2]

theorem unite_perm' {vs ws : List Ty} (h : vs.Perm ws)
    (hr : ∀ v ∈ vs, ∀ x ∈ flatten1 v, x.hasUnhashable = false) :
    Ty.beq (unite vs) (unite ws) = true := by
  rw [unite_eq, unite_eq]
  have hp := List.Perm.flatMap_right flatten1 h
  refine pack_dedup_perm hp.length_eq (fun v => hp.mem_iff) ?_
  intro x hx
  obtain ⟨v, hv, hxv⟩ := List.mem_flatMap.mp hx
  exact Ty.hashEq_refl x (hr v hv x hxv)

theorem unite_never_cons (vs : List Ty) : unite (Ty.never :: vs) = unite vs := by
  simp [unite, Ty.never, flatten1]

theorem unite_single' {a : Ty} (h : a.isU = false) : unite [a] = a := by
  simp [unite_eq, flatten1_of_not_isU h, dedup, dictMem, pack]

theorem dupIn_false_iff (ts : List Ty) :
    hasDupMembers.dupIn ts = false ↔ ts.Pairwise (fun e v => Ty.beq e v = false) := by
  induction ts with
  | nil => simp [hasDupMembers.dupIn]
  | cons t ts ih =>
    simp only [hasDupMembers.dupIn, Bool.or_eq_false_iff, ih, List.pairwise_cons]
    constructor
    · rintro ⟨h1, h2⟩
      refine ⟨?_, h2⟩
      intro v hv
      cases hb : Ty.beq t v
      · rfl
      · have := Ty.memBy_iff.mpr ⟨v, hv, hb⟩
        simp [this] at h1
    · rintro ⟨h1, h2⟩
      refine ⟨?_, h2⟩
      cases hm : Ty.memBy t ts
      · rfl
      · obtain ⟨v, hv, hb⟩ := Ty.memBy_iff.mp hm
        simp [h1 v hv] at hb

theorem hnodup_of_dupIn {ts : List Ty} (h : hasDupMembers.dupIn ts = false) : HNodup ts := by
  rw [dupIn_false_iff] at h
  refine List.Pairwise.imp ?_ h
  intro e v hev
  cases hh : Ty.keq e v
  · rfl
  · simp [Ty.keq_imp_beq' e v hh] at hev

theorem pack_of_length_ne_one {ts : List Ty} (h : ts.length ≠ 1) : pack ts = .union ts := by
  match ts with
  | [] => rfl
  | [v] => simp at h
  | _ :: _ :: _ => rfl

theorem nonNormalUnion_union {ts : List Ty} (h : nonNormalUnion (.union ts) = false) :
    ts.length ≠ 1 ∧ hasDupMembers.dupIn ts = false := by
  match ts with
  | [] => simp [hasDupMembers.dupIn]
  | [v] => simp [nonNormalUnion] at h
  | x :: y :: l => simpa [nonNormalUnion, hasDupMembers] using h

/-- a duplicate-free union that is not a one-member union is a fixed point of `unite_values` -/
theorem unite_single_union {ts : List Ty} (h : nonNormalUnion (.union ts) = false) :
    unite [.union ts] = .union ts := by
  obtain ⟨h1, h2⟩ := nonNormalUnion_union h
  have := dedup_of_hnodup [] ts (by simpa using hnodup_of_dupIn h2)
  simp only [List.nil_append] at this
  simp [unite_eq, flatten1, this, pack_of_length_ne_one h1]

theorem unite_single_normal {a : Ty} (h1 : isAnnUnion a = false) (h2 : nonNormalUnion a = false) :
    unite [a] = a := by
  by_cases hu : a.isUnion = true
  · cases a <;> simp [Ty.isUnion] at hu
    exact unite_single_union h2
  · exact unite_single' (by rw [Ty.isU_eq]; simp [h1, hu])

theorem unite_idem' {a : Ty} (h1 : isAnnUnion a = false) (h2 : nonNormalUnion a = false)
    (h3 : a.hasUnhashable = false) : unite [a, a] = a := by
  by_cases hu : a.isUnion = true
  · cases a <;> simp [Ty.isUnion] at hu
    rename_i ts
    obtain ⟨hl, hd⟩ := nonNormalUnion_union h2
    simp only [Ty.hasUnhashable, Ty.hasUnhashableL_iff] at h3
    have hts := dedup_of_hnodup [] ts (by simpa using hnodup_of_dupIn hd)
    simp only [List.nil_append] at hts
    have hdrop : ddrop ts ts = [] := by
      rw [ddrop_nil_iff]
      intro v hv
      exact dictMem_iff.mpr ⟨v, hv, Ty.keq_refl v (h3 v hv)⟩
    have hD : dedup [] (ts ++ ts) = ts := by
      rw [dedup_append, hts, dedup_eq, hdrop, List.append_nil]
    simp [unite_eq, flatten1, hD, pack_of_length_ne_one hl]
  · have hiu : a.isU = false := by rw [Ty.isU_eq]; simp [h1, hu]
    simp [unite_eq, flatten1_of_not_isU hiu, dedup, dictMem, Ty.hashEq_refl a h3, Ty.beq_refl, pack]
/-- on tidy values hash equality and `==` coincide -/
theorem tidy_hashEq {a b : Ty} (ha : a.tidy = true) (hb : b.tidy = true) :
    Ty.keq a b = Ty.beq a b := by
  simp only [Ty.tidy, Bool.and_eq_true, Bool.not_eq_true'] at ha hb
  rw [Bool.eq_iff_iff]
  exact ⟨Ty.keq_imp_beq' a b, fun h => Ty.keq_iff.mpr ⟨Ty.beq_imp_hashEq a b ha.1 ha.2 hb.2 h, h⟩⟩

theorem dupIn_of_hnodup_tidy {ts : List Ty} (ht : ∀ t ∈ ts, t.tidy = true) (h : HNodup ts) :
    hasDupMembers.dupIn ts = false := by
  rw [dupIn_false_iff]
  induction ts with
  | nil => exact List.Pairwise.nil
  | cons t ts ih =>
    unfold HNodup at h
    rw [List.pairwise_cons] at h ⊢
    refine ⟨?_, ih (fun x hx => ht x (by simp [hx])) h.2⟩
    intro v hv
    rw [← tidy_hashEq (ht t (by simp)) (ht v (by simp [hv]))]
    exact h.1 v hv

/-- equal alternatives are merged (outside `unionOrder` / `unhashable`): if all flattened members
are tidy the result has no two `==` members and is not a one-member union -/
theorem unite_normal' {vs : List Ty} (h : ∀ v ∈ vs, ∀ x ∈ flatten1 v, x.tidy = true) :
    nonNormalUnion (unite vs) = false := by
  rw [unite_eq]
  have hD := dedup_hnodup [] (vs.flatMap flatten1) List.Pairwise.nil
  have ht : ∀ x ∈ dedup [] (vs.flatMap flatten1), x.tidy = true := by
    intro x hx
    obtain ⟨v, hv, hxv⟩ := List.mem_flatMap.mp (dedup_nil_sub _ x hx)
    exact h v hv x hxv
  have hd := dupIn_of_hnodup_tidy ht hD
  match hm : dedup [] (vs.flatMap flatten1) with
  | [] => simp [pack, nonNormalUnion, hasDupMembers, hasDupMembers.dupIn]
  | [v] =>
    have := ht v (by simp [hm])
    simp only [Ty.tidy, Bool.and_eq_true, Bool.not_eq_true'] at this
    cases v <;> simp_all [pack, nonNormalUnion, hasDupMembers, Ty.hasUnion]
  | x :: y :: l =>
    rw [hm] at hd
    simpa [pack, nonNormalUnion, hasDupMembers] using hd

/-! ### 8. substitution of type variables -/

theorem substL_eq_map (m : TvMap) : ∀ ts, substL m ts = ts.map (subst m)
  | [] => by simp [substL]
  | t :: ts => by simp [substL, substL_eq_map m ts]

theorem Ty.tvarsL_mem {i : Nat} : ∀ {ts : List Ty}, i ∈ Ty.tvarsL ts ↔ ∃ t ∈ ts, i ∈ t.tvars
  | [] => by simp [Ty.tvarsL]
  | t :: ts => by simp [Ty.tvarsL, Ty.tvarsL_mem (ts := ts)]

theorem Ty.tvarsL_nil_iff (ts : List Ty) : Ty.tvarsL ts = [] ↔ ∀ t ∈ ts, t.tvars = [] := by
  induction ts <;> simp_all [Ty.tvarsL]

mutual
/-- **deeply flat**: everywhere inside the term, the members of a union are neither unions nor
annotated unions (the invariant `MultiValuedValue.__post_init__` establishes) -/
def Ty.flatD : Ty → Bool
  | .generic _ as => Ty.flatDL as
  | .seq _ ms => Ty.flatDL ms
  | .many t => t.flatD
  | .union ts => ts.all (fun t => !t.isU) && Ty.flatDL ts
  | .annotated t => t.flatD
  | _ => true
def Ty.flatDL : List Ty → Bool
  | [] => true
  | t :: ts => t.flatD && Ty.flatDL ts
end

theorem Ty.flatDL_iff (ts : List Ty) : Ty.flatDL ts = true ↔ ∀ t ∈ ts, t.flatD = true := by
  induction ts <;> simp_all [Ty.flatDL]

theorem flatMap_flatten1_of_not_isU {ts : List Ty} (h : ∀ t ∈ ts, t.isU = false) :
    ts.flatMap flatten1 = ts := by
  induction ts with
  | nil => rfl
  | cons t ts ih =>
    rw [List.flatMap_cons, flatten1_of_not_isU (h t (by simp)), ih fun x hx => h x (by simp [hx])]
    rfl

theorem TvMap.get_nil (i : Nat) : TvMap.get [] i = none := rfl

/-- the empty substitution is the identity -/
theorem subst_nil (t : Ty) : subst [] t = t := by
  induction t using Ty.ind' with
  | generic c as ih | seq c as ih =>
    simp only [subst, substL_eq_map]
    congr 1
    exact (List.map_congr_left ih).trans (List.map_id _)
  | many t ih | annotated t ih => simp [subst, ih]
  | tvar i => simp [subst, TvMap.get_nil]
  | union ts ih => simp [subst]
  | _ => simp [subst]

/-- substitution is the identity on closed, deeply flat terms -/
theorem subst_id_closed' (m : TvMap) (t : Ty) : t.tvars = [] → t.flatD = true → subst m t = t := by
  induction t using Ty.ind' with
  | generic c as ih | seq c as ih =>
    intro h1 h2
    simp only [Ty.tvars, Ty.tvarsL_nil_iff] at h1
    simp only [Ty.flatD, Ty.flatDL_iff] at h2
    simp only [subst, substL_eq_map]
    congr 1
    exact (List.map_congr_left fun a ha => ih a ha (h1 a ha) (h2 a ha)).trans (List.map_id _)
  | many t ih | annotated t ih =>
    intro h1 h2
    simp only [Ty.tvars] at h1
    simp only [Ty.flatD] at h2
    simp [subst, ih h1 h2]
  | tvar i => intro h1; simp [Ty.tvars] at h1
  | union ts ih =>
    intro h1 h2
    simp only [Ty.tvars, Ty.tvarsL_nil_iff] at h1
    simp only [Ty.flatD, Bool.and_eq_true, Ty.flatDL_iff, List.all_eq_true, Bool.not_eq_true'] at h2
    simp only [subst, substL_eq_map]
    split
    · rfl
    · have : ts.map (subst m) = ts :=
        (List.map_congr_left fun a ha => ih a ha (h1 a ha) (h2.2 a ha)).trans (List.map_id _)
      rw [this, mkUnion, flatMap_flatten1_of_not_isU h2.1]
  | _ => intros; simp [subst]

theorem tvars_annotate (t : Ty) : (annotate t).tvars = t.tvars := by
  cases t <;> simp [annotate, Ty.tvars]

theorem tvars_flatten1 {t : Ty} (h : t.tvars = []) : ∀ x ∈ flatten1 t, x.tvars = [] := by
  cases t with
  | union ts =>
    simp only [Ty.tvars, Ty.tvarsL_nil_iff] at h
    simpa [flatten1] using h
  | annotated t' =>
    cases t' with
    | union ts =>
      simp only [Ty.tvars, Ty.tvarsL_nil_iff] at h
      intro x hx
      simp only [flatten1, List.mem_map] at hx
      obtain ⟨t, ht, rfl⟩ := hx
      rw [tvars_annotate]; exact h t ht
    | _ => simpa [flatten1] using h
  | _ => simpa [flatten1] using h

/-- substituting closed terms for every variable leaves no variable -/
theorem subst_replaces_all' (m : TvMap) (t : Ty) :
    (∀ i ∈ t.tvars, ∃ u, m.get i = some u ∧ u.tvars = []) → (subst m t).tvars = [] := by
  induction t using Ty.ind' with
  | generic c as ih | seq c as ih =>
    intro h
    simp only [Ty.tvars, Ty.tvarsL_mem] at h
    simp only [subst, substL_eq_map, Ty.tvars, Ty.tvarsL_nil_iff, List.mem_map]
    rintro _ ⟨a, ha, rfl⟩
    exact ih a ha fun i hi => h i ⟨a, ha, hi⟩
  | many t ih | annotated t ih =>
    intro h
    simp only [Ty.tvars] at h
    simpa [subst, Ty.tvars] using ih h
  | tvar i =>
    intro h
    obtain ⟨u, hu, hc⟩ := h i (by simp [Ty.tvars])
    simp [subst, hu, hc]
  | union ts ih =>
    intro h
    simp only [Ty.tvars, Ty.tvarsL_mem] at h
    simp only [subst, substL_eq_map]
    split
    · rename_i hc
      simp only [Bool.or_eq_true, List.isEmpty_iff] at hc
      rcases hc with rfl | rfl
      · simp [Ty.tvars, Ty.tvarsL]
      · simp only [Ty.tvars]
        rw [List.eq_nil_iff_forall_not_mem]
        intro i hi
        obtain ⟨u, hu, -⟩ := h i (Ty.tvarsL_mem.mp hi)
        simp [TvMap.get_nil] at hu
    · simp only [mkUnion, Ty.tvars, Ty.tvarsL_nil_iff, List.mem_flatMap, List.mem_map]
      rintro x ⟨_, ⟨a, ha, rfl⟩, hx⟩
      exact tvars_flatten1 (ih a ha fun i hi => h i ⟨a, ha, hi⟩) x hx
  | _ => intro _; simp [subst, Ty.tvars]

/-! #### hash equality is a congruence for `annotate`, `flatten1`, `subst` -/

theorem mem_flatMap_subst {m : TvMap} {D : List Ty} {x : Ty} :
    x ∈ (substL m D).flatMap flatten1 ↔ ∃ w ∈ D, x ∈ flatten1 (subst m w) := by
  simp only [substL_eq_map, List.mem_flatMap, List.mem_map]
  constructor
  · rintro ⟨_, ⟨w, hw, rfl⟩, hx⟩; exact ⟨w, hw, hx⟩
  · rintro ⟨w, hw, hx⟩; exact ⟨_, ⟨w, hw, rfl⟩, hx⟩

theorem hasUnhashable_annotate (t : Ty) : (annotate t).hasUnhashable = t.hasUnhashable := by
  cases t <;> simp [annotate, Ty.hasUnhashable]

theorem hasUnhashable_flatten1 (t : Ty) :
    t.hasUnhashable = false ↔ ∀ x ∈ flatten1 t, x.hasUnhashable = false := by
  cases t with
  | union ts => simp [flatten1, Ty.hasUnhashable, Ty.hasUnhashableL_iff]
  | annotated t' =>
    cases t' <;> simp [flatten1, Ty.hasUnhashable, Ty.hasUnhashableL_iff, hasUnhashable_annotate]
  | _ => simp [flatten1]

theorem Ty.hashEqList_append {xs ys xs' ys' : List Ty} (h : Ty.hashEqList xs ys = true)
    (h' : Ty.hashEqList xs' ys' = true) : Ty.hashEqList (xs ++ xs') (ys ++ ys') = true := by
  induction xs generalizing ys with
  | nil => cases ys <;> simp [Ty.hashEqList] at h; simpa using h'
  | cons x xs ih =>
    cases ys with
    | nil => simp [Ty.hashEqList] at h
    | cons y ys =>
      simp only [Ty.hashEqList, List.cons_append, Bool.and_eq_true] at h ⊢
      exact ⟨h.1, ih h.2⟩

theorem Ty.hashEqList_flatMap_of (g : Ty → List Ty) {xs ys : List Ty}
    (h : Ty.hashEqList xs ys = true)
    (hg : ∀ x ∈ xs, ∀ y ∈ ys, Ty.hashEq x y = true → Ty.hashEqList (g x) (g y) = true) :
    Ty.hashEqList (xs.flatMap g) (ys.flatMap g) = true := by
  induction xs generalizing ys with
  | nil => cases ys <;> simp [Ty.hashEqList] at h ⊢
  | cons x xs ih =>
    cases ys with
    | nil => simp [Ty.hashEqList] at h
    | cons y ys =>
      simp only [Ty.hashEqList, Bool.and_eq_true] at h
      simp only [List.flatMap_cons]
      exact Ty.hashEqList_append (hg x (by simp) y (by simp) h.1)
        (ih h.2 fun x' hx' y' hy' => hg x' (by simp [hx']) y' (by simp [hy']))

theorem Ty.hashEqList_map_of (f : Ty → Ty) {xs ys : List Ty}
    (h : Ty.hashEqList xs ys = true)
    (hf : ∀ x ∈ xs, ∀ y ∈ ys, Ty.hashEq x y = true → Ty.hashEq (f x) (f y) = true) :
    Ty.hashEqList (xs.map f) (ys.map f) = true := by
  induction xs generalizing ys with
  | nil => cases ys <;> simp [Ty.hashEqList] at h ⊢
  | cons x xs ih =>
    cases ys with
    | nil => simp [Ty.hashEqList] at h
    | cons y ys =>
      simp only [Ty.hashEqList, List.map_cons, Bool.and_eq_true] at h ⊢
      exact ⟨hf x (by simp) y (by simp) h.1,
        ih h.2 fun x' hx' y' hy' => hf x' (by simp [hx']) y' (by simp [hy'])⟩

theorem Ty.hashEqList_bwd {xs ys : List Ty} (h : Ty.hashEqList xs ys = true) :
    ∀ y ∈ ys, ∃ x ∈ xs, Ty.hashEq x y = true := by
  induction xs generalizing ys with
  | nil => cases ys <;> simp [Ty.hashEqList] at h ⊢
  | cons x xs ih =>
    cases ys with
    | nil => simp
    | cons y ys =>
      simp only [Ty.hashEqList, Bool.and_eq_true] at h
      intro y' hy'
      simp only [List.mem_cons] at hy'
      rcases hy' with rfl | hy'
      · exact ⟨x, by simp, h.1⟩
      · obtain ⟨x', hx', hxy⟩ := ih h.2 y' hy'
        exact ⟨x', by simp [hx'], hxy⟩

theorem Ty.hashEqList_isEmpty {xs ys : List Ty} (h : Ty.hashEqList xs ys = true) :
    xs.isEmpty = ys.isEmpty := by
  cases xs <;> cases ys <;> simp [Ty.hashEqList] at h ⊢

theorem hashEq_annotate {a b : Ty} (h : Ty.hashEq a b = true) :
    Ty.hashEq (annotate a) (annotate b) = true := by
  cases a <;> cases b <;> simp only [Ty.hashEq, Bool.false_eq_true] at h <;>
    simp only [annotate, Ty.hashEq] <;> first | exact h | rfl

theorem hashEq_flatten1 {x y : Ty} (h : Ty.hashEq x y = true) :
    Ty.hashEqList (flatten1 x) (flatten1 y) = true := by
  cases x <;> cases y <;> simp only [Ty.hashEq, Bool.false_eq_true] at h
  case annotated.annotated x' y' =>
    cases x' <;> cases y' <;> simp only [Ty.hashEq, Bool.false_eq_true] at h
    case union.union as bs =>
      simp only [flatten1]
      exact Ty.hashEqList_map_of annotate h fun _ _ _ _ hab => hashEq_annotate hab
    all_goals (simp only [flatten1, Ty.hashEqList, Ty.hashEq, Bool.and_true]; first | done | exact h | rfl)
  case union.union as bs => simpa [flatten1] using h
  all_goals (simp only [flatten1, Ty.hashEqList, Ty.hashEq, Bool.and_true]; first | done | exact h | rfl)

/-- substitution respects hash equality when the substituted right-hand side contains no
unhashable literal (the replacement of a variable must have a stable hash) -/
theorem hashEq_subst (m : TvMap) (a : Ty) : ∀ b, Ty.hashEq a b = true →
    (subst m b).hasUnhashable = false → Ty.hashEq (subst m a) (subst m b) = true := by
  induction a using Ty.ind' with
  | generic c as ih =>
    intro b h hu
    cases b with
    | generic d bs =>
      simp only [Ty.hashEq, Bool.and_eq_true] at h
      simp only [subst, substL_eq_map, Ty.hasUnhashable, Ty.hasUnhashableL_iff, List.mem_map,
        forall_exists_index, and_imp, forall_apply_eq_imp_iff₂] at hu
      simp only [subst, substL_eq_map, Ty.hashEq, Bool.and_eq_true]
      exact ⟨h.1, Ty.hashEqList_map_of _ h.2 fun x hx y hy hxy => ih x hx y hxy (hu y hy)⟩
    | _ => simp [Ty.hashEq] at h
  | seq c as ih =>
    intro b h hu
    cases b with
    | seq d bs =>
      simp only [Ty.hashEq, Bool.and_eq_true] at h
      simp only [subst, substL_eq_map, Ty.hasUnhashable, Ty.hasUnhashableL_iff, List.mem_map,
        forall_exists_index, and_imp, forall_apply_eq_imp_iff₂] at hu
      simp only [subst, substL_eq_map, Ty.hashEq, Bool.and_eq_true]
      exact ⟨h.1, Ty.hashEqList_map_of _ h.2 fun x hx y hy hxy => ih x hx y hxy (hu y hy)⟩
    | _ => simp [Ty.hashEq] at h
  | many t ih =>
    intro b h hu
    cases b with
    | many t' =>
      simp only [Ty.hashEq] at h
      simp only [subst, Ty.hasUnhashable] at hu
      simpa [subst, Ty.hashEq] using ih _ h hu
    | _ => simp [Ty.hashEq] at h
  | annotated t ih =>
    intro b h hu
    cases b with
    | annotated t' =>
      simp only [Ty.hashEq] at h
      simp only [subst, Ty.hasUnhashable] at hu
      simpa [subst, Ty.hashEq] using ih _ h hu
    | _ => simp [Ty.hashEq] at h
  | tvar i =>
    intro b h hu
    cases b with
    | tvar j =>
      simp only [Ty.hashEq, beq_iff_eq] at h
      subst h; exact Ty.hashEq_refl _ hu
    | _ => simp [Ty.hashEq] at h
  | union as ih =>
    intro b h hu
    cases b with
    | union bs =>
      simp only [Ty.hashEq] at h
      have hemp := Ty.hashEqList_isEmpty h
      simp only [subst, hemp] at hu ⊢
      split
      · simpa [Ty.hashEq] using h
      · rename_i hc
        rw [if_neg hc] at hu
        simp only [mkUnion, Ty.hasUnhashable, Ty.hasUnhashableL_iff] at hu
        simp only [mkUnion, Ty.hashEq, substL_eq_map, List.flatMap_map]
        refine Ty.hashEqList_flatMap_of _ h fun x hx y hy hxy => hashEq_flatten1 (ih x hx y hxy ?_)
        rw [hasUnhashable_flatten1]
        intro z hz
        exact hu z (mem_flatMap_subst.mpr ⟨y, hy, hz⟩)
    | _ => simp [Ty.hashEq] at h
  | _ =>
    intro b h _
    cases b <;> simp only [Ty.hashEq, Bool.false_eq_true] at h <;> simp only [subst, Ty.hashEq] <;>
      first | exact h | rfl
/-! #### substitution against uniting -/



theorem isU_of_hashEq {x y : Ty} (h : Ty.hashEq x y = true) : x.isU = y.isU := by
  cases x <;> cases y <;> simp only [Ty.hashEq, Bool.false_eq_true] at h <;> try rfl
  rename_i x' y'
  cases x' <;> cases y' <;> simp only [Ty.hashEq, Bool.false_eq_true] at h <;> rfl

theorem beq_annotate {a b : Ty} (h : Ty.beq a b = true) : Ty.beq (annotate a) (annotate b) = true := by
  cases a <;> cases b <;> simp only [Ty.beq, Bool.false_eq_true] at h <;>
    simp only [annotate, Ty.beq] <;> first | exact h | rfl

theorem keq_annotate {a b : Ty} (h : Ty.keq a b = true) : Ty.keq (annotate a) (annotate b) = true :=
  Ty.keq_iff.mpr ⟨hashEq_annotate (Ty.keq_imp_hashEq _ _ h), beq_annotate (Ty.keq_imp_beq' _ _ h)⟩

theorem Ty.keq_generic (c d : Cls) (as bs : List Ty) :
    Ty.keq (.generic c as) (.generic d bs) = ((c == d) && Ty.keqList as bs) := by
  simp only [Ty.keq, Ty.keqList, Ty.hashEq, Ty.beq]
  cases (c == d) <;> cases Ty.hashEqList as bs <;> cases Ty.beqList as bs <;> rfl

theorem Ty.keq_seq (c d : Cls) (as bs : List Ty) :
    Ty.keq (.seq c as) (.seq d bs) = ((c == d) && Ty.keqList as bs) := by
  simp only [Ty.keq, Ty.keqList, Ty.hashEq, Ty.beq]
  cases (c == d) <;> cases Ty.hashEqList as bs <;> cases Ty.beqList as bs <;> rfl

/-- the flattened members of two values that are the same key correspond -/
theorem keq_flatten1_bwd {x y : Ty} (h : Ty.keq x y = true) :
    ∀ v ∈ flatten1 y, ∃ u ∈ flatten1 x, Ty.keq u v = true := by
  have hiu := isU_of_hashEq (Ty.keq_imp_hashEq _ _ h)
  by_cases hx : x.isU = true
  · cases x with
    | union as =>
      cases y with
      | union bs => exact (Ty.keq_union_iff.mp h).2.2
      | _ => simp [Ty.keq, Ty.beq] at h
    | annotated x' =>
      cases y with
      | annotated y' =>
        have h' : Ty.keq x' y' = true := by simpa [Ty.keq, Ty.hashEq, Ty.beq] using h
        cases x' with
        | union as =>
          cases y' with
          | union bs =>
            intro v hv
            simp only [flatten1, List.mem_map] at hv ⊢
            obtain ⟨b, hb, rfl⟩ := hv
            obtain ⟨a, ha, hab⟩ := (Ty.keq_union_iff.mp h').2.2 b hb
            exact ⟨_, ⟨a, ha, rfl⟩, keq_annotate hab⟩
          | _ => simp [Ty.keq, Ty.beq] at h'
        | _ => simp [Ty.isU] at hx
      | _ => simp [Ty.keq, Ty.beq] at h
    | _ => simp [Ty.isU] at hx
  · have hx' : x.isU = false := by simpa using hx
    rw [flatten1_of_not_isU hx', flatten1_of_not_isU (hiu ▸ hx')]
    simpa using h

/-- substitution respects "same key" when the substituted right-hand side contains no unhashable
literal -/
theorem keq_subst (m : TvMap) (a : Ty) : ∀ b, Ty.keq a b = true →
    (subst m b).hasUnhashable = false → Ty.keq (subst m a) (subst m b) = true := by
  induction a using Ty.ind' with
  | generic c as ih =>
    intro b h hu
    cases b with
    | generic d bs =>
      simp only [Ty.keq_generic, Bool.and_eq_true] at h
      simp only [subst, substL_eq_map, Ty.hasUnhashable, Ty.hasUnhashableL_iff, List.mem_map,
        forall_exists_index, and_imp, forall_apply_eq_imp_iff₂] at hu
      simp only [subst, substL_eq_map, Ty.keq_generic, Bool.and_eq_true]
      exact ⟨h.1, Ty.keqList_map_of _ h.2 fun x hx y hy hxy => ih x hx y hxy (hu y hy)⟩
    | _ => simp [Ty.keq, Ty.beq] at h
  | seq c as ih =>
    intro b h hu
    cases b with
    | seq d bs =>
      simp only [Ty.keq_seq, Bool.and_eq_true] at h
      simp only [subst, substL_eq_map, Ty.hasUnhashable, Ty.hasUnhashableL_iff, List.mem_map,
        forall_exists_index, and_imp, forall_apply_eq_imp_iff₂] at hu
      simp only [subst, substL_eq_map, Ty.keq_seq, Bool.and_eq_true]
      exact ⟨h.1, Ty.keqList_map_of _ h.2 fun x hx y hy hxy => ih x hx y hxy (hu y hy)⟩
    | _ => simp [Ty.keq, Ty.beq] at h
  | many t ih =>
    intro b h hu
    cases b with
    | many t' =>
      have h' : Ty.keq t t' = true := by simpa [Ty.keq, Ty.hashEq, Ty.beq] using h
      simp only [subst, Ty.hasUnhashable] at hu
      simpa [subst, Ty.keq, Ty.hashEq, Ty.beq] using ih _ h' hu
    | _ => simp [Ty.keq, Ty.beq] at h
  | annotated t ih =>
    intro b h hu
    cases b with
    | annotated t' =>
      have h' : Ty.keq t t' = true := by simpa [Ty.keq, Ty.hashEq, Ty.beq] using h
      simp only [subst, Ty.hasUnhashable] at hu
      simpa [subst, Ty.keq, Ty.hashEq, Ty.beq] using ih _ h' hu
    | _ => simp [Ty.keq, Ty.beq] at h
  | tvar i =>
    intro b h hu
    cases b with
    | tvar j =>
      have : i = j := by simpa [Ty.keq, Ty.hashEq, Ty.beq] using h
      subst this; exact Ty.keq_refl _ hu
    | _ => simp [Ty.keq, Ty.beq] at h
  | union as ih =>
    intro b h hu
    cases b with
    | union bs =>
      have H := hashEq_subst m (.union as) (.union bs) (Ty.keq_imp_hashEq _ _ h) hu
      obtain ⟨hh, hmi⟩ := Ty.keq_union_iff.mp h
      have hemp := Ty.hashEqList_isEmpty hh
      simp only [subst, hemp] at hu H ⊢
      split
      · exact h
      · rename_i hc
        simp only [if_neg hc] at hu H
        simp only [mkUnion, Ty.hasUnhashable, Ty.hasUnhashableL_iff] at hu
        simp only [mkUnion, Ty.hashEq] at H
        simp only [mkUnion]
        have hsub : ∀ y ∈ bs, (subst m y).hasUnhashable = false := by
          intro y hy
          rw [hasUnhashable_flatten1]
          intro z hz
          exact hu z (mem_flatMap_subst.mpr ⟨y, hy, hz⟩)
        refine Ty.keq_union_iff.mpr ⟨H, ?_, ?_⟩
        · intro x hx
          obtain ⟨a, ha, hxa⟩ := mem_flatMap_subst.mp hx
          obtain ⟨b, hb, hba⟩ := hmi.1 a ha
          rw [Ty.keq_comm] at hba
          have := ih a ha b hba (hsub b hb)
          rw [Ty.keq_comm] at this
          obtain ⟨y, hy, hyx⟩ := keq_flatten1_bwd this x hxa
          exact ⟨y, mem_flatMap_subst.mpr ⟨b, hb, hy⟩, hyx⟩
        · intro y hy
          obtain ⟨b, hb, hyb⟩ := mem_flatMap_subst.mp hy
          obtain ⟨a, ha, hab⟩ := hmi.2 b hb
          obtain ⟨x, hx, hxy⟩ := keq_flatten1_bwd (ih a ha b hab (hsub b hb)) y hyb
          exact ⟨x, mem_flatMap_subst.mpr ⟨a, ha, hx⟩, hxy⟩
    | _ => simp [Ty.keq, Ty.beq] at h
  | _ =>
    intro b h _
    cases b <;> first | (simp [Ty.keq, Ty.beq] at h; done) | (simpa [subst] using h)
theorem flatten1_subst {m : TvMap} (hm : m ≠ []) {t : Ty} (h : isAnnUnion t = false) :
    flatten1 (subst m t) = (substL m (flatten1 t)).flatMap flatten1 := by
  have hme : m.isEmpty = false := by cases m <;> simp_all
  by_cases hu : t.isUnion = true
  · cases t <;> simp [Ty.isUnion] at hu
    rename_i ts
    cases ts with
    | nil => simp [subst, flatten1, substL]
    | cons t ts => simp [subst, hme, mkUnion, flatten1]
  · have hiu : t.isU = false := by rw [Ty.isU_eq]; simp [h, hu]
    simp [flatten1_of_not_isU hiu, substL]

theorem isAnnUnion_pack {D : List Ty} (h : ∀ d ∈ D, d.isU = false) : isAnnUnion (pack D) = false := by
  match D with
  | [] => rfl
  | [v] =>
    have := h v (by simp)
    rw [Ty.isU_eq] at this
    simp only [Bool.or_eq_false_iff] at this
    simpa [pack] using this.2
  | _ :: _ :: _ => rfl

theorem pack_flatten1 {t : Ty} (h1 : isAnnUnion t = false) (h2 : nonNormalUnion t = false) :
    pack (flatten1 t) = t := by
  by_cases hu : t.isUnion = true
  · cases t <;> simp [Ty.isUnion] at hu
    simp only [flatten1]
    exact pack_of_length_ne_one (nonNormalUnion_union h2).1
  · have hiu : t.isU = false := by rw [Ty.isU_eq]; simp [h1, hu]
    simp [flatten1_of_not_isU hiu, pack]

theorem hnodup_all_rel {l : List Ty} {x : Ty} (hp : HNodup l)
    (h : ∀ y ∈ l, Ty.keq x y = true) : l.length ≤ 1 := by
  match l with
  | [] => simp
  | [_] => simp
  | y1 :: y2 :: l =>
    exfalso
    have h1 := h y1 (by simp)
    have h2 := h y2 (by simp)
    rw [Ty.keq_comm] at h1
    have := Ty.keq_trans _ _ _ h1 h2
    unfold HNodup at hp
    rw [List.pairwise_cons] at hp
    simp [hp.1 y2 (by simp)] at this

theorem subst_unite' (m : TvMap) {a b : Ty}
    (ha : isAnnUnion a = false) (hb : isAnnUnion b = false)
    (hfa : a.flat = true) (hfb : b.flat = true)
    (hL1 : isAnnUnion (subst m (unite [a, b])) = false)
    (hL2 : nonNormalUnion (subst m (unite [a, b])) = false)
    (hua : (subst m a).hasUnhashable = false)
    (hub : (subst m b).hasUnhashable = false) :
    Ty.beq (subst m (unite [a, b])) (unite [subst m a, subst m b]) = true := by
  by_cases hm : m = []
  · subst hm; simp only [subst_nil]; exact Ty.beq_refl _
  · have hflat : ∀ v ∈ [a, b], v.flat = true := by simp [hfa, hfb]
    -- the members of `unite [a, b]`
    have hDU : ∀ d ∈ dedup [] ([a, b].flatMap flatten1), d.isU = false :=
      fun d hd => flatMap_flat_members hflat d (dedup_nil_sub _ d hd)
    have hU : isAnnUnion (unite [a, b]) = false := by rw [unite_eq]; exact isAnnUnion_pack hDU
    have hP : flatten1 (subst m (unite [a, b])) =
        (substL m (dedup [] ([a, b].flatMap flatten1))).flatMap flatten1 := by
      rw [flatten1_subst hm hU, flatten1_unite hflat]
    have hR : unite [subst m a, subst m b] =
        pack (dedup [] ((substL m ([a, b].flatMap flatten1)).flatMap flatten1)) := by
      rw [unite_eq]
      simp only [List.flatMap_cons, List.flatMap_nil, List.append_nil, flatten1_subst hm ha,
        flatten1_subst hm hb, substL_eq_map, List.map_append, List.flatMap_append]
    -- no unhashable literal among the substituted members
    have hnoW : ∀ w ∈ [a, b].flatMap flatten1, ∀ x ∈ flatten1 (subst m w), x.hasUnhashable = false := by
      intro w hw x hxw
      simp only [List.flatMap_cons, List.flatMap_nil, List.append_nil, List.mem_append] at hw
      rcases hw with hw | hw
      · exact (hasUnhashable_flatten1 _).mp hua x
          (by rw [flatten1_subst hm ha]; exact mem_flatMap_subst.mpr ⟨w, hw, hxw⟩)
      · exact (hasUnhashable_flatten1 _).mp hub x
          (by rw [flatten1_subst hm hb]; exact mem_flatMap_subst.mpr ⟨w, hw, hxw⟩)
    rw [← pack_flatten1 hL1 hL2, hR, hP]
    generalize hMdef : [a, b].flatMap flatten1 = M at *
    generalize hLdef : subst m (unite [a, b]) = L at *
    have hrefl : ∀ x ∈ (substL m M).flatMap flatten1, Ty.hashEq x x = true := by
      intro x hx
      obtain ⟨w, hw, hxw⟩ := mem_flatMap_subst.mp hx
      exact Ty.hashEq_refl x (hnoW w hw x hxw)
    have h12 : ∀ x ∈ (substL m (dedup [] M)).flatMap flatten1,
        ∃ y ∈ dedup [] ((substL m M).flatMap flatten1), Ty.keq y x = true := by
      intro x hx
      obtain ⟨w, hw, hxw⟩ := mem_flatMap_subst.mp hx
      exact dedup_coverH _ hrefl x (mem_flatMap_subst.mpr ⟨w, dedup_nil_sub _ w hw, hxw⟩)
    have h21 : ∀ y ∈ dedup [] ((substL m M).flatMap flatten1),
        ∃ x ∈ (substL m (dedup [] M)).flatMap flatten1, Ty.keq x y = true := by
      intro y hy
      have hyM := dedup_nil_sub _ y hy
      obtain ⟨w, hw, hyw⟩ := mem_flatMap_subst.mp hyM
      rcases dedup_cover [] M w hw with hwD | ⟨e, he, hew⟩
      · exact ⟨y, mem_flatMap_subst.mpr ⟨w, hwD, hyw⟩, Ty.keq_self (hrefl y hyM)⟩
      · have hsw : (subst m w).hasUnhashable = false :=
          (hasUnhashable_flatten1 _).mpr (hnoW w hw)
        obtain ⟨x, hx, hxy⟩ := keq_flatten1_bwd (keq_subst m e w hew hsw) y hyw
        exact ⟨x, mem_flatMap_subst.mpr ⟨e, he, hx⟩, hxy⟩
    apply pack_beq h12 h21
    constructor
    · intro h1
      obtain ⟨x, hx⟩ := List.length_eq_one_iff.mp h1
      have hall : ∀ y ∈ dedup [] ((substL m M).flatMap flatten1), Ty.keq x y = true := by
        intro y hy
        obtain ⟨x', hx', hxy⟩ := h21 y hy
        rw [hx] at hx'
        simp only [List.mem_singleton] at hx'
        subst hx'; exact hxy
      have hle := hnodup_all_rel (dedup_hnodup [] _ List.Pairwise.nil) hall
      obtain ⟨y, hy, _⟩ := h12 x (by simp [hx])
      have : 0 < (dedup [] ((substL m M).flatMap flatten1)).length := List.length_pos_of_mem hy
      omega
    · intro h1
      obtain ⟨y, hy⟩ := List.length_eq_one_iff.mp h1
      have hall : ∀ x ∈ (substL m (dedup [] M)).flatMap flatten1, Ty.keq y x = true := by
        intro x hx
        obtain ⟨y', hy', hyx⟩ := h12 x hx
        rw [hy] at hy'
        simp only [List.mem_singleton] at hy'
        subst hy'; exact hyx
      rw [← hP] at hall h21 ⊢
      by_cases hu : L.isUnion = true
      · cases L <;> simp [Ty.isUnion] at hu
        rename_i P
        simp only [flatten1] at hall h21 ⊢
        obtain ⟨hl, hd⟩ := nonNormalUnion_union hL2
        have hle := hnodup_all_rel (hnodup_of_dupIn hd) hall
        obtain ⟨x, hx, _⟩ := h21 y (by simp [hy])
        have : 0 < P.length := List.length_pos_of_mem hx
        omega
      · have hiu : L.isU = false := by rw [Ty.isU_eq]; simp [hL1, hu]
        simp [flatten1_of_not_isU hiu]
/-! #### deep flatness is preserved by uniting -/

theorem flatD_not_isU_members {v : Ty} (h : v.flatD = true) :
    ∀ x ∈ flatten1 v, x.isU = false ∧ x.flatD = true := by
  cases v with
  | union ts =>
    simp only [Ty.flatD, Bool.and_eq_true, List.all_eq_true, Bool.not_eq_true', Ty.flatDL_iff] at h
    intro x hx
    simp only [flatten1] at hx
    exact ⟨h.1 x hx, h.2 x hx⟩
  | annotated t' =>
    cases t' with
    | union ts =>
      simp only [Ty.flatD, Bool.and_eq_true, List.all_eq_true, Bool.not_eq_true', Ty.flatDL_iff] at h
      intro x hx
      simp only [flatten1, List.mem_map] at hx
      obtain ⟨t, ht, rfl⟩ := hx
      refine ⟨annotate_not_isU (h.1 t ht), ?_⟩
      have := h.2 t ht
      cases t <;> simp_all [annotate, Ty.flatD]
    | _ => intro x hx; simp only [flatten1, List.mem_singleton] at hx; subst hx; exact ⟨rfl, h⟩
  | _ => intro x hx; simp only [flatten1, List.mem_singleton] at hx; subst hx; exact ⟨rfl, h⟩

theorem unite_flatD' {vs : List Ty} (h : ∀ v ∈ vs, v.flatD = true) : (unite vs).flatD = true := by
  rw [unite_eq]
  have hD : ∀ d ∈ dedup [] (vs.flatMap flatten1), d.isU = false ∧ d.flatD = true := by
    intro d hd
    obtain ⟨v, hv, hdv⟩ := List.mem_flatMap.mp (dedup_nil_sub _ d hd)
    exact flatD_not_isU_members (h v hv) d hdv
  match hm : dedup [] (vs.flatMap flatten1) with
  | [] => simp [pack, Ty.flatD, Ty.flatDL]
  | [v] => simpa [pack] using (hD v (by simp [hm])).2
  | x :: y :: l =>
    rw [hm] at hD
    simp only [pack, Ty.flatD, Bool.and_eq_true, List.all_eq_true, Bool.not_eq_true', Ty.flatDL_iff]
    exact ⟨fun t ht => (hD t ht).1, fun t ht => (hD t ht).2⟩

/-! #### what remains of transitivity: one-level unions of tidy members -/

theorem Ty.hashEqList_self {ts : List Ty} (h : Ty.hashEqList ts ts = true) :
    ∀ t ∈ ts, Ty.hashEq t t = true := by
  induction ts with
  | nil => simp
  | cons t ts ih =>
    simp only [Ty.hashEqList, Bool.and_eq_true] at h
    intro x hx
    simp only [List.mem_cons] at hx
    rcases hx with rfl | hx
    · exact h.1
    · exact ih h.2 x hx

/-- a value hashes equal to itself exactly when it contains no unhashable literal -/
theorem Ty.hashEq_refl_iff (a : Ty) : Ty.hashEq a a = true ↔ a.hasUnhashable = false := by
  refine ⟨?_, Ty.hashEq_refl a⟩
  induction a using Ty.ind' with
  | known o => intro h; simp only [Ty.hashEq, Bool.and_eq_true] at h; simp [Ty.hasUnhashable, h.1.1]
  | generic c as ih | seq c as ih =>
    intro h
    simp only [Ty.hashEq, beq_self_eq_true, Bool.true_and] at h
    simp only [Ty.hasUnhashable, Ty.hasUnhashableL_iff]
    exact fun t ht => ih t ht (Ty.hashEqList_self h t ht)
  | union as ih =>
    intro h
    simp only [Ty.hashEq] at h
    simp only [Ty.hasUnhashable, Ty.hasUnhashableL_iff]
    exact fun t ht => ih t ht (Ty.hashEqList_self h t ht)
  | many t ih | annotated t ih => intro h; simp only [Ty.hashEq] at h; simpa [Ty.hasUnhashable] using ih h
  | _ => intro _; simp [Ty.hasUnhashable]

/-- a non-union without union / unhashable literal inside, or a union of such values -/
def Ty.tidyU : Ty → Bool
  | .union ts => ts.all Ty.tidy
  | t => t.tidy

/-- on unions of tidy members `==` is mutual inclusion under hash-and-`==` lookup -/
theorem beq_union_tidy {as bs : List Ty} (ha : ∀ a ∈ as, a.tidy = true) (hb : ∀ b ∈ bs, b.tidy = true) :
    Ty.beq (.union as) (.union bs) = true ↔
      ((∀ a ∈ as, ∃ b ∈ bs, Ty.keq b a = true) ∧ (∀ b ∈ bs, ∃ a ∈ as, Ty.keq a b = true)) := by
  rw [Ty.beq_union_iff]
  constructor
  · rintro (h | h)
    · constructor
      · intro a haa
        obtain ⟨b, hbb, hab⟩ := Ty.beqList_fwd h a haa
        rw [Ty.beq_comm, ← tidy_hashEq (hb b hbb) (ha a haa)] at hab
        exact ⟨b, hbb, hab⟩
      · intro b hbb
        obtain ⟨a, haa, hba⟩ := Ty.beqList_bwd h b hbb
        rw [Ty.beq_comm, ← tidy_hashEq (ha a haa) (hb b hbb)] at hba
        exact ⟨a, haa, hba⟩
    · exact h
  · exact .inr
theorem beq_trans_tidyU {a b c : Ty} (ha : a.tidyU = true) (hb : b.tidyU = true)
    (hc : c.tidyU = true) (h1 : Ty.beq a b = true) (h2 : Ty.beq b c = true) :
    Ty.beq a c = true := by
  by_cases hu : a.isUnion = true
  · cases a <;> simp [Ty.isUnion] at hu
    cases b <;> try (simp [Ty.beq] at h1; done)
    cases c <;> try (simp [Ty.beq] at h2; done)
    simp only [Ty.tidyU, List.all_eq_true] at ha hb hc
    rw [beq_union_tidy ha hb] at h1
    rw [beq_union_tidy hb hc] at h2
    rw [beq_union_tidy ha hc]
    constructor
    · intro x hx
      obtain ⟨y, hy, hyx⟩ := h1.1 x hx
      obtain ⟨z, hz, hzy⟩ := h2.1 y hy
      exact ⟨z, hz, Ty.keq_trans _ _ _ hzy hyx⟩
    · intro z hz
      obtain ⟨y, hy, hyz⟩ := h2.2 z hz
      obtain ⟨x, hx, hxy⟩ := h1.2 y hy
      exact ⟨x, hx, Ty.keq_trans _ _ _ hxy hyz⟩
  · have : a.hasUnion = false := by
      cases a <;> simp_all [Ty.tidyU, Ty.tidy, Ty.isUnion]
    exact Ty.beq_trans a this b c h1 h2

/-! #### hash-equal values are `==`, outside the zero-hash collision -/

mutual
/-- contains a literal whose Python hash is 0 (`0`, `False`, `''`, `b''`): such a `KnownValue` hashes
like the `TypedValue` of its class -/
def Ty.hasZeroLit : Ty → Bool
  | .known o => o.zeroHashCls.isSome
  | .generic _ as => Ty.hasZeroLitL as
  | .seq _ as => Ty.hasZeroLitL as
  | .many t => Ty.hasZeroLit t
  | .union ts => Ty.hasZeroLitL ts
  | .annotated t => Ty.hasZeroLit t
  | _ => false
def Ty.hasZeroLitL : List Ty → Bool
  | [] => false
  | t :: ts => Ty.hasZeroLit t || Ty.hasZeroLitL ts
end

theorem Ty.hasZeroLitL_iff (ts : List Ty) :
    Ty.hasZeroLitL ts = false ↔ ∀ t ∈ ts, t.hasZeroLit = false := by
  induction ts <;> simp_all [Ty.hasZeroLitL]

theorem Ty.beqList_of_hashEqList (as bs : List Ty)
    (h : ∀ a ∈ as, ∀ b ∈ bs, Ty.hashEq a b = true → Ty.beq a b = true)
    (h1 : Ty.hashEqList as bs = true) : Ty.beqList as bs = true := by
  induction as generalizing bs with
  | nil => cases bs <;> simp [Ty.hashEqList, Ty.beqList] at h1 ⊢
  | cons a as ih =>
    cases bs with
    | nil => simp [Ty.hashEqList] at h1
    | cons b bs =>
      simp only [Ty.hashEqList, Ty.beqList, Bool.and_eq_true] at h1 ⊢
      exact ⟨h a (by simp) b (by simp) h1.1,
        ih bs (fun x hx y hy => h x (by simp [hx]) y (by simp [hy])) h1.2⟩

theorem Ty.hashEq_imp_beq_of (a : Ty) : ∀ b, a.hasZeroLit = false → b.hasZeroLit = false →
    Ty.hashEq a b = true → Ty.beq a b = true := by
  induction a using Ty.ind' with
  | known o =>
    intro b ha hb h
    cases b <;> simp only [Ty.hashEq, Bool.false_eq_true, Bool.and_eq_true, beq_iff_eq] at h
    · simp only [Ty.beq]; exact h.2
    · simp [Ty.hasZeroLit, h] at ha
  | typed c =>
    intro b ha hb h
    cases b <;> simp only [Ty.hashEq, Bool.false_eq_true, beq_iff_eq] at h
    · simp [Ty.hasZeroLit, h] at hb
    · simpa [Ty.beq] using h
  | generic c as ih | seq c as ih =>
    intro b ha hb h
    cases b <;> simp only [Ty.hashEq, Bool.false_eq_true, Bool.and_eq_true] at h
    simp only [Ty.hasZeroLit, Ty.hasZeroLitL_iff] at ha hb
    simp only [Ty.beq, Bool.and_eq_true]
    exact ⟨h.1, Ty.beqList_of_hashEqList _ _ (fun x hx y hy => ih x hx y (ha x hx) (hb y hy)) h.2⟩
  | union as ih =>
    intro b ha hb h
    cases b <;> simp only [Ty.hashEq, Bool.false_eq_true] at h
    simp only [Ty.hasZeroLit, Ty.hasZeroLitL_iff] at ha hb
    simp only [Ty.beq, Bool.or_eq_true]
    exact .inl (Ty.beqList_of_hashEqList _ _ (fun x hx y hy => ih x hx y (ha x hx) (hb y hy)) h)
  | many t ih | annotated t ih =>
    intro b ha hb h
    cases b <;> simp only [Ty.hashEq, Bool.false_eq_true] at h
    simp only [Ty.hasZeroLit] at ha hb
    simp only [Ty.beq]
    exact ih _ ha hb h
  | _ =>
    intro b _ _ h
    cases b <;> simp only [Ty.hashEq, Bool.false_eq_true, Bool.and_eq_true] at h <;>
      simp only [Ty.beq] <;> grind

/-! #### the union accepts its members (member-wise `MultiValuedValue.can_assign`, every size) -/

/-- no two entries are the same dict key (nothing would be merged) -/
def keyNodup : List Ty → Bool
  | [] => true
  | x :: xs => !(xs.any (fun y => Ty.keq x y)) && keyNodup xs

theorem keyNodup_iff (l : List Ty) : keyNodup l = true ↔ HNodup l := by
  unfold HNodup
  induction l with
  | nil => simp [keyNodup]
  | cons x xs ih => simp [keyNodup, ih, List.pairwise_cons]

theorem union_accepts_member' {tbl : ClassTable} (L4 : Laws4 tbl) (x : Bool) (ts : List Ty) (m : Ty)
    (hm : m ∈ ts) (hw : m.wfR tbl = true) : ca tbl x (.union ts) m = true :=
  ca_union_left tbl x m ts hm m ((ca_refl_all L4 x m).1 hw)

theorem pack_accepts {tbl : ClassTable} (L4 : Laws4 tbl) (x : Bool) (D : List Ty) (m : Ty)
    (hm : m ∈ D) (hw : m.wfR tbl = true) : ca tbl x (pack D) m = true := by
  match D, hm with
  | [d], hm =>
    simp only [List.mem_singleton] at hm; subst hm
    exact (ca_refl_all L4 x m).1 hw
  | d1 :: d2 :: l, hm => exact union_accepts_member' L4 x _ m hm hw

theorem wfR_annotate {tbl : ClassTable} {t : Ty} (h : (annotate t).wfR tbl = true) : t.wfR tbl = true := by
  cases t <;> simp_all [annotate, Ty.wfR]

theorem ca_annotate_right (tbl : ClassTable) (x : Bool) (e t : Ty) :
    ca tbl x e (annotate t) = ca tbl x e t := by
  cases t <;> simp [annotate, ca_annotated_right]

theorem unite_accepts' {tbl : ClassTable} (L4 : Laws4 tbl) (x : Bool) (vs : List Ty) (v : Ty)
    (hv : v ∈ vs) (hk : keyNodup (vs.flatMap flatten1) = true)
    (hw : ∀ m ∈ flatten1 v, m.wfR tbl = true) : ca tbl x (unite vs) v = true := by
  have hD : dedup [] (vs.flatMap flatten1) = vs.flatMap flatten1 := by
    simpa using dedup_of_hnodup [] (vs.flatMap flatten1) (by simpa using (keyNodup_iff _).mp hk)
  rw [unite_eq, hD]
  have hsub : ∀ m ∈ flatten1 v, m ∈ vs.flatMap flatten1 :=
    fun m hm => List.mem_flatMap.mpr ⟨v, hv, hm⟩
  by_cases hu : v.isU = true
  · cases v with
    | union ts =>
      rw [ca_union_right, caAllR_eq_all, List.all_eq_true]
      intro t ht
      exact pack_accepts L4 x _ t (hsub t (by simpa [flatten1] using ht)) (hw t (by simpa [flatten1] using ht))
    | annotated v' =>
      cases v' with
      | union ts =>
        rw [ca_annotated_right, ca_union_right, caAllR_eq_all, List.all_eq_true]
        intro t ht
        have hmem : annotate t ∈ flatten1 (.annotated (.union ts)) := by
          simp only [flatten1, List.mem_map]; exact ⟨t, ht, rfl⟩
        rw [← ca_annotate_right]
        exact pack_accepts L4 x _ _ (hsub _ hmem) (hw _ hmem)
      | _ => simp [Ty.isU] at hu
    | _ => simp [Ty.isU] at hu
  · have hiu : v.isU = false := by simpa using hu
    have h1 : v ∈ flatten1 v := by rw [flatten1_of_not_isU hiu]; simp
    exact pack_accepts L4 x _ v (hsub v h1) (hw v h1)

end Pya
