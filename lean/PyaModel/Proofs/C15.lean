import PyaModel.Spec.TypeVarSpec
/-!
# Proofs/C15 — helper lemmas for the type-variable solver

1. normal form: `run` is three independent folds (over the lower bounds, the upper bounds, the
   constraint lists) — `run_eq`;
2. the algebraic hypotheses `Laws` / `AnyLaws` and the invariants of the two folds;
3. `choose` / `removeRedundant`;
4. the assembled facts about `solve`;
5. permutation invariance of the specification;
6. from the decidable check `lawsOn` to `Laws`;
7. `Any` laws of the shared assignability model `ca`.
-/
namespace Pya.C15

theorem isAny_iff {t : Ty} : isAny t = true ↔ t = .any := by cases t <;> simp [isAny]
theorem isAny_false_iff {t : Ty} : isAny t = false ↔ t ≠ .any := by cases t <;> simp [isAny]

/-! ### 1. normal form of the loop -/
section NF
variable (le : Ty → Ty → Bool) (join : Ty → Ty → Ty)

def lowStep (bot : Option Ty) (v : Ty) : Option Ty :=
  match bot with
  | none => some v
  | some b =>
    if isAny v then some b else if le b v then some v else if le v b then some b else some (join b v)

def upStep (top : Option Ty) (v : Ty) : Option Ty :=
  match top with
  | none => some v
  | some t =>
    if isAny v then some t else if le v t then some v else if le t v then some t else some (join t v)

def optStep (_ : Option (List Ty)) (cs : List Ty) : Option (List Ty) := some cs

theorem step_lower (st : St) (v : Ty) :
    step le join st (.lower v) = { st with bottom := lowStep le join st.bottom v } := by
  cases st with
  | mk b t o =>
    cases b with
    | none => simp [step, lowStep]
    | some b =>
      simp only [step, lowStep]
      by_cases h1 : isAny v = true
      · simp [h1]
      · by_cases h2 : le b v = true
        · simp [h1, h2]
        · by_cases h3 : le v b = true <;> simp [h1, h2, h3]

theorem step_upper (st : St) (v : Ty) :
    step le join st (.upper v) = { st with top := upStep le join st.top v } := by
  cases st with
  | mk b t o =>
    cases t with
    | none => simp [step, upStep]
    | some t =>
      simp only [step, upStep]
      by_cases h1 : isAny v = true
      · simp [h1]
      · by_cases h2 : le v t = true
        · simp [h1, h2]
        · by_cases h3 : le t v = true <;> simp [h1, h2, h3]

theorem run_eq (st : St) (bs : List Bound) :
    run le join st bs =
      ⟨(lowers bs).foldl (lowStep le join) st.bottom, (uppers bs).foldl (upStep le join) st.top,
       (oneOfs bs).foldl optStep st.options⟩ := by
  induction bs generalizing st with
  | nil => simp [run, lowers, uppers, oneOfs]
  | cons b bs ih =>
    have h : run le join st (b :: bs) = run le join (step le join st b) bs := by simp [run]
    rw [h, ih]
    cases b with
    | lower v => simp [step_lower, lowers, uppers, oneOfs]
    | upper v => simp [step_upper, lowers, uppers, oneOfs]
    | oneOf cs => simp [step, lowers, uppers, oneOfs, optStep]
    | or bss => simp [step, lowers, uppers, oneOfs]

/-- the successive values of `bottom` -/
def lowTrail : Option Ty → List Ty → List Ty
  | _, [] => []
  | bot, v :: vs => (lowStep le join bot v).toList ++ lowTrail (lowStep le join bot v) vs

theorem lowTrail_sub (st : St) (bs : List Bound) :
    ∀ x ∈ lowTrail le join st.bottom (lowers bs), x ∈ trail le join st bs := by
  induction bs generalizing st with
  | nil => simp [lowers, lowTrail]
  | cons b bs ih =>
    intro x hx
    cases b with
    | lower v =>
      simp only [lowers, lowTrail, List.mem_append] at hx
      simp only [trail, List.mem_append, step_lower]
      rcases hx with hx | hx
      · exact Or.inl (Or.inl hx)
      · exact Or.inr (by simpa [step_lower] using ih (step le join st (.lower v)) x (by simpa [step_lower] using hx))
    | upper v =>
      simp only [lowers] at hx
      simp only [trail, List.mem_append]
      exact Or.inr (ih _ x (by simpa [step_upper] using hx))
    | oneOf cs =>
      simp only [lowers] at hx
      simp only [trail, List.mem_append]
      exact Or.inr (ih _ x (by simpa [step] using hx))
    | or bss =>
      simp only [lowers] at hx
      simp only [trail, List.mem_append]
      exact Or.inr (ih _ x (by simpa [step] using hx))

theorem optFold_eq (init : Option (List Ty)) (l : List (List Ty)) :
    l.foldl optStep init = (match l.getLast? with | some c => some c | none => init) := by
  induction l generalizing init with
  | nil => simp
  | cons c l ih =>
    rw [List.foldl_cons, ih]
    cases hl : l.getLast? with
    | none =>
      have : l = [] := by simpa using hl
      subst this
      simp [optStep]
    | some c' =>
      have : (c :: l).getLast? = some c' := by
        rw [List.getLast?_cons]; simp [hl]
      simp [this]

end NF

/-! ### 2. the algebraic hypotheses and the fold invariants -/

/-- `le` restricted to the carrier `S` is a preorder and `join` a least upper bound that stays
away from `Any`. (No closure of `S` under `join` is demanded here: the theorems ask for the values
the solver actually meets — `reach` — to lie in `S`.) -/
structure Laws (S : Ty → Prop) (le : Ty → Ty → Bool) (join : Ty → Ty → Ty) : Prop where
  notAny : ∀ a, S a → isAny a = false
  le_refl : ∀ a, S a → le a a = true
  le_trans : ∀ a b c, S a → S b → S c → le a b = true → le b c = true → le a c = true
  join_notAny : ∀ a b, S a → S b → isAny (join a b) = false
  le_join_left : ∀ a b, S a → S b → le a (join a b) = true
  le_join_right : ∀ a b, S a → S b → le b (join a b) = true
  join_le : ∀ a b c, S a → S b → S c → le a c = true → le b c = true → le (join a b) c = true

/-- `Any` is assignable to everything and everything to `Any` (no "exclude Any" mode). -/
structure AnyLaws (le : Ty → Ty → Bool) : Prop where
  le_any_left : ∀ b, le .any b = true
  le_any_right : ∀ a, le a .any = true

/-- a value of the carrier, or the top-level `Any` -/
def AS (S : Ty → Prop) (v : Ty) : Prop := v = .any ∨ S v

section Inv
variable {S : Ty → Prop} {le : Ty → Ty → Bool} {join : Ty → Ty → Ty}

theorem AS.of_notAny {v : Ty} (h : AS S v) (hn : isAny v = false) : S v := by
  rcases h with h | h
  · subst h; simp [isAny] at hn
  · exact h

/-- what `bottom = b` means after the lower bounds `L` have been folded -/
structure InvLow (S : Ty → Prop) (le : Ty → Ty → Bool) (L : List Ty) (b : Ty) : Prop where
  as : AS S b
  all : ∀ l ∈ L, AS S l
  ub : ∀ l ∈ L, le l b = true
  anyb : b = .any → ∀ l ∈ L, l = .any
  lub : ∀ c, S c → (∀ l ∈ L, le l c = true) → le b c = true
  ne : L ≠ []

def InvLowO (S : Ty → Prop) (le : Ty → Ty → Bool) (L : List Ty) : Option Ty → Prop
  | none => L = []
  | some b => InvLow S le L b

/-- `l ≤ b ≤ v` for a lower bound `l` that is `Any` or in the carrier -/
theorem le_trans_as (hL : Laws S le join) (hA : AnyLaws le) {l b v : Ty} (hl : AS S l) (hb : S b)
    (hv : AS S v) (h1 : le l b = true) (h2 : le b v = true) : le l v = true := by
  rcases hl with hl | hl
  · subst hl; exact hA.le_any_left _
  · rcases hv with hv | hv
    · subst hv; exact hA.le_any_right _
    · exact hL.le_trans _ _ _ hl hb hv h1 h2

theorem mem_snoc {α} {x v : α} {L : List α} (h : x ∈ L ++ [v]) : x ∈ L ∨ x = v := by
  rcases List.mem_append.mp h with h | h
  · exact Or.inl h
  · exact Or.inr (by simpa using h)

theorem low_step (hL : Laws S le join) (hA : AnyLaws le) (L : List Ty) (bot : Option Ty) (v : Ty)
    (hinv : InvLowO S le L bot) (hv : AS S v)
    (hnew : ∀ x ∈ (lowStep le join bot v).toList, AS S x) :
    InvLowO S le (L ++ [v]) (lowStep le join bot v) := by
  cases bot with
  | none =>
    simp only [InvLowO] at hinv
    subst hinv
    simp only [lowStep, InvLowO, List.nil_append]
    refine ⟨hv, ?_, ?_, ?_, ?_, by simp⟩
    · intro l hl
      have : l = v := by simpa using hl
      rw [this]; exact hv
    · intro l hl
      have : l = v := by simpa using hl
      subst this
      rcases hv with h | h
      · subst h; exact hA.le_any_left _
      · exact hL.le_refl _ h
    · intro h l hl
      have : l = v := by simpa using hl
      rw [this, h]
    · intro c _ hc
      exact hc v (by simp)
  | some b =>
    simp only [InvLowO] at hinv
    obtain ⟨hb, hall, hub, hanyb, hlub, hne⟩ := hinv
    have hall' : ∀ l ∈ L ++ [v], AS S l := by
      intro l hl
      rcases mem_snoc hl with hl | hl
      · exact hall l hl
      · rw [hl]; exact hv
    simp only [lowStep] at hnew ⊢
    by_cases h1 : isAny v = true
    · -- the `Any` lower bound is skipped
      have hva : v = .any := isAny_iff.mp h1
      simp only [h1, if_true, InvLowO]
      refine ⟨hb, hall', ?_, ?_, ?_, by simp⟩
      · intro l hl
        rcases mem_snoc hl with hl | hl
        · exact hub l hl
        · rw [hl, hva]; exact hA.le_any_left _
      · intro hb' l hl
        rcases mem_snoc hl with hl | hl
        · exact hanyb hb' l hl
        · rw [hl, hva]
      · intro c hc hcall
        exact hlub c hc fun l hl => hcall l (List.mem_append.mpr (Or.inl hl))
    · have h1' : isAny v = false := by simpa using h1
      have hSv : S v := hv.of_notAny h1'
      by_cases h2 : le b v = true
      · -- the new bound is wider: adopt it
        simp only [h1', h2, if_true, InvLowO]
        refine ⟨hv, hall', ?_, ?_, ?_, by simp⟩
        · intro l hl
          rcases mem_snoc hl with hl | hl
          · by_cases hba : isAny b = true
            · rw [hanyb (isAny_iff.mp hba) l hl]; exact hA.le_any_left _
            · have hSb : S b := hb.of_notAny (by simpa using hba)
              exact le_trans_as hL hA (hall l hl) hSb hv (hub l hl) h2
          · rw [hl]; exact hL.le_refl _ hSv
        · intro hva; rw [hva] at h1'; simp [isAny] at h1'
        · intro c _ hcall
          exact hcall v (by simp)
      · have h2' : le b v = false := by simpa using h2
        have hbn : isAny b = false := by
          cases hba : isAny b with
          | false => rfl
          | true =>
            rw [isAny_iff.mp hba, hA.le_any_left] at h2'
            exact absurd h2' (by simp)
        have hSb : S b := hb.of_notAny hbn
        by_cases h3 : le v b = true
        · -- the new bound is narrower: ignore it
          simp only [h1', h2', h3, if_true, InvLowO]
          refine ⟨hb, hall', ?_, ?_, ?_, by simp⟩
          · intro l hl
            rcases mem_snoc hl with hl | hl
            · exact hub l hl
            · rw [hl]; exact h3
          · intro hba
            rw [hba] at hbn; simp [isAny] at hbn
          · intro c hc hcall
            exact hlub c hc fun l hl => hcall l (List.mem_append.mpr (Or.inl hl))
        · -- separate: unite
          have h3' : le v b = false := by simpa using h3
          simp only [h1', h2', h3', InvLowO] at hnew ⊢
          have hj : AS S (join b v) := hnew _ (by simp)
          have hjn : isAny (join b v) = false := hL.join_notAny _ _ hSb hSv
          have hSj : S (join b v) := hj.of_notAny hjn
          refine ⟨hj, hall', ?_, ?_, ?_, by simp⟩
          · intro l hl
            rcases mem_snoc hl with hl | hl
            · exact le_trans_as hL hA (hall l hl) hSb hj (hub l hl) (hL.le_join_left _ _ hSb hSv)
            · rw [hl]; exact hL.le_join_right _ _ hSb hSv
          · intro hja
            rw [hja] at hjn; simp [isAny] at hjn
          · intro c hc hcall
            exact hL.join_le _ _ _ hSb hSv hc
              (hlub c hc fun l hl => hcall l (List.mem_append.mpr (Or.inl hl)))
              (hcall v (by simp))

theorem low_fold (hL : Laws S le join) (hA : AnyLaws le) (vs : List Ty) :
    ∀ (L : List Ty) (bot : Option Ty), InvLowO S le L bot → (∀ v ∈ vs, AS S v) →
      (∀ x ∈ lowTrail le join bot vs, AS S x) →
      InvLowO S le (L ++ vs) (vs.foldl (lowStep le join) bot) := by
  induction vs with
  | nil => intro L bot h _ _; simpa using h
  | cons v vs ih =>
    intro L bot hinv hvs htr
    have h1 := low_step hL hA L bot v hinv (hvs v (by simp))
      (fun x hx => htr x (by simp [lowTrail, hx]))
    have h2 := ih (L ++ [v]) (lowStep le join bot v) h1 (fun w hw => hvs w (by simp [hw]))
      (fun x hx => htr x (by simp [lowTrail, hx]))
    simpa using h2

/-- what `top = t` means after the upper bounds `U` have been folded, when the upper bounds are
pairwise comparable: `t` is a least one of them (`Any` upper bounds are skipped unless first) -/
structure InvTop (S : Ty → Prop) (le : Ty → Ty → Bool) (U : List Ty) (t : Ty) : Prop where
  as : AS S t
  all : ∀ u ∈ U, AS S u
  lb : ∀ u ∈ U, le t u = true
  anyt : t = .any → ∀ u ∈ U, u = .any
  mem : t ∈ U

def InvTopO (S : Ty → Prop) (le : Ty → Ty → Bool) (U : List Ty) : Option Ty → Prop
  | none => U = []
  | some t => InvTop S le U t

theorem up_fold (hL : Laws S le join) (hA : AnyLaws le) (Uall : List Ty) (hS : ∀ u ∈ Uall, AS S u)
    (hch : ∀ u ∈ Uall, ∀ v ∈ Uall, le u v = true ∨ le v u = true) (vs : List Ty) :
    ∀ (U : List Ty) (top : Option Ty), InvTopO S le U top → (∀ u ∈ U, u ∈ Uall) → (∀ v ∈ vs, v ∈ Uall) →
      InvTopO S le (U ++ vs) (vs.foldl (upStep le join) top) := by
  induction vs with
  | nil => intro U top h _ _; simpa using h
  | cons v vs ih =>
    intro U top hinv hU hvs
    have hv : v ∈ Uall := hvs v (by simp)
    have hASv : AS S v := hS v hv
    have hstep : InvTopO S le (U ++ [v]) (upStep le join top v) := by
      cases top with
      | none =>
        simp only [InvTopO] at hinv
        subst hinv
        simp only [upStep, InvTopO, List.nil_append]
        refine ⟨hASv, ?_, ?_, ?_, by simp⟩
        · intro u hu
          have : u = v := by simpa using hu
          rw [this]; exact hASv
        · intro u hu
          have : u = v := by simpa using hu
          rw [this]
          rcases hASv with h | h
          · rw [h]; exact hA.le_any_left _
          · exact hL.le_refl _ h
        · intro h u hu
          have : u = v := by simpa using hu
          rw [this, h]
      | some t =>
        simp only [InvTopO] at hinv
        obtain ⟨hast, hall, hlb, hanyt, hmem⟩ := hinv
        have ht : t ∈ Uall := hU t hmem
        have hall' : ∀ u ∈ U ++ [v], AS S u := by
          intro u hu
          rcases mem_snoc hu with hu | hu
          · exact hall u hu
          · rw [hu]; exact hASv
        simp only [upStep]
        by_cases h1 : isAny v = true
        · -- the `Any` upper bound is skipped
          have hva : v = .any := isAny_iff.mp h1
          simp only [h1, if_true, InvTopO]
          refine ⟨hast, hall', ?_, ?_, List.mem_append.mpr (Or.inl hmem)⟩
          · intro u hu
            rcases mem_snoc hu with hu | hu
            · exact hlb u hu
            · rw [hu, hva]; exact hA.le_any_right _
          · intro hta u hu
            rcases mem_snoc hu with hu | hu
            · exact hanyt hta u hu
            · rw [hu, hva]
        · have h1' : isAny v = false := by simpa using h1
          have hSv : S v := hASv.of_notAny h1'
          by_cases h2 : le v t = true
          · simp only [h1', h2, if_true, InvTopO]
            refine ⟨hASv, hall', ?_, ?_, by simp⟩
            · intro u hu
              rcases mem_snoc hu with hu | hu
              · by_cases hta : isAny t = true
                · rw [hanyt (isAny_iff.mp hta) u hu]; exact hA.le_any_right _
                · exact le_trans_as hL hA (Or.inr hSv) (hast.of_notAny (by simpa using hta)) (hall u hu) h2 (hlb u hu)
              · rw [hu]; exact hL.le_refl _ hSv
            · intro hva; rw [hva] at h1'; simp [isAny] at h1'
          · have h2' : le v t = false := by simpa using h2
            have htn : isAny t = false := by
              cases hta : isAny t with
              | false => rfl
              | true => rw [isAny_iff.mp hta, hA.le_any_right] at h2'; exact absurd h2' (by simp)
            have h3 : le t v = true := by
              rcases hch t ht v hv with h | h
              · exact h
              · exact absurd h h2
            simp only [h1', h2', h3, if_true, InvTopO]
            refine ⟨hast, hall', ?_, ?_, List.mem_append.mpr (Or.inl hmem)⟩
            · intro u hu
              rcases mem_snoc hu with hu | hu
              · exact hlb u hu
              · rw [hu]; exact h3
            · intro hta; rw [hta] at htn; simp [isAny] at htn
    have := ih (U ++ [v]) (upStep le join top v) hstep
      (fun u hu => by
        rcases mem_snoc hu with hu | hu
        · exact hU u hu
        · rw [hu]; exact hv)
      (fun w hw => hvs w (by simp [hw]))
    simpa using this

end Inv

/-! ### 3. constraint selection -/
section Choose
variable (le : Ty → Ty → Bool)

theorem rrGo_sub (rest : List Ty) : ∀ (kept : List Ty) (x : Ty), x ∈ rrGo le kept rest → x ∈ kept ∨ x ∈ rest := by
  induction rest with
  | nil => intro kept x h; simpa [rrGo] using h
  | cons s rest ih =>
    intro kept x h
    unfold rrGo at h
    split at h
    · rcases ih kept x h with h | h
      · exact Or.inl h
      · exact Or.inr (by simp [h])
    · rcases ih (kept ++ [s]) x h with h | h
      · rcases mem_snoc h with h | h
        · exact Or.inl h
        · exact Or.inr (by simp [h])
      · exact Or.inr (by simp [h])

theorem removeRedundant_sub (sols : List Ty) (x : Ty) (h : x ∈ removeRedundant le sols) : x ∈ sols := by
  unfold removeRedundant at h
  split at h
  · exact h
  · rcases rrGo_sub le sols [] x h with h | h
    · simp at h
    · exact h

/-- the ways `choose` can succeed -/
theorem choose_ok {sol : Ty} {src : Src} {opts : Option (List Ty)} {s : Ty} {src' : Src}
    (h : choose le sol src opts = .ok s src') :
    (opts = none ∧ s = sol) ∨
    (∃ cs, opts = some cs ∧ ((s ∈ cs ∧ le sol s = true) ∨ (s = sol ∧ isAny sol = true) ∨ s = .any)) := by
  cases opts with
  | none =>
    simp only [choose, Result.ok.injEq] at h
    exact Or.inl ⟨rfl, h.1.symm⟩
  | some cs =>
    refine Or.inr ⟨cs, rfl, ?_⟩
    simp only [choose] at h
    have hmem : ∀ a, a ∈ cs.filter (fun o => le sol o) → a ∈ cs ∧ le sol a = true := by
      intro a ha; simpa using ha
    generalize cs.filter (fun o => le sol o) = av at h hmem
    split at h
    · simp at h
    · rename_i a
      simp only [Result.ok.injEq] at h
      rw [← h.1]; exact Or.inl (hmem a (by simp))
    · split at h
      · rename_i hany
        simp only [Result.ok.injEq] at h
        exact Or.inr (Or.inl ⟨h.1.symm, hany⟩)
      · split at h
        · rename_i a' heq
          simp only [Result.ok.injEq] at h
          rw [← h.1]
          have : a' ∈ removeRedundant le av := by rw [heq]; simp
          exact Or.inl (hmem a' (removeRedundant_sub le _ _ this))
        · simp only [Result.ok.injEq] at h
          exact Or.inr (Or.inr h.1.symm)

theorem choose_isOk (sol : Ty) (src : Src) (opts : Option (List Ty)) :
    (choose le sol src opts).isOk =
      (match opts with | none => true | some cs => cs.any fun o => le sol o) := by
  cases opts with
  | none => simp [choose, Result.isOk]
  | some cs =>
    simp only [choose]
    have hiff : (cs.any fun o => le sol o) = !(cs.filter fun o => le sol o).isEmpty := by
      induction cs with
      | nil => simp
      | cons c cs ih =>
        by_cases hc : le sol c = true
        · simp [List.filter, hc]
        · have hc' : le sol c = false := by simpa using hc
          simp [List.filter, hc', ih]
    simp only [hiff]
    generalize cs.filter (fun o => le sol o) = av
    split
    · simp [Result.isOk]
    · simp [Result.isOk]
    · rename_i h1 h2
      have hne : av.isEmpty = false := by
        cases av with
        | nil => exact absurd rfl h1
        | cons _ _ => rfl
      rw [hne]
      split
      · simp [Result.isOk]
      · split <;> simp [Result.isOk]

end Choose

/-! ### 4. the assembled facts about `solve` -/
section Solve
variable {S : Ty → Prop} {le : Ty → Ty → Bool} {join : Ty → Ty → Ty}

theorem solve_unfold (bs : List Bound) :
    solve le join bs =
      finish le ⟨(lowers bs).foldl (lowStep le join) none, (uppers bs).foldl (upStep le join) none,
                 (oneOfs bs).getLast?⟩ := by
  unfold solve
  rw [run_eq, optFold_eq]
  congr 2
  cases (oneOfs bs).getLast? <;> rfl

theorem reach_lowers {bs : List Bound} {v : Ty} (h : v ∈ lowers bs) : v ∈ reach le join bs := by
  simp [reach, boundVals, h]
theorem reach_uppers {bs : List Bound} {v : Ty} (h : v ∈ uppers bs) : v ∈ reach le join bs := by
  simp [reach, boundVals, h]
theorem reach_options {bs : List Bound} {cs : List Ty} {v : Ty} (hcs : cs ∈ oneOfs bs) (h : v ∈ cs) :
    v ∈ reach le join bs := by
  simp only [reach, boundVals, List.mem_append, List.mem_flatten]
  exact Or.inl (Or.inr ⟨cs, hcs, h⟩)
theorem reach_lowTrail {bs : List Bound} {x : Ty}
    (h : x ∈ lowTrail le join none (lowers bs)) : x ∈ reach le join bs := by
  simp only [reach, List.mem_append]
  exact Or.inr (lowTrail_sub le join {} bs x h)

/-- the invariant of `bottom` at the end of the loop -/
theorem bottom_inv (hL : Laws S le join) (hA : AnyLaws le) (bs : List Bound)
    (hreach : ∀ v ∈ reach le join bs, AS S v) :
    InvLowO S le (lowers bs) ((lowers bs).foldl (lowStep le join) none) := by
  have := low_fold hL hA (lowers bs) [] none rfl
    (fun v hv => hreach v (reach_lowers hv)) (fun x hx => hreach x (reach_lowTrail hx))
  simpa using this

/-- the invariant of `top` at the end of the loop, for pairwise comparable upper bounds -/
theorem top_inv (hL : Laws S le join) (hA : AnyLaws le) (bs : List Bound)
    (hreach : ∀ v ∈ reach le join bs, AS S v) (hch : D15_twoUppers le bs = false) :
    InvTopO S le (uppers bs) ((uppers bs).foldl (upStep le join) none) := by
  have hS : ∀ u ∈ uppers bs, AS S u := fun u hu => hreach u (reach_uppers hu)
  have hch' : ∀ u ∈ uppers bs, ∀ v ∈ uppers bs, le u v = true ∨ le v u = true := by
    intro u hu v hv
    by_cases h1 : le u v = true
    · exact Or.inl h1
    · by_cases h2 : le v u = true
      · exact Or.inr h2
      · exfalso
        have : D15_twoUppers le bs = true := by
          simp only [D15_twoUppers, List.any_eq_true]
          exact ⟨u, hu, v, hv, by simp [h1, h2]⟩
        rw [hch] at this; exact absurd this (by simp)
  have := up_fold hL hA (uppers bs) hS hch' (uppers bs) [] none rfl (by simp) (fun v hv => hv)
  simpa using this

theorem mem_of_getLast? {α} {l : List α} {a : α} (h : l.getLast? = some a) : a ∈ l :=
  List.mem_of_getLast? h

/-- **lower bounds** — the solution accepts every lower bound. -/
theorem solve_lower_core (hL : Laws S le join) (hA : AnyLaws le) (bs : List Bound)
    (hreach : ∀ v ∈ reach le join bs, AS S v) {s : Ty} {src : Src}
    (h : solve le join bs = .ok s src) : ∀ l ∈ lowers bs, le l s = true := by
  have hinv := bottom_inv hL hA bs hreach
  rw [solve_unfold] at h
  cases hb : (lowers bs).foldl (lowStep le join) none with
  | none =>
    rw [hb] at hinv
    simp only [InvLowO] at hinv
    intro l hl; rw [hinv] at hl; simp at hl
  | some b =>
    rw [hb] at hinv h
    simp only [InvLowO] at hinv
    -- the value handed to `choose` is `b`
    have hch : ∃ src0, choose le b src0 (oneOfs bs).getLast? = .ok s src := by
      unfold finish pick at h
      cases ht : (uppers bs).foldl (upStep le join) none with
      | none => rw [ht] at h; exact ⟨_, h⟩
      | some t =>
        rw [ht] at h
        simp only at h
        by_cases hbt : le b t = true
        · simp only [hbt, if_true] at h; exact ⟨_, h⟩
        · simp [hbt] at h
    obtain ⟨src0, hch⟩ := hch
    intro l hl
    have hlb := hinv.ub l hl
    rcases choose_ok le hch with ⟨_, hs⟩ | ⟨cs, hcs, hs | hs | hs⟩
    · rw [hs]; exact hlb
    · obtain ⟨hmem, hle⟩ := hs
      have hAs : AS S s := hreach s (reach_options (mem_of_getLast? hcs) hmem)
      by_cases hba : isAny b = true
      · rw [hinv.anyb (isAny_iff.mp hba) l hl]; exact hA.le_any_left _
      · exact le_trans_as hL hA (hinv.all l hl) (hinv.as.of_notAny (by simpa using hba)) hAs hlb hle
    · rw [hs.1]; exact hlb
    · rw [hs]; exact hA.le_any_right _

/-- **constraints** — with constraints the solution is one of them, or `Any`. -/
theorem solve_constraint_core (bs : List Bound) {s : Ty} {src : Src} {cs : List Ty}
    (h : solve le join bs = .ok s src) (hcs : lastOneOf bs = some cs) : s ∈ cs ∨ s = .any := by
  rw [solve_unfold] at h
  unfold finish at h
  split at h
  · rename_i sol src0 _
    simp only [lastOneOf] at hcs
    rw [hcs] at h
    rcases choose_ok le h with ⟨h1, _⟩ | ⟨cs', hcs', hs | hs | hs⟩
    · simp at h1
    · simp only [Option.some.injEq] at hcs'; rw [hcs']; exact Or.inl hs.1
    · exact Or.inr (by rw [hs.1]; exact isAny_iff.mp hs.2)
    · exact Or.inr hs
  · rename_i hne
    exact absurd h (by
      intro h'
      exact hne s src (by rw [← h']))

theorem oneOfs_nil_of_upper {bs : List Bound} (hno : D15_oneOfUpper bs = false) {u : Ty}
    (hu : u ∈ uppers bs) : oneOfs bs = [] := by
  cases h : oneOfs bs with
  | nil => rfl
  | cons c cs =>
    cases hU : uppers bs with
    | nil => rw [hU] at hu; simp at hu
    | cons _ _ => simp [D15_oneOfUpper, h, hU] at hno

theorem uppers_nil_of_oneOf {bs : List Bound} (hno : D15_oneOfUpper bs = false) {c : List Ty}
    {cs : List (List Ty)} (h : oneOfs bs = c :: cs) : uppers bs = [] := by
  cases hU : uppers bs with
  | nil => rfl
  | cons _ _ => simp [D15_oneOfUpper, h, hU] at hno

/-- `b ≤ t ≤ u` where `t` is the folded top -/
theorem le_through_top (hL : Laws S le join) (hA : AnyLaws le) {U : List Ty} {t b u : Ty}
    (hT : InvTop S le U t) (hb : AS S b) (hu : u ∈ U) (hbt : le b t = true) : le b u = true := by
  by_cases hta : isAny t = true
  · rw [hT.anyt (isAny_iff.mp hta) u hu]; exact hA.le_any_right _
  · exact le_trans_as hL hA hb (hT.as.of_notAny (by simpa using hta)) (hT.all u hu) hbt (hT.lb u hu)

/-- **upper bounds** — outside the exception classes the solution is accepted by every upper bound. -/
theorem solve_upper_core (hL : Laws S le join) (hA : AnyLaws le) (bs : List Bound)
    (hreach : ∀ v ∈ reach le join bs, AS S v)
    (hch : D15_twoUppers le bs = false)
    (hno : D15_oneOfUpper bs = false) {s : Ty} {src : Src}
    (h : solve le join bs = .ok s src) : ∀ u ∈ uppers bs, le s u = true := by
  intro u hu
  have hone := oneOfs_nil_of_upper hno hu
  have hT := top_inv hL hA bs hreach hch
  have hB := bottom_inv hL hA bs hreach
  rw [solve_unfold, hone] at h
  simp only [List.getLast?_nil] at h
  cases ht : (uppers bs).foldl (upStep le join) none with
  | none =>
    rw [ht] at hT
    simp only [InvTopO] at hT
    rw [hT] at hu; simp at hu
  | some t =>
    rw [ht] at hT h
    simp only [InvTopO] at hT
    cases hb : (lowers bs).foldl (lowStep le join) none with
    | none =>
      rw [hb] at h
      simp only [finish, pick, choose, Result.ok.injEq] at h
      rw [← h.1]; exact hT.lb u hu
    | some b =>
      rw [hb] at h hB
      simp only [InvLowO] at hB
      simp only [finish, pick] at h
      by_cases hbt : le b t = true
      · simp only [hbt, if_true, choose, Result.ok.injEq] at h
        rw [← h.1]
        exact le_through_top hL hA hT hB.as hu hbt
      · simp [hbt] at h

/-- `bottom ≤ top` says: every lower bound is below every upper bound -/
theorem le_bt_iff (hL : Laws S le join) (hA : AnyLaws le) {L U : List Ty} {b t : Ty}
    (hB : InvLow S le L b) (hT : InvTop S le U t) :
    le b t = ((L.all fun l => U.all fun u => le l u)) := by
  rw [Bool.eq_iff_iff]
  simp only [List.all_eq_true]
  constructor
  · intro hbt l hl u hu
    by_cases hba : isAny b = true
    · rw [hB.anyb (isAny_iff.mp hba) l hl]; exact hA.le_any_left _
    · have hSb : S b := hB.as.of_notAny (by simpa using hba)
      have h1 : le l t = true := le_trans_as hL hA (hB.all l hl) hSb hT.as (hB.ub l hl) hbt
      exact le_through_top hL hA hT (hB.all l hl) hu h1
  · intro hall
    by_cases hba : isAny b = true
    · rw [isAny_iff.mp hba]; exact hA.le_any_left _
    · rcases hT.as with hta | hSt
      · rw [hta]; exact hA.le_any_right _
      · exact hB.lub t hSt fun l hl => hall l hl t hT.mem

/-- **verdict** — outside the exception classes, and with at most one constraint list, the solver
accepts exactly the satisfiable bound sets. -/
theorem solve_isOk_eq_spec (hL : Laws S le join) (hA : AnyLaws le) (bs : List Bound)
    (hreach : ∀ v ∈ reach le join bs, AS S v)
    (hch : D15_twoUppers le bs = false)
    (hno : D15_oneOfUpper bs = false) (hone : multiOneOf bs = false) :
    (solve le join bs).isOk = specOk le bs := by
  have hT := top_inv hL hA bs hreach hch
  have hB := bottom_inv hL hA bs hreach
  have hASl : ∀ l ∈ lowers bs, AS S l := fun l hl => hreach l (reach_lowers hl)
  rw [solve_unfold]
  cases hO : oneOfs bs with
  | nil =>
    simp only [List.getLast?_nil, specOk, hO, Bool.and_true]
    cases hb : (lowers bs).foldl (lowStep le join) none with
    | none =>
      rw [hb] at hB
      simp only [InvLowO] at hB
      rw [hB]
      cases (uppers bs).foldl (upStep le join) none <;> simp [finish, pick, choose, Result.isOk]
    | some b =>
      rw [hb] at hB
      simp only [InvLowO] at hB
      cases ht : (uppers bs).foldl (upStep le join) none with
      | none =>
        rw [ht] at hT
        simp only [InvTopO] at hT
        simp [finish, pick, choose, Result.isOk, hT]
      | some t =>
        rw [ht] at hT
        simp only [InvTopO] at hT
        have hl : (finish le ⟨some b, some t, none⟩).isOk = le b t := by
          by_cases hbt : le b t = true
          · simp [finish, pick, choose, Result.isOk, hbt]
          · have hbt' : le b t = false := by simpa using hbt
            simp [finish, pick, Result.isOk, hbt']
        rw [hl]
        exact le_bt_iff hL hA hB hT
  | cons cs rest =>
    have hrest : rest = [] := by
      cases rest with
      | nil => rfl
      | cons _ _ => simp [multiOneOf, hO] at hone
    subst hrest
    have hU : uppers bs = [] := uppers_nil_of_oneOf hno hO
    have hAScs : ∀ o ∈ cs, AS S o := fun o ho => hreach o (reach_options (by rw [hO]; simp) ho)
    have hspec : specOk le bs = cs.any fun o => (lowers bs).all fun l => le l o := by
      simp [specOk, hO, hU]
    rw [hspec]
    simp only [List.getLast?_singleton, hU, List.foldl_nil]
    cases hb : (lowers bs).foldl (lowStep le join) none with
    | none =>
      rw [hb] at hB
      simp only [InvLowO] at hB
      simp [finish, pick, choose_isOk, hB, hA.le_any_left]
    | some b =>
      rw [hb] at hB
      simp only [InvLowO] at hB
      simp only [finish, pick, choose_isOk]
      rw [Bool.eq_iff_iff]
      simp only [List.any_eq_true, List.all_eq_true]
      constructor
      · rintro ⟨o, ho, hbo⟩
        refine ⟨o, ho, fun l hl => ?_⟩
        by_cases hba : isAny b = true
        · rw [hB.anyb (isAny_iff.mp hba) l hl]; exact hA.le_any_left _
        · exact le_trans_as hL hA (hASl l hl) (hB.as.of_notAny (by simpa using hba)) (hAScs o ho)
            (hB.ub l hl) hbo
      · rintro ⟨o, ho, hlo⟩
        refine ⟨o, ho, ?_⟩
        by_cases hba : isAny b = true
        · rw [isAny_iff.mp hba]; exact hA.le_any_left _
        · rcases hAScs o ho with hoa | hSo
          · rw [hoa]; exact hA.le_any_right _
          · exact hB.lub o hSo hlo

/-- An order-free description of the solver's verdict that also covers constraints combined with upper
bounds (where the solver accepts more than `specOk`): with constraints, some constraint has to
accept the lower bounds — or, without lower bounds, to accept some non-`Any` upper bound. -/
def verdictSpec (le : Ty → Ty → Bool) (bs : List Bound) : Bool :=
  ((lowers bs).all fun l => (uppers bs).all fun u => le l u) &&
  match oneOfs bs with
  | [] => true
  | cs :: _ =>
    if (lowers bs).isEmpty then
      (if ((uppers bs).filter fun u => !isAny u).isEmpty then !cs.isEmpty
       else cs.any fun o => ((uppers bs).filter fun u => !isAny u).any fun u => le u o)
    else cs.any fun o => (lowers bs).all fun l => le l o

theorem any_true_eq {α} (l : List α) : (l.any fun _ => true) = !l.isEmpty := by
  cases l <;> simp

theorem solve_isOk_eq_verdictSpec (hL : Laws S le join) (hA : AnyLaws le) (bs : List Bound)
    (hreach : ∀ v ∈ reach le join bs, AS S v)
    (hch : D15_twoUppers le bs = false)
    (hone : multiOneOf bs = false) :
    (solve le join bs).isOk = verdictSpec le bs := by
  have hT := top_inv hL hA bs hreach hch
  have hB := bottom_inv hL hA bs hreach
  have hASl : ∀ l ∈ lowers bs, AS S l := fun l hl => hreach l (reach_lowers hl)
  cases hO : oneOfs bs with
  | nil =>
    have h3 : D15_oneOfUpper bs = false := by simp [D15_oneOfUpper, hO]
    rw [solve_isOk_eq_spec hL hA bs hreach hch h3 hone]
    simp [specOk, verdictSpec, hO]
  | cons cs rest =>
    have hrest : rest = [] := by
      cases rest with
      | nil => rfl
      | cons _ _ => simp [multiOneOf, hO] at hone
    subst hrest
    have hAScs : ∀ o ∈ cs, AS S o := fun o ho => hreach o (reach_options (by rw [hO]; simp) ho)
    rw [solve_unfold, hO]
    simp only [List.getLast?_singleton, verdictSpec, hO]
    have hopt : ∀ b, InvLow S le (lowers bs) b →
        (cs.any fun o => le b o) = (cs.any fun o => (lowers bs).all fun l => le l o) := by
      intro b hB
      rw [Bool.eq_iff_iff]
      simp only [List.any_eq_true, List.all_eq_true]
      constructor
      · rintro ⟨o, ho, hbo⟩
        refine ⟨o, ho, fun l hl => ?_⟩
        by_cases hba : isAny b = true
        · rw [hB.anyb (isAny_iff.mp hba) l hl]; exact hA.le_any_left _
        · exact le_trans_as hL hA (hASl l hl) (hB.as.of_notAny (by simpa using hba)) (hAScs o ho)
            (hB.ub l hl) hbo
      · rintro ⟨o, ho, hlo⟩
        refine ⟨o, ho, ?_⟩
        by_cases hba : isAny b = true
        · rw [isAny_iff.mp hba]; exact hA.le_any_left _
        · rcases hAScs o ho with hoa | hSo
          · rw [hoa]; exact hA.le_any_right _
          · exact hB.lub o hSo hlo
    cases hb : (lowers bs).foldl (lowStep le join) none with
    | none =>
      rw [hb] at hB
      simp only [InvLowO] at hB
      simp only [hB, List.all_nil, Bool.true_and, List.isEmpty_nil, if_true]
      cases ht : (uppers bs).foldl (upStep le join) none with
      | none =>
        rw [ht] at hT
        simp only [InvTopO] at hT
        simp [finish, pick, choose_isOk, hT, hA.le_any_left, any_true_eq]
      | some t =>
        rw [ht] at hT
        simp only [InvTopO] at hT
        simp only [finish, pick, choose_isOk]
        by_cases hta : isAny t = true
        · -- every upper bound is `Any`
          have hf : ((uppers bs).filter fun u => !isAny u) = [] := by
            rw [List.filter_eq_nil_iff]
            intro u hu
            rw [hT.anyt (isAny_iff.mp hta) u hu]; simp [isAny]
          rw [hf, isAny_iff.mp hta]
          simp [hA.le_any_left, any_true_eq]
        · have hSt : S t := hT.as.of_notAny (by simpa using hta)
          have hmemf : t ∈ (uppers bs).filter fun u => !isAny u := by
            simp only [List.mem_filter, Bool.not_eq_true']
            exact ⟨hT.mem, by simpa using hta⟩
          have hne : ((uppers bs).filter fun u => !isAny u).isEmpty = false := by
            cases hF : (uppers bs).filter fun u => !isAny u with
            | nil => rw [hF] at hmemf; simp at hmemf
            | cons _ _ => rfl
          rw [hne]
          rw [Bool.eq_iff_iff]
          simp only [List.any_eq_true, Bool.false_eq_true, if_false, List.mem_filter, Bool.not_eq_true']
          constructor
          · rintro ⟨o, ho, hto⟩
            exact ⟨o, ho, t, ⟨hT.mem, by simpa using hta⟩, hto⟩
          · rintro ⟨o, ho, u, ⟨hu, hun⟩, huo⟩
            exact ⟨o, ho, le_trans_as hL hA (Or.inr hSt) ((hT.all u hu).of_notAny hun) (hAScs o ho) (hT.lb u hu) huo⟩
    | some b =>
      rw [hb] at hB
      simp only [InvLowO] at hB
      have hne : (lowers bs).isEmpty = false := by
        cases hLw : lowers bs with
        | nil => exact absurd hLw hB.ne
        | cons _ _ => rfl
      simp only [hne, Bool.false_eq_true, if_false]
      rw [← hopt b hB]
      cases ht : (uppers bs).foldl (upStep le join) none with
      | none =>
        rw [ht] at hT
        simp only [InvTopO] at hT
        simp [finish, pick, choose_isOk, hT]
      | some t =>
        rw [ht] at hT
        simp only [InvTopO] at hT
        rw [← le_bt_iff hL hA hB hT]
        by_cases hbt : le b t = true
        · simp [finish, pick, choose_isOk, hbt]
        · have hbt' : le b t = false := by simpa using hbt
          simp [finish, pick, Result.isOk, hbt']

/-- **the specification means what it says**: `specOk` holds exactly when some value of the carrier
satisfies all the bounds (pairwise comparable upper bounds, constraints in the carrier,
at most one constraint list). -/
theorem specOk_iff_exists_core (hL : Laws S le join) (hA : AnyLaws le) (bs : List Bound)
    (hreach : ∀ v ∈ reach le join bs, AS S v)
    (hopt : ∀ cs ∈ oneOfs bs, ∀ c ∈ cs, S c)
    (hch : D15_twoUppers le bs = false)
    (hone : multiOneOf bs = false) (hne : ∃ a, S a) :
    specOk le bs = true ↔ ∃ s, S s ∧ Sat le bs s := by
  have hT := top_inv hL hA bs hreach hch
  have hB := bottom_inv hL hA bs hreach
  have hASu : ∀ u ∈ uppers bs, AS S u := fun u hu => hreach u (reach_uppers hu)
  have hASl : ∀ l ∈ lowers bs, AS S l := fun l hl => hreach l (reach_lowers hl)
  constructor
  · intro hspec
    simp only [specOk, Bool.and_eq_true, List.all_eq_true] at hspec
    obtain ⟨hlu, hopts⟩ := hspec
    cases hO : oneOfs bs with
    | cons cs rest =>
      have hrest : rest = [] := by
        cases rest with
        | nil => rfl
        | cons _ _ => simp [multiOneOf, hO] at hone
      subst hrest
      rw [hO] at hopts
      simp only [List.any_eq_true, Bool.and_eq_true, List.all_eq_true] at hopts
      obtain ⟨o, ho, ⟨_, hlo⟩, huo⟩ := hopts
      refine ⟨o, hopt cs (by rw [hO]; simp) o ho, hlo, huo, ?_⟩
      intro cs' hcs'
      rw [hO] at hcs'
      have : cs' = cs := by simpa using hcs'
      rw [this]; exact ho
    | nil =>
      have hsat0 : ∀ cs ∈ oneOfs bs, ∀ (s : Ty), s ∈ cs := by intro cs hcs; rw [hO] at hcs; simp at hcs
      have fromTop : (∀ l ∈ lowers bs, l = .any) → ∃ s, S s ∧ Sat le bs s := by
        intro hallAny
        have viaAny : (∀ u ∈ uppers bs, u = .any) → ∃ s, S s ∧ Sat le bs s := by
          intro hU
          obtain ⟨a, ha⟩ := hne
          refine ⟨a, ha, fun l hl => ?_, fun u hu => ?_, fun cs hcs => hsat0 cs hcs a⟩
          · rw [hallAny l hl]; exact hA.le_any_left _
          · rw [hU u hu]; exact hA.le_any_right _
        cases ht : (uppers bs).foldl (upStep le join) none with
        | none =>
          rw [ht] at hT
          simp only [InvTopO] at hT
          exact viaAny (by rw [hT]; simp)
        | some t =>
          rw [ht] at hT
          simp only [InvTopO] at hT
          by_cases hta : isAny t = true
          · exact viaAny (hT.anyt (isAny_iff.mp hta))
          · refine ⟨t, hT.as.of_notAny (by simpa using hta), fun l hl => ?_, hT.lb, fun cs hcs => hsat0 cs hcs t⟩
            rw [hallAny l hl]; exact hA.le_any_left _
      cases hb : (lowers bs).foldl (lowStep le join) none with
      | none =>
        rw [hb] at hB
        simp only [InvLowO] at hB
        exact fromTop (by rw [hB]; simp)
      | some b =>
        rw [hb] at hB
        simp only [InvLowO] at hB
        by_cases hba : isAny b = true
        · exact fromTop (hB.anyb (isAny_iff.mp hba))
        · have hSb : S b := hB.as.of_notAny (by simpa using hba)
          refine ⟨b, hSb, hB.ub, fun u hu => ?_, fun cs hcs => hsat0 cs hcs b⟩
          rcases hASu u hu with hua | hSu
          · rw [hua]; exact hA.le_any_right _
          · exact hB.lub u hSu fun l hl => hlu l hl u hu
  · rintro ⟨s, hSs, hlow, hup, hoo⟩
    simp only [specOk, Bool.and_eq_true, List.all_eq_true]
    refine ⟨fun l hl u hu => le_trans_as hL hA (hASl l hl) hSs (hASu u hu) (hlow l hl) (hup u hu), ?_⟩
    cases hO : oneOfs bs with
    | nil => rfl
    | cons cs rest =>
      have hrest : rest = [] := by
        cases rest with
        | nil => rfl
        | cons _ _ => simp [multiOneOf, hO] at hone
      subst hrest
      simp only [List.any_eq_true, Bool.and_eq_true, List.all_eq_true]
      exact ⟨s, hoo cs (by rw [hO]; simp), ⟨by simp, hlow⟩, hup⟩

end Solve

/-! ### 5. permutations -/
section Perm

theorem lowers_perm {bs bs' : List Bound} (h : bs.Perm bs') : (lowers bs).Perm (lowers bs') := by
  induction h with
  | nil => exact List.Perm.refl _
  | cons x _ ih => cases x <;> simp [lowers, ih]
  | swap x y l => cases x <;> cases y <;> simp [lowers, List.Perm.swap]
  | trans _ _ ih1 ih2 => exact ih1.trans ih2

theorem uppers_perm {bs bs' : List Bound} (h : bs.Perm bs') : (uppers bs).Perm (uppers bs') := by
  induction h with
  | nil => exact List.Perm.refl _
  | cons x _ ih => cases x <;> simp [uppers, ih]
  | swap x y l => cases x <;> cases y <;> simp [uppers, List.Perm.swap]
  | trans _ _ ih1 ih2 => exact ih1.trans ih2

theorem oneOfs_perm {bs bs' : List Bound} (h : bs.Perm bs') : (oneOfs bs).Perm (oneOfs bs') := by
  induction h with
  | nil => exact List.Perm.refl _
  | cons x _ ih => cases x <;> simp [oneOfs, ih]
  | swap x y l => cases x <;> cases y <;> simp [oneOfs, List.Perm.swap]
  | trans _ _ ih1 ih2 => exact ih1.trans ih2

theorem all_perm {α} {l l' : List α} (h : l.Perm l') (p : α → Bool) : l.all p = l'.all p := by
  rw [Bool.eq_iff_iff]
  simp only [List.all_eq_true]
  exact ⟨fun H x hx => H x (h.mem_iff.mpr hx), fun H x hx => H x (h.mem_iff.mp hx)⟩

theorem any_perm {α} {l l' : List α} (h : l.Perm l') (p : α → Bool) : l.any p = l'.any p := by
  rw [Bool.eq_iff_iff]
  simp only [List.any_eq_true]
  exact ⟨fun ⟨x, hx, hp⟩ => ⟨x, h.mem_iff.mp hx, hp⟩, fun ⟨x, hx, hp⟩ => ⟨x, h.mem_iff.mpr hx, hp⟩⟩

theorem oneOfs_eq_of_perm {bs bs' : List Bound} (h : bs.Perm bs') (hone : multiOneOf bs = false) :
    oneOfs bs' = oneOfs bs := by
  have hp := oneOfs_perm h
  cases hO : oneOfs bs with
  | nil => rw [hO] at hp; exact hp.symm.eq_nil
  | cons c rest =>
    cases rest with
    | nil => rw [hO] at hp; exact List.perm_singleton.mp hp.symm
    | cons _ _ => simp [multiOneOf, hO] at hone

variable (le : Ty → Ty → Bool)

theorem specOk_perm {bs bs' : List Bound} (h : bs.Perm bs') (hone : multiOneOf bs = false) :
    specOk le bs' = specOk le bs := by
  have hl := lowers_perm h
  have hu := uppers_perm h
  have ho := oneOfs_eq_of_perm h hone
  unfold specOk
  rw [ho]
  have e1 : ((lowers bs').all fun l => (uppers bs').all fun u => le l u) =
      ((lowers bs).all fun l => (uppers bs).all fun u => le l u) := by
    rw [all_perm hl.symm]
    congr 1; funext l
    exact all_perm hu.symm _
  rw [e1]
  congr 1
  cases oneOfs bs with
  | nil => rfl
  | cons cs rest =>
    simp only
    congr 1; funext o
    rw [all_perm hl.symm, all_perm hu.symm]

theorem twoUppers_perm {bs bs' : List Bound} (h : bs.Perm bs') :
    D15_twoUppers le bs' = D15_twoUppers le bs := by
  unfold D15_twoUppers
  rw [any_perm (uppers_perm h).symm]
  congr 1; funext u
  exact any_perm (uppers_perm h).symm _

theorem isEmpty_perm {α} {l l' : List α} (h : l.Perm l') : l.isEmpty = l'.isEmpty := by
  cases l with
  | nil => rw [h.symm.eq_nil]
  | cons a l =>
    cases l' with
    | nil => exact absurd h.eq_nil (by simp)
    | cons _ _ => rfl

theorem oneOfUpper_perm {bs bs' : List Bound} (h : bs.Perm bs') :
    D15_oneOfUpper bs' = D15_oneOfUpper bs := by
  unfold D15_oneOfUpper
  rw [isEmpty_perm (oneOfs_perm h), isEmpty_perm (uppers_perm h)]

theorem multiOneOf_perm {bs bs' : List Bound} (h : bs.Perm bs') : multiOneOf bs' = multiOneOf bs := by
  unfold multiOneOf
  rw [(oneOfs_perm h).length_eq]

theorem verdictSpec_perm (le : Ty → Ty → Bool) {bs bs' : List Bound} (h : bs.Perm bs')
    (hone : multiOneOf bs = false) : verdictSpec le bs' = verdictSpec le bs := by
  have hl := lowers_perm h
  have hu := uppers_perm h
  have hf : ((uppers bs).filter fun u => !isAny u).Perm ((uppers bs').filter fun u => !isAny u) := hu.filter _
  have ho := oneOfs_eq_of_perm h hone
  unfold verdictSpec
  rw [ho]
  have e1 : ((lowers bs').all fun l => (uppers bs').all fun u => le l u) =
      ((lowers bs).all fun l => (uppers bs).all fun u => le l u) := by
    rw [all_perm hl.symm]
    congr 1; funext l
    exact all_perm hu.symm _
  rw [e1, isEmpty_perm hl.symm, isEmpty_perm hf.symm]
  congr 1
  cases oneOfs bs with
  | nil => rfl
  | cons cs rest =>
    simp only
    congr 1
    · congr 1; congr 1; funext o
      exact any_perm hf.symm _
    · congr 1; funext o
      exact all_perm hl.symm _

end Perm

/-! ### 6. from the decidable check to the laws -/
section Local
variable {le : Ty → Ty → Bool} {join : Ty → Ty → Ty}

/-- the carrier of the local theorems: the non-`Any` members of a finite list -/
def SLoc (V : List Ty) (t : Ty) : Prop := t ∈ V ∧ isAny t = false

theorem laws_of_lawsOn (V : List Ty) (h : lawsOn le join V = true) : Laws (SLoc V) le join := by
  simp only [lawsOn, List.all_eq_true, List.mem_filter, Bool.and_eq_true, Bool.not_eq_true',
    Bool.or_eq_true, and_imp] at h
  have key : ∀ a, SLoc V a → le a a = true ∧ ∀ b, SLoc V b →
      (isAny (join a b) = false ∧ le a (join a b) = true ∧ le b (join a b) = true) ∧
      ∀ c, SLoc V c → ((le a b = false ∨ le b c = false) ∨ le a c = true) ∧
                       ((le a c = false ∨ le b c = false) ∨ le (join a b) c = true) := by
    intro a ha
    obtain ⟨h1, h2⟩ := h a ha.1 ha.2
    refine ⟨h1, fun b hb => ?_⟩
    obtain ⟨h3, h4⟩ := h2 b hb.1 hb.2
    refine ⟨⟨h3.1.1, h3.1.2, h3.2⟩, fun c hc => ?_⟩
    obtain ⟨h5, h6⟩ := h4 c hc.1 hc.2
    constructor
    · rcases h5 with h5 | h5
      · left
        cases hab : le a b with
        | false => exact Or.inl rfl
        | true =>
          right
          cases hbc : le b c with
          | false => rfl
          | true => simp [hab, hbc] at h5
      · exact Or.inr h5
    · rcases h6 with h6 | h6
      · left
        cases hac : le a c with
        | false => exact Or.inl rfl
        | true =>
          right
          cases hbc : le b c with
          | false => rfl
          | true => simp [hac, hbc] at h6
      · exact Or.inr h6
  refine ⟨fun a ha => ha.2, fun a ha => (key a ha).1, ?_, ?_, ?_, ?_, ?_⟩
  · intro a b c ha hb hc hab hbc
    rcases (((key a ha).2 b hb).2 c hc).1 with (h | h) | h
    · rw [hab] at h; exact absurd h (by simp)
    · rw [hbc] at h; exact absurd h (by simp)
    · exact h
  · intro a b ha hb; exact ((key a ha).2 b hb).1.1
  · intro a b ha hb; exact ((key a ha).2 b hb).1.2.1
  · intro a b ha hb; exact ((key a ha).2 b hb).1.2.2
  · intro a b c ha hb hc hac hbc
    rcases (((key a ha).2 b hb).2 c hc).2 with (h | h) | h
    · rw [hac] at h; exact absurd h (by simp)
    · rw [hbc] at h; exact absurd h (by simp)
    · exact h

theorem as_sloc (V : List Ty) : ∀ v ∈ V, AS (SLoc V) v := by
  intro v hv
  cases h : isAny v with
  | true => exact Or.inl (isAny_iff.mp h)
  | false => exact Or.inr ⟨hv, h⟩

end Local

/-! ### 6b. a carrier closed under `join` contains everything the solver meets -/
section Closed
variable {S : Ty → Prop} {le : Ty → Ty → Bool} {join : Ty → Ty → Ty}

theorem lowStep_AS (hA : AnyLaws le) (hcl : ∀ a b, S a → S b → S (join a b)) {bot : Option Ty} {v : Ty}
    (hb : ∀ b, bot = some b → AS S b) (hv : AS S v) :
    ∀ x, lowStep le join bot v = some x → AS S x := by
  intro x hx
  cases bot with
  | none => simp only [lowStep, Option.some.injEq] at hx; rw [← hx]; exact hv
  | some b =>
    have hb' := hb b rfl
    simp only [lowStep] at hx
    by_cases h1 : isAny v = true
    · simp [h1] at hx; rw [← hx]; exact hb'
    · have h1' : isAny v = false := by simpa using h1
      by_cases h2 : le b v = true
      · simp [h1', h2] at hx; rw [← hx]; exact hv
      · have h2' : le b v = false := by simpa using h2
        by_cases h3 : le v b = true
        · simp [h1', h2', h3] at hx; rw [← hx]; exact hb'
        · have h3' : le v b = false := by simpa using h3
          simp [h1', h2', h3'] at hx
          rw [← hx]
          have hbn : isAny b = false := by
            cases hba : isAny b with
            | false => rfl
            | true => rw [isAny_iff.mp hba, hA.le_any_left] at h2'; exact absurd h2' (by simp)
          exact Or.inr (hcl _ _ (hb'.of_notAny hbn) (hv.of_notAny h1'))

theorem upStep_AS (hA : AnyLaws le) (hcl : ∀ a b, S a → S b → S (join a b)) {top : Option Ty} {v : Ty}
    (ht : ∀ t, top = some t → AS S t) (hv : AS S v) :
    ∀ x, upStep le join top v = some x → AS S x := by
  intro x hx
  cases top with
  | none => simp only [upStep, Option.some.injEq] at hx; rw [← hx]; exact hv
  | some t =>
    have ht' := ht t rfl
    simp only [upStep] at hx
    by_cases h1 : isAny v = true
    · simp [h1] at hx; rw [← hx]; exact ht'
    have hvn : isAny v = false := by simpa using h1
    by_cases h2 : le v t = true
    · simp [hvn, h2] at hx; rw [← hx]; exact hv
    · have h2' : le v t = false := by simpa using h2
      by_cases h3 : le t v = true
      · simp [hvn, h2', h3] at hx; rw [← hx]; exact ht'
      · have h3' : le t v = false := by simpa using h3
        simp [hvn, h2', h3'] at hx
        rw [← hx]
        have htn : isAny t = false := by
          cases hta : isAny t with
          | false => rfl
          | true => rw [isAny_iff.mp hta, hA.le_any_right] at h2'; exact absurd h2' (by simp)
        exact Or.inr (hcl _ _ (ht'.of_notAny htn) (hv.of_notAny hvn))

theorem trail_AS (hA : AnyLaws le) (hcl : ∀ a b, S a → S b → S (join a b)) (bs : List Bound) :
    ∀ st : St, (∀ b, st.bottom = some b → AS S b) → (∀ t, st.top = some t → AS S t) →
      (∀ v ∈ lowers bs, AS S v) → (∀ v ∈ uppers bs, AS S v) →
      ∀ x ∈ trail le join st bs, AS S x := by
  induction bs with
  | nil => intro st _ _ _ _ x hx; simp [trail] at hx
  | cons b bs ih =>
    intro st hb ht hl hu x hx
    have hstep : (∀ b', (step le join st b).bottom = some b' → AS S b') ∧
        (∀ t', (step le join st b).top = some t' → AS S t') := by
      cases b with
      | lower v =>
        rw [step_lower]
        exact ⟨lowStep_AS hA hcl hb (hl v (by simp [lowers])), ht⟩
      | upper v =>
        rw [step_upper]
        exact ⟨hb, upStep_AS hA hcl ht (hu v (by simp [uppers]))⟩
      | oneOf cs => exact ⟨by simpa [step] using hb, by simpa [step] using ht⟩
      | or bss => exact ⟨by simpa [step] using hb, by simpa [step] using ht⟩
    simp only [trail, List.mem_append, Option.mem_toList] at hx
    rcases hx with (hx | hx) | hx
    · exact hstep.1 x hx
    · exact hstep.2 x hx
    · refine ih _ hstep.1 hstep.2 (fun v hv => hl v ?_) (fun v hv => hu v ?_) x hx
      · cases b <;> simp [lowers, hv]
      · cases b <;> simp [uppers, hv]

/-- bound values in a carrier closed under `join` (or `Any`) ⇒ everything the solver meets is -/
theorem reach_AS_of_closed (hA : AnyLaws le) (hcl : ∀ a b, S a → S b → S (join a b)) (bs : List Bound)
    (hvals : ∀ v ∈ boundVals bs, AS S v) : ∀ v ∈ reach le join bs, AS S v := by
  intro v hv
  simp only [reach, List.mem_append] at hv
  rcases hv with hv | hv
  · exact hvals v hv
  · exact trail_AS hA hcl bs {} (by simp) (by simp)
      (fun w hw => hvals w (by simp [boundVals, hw])) (fun w hw => hvals w (by simp [boundVals, hw])) v hv

end Closed

/-! ### 6c. the de-duplication keeps a subsequence -/

theorem dedupB_sublist (bs : List Bound) : ∀ acc : List Bound, (dedupB acc bs).Sublist (acc ++ bs) := by
  induction bs with
  | nil => intro acc; simp [dedupB]
  | cons b bs ih =>
    intro acc
    unfold dedupB
    split
    · exact (ih acc).trans (List.Sublist.append_left (List.sublist_cons_self b bs) acc)
    · have := ih (acc ++ [b])
      simpa using this

/-! ### 7. `Any` and the shared assignability model -/

theorem ca_any_right (tbl : ClassTable) : ∀ a : Ty, ca tbl false a .any = true
  | .annotated t => by
    have := ca_any_right tbl t
    simp [ca, this]
  | .any => by simp [ca]
  | .known _ => by simp [ca]
  | .typed _ => by simp [ca]
  | .newtype _ _ => by simp [ca]
  | .generic _ _ => by simp [ca]
  | .seq _ _ => by simp [ca]
  | .many _ => by simp [ca]
  | .union _ => by simp [ca]
  | .subclass _ => by simp [ca]
  | .tvar _ => by simp [ca]

theorem anyLaws_ca (tbl : ClassTable) : AnyLaws (leCa tbl) :=
  ⟨fun b => ca_any_right tbl b, fun a => by unfold leCa ca; rfl⟩

end Pya.C15
