import PyaModel.Spec.TypeVarSpec
namespace Pya.C15
end Pya.C15
