import PyaModel.Spec.FixSpec
import PyaModel.Generated.FixConsts
import PyaModel.Generated.FixRoutes
import PyaModel.Proofs.C16Routes
/-!
# Proofs/C16 — helper lemmas for Props/C16

0. Tie to the live source (regenerated constants).
1. `_apply_changes_to_lines`: deleting in descending order = one pass that drops the named lines.
2. Text lemmas about the inserted comment line.
3. Inserting one line: indexing, file-level scan, suppression.
4. The add-ignores round in closed form, its invariants, termination.
5. `get_line_range_for_node`.
6. The line lexer.
7. `NodeTransformer.generic_visit`: identity copy, exact replacement.
8. Removing a statement: the live guard, straight-line def-use.
9. Fix routes (regenerated registry) and node kinds.
-/
set_option linter.unusedSimpArgs false
set_option linter.unusedVariables false

namespace Pya.C16

open Pya.C11 (Line IC codedIC strip isSpace hasSub trailingMatch ownLineMatch fileLevelIdx)

/-! ## 0. Constants -/

theorem gen_iterationLimit : iterationLimit = Gen.iterationLimit := by decide
theorem gen_ignoreComment : IC = Gen.ignoreComment.toList := by decide

/-! ## 1. Applying a replacement -/

theorem mem_insertDesc {x y : Nat} {l : List Nat} : y ∈ insertDesc x l ↔ y = x ∨ y ∈ l := by
  induction l with
  | nil => simp [insertDesc]
  | cons z zs ih =>
    unfold insertDesc
    split
    · simp
    · simp [ih]; grind

theorem mem_sortDesc {y : Nat} {l : List Nat} : y ∈ sortDesc l ↔ y ∈ l := by
  induction l with
  | nil => simp [sortDesc]
  | cons z zs ih => simp [sortDesc, mem_insertDesc, ih]

theorem pairwise_insertDesc {x : Nat} {l : List Nat} (h : l.Pairwise (· > ·)) (hx : x ∉ l) :
    (insertDesc x l).Pairwise (· > ·) := by
  induction l with
  | nil => simp [insertDesc]
  | cons z zs ih =>
    unfold insertDesc
    have hz := List.pairwise_cons.mp h
    split
    · rename_i hle
      refine List.pairwise_cons.mpr ⟨?_, h⟩
      intro a ha
      rcases List.mem_cons.mp ha with rfl | ha
      · have : a ≠ x := fun e => hx (by simp [e])
        omega
      · have := hz.1 a ha
        omega
    · rename_i hle
      refine List.pairwise_cons.mpr ⟨?_, ih hz.2 (fun hm => hx (List.mem_cons_of_mem _ hm))⟩
      intro a ha
      rcases mem_insertDesc.mp ha with rfl | ha
      · omega
      · exact hz.1 a ha

theorem pairwise_sortDesc {l : List Nat} (h : l.Nodup) : (sortDesc l).Pairwise (· > ·) := by
  induction l with
  | nil => simp [sortDesc]
  | cons z zs ih =>
    have hz := List.nodup_cons.mp h
    exact pairwise_insertDesc (ih hz.2) (fun hm => hz.1 (mem_sortDesc.mp hm))

theorem keepNot_of_lt (ks : List Nat) : ∀ (xs : List Line) (i : Nat), (∀ k ∈ ks, k < i) → keepNot ks i xs = xs := by
  intro xs
  induction xs with
  | nil => intros; rfl
  | cons x xs ih =>
    intro i h
    have : ks.contains i = false := by
      simp only [List.contains_eq_mem, decide_eq_false_iff_not]
      intro hm
      exact absurd (h i hm) (Nat.lt_irrefl _)
    simp only [keepNot, this]
    rw [ih (i + 1) (fun k hk => Nat.lt_succ_of_lt (h k hk))]
    rfl

theorem keepNot_congr {ks ks' : List Nat} (h : ∀ i, i ∈ ks ↔ i ∈ ks') :
    ∀ (xs : List Line) (i : Nat), keepNot ks i xs = keepNot ks' i xs := by
  intro xs
  induction xs with
  | nil => intros; rfl
  | cons x xs ih =>
    intro i
    have : ks.contains i = ks'.contains i := by
      simp only [List.contains_eq_mem]
      exact decide_eq_decide.mpr (h i)
    simp only [keepNot, this, ih]

theorem keepNot_append (ks : List Nat) : ∀ (a b : List Line) (i : Nat),
    keepNot ks i (a ++ b) = keepNot ks i a ++ keepNot ks (i + a.length) b := by
  intro a
  induction a with
  | nil => intros; simp [keepNot]
  | cons x xs ih =>
    intro b i
    simp only [List.cons_append, keepNot, ih, List.length_cons]
    have : i + 1 + xs.length = i + (xs.length + 1) := by omega
    rw [this]
    split <;> simp

/-- Deleting a position beyond every element of `ks` commutes with the one-pass filter. -/
theorem keepNot_erase (ks : List Nat) (k : Nat) (hk : ∀ k' ∈ ks, k' < k) :
    ∀ (xs : List Line) (i : Nat), i ≤ k →
      keepNot ks i (xs.eraseIdx (k - i)) = keepNot (k :: ks) i xs := by
  intro xs
  induction xs with
  | nil => intros; simp [keepNot]
  | cons x xs ih =>
    intro i hi
    by_cases e : k = i
    · subst e
      have h1 : keepNot ks k xs = xs := keepNot_of_lt ks xs k hk
      have h2 : keepNot (k :: ks) (k + 1) xs = xs :=
        keepNot_of_lt (k :: ks) xs (k + 1) (by
          intro a ha
          rcases List.mem_cons.mp ha with rfl | ha
          · omega
          · exact Nat.lt_succ_of_lt (hk a ha))
      simp [keepNot, h1, h2]
    · have hlt : i < k := by omega
      have e1 : k - i = (k - (i + 1)) + 1 := by omega
      rw [e1, List.eraseIdx_cons_succ]
      have hc : (k :: ks).contains i = ks.contains i := by
        simp only [List.contains_eq_mem, List.mem_cons]
        apply decide_eq_decide.mpr
        constructor
        · rintro (h | h)
          · omega
          · exact h
        · exact Or.inr
      simp only [keepNot, hc, ih (i + 1) (by omega)]

theorem delAll_desc : ∀ (ks : List Nat) (L : List Line), ks.Pairwise (· > ·) →
    (∀ k ∈ ks, 1 ≤ k ∧ k ≤ L.length) → delAll L ks = some (keepNot ks 1 L) := by
  intro ks
  induction ks with
  | nil => intro L _ _; simp [delAll, keepNot_of_lt]
  | cons k ks ih =>
    intro L hp hr
    have hk := hr k (by simp)
    have hpc := List.pairwise_cons.mp hp
    have hd : delLine L k = some (L.eraseIdx (k - 1)) := by
      unfold delLine
      have : k ≠ 0 := by omega
      simp [this, hk.2]
    simp only [delAll, hd]
    rw [ih (L.eraseIdx (k - 1)) hpc.2]
    · rw [keepNot_erase ks k (fun k' hk' => hpc.1 k' hk') L 1 hk.1]
    · intro k' hk'
      have h1 := hr k' (List.mem_cons_of_mem _ hk')
      have h2 := hpc.1 k' hk'
      have : (L.eraseIdx (k - 1)).length = L.length - 1 := by
        rw [List.length_eraseIdx]
        have : k - 1 < L.length := by omega
        simp [this]
      omega

theorem foldl_max_ge (xs : List Nat) : ∀ (a : Nat), a ≤ xs.foldl max a ∧ ∀ k ∈ xs, k ≤ xs.foldl max a := by
  induction xs with
  | nil => intro a; simp
  | cons x xs ih =>
    intro a
    have := ih (max a x)
    simp only [List.foldl_cons, List.mem_cons]
    refine ⟨by omega, ?_⟩
    rintro k (rfl | hk)
    · omega
    · exact this.2 k hk

theorem foldl_max_mem (xs : List Nat) : ∀ (a : Nat), xs.foldl max a = a ∨ xs.foldl max a ∈ xs := by
  induction xs with
  | nil => intro a; simp
  | cons x xs ih =>
    intro a
    simp only [List.foldl_cons, List.mem_cons]
    rcases ih (max a x) with h | h
    · rw [h]
      by_cases hx : a ≤ x
      · right; left; omega
      · left; omega
    · right; right; exact h

theorem pyMax_eq {dels : List Nat} (h : dels ≠ []) : pyMax dels = some (maxOf dels) := by
  cases dels with
  | nil => exact absurd rfl h
  | cons x xs => simp [pyMax, maxOf]

theorem maxOf_ge {dels : List Nat} {k : Nat} (hk : k ∈ dels) : k ≤ maxOf dels :=
  (foldl_max_ge dels 0).2 k hk

theorem maxOf_mem {dels : List Nat} (h : dels ≠ []) (hpos : ∀ k ∈ dels, 1 ≤ k) : maxOf dels ∈ dels := by
  rcases foldl_max_mem dels 0 with h0 | hm
  · cases dels with
    | nil => exact absurd rfl h
    | cons x xs =>
      have := maxOf_ge (dels := x :: xs) (k := x) (by simp)
      have := hpos x (by simp)
      unfold maxOf at *
      omega
  · exact hm

/-- `ChangeWF` unfolded. -/
theorem changeWF_iff {ls : List Line} {dels : List Nat} :
    ChangeWF ls dels = true ↔ dels ≠ [] ∧ (∀ k ∈ dels, 1 ≤ k ∧ k ≤ ls.length) ∧ dels.Nodup := by
  unfold ChangeWF
  simp only [Bool.and_eq_true, Bool.not_eq_true', List.isEmpty_eq_false_iff, List.all_eq_true, decide_eq_true_eq]
  constructor
  · rintro ⟨⟨h1, h2⟩, h3⟩
    exact ⟨h1, h2, h3⟩
  · rintro ⟨h1, h2, h3⟩
    exact ⟨⟨h1, h2⟩, h3⟩

theorem applyChange_spec (ls : List Line) (dels : List Nat) (adds : List Line) (hwf : ChangeWF ls dels = true) :
    applyChange ls dels adds = .ok (specApply ls dels adds) := by
  obtain ⟨hne, hr, hnd⟩ := changeWF_iff.mp hwf
  have hm := maxOf_mem hne (fun k hk => (hr k hk).1)
  have hml := (hr _ hm).2
  unfold applyChange
  rw [pyMax_eq hne]
  have hlen : (ls.take (maxOf dels)).length = maxOf dels := by
    rw [List.length_take]; omega
  have hdel : delAll (ls.take (maxOf dels) ++ adds ++ ls.drop (maxOf dels)) (sortDesc dels) =
      some (keepNot (sortDesc dels) 1 (ls.take (maxOf dels) ++ adds ++ ls.drop (maxOf dels))) := by
    apply delAll_desc _ _ (pairwise_sortDesc hnd)
    intro k hk
    have hk' := mem_sortDesc.mp hk
    have := maxOf_ge hk'
    refine ⟨(hr k hk').1, ?_⟩
    simp only [List.length_append, hlen]
    omega
  simp only [hdel]
  congr 1
  rw [keepNot_congr (fun i => mem_sortDesc) _ 1, List.append_assoc, keepNot_append, hlen]
  unfold specApply
  rw [keepNot_of_lt dels _ (1 + maxOf dels) (fun k hk => by have := maxOf_ge hk; omega), List.append_assoc]

/-! ## 2. The inserted comment line -/

/-- `" " * k + "# static analysis: ignore[c]"` -/
def commentFor (k : Nat) (c : String) : Line := List.replicate k ' ' ++ codedIC c

theorem codedIC_eq (c : String) : codedIC c = IC ++ ('[' :: (c.toList ++ [']'])) := rfl

theorem codedIC_cons (c : String) : codedIC c = '#' :: (IC.tail ++ ('[' :: (c.toList ++ [']']))) := by
  rw [codedIC_eq]
  have : IC = '#' :: IC.tail := by decide
  rw [this]
  rfl

theorem dropWhile_comment (k : Nat) (c : String) : (commentFor k c).dropWhile isSpace = codedIC c := by
  unfold commentFor
  induction k with
  | zero =>
    simp only [List.replicate_zero, List.nil_append]
    rw [codedIC_cons]
    have : isSpace '#' = false := by decide
    simp [List.dropWhile_cons, this]
  | succ k ih =>
    simp only [List.replicate_succ, List.cons_append, List.dropWhile_cons]
    have : isSpace ' ' = true := by decide
    rw [if_pos this]; exact ih

theorem strip_comment (k : Nat) (c : String) : strip (commentFor k c) = codedIC c := by
  unfold strip
  rw [dropWhile_comment]
  have : (codedIC c).reverse = ']' :: (IC ++ ('[' :: c.toList)).reverse := by
    rw [codedIC_eq]; simp [List.reverse_append]
  rw [this]
  have h2 : isSpace ']' = false := by decide
  simp only [List.dropWhile_cons, h2, Bool.false_eq_true, if_false]
  rw [← this, List.reverse_reverse]

theorem coded_ne_IC (c : String) : (codedIC c == IC) = false := by
  rw [beq_eq_false_iff_ne]
  intro e
  have := congrArg List.length e
  rw [codedIC_eq] at this
  simp at this

theorem coded_beq_coded (c c' : String) : (codedIC c == codedIC c') = decide (c = c') := by
  by_cases e : c = c'
  · subst e; simp
  · have : codedIC c ≠ codedIC c' := by
      intro h
      rw [codedIC_eq, codedIC_eq] at h
      have h2 := List.append_cancel_left h
      simp only [List.cons.injEq, true_and] at h2
      have h3 := List.append_cancel_right h2
      exact e (String.toList_inj.mp h3)
    simp [e, beq_eq_false_iff_ne.mpr this]

/-- The comment inserted for code `c` matches, as "previous line", exactly the diagnostics of code `c`. -/
theorem ownLineMatch_comment (k : Nat) (c c' : String) :
    ownLineMatch (commentFor k c) (some c') = decide (c = c') := by
  unfold ownLineMatch
  rw [strip_comment, coded_ne_IC, Bool.false_or]
  exact coded_beq_coded c c'

theorem isCommentLine_comment (k : Nat) (c : String) : isCommentLine (commentFor k c) = true := by
  unfold isCommentLine lstrip
  rw [dropWhile_comment, codedIC_cons]
  rfl

/-! ### `_lines()` is the file's own line table (since ba62f49) -/

theorem pyLines_eq (lines : List Line) : pyLines lines = lines := rfl

/-! ## 3. Inserting one line -/

theorem length_insertAt (lines : List Line) (i : Nat) (l : Line) (h : i ≤ lines.length) :
    (insertAt lines i l).length = lines.length + 1 := by
  unfold insertAt
  simp only [List.length_append, List.length_take, List.length_cons, List.length_drop]
  omega

theorem getElem?_insertAt (lines : List Line) (i : Nat) (l : Line) (h : i ≤ lines.length) (j : Nat) :
    (insertAt lines i l)[j]? = if j < i then lines[j]? else if j = i then some l else lines[j - 1]? := by
  unfold insertAt
  have hl : (lines.take i).length = i := by rw [List.length_take]; omega
  rw [List.getElem?_append, hl]
  by_cases h1 : j < i
  · simp [h1, List.getElem?_take]
  · simp only [h1, if_false]
    by_cases h2 : j = i
    · subst h2; simp
    · have : j - i = (j - i - 1) + 1 := by omega
      rw [this, List.getElem?_cons_succ, List.getElem?_drop]
      simp only [h2, if_false]
      congr 1
      omega

theorem getD_insertAt (lines : List Line) (i : Nat) (l : Line) (h : i ≤ lines.length) (j : Nat) :
    (insertAt lines i l).getD j [] = if j < i then lines.getD j [] else if j = i then l else lines.getD (j - 1) [] := by
  simp only [List.getD_eq_getElem?_getD, getElem?_insertAt lines i l h j]
  split
  · rfl
  · split <;> rfl

theorem getLast?_insertAt (lines : List Line) (i : Nat) (l : Line) (h : i < lines.length) :
    (insertAt lines i l).getLast? = lines.getLast? := by
  rw [List.getLast?_eq_getElem?, List.getLast?_eq_getElem?, length_insertAt lines i l (Nat.le_of_lt h),
    getElem?_insertAt lines i l (Nat.le_of_lt h)]
  have h1 : ¬ (lines.length + 1 - 1 < i) := by omega
  have h2 : ¬ (lines.length + 1 - 1 = i) := by omega
  simp only [h1, h2, if_false]
  congr 1

/-- The file-level scan stops at the first line that does not start with `#`: what follows is irrelevant. -/
theorem fileLevelIdx_prefix (code : Option String) : ∀ (a b b' : List Line) (n : Nat),
    a.all startsHash = false → fileLevelIdx code n (a ++ b) = fileLevelIdx code n (a ++ b') := by
  intro a
  induction a with
  | nil => intro b b' n h; simp at h
  | cons x xs ih =>
    intro b b' n h
    simp only [List.cons_append, fileLevelIdx]
    by_cases hx : (x.head? != some '#') = true
    · simp [hx]
    · simp only [hx, if_false]
      by_cases ho : ownLineMatch x code = true
      · simp [ho]
      · simp only [ho, if_false]
        apply ih
        simp only [List.all_cons, Bool.and_eq_false_iff] at h
        rcases h with h | h
        · exfalso
          apply hx
          unfold startsHash at h
          simp only [bne_iff_ne, ne_eq]
          intro e
          rw [e] at h
          simp at h
        · exact h

theorem fileLevel_insertAt (lines : List Line) (i : Nat) (l : Line) (code : String)
    (hh : inHeader lines (i + 1) = false) : fileLevel (insertAt lines i l) code = fileLevel lines code := by
  unfold fileLevel insertAt
  unfold inHeader at hh
  simp only [Nat.add_sub_cancel] at hh
  rw [fileLevelIdx_prefix (some code) (lines.take i) (l :: lines.drop i) (lines.drop i) 0 hh, List.take_append_drop]

theorem lineAt_insert (lines : List Line) (p : Nat) (c : Line) (e : Diag)
    (hp1 : 1 ≤ p) (hp2 : p ≤ lines.length) (he : 1 ≤ e.line) :
    lineAt (insertAt lines (p - 1) c) (shiftDiag p e).line = lineAt lines e.line := by
  have hi : p - 1 ≤ lines.length := by omega
  unfold lineAt shiftDiag
  rw [getD_insertAt lines (p - 1) _ hi]
  by_cases h : p ≤ e.line
  · simp only [h, if_true]
    have h1 : ¬ (e.line + 1 - 1 < p - 1) := by omega
    have h2 : ¬ (e.line + 1 - 1 = p - 1) := by omega
    simp only [h1, h2, if_false]
    congr 1
  · simp only [h, if_false]
    have h1 : e.line - 1 < p - 1 := by omega
    simp only [h1, if_true]

theorem prevLineOf_insert (lines : List Line) (p : Nat) (c : Line) (e : Diag)
    (hp1 : 1 ≤ p) (hp2 : p ≤ lines.length) (he : 1 ≤ e.line) :
    prevLineOf (insertAt lines (p - 1) c) (shiftDiag p e).line =
      if e.line = p then c else prevLineOf lines e.line := by
  have hi : p - 1 ≤ lines.length := by omega
  unfold prevLineOf shiftDiag
  by_cases h : p ≤ e.line
  · simp only [h, if_true]
    have h0 : ¬ (e.line + 1 ≤ 1) := by omega
    simp only [h0, if_false]
    rw [getD_insertAt lines (p - 1) _ hi]
    by_cases h3 : e.line = p
    · subst h3
      have h1 : ¬ (e.line + 1 - 2 < e.line - 1) := by omega
      have h2 : e.line + 1 - 2 = e.line - 1 := by omega
      simp [h1, h2]
    · have h1 : ¬ (e.line + 1 - 2 < p - 1) := by omega
      have h2 : ¬ (e.line + 1 - 2 = p - 1) := by omega
      have h4 : ¬ (e.line ≤ 1) := by omega
      simp only [h1, h2, h3, h4, if_false]
      congr 1
  · simp only [h, if_false]
    have h3 : ¬ (e.line = p) := by omega
    simp only [h3, if_false]
    by_cases h4 : e.line ≤ 1
    · simp only [h4, if_true]
    · simp only [h4, if_false]
      rw [getD_insertAt lines (p - 1) _ hi]
      have h1 : e.line - 2 < p - 1 := by omega
      simp only [h1, if_true]

theorem shiftDiag_code (p : Nat) (e : Diag) : (shiftDiag p e).code = e.code := by
  unfold shiftDiag; split <;> rfl

theorem shiftDiag_line (p : Nat) (e : Diag) : (shiftDiag p e).line = if p ≤ e.line then e.line + 1 else e.line := by
  unfold shiftDiag; split <;> rfl

theorem fileLevel_insert_at_line (lines : List Line) (p : Nat) (l : Line) (code : String) (hp1 : 1 ≤ p)
    (hh : inHeader lines p = false) : fileLevel (insertAt lines (p - 1) l) code = fileLevel lines code := by
  apply fileLevel_insertAt
  have : p - 1 + 1 = p := by omega
  rw [this]; exact hh

/-- The three text tests of `show_error` after a comment for `c` has been inserted above line `p`. -/
theorem suppressed_insert (lines : List Line) (p k : Nat) (c : String) (e : Diag)
    (hp1 : 1 ≤ p) (hp2 : p ≤ lines.length) (hh : inHeader lines p = false) (he : 1 ≤ e.line) :
    suppressed (insertAt lines (p - 1) (commentFor k c)) (shiftDiag p e) =
      (fileLevel lines e.code || trailingMatch (lineAt lines e.line) (some e.code) ||
        (if e.line = p then decide (c = e.code) else ownLineMatch (prevLineOf lines e.line) (some e.code))) := by
  unfold suppressed
  rw [shiftDiag_code, fileLevel_insert_at_line lines p _ e.code hp1 hh, lineAt_insert lines p _ e hp1 hp2 he,
    prevLineOf_insert lines p _ e hp1 hp2 he]
  by_cases h3 : e.line = p
  · simp only [h3, if_true]
    rw [ownLineMatch_comment]
  · simp only [h3, if_false]

/-! ## 4. The add-ignores round -/

theorem keepNot_none (ks : List Nat) : ∀ (xs : List Line) (i : Nat),
    (∀ k ∈ ks, k < i ∨ i + xs.length ≤ k) → keepNot ks i xs = xs := by
  intro xs
  induction xs with
  | nil => intros; rfl
  | cons x xs ih =>
    intro i h
    have : ks.contains i = false := by
      simp only [List.contains_eq_mem, decide_eq_false_iff_not]
      intro hm
      rcases h i hm with h1 | h1
      · omega
      · simp only [List.length_cons] at h1; omega
    simp only [keepNot, this]
    rw [ih (i + 1) (fun k hk => by
      rcases h k hk with h1 | h1
      · left; omega
      · right; simp only [List.length_cons] at h1; omega)]
    rfl

theorem applyChange_insert (lines : List Line) (p : Nat) (c : Line) (hp1 : 1 ≤ p) (hp2 : p ≤ lines.length) :
    applyChange lines [p] [c, lineAt lines p] = .ok (insertAt lines (p - 1) c) := by
  have hwf : ChangeWF lines [p] = true := by
    rw [changeWF_iff]
    refine ⟨by simp, ?_, by simp⟩
    intro k hk
    simp only [List.mem_singleton] at hk
    subst hk
    exact ⟨hp1, hp2⟩
  rw [applyChange_spec lines [p] _ hwf]
  congr 1
  have hm : maxOf [p] = p := by simp [maxOf]
  unfold specApply insertAt
  rw [hm]
  have hlt : p - 1 < lines.length := by omega
  have ht : lines.take p = lines.take (p - 1) ++ [lines[p - 1]] := by
    have : p = (p - 1) + 1 := by omega
    conv => lhs; rw [this]
    rw [List.take_add_one]
    simp [List.getElem?_eq_getElem hlt]
  have hl : (lines.take (p - 1)).length = p - 1 := by rw [List.length_take]; omega
  rw [ht, keepNot_append, hl]
  rw [keepNot_none [p] (lines.take (p - 1)) 1 (by
    intro k hk
    simp only [List.mem_singleton] at hk
    right; rw [hl]; omega)]
  have h1 : 1 + (p - 1) = p := by omega
  rw [h1]
  have hla : lineAt lines p = lines[p - 1] := by
    unfold lineAt
    rw [List.getD_eq_getElem?_getD, List.getElem?_eq_getElem hlt]
    rfl
  have hd : lines.drop (p - 1) = lines[p - 1] :: lines.drop p := by
    rw [List.drop_eq_getElem_cons hlt]
    congr 2
    omega
  simp [keepNot, hla, hd]

theorem mem_visible {pl : List Line} {raw : List Diag} {d : Diag} :
    d ∈ visible pl raw ↔ d ∈ raw ∧ suppressed pl d = false := by
  unfold visible
  simp [List.mem_filter]

theorem ignoreLine_eq (pl : List Line) (d : Diag) :
    ignoreLine pl d = commentFor (getIndentation (lineAt pl d.line)) d.code := rfl

/-- One round in closed form: the comment goes in above the line of the first reported diagnostic. -/
theorem round_eq (st : St)
    (hrange : ∀ d ∈ st.raw, 1 ≤ d.line ∧ d.line ≤ st.lines.length)
    (d : Diag) (ds : List Diag) (hv : visible st.lines st.raw = d :: ds) :
    addIgnoresRound st =
      { lines := insertAt st.lines (d.line - 1) (ignoreLine st.lines d), raw := st.raw.map (shiftDiag d.line) } := by
  have hd : d ∈ st.raw := (mem_visible.mp (by rw [hv]; simp)).1
  have hr := hrange d hd
  unfold addIgnoresRound
  simp only [pyLines_eq st.lines, hv, List.map_cons, applyChanges, ignoreChange]
  rw [applyChange_insert st.lines d.line _ hr.1 hr.2]

theorem round_fix (st : St) (hv : visible st.lines st.raw = []) :
    addIgnoresRound st = st := by
  unfold addIgnoresRound
  simp only [pyLines_eq st.lines, hv]

theorem diags_eq (st : St) : st.diags = visible st.lines st.raw := rfl

/-! ### The scope predicate unfolded -/

structure Inv0 (st : St) : Prop where
  range : ∀ d ∈ st.raw, 1 ≤ d.line ∧ d.line ≤ st.lines.length
  head : ∀ d ∈ st.raw, inHeader st.lines d.line = false

structure Inv (st : St) : Prop extends Inv0 st where
  one : ∀ d ∈ st.raw, ∀ e ∈ st.raw, d.line = e.line → d.code = e.code

theorem inv_of_ok {st : St} (h : AddIgnoresOK st = true) : Inv st := by
  unfold AddIgnoresOK at h
  simp only [Bool.and_eq_true, Bool.not_eq_true'] at h
  obtain ⟨⟨h3, h4⟩, h5⟩ := h
  refine ⟨⟨?_, ?_⟩, ?_⟩
  · intro d hd
    unfold InRange at h3
    have := List.all_eq_true.mp h3 d hd
    simpa using this
  · intro d hd
    unfold D16_ignoreAboveLineOne at h5
    have := List.any_eq_false.mp h5 d hd
    simpa using this
  · intro d hd e he hl
    unfold D16_twoCodesOneLine at h4
    have h4' := List.any_eq_false.mp h4 d hd
    simp only [List.any_eq_true, not_exists, not_and] at h4'
    have := h4' e he
    simp only [Bool.and_eq_true, beq_iff_eq, bne_iff_ne, ne_eq, not_and, Decidable.not_not] at this
    exact this hl

theorem ok_of_inv {st : St} (h : Inv st) : AddIgnoresOK st = true := by
  unfold AddIgnoresOK
  simp only [Bool.and_eq_true, Bool.not_eq_true']
  refine ⟨⟨?_, ?_⟩, ?_⟩
  · unfold InRange
    apply List.all_eq_true.mpr
    intro d hd
    simpa using h.range d hd
  · unfold D16_twoCodesOneLine
    apply List.any_eq_false.mpr
    intro d hd
    simp only [List.any_eq_true, not_exists, not_and]
    intro e he
    simp only [Bool.and_eq_true, beq_iff_eq, bne_iff_ne, ne_eq, not_and, Decidable.not_not]
    exact h.one d hd e he
  · unfold D16_ignoreAboveLineOne
    apply List.any_eq_false.mpr
    intro d hd
    simpa using h.head d hd

/-! ### Invariants are kept by a round -/

theorem inHeader_false_iff {lines : List Line} {p : Nat} :
    inHeader lines p = false ↔ ∃ j, j < p - 1 ∧ ∃ l, lines[j]? = some l ∧ startsHash l = false := by
  unfold inHeader
  rw [List.all_eq_false]
  constructor
  · rintro ⟨l, hl, hs⟩
    obtain ⟨j, hj, e⟩ := List.mem_iff_getElem.mp hl
    rw [List.length_take] at hj
    refine ⟨j, by omega, l, ?_, by simpa using hs⟩
    rw [List.getElem_take] at e
    rw [← e]
    exact List.getElem?_eq_getElem (by omega)
  · rintro ⟨j, hj, l, hl, hs⟩
    refine ⟨l, ?_, by simp [hs]⟩
    apply List.mem_iff_getElem?.mpr
    exact ⟨j, by rw [List.getElem?_take]; simp [hj, hl]⟩

theorem inv0_round {st : St} (h : Inv0 st) : Inv0 (addIgnoresRound st) := by
  cases hv : visible st.lines st.raw with
  | nil => rw [round_fix st hv]; exact h
  | cons d ds =>
    rw [round_eq st h.range d ds hv]
    have hd : d ∈ st.raw := (mem_visible.mp (by rw [hv]; simp)).1
    have hr := h.range d hd
    have hi : d.line - 1 ≤ st.lines.length := by omega
    refine ⟨?_, ?_⟩
    · intro e he
      obtain ⟨e0, he0, rfl⟩ := List.mem_map.mp he
      have := h.range e0 he0
      simp only [length_insertAt _ _ _ hi, shiftDiag_line]
      split <;> omega
    · intro e he
      obtain ⟨e0, he0, rfl⟩ := List.mem_map.mp he
      obtain ⟨j, hj, l, hl, hs⟩ := inHeader_false_iff.mp (h.head e0 he0)
      obtain ⟨jd, hjd, ld, hld, hsd⟩ := inHeader_false_iff.mp (h.head d hd)
      apply inHeader_false_iff.mpr
      simp only [shiftDiag_line]
      by_cases hc : d.line ≤ e0.line
      · -- the witness above `d` is also above `e0`, and it does not move
        refine ⟨jd, by simp only [hc, if_true]; omega, ld, ?_, hsd⟩
        rw [getElem?_insertAt _ _ _ hi]
        simp [hjd, hld]
      · refine ⟨j, by simp only [hc, if_false]; exact hj, l, ?_, hs⟩
        rw [getElem?_insertAt _ _ _ hi]
        have : j < d.line - 1 := by omega
        simp [this, hl]

theorem inv_round {st : St} (h : Inv st) : Inv (addIgnoresRound st) := by
  refine ⟨inv0_round h.toInv0, ?_⟩
  cases hv : visible st.lines st.raw with
  | nil => rw [round_fix st hv]; exact h.one
  | cons d ds =>
    rw [round_eq st h.range d ds hv]
    intro e he f hf hl
    obtain ⟨e0, he0, rfl⟩ := List.mem_map.mp he
    obtain ⟨f0, hf0, rfl⟩ := List.mem_map.mp hf
    rw [shiftDiag_code, shiftDiag_code]
    apply h.one e0 he0 f0 hf0
    simp only [shiftDiag_line] at hl
    split at hl <;> split at hl <;> omega

/-! ### What a round does to the reported diagnostics -/

theorem suppressed_after_round {st : St} (h : Inv st) (d : Diag) (hd : d ∈ st.raw) (e : Diag) (he : e ∈ st.raw) :
    suppressed (insertAt st.lines (d.line - 1) (ignoreLine st.lines d)) (shiftDiag d.line e) =
      (suppressed st.lines e || decide (e.line = d.line)) := by
  have hr := h.range d hd
  rw [ignoreLine_eq, suppressed_insert st.lines d.line _ d.code e hr.1 hr.2 (h.head d hd) (h.range e he).1]
  unfold suppressed
  by_cases hl : e.line = d.line
  · have hc : d.code = e.code := (h.one e he d hd hl).symm
    simp [hl, hc]
  · simp [hl]

theorem visible_after_round {st : St} (h : Inv st) (d : Diag) (ds : List Diag)
    (hv : visible st.lines st.raw = d :: ds) :
    visible (addIgnoresRound st).lines (addIgnoresRound st).raw =
      ((d :: ds).filter fun e => !decide (e.line = d.line)).map (shiftDiag d.line) := by
  have hd : d ∈ st.raw := (mem_visible.mp (by rw [hv]; simp)).1
  rw [round_eq st h.range d ds hv, ← hv]
  unfold visible
  simp only
  rw [List.filter_map, List.filter_filter]
  congr 1
  apply List.filter_congr
  intro e he
  simp only [Function.comp, suppressed_after_round h d hd e he, Bool.not_or, Bool.and_comm]

theorem visible_length_lt {st : St} (h : Inv st) (d : Diag) (ds : List Diag)
    (hv : visible st.lines st.raw = d :: ds) :
    (visible (addIgnoresRound st).lines (addIgnoresRound st).raw).length < (visible st.lines st.raw).length := by
  rw [visible_after_round h d ds hv, hv, List.length_map]
  simp only [List.filter_cons, decide_true, Bool.not_true, Bool.false_eq_true, if_false, List.length_cons]
  exact Nat.lt_succ_of_le (List.length_filter_le _ _)

theorem terminates_aux : ∀ (k : Nat) (st : St), Inv st → (visible st.lines st.raw).length ≤ k →
    ∃ n, n ≤ k ∧ (iterate n st).diags = [] ∧ Inv (iterate n st) := by
  intro k
  induction k with
  | zero =>
    intro st h hk
    refine ⟨0, Nat.le_refl _, ?_, h⟩
    simp only [iterate, diags_eq st]
    exact List.eq_nil_of_length_eq_zero (Nat.le_zero.mp hk)
  | succ k ih =>
    intro st h hk
    cases hv : visible st.lines st.raw with
    | nil =>
      refine ⟨0, Nat.zero_le _, ?_, h⟩
      simp only [iterate, diags_eq st, hv]
    | cons d ds =>
      have hlt := visible_length_lt h d ds hv
      obtain ⟨n, hn, h1, h2⟩ := ih (addIgnoresRound st) (inv_round h) (by omega)
      exact ⟨n + 1, by omega, by simpa [iterate] using h1, by simpa [iterate] using h2⟩

/-! ### Comment lines only -/

theorem codeLines_insertAt (lines : List Line) (i : Nat) (l : Line) (hl : isCommentLine l = true) :
    codeLines (insertAt lines i l) = codeLines lines := by
  unfold codeLines insertAt
  rw [List.filter_append, List.filter_cons]
  simp only [hl, Bool.not_true, Bool.false_eq_true, if_false]
  rw [← List.filter_append, List.take_append_drop]

theorem codeLines_round {st : St}
    (hrange : ∀ d ∈ st.raw, 1 ≤ d.line ∧ d.line ≤ st.lines.length) :
    codeLines (addIgnoresRound st).lines = codeLines st.lines := by
  cases hv : visible st.lines st.raw with
  | nil => rw [round_fix st hv]
  | cons d ds =>
    rw [round_eq st hrange d ds hv]
    exact codeLines_insertAt _ _ _ (by rw [ignoreLine_eq]; exact isCommentLine_comment _ _)

theorem codeLines_iterate : ∀ (n : Nat) (st : St), Inv st → codeLines (iterate n st).lines = codeLines st.lines := by
  intro n
  induction n with
  | zero => intros; rfl
  | succ n ih =>
    intro st h
    simp only [iterate]
    rw [ih _ (inv_round h), codeLines_round h.range]

/-! ### Two codes on one line: the loop never ends -/

/-- Two diagnostics with different codes on one line, neither silenced at file level or by a trailing
comment, and the line above is not a bare ignore comment. -/
def Stuck (st : St) : Prop :=
  ∃ d1 d2, d1 ∈ st.raw ∧ d2 ∈ st.raw ∧ d1.line = d2.line ∧ d1.code ≠ d2.code ∧
    fileLevel st.lines d1.code = false ∧ fileLevel st.lines d2.code = false ∧
    trailingMatch (lineAt st.lines d1.line) (some d1.code) = false ∧
    trailingMatch (lineAt st.lines d1.line) (some d2.code) = false ∧
    (strip (prevLineOf st.lines d1.line) == IC) = false

theorem stuck_visible {st : St} (hs : Stuck st) : visible st.lines st.raw ≠ [] := by
  obtain ⟨d1, d2, h1, h2, hl, hc, hf1, hf2, ht1, ht2, hp⟩ := hs
  intro hv
  have n1 : suppressed st.lines d1 = true := by
    cases hh : suppressed st.lines d1 with
    | true => rfl
    | false =>
      have : d1 ∈ visible st.lines st.raw := mem_visible.mpr ⟨h1, hh⟩
      rw [hv] at this; cases this
  have n2 : suppressed st.lines d2 = true := by
    cases hh : suppressed st.lines d2 with
    | true => rfl
    | false =>
      have : d2 ∈ visible st.lines st.raw := mem_visible.mpr ⟨h2, hh⟩
      rw [hv] at this; cases this
  unfold suppressed ownLineMatch at n1 n2
  rw [← hl] at n2
  simp only [hf1, hf2, ht1, ht2, hp, Bool.false_or, beq_iff_eq] at n1 n2
  have := n1.symm.trans n2
  have hb := coded_beq_coded d1.code d2.code
  rw [this] at hb
  simp at hb
  exact hc hb

theorem stuck_round {st : St} (h : Inv0 st) (hs : Stuck st) : Stuck (addIgnoresRound st) := by
  cases hv : visible st.lines st.raw with
  | nil => exact absurd hv (stuck_visible hs)
  | cons e es =>
    rw [round_eq st h.range e es hv]
    have he : e ∈ st.raw := (mem_visible.mp (by rw [hv]; simp)).1
    have hr := h.range e he
    obtain ⟨d1, d2, h1, h2, hl, hc, hf1, hf2, ht1, ht2, hp⟩ := hs
    have r1 := (h.range d1 h1).1
    have r2 := (h.range d2 h2).1
    refine ⟨shiftDiag e.line d1, shiftDiag e.line d2, List.mem_map_of_mem h1, List.mem_map_of_mem h2, ?_, ?_, ?_, ?_, ?_, ?_, ?_⟩
    · simp only [shiftDiag_line, hl]
    · simpa only [shiftDiag_code] using hc
    · rw [shiftDiag_code, fileLevel_insert_at_line _ _ _ _ hr.1 (h.head e he)]; exact hf1
    · rw [shiftDiag_code, fileLevel_insert_at_line _ _ _ _ hr.1 (h.head e he)]; exact hf2
    · rw [shiftDiag_code, lineAt_insert _ _ _ _ hr.1 hr.2 r1]; exact ht1
    · rw [shiftDiag_code, lineAt_insert _ _ _ _ hr.1 hr.2 r1]; exact ht2
    · rw [prevLineOf_insert _ _ _ _ hr.1 hr.2 r1]
      split
      · rw [ignoreLine_eq, strip_comment]; exact coded_ne_IC _
      · exact hp

theorem stuck_forever : ∀ (n : Nat) (st : St), Inv0 st → Stuck st → (iterate n st).diags ≠ [] := by
  intro n
  induction n with
  | zero =>
    intro st h hs
    simp only [iterate, diags_eq st]
    exact stuck_visible hs
  | succ n ih =>
    intro st h hs
    simp only [iterate]
    exact ih _ (inv0_round h) (stuck_round h hs)

theorem iterate_round (n : Nat) (st : St) : iterate n (addIgnoresRound st) = iterate (n + 1) st := rfl

theorem mainLoop_never_done (limit : Nat) : ∀ (fuel it : Nat) (st : St),
    (∀ n, (iterate n st).diags ≠ []) → ∃ st', mainLoop limit fuel it st = .limitExceeded st' := by
  intro fuel
  induction fuel with
  | zero => intro it st _; exact ⟨st, rfl⟩
  | succ fuel ih =>
    intro it st h
    have h0 : st.diags.isEmpty = false := by
      have := h 0
      simp only [iterate] at this
      cases hd : st.diags with
      | nil => exact absurd hd this
      | cons _ _ => rfl
    unfold mainLoop
    simp only [h0, Bool.false_eq_true, if_false]
    split
    · exact ⟨_, rfl⟩
    · exact ih (it + 1) (addIgnoresRound st) (fun n => by rw [iterate_round]; exact h (n + 1))

theorem inv0_of_scope {st : St} (h : AddIgnoresScope st = true) : Inv0 st := by
  unfold AddIgnoresScope at h
  simp only [Bool.and_eq_true, Bool.not_eq_true'] at h
  obtain ⟨h3, h5⟩ := h
  refine ⟨?_, ?_⟩
  · intro d hd
    unfold InRange at h3
    have := List.all_eq_true.mp h3 d hd
    simpa using this
  · intro d hd
    unfold D16_ignoreAboveLineOne at h5
    have := List.any_eq_false.mp h5 d hd
    simpa using this

theorem stuck_of_unprotected {st : St} (h : unprotectedPair st = true) : Stuck st := by
  unfold unprotectedPair at h
  obtain ⟨d1, h1, h⟩ := List.any_eq_true.mp h
  obtain ⟨d2, h2, h⟩ := List.any_eq_true.mp h
  simp only [Bool.and_eq_true, beq_iff_eq, bne_iff_ne, ne_eq, Bool.not_eq_true'] at h
  obtain ⟨⟨⟨⟨⟨⟨a, b⟩, c⟩, d⟩, e⟩, f⟩, g⟩ := h
  exact ⟨d1, d2, h1, h2, a, b, c, d, e, f, g⟩

/-! ## 5. `get_line_range_for_node` -/

theorem extend_ge (first : Line) : ∀ (ls : List Line) (last : Nat), last ≤ extend first last ls := by
  intro ls
  induction ls with
  | nil => intro last; exact Nat.le_refl _
  | cons l ls ih =>
    intro last
    unfold extend
    split
    · exact Nat.le_trans (Nat.le_succ _) (ih (last + 1))
    · exact Nat.le_refl _

theorem lineAt_eq_getElem {lines : List Line} {n : Nat} (h1 : 1 ≤ n) (h2 : n ≤ lines.length) :
    lineAt lines n = lines[n - 1]'(by omega) := by
  unfold lineAt
  rw [List.getD_eq_getElem?_getD, List.getElem?_eq_getElem (by omega)]
  rfl

/-- What the loop does when it starts at line `n` (1-based, `last = n`): stops at once if line `n` does not
exist or is not "part of the node". -/
theorem extend_stop (first : Line) (lines : List Line) (n : Nat) (hn : 1 ≤ n)
    (h : n ≤ lines.length → isPartOfSameNode first (lineAt lines n) = false) :
    extend first n (lines.drop (n - 1)) = n := by
  by_cases hl : n ≤ lines.length
  · have hlt : n - 1 < lines.length := by omega
    rw [List.drop_eq_getElem_cons hlt]
    have hu : extend first n (lines[n - 1] :: lines.drop (n - 1 + 1)) =
        if isPartOfSameNode first lines[n - 1] then extend first (n + 1) (lines.drop (n - 1 + 1)) else n := rfl
    rw [hu, ← lineAt_eq_getElem hn hl, h hl]
    simp
  · rw [List.drop_eq_nil_of_le (by omega)]
    rfl

theorem extend_step (first : Line) (lines : List Line) (n : Nat) (hn : 1 ≤ n) (hl : n ≤ lines.length)
    (h : isPartOfSameNode first (lineAt lines n) = true) :
    extend first n (lines.drop (n - 1)) = extend first (n + 1) (lines.drop n) := by
  have hlt : n - 1 < lines.length := by omega
  rw [List.drop_eq_getElem_cons hlt]
  have hu : extend first n (lines[n - 1] :: lines.drop (n - 1 + 1)) =
      if isPartOfSameNode first lines[n - 1] then extend first (n + 1) (lines.drop (n - 1 + 1)) else n := rfl
  rw [hu, ← lineAt_eq_getElem hn hl, h]
  have : n - 1 + 1 = n := by omega
  simp [this]

theorem lineRange_exact (lines : List Line) (first stmtEnd : Nat) (h1 : 1 ≤ first) (h2 : first ≤ stmtEnd)
    (h3 : stmtEnd ≤ lines.length) (hD : D16_stmtRangeOverrun lines first stmtEnd = false) :
    lineRange lines first stmtEnd = specRange first stmtEnd := by
  unfold D16_stmtRangeOverrun at hD
  simp only [Bool.and_eq_false_iff, decide_eq_false_iff_not] at hD
  have hnext : stmtEnd + 1 ≤ lines.length →
      isPartOfSameNode (lineAt lines first) (lineAt lines (stmtEnd + 1)) = false := by
    intro hh
    rcases hD with hB | hB
    · omega
    · exact hB
  unfold lineRange specRange
  have hm : max (first + 1) (stmtEnd + 1) = stmtEnd + 1 := by omega
  simp only [hm]
  have := extend_stop (lineAt lines first) lines (stmtEnd + 1) (by omega) hnext
  simp only [Nat.add_sub_cancel] at this ⊢
  rw [this]

theorem lineRange_wrong (lines : List Line) (first stmtEnd : Nat) (h1 : 1 ≤ first) (h2 : first ≤ stmtEnd)
    (h3 : stmtEnd ≤ lines.length) (hD : D16_stmtRangeOverrun lines first stmtEnd = true) :
    lineRange lines first stmtEnd ≠ specRange first stmtEnd := by
  intro e
  have hlen := congrArg List.length e
  unfold lineRange specRange at hlen
  simp only [List.length_range'] at hlen
  unfold D16_stmtRangeOverrun at hD
  simp only [Bool.and_eq_true, decide_eq_true_eq] at hD
  obtain ⟨hlt, hp⟩ := hD
  have hm : max (first + 1) (stmtEnd + 1) = stmtEnd + 1 := by omega
  rw [hm] at hlen
  have hs := extend_step (lineAt lines first) lines (stmtEnd + 1) (by omega) (by omega) hp
  simp only [Nat.add_sub_cancel] at hs hlen
  rw [hs] at hlen
  have := extend_ge (lineAt lines first) (lines.drop (stmtEnd + 1)) (stmtEnd + 1 + 1)
  omega

/-- The range never falls short of the statement any more (the defect d5dca9e repaired). -/
theorem lineRange_covers (lines : List Line) (first stmtEnd : Nat) (h2 : first ≤ stmtEnd) :
    ∀ k ∈ specRange first stmtEnd, k ∈ lineRange lines first stmtEnd := by
  intro k hk
  unfold specRange at hk
  unfold lineRange
  rw [List.mem_range'_1] at hk ⊢
  have hm : max (first + 1) (stmtEnd + 1) = stmtEnd + 1 := by omega
  simp only [hm]
  have := extend_ge (lineAt lines first) (lines.drop (stmtEnd + 1 - 1)) (stmtEnd + 1)
  omega

/-! ### Applying a replacement that names a whole block of lines -/

theorem keepNot_all (ks : List Nat) : ∀ (xs : List Line) (i : Nat),
    (∀ j, i ≤ j → j < i + xs.length → j ∈ ks) → keepNot ks i xs = [] := by
  intro xs
  induction xs with
  | nil => intros; rfl
  | cons x xs ih =>
    intro i h
    have : ks.contains i = true := by
      simp only [List.contains_eq_mem, decide_eq_true_eq]
      exact h i (Nat.le_refl _) (by simp)
    simp only [keepNot, this, if_true]
    apply ih
    intro j h1 h2
    exact h j (by omega) (by simp only [List.length_cons]; omega)

theorem applyChange_range (lines : List Line) (first stmtEnd : Nat) (adds : List Line) (h1 : 1 ≤ first)
    (h2 : first ≤ stmtEnd) (h3 : stmtEnd ≤ lines.length) :
    applyChanges [⟨specRange first stmtEnd, some adds⟩] lines =
      .ok (lines.take (first - 1) ++ adds ++ lines.drop stmtEnd) := by
  have hmem : ∀ k, k ∈ specRange first stmtEnd ↔ first ≤ k ∧ k ≤ stmtEnd := by
    intro k
    unfold specRange
    rw [List.mem_range'_1]
    omega
  have hwf : ChangeWF lines (specRange first stmtEnd) = true := by
    rw [changeWF_iff]
    refine ⟨?_, ?_, ?_⟩
    · intro e
      have := (hmem first).mpr ⟨Nat.le_refl _, h2⟩
      rw [e] at this
      cases this
    · intro k hk
      have := (hmem k).mp hk
      omega
    · unfold specRange; exact List.nodup_range'
  show applyChange lines (specRange first stmtEnd) adds = _
  rw [applyChange_spec lines _ adds hwf]
  congr 1
  have hne : specRange first stmtEnd ≠ [] := (changeWF_iff.mp hwf).1
  have hmax : maxOf (specRange first stmtEnd) = stmtEnd := by
    have ha := (hmem _).mp (maxOf_mem hne (fun k hk => by have := (hmem k).mp hk; omega))
    have hb := maxOf_ge ((hmem stmtEnd).mpr ⟨h2, Nat.le_refl _⟩)
    omega
  unfold specApply
  rw [hmax]
  have hsplit : lines.take stmtEnd = lines.take (first - 1) ++ (lines.take stmtEnd).drop (first - 1) := by
    have := (List.take_append_drop (first - 1) (lines.take stmtEnd)).symm
    rw [List.take_take] at this
    have hmin : min (first - 1) stmtEnd = first - 1 := by omega
    rw [hmin] at this
    exact this
  have hl : (lines.take (first - 1)).length = first - 1 := by rw [List.length_take]; omega
  rw [hsplit, keepNot_append, hl]
  rw [keepNot_none _ (lines.take (first - 1)) 1 (by
    intro k hk
    have := (hmem k).mp hk
    right; rw [hl]; omega)]
  rw [keepNot_all _ _ (1 + (first - 1)) (by
    intro j hj1 hj2
    apply (hmem j).mpr
    simp only [List.length_drop, List.length_take] at hj2
    omega)]
  simp
/-! ## 6. The line lexer: comment-only lines are invisible at a safe start -/

theorem scan_comment (d : Nat) : ∀ (l : Line), scan (.comment d) l = .comment d := by
  intro l
  induction l with
  | nil => rfl
  | cons c cs ih => simp only [scan, step]; exact ih

theorem space_ne (c x : Char) (hx : isSpace x = false) (h : isSpace c = true) : (c == x) = false := by
  cases hh : c == x with
  | false => rfl
  | true => rw [beq_iff_eq.mp hh, hx] at h; cases h

theorem step_space (d : Nat) (c : Char) (cs : Line) (h : isSpace c = true) : step (.code d) c cs = .code d := by
  have h1 := space_ne c '#' (by decide) h
  have h2 := space_ne c '\\' (by decide) h
  have h3 := space_ne c '\'' (by decide) h
  have h4 := space_ne c '"' (by decide) h
  have h5 := space_ne c '(' (by decide) h
  have h6 := space_ne c '[' (by decide) h
  have h7 := space_ne c '{' (by decide) h
  have h8 := space_ne c ')' (by decide) h
  have h9 := space_ne c ']' (by decide) h
  have h10 := space_ne c '}' (by decide) h
  simp [step, isQuote, h1, h2, h3, h4, h5, h6, h7, h8, h9, h10]

theorem scan_commentLine (d : Nat) : ∀ (l : Line), isCommentLine l = true → scan (.code d) l = .comment d := by
  intro l
  induction l with
  | nil => intro h; simp [isCommentLine, lstrip] at h
  | cons c cs ih =>
    intro h
    unfold isCommentLine lstrip at h
    by_cases hs : isSpace c = true
    · simp only [List.dropWhile_cons, hs, if_true] at h
      simp only [scan, step_space d c cs hs]
      exact ih h
    · simp only [List.dropWhile_cons, hs, Bool.false_eq_true, if_false, List.head?_cons, beq_iff_eq,
        Option.some.injEq] at h
      subst h
      simp only [scan]
      have : step (.code d) '#' cs = .comment d := by simp [step]
      rw [this]
      exact scan_comment d cs

theorem scanLine_commentLine (st : Lex) (l : Line) (hs : st.safeStart = true) (hl : isCommentLine l = true) :
    scanLine st l = st := by
  cases st with
  | code d => simp [scanLine, Lex.enter, scan_commentLine d l hl, Mode.atEol]
  | cont d => simp [Lex.safeStart] at hs
  | single q d => simp [Lex.safeStart] at hs
  | triple q d => simp [Lex.safeStart] at hs

theorem lexTrace_append : ∀ (a b : List Line) (st : Lex),
    lexTrace st (a ++ b) = lexTrace st a ++ lexTrace (a.foldl scanLine st) b := by
  intro a
  induction a with
  | nil => intros; rfl
  | cons x xs ih =>
    intro b st
    simp only [List.cons_append, lexTrace, List.foldl_cons, ih]
    split <;> simp

/-- Inserting a comment-only line where a physical line starts between tokens leaves the trace alone. -/
theorem lexTrace_insert (lines : List Line) (p : Nat) (c : Line) (hc : isCommentLine c = true)
    (hs : (lexStateAt lines p).safeStart = true) :
    lexTrace (.code 0) (insertAt lines (p - 1) c) = lexTrace (.code 0) lines := by
  unfold insertAt
  unfold lexStateAt at hs
  conv => rhs; rw [← List.take_append_drop (p - 1) lines]
  rw [lexTrace_append, lexTrace_append]
  congr 1
  simp only [lexTrace, hs, hc, Bool.and_self, if_true]
  rw [scanLine_commentLine _ c hs hc]

theorem safeStart_of_not_D {lines : List Line} {p : Nat} (h1 : insideStringAt lines p = false)
    (h2 : afterBackslashAt lines p = false) : (lexStateAt lines p).safeStart = true := by
  unfold insideStringAt at h1
  unfold afterBackslashAt at h2
  cases h : lexStateAt lines p with
  | code d => rfl
  | cont d => rw [h] at h2; simp at h2
  | single q d => rw [h] at h1; simp at h1
  | triple q d => rw [h] at h1; simp at h1

/-! ## 7. `NodeTransformer.generic_visit` -/

mutual
  theorem visit_noHook : ∀ t : Tree, visit noHook t = .tree t
    | .mk k i fs => by
      have := copyFields_noHook fs
      simp only [visit, noHook, this]
  theorem copyFields_noHook : ∀ fs : FieldList, copyFields noHook fs = fs
    | .nil => rfl
    | .cons n f rest => by
      simp only [copyFields, copyField_noHook f, copyFields_noHook rest]
  theorem copyField_noHook : ∀ f : Field, copyField noHook f = f
    | .leaf v => rfl
    | .child t => by simp only [copyField, visit_noHook t]
    | .many items => by simp only [copyField, copyItems_noHook items]
  theorem copyItems_noHook : ∀ items : ItemList, copyItems noHook items = items
    | .nil => rfl
    | .cons .none rest => by simp only [copyItems, copyItems_noHook rest]
    | .cons (.val v) rest => by simp only [copyItems, copyItems_noHook rest]
    | .cons (.tree t) rest => by simp only [copyItems, visit_noHook t, copyItems_noHook rest]
end

mutual
  theorem visit_replace (target : Nat) (r : Tree) : ∀ t : Tree,
      visit (replaceHook target r) t = .tree (substTree target r t)
    | .mk k i fs => by
      by_cases h : (i == target) = true
      · simp [visit, replaceHook, Tree.id, substTree, h]
      · have := copyFields_replace target r fs
        simp [visit, replaceHook, Tree.id, substTree, h, this]
  theorem copyFields_replace (target : Nat) (r : Tree) : ∀ fs : FieldList,
      copyFields (replaceHook target r) fs = substFields target r fs
    | .nil => rfl
    | .cons n f rest => by
      simp only [copyFields, substFields, copyField_replace target r f, copyFields_replace target r rest]
  theorem copyField_replace (target : Nat) (r : Tree) : ∀ f : Field,
      copyField (replaceHook target r) f = substField target r f
    | .leaf v => rfl
    | .child t => by simp only [copyField, substField, visit_replace target r t]
    | .many items => by simp only [copyField, substField, copyItems_replace target r items]
  theorem copyItems_replace (target : Nat) (r : Tree) : ∀ items : ItemList,
      copyItems (replaceHook target r) items = substItems target r items
    | .nil => rfl
    | .cons .none rest => by simp only [copyItems, substItems, copyItems_replace target r rest]
    | .cons (.val v) rest => by simp only [copyItems, substItems, copyItems_replace target r rest]
    | .cons (.tree t) rest => by
      simp only [copyItems, substItems, visit_replace target r t, copyItems_replace target r rest]
end

mutual
  theorem substTree_absent (target : Nat) (r : Tree) : ∀ t : Tree, occursTree target t = false → substTree target r t = t
    | .mk k i fs => by
      intro h
      simp only [occursTree, Bool.or_eq_false_iff] at h
      simp [substTree, h.1, substFields_absent target r fs h.2]
  theorem substFields_absent (target : Nat) (r : Tree) : ∀ fs : FieldList,
      occursFields target fs = false → substFields target r fs = fs
    | .nil => fun _ => rfl
    | .cons n f rest => by
      intro h
      simp only [occursFields, Bool.or_eq_false_iff] at h
      simp only [substFields, substField_absent target r f h.1, substFields_absent target r rest h.2]
  theorem substField_absent (target : Nat) (r : Tree) : ∀ f : Field,
      occursField target f = false → substField target r f = f
    | .leaf v => fun _ => rfl
    | .child t => by
      intro h
      simp only [occursField] at h
      simp only [substField, substTree_absent target r t h]
    | .many items => by
      intro h
      simp only [occursField] at h
      simp only [substField, substItems_absent target r items h]
  theorem substItems_absent (target : Nat) (r : Tree) : ∀ items : ItemList,
      occursItems target items = false → substItems target r items = items
    | .nil => fun _ => rfl
    | .cons .none rest => by
      intro h
      simp only [occursItems] at h
      simp only [substItems, substItems_absent target r rest h]
    | .cons (.val v) rest => by
      intro h
      simp only [occursItems] at h
      simp only [substItems, substItems_absent target r rest h]
    | .cons (.tree t) rest => by
      intro h
      simp only [occursItems, Bool.or_eq_false_iff] at h
      simp only [substItems, substTree_absent target r t h.1, substItems_absent target r rest h.2]
end

theorem noneMask_subst (target : Nat) (r : Tree) : ∀ items : ItemList,
    noneMask (substItems target r items) = noneMask items
  | .nil => rfl
  | .cons .none rest => by simp only [substItems, noneMask, noneMask_subst target r rest]
  | .cons (.val v) rest => by simp only [substItems, noneMask, noneMask_subst target r rest]
  | .cons (.tree t) rest => by simp only [substItems, noneMask, noneMask_subst target r rest]
/-! ## 8. Removing a statement: bindings -/

theorem topLevelOk_cons (t : Target) (rest : TargetList) (v : List String)
    (h : AssignStmt.topLevelOk ⟨.cons t rest, v⟩ = true) : (t.kind != "Starred") = true := by
  unfold AssignStmt.topLevelOk AssignStmt.topLevelOk.go at h
  simp only [Bool.and_eq_true] at h
  exact h.1

/-- **Tie to the live guard.** Whatever the regenerated guard accepts binds at most one name through its
target list. (Proved against `Gen.removalGuard` as generated from the current source; an edit of the
Python condition that admits chained or unpacking targets breaks this proof.) -/
theorem removalGuard_single_target_binding (s : AssignStmt) (u : String)
    (hg : Gen.removalGuard s u = true) (hw : s.topLevelOk = true) :
    ∀ x ∈ s.targets.binds, ∀ y ∈ s.targets.binds, x = y := by
  obtain ⟨targets, v⟩ := s
  unfold Gen.removalGuard at hg
  cases targets with
  | nil => simp [TargetList.length] at hg
  | cons t rest =>
    cases rest with
    | cons t2 r2 => simp [TargetList.length] at hg
    | nil =>
      have hk := topLevelOk_cons t .nil v hw
      cases t with
      | name x =>
        intro a ha b hb
        simp [TargetList.binds, Target.binds] at ha hb
        rw [ha, hb]
      | tuple ts => simp [TargetList.length, TargetList.nth, Target.isKind, Target.kind] at hg
      | list ts => simp [TargetList.length, TargetList.nth, Target.isKind, Target.kind] at hg
      | starred t => simp [Target.kind] at hk
      | other k =>
        intro a ha
        simp [TargetList.binds, Target.binds] at ha

/-- **Tie to the live guard (since 21e29d0).** What the regenerated guard accepts contains no `:=`. -/
theorem removalGuard_no_value_binds (s : AssignStmt) (u : String) (hg : Gen.removalGuard s u = true) :
    s.valueBinds = [] := by
  unfold Gen.removalGuard at hg
  simp only [Bool.and_eq_true, Bool.not_eq_true', Bool.not_eq_false', List.isEmpty_iff] at hg
  exact hg.2

theorem undefReads_congr : ∀ (p : List Stmt) (e1 e2 : List String), (∀ x, e1.contains x = e2.contains x) →
    undefReads e1 p = undefReads e2 p := by
  intro p
  induction p with
  | nil => intros; rfl
  | cons s rest ih =>
    intro e1 e2 h
    simp only [undefReads]
    congr 1
    · apply List.filter_congr
      intro x _
      rw [h x]
    · apply ih
      intro x
      simp only [List.contains_eq_mem, List.mem_append] at h ⊢
      have := h x
      simp only [decide_eq_decide] at this ⊢
      rw [this]

theorem undefReads_append : ∀ (a b : List Stmt) (env : List String),
    undefReads env (a ++ b) = undefReads env a ++ undefReads (env ++ bindsOf a) b := by
  intro a
  induction a with
  | nil => intro b env; simp [undefReads, bindsOf]
  | cons s rest ih =>
    intro b env
    simp only [List.cons_append, undefReads, ih, bindsOf, List.append_assoc]

/-- Bindings nobody reads are irrelevant to how the rest of the program resolves its names. -/
theorem undefReads_irrelevant (bs : List String) : ∀ (post : List Stmt) (env : List String),
    (∀ x ∈ bs, x ∉ readsOf post) → undefReads (env ++ bs) post = undefReads env post := by
  intro post
  induction post with
  | nil => intros; rfl
  | cons s rest ih =>
    intro env h
    simp only [undefReads]
    congr 1
    · apply List.filter_congr
      intro x hx
      have : x ∉ bs := fun hb => h x hb (by simp [readsOf, hx])
      simp [this]
    · rw [undefReads_congr rest (env ++ bs ++ s.binds) (env ++ s.binds ++ bs) (by
        intro x
        simp only [List.contains_eq_mem, List.mem_append, decide_eq_decide]
        constructor <;> (intro hh; rcases hh with (hh | hh) | hh <;> simp [hh]))]
      apply ih
      intro x hx hr
      exact h x hx (by simp [readsOf, hr])

theorem not_undef_of_env : ∀ (p : List Stmt) (env : List String) (x : String), x ∈ env → x ∉ undefReads env p := by
  intro p
  induction p with
  | nil => intro env x _ h; simp [undefReads] at h
  | cons s rest ih =>
    intro env x hx h
    simp only [undefReads, List.mem_append, List.mem_filter] at h
    rcases h with h | h
    · simp [hx] at h
    · exact ih (env ++ s.binds) x (by simp [hx]) h
/-! ## 9. Fix routes and node kinds -/

theorem routes_registered : Gen.fixRoutes = pinnedRoutes := by decide +kernel

theorem routes_kind_ok : Gen.fixRoutes.all routeKindOk = true := by decide +kernel

theorem rootKind_subst (target : Nat) (r : Tree) (t : Tree) :
    rootKind (substTree target r t) = if t.id == target then rootKind r else rootKind t := by
  cases t with
  | mk k i fs =>
    simp only [substTree, Tree.id]
    by_cases h : (i == target) = true
    · simp [h]
    · simp [h, rootKind]

theorem itemCats_subst (cat : String → String) (target : Nat) (r : Tree) : ∀ items : ItemList,
    rootsKindOk cat target r items = true → itemCats cat (substItems target r items) = itemCats cat items
  | .nil => fun _ => rfl
  | .cons .none rest => by
    intro h
    simp only [rootsKindOk] at h
    simp only [substItems, itemCats, itemCats_subst cat target r rest h]
  | .cons (.val v) rest => by
    intro h
    simp only [rootsKindOk] at h
    simp only [substItems, itemCats, itemCats_subst cat target r rest h]
  | .cons (.tree t) rest => by
    intro h
    simp only [rootsKindOk, Bool.and_eq_true, Bool.or_eq_true, bne_iff_ne, ne_eq, beq_iff_eq] at h
    simp only [substItems, itemCats, itemCats_subst cat target r rest h.2, rootKind_subst]
    congr 1
    by_cases hi : (t.id == target) = true
    · simp only [hi, if_true]
      rcases h.1 with h1 | h1
      · exact absurd (beq_iff_eq.mp hi) h1
      · exact h1.symm
    · simp [hi]

end Pya.C16
