import PyaModel.Core.NodeCopy
/-!
# Proofs/C16Routes — the pinned registry of fix routes

Hand-maintained copy of `Generated/FixRoutes.lean` as regenerated from the tree this check was last adapted to
(/repo HEAD after 2d2e8a7 / efac5a4).  `fix_routes_registered` (Props/C16.lean) proves the live registry equal to it: a
dropped or changed guard, a new producer call or a new caller of a producer breaks that obligation, which sends the
check into its widened search.  After a reviewed change of the producers: copy the regenerated table here.
-/
namespace Pya.C16

def pinnedRoutes : List Pya.C16.Route := [
  { file := "asynq_checker.py", func := "AsynqChecker._show_impure_async_error", call := "replace_node", target := "node", targetKind := "other:AST", replKind := "unknown",
    guards := ["not (replacement_node is None)"],
    callers := ["asynq_checker.py:AsynqChecker.check_call(node)"] },
  { file := "name_check_visitor.py", func := "NameCheckVisitor._check_function_unused_vars", call := "remove_node", target := "unused", targetKind := "expr:Name", replKind := "-",
    guards := ["not (not isinstance(unused, ast.Name) or not self._is_write_ctx(unused.ctx))", "not (unused.id.startswith('_'))", "not (unused.id in scope.accessed_from_special_nodes)", "(self._name_node_to_statement is not None)", "(isinstance(statement, ast.Assign))", "(len(statement.targets) == 1 and (not isinstance(statement.targets[0], (ast.List, ast.Tuple))) and (not any((isinstance(n, ast.NamedExpr) for n in ast.walk(statement)))))"],
    callers := ["name_check_visitor.py:NameCheckVisitor._visit_function_body(scope)", "name_check_visitor.py:NameCheckVisitor._visit_sequence_comp(scope)"] },
  { file := "name_check_visitor.py", func := "NameCheckVisitor._check_function_unused_vars", call := "replace_node", target := "unused", targetKind := "expr:Name", replKind := "expr:Name",
    guards := ["not (not isinstance(unused, ast.Name) or not self._is_write_ctx(unused.ctx))", "not (unused.id.startswith('_'))", "not (unused.id in scope.accessed_from_special_nodes)", "(self._name_node_to_statement is not None)", "not (isinstance(statement, ast.Assign))", "(isinstance(statement, ast.comprehension))", "not (isinstance(statement.target, ast.Tuple))"],
    callers := ["name_check_visitor.py:NameCheckVisitor._visit_function_body(scope)", "name_check_visitor.py:NameCheckVisitor._visit_sequence_comp(scope)"] },
  { file := "name_check_visitor.py", func := "NameCheckVisitor._maybe_show_missing_f_error", call := "replace_node", target := "node", targetKind := "expr:Constant", replKind := "unknown",
    guards := ["not (isinstance(s, bytes))", "not ('{' not in s)", "(names and all((self._name_exists(name) for name in names)))"],
    callers := ["name_check_visitor.py:NameCheckVisitor.visit_Constant(node, node.value)"] },
  { file := "name_check_visitor.py", func := "NameCheckVisitor._visit_binop_internal", call := "replace_node", target := "source_node", targetKind := "expr:BinOp", replKind := "unknown",
    guards := ["(isinstance(op, ast.Mod) and isinstance(left, KnownValue) and isinstance(left.val, (bytes, str)))", "(replacement_node is not None and isinstance(source_node, ast.BinOp))"],
    callers := ["name_check_visitor.py:NameCheckVisitor._visit_single_compare(lhs_node, Composite(lhs), op)", "name_check_visitor.py:NameCheckVisitor._visit_single_compare(rhs_node, Composite(rhs), op)", "name_check_visitor.py:NameCheckVisitor.visit_AugAssign(node.target, lhs, node.op)", "name_check_visitor.py:NameCheckVisitor.visit_BinOp(node.left, left, node.op)"] },
  { file := "name_check_visitor.py", func := "NameCheckVisitor.visit_Expr", call := "replace_node", target := "node", targetKind := "stmt:Expr", replKind := "stmt:Expr",
    guards := ["(_is_asynq_future(value))"],
    callers := [] },
  { file := "name_check_visitor.py", func := "NameCheckVisitor.visit_Expr", call := "replace_node", target := "node", targetKind := "stmt:Expr", replKind := "stmt:Expr",
    guards := ["not (_is_asynq_future(value))", "(value.is_type(collections.abc.Awaitable) or value.is_type(asyncio.Future))"],
    callers := [] },
  { file := "node_visitor.py", func := "BaseNodeVisitor.show_error", call := "Replacement", target := "[lineno]", targetKind := "unknown", replKind := "-",
    guards := ["not (self.caught_errors is not None)", "not (error_code is not None and (not self.is_enabled(error_code)))", "not (self.has_file_level_ignore(error_code, ignore_comment))", "not (key in self.seen_errors)", "(lineno is not None and self._changes_for_fixer is not None)", "(self.add_ignores)"],
    callers := [] },
  { file := "node_visitor.py", func := "BaseNodeVisitor.show_error", call := "Replacement", target := "[lineno]", targetKind := "unknown", replKind := "-",
    guards := ["not (self.caught_errors is not None)", "not (error_code is not None and (not self.is_enabled(error_code)))", "not (self.has_file_level_ignore(error_code, ignore_comment))", "not (key in self.seen_errors)", "(lineno is not None and self._changes_for_fixer is not None)", "not (self.add_ignores)", "not (replacement is not None)"],
    callers := [] },
  { file := "node_visitor.py", func := "BaseNodeVisitor.show_error", call := "_changes_for_fixer", target := "-", targetKind := "unknown", replKind := "-",
    guards := ["not (self.caught_errors is not None)", "not (error_code is not None and (not self.is_enabled(error_code)))", "not (self.has_file_level_ignore(error_code, ignore_comment))", "not (key in self.seen_errors)", "(lineno is not None and self._changes_for_fixer is not None)"],
    callers := [] },
  { file := "node_visitor.py", func := "BaseNodeVisitor.show_errors_for_unused_ignores", call := "Replacement", target := "[i + 1]", targetKind := "unknown", replKind := "-",
    guards := ["(stripped == IGNORE_COMMENT or re.match(f'^{re.escape(IGNORE_COMMENT)}\\\\[[^\\\\s\\\\]]+\\\\]$', stripped))"],
    callers := ["name_check_visitor.py:NameCheckVisitor.check(ErrorCode.unused_ignore)"] },
  { file := "node_visitor.py", func := "BaseNodeVisitor.show_errors_for_unused_ignores", call := "Replacement", target := "[i + 1]", targetKind := "unknown", replKind := "-",
    guards := ["not (stripped == IGNORE_COMMENT or re.match(f'^{re.escape(IGNORE_COMMENT)}\\\\[[^\\\\s\\\\]]+\\\\]$', stripped))"],
    callers := ["name_check_visitor.py:NameCheckVisitor.check(ErrorCode.unused_ignore)"] },
  { file := "node_visitor.py", func := "ReplacingNodeVisitor.remove_node", call := "Replacement", target := "lines_to_remove", targetKind := "unknown", replKind := "-",
    guards := ["not (current_statement is None)"],
    callers := ["name_check_visitor.py:NameCheckVisitor._check_function_unused_vars(unused, statement)"] },
  { file := "node_visitor.py", func := "ReplacingNodeVisitor.replace_node", call := "Replacement", target := "lines_to_remove", targetKind := "unknown", replKind := "-",
    guards := ["not (current_statement is None)"],
    callers := ["asynq_checker.py:AsynqChecker._show_impure_async_error(node, replacement_node)", "name_check_visitor.py:NameCheckVisitor._check_function_unused_vars(unused, ast.Name(id='_', ctx=ast.Store()), enclosing_statement)", "name_check_visitor.py:NameCheckVisitor._maybe_show_missing_f_error(node, stmt.value)", "name_check_visitor.py:NameCheckVisitor._visit_binop_internal(source_node, replacement_node)", "name_check_visitor.py:NameCheckVisitor.visit_Expr(node, new_node)", "signature.py:Signature.maybe_show_too_many_pos_args_error(node, new_node)", "yield_checker.py:YieldChecker._move_out_var_from_yield(yield_info.yield_node, name_node)"] },
  { file := "signature.py", func := "Signature.maybe_show_too_many_pos_args_error", call := "replace_node", target := "node", targetKind := "expr:Call", replKind := "expr:Call",
    guards := ["not (ctx.visitor is None)", "not (len(node.args) < ctx.visitor.options.get_value_for(MaximumPositionalArgs))"],
    callers := ["signature.py:Signature.check_call_preprocessed()"] },
  { file := "yield_checker.py", func := "YieldChecker._check_for_duplicate_yields", call := "Replacement", target := "lines_to_delete", targetKind := "unknown", replKind := "-",
    guards := ["not (not isinstance(node.value, ast.Tuple) or len(node.value.elts) < 2)", "not (not duplicate_indices)", "(new_nodes is not None)"],
    callers := ["yield_checker.py:YieldChecker.check_yield(node, self.visitor.current_statement)"] },
  { file := "yield_checker.py", func := "YieldChecker._create_replacement_for_yield_nodes", call := "Replacement", target := "linenos_to_delete", targetKind := "unknown", replKind := "-",
    guards := ["not (first_yield.is_assign_or_expr() and second_yield.is_assign_or_expr())", "not (first_yield.is_assign_or_expr())", "not (replace_first is None)"],
    callers := ["yield_checker.py:YieldChecker.show_unnecessary_yield_error(node, current_statement)"] },
  { file := "yield_checker.py", func := "YieldChecker._create_replacement_for_yield_nodes", call := "Replacement", target := "to_delete", targetKind := "unknown", replKind := "-",
    guards := ["(first_yield.is_assign_or_expr() and second_yield.is_assign_or_expr())", "not (adjacent)", "not (first_yield.get_indentation() != second_yield.get_indentation())"],
    callers := ["yield_checker.py:YieldChecker.show_unnecessary_yield_error(node, current_statement)"] },
  { file := "yield_checker.py", func := "YieldChecker._create_replacement_for_yield_nodes", call := "Replacement", target := "to_delete", targetKind := "unknown", replKind := "-",
    guards := ["not (first_yield.is_assign_or_expr() and second_yield.is_assign_or_expr())", "(first_yield.is_assign_or_expr())", "not (replace_yield is None)"],
    callers := ["yield_checker.py:YieldChecker.show_unnecessary_yield_error(node, current_statement)"] },
  { file := "yield_checker.py", func := "YieldChecker._merge_assign_nodes", call := "Replacement", target := "lines_to_delete", targetKind := "unknown", replKind := "-",
    guards := [],
    callers := ["yield_checker.py:YieldChecker._create_replacement_for_yield_nodes(first_yield, second_yield)"] },
  { file := "yield_checker.py", func := "YieldChecker._move_out_var_from_yield", call := "replace_node", target := "yield_info.yield_node", targetKind := "unknown", replKind := "expr:Name",
    guards := [],
    callers := ["yield_checker.py:YieldChecker._create_replacement_for_yield_nodes(first_yield, indentation)", "yield_checker.py:YieldChecker._create_replacement_for_yield_nodes(second_yield, indentation)"] },
  { file := "yield_checker.py", func := "YieldChecker.record_call", call := "Replacement", target := "[i + 1]", targetKind := "unknown", replKind := "-",
    guards := ["not (self.current_function_node is None or not self.in_non_async_yield or (not self._is_async_call(value, node.func)) or (self.current_function_node in self.alerted_nodes))", "not (isinstance(self.current_function_node, (ast.Lambda, ast.AsyncFunctionDef)))"],
    callers := ["name_check_visitor.py:NameCheckVisitor.record_call(callable, arguments)", "name_check_visitor.py:NameCheckVisitor.visit_Call(callee_wrapped, node)", "name_check_visitor.py:NameCheckVisitor.visit_Call(caller, callee_val)", "signature.py:Signature.check_call_with_bound_args(self.callable, variables)"] }
]

end Pya.C16
