import PyaModel.Spec.CpyFormat
/-!
# Proofs/C17 — helper lemmas

Part 1: the regex scanner (`specAt`) and CPython's directive parser (`cpyDirAt`) agree on every
directive that is outside the lexical exception classes (empty key, `(` inside a key, `.` without
digits) — `local_eq`; hence the two tokenisations of a whole template agree (`sync_fwd`,
`sync_bwd`).
Part 2: running the directives against the argument: tuple mode and mapping mode.
-/
namespace Pya.C17

/-! ## Part 1 — lexical agreement -/
def wpNum : WP → Nat
  | .num n => n
  | _ => 0
def dirOf (s : CSpec) : Dir := ⟨s.key, s.width == .star, wpNum s.width, s.prec == .star, wpNum s.prec, s.conv⟩
def dirOfOpt (s : CSpec) : Option Dir :=
  if s.conv == '%' && !s.hasOpts then none else some (dirOf s)
def dirsOf (ss : List CSpec) : List Dir := ss.filterMap dirOfOpt
theorem isDigitCh_eq : isDigitCh = Char.isDigit := rfl
theorem cpyIsFlag_eq : cpyIsFlag = isFlagCh := by
  funext c; simp only [cpyIsFlag, isFlagCh]; ac_rfl
theorem take_nil_drop (p : Char → Bool) (r : List Char) (h : takeWhileC p r = []) :
    dropWhileC p r = r := by
  cases r with
  | nil => rfl
  | cons c r => by_cases hp : p c = true <;> simp_all [takeWhileC, dropWhileC]
theorem width_eq (r : List Char) :
    cpyWidth r = ((reStarOrNum r).1 == .star, wpNum (reStarOrNum r).1, (reStarOrNum r).2) := by
  unfold cpyWidth reStarOrNum
  split
  · rfl
  · rename_i hns
    split
    · exact absurd rfl (hns _)
    · rw [← isDigitCh_eq]
      cases h : takeWhileC isDigitCh r with
      | nil => simp [numOf, wpNum, take_nil_drop _ _ h]
      | cons d ds => simp [wpNum]

theorem len_eq (r : List Char) : cpyLen r = (reLen r).2 := by
  unfold cpyLen reLen
  cases r with
  | nil => rfl
  | cons c r => simp only [isLenCh]; split <;> simp_all

/-- precision stage: outside `dotHere`, either the text is exactly "." (both parsers then fail)
or the two parsers agree. -/
theorem prec_eq (r : List Char) (h : dotHere r = false) :
    r = ['.'] ∨ cpyPrec r = ((rePrec r).1 == .star, wpNum (rePrec r).1, (rePrec r).2) := by
  cases r with
  | nil => right; rfl
  | cons c r =>
    by_cases hc : c = '.'
    · subst hc
      cases r with
      | nil => left; rfl
      | cons c2 r2 =>
        right
        by_cases hs : c2 = '*'
        · subst hs; rfl
        · have hd : c2.isDigit = true := by
            simp [dotHere, hs] at h; exact h
          have ht : takeWhileC isDigitCh (c2 :: r2) = c2 :: takeWhileC isDigitCh r2 := by
            simp [takeWhileC, isDigitCh, hd]
          have h1 : reStarOrNum (c2 :: r2) =
              (.num (numOf (c2 :: takeWhileC isDigitCh r2)), dropWhileC isDigitCh (c2 :: r2)) := by
            unfold reStarOrNum
            split
            · rename_i heq; cases heq; exact absurd rfl hs
            · rw [ht]
          have h2 : cpyPrec ('.' :: c2 :: r2) =
              (false, numOf (takeWhileC Char.isDigit (c2 :: r2)), dropWhileC Char.isDigit (c2 :: r2)) := by
            unfold cpyPrec
            split
            · rename_i heq; cases heq; exact absurd rfl hs
            · rename_i heq; cases heq; rfl
            · rename_i hno; exact absurd rfl (hno _)
          rw [h2]
          simp only [rePrec, h1, ← isDigitCh_eq, ht, wpNum]
          rfl
    · right
      have h1 : cpyPrec (c :: r) = (false, 0, c :: r) := by
        unfold cpyPrec
        split
        · rename_i heq; cases heq; exact absurd rfl hc
        · rename_i heq; cases heq; exact absurd rfl hc
        · rfl
      have h2 : rePrec (c :: r) = (.none, c :: r) := by
        unfold rePrec
        split
        · rename_i heq; cases heq; exact absurd rfl hc
        · rfl
      rw [h1, h2]; rfl

theorem tail_eq (key : Option (List Char)) (r1 : List Char) (h : dotTail r1 = false) :
    (specTail key r1).map (fun x => (dirOf x.1, x.2)) =
      (cpyTail key r1).filter (fun x => isConvCh x.1.conv) := by
  unfold dotTail at h
  unfold specTail cpyTail
  rw [cpyIsFlag_eq, width_eq]
  simp only []
  rcases prec_eq _ h with hdot | hp
  · rw [hdot]
    simp [rePrec, reStarOrNum, takeWhileC, reLen, isLenCh, cpyPrec, cpyLen, dropWhileC, isConvCh]
  · rw [hp, len_eq]
    simp only []
    cases hl : (reLen (rePrec (reStarOrNum (dropWhileC isFlagCh r1)).2).2).2 with
    | nil => rfl
    | cons c rest =>
      by_cases hc : isConvCh c = true <;> simp [hc, dirOf, Option.filter]

theorem drop_head (p : Char → Bool) (r : List Char) (c : Char) (r' : List Char)
    (h : dropWhileC p r = c :: r') : p c = false := by
  induction r with
  | nil => simp [dropWhileC] at h
  | cons d r ih =>
    by_cases hp : p d = true
    · simp [dropWhileC, hp] at h; exact ih h
    · simp [dropWhileC, hp] at h; obtain ⟨rfl, _⟩ := h; simpa using hp

/-- Without `(` before the first `)`, the parenthesis counter never leaves 0. -/
theorem keyAux_noparen (r : List Char) (h : (takeWhileC notRParen r).contains '(' = false) :
    cpyKeyAux 0 r =
      match dropWhileC notRParen r with
      | [] => none
      | _ :: r'' => some (takeWhileC notRParen r, r'') := by
  induction r with
  | nil => rfl
  | cons c r ih =>
    by_cases hc : c = ')'
    · subst hc; simp [cpyKeyAux, dropWhileC, takeWhileC, notRParen]
    · have hn : notRParen c = true := by simp [notRParen, hc]
      have hp : c ≠ '(' := by
        intro hp; subst hp; simp [takeWhileC, hn] at h
      have h' : (takeWhileC notRParen r).contains '(' = false := by
        simp [takeWhileC, hn] at h; simpa using h.2
      simp only [cpyKeyAux, beq_iff_eq, hc, hp, if_false, takeWhileC, dropWhileC, hn, if_true]
      rw [ih h']
      cases dropWhileC notRParen r <;> rfl

theorem specAt_lparen_none (r' : List Char) (h : reKey ('(' :: r') = (none, '(' :: r')) :
    specAt ('(' :: r') = none := by
  unfold specAt
  rw [h]
  simp [specTail, takeWhileC, dropWhileC, isFlagCh, reStarOrNum, isDigitCh, rePrec, reLen, isLenCh, isConvCh]

theorem key_eq (r : List Char) (h1 : lexEmptyKey r = false) (h2 : lexParenKey r = false) :
    cpyKey r = some (reKey r) ∨ (cpyKey r = none ∧ specAt r = none) := by
  cases r with
  | nil => left; rfl
  | cons c r' =>
    by_cases hc : c = '('
    · subst hc
      have hk := keyAux_noparen r' (by simpa [lexParenKey] using h2)
      cases hd : dropWhileC notRParen r' with
      | nil =>
        right
        rw [hd] at hk
        refine ⟨by simp [cpyKey, hk], specAt_lparen_none r' ?_⟩
        simp [reKey, hd]
      | cons d r'' =>
        have hdp : d = ')' := by
          have := drop_head _ _ _ _ hd; simpa [notRParen] using this
        subst hdp
        rw [hd] at hk
        cases ht : takeWhileC notRParen r' with
        | nil =>
          -- then r' starts with ')': empty key
          exfalso
          have : dropWhileC notRParen r' = r' := take_nil_drop _ _ ht
          rw [this] at hd
          simp [lexEmptyKey, hd] at h1
        | cons k0 k =>
          left
          simp [cpyKey, hk, reKey, hd, ht]
    · left
      have e1 : cpyKey (c :: r') = some (none, c :: r') := by
        unfold cpyKey; split
        · rename_i heq; cases heq; exact absurd rfl hc
        · rfl
      have e2 : reKey (c :: r') = (none, c :: r') := by
        unfold reKey; split
        · rename_i heq; cases heq; exact absurd rfl hc
        · rfl
      rw [e1, e2]

/-- **Local agreement**: outside the three lexical exception classes the regex alternative and
CPython's directive parser read the same directive and stop at the same place; the regex
additionally demands one of its conversion characters. -/
theorem local_eq (r : List Char) (h1 : lexEmptyKey r = false) (h2 : lexParenKey r = false)
    (h3 : lexDotNoDigits r = false) :
    (specAt r).map (fun x => (dirOf x.1, x.2)) =
      (cpyDirAt r).filter (fun x => isConvCh x.1.conv) := by
  rcases key_eq r h1 h2 with hk | ⟨hk, hs⟩
  · unfold specAt cpyDirAt
    rw [hk]
    exact tail_eq _ _ h3
  · unfold cpyDirAt; rw [hk, hs]; rfl

theorem emptyKey_none (r : List Char) (h : lexEmptyKey r = true) : specAt r = none := by
  unfold lexEmptyKey at h
  split at h
  · apply specAt_lparen_none
    simp [reKey, takeWhileC, notRParen]
  · cases h

theorem dotTail_none (key : Option (List Char)) (r1 : List Char) (h : dotTail r1 = true) :
    specTail key r1 = none := by
  unfold dotTail at h
  simp only [specTail]
  generalize (reStarOrNum (dropWhileC isFlagCh r1)).2 = r3 at h ⊢
  unfold dotHere at h
  split at h
  · rename_i c rest
    have hs : c ≠ '*' := by intro hc; subst hc; simp at h
    have hd : c.isDigit = false := by simpa [hs] using h
    have h1 : reStarOrNum (c :: rest) = (.none, c :: rest) := by
      unfold reStarOrNum
      split
      · rename_i heq; cases heq; exact absurd rfl hs
      · simp [takeWhileC, isDigitCh, hd]
    simp [rePrec, h1, reLen, isLenCh, isConvCh]
  · cases h

theorem dotNoDigits_none (r : List Char) (h : lexDotNoDigits r = true) : specAt r = none :=
  dotTail_none _ _ h

theorem specAt_pct (r : List Char) : specAt ('%' :: r) = some ({ conv := '%' }, r) := by
  simp [specAt, reKey, specTail, takeWhileC, dropWhileC, isFlagCh, reStarOrNum, isDigitCh, rePrec,
    reLen, isLenCh, isConvCh]

theorem reKey_none (r : List Char) (h : (reKey r).1 = none) : (reKey r).2 = r := by
  cases r with
  | nil => rfl
  | cons c r' =>
    by_cases hc : c = '('
    · subst hc
      revert h
      simp only [reKey]
      split <;> simp
    · have e2 : reKey (c :: r') = (none, c :: r') := by
        unfold reKey; split
        · rename_i heq; cases heq; exact absurd rfl hc
        · rfl
      rw [e2]

theorem reStarOrNum_none (r : List Char) (h : (reStarOrNum r).1 = .none) : (reStarOrNum r).2 = r := by
  revert h
  unfold reStarOrNum
  split
  · simp
  · split <;> simp

theorem rePrec_none (r : List Char) (h : (rePrec r).1 = .none) : (rePrec r).2 = r := by
  revert h
  unfold rePrec
  split
  · split
    · simp
    · rename_i w r'' hne heq
      intro h
      simp only at h
      subst h
      exact absurd rfl hne
  · simp

theorem reLen_false (r : List Char) (h : (reLen r).1 = false) : (reLen r).2 = r := by
  revert h
  unfold reLen
  split
  · split <;> simp
  · simp

theorem takeWhileC_isEmpty_drop (p : Char → Bool) (r : List Char)
    (h : (takeWhileC p r).isEmpty = true) : dropWhileC p r = r :=
  take_nil_drop p r (by simpa using h)

/-- A `%` conversion without any option group can only be the character right after the `%`. -/
theorem noopts_head (r : List Char) (s : CSpec) (rest : List Char)
    (h : specAt r = some (s, rest)) (hopt : s.hasOpts = false) : r = s.conv :: rest := by
  unfold specAt specTail at h
  simp only [] at h
  split at h
  · rename_i c rest' hl
    split at h
    · simp only [Option.some.injEq, Prod.mk.injEq] at h
      obtain ⟨hs, hr⟩ := h
      subst hs; subst hr
      simp only [CSpec.hasOpts, Bool.or_eq_false_iff, Option.isSome_eq_false_iff, Option.isNone_iff_eq_none,
        bne_eq_false_iff_eq, Bool.not_eq_false'] at hopt
      obtain ⟨⟨⟨⟨hk, hf⟩, hw⟩, hp⟩, hlen⟩ := hopt
      have e1 := reKey_none r hk
      rw [e1] at hf hw hp hlen hl
      have e2 := takeWhileC_isEmpty_drop _ _ hf
      rw [e2] at hw hp hlen hl
      have e3 := reStarOrNum_none _ hw
      rw [e3] at hp hlen hl
      have e4 := rePrec_none _ hp
      rw [e4] at hlen hl
      have e5 := reLen_false _ hlen
      rw [e5] at hl
      exact hl
    · cases h
  · cases h

/-! ### Equation lemmas for the three template walkers at a `%` -/

theorem scan_pct (r : List Char) :
    scanAux 0 ('%' :: r) =
      match specAt r with
      | some (s, rest) => .spec s :: scanAux (r.length - rest.length) r
      | none => .bad :: scanAux 0 r := by
  simp only [scanAux, beq_self_eq_true, if_true]; rfl

theorem scan_other (c : Char) (r : List Char) (h : c ≠ '%') : scanAux 0 (c :: r) = scanAux 0 r := by
  simp [scanAux, h]

theorem anyPct_pct (P : List Char → Bool) (r : List Char) :
    anyPctAux P 0 ('%' :: r) =
      (P r || (match specAt r with
              | some (_, rest) => anyPctAux P (r.length - rest.length) r
              | none => anyPctAux P 0 r)) := by
  simp only [anyPctAux, beq_self_eq_true, if_true]; rfl

theorem anyPct_other (P : List Char → Bool) (c : Char) (r : List Char) (h : c ≠ '%') :
    anyPctAux P 0 (c :: r) = anyPctAux P 0 r := by
  simp [anyPctAux, h]

theorem tok_pct_pct (r : List Char) : cpyTokAux 0 ('%' :: '%' :: r) = cpyTokAux 1 ('%' :: r) := by
  simp [cpyTokAux]

theorem tok_pct_other (c : Char) (r : List Char) (h : c ≠ '%') :
    cpyTokAux 0 ('%' :: c :: r) =
      match cpyDirAt (c :: r) with
      | some (d, rest) => (cpyTokAux ((c :: r).length - rest.length) (c :: r)).map (d :: ·)
      | none => none := by
  simp only [cpyTokAux, beq_self_eq_true, if_true]
  split
  · rename_i heq; cases heq; exact absurd rfl h
  · rfl

theorem tok_pct_nil : cpyTokAux 0 ['%'] = none := by
  simp [cpyTokAux, cpyDirAt, cpyKey, cpyTail, cpyWidth, cpyPrec, cpyLen, dropWhileC, takeWhileC]

theorem tok_other (c : Char) (r : List Char) (h : c ≠ '%') : cpyTokAux 0 (c :: r) = cpyTokAux 0 r := by
  simp [cpyTokAux, h]

@[simp] theorem hasBad_spec (s : CSpec) (ts : List Tok) : hasBad (.spec s :: ts) = hasBad ts := by
  simp [hasBad]
@[simp] theorem hasBad_bad (ts : List Tok) : hasBad (.bad :: ts) = true := by
  simp [hasBad]
@[simp] theorem hasBad_nil : hasBad [] = false := rfl

theorem dirOfOpt_of_head (r : List Char) (s : CSpec) (rest : List Char)
    (h : specAt r = some (s, rest)) (hh : ∀ r', r ≠ '%' :: r') : dirOfOpt s = some (dirOf s) := by
  unfold dirOfOpt
  split
  · rename_i hc
    simp only [Bool.and_eq_true, beq_iff_eq, Bool.not_eq_true'] at hc
    have := noopts_head r s rest h hc.2
    rw [hc.1] at this
    exact absurd this (hh _)
  · rfl

theorem dirOfOpt_pct : dirOfOpt { conv := '%' } = none := by
  simp [dirOfOpt, CSpec.hasOpts]

/-- **Tokenisations agree, backward**: outside the lexical exception classes, if CPython's
tokeniser accepts the template and every conversion character is one the regex knows, the regex
matches at every `%` and yields the same directives. -/
theorem sync_bwd : ∀ (cs : List Char) (k : Nat) (ds : List Dir),
    anyPctAux lexEmptyKey k cs = false → anyPctAux lexParenKey k cs = false →
    anyPctAux lexDotNoDigits k cs = false →
    cpyTokAux k cs = some ds → (∀ d ∈ ds, isConvCh d.conv = true) →
    hasBad (scanAux k cs) = false ∧ ds = dirsOf (specsOf (scanAux k cs)) := by
  intro cs
  induction cs with
  | nil =>
    intro k ds _ _ _ ht _
    cases k <;> simp [cpyTokAux] at ht <;> subst ht <;> simp [scanAux, specsOf, dirsOf]
  | cons c r ih =>
    intro k ds h1 h2 h3 ht hc
    cases k with
    | succ k =>
      simp only [anyPctAux] at h1 h2 h3
      simp only [cpyTokAux] at ht
      simp only [scanAux]
      exact ih k ds h1 h2 h3 ht hc
    | zero =>
      by_cases hp : c = '%'
      · subst hp
        rw [anyPct_pct] at h1 h2 h3
        simp only [Bool.or_eq_false_iff] at h1 h2 h3
        rw [scan_pct]
        cases r with
        | nil =>
          rw [tok_pct_nil] at ht
          cases ht
        | cons c2 r2 =>
          by_cases hp2 : c2 = '%'
          · subst hp2
            rw [tok_pct_pct] at ht
            rw [specAt_pct] at h1 h2 h3 ⊢
            simp only [List.length_cons, Nat.add_sub_cancel_left] at h1 h2 h3 ⊢
            have := ih 1 ds h1.2 h2.2 h3.2 ht hc
            simp only [hasBad_spec, specsOf, dirsOf, List.filterMap_cons, dirOfOpt_pct]
            exact this
          · rw [tok_pct_other c2 r2 hp2] at ht
            cases hd : cpyDirAt (c2 :: r2) with
            | none => rw [hd] at ht; cases ht
            | some dr =>
              obtain ⟨d, rest⟩ := dr
              rw [hd] at ht
              simp only [Option.map_eq_some_iff] at ht
              obtain ⟨ds', ht', rfl⟩ := ht
              have hcd : isConvCh d.conv = true := hc d (by simp)
              have hloc := local_eq (c2 :: r2) h1.1 h2.1 h3.1
              rw [hd] at hloc
              simp only [Option.filter, hcd, if_true] at hloc
              cases hs : specAt (c2 :: r2) with
              | none => rw [hs] at hloc; cases hloc
              | some sr =>
                obtain ⟨s, rest'⟩ := sr
                rw [hs] at hloc h1 h2 h3
                simp only [Option.map_some, Option.some.injEq, Prod.mk.injEq] at hloc
                obtain ⟨hds, hrr⟩ := hloc
                subst hrr
                simp only at h1 h2 h3 ⊢
                have := ih _ ds' h1.2 h2.2 h3.2 ht' (fun d hd => hc d (by simp [hd]))
                have ho := dirOfOpt_of_head (c2 :: r2) s rest' hs
                  (by intro r' h; cases h; exact hp2 rfl)
                simp only [hasBad_spec, specsOf, dirsOf, List.filterMap_cons, ho, hds]
                exact ⟨this.1, by rw [this.2]; rfl⟩
      · rw [anyPct_other _ _ _ hp] at h1 h2 h3
        rw [tok_other _ _ hp] at ht
        rw [scan_other _ _ hp]
        exact ih 0 ds h1 h2 h3 ht hc

/-- **Tokenisations agree, forward**: if the regex matches at every `%` and no mapping key
contains `(`, CPython's tokeniser reads the same directives. -/
theorem sync_fwd : ∀ (cs : List Char) (k : Nat),
    anyPctAux lexParenKey k cs = false → hasBad (scanAux k cs) = false →
    cpyTokAux k cs = some (dirsOf (specsOf (scanAux k cs))) := by
  intro cs
  induction cs with
  | nil => intro k _ _; cases k <;> simp [cpyTokAux, scanAux, specsOf, dirsOf]
  | cons c r ih =>
    intro k h2 hb
    cases k with
    | succ k =>
      simp only [anyPctAux] at h2
      simp only [scanAux] at hb ⊢
      simp only [cpyTokAux]
      exact ih k h2 hb
    | zero =>
      by_cases hp : c = '%'
      · subst hp
        rw [anyPct_pct] at h2
        simp only [Bool.or_eq_false_iff] at h2
        rw [scan_pct] at hb ⊢
        cases hs : specAt r with
        | none => rw [hs] at hb; simp at hb
        | some sr =>
          obtain ⟨s, rest⟩ := sr
          rw [hs] at hb h2
          simp only [hasBad_spec] at hb
          simp only at h2 ⊢
          have hrec := ih _ h2.2 hb
          cases r with
          | nil => simp [specAt, reKey, specTail, takeWhileC, dropWhileC, reStarOrNum, rePrec, reLen] at hs
          | cons c2 r2 =>
            by_cases hp2 : c2 = '%'
            · subst hp2
              rw [specAt_pct] at hs
              simp only [Option.some.injEq, Prod.mk.injEq] at hs
              obtain ⟨rfl, rfl⟩ := hs
              rw [tok_pct_pct]
              simp only [List.length_cons, Nat.add_sub_cancel_left] at hrec ⊢
              simp only [specsOf, dirsOf, List.filterMap_cons, dirOfOpt_pct]
              exact hrec
            · rw [tok_pct_other c2 r2 hp2]
              have h1 : lexEmptyKey (c2 :: r2) = false := by
                cases he : lexEmptyKey (c2 :: r2) with
                | false => rfl
                | true => rw [emptyKey_none _ he] at hs; cases hs
              have h3 : lexDotNoDigits (c2 :: r2) = false := by
                cases he : lexDotNoDigits (c2 :: r2) with
                | false => rfl
                | true => rw [dotNoDigits_none _ he] at hs; cases hs
              have hloc := local_eq (c2 :: r2) h1 h2.1 h3
              rw [hs] at hloc
              simp only [Option.map_some] at hloc
              have hd : cpyDirAt (c2 :: r2) = some (dirOf s, rest) := by
                cases hd : cpyDirAt (c2 :: r2) with
                | none => rw [hd] at hloc; cases hloc
                | some dr =>
                  rw [hd] at hloc
                  simp only [Option.filter] at hloc
                  split at hloc
                  · exact hloc.symm
                  · cases hloc
              rw [hd]
              simp only
              rw [hrec]
              have ho := dirOfOpt_of_head (c2 :: r2) s rest hs
                (by intro r' h; cases h; exact hp2 rfl)
              simp [specsOf, dirsOf, ho]
      · rw [anyPct_other _ _ _ hp] at h2
        rw [scan_other _ _ hp] at hb ⊢
        rw [tok_other _ _ hp]
        exact ih 0 h2 hb

/-! ## Part 2 — running the directives -/

set_option linter.unusedSimpArgs false

theorem elem_A (b : Bool) (s : CSpec) (e : Elem) (hc : isConvCh s.conv = true)
    (hp : s.conv ≠ '%') (hb : b = true ∨ s.conv ≠ 'b') (hacc : s.accept b e = []) :
    cpyConvOk b s.conv e = true := by
  unfold CSpec.accept at hacc
  generalize s.conv = c at *
  simp [isConvCh] at hc
  rcases hc with rfl | rfl | rfl | rfl | rfl | rfl | rfl | rfl | rfl | rfl | rfl | rfl | rfl | rfl | rfl | rfl | rfl | rfl
  all_goals (
    rcases e with (v | bb | _ | n | n | _ | _ | _) | _ | _ <;>
    simp_all (config := {decide := true}) [cpyConvOk, isNumericConv, Elem.numericOk, Elem.intOk, Elem.strOk, Elem.bytesOk,
      Elem.indexOk, isRealLike, isIntLike, isHexConv])
  all_goals (cases b <;> simp_all <;> omega)

theorem cpyConvOk_isConv (b : Bool) (c : Char) (e : Elem) (h : cpyConvOk b c e = true) :
    isConvCh c = true ∧ c ≠ '%' ∧ (b = true ∨ c ≠ 'b') := by
  unfold cpyConvOk at h
  repeat' split at h
  all_goals (simp (config := {decide := true}) [isConvCh] at *)
  all_goals grind

theorem elem_B (b : Bool) (s : CSpec) (e : Elem) (h : cpyConvOk b s.conv e = true)
    (hr : ¬ (b = false ∧ s.conv = 'c' ∧ ∃ v, e = .sc (.int v) ∧ 256 ≤ v ∧ v < 0x110000)) :
    s.accept b e = [] := by
  have hc := (cpyConvOk_isConv b s.conv e h).1
  unfold CSpec.accept
  generalize s.conv = c at *
  simp [isConvCh] at hc
  rcases hc with rfl | rfl | rfl | rfl | rfl | rfl | rfl | rfl | rfl | rfl | rfl | rfl | rfl | rfl | rfl | rfl | rfl | rfl
  all_goals (
    rcases e with (v | bb | _ | n | n | _ | _ | _) | _ | _ <;>
    simp_all (config := {decide := true}) [cpyConvOk, isNumericConv, Elem.numericOk, Elem.intOk, Elem.strOk, Elem.bytesOk,
      Elem.indexOk, isRealLike, isIntLike, isHexConv])
  all_goals (cases b <;> simp_all <;> omega)

/-! ### The argument state as a list -/

def ArgSt.toList : ArgSt → List Elem
  | .tup r => r
  | .one e false => [e]
  | .one _ true => []

def popL (p : Elem → Bool) : List Elem → Option (List Elem)
  | e :: r => if p e then some r else none
  | [] => none

theorem popArg_toList (p : Elem → Bool) (st : ArgSt) :
    (popArg p st).map ArgSt.toList = popL p st.toList := by
  rcases st with (_ | ⟨e, r⟩) | ⟨e, (_ | _)⟩ <;> simp [popArg, getNextArg, ArgSt.toList, popL] <;>
    split <;> simp [ArgSt.toList]

theorem bind_toList {o : Option ArgSt} {ol : Option (List Elem)} {f : ArgSt → Option ArgSt}
    {fl : List Elem → Option (List Elem)} (h1 : o.map ArgSt.toList = ol)
    (h2 : ∀ st, (f st).map ArgSt.toList = fl st.toList) :
    (o.bind f).map ArgSt.toList = ol.bind fl := by
  cases o with
  | none => simp at h1; subst h1; rfl
  | some st => simp at h1; subst h1; simpa using h2 st

def stepL (b : Bool) (es : List Elem) (d : Dir) : Option (List Elem) :=
  (if d.wStar then popL isIntLike es else some es).bind fun es =>
  if dirHuge d then none
  else (if d.pStar then popL isIntLike es else some es).bind fun es => popL (cpyConvOk b d.conv) es

theorem step_toList (b : Bool) (m : MapSt) (st : ArgSt) (d : Dir) (hk : d.key = none) :
    (cpyStep b m st d).map ArgSt.toList = stepL b st.toList d := by
  unfold cpyStep stepL
  rw [hk]
  simp only [cpyKeyStep, Option.bind_some]
  apply bind_toList
  · split
    · exact popArg_toList _ _
    · rfl
  · intro st1
    split
    · rfl
    · apply bind_toList
      · split
        · exact popArg_toList _ _
        · rfl
      · intro st2; exact popArg_toList _ _

def runL (b : Bool) : List Elem → List Dir → Option (List Elem)
  | es, [] => some es
  | es, d :: ds => (stepL b es d).bind fun es' => runL b es' ds

theorem run_toList (b : Bool) (m : MapSt) : ∀ (ds : List Dir) (st : ArgSt),
    (∀ d ∈ ds, d.key = none) → (cpyRunAux b m st ds).map ArgSt.toList = runL b st.toList ds := by
  intro ds
  induction ds with
  | nil => intro st _; rfl
  | cons d ds ih =>
    intro st hk
    simp only [cpyRunAux, runL]
    apply bind_toList
    · exact step_toList b m st d (hk d (by simp))
    · intro st1; exact ih st1 (fun d hd => hk d (by simp [hd]))

/-! ### Consumption of serial requirements -/

inductive CSer | star | conv (c : Char)
  deriving DecidableEq, Repr

def cserOk (b : Bool) : CSer → Elem → Bool
  | .star, e => isIntLike e
  | .conv c, e => cpyConvOk b c e

def consume (b : Bool) : List Elem → List CSer → Option (List Elem)
  | es, [] => some es
  | [], _ :: _ => none
  | e :: es, c :: cs => if cserOk b c e then consume b es cs else none

theorem consume_append (b : Bool) : ∀ (xs ys : List CSer) (es : List Elem),
    consume b es (xs ++ ys) = (consume b es xs).bind fun es' => consume b es' ys := by
  intro xs
  induction xs with
  | nil => intro ys es; simp [consume]
  | cons x xs ih =>
    intro ys es
    cases es with
    | nil => simp [consume]
    | cons e es => simp only [List.cons_append, consume]; split <;> simp [ih]

theorem popL_consume (b : Bool) (c : CSer) (es : List Elem) :
    popL (cserOk b c) es = consume b es [c] := by
  cases es <;> simp [popL, consume]

def dirSer (d : Dir) : List CSer :=
  (if d.wStar then [CSer.star] else []) ++ (if d.pStar then [CSer.star] else []) ++ [CSer.conv d.conv]

theorem stepL_consume (b : Bool) (es : List Elem) (d : Dir) :
    stepL b es d = if dirHuge d then none else consume b es (dirSer d) := by
  unfold stepL dirSer
  have e1 : popL isIntLike = fun es => consume b es [CSer.star] := by
    funext es; exact popL_consume b .star es
  have e2 : popL (cpyConvOk b d.conv) = fun es => consume b es [CSer.conv d.conv] := by
    funext es; exact popL_consume b (.conv d.conv) es
  rw [e1, e2]
  have ite_c : ∀ (c : Bool) (x : CSer) (es : List Elem),
      (if c = true then consume b es [x] else some es) = consume b es (if c = true then [x] else []) := by
    intro c x es; cases c <;> simp [consume]
  cases dirHuge d
  · simp only [Bool.false_eq_true, if_false, consume_append, ite_c, Option.bind_assoc]
  · simp only [if_true]
    cases (if d.wStar = true then (fun es => consume b es [CSer.star]) es else some es) <;> rfl

theorem runL_consume (b : Bool) : ∀ (ds : List Dir) (es : List Elem),
    runL b es ds = if ds.any dirHuge then none else consume b es (ds.flatMap dirSer) := by
  intro ds
  induction ds with
  | nil => intro es; simp [runL, consume]
  | cons d ds ih =>
    intro es
    simp only [runL, stepL_consume, List.any_cons, List.flatMap_cons, consume_append]
    cases dirHuge d
    · simp only [Bool.false_or]
      cases consume b es (dirSer d) with
      | none => simp
      | some es' => simp [ih]
    · simp

def toCSer : Serial → CSer
  | .star => .star
  | .cs s => .conv s.conv

/-- No `pctOpts` lint: a `%` conversion carries no option. -/
def NoPctOpts (ss : List CSpec) : Prop := ∀ s ∈ ss, s.conv = '%' → s.hasOpts = false

theorem serial_dirs : ∀ (ss : List CSpec), NoPctOpts ss →
    (serialOf ss).map toCSer = (dirsOf ss).flatMap dirSer := by
  intro ss
  induction ss with
  | nil => intro _; rfl
  | cons s ss ih =>
    intro h
    have ih' := ih (fun s hs => h s (by simp [hs]))
    by_cases hc : s.conv = '%'
    · have ho := h s (by simp) hc
      simp only [CSpec.hasOpts, Bool.or_eq_false_iff, bne_eq_false_iff_eq] at ho
      obtain ⟨⟨⟨_, hw⟩, hp⟩, _⟩ := ho
      have hd : dirOfOpt s = none := by
        simp [dirOfOpt, hc, CSpec.hasOpts, hw, hp]; simp_all [CSpec.hasOpts]
      simp [serialOf, dirsOf, hd, hw, hp, hc] at ih' ⊢
      exact ih'
    · have hd : dirOfOpt s = some (dirOf s) := by simp [dirOfOpt, hc]
      simp only [serialOf, dirsOf, List.filterMap_cons, hd, List.flatMap_cons, List.map_append] at ih' ⊢
      rw [ih']
      simp only [dirSer, dirOf, bne_iff_ne, ne_eq, hc, not_false_eq_true, if_true]
      by_cases hw : (s.width == WP.star) = true <;> by_cases hp : (s.prec == WP.star) = true <;> simp [hw, hp, toCSer]

theorem consume_all (b : Bool) : ∀ (cs : List CSer) (es : List Elem), es.length = cs.length →
    (∀ p ∈ cs.zip es, cserOk b p.1 p.2 = true) → consume b es cs = some [] := by
  intro cs
  induction cs with
  | nil => intro es hl _; cases es <;> simp_all [consume]
  | cons c cs ih =>
    intro es hl hp
    cases es with
    | nil => simp at hl
    | cons e es =>
      simp only [consume, hp (c, e) (by simp), if_true]
      exact ih es (by simpa using hl) (fun p hp' => hp p (by simp [hp']))

theorem consume_some (b : Bool) : ∀ (cs : List CSer) (es rest : List Elem), consume b es cs = some rest →
    es.length = cs.length + rest.length ∧ ∀ p ∈ cs.zip es, cserOk b p.1 p.2 = true := by
  intro cs
  induction cs with
  | nil => intro es rest h; simp [consume] at h; subst h; simp
  | cons c cs ih =>
    intro es rest h
    cases es with
    | nil => simp [consume] at h
    | cons e es =>
      simp only [consume] at h
      split at h
      · rename_i hok
        obtain ⟨hl, hp⟩ := ih es rest h
        refine ⟨by simp [hl]; omega, ?_⟩
        intro p hp'
        simp only [List.zip_cons_cons, List.mem_cons] at hp'
        rcases hp' with rfl | hp'
        · exact hok
        · exact hp p hp'
      · cases h

theorem zipAccept_nil_iff (b : Bool) : ∀ (ser : List Serial) (es : List Elem),
    zipAccept b es ser = [] ↔ ∀ p ∈ ser.zip es, p.1.accept b p.2 = [] := by
  intro ser
  induction ser with
  | nil => intro es; cases es <;> simp [zipAccept]
  | cons s ser ih =>
    intro es
    cases es with
    | nil => simp [zipAccept]
    | cons e es =>
      simp only [zipAccept, List.append_eq_nil_iff, ih, List.zip_cons_cons, List.mem_cons, forall_eq_or_imp]

theorem intOk_eq (e : Elem) : e.intOk = isIntLike e := by
  rcases e with (_ | _ | _ | _ | _ | _ | _ | _) | _ | _ <;> rfl

theorem cs_mem_serialOf : ∀ (ss : List CSpec) (s : CSpec), Serial.cs s ∈ serialOf ss → s ∈ ss ∧ s.conv ≠ '%' := by
  intro ss
  induction ss with
  | nil => intro s h; simp [serialOf] at h
  | cons x ss ih =>
    intro s h
    simp only [serialOf, List.mem_append] at h
    rcases h with ((h | h) | h) | h
    · split at h <;> simp at h
    · split at h <;> simp at h
    · split at h
      · simp at h; subst h; rename_i hc; exact ⟨by simp, by simpa using hc⟩
      · simp at h
    · have := ih s h; exact ⟨by simp [this.1], this.2⟩

theorem init_toList (b : Bool) (a : Arg) : (cpyInit b a).1.toList = a.allArgs := by
  rcases a with (_ | _ | _ | _ | _ | _ | _ | _) | _ | _ <;> simp [cpyInit, ArgSt.toList, Arg.allArgs]

theorem badPieces_zero : ∀ (ts : List Tok), badPieces ts = 0 → hasBad ts = false := by
  intro ts
  induction ts with
  | nil => intro _; rfl
  | cons t ts ih =>
    intro h
    cases t with
    | spec s => simp [badPieces] at h; simpa using ih h
    | bad =>
      exfalso
      cases ts with
      | nil => simp [badPieces] at h
      | cons t2 ts2 =>
        cases t2 with
        | spec s => simp [badPieces] at h
        | bad =>
          simp only [badPieces] at h
          have := ih h
          simp at this

theorem hasBad_zero : ∀ (ts : List Tok), hasBad ts = false → badPieces ts = 0 := by
  intro ts
  induction ts with
  | nil => intro _; rfl
  | cons t ts ih =>
    intro h
    cases t with
    | spec s => simp at h; simp [badPieces, ih h]
    | bad => simp at h

/-! ### Soundness direction: silent ⇒ CPython succeeds -/

theorem specs_of_scan (P : List Char → Bool) (Q : CSpec → Prop)
    (h : ∀ r s rest, specAt r = some (s, rest) → P r = false → Q s) :
    ∀ (cs : List Char) (k : Nat), anyPctAux P k cs = false → ∀ s ∈ specsOf (scanAux k cs), Q s := by
  intro cs
  induction cs with
  | nil => intro k _ s hs; cases k <;> simp [scanAux, specsOf] at hs
  | cons c r ih =>
    intro k hP s hs
    cases k with
    | succ k =>
      simp only [anyPctAux] at hP
      simp only [scanAux] at hs
      exact ih k hP s hs
    | zero =>
      by_cases hp : c = '%'
      · subst hp
        rw [anyPct_pct] at hP
        simp only [Bool.or_eq_false_iff] at hP
        rw [scan_pct] at hs
        cases hsp : specAt r with
        | none =>
          rw [hsp] at hs hP
          simp only [specsOf] at hs
          exact ih 0 hP.2 s hs
        | some sr =>
          obtain ⟨s0, rest⟩ := sr
          rw [hsp] at hs hP
          simp only [specsOf, List.mem_cons] at hs
          rcases hs with rfl | hs
          · exact h r s rest hsp hP.1
          · exact ih _ hP.2 s hs
      · rw [anyPct_other _ _ _ hp] at hP
        rw [scan_other _ _ hp] at hs
        exact ih 0 hP s hs

theorem specAt_conv (r : List Char) (s : CSpec) (rest : List Char) (h : specAt r = some (s, rest)) :
    isConvCh s.conv = true := by
  unfold specAt specTail at h
  simp only [] at h
  split at h
  · split at h
    · simp only [Option.some.injEq, Prod.mk.injEq] at h
      obtain ⟨rfl, _⟩ := h
      assumption
    · cases h
  · cases h

theorem huge_of_lex (r : List Char) (s : CSpec) (rest : List Char) (h : specAt r = some (s, rest))
    (hl : lexHugeWP r = false) : dirHuge (dirOf s) = false := by
  unfold lexHugeWP at hl
  rw [h] at hl
  simp only [Bool.or_eq_false_iff] at hl
  unfold dirHuge dirOf
  simp only [Bool.or_eq_false_iff]
  constructor
  · cases hw : s.width <;> simp [hw, wpNum, PY_SSIZE_T_MAX] at hl ⊢
    exact hl.1
  · cases hw : s.prec <;> simp [hw, wpNum, INT_MAX] at hl ⊢
    exact hl.2

theorem mem_dirsOf (ss : List CSpec) (d : Dir) (h : d ∈ dirsOf ss) : ∃ s ∈ ss, d = dirOf s := by
  simp only [dirsOf, List.mem_filterMap] at h
  obtain ⟨s, hs, hd⟩ := h
  refine ⟨s, hs, ?_⟩
  unfold dirOfOpt at hd
  split at hd
  · cases hd
  · simpa using hd.symm

theorem dirs_no_huge (ss : List CSpec) (h : ∀ s ∈ ss, dirHuge (dirOf s) = false) :
    (dirsOf ss).any dirHuge = false := by
  rw [List.any_eq_false]
  intro d hd
  obtain ⟨s, hs, rfl⟩ := mem_dirsOf ss d hd
  simp [h s hs]

theorem finish_of_nil (m : MapSt) (st : ArgSt) (h : st.toList = []) : cpyFinish m st = true := by
  rcases st with (_ | ⟨e, r⟩) | ⟨e, (_ | _)⟩ <;> simp_all [ArgSt.toList, cpyFinish]

/-- Tuple mode, soundness direction: if pyanalyze's `accept_tuple_args` is silent (and no pair is
in the `%x`-float class), CPython's run completes. -/
theorem tuple_ok (b : Bool) (ss : List CSpec) (a : Arg)
    (hkeys : ∀ s ∈ ss, s.key = none) (hno : NoPctOpts ss)
    (hconv : ∀ s ∈ ss, isConvCh s.conv = true) (hb : ∀ s ∈ ss, s.conv = 'b' → b = true)
    (hhuge : ∀ s ∈ ss, dirHuge (dirOf s) = false)
    (hacc : acceptTuple b ss a = []) :
    cpyRun b (dirsOf ss) a = true := by
  unfold acceptTuple at hacc
  simp only [] at hacc
  split at hacc
  · cases hacc
  · split at hacc
    · cases hacc
    · rename_i h1 h2
      have hlen : a.allArgs.length = (serialOf ss).length := by omega
      rw [zipAccept_nil_iff] at hacc
      have hk : ∀ d ∈ dirsOf ss, d.key = none := by
        intro d hd
        obtain ⟨s, hs, rfl⟩ := mem_dirsOf ss d hd
        exact hkeys s hs
      unfold cpyRun
      have hrun := run_toList b (cpyInit b a).2 (dirsOf ss) (cpyInit b a).1 hk
      rw [init_toList, runL_consume, dirs_no_huge ss hhuge, ← serial_dirs ss hno] at hrun
      simp only [Bool.false_eq_true, if_false] at hrun
      have hc := consume_all b ((serialOf ss).map toCSer) a.allArgs (by simp [hlen]) (by
        intro p hp
        rw [List.zip_map_left] at hp
        simp only [List.mem_map] at hp
        obtain ⟨q, hq, rfl⟩ := hp
        have hq1 := hacc q hq
        obtain ⟨q1, q2⟩ := q
        cases q1 with
        | star =>
          simp only [Serial.accept] at hq1
          simp only [Prod.map, toCSer, cserOk, id]
          rw [← intOk_eq]
          split at hq1
          · assumption
          · cases hq1
        | cs s =>
          simp only [Serial.accept] at hq1
          simp only [Prod.map, toCSer, cserOk, id]
          have hm := cs_mem_serialOf ss s (List.of_mem_zip hq).1
          refine elem_A b s q2 (hconv s hm.1) hm.2 ?_ hq1
          by_cases hbb : s.conv = 'b'
          · left; exact hb s hm.1 hbb
          · right; exact hbb)
      rw [hc] at hrun
      cases hr : cpyRunAux b (cpyInit b a).2 (cpyInit b a).1 (dirsOf ss) with
      | none => rw [hr] at hrun; cases hrun
      | some st' =>
        rw [hr] at hrun
        simp only [Option.map_some, Option.some.injEq] at hrun
        simp only [hr]
        exact finish_of_nil _ _ hrun

theorem lookup_of_seen : ∀ (kvs : List (Key × Elem)) (k : List Char), (strKeys kvs).contains k = true →
    ∃ v, lookupKey false k kvs = some v ∧ (Key.str k, v) ∈ kvs := by
  intro kvs
  induction kvs with
  | nil => intro k h; simp [strKeys] at h
  | cons kv kvs ih =>
    intro k h
    obtain ⟨key, v⟩ := kv
    by_cases hk : key = Key.str k
    · subst hk
      exact ⟨v, by simp [lookupKey], by simp⟩
    · have h' : (strKeys kvs).contains k = true := by
        cases key with
        | str ks =>
          have : ks ≠ k := fun e => hk (by rw [e])
          have hne : (k == ks) = false := by
            simpa using fun e : k = ks => this e.symm
          simp only [strKeys, List.filterMap_cons, Key.strVal, List.contains_cons, hne, Bool.false_or] at h
          exact h
        | bytes _ => simp only [strKeys, List.filterMap_cons, Key.strVal] at h; exact h
        | other => simp only [strKeys, List.filterMap_cons, Key.strVal] at h; exact h
      obtain ⟨v', h1, h2⟩ := ih k h'
      refine ⟨v', ?_, by simp [h2]⟩
      simp only [lookupKey, Bool.false_eq_true, if_false]
      have : (key == Key.str k) = false := by simpa using hk
      simp [this, h1]

theorem seen_of_lookup : ∀ (kvs : List (Key × Elem)) (k : List Char) (v : Elem),
    lookupKey false k kvs = some v → (Key.str k, v) ∈ kvs := by
  intro kvs
  induction kvs with
  | nil => intro k v h; simp [lookupKey] at h
  | cons kv kvs ih =>
    intro k v h
    obtain ⟨key, v0⟩ := kv
    simp only [lookupKey, Bool.false_eq_true, if_false] at h
    split at h
    · rename_i hk
      simp only [beq_iff_eq] at hk
      simp only [Option.some.injEq] at h
      subst hk; subst h; simp
    · simp [ih k v h]

def ArgSt.isOne : ArgSt → Bool
  | .one _ _ => true
  | _ => false

theorem keyed_step (kvs : List (Key × Elem)) (st : ArgSt) (s : CSpec) (k : List Char) (v : Elem)
    (hk : s.key = some k) (hw : s.width ≠ .star) (hp : s.prec ≠ .star)
    (hh : dirHuge (dirOf s) = false) (hl : lookupKey false k kvs = some v)
    (hc : cpyConvOk false s.conv v = true) :
    cpyStep false (.dict kvs) st (dirOf s) = some (.one v true) := by
  have hw' : (s.width == WP.star) = false := by simpa using hw
  have hp' : (s.prec == WP.star) = false := by simpa using hp
  have hd : (dirOf s).key = some k := hk
  have hws : (dirOf s).wStar = false := hw'
  have hps : (dirOf s).pStar = false := hp'
  have hcv : (dirOf s).conv = s.conv := rfl
  simp [cpyStep, cpyKeyStep, hd, hl, hws, hps, hh, hcv, popArg, getNextArg, hc]

theorem finish_one (kvs : List (Key × Elem)) (st : ArgSt) (h : st.isOne = true) :
    cpyFinish (.dict kvs) st = true := by
  cases st <;> simp_all [ArgSt.isOne, cpyFinish]

/-- Mapping mode, soundness direction. -/
theorem mapping_ok (ss : List CSpec) (kvs : List (Key × Elem))
    (hkeyed : ∀ s ∈ ss, s.key.isSome = true ∧ s.width ≠ .star ∧ s.prec ≠ .star)
    (hno : NoPctOpts ss) (hconv : ∀ s ∈ ss, isConvCh s.conv = true) (hb : ∀ s ∈ ss, s.conv ≠ 'b')
    (hhuge : ∀ s ∈ ss, dirHuge (dirOf s) = false)
    (hstr : ∀ kv ∈ kvs, ∃ k, kv.1 = Key.str k)
    (hacc : acceptMapping false ss (.dict kvs) = []) :
    cpyRun false (dirsOf ss) (.dict kvs) = true := by
  have hpct : ∀ s ∈ ss, s.conv ≠ '%' := by
    intro s hs hc
    have := hno s hs hc
    simp [CSpec.hasOpts, (hkeyed s hs).1] at this
  -- what `acceptMapping` being silent says
  have hnl : hasNonLiteralKey kvs = false := by
    simp only [hasNonLiteralKey, List.any_eq_false]
    intro kv hkv
    obtain ⟨k, hk⟩ := hstr kv hkv
    simp [hk, Key.strVal]
  have hreal : ss.filter (fun s => s.conv != '%') = ss := by
    rw [List.filter_eq_self]; intro s hs; simpa using hpct s hs
  simp only [acceptMapping, hnl, Bool.not_false, Bool.and_true] at hacc
  split at hacc
  · simp at hacc
  · rename_i hleft
    simp only [strKeyLeft, hreal, Bool.not_eq_true, List.any_eq_false] at hleft
    -- every step succeeds
    have hstep : ∀ d ∈ dirsOf ss, ∀ st, ∃ v, cpyStep false (.dict kvs) st d = some (.one v true) := by
      intro d hd st
      obtain ⟨s, hs, rfl⟩ := mem_dirsOf ss d hd
      obtain ⟨hk, hw, hp⟩ := hkeyed s hs
      cases hkey : s.key with
      | none => simp [hkey] at hk
      | some k =>
        have hseen := hleft s hs
        simp only [hkey, Bool.not_eq_false'] at hseen
        obtain ⟨v, hl, hmem⟩ := lookup_of_seen kvs k hseen
        refine ⟨v, keyed_step kvs st s k v hkey hw hp (hhuge s hs) hl ?_⟩
        have hsk : s ∈ specsForKey ss k := by
          simp [specsForKey, hs, hpct s hs, hkey]
        have hperkey : s.accept false v = [] := by
          simp only [perKeyErrs, List.flatMap_eq_nil_iff] at hacc
          have := hacc (Key.str k, v) hmem
          simp only [Key.strVal, List.flatMap_eq_nil_iff] at this
          exact this s hsk
        exact elem_A false s v (hconv s hs) (hpct s hs) (Or.inr (hb s hs)) hperkey
    have hrun : ∀ (ds : List Dir), (∀ d ∈ ds, d ∈ dirsOf ss) → ∀ st, st.isOne = true →
        ∃ st', cpyRunAux false (.dict kvs) st ds = some st' ∧ st'.isOne = true := by
      intro ds
      induction ds with
      | nil => intro _ st h; exact ⟨st, rfl, h⟩
      | cons d ds ih =>
        intro hsub st _
        obtain ⟨v, hv⟩ := hstep d (hsub d (by simp)) st
        simp only [cpyRunAux, hv, Option.bind_some]
        exact ih (fun d hd => hsub d (by simp [hd])) _ rfl
    obtain ⟨st', h1, h2⟩ := hrun (dirsOf ss) (fun _ h => h) (.one .dict false) rfl
    simp only [cpyRun, cpyInit, h1]
    exact finish_one kvs st' h2

theorem lint_facts (b : Bool) (s : CSpec) (h : s.lint b = []) :
    (s.conv = '%' → s.hasOpts = false) ∧ (s.conv = 'b' → b = true) := by
  unfold CSpec.lint at h
  constructor
  · intro hc
    cases ho : s.hasOpts with
    | false => rfl
    | true => simp [hc, ho] at h
  · intro hc
    cases hb : b with
    | true => rfl
    | false =>
      have : (s.conv == '%') = false := by rw [hc]; decide
      simp [this, hc, hb] at h

/-- **Soundness core for `%`**: if pyanalyze reports nothing and the input is outside the four
"missed error" classes, CPython formats successfully. -/
theorem percent_silent_ok (b : Bool) (t : List Char) (a : Arg)
    (herr : (pyaPercent b t a).errs = [])
    (h2 : D17_parenKey t = false)
    (h3 : D17_nonStrKey b t a = false) (h4 : D17_bytesMapping b t a = false)
    (h5 : D17_hugeWidthPrec t = false) :
    cpyPercent b t a = .ok (if b then .bytes else .str) := by
  simp only [pyaPercent] at herr
  rw [List.append_eq_nil_iff] at herr
  obtain ⟨hlint, hacc⟩ := herr
  simp only [lintAll, List.append_eq_nil_iff, List.flatMap_eq_nil_iff, List.replicate_eq_nil_iff] at hlint
  obtain ⟨hspecs, hbp⟩ := hlint
  have hbad := badPieces_zero _ hbp
  have htok : cpyTok t = some (dirsOf (specsOf (scan t))) := sync_fwd t 0 h2 hbad
  have hQ : ∀ s ∈ specsOf (scan t), dirHuge (dirOf s) = false ∧ isConvCh s.conv = true :=
    specs_of_scan lexHugeWP (fun s => dirHuge (dirOf s) = false ∧ isConvCh s.conv = true)
    (fun r s rest hs hl => ⟨huge_of_lex r s rest hs hl, specAt_conv r s rest hs⟩) t 0 h5
  generalize hss : specsOf (scan t) = ss at *
  have hl : ∀ s ∈ ss, (s.conv = '%' → s.hasOpts = false) ∧ (s.conv = 'b' → b = true) :=
    fun s hs => lint_facts b s (hspecs s hs).1
  have hno : NoPctOpts ss := fun s hs => (hl s hs).1
  have hrun : cpyRun b (dirsOf ss) a = true := by
    unfold acceptAll at hacc
    split at hacc
    · -- no specifiers
      rename_i hemp
      have : ss = [] := by simpa using hemp
      subst this
      split at hacc
      · cases hacc
      · rename_i hne
        simp only [Bool.and_eq_true, bne_iff_ne, ne_eq, not_and, Decidable.not_not] at hne
        by_cases ha : a = Arg.tup []
        · subst ha; rfl
        · have := hne ha; subst this; rfl
    · rename_i hemp
      split at hacc
      · -- mapping mode
        rename_i hnm
        have hkeyed : ∀ s ∈ ss, s.key.isSome = true ∧ s.width ≠ .star ∧ s.prec ≠ .star := by
          intro s hs
          have := (hspecs s hs).2
          simp only [hnm, Bool.true_and, ite_eq_right_iff, List.cons_ne_nil, imp_false,
            Bool.or_eq_true, not_or, Bool.not_eq_true, beq_eq_false_iff_ne] at this
          obtain ⟨⟨hk, hp⟩, hw⟩ := this
          refine ⟨?_, hw, hp⟩
          cases hkey : s.key <;> simp_all
        cases a with
        | sc _ => simp [acceptMapping] at hacc
        | tup _ => simp [acceptMapping] at hacc
        | dict kvs =>
          have hb : b = false := by
            simp only [D17_bytesMapping, hss, hnm, Bool.and_true] at h4
            simpa using h4
          subst hb
          have hstr : ∀ kv ∈ kvs, ∃ k, kv.1 = Key.str k := by
            simp only [D17_nonStrKey, hss, hnm, Bool.not_false, Bool.true_and, hasNonLiteralKey, List.any_eq_false] at h3
            intro kv hkv
            have := h3 kv hkv
            cases hk : kv.1 with
            | str k => exact ⟨k, rfl⟩
            | bytes _ => simp [hk, Key.strVal] at this
            | other => simp [hk, Key.strVal] at this
          refine mapping_ok ss kvs hkeyed hno (fun s hs => (hQ s hs).2) ?_ (fun s hs => (hQ s hs).1) hstr hacc
          intro s hs hc
          have := (hl s hs).2 hc
          cases this
      · -- tuple mode
        rename_i hnm
        have hkeys : ∀ s ∈ ss, s.key = none := by
          intro s hs
          have : needsMapping ss = false := by simpa using hnm
          simp only [needsMapping, List.any_eq_false] at this
          have := this s hs
          cases hk : s.key <;> simp_all
        exact tuple_ok b ss a hkeys hno (fun s hs => (hQ s hs).2) (fun s hs => (hl s hs).2)
          (fun s hs => (hQ s hs).1) hacc
  simp only [cpyPercent, htok, hrun, if_true]

/-! ### Completeness direction: CPython succeeds ⇒ only lint -/

theorem popArg_some (p : Elem → Bool) (st st' : ArgSt) (h : popArg p st = some st') :
    ∃ e, getNextArg st = some (e, st') ∧ p e = true := by
  unfold popArg at h
  split at h
  · rename_i e st1 hg
    split at h
    · simp only [Option.some.injEq] at h; subst h; exact ⟨e, hg, by assumption⟩
    · cases h
  · cases h

/-- What a successful directive tells. -/
theorem step_some_facts (b : Bool) (m : MapSt) (st st' : ArgSt) (d : Dir)
    (h : cpyStep b m st d = some st') :
    dirHuge d = false ∧ (∃ e, cpyConvOk b d.conv e = true) ∧
    (∀ k, d.key = some k → ∃ kvs v, m = .dict kvs ∧ lookupKey b k kvs = some v ∧
        d.wStar = false ∧ d.pStar = false ∧ cpyConvOk b d.conv v = true) := by
  unfold cpyStep at h
  simp only [Option.bind_eq_some_iff] at h
  obtain ⟨st1, hkey, st2, hw, h⟩ := h
  split at h
  · cases h
  · rename_i hh
    simp only [Option.bind_eq_some_iff] at h
    obtain ⟨st3, hp, hc⟩ := h
    obtain ⟨e, hg, hok⟩ := popArg_some _ _ _ hc
    refine ⟨by simpa using hh, ⟨e, hok⟩, ?_⟩
    intro k hk
    rw [hk] at hkey
    simp only [cpyKeyStep] at hkey
    split at hkey
    · rename_i kvs
      simp only [Option.map_eq_some_iff] at hkey
      obtain ⟨v, hl, rfl⟩ := hkey
      refine ⟨kvs, v, rfl, hl, ?_⟩
      -- the looked-up value is the only argument available
      cases hws : d.wStar with
      | true =>
        simp only [hws, if_true] at hw
        obtain ⟨e1, hg1, _⟩ := popArg_some _ _ _ hw
        simp only [getNextArg, Option.some.injEq, Prod.mk.injEq] at hg1
        obtain ⟨_, rfl⟩ := hg1
        exfalso
        cases hps : d.pStar with
        | true =>
          simp only [hps, if_true] at hp
          obtain ⟨e2, hg2, _⟩ := popArg_some _ _ _ hp
          simp [getNextArg] at hg2
        | false =>
          simp only [hps, Bool.false_eq_true, if_false, Option.some.injEq] at hp
          subst hp
          simp [getNextArg] at hg
      | false =>
        simp only [hws, Bool.false_eq_true, if_false, Option.some.injEq] at hw
        subst hw
        cases hps : d.pStar with
        | true =>
          simp only [hps, if_true] at hp
          obtain ⟨e2, hg2, _⟩ := popArg_some _ _ _ hp
          simp only [getNextArg, Option.some.injEq, Prod.mk.injEq] at hg2
          obtain ⟨_, rfl⟩ := hg2
          simp [getNextArg] at hg
        | false =>
          simp only [hps, Bool.false_eq_true, if_false, Option.some.injEq] at hp
          subst hp
          simp only [getNextArg, Option.some.injEq, Prod.mk.injEq] at hg
          obtain ⟨rfl, _⟩ := hg
          exact ⟨rfl, rfl, hok⟩
    · cases hkey

theorem run_some_steps (b : Bool) (m : MapSt) : ∀ (ds : List Dir) (st st' : ArgSt),
    cpyRunAux b m st ds = some st' → ∀ d ∈ ds, ∃ st1 st2, cpyStep b m st1 d = some st2 := by
  intro ds
  induction ds with
  | nil => intro _ _ _ d hd; cases hd
  | cons d0 ds ih =>
    intro st st' h d hd
    simp only [cpyRunAux, Option.bind_eq_some_iff] at h
    obtain ⟨st1, hs, hr⟩ := h
    rcases List.mem_cons.mp hd with rfl | hd
    · exact ⟨st, st1, hs⟩
    · exact ih st1 st' hr d hd

theorem init_null_of_tup (b : Bool) (a : Arg) (h : (cpyInit b a).2 ≠ .null) : a.allArgs.length = 1 := by
  rcases a with (_ | _ | _ | _ | _ | _ | _ | _) | _ | _ <;> simp_all [cpyInit, Arg.allArgs]

theorem finish_cases (m : MapSt) (st : ArgSt) (h : cpyFinish m st = true) :
    st.toList = [] ∨ (m ≠ .null ∧ st.toList.length = 1) := by
  rcases st with (_ | ⟨e, r⟩) | ⟨e, (_ | _)⟩ <;> simp_all [ArgSt.toList, cpyFinish]

/-- Tuple mode, completeness direction: CPython's run completes ⇒ `accept_tuple_args` is silent
(outside the `%c` range class and the "only `%%`, mapping argument" class). -/
theorem tuple_lint (b : Bool) (ss : List CSpec) (a : Arg)
    (hkeys : ∀ s ∈ ss, s.key = none) (hno : NoPctOpts ss)
    (hrun : cpyRun b (dirsOf ss) a = true)
    (hpm : ¬ ((serialOf ss).isEmpty = true ∧ (cpyInit b a).2 ≠ .null))
    (hcr : a.allArgs.length = (serialOf ss).length → ∀ p ∈ (serialOf ss).zip a.allArgs,
      ∀ s, p.1 = Serial.cs s →
        ¬ (b = false ∧ s.conv = 'c' ∧ ∃ v, p.2 = .sc (.int v) ∧ 256 ≤ v ∧ v < 0x110000)) :
    acceptTuple b ss a = [] := by
  have hk : ∀ d ∈ dirsOf ss, d.key = none := by
    intro d hd
    obtain ⟨s, hs, rfl⟩ := mem_dirsOf ss d hd
    exact hkeys s hs
  unfold cpyRun at hrun
  simp only [] at hrun
  cases hr : cpyRunAux b (cpyInit b a).2 (cpyInit b a).1 (dirsOf ss) with
  | none => simp [hr] at hrun
  | some st' =>
    simp only [hr] at hrun
    have hsteps := run_some_steps b _ _ _ _ hr
    have hnh : (dirsOf ss).any dirHuge = false := by
      rw [List.any_eq_false]
      intro d hd
      obtain ⟨st1, st2, hs⟩ := hsteps d hd
      simp [(step_some_facts b _ _ _ _ hs).1]
    have hl := run_toList b (cpyInit b a).2 (dirsOf ss) (cpyInit b a).1 hk
    rw [hr, init_toList, runL_consume, hnh, ← serial_dirs ss hno] at hl
    simp only [Option.map_some, Bool.false_eq_true, if_false] at hl
    obtain ⟨hlen, hpairs⟩ := consume_some b _ _ _ hl.symm
    simp only [List.length_map] at hlen
    have hlen' : a.allArgs.length = (serialOf ss).length := by
      rcases finish_cases _ _ hrun with h0 | ⟨hm, h1⟩
      · simp [h0] at hlen; exact hlen
      · exfalso
        have := init_null_of_tup b a hm
        apply hpm
        refine ⟨?_, hm⟩
        have : (serialOf ss).length = 0 := by omega
        simpa using this
    unfold acceptTuple
    simp only [hlen', Nat.lt_irrefl, if_false, gt_iff_lt]
    rw [zipAccept_nil_iff]
    intro p hp
    have hok := hpairs (toCSer p.1, p.2) (by
      rw [List.zip_map_left]
      simp only [List.mem_map]
      exact ⟨p, hp, rfl⟩)
    obtain ⟨p1, p2⟩ := p
    cases p1 with
    | star =>
      simp only [toCSer, cserOk] at hok
      simp [Serial.accept, intOk_eq, hok]
    | cs s =>
      simp only [toCSer, cserOk] at hok
      simp only [Serial.accept]
      exact elem_B b s p2 hok (hcr hlen' _ hp s rfl)

theorem lookup_unique : ∀ (kvs : List (Key × Elem)) (k : List Char) (v : Elem),
    (kvs.map (·.1)).Nodup → (Key.str k, v) ∈ kvs → lookupKey false k kvs = some v := by
  intro kvs
  induction kvs with
  | nil => intro k v _ h; cases h
  | cons kv kvs ih =>
    intro k v hnd hmem
    obtain ⟨key, v0⟩ := kv
    simp only [List.map_cons, List.nodup_cons] at hnd
    simp only [lookupKey, Bool.false_eq_true, if_false]
    rcases List.mem_cons.mp hmem with h | h
    · simp only [Prod.mk.injEq] at h
      obtain ⟨rfl, rfl⟩ := h
      simp
    · have hne : key ≠ Key.str k := by
        intro e; subst e
        exact hnd.1 (List.mem_map.mpr ⟨(Key.str k, v), h, rfl⟩)
      have : (key == Key.str k) = false := by simpa using hne
      simp only [this, Bool.false_eq_true, if_false]
      exact ih k v hnd.2 h

theorem mem_strKeys (kvs : List (Key × Elem)) (k : List Char) (v : Elem) (h : (Key.str k, v) ∈ kvs) :
    (strKeys kvs).contains k = true := by
  simp only [strKeys, List.contains_eq_mem, List.mem_filterMap, decide_eq_true_eq]
  exact ⟨(Key.str k, v), h, rfl⟩

theorem dirOf_mem (ss : List CSpec) (s : CSpec) (hs : s ∈ ss) (h : s.conv ≠ '%' ∨ s.hasOpts = true) :
    dirOf s ∈ dirsOf ss := by
  simp only [dirsOf, List.mem_filterMap]
  refine ⟨s, hs, ?_⟩
  unfold dirOfOpt
  split
  · rename_i hc
    simp only [Bool.and_eq_true, beq_iff_eq, Bool.not_eq_true'] at hc
    rcases h with h | h
    · exact absurd hc.1 h
    · rw [hc.2] at h; cases h
  · rfl

/-- Mapping mode, completeness direction. -/
theorem mapping_lint (b : Bool) (ss : List CSpec) (a : Arg)
    (hnm : needsMapping ss = true) (hwf : a.wf = true)
    (hrun : cpyRun b (dirsOf ss) a = true)
    (hbm : ¬ (b = true ∧ ∃ kvs, a = .dict kvs))
    (hcr : ∀ p ∈ checkedPairs ss a,
        ¬ (b = false ∧ p.1.conv = 'c' ∧ ∃ v, p.2 = .sc (.int v) ∧ 256 ≤ v ∧ v < 0x110000)) :
    acceptMapping b ss a = [] := by
  unfold cpyRun at hrun
  simp only [] at hrun
  cases hr : cpyRunAux b (cpyInit b a).2 (cpyInit b a).1 (dirsOf ss) with
  | none => simp [hr] at hrun
  | some st' =>
    have hsteps := run_some_steps b _ _ _ _ hr
    -- a keyed specifier exists, so the argument is a dict
    simp only [needsMapping, List.any_eq_true] at hnm
    obtain ⟨s0, hs0, hk0⟩ := hnm
    have hd0 : dirOf s0 ∈ dirsOf ss := dirOf_mem ss s0 hs0 (Or.inr (by simp [CSpec.hasOpts, hk0]))
    obtain ⟨st1, st2, hst⟩ := hsteps _ hd0
    cases hkey0 : s0.key with
    | none => simp [hkey0] at hk0
    | some k0 =>
      obtain ⟨kvs, v0, hm, _⟩ := (step_some_facts b _ _ _ _ hst).2.2 k0 hkey0
      have ha : a = .dict kvs := by
        rcases a with (_ | _ | _ | _ | _ | _ | _ | _) | _ | _ <;> simp_all [cpyInit]
        all_goals (try (split at hm <;> simp_all))
      subst ha
      have hb : b = false := by
        cases b with
        | false => rfl
        | true => exact absurd ⟨rfl, kvs, rfl⟩ hbm
      subst hb
      simp only [cpyInit] at hsteps
      have hnd : (kvs.map (·.1)).Nodup := by simpa [Arg.wf] using hwf
      -- every real keyed specifier found its key and accepted the value
      have hfound : ∀ s ∈ ss, s.conv ≠ '%' → ∀ k, s.key = some k →
          ∃ v, lookupKey false k kvs = some v ∧ cpyConvOk false s.conv v = true := by
        intro s hs hc k hk
        obtain ⟨st1, st2, hst⟩ := hsteps _ (dirOf_mem ss s hs (Or.inl hc))
        obtain ⟨kvs', v, hm', hl, _, _, hok⟩ := (step_some_facts false _ _ _ _ hst).2.2 k hk
        simp only [MapSt.dict.injEq] at hm'
        subst hm'
        exact ⟨v, hl, hok⟩
      have hperkey : perKeyErrs false ss kvs = [] := by
        simp only [perKeyErrs, List.flatMap_eq_nil_iff]
        intro kv hkv
        cases hsv : kv.1.strVal with
        | none => rfl
        | some ks =>
          simp only
          rw [List.flatMap_eq_nil_iff]
          intro s hs
          simp only [specsForKey, List.mem_filter, Bool.and_eq_true, bne_iff_ne, ne_eq, beq_iff_eq] at hs
          obtain ⟨hs, hc, hk⟩ := hs
          obtain ⟨v, hl, hok⟩ := hfound s hs hc ks hk
          have hkv' : (Key.str ks, kv.2) ∈ kvs := by
            obtain ⟨k1, v1⟩ := kv
            cases k1 <;> simp_all [Key.strVal]
          have := lookup_unique kvs ks kv.2 hnd hkv'
          rw [this] at hl
          simp only [Option.some.injEq] at hl
          subst hl
          refine elem_B false s kv.2 hok (hcr (s, kv.2) ?_)
          simp only [checkedPairs, needsMapping, List.any_eq_true]
          rw [if_pos ⟨s0, hs0, hk0⟩]
          simp only [List.mem_flatMap]
          refine ⟨kv, hkv, ?_⟩
          simp [hsv, specsForKey, hs, hc, hk]
      have hstrleft : strKeyLeft ss kvs = false := by
        simp only [strKeyLeft, List.any_eq_false]
        intro s hs
        simp only [List.mem_filter, bne_iff_ne, ne_eq] at hs
        cases hk : s.key with
        | none => simp
        | some k =>
          obtain ⟨v, hl, _⟩ := hfound s hs.1 hs.2 k hk
          have := mem_strKeys kvs k v (seen_of_lookup kvs k v hl)
          simp only [List.contains_eq_mem, decide_eq_true_eq] at this
          simp [this]
      simp [acceptMapping, hperkey, hstrleft]

theorem run_ok_steps (b : Bool) (ds : List Dir) (a : Arg) (h : cpyRun b ds a = true) :
    ∀ d ∈ ds, ∃ st1 st2, cpyStep b (cpyInit b a).2 st1 d = some st2 := by
  unfold cpyRun at h
  simp only [] at h
  cases hr : cpyRunAux b (cpyInit b a).2 (cpyInit b a).1 ds with
  | none => simp [hr] at h
  | some st' => exact run_some_steps b _ _ _ _ hr

theorem cRange_of_D (b : Bool) (ss : List CSpec) (a : Arg)
    (h : (!b && (checkedPairs ss a).any fun (s, e) =>
      s.conv == 'c' && (match e with | .sc (.int v) => decide (256 ≤ v) && decide (v < 0x110000) | _ => false)) = false) :
    ∀ p ∈ checkedPairs ss a,
      ¬ (b = false ∧ p.1.conv = 'c' ∧ ∃ v, p.2 = .sc (.int v) ∧ 256 ≤ v ∧ v < 0x110000) := by
  intro p hp ⟨hb, hc, v, hv, h1, h2⟩
  subst hb
  simp only [Bool.not_false, Bool.true_and, List.any_eq_false] at h
  have := h p hp
  obtain ⟨p1, p2⟩ := p
  simp only at hc hv
  subst hv
  simp [hc, h1, h2] at this

/-- **Completeness core for `%`**: if CPython formats successfully and the input is outside the
six "false report" classes, everything pyanalyze says is one of the documented lint rules. -/
theorem percent_ok_lint (b : Bool) (t : List Char) (a : Arg) (ty : RTy) (hwf : a.wf = true)
    (hcpy : cpyPercent b t a = .ok ty)
    (d1 : D17_cRangeStr b t a = false) (d2 : D17_dotNoDigits t = false)
    (d3 : D17_emptyKey t = false) (d4 : D17_parenKey t = false)
    (d6 : D17_pctOnlyMapping b t a = false)
    (d7 : D17_bytesMapping b t a = false) :
    ∀ e ∈ (pyaPercent b t a).errs, e.lintOnly = true := by
  unfold cpyPercent at hcpy
  cases htok : cpyTok t with
  | none => simp [htok] at hcpy
  | some ds =>
    simp only [htok] at hcpy
    split at hcpy
    · rename_i hrun
      have hsteps := run_ok_steps b ds a hrun
      have hconv : ∀ d ∈ ds, isConvCh d.conv = true ∧ d.conv ≠ '%' ∧ (b = true ∨ d.conv ≠ 'b') := by
        intro d hd
        obtain ⟨st1, st2, hs⟩ := hsteps d hd
        obtain ⟨e, he⟩ := (step_some_facts b _ _ _ _ hs).2.1
        exact cpyConvOk_isConv b d.conv e he
      obtain ⟨hbad, hds⟩ := sync_bwd t 0 ds d3 d4 d2 htok (fun d hd => (hconv d hd).1)
      change hasBad (scan t) = false at hbad
      change ds = dirsOf (specsOf (scan t)) at hds
      subst hds
      simp only [D17_cRangeStr] at d1
      simp only [D17_pctOnlyMapping] at d6
      simp only [D17_bytesMapping] at d7
      simp only [pyaPercent]
      generalize hss : specsOf (scan t) = ss at *
      have hlint : ∀ s ∈ ss, s.lint b = [] := by
        intro s hs
        unfold CSpec.lint
        split
        · rename_i hc
          simp only [beq_iff_eq] at hc
          split
          · rename_i ho
            have := (hconv _ (dirOf_mem ss s hs (Or.inr ho))).2.1
            exact absurd hc this
          · rfl
        · rename_i hc
          simp only [beq_iff_eq] at hc
          split
          · rename_i hcb
            simp only [beq_iff_eq] at hcb
            split
            · rename_i hb
              have := (hconv _ (dirOf_mem ss s hs (Or.inl hc))).2.2
              rcases this with h | h
              · simp [h] at hb
              · exact absurd hcb h
            · rfl
          · rfl
      have hno : NoPctOpts ss := fun s hs => (lint_facts b s (hlint s hs)).1
      intro e he
      rw [List.mem_append] at he
      rcases he with he | he
      · -- lint messages
        simp only [lintAll, hss, hasBad_zero _ hbad, List.replicate_zero, List.append_nil, List.mem_flatMap] at he
        obtain ⟨s, hs, he⟩ := he
        rw [hlint s hs, List.nil_append] at he
        split at he
        · simp only [List.mem_singleton] at he; subst he; rfl
        · cases he
      · -- accept messages
        unfold acceptAll at he
        split at he
        · split at he
          · simp only [List.mem_singleton] at he; subst he; rfl
          · cases he
        · exfalso
          rename_i hemp
          split at he
          · rename_i hnm
            have := mapping_lint b ss a hnm hwf hrun (by
                rintro ⟨hb, kvs, rfl⟩
                simp [hb, hnm] at d7) (cRange_of_D b ss a d1)
            rw [this] at he; cases he
          · rename_i hnm
            have hkeys : ∀ s ∈ ss, s.key = none := by
              intro s hs
              have : needsMapping ss = false := by simpa using hnm
              simp only [needsMapping, List.any_eq_false] at this
              have := this s hs
              cases hk : s.key <;> simp_all
            have := tuple_lint b ss a hkeys hno hrun (by
                rintro ⟨h1, h2⟩
                simp only [hemp, hnm, h1] at d6
                simp at d6
                exact h2 d6) (by
                intro hlen p hp s hps
                refine cRange_of_D b ss a d1 (s, p.2) ?_
                simp only [checkedPairs, hnm, Bool.false_eq_true, if_false, hlen, beq_self_eq_true, if_true,
                  List.mem_filterMap]
                exact ⟨p, hp, by obtain ⟨p1, p2⟩ := p; simp only at hps; subst hps; rfl⟩)
            rw [this] at he; cases he
    · cases hcpy

/-! ## Part 3 — `str.format` on plain templates (no `:` `.` `[` `!`) -/

inductive NameRes | eof | brace (rest : List Char) | ok (name rest : List Char)

/-- A field name in a plain template: up to the closing `}`; `{` or the end of the text is an error. -/
def nameUntil : List Char → NameRes
  | [] => .eof
  | c :: r =>
    if c == '}' then .ok [] r
    else if c == '{' then .brace r
    else match nameUntil r with
      | .ok n r' => .ok (c :: n) r'
      | x => x

theorem plain_cons {c : Char} {r : List Char} (h : fmtPlain (c :: r) = true) :
    plainCh c = true ∧ fmtPlain r = true := by
  simpa [fmtPlain] using h

theorem special_of_plain (c : Char) (hp : plainCh c = true) (h : c ≠ '}') : isSpecial c = false := by
  simp only [plainCh, Bool.not_eq_true', Bool.or_eq_false_iff, beq_eq_false_iff_ne] at hp
  simp [isSpecial, hp, h]

theorem fieldLoop_plain (depth : Nat) : ∀ (r : List Char) (fuel : Nat) (acc : List Char) (st : PSt),
    fmtPlain r = true → r.length < fuel →
    fieldLoop fuel depth acc 0 none false { st with rest := r } =
      match nameUntil r with
      | .eof => { st with rest := [], errs := st.errs ++ [.eofBrace] }
      | .brace r' => { st with rest := r', errs := st.errs ++ [.braceInName] }
      | .ok n r' => { st with rest := r',
                              fields := st.fields ++ [⟨mkArgName (acc.reverse ++ n), 0, none, false, depth⟩] } := by
  intro r
  induction r with
  | nil =>
    intro fuel acc st _ hf
    cases fuel with
    | zero => simp at hf
    | succ fuel => simp [fieldLoop, nameUntil]
  | cons c r ih =>
    intro fuel acc st hp hf
    obtain ⟨hc, hr⟩ := plain_cons hp
    cases fuel with
    | zero => simp at hf
    | succ fuel =>
      have hf' : r.length < fuel := by simpa using hf
      by_cases h1 : c = '}'
      · subst h1
        simp [fieldLoop, nameUntil, isSpecial]
      · have hs := special_of_plain c hc h1
        by_cases h2 : c = '{'
        · subst h2
          simp [fieldLoop, nameUntil, hs]
        · have := ih fuel (c :: acc) st hr hf'
          simp only [fieldLoop, hs, Bool.false_eq_true, if_false, beq_iff_eq, h2, nameUntil, h1]
          rw [this]
          cases nameUntil r <;> simp

theorem nameLoop_plain : ∀ (r : List Char), fmtPlain r = true →
    cpyNameLoop false r =
      match nameUntil r with
      | .ok n _ => some (n, '}', n.length + 1)
      | _ => none := by
  intro r
  induction r with
  | nil => intro _; rfl
  | cons c r ih =>
    intro hp
    obtain ⟨hc, hr⟩ := plain_cons hp
    simp only [plainCh, Bool.not_eq_true', Bool.or_eq_false_iff, beq_eq_false_iff_ne] at hc
    by_cases h1 : c = '}'
    · subst h1; simp [cpyNameLoop, nameUntil]
    · by_cases h2 : c = '{'
      · subst h2; simp [cpyNameLoop, nameUntil]
      · simp only [cpyNameLoop, beq_iff_eq, h2, if_false, h1, hc, or_self, ih hr, nameUntil]
        cases nameUntil r <;> simp [h1, hc]

theorem nameUntil_drop : ∀ (r n r' : List Char), nameUntil r = .ok n r' → r.drop (n.length + 1) = r' := by
  intro r
  induction r with
  | nil => intro n r' h; simp [nameUntil] at h
  | cons c r ih =>
    intro n r' h
    simp only [nameUntil] at h
    split at h
    · simp only [NameRes.ok.injEq] at h; obtain ⟨rfl, rfl⟩ := h; simp
    · split at h
      · cases h
      · split at h
        · rename_i n0 r0 hn
          simp only [NameRes.ok.injEq] at h
          obtain ⟨rfl, rfl⟩ := h
          simpa using ih n0 r0 hn
        · rename_i hx
          cases hn : nameUntil r with
          | ok a b => exact absurd hn (hx a b)
          | eof => rw [hn] at h; cases h
          | brace _ => rw [hn] at h; cases h

theorem fieldAt_plain (r : List Char) (hp : fmtPlain r = true) :
    cpyFieldAt r =
      match nameUntil r with
      | .ok n _ => some (⟨n, none, [], false⟩, n.length + 1)
      | _ => none := by
  unfold cpyFieldAt
  rw [nameLoop_plain r hp]
  cases nameUntil r <;> simp

theorem level_skip (inner : List Char → AutoSt → Option AutoSt) (nargs : Nat) (kws : List (List Char)) :
    ∀ (r : List Char) (k : Nat) (a : AutoSt),
    cpyLevelAux inner nargs kws k r a = cpyLevelAux inner nargs kws 0 (r.drop k) a := by
  intro r
  induction r with
  | nil => intro k a; cases k <;> simp [cpyLevelAux]
  | cons c r ih =>
    intro k a
    cases k with
    | zero => rfl
    | succ k => simp only [cpyLevelAux, List.drop_succ_cons]; exact ih k a

theorem firstPart_plain : ∀ (n : List Char), fmtPlain n = true → firstPart n = n := by
  intro n
  induction n with
  | nil => intro _; rfl
  | cons c r ih =>
    intro hp
    obtain ⟨hc, hr⟩ := plain_cons hp
    simp only [plainCh, Bool.not_eq_true', Bool.or_eq_false_iff, beq_eq_false_iff_ne] at hc
    simp [firstPart, hc, ih hr]

theorem lookup_plain (nargs : Nat) (kws : List (List Char)) (n : List Char) (a : AutoSt)
    (hp : fmtPlain n = true) :
    cpyLookup nargs kws ⟨n, none, [], false⟩ a = lookupF nargs kws (mkArgName n) a := by
  unfold cpyLookup mkArgName lookupF
  rw [firstPart_plain n hp]
  cases n with
  | nil => simp
  | cons c r =>
    by_cases hd : (c :: r).all isDigitCh = true
    · have hd' : (c :: r).all Char.isDigit = true := hd
      simp only [List.isEmpty_cons, Bool.false_eq_true, if_false, hd, if_true, Bool.not_false, Bool.true_and,
        hd', Bool.or_true, Bool.and_false, Bool.false_or, Bool.and_true]
      cases hs : (a.state == 0) <;> simp [hs]
    · have hd' : ¬ (c :: r).all Char.isDigit = true := hd
      simp [hd, hd']

theorem nameUntil_facts : ∀ (r : List Char), fmtPlain r = true →
    match nameUntil r with
    | .eof => True
    | .brace r' => r'.length < r.length ∧ fmtPlain r' = true
    | .ok n r' => r'.length < r.length ∧ fmtPlain r' = true ∧ fmtPlain n = true := by
  intro r
  induction r with
  | nil => intro _; simp [nameUntil]
  | cons c r ih =>
    intro hp
    obtain ⟨hc, hr⟩ := plain_cons hp
    have := ih hr
    by_cases h1 : c = '}'
    · subst h1; simp only [nameUntil, beq_self_eq_true, if_true]; exact ⟨by simp, hr, rfl⟩
    · by_cases h2 : c = '{'
      · subst h2; simp [nameUntil, hr]
      · simp only [nameUntil, beq_iff_eq, h1, h2, if_false]
        cases hn : nameUntil r with
        | eof => simp
        | brace r' => rw [hn] at this; simp only at this ⊢; exact ⟨by simp; omega, this.2⟩
        | ok n r' =>
          rw [hn] at this; simp only at this ⊢
          refine ⟨by simp; omega, this.2.1, ?_⟩
          simp only [fmtPlain, List.all_cons, hc, Bool.true_and]
          exact this.2.2

theorem level_cons (inner : List Char → AutoSt → Option AutoSt) (nargs : Nat) (kws : List (List Char))
    (c : Char) (r : List Char) (a : AutoSt) :
    cpyLevelAux inner nargs kws 0 (c :: r) a =
      if c == '{' then
        match r with
        | [] => none
        | '{' :: _ => cpyLevelAux inner nargs kws 1 r a
        | _ =>
          match cpyFieldAt r with
          | none => none
          | some (f, n) =>
            match cpyLookup nargs kws f a with
            | none => none
            | some st1 =>
              match (if f.expand then inner f.spec st1 else some st1) with
              | none => none
              | some st2 => cpyLevelAux inner nargs kws n r st2
      else if c == '}' then
        match r with
        | '}' :: _ => cpyLevelAux inner nargs kws 1 r a
        | _ => none
      else cpyLevelAux inner nargs kws 0 r a := by
  rfl

/-- **The two `str.format` parsers agree on plain templates**: pyanalyze's parser extends its
state by errors `es` and fields `fs`; CPython's `MarkupIterator` loop raises iff `es` is non-empty
or one of the lookups for `fs` fails. -/
theorem level_plain (inner : List Char → AutoSt → Option AutoSt) (nargs : Nat) (kws : List (List Char)) :
    ∀ (fuel : Nat) (r : List Char) (E : List FErr) (Fs : List Field) (a : AutoSt),
    fmtPlain r = true → r.length < fuel →
    ∃ es fs, (parseChildren fuel 0 false ⟨r, E, Fs⟩).errs = E ++ es ∧
      (parseChildren fuel 0 false ⟨r, E, Fs⟩).fields = Fs ++ fs ∧
      cpyLevelAux inner nargs kws 0 r a =
        (if es.isEmpty then lookupAll nargs kws a (fs.map (·.name)) else none) := by
  intro fuel
  induction fuel with
  | zero => intro r _ _ _ _ hf; simp at hf
  | succ fuel ih =>
    intro r E Fs a hp hf
    cases r with
    | nil => exact ⟨[], [], by simp [parseChildren], by simp [parseChildren], by simp [cpyLevelAux, lookupAll]⟩
    | cons c r1 =>
      obtain ⟨hc, hr1⟩ := plain_cons hp
      have hf1 : r1.length < fuel := by simpa using hf
      by_cases h1 : c = '{'
      · subst h1
        cases r1 with
        | nil =>
          cases fuel with
          | zero => simp at hf1
          | succ fuel =>
            refine ⟨[.eofBrace], [], ?_, ?_, ?_⟩ <;> simp [parseChildren, fieldLoop, cpyLevelAux]
        | cons c2 r2 =>
          by_cases h2 : c2 = '{'
          · subst h2
            obtain ⟨hc2, hr2⟩ := plain_cons hr1
            obtain ⟨es, fs, he, hfs, hl⟩ := ih r2 E Fs a hr2 (by simp at hf1; omega)
            refine ⟨es, fs, ?_, ?_, ?_⟩
            · simpa [parseChildren] using he
            · simpa [parseChildren] using hfs
            · simp only [cpyLevelAux, beq_self_eq_true, if_true]
              rw [level_skip]; simpa using hl
          · have hfl := fieldLoop_plain 0 (c2 :: r2) fuel [] ⟨[], E, Fs⟩ hr1 hf1
            have hpc : parseChildren (fuel + 1) 0 false ⟨'{' :: c2 :: r2, E, Fs⟩ =
                parseChildren fuel 0 false (fieldLoop fuel 0 [] 0 none false ⟨c2 :: r2, E, Fs⟩) := by
              simp only [parseChildren, Bool.false_and, Bool.false_eq_true, if_false, beq_self_eq_true, if_true]
              split
              · rename_i heq; cases heq; exact absurd rfl h2
              · rfl
            have hcl : cpyLevelAux inner nargs kws 0 ('{' :: c2 :: r2) a =
                match cpyFieldAt (c2 :: r2) with
                | none => none
                | some (f, n) =>
                  match cpyLookup nargs kws f a with
                  | none => none
                  | some st1 =>
                    match (if f.expand then inner f.spec st1 else some st1) with
                    | none => none
                    | some st2 => cpyLevelAux inner nargs kws n (c2 :: r2) st2 := by
              simp only [cpyLevelAux, beq_self_eq_true, if_true]
              split
              · rename_i heq; cases heq
              · rename_i heq; cases heq; exact absurd rfl h2
              · rfl
            rw [hpc, hcl, fieldAt_plain _ hr1]
            simp only at hfl
            rw [hfl]
            have hfacts := nameUntil_facts (c2 :: r2) hr1
            cases hn : nameUntil (c2 :: r2) with
            | eof =>
              obtain ⟨es, fs, he, hfs, _⟩ := ih [] (E ++ [.eofBrace]) Fs a (by simp [fmtPlain])
                (by simp only [List.length_cons, List.length_nil] at hf1 ⊢; omega)
              exact ⟨.eofBrace :: es, fs, by simpa using he, by simpa using hfs, by simp⟩
            | brace r' =>
              rw [hn] at hfacts
              obtain ⟨es, fs, he, hfs, _⟩ := ih r' (E ++ [.braceInName]) Fs a hfacts.2 (by omega)
              exact ⟨.braceInName :: es, fs, by simpa using he, by simpa using hfs, by simp⟩
            | ok n r' =>
              rw [hn] at hfacts
              simp only
              rw [lookup_plain nargs kws n a hfacts.2.2]
              cases hlk : lookupF nargs kws (mkArgName ([].reverse ++ n)) a with
              | none =>
                obtain ⟨es, fs, he, hfs, _⟩ := ih r' E (Fs ++ [⟨mkArgName ([].reverse ++ n), 0, none, false, 0⟩]) a hfacts.2.1 (by omega)
                refine ⟨es, _ :: fs, he, by simpa using hfs, ?_⟩
                simp only [List.reverse_nil, List.nil_append] at hlk
                simp [lookupAll, hlk]
              | some a' =>
                obtain ⟨es, fs, he, hfs, hl⟩ := ih r' E (Fs ++ [⟨mkArgName ([].reverse ++ n), 0, none, false, 0⟩]) a' hfacts.2.1 (by omega)
                refine ⟨es, _ :: fs, he, by simpa using hfs, ?_⟩
                simp only [List.reverse_nil, List.nil_append] at hlk
                simp only [hlk, Bool.false_eq_true, if_false]
                rw [level_skip, nameUntil_drop _ _ _ hn, hl]
                simp [lookupAll, hlk]
      · by_cases h3 : c = '}'
        · subst h3
          cases r1 with
          | nil =>
            obtain ⟨es, fs, he, hfs, _⟩ := ih [] (E ++ [.single]) Fs a (by simp [fmtPlain]) (by omega)
            refine ⟨.single :: es, fs, ?_, ?_, ?_⟩
            · simpa [parseChildren] using he
            · simpa [parseChildren] using hfs
            · simp [cpyLevelAux]
          | cons c2 r2 =>
            by_cases h2 : c2 = '}'
            · subst h2
              obtain ⟨hc2, hr2⟩ := plain_cons hr1
              obtain ⟨es, fs, he, hfs, hl⟩ := ih r2 E Fs a hr2 (by simp at hf1; omega)
              refine ⟨es, fs, ?_, ?_, ?_⟩
              · simpa [parseChildren] using he
              · simpa [parseChildren] using hfs
              · simp only [cpyLevelAux]
                rw [level_skip]; simpa using hl
            · obtain ⟨es, fs, he, hfs, _⟩ := ih (c2 :: r2) (E ++ [.single]) Fs a hr1 hf1
              have hpc : parseChildren (fuel + 1) 0 false ⟨'}' :: c2 :: r2, E, Fs⟩ =
                  parseChildren fuel 0 false ⟨c2 :: r2, E ++ [.single], Fs⟩ := by
                simp only [parseChildren, Bool.false_and, Bool.false_eq_true, if_false, beq_self_eq_true, if_true]
                split
                · rename_i heq; cases heq
                · split
                  · rename_i heq; cases heq; exact absurd rfl h2
                  · rfl
              have hcl : cpyLevelAux inner nargs kws 0 ('}' :: c2 :: r2) a = none := by
                rw [level_cons]
                simp only [show ('}' == '{') = false by decide, Bool.false_eq_true, if_false,
                  beq_self_eq_true, if_true]
                split
                · rename_i heq; cases heq; exact absurd rfl h2
                · rfl
              rw [hpc, hcl]
              exact ⟨.single :: es, fs, by simpa using he, by simpa using hfs, by simp⟩
        · obtain ⟨es, fs, he, hfs, hl⟩ := ih r1 E Fs a hr1 hf1
          refine ⟨es, fs, ?_, ?_, ?_⟩
          · simpa [parseChildren, h1, h3] using he
          · simpa [parseChildren, h1, h3] using hfs
          · simpa [cpyLevelAux, h1, h3] using hl

/-- The non-lint messages of `_str_format_impl`'s loop, as a function of the field names. -/
def accMsgs (nargs : Nat) (kws : List (List Char)) : Nat → List ArgName → List FMsg
  | _, [] => []
  | cur, .auto :: fs => (if cur ≥ nargs then [FMsg.tooFew] else []) ++ accMsgs nargs kws (cur + 1) fs
  | cur, .idx i :: fs => (if i ≥ nargs then [FMsg.outOfRange] else []) ++ accMsgs nargs kws cur fs
  | cur, .name s :: fs => (if !kws.contains s then [FMsg.notGiven] else []) ++ accMsgs nargs kws cur fs

theorem fold_msgs (nargs : Nat) (kws : List (List Char)) : ∀ (fs : List Field) (st : AccSt),
    (fs.foldl (accStep nargs kws) st).msgs = st.msgs ++ accMsgs nargs kws st.cur (fs.map (·.name)) := by
  intro fs
  induction fs with
  | nil => intro st; simp [accMsgs]
  | cons f fs ih =>
    intro st
    simp only [List.foldl_cons, List.map_cons]
    rw [ih]
    cases hn : f.name with
    | auto => simp only [accStep, hn, accMsgs]; split <;> simp
    | idx i => simp only [accStep, hn, accMsgs]; split <;> simp
    | name s => simp only [accStep, hn, accMsgs]; split <;> simp

theorem accMsgs_nonlint (nargs : Nat) (kws : List (List Char)) : ∀ (fs : List ArgName) (cur : Nat),
    ∀ m ∈ accMsgs nargs kws cur fs, m.lintOnly = false := by
  intro fs
  induction fs with
  | nil => intro cur m hm; simp [accMsgs] at hm
  | cons f fs ih =>
    intro cur m hm
    cases f with
    | auto =>
      simp only [accMsgs, List.mem_append] at hm
      rcases hm with hm | hm
      · split at hm <;> simp at hm; subst hm; rfl
      · exact ih _ m hm
    | idx i =>
      simp only [accMsgs, List.mem_append] at hm
      rcases hm with hm | hm
      · split at hm <;> simp at hm; subst hm; rfl
      · exact ih _ m hm
    | name s =>
      simp only [accMsgs, List.mem_append] at hm
      rcases hm with hm | hm
      · split at hm <;> simp at hm; subst hm; rfl
      · exact ih _ m hm

def NoIdx (fs : List ArgName) : Prop := ∀ nm ∈ fs, ∀ i, nm ≠ ArgName.idx i
def NoAuto (fs : List ArgName) : Prop := ∀ nm ∈ fs, nm ≠ ArgName.auto

/-- Without a mix of automatic and manual numbering, CPython's lookups all succeed exactly when
pyanalyze's accounting loop emits no message. -/
theorem lookup_acc (nargs : Nat) (kws : List (List Char)) : ∀ (fs : List ArgName) (a : AutoSt) (cur : Nat),
    ((a.state ≠ 2 ∧ a.next = cur ∧ NoIdx fs) ∨ (a.state ≠ 1 ∧ NoAuto fs)) →
    ((lookupAll nargs kws a fs).isSome = true ↔ accMsgs nargs kws cur fs = []) := by
  intro fs
  induction fs with
  | nil => intro a cur _; simp [lookupAll, accMsgs]
  | cons f fs ih =>
    intro a cur h
    cases f with
    | auto =>
      rcases h with ⟨h2, hn, hni⟩ | ⟨_, hna⟩
      · have hni' : NoIdx fs := fun nm hm => hni nm (by simp [hm])
        simp only [lookupAll, lookupF, accMsgs]
        by_cases h0 : a.state = 0
        · simp only [h0, beq_self_eq_true, if_true, show ((1 : Nat) == 2) = false by decide, Bool.false_eq_true, if_false]
          by_cases hlt : a.next < nargs
          · have := ih { a with state := 1, next := a.next + 1 } (cur + 1)
              (Or.inl ⟨by simp, by simp [hn], hni'⟩)
            simp only [hlt, if_true, Option.bind_some, this]
            have : ¬ cur ≥ nargs := by omega
            simp [this]
          · have : cur ≥ nargs := by omega
            simp [hlt, this]
        · have hs0 : (a.state == 0) = false := by simpa using h0
          have hs2 : (a.state == 2) = false := by simpa using h2
          simp only [hs0, Bool.false_eq_true, if_false, hs2]
          by_cases hlt : a.next < nargs
          · have := ih { a with next := a.next + 1 } (cur + 1) (Or.inl ⟨h2, by simp [hn], hni'⟩)
            simp only [hlt, if_true, Option.bind_some, this]
            have : ¬ cur ≥ nargs := by omega
            simp [this]
          · have : cur ≥ nargs := by omega
            simp [hlt, this]
      · exact absurd rfl (hna .auto (by simp))
    | idx i =>
      rcases h with ⟨_, _, hni⟩ | ⟨h1, hna⟩
      · exact absurd rfl (hni (.idx i) (by simp) i)
      · have hna' : NoAuto fs := fun nm hm => hna nm (by simp [hm])
        simp only [lookupAll, lookupF, accMsgs]
        by_cases h0 : a.state = 0
        · simp only [h0, beq_self_eq_true, if_true, show ((2 : Nat) == 1) = false by decide, Bool.false_eq_true, if_false]
          by_cases hlt : i < nargs
          · have := ih { a with state := 2 } cur (Or.inr ⟨by simp, hna'⟩)
            simp only [hlt, if_true, Option.bind_some, this]
            have : ¬ i ≥ nargs := by omega
            simp [this]
          · have : i ≥ nargs := by omega
            simp [hlt, this]
        · have hs0 : (a.state == 0) = false := by simpa using h0
          have hs1 : (a.state == 1) = false := by simpa using h1
          simp only [hs0, Bool.false_eq_true, if_false, hs1]
          by_cases hlt : i < nargs
          · have := ih a cur (Or.inr ⟨h1, hna'⟩)
            simp only [hlt, if_true, Option.bind_some, this]
            have : ¬ i ≥ nargs := by omega
            simp [this]
          · have : i ≥ nargs := by omega
            simp [hlt, this]
    | name s =>
      have h' : (a.state ≠ 2 ∧ a.next = cur ∧ NoIdx fs) ∨ (a.state ≠ 1 ∧ NoAuto fs) := by
        rcases h with ⟨h2, hn, hni⟩ | ⟨h1, hna⟩
        · exact Or.inl ⟨h2, hn, fun nm hm => hni nm (by simp [hm])⟩
        · exact Or.inr ⟨h1, fun nm hm => hna nm (by simp [hm])⟩
      simp only [lookupAll, lookupF, accMsgs]
      by_cases hk : s ∈ kws
      · simp [hk, ih a cur h']
      · simp [hk]

theorem noMix_cases (fs : List Field)
    (h : (fs.any (·.name == .auto) && fs.any (fun f => match f.name with | .idx _ => true | _ => false)) = false) :
    NoIdx (fs.map (·.name)) ∨ NoAuto (fs.map (·.name)) := by
  simp only [Bool.and_eq_false_iff, List.any_eq_false] at h
  rcases h with h | h
  · right
    intro nm hm
    simp only [List.mem_map] at hm
    obtain ⟨f, hf, rfl⟩ := hm
    simpa using h f hf
  · left
    intro nm hm i
    simp only [List.mem_map] at hm
    obtain ⟨f, hf, rfl⟩ := hm
    intro he
    have := h f hf
    simp [he] at this

/-- **`str.format` on plain templates.** -/
theorem format_plain_iff (t : List Char) (nargs : Nat) (kws : List (List Char))
    (hp : fmtPlain t = true) (hd : D17_fmtAutoManual t = false) :
    cpyFormat t nargs kws = true ↔ ∀ m ∈ pyaFormat t nargs kws, m.lintOnly = true := by
  obtain ⟨es, fs, he, hfs, hl⟩ :=
    level_plain (cpyLevel nargs kws 1) nargs kws (2 * t.length + 2) t [] [] {} hp (by omega)
  simp only [List.nil_append] at he hfs
  have hcpy : cpyFormat t nargs kws =
      (cpyLevelAux (cpyLevel nargs kws 1) nargs kws 0 t {}).isSome := rfl
  have hpf : parseFormat t = (fs, es) := by
    simp only [parseFormat]
    rw [← he, ← hfs]
  rw [hcpy, hl]
  simp only [pyaFormat, hpf]
  cases es with
  | cons e es' =>
    simp only [List.isEmpty_cons, Bool.false_eq_true, if_false, Option.isSome_none, List.mem_singleton,
      forall_eq, FMsg.lintOnly]
  | nil =>
    simp only [List.isEmpty_nil, if_true]
    simp only [D17_fmtAutoManual, hpf] at hd
    have hmix := noMix_cases fs hd
    have hacc := lookup_acc nargs kws (fs.map (·.name)) {} 0 (by
      rcases hmix with h | h
      · exact Or.inl ⟨by decide, rfl, h⟩
      · exact Or.inr ⟨by decide, h⟩)
    rw [hacc]
    simp only [accountFields, fold_msgs, List.nil_append]
    constructor
    · intro h0 m hm
      rw [h0] at hm
      simp only [List.nil_append, List.mem_append] at hm
      rcases hm with hm | hm
      · split at hm <;> simp at hm; subst hm; rfl
      · split at hm <;> simp at hm; subst hm; rfl
    · intro hall
      cases hm : accMsgs nargs kws 0 (fs.map (·.name)) with
      | nil => rfl
      | cons m ms =>
        exfalso
        have h1 := hall m (by simp [hm])
        have h2 := accMsgs_nonlint nargs kws (fs.map (·.name)) 0 m (by rw [hm]; simp)
        rw [h1] at h2; cases h2
/-! ## Part 4 — union-typed operands -/

theorem pyaPercentU_single (b : Bool) (t : List Char) (a : Arg) : pyaPercentU b t [a] = pyaPercent b t a := rfl

/-- every message for a member alone is also emitted for the union -/
theorem union_member_subset (b : Bool) (t : List Char) (as : List Arg) (a : Arg) (ha : a ∈ as) :
    ∀ e ∈ (pyaPercent b t a).errs, e ∈ (pyaPercentU b t as).errs := by
  intro e he
  simp only [pyaPercent, pyaPercentU, List.mem_append] at he ⊢
  rcases he with he | he
  · exact Or.inl he
  · right
    unfold acceptAllU
    split
    · rename_i a0
      simp only [List.mem_singleton] at ha
      subst ha; exact he
    · unfold acceptAll at he
      split
      · rename_i hemp
        simp only [hemp, if_true] at he
        split at he
        · exact he
        · cases he
      · rename_i hemp
        simp only [hemp, Bool.false_eq_true, if_false] at he
        split
        · rename_i hnm
          simp only [hnm, if_true] at he
          exact List.mem_flatMap.mpr ⟨a, ha, he⟩
        · rename_i hnm
          simp only [hnm] at he
          exact List.mem_flatMap.mpr ⟨a, ha, he⟩

/-- every message for the union is `noSpecs` or a message for some member alone -/
theorem union_from_members (b : Bool) (t : List Char) (as : List Arg) (hne : as ≠ []) :
    ∀ e ∈ (pyaPercentU b t as).errs, e = .noSpecs ∨ ∃ a ∈ as, e ∈ (pyaPercent b t a).errs := by
  intro e he
  simp only [pyaPercent, pyaPercentU, List.mem_append] at he ⊢
  rcases he with he | he
  · cases as with
    | nil => exact absurd rfl hne
    | cons a _ => exact Or.inr ⟨a, by simp, Or.inl he⟩
  · unfold acceptAllU at he
    split at he
    · rename_i a0
      exact Or.inr ⟨a0, by simp, Or.inr he⟩
    · split at he
      · simp only [List.mem_singleton] at he; exact Or.inl he
      · rename_i hemp
        split at he
        · rename_i hnm
          obtain ⟨a, ha, hea⟩ := List.mem_flatMap.mp he
          exact Or.inr ⟨a, ha, Or.inr (by simp only [acceptAll, hemp, Bool.false_eq_true, if_false, hnm, if_true]; exact hea)⟩
        · rename_i hnm
          obtain ⟨a, ha, hea⟩ := List.mem_flatMap.mp he
          exact Or.inr ⟨a, ha, Or.inr (by simp only [acceptAll, hemp, Bool.false_eq_true, if_false, hnm]; exact hea)⟩

end Pya.C17
