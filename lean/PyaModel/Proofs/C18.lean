import PyaModel.Spec.ConfigSpec
/-!
# Proofs/C18 — helper lemmas for the configuration-layering theorems

Part A: the stable insertion sort (`sortBy`) — sortedness, membership, `find?`/`filter`/append laws.
Part B: instance level — `keyLe` is a total preorder, lookups as "first minimum".
Part C: `_parse_config_section` as a normal form; shape of the output for a chain of files.
-/
set_option linter.unusedSimpArgs false
namespace Pya.C18

/-! ## Part A — stable sort -/
/-- `pick`/`best`: the first element with a minimal key. -/
def pick {α : Type} (le : α → α → Bool) (a : α) : Option α → α
  | none => a
  | some b => if le a b then a else b

def best {α : Type} (le : α → α → Bool) : List α → Option α
  | [] => none
  | x :: xs => some (pick le x (best le xs))

section SortLemmas
variable {α : Type} (le : α → α → Bool)

def TotalLe : Prop := ∀ a b, le a b = true ∨ le b a = true
def TransLe : Prop := ∀ a b c, le a b = true → le b c = true → le a c = true

def SortedBy (l : List α) : Prop := l.Pairwise (fun a b => le a b = true)

theorem insertBy_pos {x y : α} {ys : List α} (h : le x y = true) :
    insertBy le x (y :: ys) = x :: y :: ys := by simp [insertBy, h]

theorem insertBy_neg {x y : α} {ys : List α} (h : ¬ le x y = true) :
    insertBy le x (y :: ys) = y :: insertBy le x ys := by simp [insertBy, h]

theorem mem_insertBy {x z : α} {ys : List α} : z ∈ insertBy le x ys ↔ z = x ∨ z ∈ ys := by
  induction ys with
  | nil => simp [insertBy]
  | cons y ys ih =>
    by_cases hxy : le x y = true
    · rw [insertBy_pos le hxy]; simp
    · rw [insertBy_neg le hxy]; simp [ih]; grind

theorem mem_sortBy {z : α} {l : List α} : z ∈ sortBy le l ↔ z ∈ l := by
  induction l with
  | nil => simp [sortBy]
  | cons x xs ih => simp [sortBy, mem_insertBy, ih]

theorem sorted_insertBy (htot : TotalLe le) (htr : TransLe le) {x : α} {ys : List α}
    (h : SortedBy le ys) : SortedBy le (insertBy le x ys) := by
  unfold SortedBy at *
  induction ys with
  | nil => simp [insertBy]
  | cons y ys ih =>
    rw [List.pairwise_cons] at h
    by_cases hxy : le x y = true
    · rw [insertBy_pos le hxy, List.pairwise_cons]
      refine ⟨?_, List.pairwise_cons.2 h⟩
      intro z hz
      rcases List.mem_cons.1 hz with rfl | hz
      · exact hxy
      · exact htr _ _ _ hxy (h.1 z hz)
    · rw [insertBy_neg le hxy, List.pairwise_cons]
      refine ⟨?_, ih h.2⟩
      intro z hz
      rcases (mem_insertBy le).1 hz with rfl | hz
      · rcases htot z y with h1 | h1
        · exact absurd h1 hxy
        · exact h1
      · exact h.1 z hz

theorem sorted_sortBy (htot : TotalLe le) (htr : TransLe le) (l : List α) : SortedBy le (sortBy le l) := by
  induction l with
  | nil => simp [sortBy, SortedBy]
  | cons x xs ih => exact sorted_insertBy le htot htr ih

/-- Inserting below everything puts the element in front. -/
theorem insertBy_of_le_all {x : α} {zs : List α} (h : ∀ z ∈ zs, le x z = true) :
    insertBy le x zs = x :: zs := by
  cases zs with
  | nil => rfl
  | cons z zs => exact insertBy_pos le (h z (by simp))

theorem insertBy_append_left {x : α} {s1 s2 : List α} (h : ∀ z ∈ s2, le x z = true) :
    insertBy le x (s1 ++ s2) = insertBy le x s1 ++ s2 := by
  induction s1 with
  | nil => simp [insertBy_of_le_all le h, insertBy]
  | cons y s1 ih =>
    by_cases hxy : le x y = true
    · simp [insertBy_pos le hxy]
    · simp [insertBy_neg le hxy, ih]

theorem insertBy_append_right {x : α} {s1 s2 : List α} (h : ∀ z ∈ s1, le x z = false) :
    insertBy le x (s1 ++ s2) = s1 ++ insertBy le x s2 := by
  induction s1 with
  | nil => simp
  | cons y s1 ih =>
    have hy : ¬ le x y = true := by simp [h y (by simp)]
    simp [insertBy_neg le hy, ih (fun z hz => h z (by simp [hz]))]

/-- Layers already in key order sort layer by layer. -/
theorem sortBy_append_le {xs ys : List α} (h : ∀ a ∈ xs, ∀ b ∈ ys, le a b = true) :
    sortBy le (xs ++ ys) = sortBy le xs ++ sortBy le ys := by
  induction xs with
  | nil => simp [sortBy]
  | cons x xs ih =>
    simp only [List.cons_append, sortBy]
    rw [ih (fun a ha b hb => h a (by simp [ha]) b hb)]
    exact insertBy_append_left le (fun z hz => h x (by simp) z ((mem_sortBy le).1 hz))

/-- A later block of strictly smaller keys moves in front. -/
theorem sortBy_append_gt {xs ys : List α} (h : ∀ a ∈ xs, ∀ b ∈ ys, le a b = false) :
    sortBy le (xs ++ ys) = sortBy le ys ++ sortBy le xs := by
  induction xs with
  | nil => simp [sortBy]
  | cons x xs ih =>
    simp only [List.cons_append, sortBy]
    rw [ih (fun a ha b hb => h a (by simp [ha]) b hb)]
    exact insertBy_append_right le (fun z hz => h x (by simp) z ((mem_sortBy le).1 hz))

/-- The splice `X ++ R ++ Y` sorts to `sort (X ++ Y) ++ sort R` when every key of `R` is not
smaller than those of `X` and strictly greater than those of `Y`. -/
theorem sortBy_splice {X R Y : List α} (hx : ∀ a ∈ X, ∀ r ∈ R, le a r = true)
    (hy : ∀ r ∈ R, ∀ b ∈ Y, le r b = false) :
    sortBy le (X ++ (R ++ Y)) = sortBy le (X ++ Y) ++ sortBy le R := by
  induction X with
  | nil => simpa [sortBy] using sortBy_append_gt le hy
  | cons x X ih =>
    simp only [List.cons_append, sortBy]
    rw [ih (fun a ha r hr => hx a (by simp [ha]) r hr)]
    exact insertBy_append_left le (fun z hz => hx x (by simp) z ((mem_sortBy le).1 hz))

theorem find_insertBy (htr : TransLe le) (p : α → Bool) {x : α} {ys : List α} (h : SortedBy le ys) :
    (insertBy le x ys).find? p = if p x then some (pick le x (ys.find? p)) else ys.find? p := by
  unfold SortedBy at h
  induction ys with
  | nil => by_cases hpx : p x = true <;> simp [insertBy, pick, hpx]
  | cons y ys ih =>
    rw [List.pairwise_cons] at h
    by_cases hxy : le x y = true
    · rw [insertBy_pos le hxy]
      by_cases hpx : p x = true
      · simp only [List.find?_cons, hpx, if_true]
        by_cases hpy : p y = true
        · simp [hpy, pick, hxy]
        · simp only [hpy]
          cases hf : ys.find? p with
          | none => simp [pick]
          | some b =>
            have hb : b ∈ ys := List.mem_of_find?_eq_some hf
            simp [pick, htr _ _ _ hxy (h.1 b hb)]
      · simp [List.find?_cons, hpx]
    · rw [insertBy_neg le hxy]
      by_cases hpy : p y = true
      · by_cases hpx : p x = true
        · simp [hpy, hpx, pick, hxy]
        · simp [hpy, hpx]
      · simp only [List.find?_cons, hpy]
        exact ih h.2

/-- Looking up the first element satisfying `p` in the stably sorted list gives the first
element of minimal key among those satisfying `p` in the original list. -/
theorem find_sortBy (htot : TotalLe le) (htr : TransLe le) (p : α → Bool) (l : List α) :
    (sortBy le l).find? p = best le (l.filter p) := by
  induction l with
  | nil => simp [sortBy, best]
  | cons x xs ih =>
    simp only [sortBy]
    rw [find_insertBy le htr p (sorted_sortBy le htot htr xs), ih]
    by_cases hpx : p x = true
    · simp [hpx, List.filter, best]
    · simp [hpx, List.filter]

theorem filter_insertBy (htr : TransLe le) (p : α → Bool) {x : α} {ys : List α} (h : SortedBy le ys) :
    (insertBy le x ys).filter p = if p x then insertBy le x (ys.filter p) else ys.filter p := by
  unfold SortedBy at h
  induction ys with
  | nil => by_cases hpx : p x = true <;> simp [insertBy, hpx]
  | cons y ys ih =>
    rw [List.pairwise_cons] at h
    by_cases hxy : le x y = true
    · rw [insertBy_pos le hxy]
      by_cases hpx : p x = true
      · have hall : ∀ z ∈ (y :: ys).filter p, le x z = true := by
          intro z hz
          have hz' : z ∈ y :: ys := (List.mem_filter.1 hz).1
          rcases List.mem_cons.1 hz' with rfl | hz'
          · exact hxy
          · exact htr _ _ _ hxy (h.1 z hz')
        rw [if_pos hpx, insertBy_of_le_all le hall]
        simp [List.filter_cons, hpx]
      · simp [List.filter_cons, hpx]
    · rw [insertBy_neg le hxy]
      have := ih h.2
      by_cases hpy : p y = true
      · by_cases hpx : p x = true
        · simp only [List.filter_cons, hpy, hpx, if_true] at this ⊢
          rw [insertBy_neg le hxy, this]
        · simp only [List.filter_cons, hpy, hpx, if_true] at this ⊢
          simp [this]
      · simp only [List.filter_cons, hpy]
        exact this

/-- Filtering commutes with the stable sort. -/
theorem filter_sortBy (htot : TotalLe le) (htr : TransLe le) (p : α → Bool) (l : List α) :
    (sortBy le l).filter p = sortBy le (l.filter p) := by
  induction l with
  | nil => simp [sortBy]
  | cons x xs ih =>
    simp only [sortBy]
    rw [filter_insertBy le htr p (sorted_sortBy le htot htr xs), ih]
    by_cases hpx : p x = true
    · simp [hpx, sortBy]
    · simp [hpx]

theorem head_sortBy (htot : TotalLe le) (htr : TransLe le) (l : List α) :
    (sortBy le l).head? = best le l := by
  have := find_sortBy le htot htr (fun _ => true) l
  have h1 : ∀ l : List α, l.find? (fun _ => true) = l.head? := by intro l; cases l <;> simp
  have h2 : ∀ l : List α, l.filter (fun _ => true) = l := by intro l; induction l <;> simp_all
  rw [h1, h2] at this; exact this

end SortLemmas

/-! ## Part B — instances: the sort key, lookups as "first minimum" -/

theorem keyLe_total : TotalLe keyLe := by
  intro a b
  simp only [keyLe, Bool.or_eq_true, Bool.and_eq_true, decide_eq_true_eq, beq_iff_eq]
  omega

theorem keyLe_trans : TransLe keyLe := by
  intro a b c
  simp only [keyLe, Bool.or_eq_true, Bool.and_eq_true, decide_eq_true_eq, beq_iff_eq]
  omega

theorem best_mem {α : Type} (le : α → α → Bool) {l : List α} {b : α} (h : best le l = some b) : b ∈ l := by
  induction l generalizing b with
  | nil => simp [best] at h
  | cons x xs ih =>
    simp only [best, Option.some.injEq] at h
    cases hb : best le xs with
    | none => simp [hb, pick] at h; simp [h]
    | some c =>
      simp only [hb, pick] at h
      split at h
      · simp [← h]
      · subst h; simp [ih hb]

/-- `i` stands in `l` after elements of strictly greater key only and before elements of
greater-or-equal key only: the first element of minimal key. -/
def FirstMin {α : Type} (le : α → α → Bool) (l : List α) (i : α) : Prop :=
  ∃ pre post, l = pre ++ i :: post ∧ (∀ x ∈ pre, le x i = false) ∧ (∀ x ∈ post, le i x = true)

theorem best_of_firstMin {α : Type} (le : α → α → Bool) {l : List α} {i : α} (h : FirstMin le l i) :
    best le l = some i := by
  obtain ⟨pre, post, rfl, hpre, hpost⟩ := h
  induction pre with
  | nil =>
    simp only [List.nil_append, best]
    cases hb : best le post with
    | none => simp [pick]
    | some b => simp [pick, hpost b (best_mem le hb)]
  | cons x pre ih =>
    simp only [List.cons_append, best]
    rw [ih (fun y hy => hpre y (by simp [hy]))]
    simp [pick, hpre x (by simp)]

/-- The instances that matter for option `d` at module path `mod`, in list order. -/
def relevant (d : OptDecl) (mod : List String) (insts : List Inst) : List Inst :=
  (insts.filter (·.name == d.name)).filter (·.applicable mod)

theorem defaultInst_applicable (d : OptDecl) (mod : List String) : (defaultInst d).applicable mod = true := by
  simp [defaultInst, Inst.applicable]

theorem getFirst_eq_best (d : OptDecl) (insts : List Inst) (mod : List String) :
    getFirst d insts mod = match best keyLe (relevant d mod insts) with
      | some i => i.val
      | none => d.dflt := by
  unfold getFirst candidates optionsFor relevant
  rw [List.find?_append, find_sortBy keyLe keyLe_total keyLe_trans]
  cases best keyLe (List.filter (fun x => x.applicable mod) (List.filter (fun x => x.name == d.name) insts)) with
  | some i => simp
  | none => simp [defaultInst_applicable]; rfl

theorem getConcat_eq_sorted (d : OptDecl) (insts : List Inst) (mod : List String) :
    getConcat d insts mod =
      .strs ((sortBy keyLe (relevant d mod insts)).flatMap (·.val.asStrs) ++ d.dflt.asStrs) := by
  unfold getConcat candidates optionsFor relevant
  rw [List.filter_append, filter_sortBy keyLe keyLe_total keyLe_trans]
  have hv : (defaultInst d).val = d.dflt := rfl
  simp [defaultInst_applicable, hv]

/-! ## Part C — `_parse_config_section` as a normal form -/

/-- What one iteration of the section loop yields. -/
def itemInsts (reg : Registry) (ext : String → Nat → Except CfgErr (List Inst))
    (onOv : TV → Except CfgErr (List Inst)) (modPath : List String) (prio : Nat)
    (kv : String × TV) : Except CfgErr (List Inst) :=
  if kv.1 == "module" then (if modPath.isEmpty then .error .topLevelModule else .ok [])
  else if kv.1 == "extend_config" then
    (match kv.2 with | .str t => ext t (prio + 1) | _ => .error .extendNotStr)
  else if kv.1 == "overrides" then onOv kv.2
  else if kv.1 == "disable_all" then (match kv.2 with | .bool _ => .ok [] | _ => .error .disableNotBool)
  else match reg.find kv.1 with
    | none => .error (.unknownKey kv.1)
    | some d =>
      if d.kind == .other then .error (.unmodelled kv.1) else
      match parseValue d.kind kv.2 with
      | none => .error (.badValue kv.1)
      | some v => .ok [fileInst kv.1 v modPath prio]

/-- The update of `enabled_error_codes`. -/
def itemEnabled (reg : Registry) (en : List String) (kv : String × TV) : List String :=
  if isStructural kv.1 then en else
  match reg.find kv.1, kv.2 with
  | some d, .bool true => if d.isCode then kv.1 :: en else en
  | _, _ => en

/-- The update of `disable_all_default_error_codes`. -/
def itemDisable (dis : Bool) (kv : String × TV) : Bool :=
  if kv.1 == "disable_all" then (match kv.2 with | .bool b => b | _ => dis) else dis

theorem sectionStep_eq (reg ext onOv modPath prio) (st : SecState) (kv : String × TV) :
    sectionStep reg ext onOv modPath prio st kv =
      (itemInsts reg ext onOv modPath prio kv).map (fun o =>
        { out := st.out ++ o, enabled := itemEnabled reg st.enabled kv, disable := itemDisable st.disable kv }) := by
  obtain ⟨k, v⟩ := kv
  unfold sectionStep itemInsts itemEnabled itemDisable isStructural
  by_cases h1 : k = "module"
  · subst h1; by_cases hm : modPath.isEmpty <;> simp [hm, Except.map]
  by_cases h2 : k = "extend_config"
  · subst h2
    cases v <;> simp [Except.map, bind, Except.bind]
    rename_i t; cases ext t (prio + 1) <;> simp [pure, Except.pure]
  by_cases h3 : k = "overrides"
  · subst h3; simp [Except.map, bind, Except.bind]
    cases onOv v <;> simp [pure, Except.pure]
  by_cases h4 : k = "disable_all"
  · subst h4; cases v <;> simp [Except.map]
  simp only [beq_iff_eq, h1, h2, h3, h4, if_false]
  cases hf : reg.find k with
  | none => simp [Except.map]
  | some d =>
    simp only []
    by_cases ho : d.kind = .other
    · simp [ho, Except.map]
    · simp only [ho, if_false]
      cases hp : parseValue d.kind v with
      | none => simp [Except.map]
      | some x =>
        simp only [Except.map]
        cases v <;> simp
        rename_i b; cases b <;> simp [h1, h2, h3, h4]

def enabledOf (reg : Registry) (items : Table) : List String := items.foldl (itemEnabled reg) []
def disableOf (items : Table) : Bool := items.foldl itemDisable false

/-- The instances `disable_all` yields after the loop, as a function of the section. -/
def tailOf (reg : Registry) (mp : List String) (prio : Nat) (items : Table) : List Inst :=
  disableTail reg mp prio { out := [], enabled := enabledOf reg items, disable := disableOf items }

theorem fold_section (reg ext onOv mp prio) : ∀ (items : Table) (st : SecState),
    items.foldlM (sectionStep reg ext onOv mp prio) st =
      (items.mapM (itemInsts reg ext onOv mp prio)).map (fun outs =>
        { out := st.out ++ outs.flatten, enabled := items.foldl (itemEnabled reg) st.enabled,
          disable := items.foldl itemDisable st.disable }) := by
  intro items
  induction items with
  | nil => intro st; cases st; simp [Except.map, pure, Except.pure]
  | cons kv r ih =>
    intro st
    rw [List.foldlM_cons, sectionStep_eq, List.mapM_cons]
    cases hk : itemInsts reg ext onOv mp prio kv with
    | error e => simp [Except.map, bind, Except.bind]
    | ok o =>
      simp only [Except.map, bind, Except.bind]
      rw [ih]
      cases List.mapM (itemInsts reg ext onOv mp prio) r with
      | error e => simp [Except.map]
      | ok os => simp [Except.map, pure, Except.pure, List.append_assoc]

/-- `_parse_config_section` in normal form: the per-item outputs concatenated, then the
`disable_all` tail. -/
theorem parseSection_nf (reg ext onOv mp prio) (items : Table) :
    parseSection reg ext onOv mp prio items =
      if mp.isEmpty && items.any (·.1 == "module") then .error .topLevelModule
      else (items.mapM (itemInsts reg ext onOv mp prio)).map (fun outs => outs.flatten ++ tailOf reg mp prio items) := by
  unfold parseSection
  by_cases h : (mp.isEmpty && items.any (·.1 == "module")) = true
  · simp [h, bind, Except.bind, throw, throwThe, MonadExceptOf.throw]
  · simp only [h, if_false, Bool.false_eq_true]
    rw [fold_section]
    cases List.mapM (itemInsts reg ext onOv mp prio) items with
    | error e => simp [Except.map, bind, Except.bind]
    | ok os => simp [Except.map, bind, Except.bind, pure, Except.pure, tailOf, enabledOf, disableOf, disableTail]

/-! ### The output for valid sections, as pure functions of the tables -/

def settingInsts (reg : Registry) (mp : List String) (prio : Nat) (kv : String × TV) : List Inst :=
  if isStructural kv.1 then [] else
  match reg.find kv.1 with
  | some d => (match parseValue d.kind kv.2 with | some v => [fileInst kv.1 v mp prio] | none => [])
  | none => []

def sectionPure (reg : Registry) (mp : List String) (prio : Nat) (items : Table) : List Inst :=
  items.flatMap (settingInsts reg mp prio) ++ tailOf reg mp prio items

def overridePure (reg : Registry) (prio : Nat) (ov : TV) : List Inst :=
  match ov with
  | .tbl kvs => (match lookupKey kvs "module" with
      | some (.str m) => sectionPure reg (pySplit m) prio kvs
      | _ => [])
  | _ => []

def ovInsts (reg : Registry) (prio : Nat) (v : TV) : List Inst :=
  match v with
  | .arr ovs => ovs.flatMap (overridePure reg prio)
  | _ => []

def topItemPure (reg : Registry) (prio : Nat) (R : List Inst) (kv : String × TV) : List Inst :=
  if kv.1 == "extend_config" then R
  else if kv.1 == "overrides" then ovInsts reg prio kv.2
  else settingInsts reg [] prio kv

/-- The output of a valid file at inclusion depth `prio`, `R` being the output of the file it
extends. -/
def topPure (reg : Registry) (prio : Nat) (R : List Inst) (body : Table) : List Inst :=
  body.flatMap (topItemPure reg prio R) ++ tailOf reg [] prio body

theorem mapM_ok {α β ε : Type} (f : α → Except ε β) (g : α → β) :
    ∀ l : List α, (∀ x ∈ l, f x = .ok (g x)) → l.mapM f = .ok (l.map g) := by
  intro l
  induction l with
  | nil => intro _; rfl
  | cons x xs ih =>
    intro h
    rw [List.mapM_cons, h x (by simp), ih (fun y hy => h y (by simp [hy]))]
    rfl

theorem splitChars_ne_nil (sep : Char) (cs : List Char) : splitChars sep cs ≠ [] := by
  cases cs with
  | nil => simp [splitChars]
  | cons c cs =>
    unfold splitChars
    split
    · simp
    · split <;> simp

theorem pySplit_ne_nil (s : String) : pySplit s ≠ [] := by
  simp [pySplit, splitChars_ne_nil]

theorem pySplit_isEmpty (s : String) : (pySplit s).isEmpty = false := by
  have := pySplit_ne_nil s
  cases h : pySplit s <;> simp_all

theorem parse_of_specRead {k : OptKind} {v : TV} {x : Val} (h : specRead k v = some x) :
    parseValue k v = some x ∧ k ≠ .other := by
  cases k <;> cases v <;> simp_all [specRead, parseValue]

theorem itemInsts_setting (reg ext onOv mp prio) {k : String} {v : TV} (hs : isStructural k = false)
    (hv : specValidSetting reg k v = true) :
    itemInsts reg ext onOv mp prio (k, v) = .ok (settingInsts reg mp prio (k, v)) := by
  unfold isStructural at hs
  simp only [Bool.or_eq_false_iff, beq_eq_false_iff_ne, ne_eq] at hs
  obtain ⟨⟨⟨h1, h2⟩, h3⟩, h4⟩ := hs
  unfold specValidSetting at hv
  cases hf : reg.find k with
  | none => simp [hf] at hv
  | some d =>
    simp only [hf] at hv
    cases hr : specRead d.kind v with
    | none => simp [hr] at hv
    | some x =>
      obtain ⟨hp, hk⟩ := parse_of_specRead hr
      simp [itemInsts, settingInsts, isStructural, h1, h2, h3, h4, hf, hp, hk]

theorem parseOverride_valid (reg ext prio) {ov : TV} (hv : specValidOverride reg ov = true) :
    parseOverride reg ext prio ov = .ok (overridePure reg prio ov) := by
  cases ov with
  | tbl kvs =>
    simp only [specValidOverride, Bool.and_eq_true, List.all_eq_true] at hv
    obtain ⟨hm, hall⟩ := hv
    cases hl : lookupKey kvs "module" with
    | none => simp [hl] at hm
    | some mv =>
      cases mv with
      | str m =>
        simp only [parseOverride, overridePure, hl]
        rw [parseSection_nf]
        simp only [pySplit_isEmpty, Bool.false_and, Bool.false_eq_true, if_false]
        rw [mapM_ok _ (settingInsts reg (pySplit m) prio)]
        · simp [Except.map, sectionPure, List.flatMap]
        · intro kv hkv
          obtain ⟨k, v⟩ := kv
          have := hall (k, v) hkv
          simp only at this
          by_cases h1 : k = "module"
          · subst h1; simp [itemInsts, settingInsts, isStructural, pySplit_isEmpty]
          by_cases h4 : k = "disable_all"
          · subst h4
            cases v <;> simp [TV.isBool] at this
            simp [itemInsts, settingInsts, isStructural]
          by_cases h3 : k = "overrides"
          · subst h3; simp at this
          by_cases h2 : k = "extend_config"
          · subst h2; simp at this
          simp [h1, h4, h3, h2] at this
          exact itemInsts_setting reg ext nestedOv _ prio (by simp [isStructural, h1, h2, h3, h4]) this
      | _ => simp [hl] at hm
  | _ => simp [specValidOverride] at hv

theorem parseOverrides_valid (reg ext prio) {ovs : List TV} (hv : ovs.all (specValidOverride reg) = true) :
    parseOverrides reg ext prio (.arr ovs) = .ok (ovInsts reg prio (.arr ovs)) := by
  simp only [parseOverrides, ovInsts]
  have : ∀ (acc : List Inst), ovs.foldlM (fun acc ov => do
        let r ← parseOverride reg ext prio ov; pure (acc ++ r)) acc
      = Except.ok (acc ++ ovs.flatMap (overridePure reg prio)) := by
    induction ovs with
    | nil => intro acc; simp [pure, Except.pure]
    | cons ov ovs ih =>
      intro acc
      simp only [List.all_cons, Bool.and_eq_true] at hv
      rw [List.foldlM_cons, parseOverride_valid reg ext prio hv.1]
      show List.foldlM _ (acc ++ overridePure reg prio ov) ovs = _
      rw [ih hv.2]
      simp [List.append_assoc]
  simpa using this []

theorem parseTop_valid (reg ext prio) {body : Table} {R : List Inst}
    (hv : specValidBody reg body = true)
    (hext : ∀ t, ("extend_config", TV.str t) ∈ body → ext t (prio + 1) = .ok R) :
    parseTop reg ext prio body = .ok (topPure reg prio R body) := by
  simp only [specValidBody, List.all_eq_true] at hv
  have hmod : body.any (·.1 == "module") = false := by
    rw [List.any_eq_false]
    intro kv hkv
    have := hv kv hkv
    by_cases h : kv.1 = "module"
    · simp [h] at this
    · simp [h]
  unfold parseTop
  rw [parseSection_nf]
  simp only [hmod, Bool.and_false, Bool.false_eq_true, if_false]
  rw [mapM_ok _ (topItemPure reg prio R)]
  · simp [Except.map, topPure, List.flatMap]
  · intro kv hkv
    obtain ⟨k, v⟩ := kv
    have := hv (k, v) hkv
    simp only at this
    by_cases h1 : k = "module"
    · subst h1; simp at this
    by_cases h2 : k = "extend_config"
    · subst h2
      cases v <;> simp [TV.isStr] at this
      rename_i t
      simp [itemInsts, topItemPure, hext t hkv]
    by_cases h3 : k = "overrides"
    · subst h3
      cases v <;> simp at this
      rename_i ovs
      have hov : ovs.all (specValidOverride reg) = true := by simpa using this
      simp [itemInsts, topItemPure, parseOverrides_valid reg ext prio hov]
    by_cases h4 : k = "disable_all"
    · subst h4
      cases v <;> simp [TV.isBool] at this
      simp [itemInsts, topItemPure, settingInsts, isStructural]
    simp [h1, h2, h3, h4] at this
    have hs : isStructural k = false := by simp [isStructural, h1, h2, h3, h4]
    rw [itemInsts_setting reg ext _ [] prio hs this]
    simp [topItemPure, h2, h3]

/-- The instances a valid chain of files yields, the first file being at inclusion depth `prio`:
the extended file's instances (depth `prio + 1`) are spliced in at the position of the
`extend_config` key. -/
def chainPure (reg : Registry) : Nat → List Table → List Inst
  | _, [] => []
  | prio, b :: rest => topPure reg prio (chainPure reg (prio + 1) rest) b

theorem lookupKey_none {kvs : Table} {k : String} (h : lookupKey kvs k = none) (v : TV) : (k, v) ∉ kvs := by
  intro hm
  simp only [lookupKey, Option.map_eq_none_iff, List.find?_eq_none] at h
  have := h (k, v) hm
  simp at this

theorem lookupKey_of_mem {kvs : Table} {k : String} {v : TV} (hn : keysNodup kvs) (hm : (k, v) ∈ kvs) :
    lookupKey kvs k = some v := by
  induction kvs with
  | nil => simp at hm
  | cons kv r ih =>
    simp only [keysNodup, List.map_cons, List.nodup_cons] at hn
    rcases List.mem_cons.1 hm with h | h
    · subst h; simp [lookupKey]
    · have hne : kv.1 ≠ k := by
        intro he
        apply hn.1
        rw [he]
        exact List.mem_map.2 ⟨(k, v), h, rfl⟩
      have hb : (kv.1 == k) = false := by simp [hne]
      have := ih hn.2 h
      simp only [lookupKey, List.find?_cons, hb] at this ⊢
      exact this

theorem parseFile_chain (reg : Registry) (fs : FS) : ∀ (fuel : Nat) (p : String) (prio : Nat)
    (seen : List String) (stack : List Table), specStack fs fuel p seen = some stack →
    (∀ b ∈ stack, specValidBody reg b = true) → (∀ b ∈ stack, keysNodup b) →
    parseFile reg fs fuel p prio seen = .ok (chainPure reg prio stack) := by
  intro fuel
  induction fuel with
  | zero => intro p prio seen stack h; simp [specStack] at h
  | succ fuel ih =>
    intro p prio seen stack h hv hn
    unfold specStack at h
    by_cases hs : p ∈ seen
    · simp [hs] at h
    · have hc : seen.contains p = false := by simp [hs]
      simp only [hc, if_false, Bool.false_eq_true] at h
      cases hg : fs.get p with
      | none => simp [hg] at h
      | some body =>
        simp only [hg] at h
        unfold parseFile
        simp only [hg, hc, if_false, Bool.false_eq_true]
        cases he : lookupKey body "extend_config" with
        | none =>
          simp only [he, Option.some.injEq] at h
          subst h
          have := parseTop_valid reg (fun t p_1 => parseFile reg fs fuel t p_1 (p :: seen)) prio
            (R := []) (hv body (by simp)) (fun t ht => absurd ht (lookupKey_none he _))
          simpa [chainPure] using this
        | some tv =>
          cases tv with
          | str t =>
            simp only [he, Option.map_eq_some_iff] at h
            obtain ⟨rest, hrest, rfl⟩ := h
            have hrec := ih t (prio + 1) (p :: seen) rest hrest
              (fun b hb => hv b (by simp [hb])) (fun b hb => hn b (by simp [hb]))
            have := parseTop_valid reg (fun t p_1 => parseFile reg fs fuel t p_1 (p :: seen)) prio
              (R := chainPure reg (prio + 1) rest) (hv body (by simp)) (by
                intro t' ht'
                have h1 := lookupKey_of_mem (hn body (by simp)) ht'
                rw [he] at h1
                have : t = t' := by simpa using h1
                subst this
                exact hrec)
            simpa [chainPure] using this
          | _ => simp [he] at h

/-! ### File instances carry the inclusion depth of their file as priority -/

/-- An instance yielded by the file at inclusion depth `p`. -/
def IsFileAt (p : Nat) (i : Inst) : Prop := i.cli = false ∧ i.prio = p

/-- An instance yielded by a file at inclusion depth `p` or deeper. -/
def IsFileFrom (p : Nat) (i : Inst) : Prop := i.cli = false ∧ p ≤ i.prio

theorem isFile_fileInst (n v mp p) : IsFileAt p (fileInst n v mp p) := ⟨rfl, rfl⟩

theorem isFile_settingInsts {reg mp p kv i} (h : i ∈ settingInsts reg mp p kv) : IsFileAt p i := by
  unfold settingInsts at h
  split at h
  · simp at h
  · split at h
    · split at h
      · simp at h; subst h; exact isFile_fileInst _ _ _ _
      · simp at h
    · simp at h

theorem isFile_tailOf {reg mp p items i} (h : i ∈ tailOf reg mp p items) : IsFileAt p i := by
  unfold tailOf disableTail at h
  split at h
  · simp only [List.mem_map] at h
    obtain ⟨c, _, rfl⟩ := h
    exact isFile_fileInst _ _ _ _
  · simp at h

theorem isFile_sectionPure {reg mp p items i} (h : i ∈ sectionPure reg mp p items) : IsFileAt p i := by
  simp only [sectionPure, List.mem_append, List.mem_flatMap] at h
  rcases h with ⟨kv, _, h⟩ | h
  · exact isFile_settingInsts h
  · exact isFile_tailOf h

theorem isFile_ovInsts {reg p v i} (h : i ∈ ovInsts reg p v) : IsFileAt p i := by
  unfold ovInsts at h
  split at h
  · simp only [List.mem_flatMap] at h
    obtain ⟨ov, _, h⟩ := h
    unfold overridePure at h
    split at h
    · split at h
      · exact isFile_sectionPure h
      · simp at h
    · simp at h
  · simp at h

theorem isFile_topPure {reg p R body i} (h : i ∈ topPure reg p R body) : IsFileAt p i ∨ i ∈ R := by
  simp only [topPure, List.mem_append, List.mem_flatMap] at h
  rcases h with ⟨kv, _, h⟩ | h
  · unfold topItemPure at h
    split at h
    · exact Or.inr h
    · split at h
      · exact Or.inl (isFile_ovInsts h)
      · exact Or.inl (isFile_settingInsts h)
  · exact Or.inl (isFile_tailOf h)

theorem isFile_own {reg p body i} (h : i ∈ topPure reg p [] body) : IsFileAt p i := by
  rcases isFile_topPure h with h | h
  · exact h
  · simp at h

theorem isFile_chainPure {reg} : ∀ (stack : List Table) (p : Nat) i, i ∈ chainPure reg p stack → IsFileFrom p i := by
  intro stack
  induction stack with
  | nil => intro p i h; simp [chainPure] at h
  | cons b rest ih =>
    intro p i h
    rcases isFile_topPure h with h1 | h1
    · exact ⟨h1.1, by rw [h1.2]; exact Nat.le_refl _⟩
    · have := ih (p + 1) i h1
      exact ⟨this.1, by have := this.2; omega⟩

/-- Within one file the sort key compares specificities only. -/
theorem keyLe_file {p : Nat} {a b : Inst} (ha : IsFileAt p a) (hb : IsFileAt p b) :
    keyLe a b = decide (b.app.length ≤ a.app.length) := by
  simp [keyLe, Inst.cliRank, ha.1, ha.2, hb.1, hb.2]

/-- An instance of the including file ranks strictly before every instance of the files it extends. -/
theorem keyLe_shallow_deep {p : Nat} {a r : Inst} (ha : IsFileAt p a) (hr : IsFileFrom (p + 1) r) :
    keyLe a r = true ∧ keyLe r a = false := by
  have h1 := ha.2
  have h2 := hr.2
  constructor
  · simp only [keyLe, Inst.cliRank, ha.1, hr.1, Bool.or_eq_true, Bool.and_eq_true, decide_eq_true_eq,
      beq_iff_eq]
    right; exact ⟨by simp, Or.inl (by omega)⟩
  · simp only [keyLe, Inst.cliRank, ha.1, hr.1, Bool.or_eq_false_iff, Bool.and_eq_false_iff,
      decide_eq_false_iff_not, beq_eq_false_iff_ne, ne_eq]
    exact ⟨by simp, Or.inr ⟨by omega, Or.inl (by omega)⟩⟩

/-! ### Splitting a file's output at its `extend_config` key -/

def hasExt (body : Table) : Bool := body.any (·.1 == "extend_config")

/-- The part of a file's top-level table written before / after its `extend_config` key. -/
def beforeExt : Table → Table
  | [] => []
  | kv :: r => if kv.1 == "extend_config" then [] else kv :: beforeExt r

def afterExt : Table → Table
  | [] => []
  | kv :: r => if kv.1 == "extend_config" then r else afterExt r

theorem flatMap_congr' {α β : Type} {f g : α → List β} : ∀ {l : List α}, (∀ x ∈ l, f x = g x) →
    l.flatMap f = l.flatMap g := by
  intro l
  induction l with
  | nil => intro _; rfl
  | cons x xs ih =>
    intro h
    simp only [List.flatMap_cons]
    rw [h x (by simp), ih (fun y hy => h y (by simp [hy]))]

theorem flatMap_split (reg : Registry) (p : Nat) (R : List Inst) : ∀ (body : Table), keysNodup body →
    body.flatMap (topItemPure reg p R) =
      (beforeExt body).flatMap (topItemPure reg p []) ++ (if hasExt body then R else []) ++
      (afterExt body).flatMap (topItemPure reg p []) := by
  intro body
  induction body with
  | nil => intro _; simp [beforeExt, afterExt, hasExt]
  | cons kv r ih =>
    intro hn
    simp only [keysNodup, List.map_cons, List.nodup_cons] at hn
    by_cases hk : kv.1 = "extend_config"
    · have hno : ∀ kv' ∈ r, topItemPure reg p R kv' = topItemPure reg p [] kv' := by
        intro kv' hkv'
        have : kv'.1 ≠ "extend_config" := by
          intro he; apply hn.1; rw [hk, ← he]; exact List.mem_map.2 ⟨kv', hkv', rfl⟩
        simp [topItemPure, this]
      simp only [List.flatMap_cons, beforeExt, afterExt, hasExt, hk, beq_self_eq_true, if_true,
        List.any_cons, Bool.true_or, List.flatMap_nil, List.nil_append]
      congr 1
      · simp [topItemPure, hk]
      · exact flatMap_congr' hno
    · have h1 : topItemPure reg p R kv = topItemPure reg p [] kv := by simp [topItemPure, hk]
      have hb : (kv.1 == "extend_config") = false := by simp [hk]
      simp only [List.flatMap_cons, beforeExt, afterExt, hasExt, hb, if_false,
        List.any_cons, Bool.false_or, Bool.false_eq_true]
      rw [ih hn.2, h1]
      simp [hasExt, List.append_assoc] <;> rfl

/-- The part of a file's own output written before / after the `extend_config` key. -/
def ownBefore (reg : Registry) (p : Nat) (body : Table) : List Inst :=
  (beforeExt body).flatMap (topItemPure reg p [])
def ownAfter (reg : Registry) (p : Nat) (body : Table) : List Inst :=
  (afterExt body).flatMap (topItemPure reg p []) ++ tailOf reg [] p body

theorem topPure_split (reg : Registry) (p : Nat) (R : List Inst) (body : Table) (hn : keysNodup body)
    (h : hasExt body = true ∨ R = []) :
    topPure reg p R body = ownBefore reg p body ++ (R ++ ownAfter reg p body) := by
  unfold topPure ownBefore ownAfter
  rw [flatMap_split reg p R body hn]
  rcases h with h | h
  · simp [h, List.append_assoc]
  · subst h; simp [List.append_assoc]

theorem topPure_nil_split (reg : Registry) (p : Nat) (body : Table) (hn : keysNodup body) :
    topPure reg p [] body = ownBefore reg p body ++ ownAfter reg p body := by
  have := topPure_split reg p [] body hn (Or.inr rfl)
  simpa using this

/-! ### Registry facts -/

theorem find_mem {reg : Registry} {n : String} {d : OptDecl} (h : reg.find n = some d) :
    d ∈ reg ∧ d.name = n := by
  unfold Registry.find at h
  exact ⟨List.mem_of_find?_eq_some h, by simpa using List.find?_some h⟩

theorem nodup_name_unique : ∀ {reg : Registry}, (reg.map (·.name)).Nodup → ∀ {d d' : OptDecl},
    d ∈ reg → d' ∈ reg → d.name = d'.name → d = d' := by
  intro reg
  induction reg with
  | nil => intro _ d d' h; simp at h
  | cons x xs ih =>
    intro hn d d' hd hd' he
    simp only [List.map_cons, List.nodup_cons] at hn
    rcases List.mem_cons.1 hd with h1 | h1 <;> rcases List.mem_cons.1 hd' with h2 | h2
    · rw [h1, h2]
    · have : x.name ∈ xs.map (·.name) := List.mem_map.2 ⟨d', h2, by rw [← he, h1]⟩
      exact absurd this hn.1
    · have : x.name ∈ xs.map (·.name) := List.mem_map.2 ⟨d, h1, by rw [he, h2]⟩
      exact absurd this hn.1
    · exact ih hn.2 h1 h2 he

structure RegOK (reg : Registry) (d : OptDecl) : Prop where
  names : (reg.map (·.name)).Nodup
  codes : reg.codes.Nodup
  find : reg.find d.name = some d
  notStructural : isStructural d.name = false
  codeBool : d.isCode = true → d.kind = .bool

theorem regOK_of_wf {reg : Registry} {d : OptDecl} (hw : reg.wf = true) (hf : reg.find d.name = some d) :
    RegOK reg d := by
  simp only [Registry.wf, Bool.and_eq_true, decide_eq_true_eq, List.all_eq_true] at hw
  obtain ⟨⟨h1, h2⟩, h3⟩ := hw
  have hd := (find_mem hf).1
  have := h3 d hd
  simp only [Bool.not_eq_true', Bool.or_eq_true, beq_iff_eq] at this
  refine ⟨h1, h2, hf, this.1, ?_⟩
  intro hc
  rcases this.2 with h | h
  · simp [hc] at h
  · exact h

theorem mem_codes {reg : Registry} {d : OptDecl} (ok : RegOK reg d) (h : d.name ∈ reg.codes) :
    d.isCode = true := by
  simp only [Registry.codes, List.mem_map, List.mem_filter] at h
  obtain ⟨d', ⟨hd', hc⟩, hn⟩ := h
  have := nodup_name_unique ok.names hd' (find_mem ok.find).1 hn
  subst this; exact hc

/-! ### Facts about one section -/

/-- What both `specValidOverride` and `specValidBody` say about the non-structural part. -/
def SecOK (reg : Registry) (kvs : Table) : Prop :=
  ∀ k v, (k, v) ∈ kvs → (k = "disable_all" → v.isBool = true) ∧
    (isStructural k = false → specValidSetting reg k v = true)

theorem enabled_mono (reg : Registry) {x : String} : ∀ (kvs : Table) (init : List String), x ∈ init →
    x ∈ kvs.foldl (itemEnabled reg) init := by
  intro kvs
  induction kvs with
  | nil => intro init h; exact h
  | cons kv r ih =>
    intro init h
    apply ih
    unfold itemEnabled
    split
    · exact h
    · split
      · split
        · simp [h]
        · exact h
      · exact h

theorem enabled_mem (reg : Registry) {k : String} {d : OptDecl} (hf : reg.find k = some d)
    (hc : d.isCode = true) (hs : isStructural k = false) :
    ∀ (kvs : Table) (init : List String), (k, TV.bool true) ∈ kvs → k ∈ kvs.foldl (itemEnabled reg) init := by
  intro kvs
  induction kvs with
  | nil => intro init h; simp at h
  | cons kv r ih =>
    intro init h
    rcases List.mem_cons.1 h with h | h
    · subst h
      show k ∈ List.foldl (itemEnabled reg) (itemEnabled reg init (k, TV.bool true)) r
      apply enabled_mono
      simp [itemEnabled, hs, hf, hc]
    · exact ih _ h

theorem take_beq_prefix : ∀ (mp mod : List String), (mod.take mp.length == mp) = true →
    mp.isPrefixOf mod = true := by
  intro mp
  induction mp with
  | nil => intro mod _; simp
  | cons x xs ih =>
    intro mod h
    cases mod with
    | nil => simp at h
    | cons y ys =>
      simp only [List.length_cons, List.take_succ_cons, beq_iff_eq, List.cons.injEq] at h
      simp only [List.isPrefixOf, Bool.and_eq_true, beq_iff_eq]
      exact ⟨h.1.symm, ih ys (by simp [h.2])⟩

/-! ### From validity of tables to `SecOK` -/

theorem secOK_of_override {reg : Registry} {kvs : Table} (h : specValidOverride reg (.tbl kvs) = true) :
    SecOK reg kvs := by
  simp only [specValidOverride, Bool.and_eq_true, List.all_eq_true] at h
  intro k v hkv
  have := h.2 (k, v) hkv
  simp only at this
  constructor
  · intro hk; subst hk; simpa using this
  · intro hs
    simp only [isStructural, Bool.or_eq_false_iff, beq_eq_false_iff_ne, ne_eq] at hs
    obtain ⟨⟨⟨h1, h2⟩, h3⟩, h4⟩ := hs
    simpa [h1, h2, h3, h4] using this

theorem secOK_of_body {reg : Registry} {body : Table} (h : specValidBody reg body = true) :
    SecOK reg body := by
  simp only [specValidBody, List.all_eq_true] at h
  intro k v hkv
  have := h (k, v) hkv
  simp only at this
  constructor
  · intro hk; subst hk; simpa using this
  · intro hs
    simp only [isStructural, Bool.or_eq_false_iff, beq_eq_false_iff_ne, ne_eq] at hs
    obtain ⟨⟨⟨h1, h2⟩, h3⟩, h4⟩ := hs
    simpa [h1, h2, h3, h4] using this

theorem mem_of_lookupKey {kvs : Table} {k : String} {v : TV} (hl : lookupKey kvs k = some v) : (k, v) ∈ kvs := by
  simp only [lookupKey, Option.map_eq_some_iff] at hl
  obtain ⟨kv, hf, rfl⟩ := hl
  have := List.find?_some hf
  have hm := List.mem_of_find?_eq_some hf
  simp only [beq_iff_eq] at this
  rw [← this]; exact hm

/-- Validity and key-distinctness of one file's table, as used below. -/
structure BodyOK (reg : Registry) (body : Table) : Prop where
  valid : specValidBody reg body = true
  nodup : tableNodup body = true

theorem BodyOK.keys {reg body} (h : BodyOK reg body) : keysNodup body := by
  have := h.nodup
  simp only [tableNodup, Bool.and_eq_true, decide_eq_true_eq] at this
  exact this.1

theorem BodyOK.overrides {reg body} (h : BodyOK reg body) {ovs : List TV} (hm : ("overrides", TV.arr ovs) ∈ body) :
    ovs.all (specValidOverride reg) = true ∧ ∀ kvs, TV.tbl kvs ∈ ovs → keysNodup kvs := by
  constructor
  · have := h.valid
    simp only [specValidBody, List.all_eq_true] at this
    have := this _ hm
    simpa using this
  · have := h.nodup
    simp only [tableNodup, Bool.and_eq_true, decide_eq_true_eq, List.all_eq_true] at this
    have := this.2 _ hm
    simp only [List.all_eq_true] at this
    intro kvs hk
    have := this _ hk
    simpa using this

theorem relevant_append (d : OptDecl) (mod : List String) (l1 l2 : List Inst) :
    relevant d mod (l1 ++ l2) = relevant d mod l1 ++ relevant d mod l2 := by
  simp [relevant]

theorem mem_relevant {d : OptDecl} {mod : List String} {l : List Inst} {a : Inst} :
    a ∈ relevant d mod l ↔ a ∈ l ∧ a.name = d.name ∧ a.applicable mod = true := by
  simp only [relevant, List.mem_filter, beq_iff_eq]
  constructor
  · rintro ⟨⟨h1, h2⟩, h3⟩; exact ⟨h1, h2, h3⟩
  · rintro ⟨h1, h2, h3⟩; exact ⟨⟨h1, h2⟩, h3⟩

/-! ### The sorted relevant instances of a chain, layer by layer (no exception class any more) -/

/-- Every file of the stack but the last has an `extend_config` key. -/
def linked : List Table → Prop
  | [] => True
  | b :: rest => (rest ≠ [] → hasExt b = true) ∧ linked rest

theorem mem_topPure_nil {reg p body a} (hn : keysNodup body) :
    a ∈ topPure reg p [] body ↔ a ∈ ownBefore reg p body ∨ a ∈ ownAfter reg p body := by
  rw [topPure_nil_split reg p body hn]; simp

/-- The files' own sorted relevant instances, one layer per file in inclusion order. -/
def layers (reg : Registry) (d : OptDecl) (mod : List String) : Nat → List Table → List Inst
  | _, [] => []
  | p, b :: rest => sortBy keyLe (relevant d mod (topPure reg p [] b)) ++ layers reg d mod (p + 1) rest

/-- **Priorities order the files.** Because every instance of the including file has a strictly
smaller `priority` than every instance of the files it extends, the stable sort of a valid chain's
relevant instances is the including file's own sorted instances followed by those of the rest —
wherever the `extend_config` key is written. -/
theorem chain_sorted {reg : Registry} {d : OptDecl} {mod : List String} :
    ∀ (stack : List Table) (p : Nat), (∀ b ∈ stack, BodyOK reg b) → linked stack →
    sortBy keyLe (relevant d mod (chainPure reg p stack)) = layers reg d mod p stack := by
  intro stack
  induction stack with
  | nil => intro p _ _; simp [chainPure, relevant, sortBy, layers]
  | cons b rest ih =>
    intro p hb hl
    have hbb := hb b (by simp)
    have hrest : ∀ b' ∈ rest, BodyOK reg b' := fun b' hb' => hb b' (by simp [hb'])
    have hcond : hasExt b = true ∨ chainPure reg (p + 1) rest = [] := by
      cases rest with
      | nil => right; rfl
      | cons x xs => left; exact hl.1 (by simp)
    simp only [chainPure, layers]
    rw [topPure_split reg p _ b hbb.keys hcond, topPure_nil_split reg p b hbb.keys]
    simp only [relevant_append]
    have hfileB : ∀ a, a ∈ relevant d mod (ownBefore reg p b) → IsFileAt p a := fun a ha =>
      isFile_own ((mem_topPure_nil hbb.keys).2 (Or.inl (mem_relevant.1 ha).1))
    have hfileA : ∀ a, a ∈ relevant d mod (ownAfter reg p b) → IsFileAt p a := fun a ha =>
      isFile_own ((mem_topPure_nil hbb.keys).2 (Or.inr (mem_relevant.1 ha).1))
    have hfileR : ∀ a, a ∈ relevant d mod (chainPure reg (p + 1) rest) → IsFileFrom (p + 1) a := fun a ha =>
      isFile_chainPure rest (p + 1) a (mem_relevant.1 ha).1
    have := sortBy_splice keyLe (X := relevant d mod (ownBefore reg p b))
      (R := relevant d mod (chainPure reg (p + 1) rest)) (Y := relevant d mod (ownAfter reg p b))
      (fun a ha r hr => (keyLe_shallow_deep (hfileB a ha) (hfileR r hr)).1)
      (fun r hr a ha => (keyLe_shallow_deep (hfileA a ha) (hfileR r hr)).2)
    rw [this, ih (p + 1) hrest hl.2]

/-! ### Exact content of one section for one option -/

theorem lookupKey_cons (kv : String × TV) (r : Table) (k : String) :
    lookupKey (kv :: r) k = if kv.1 == k then some kv.2 else lookupKey r k := by
  simp only [lookupKey, List.find?_cons]
  cases kv.1 == k <;> simp

theorem lookupKey_none_of_not_mem {r : Table} {k : String} (h : k ∉ r.map (·.1)) : lookupKey r k = none := by
  simp only [lookupKey, Option.map_eq_none_iff, List.find?_eq_none]
  intro x hx hxk
  apply h
  rw [← (beq_iff_eq.1 hxk)]
  exact List.mem_map.2 ⟨x, hx, rfl⟩

theorem flatMap_key {β : Type} (F : TV → List β) (k : String) : ∀ (kvs : Table), keysNodup kvs →
    kvs.flatMap (fun kv => if kv.1 == k then F kv.2 else []) =
      (match lookupKey kvs k with | some v => F v | none => []) := by
  intro kvs
  induction kvs with
  | nil => intro _; simp [lookupKey]
  | cons kv r ih =>
    intro hn
    simp only [keysNodup, List.map_cons, List.nodup_cons] at hn
    by_cases hk : kv.1 = k
    · have hnone : lookupKey r k = none := lookupKey_none_of_not_mem (by rw [← hk]; exact hn.1)
      have := ih hn.2
      rw [hnone] at this
      rw [List.flatMap_cons, this, lookupKey_cons]
      simp [hk]
    · have hb : (kv.1 == k) = false := by simp [hk]
      rw [List.flatMap_cons, ih hn.2, lookupKey_cons]
      simp [hb]

theorem settingInsts_name {reg mp p kv i} (h : i ∈ settingInsts reg mp p kv) : i.name = kv.1 := by
  unfold settingInsts at h
  split at h
  · simp at h
  · split at h
    · split at h
      · simp at h; subst h; rfl
      · simp at h
    · simp at h

theorem filter_eq_self' {α : Type} {p : α → Bool} {l : List α} (h : ∀ x ∈ l, p x = true) : l.filter p = l := by
  induction l with
  | nil => rfl
  | cons x xs ih => simp [h x (by simp), ih (fun y hy => h y (by simp [hy]))]

theorem filter_eq_nil' {α : Type} {p : α → Bool} {l : List α} (h : ∀ x ∈ l, p x = false) : l.filter p = [] := by
  induction l with
  | nil => rfl
  | cons x xs ih => simp [h x (by simp), ih (fun y hy => h y (by simp [hy]))]

theorem filter_settings (reg : Registry) (mp : List String) (p : Nat) (n : String) (kvs : Table) :
    (kvs.flatMap (settingInsts reg mp p)).filter (·.name == n) =
      kvs.flatMap (fun kv => if kv.1 == n then settingInsts reg mp p kv else []) := by
  induction kvs with
  | nil => rfl
  | cons kv r ih =>
    simp only [List.flatMap_cons, List.filter_append, ih]
    congr 1
    by_cases hk : kv.1 = n
    · simp only [hk, beq_self_eq_true, if_true]
      exact filter_eq_self' (fun x hx => by simp [settingInsts_name hx, hk])
    · have hb : (kv.1 == n) = false := by simp [hk]
      simp only [hb, if_false, Bool.false_eq_true]
      exact filter_eq_nil' (fun x hx => by simp [settingInsts_name hx, hk])

theorem filter_codes (mk : String → Inst) (hmk : ∀ c, (mk c).name = c) (p : String → Bool) (n : String) :
    ∀ (l : List String), l.Nodup →
    ((l.filter p).map mk).filter (·.name == n) = if n ∈ l ∧ p n = true then [mk n] else [] := by
  intro l
  induction l with
  | nil => intro _; simp
  | cons c cs ih =>
    intro hn
    simp only [List.nodup_cons] at hn
    by_cases hc : c = n
    · subst hc
      have hrest : ((cs.filter p).map mk).filter (·.name == c) = [] := by
        rw [ih hn.2]; simp [hn.1]
      by_cases hp : p c = true
      · simp [hp, hmk, hrest]
      · simp [hp, hrest]
    · have hne : ¬ n = c := fun h => hc h.symm
      by_cases hp : p c = true
      · simp [hp, hmk, hc, ih hn.2, hne]
      · simp [hp, ih hn.2, hne]

/-- The value `disable_all_default_error_codes` ends up with. -/
def disVal : Option TV → Bool → Bool
  | some (.bool b), _ => b
  | _, init => init

theorem disableOf_eq : ∀ (kvs : Table) (init : Bool), keysNodup kvs →
    kvs.foldl itemDisable init = disVal (lookupKey kvs "disable_all") init := by
  intro kvs
  induction kvs with
  | nil => intro init _; simp [lookupKey, disVal]
  | cons kv r ih =>
    intro init hn
    simp only [keysNodup, List.map_cons, List.nodup_cons] at hn
    simp only [List.foldl_cons]
    rw [ih _ hn.2]
    by_cases hk : kv.1 = "disable_all"
    · have hnone : lookupKey r "disable_all" = none := lookupKey_none_of_not_mem (by rw [← hk]; exact hn.1)
      rw [hnone, lookupKey_cons]
      cases hv : kv.2 <;> simp [itemDisable, hk, hv, disVal]
    · have hb : (kv.1 == "disable_all") = false := by simp [hk]
      rw [lookupKey_cons]
      simp [itemDisable, hb]

theorem enabled_sub (reg : Registry) {x : String} : ∀ (kvs : Table) (init : List String),
    x ∈ kvs.foldl (itemEnabled reg) init → x ∈ init ∨ (x, TV.bool true) ∈ kvs := by
  intro kvs
  induction kvs with
  | nil => intro init h; exact Or.inl h
  | cons kv r ih =>
    intro init h
    rcases ih _ h with h1 | h1
    · unfold itemEnabled at h1
      split at h1
      · exact Or.inl h1
      · split at h1
        · rename_i d hf hv
          split at h1
          · rcases List.mem_cons.1 h1 with h2 | h2
            · right
              have : kv = (x, TV.bool true) := by
                obtain ⟨k, v⟩ := kv
                simp only at hv h2
                rw [hv, h2]
              simp [this]
            · exact Or.inl h2
          · exact Or.inl h1
        · exact Or.inl h1
    · right; simp [h1]

/-- The single instance the spec attributes to a section. -/
def secInst (d : OptDecl) (mp : List String) (p : Nat) (kvs : Table) : Option Inst :=
  (specSectionValue d kvs).map (fun x => fileInst d.name x mp p)

theorem mem_codes_iff {reg : Registry} {d : OptDecl} (ok : RegOK reg d) : d.name ∈ reg.codes ↔ d.isCode = true := by
  constructor
  · exact mem_codes ok
  · intro h
    simp only [Registry.codes, List.mem_map, List.mem_filter]
    exact ⟨d, ⟨(find_mem ok.find).1, h⟩, rfl⟩

/-- **Section reading.** The instances a valid section yields for option `d` are 1 (or, for an
error code with both `disable_all` and an explicit `false`, 2 identical) copies of the instance
the spec reads, none if the spec reads nothing. -/
theorem section_exact {reg : Registry} {d : OptDecl} (ok : RegOK reg d) (mp : List String) (p : Nat) {kvs : Table}
    (hs : SecOK reg kvs) (hn : keysNodup kvs) :
    ∃ k, (sectionPure reg mp p kvs).filter (·.name == d.name) =
        (match secInst d mp p kvs with | some i => List.replicate (k + 1) i | none => []) ∧
      (d.isCode = false → k = 0) := by
  have htail : (tailOf reg mp p kvs).filter (·.name == d.name) =
      if disableOf kvs = true ∧ d.isCode = true ∧ d.name ∉ enabledOf reg kvs
      then [fileInst d.name (.bool false) mp p] else [] := by
    unfold tailOf disableTail
    by_cases hd : disableOf kvs = true
    · simp only [hd, if_true, true_and]
      rw [filter_codes (fun c => fileInst c (.bool false) mp p) (fun _ => rfl) _ _ _ ok.codes]
      simp [mem_codes_iff ok]
    · simp [hd]
  have hset : (kvs.flatMap (settingInsts reg mp p)).filter (·.name == d.name) =
      (match lookupKey kvs d.name with | some v => settingInsts reg mp p (d.name, v) | none => []) := by
    rw [filter_settings]
    have := flatMap_key (fun v => settingInsts reg mp p (d.name, v)) d.name kvs hn
    rw [← this]
    apply flatMap_congr'
    intro kv _
    by_cases hk : kv.1 = d.name
    · obtain ⟨k, v⟩ := kv; simp only at hk; subst hk; simp
    · simp [hk]
  have hdis := disableOf_eq kvs false hn
  unfold sectionPure
  rw [List.filter_append, hset, htail]
  cases hl : lookupKey kvs d.name with
  | some v =>
    have hmem := mem_of_lookupKey hl
    have hvalid := (hs _ _ hmem).2 ok.notStructural
    simp only [specValidSetting, ok.find] at hvalid
    cases hr : specRead d.kind v with
    | none => simp [hr] at hvalid
    | some x =>
      obtain ⟨hp, _⟩ := parse_of_specRead hr
      have hsi : settingInsts reg mp p (d.name, v) = [fileInst d.name x mp p] := by
        simp [settingInsts, ok.notStructural, ok.find, hp]
      have hsec : secInst d mp p kvs = some (fileInst d.name x mp p) := by
        simp [secInst, specSectionValue, hl, hr]
      simp only [hsi, hsec]
      by_cases hc : disableOf kvs = true ∧ d.isCode = true ∧ d.name ∉ enabledOf reg kvs
      · obtain ⟨_, hcode, hne⟩ := hc
        have hkind := ok.codeBool hcode
        rw [hkind] at hr
        cases v <;> simp [specRead] at hr
        rename_i b
        cases b with
        | true =>
          exfalso; apply hne
          exact enabled_mem reg ok.find hcode ok.notStructural kvs [] hmem
        | false =>
          subst hr
          refine ⟨1, ?_, fun h => by simp [hcode] at h⟩
          simp [*, List.replicate]
      · refine ⟨0, ?_, fun _ => rfl⟩
        simp [hc, List.replicate]
  | none =>
    have hne : d.name ∉ enabledOf reg kvs := by
      intro h
      rcases enabled_sub reg kvs [] h with h1 | h1
      · simp at h1
      · exact lookupKey_none hl _ h1
    simp only [hne, not_false_eq_true, and_true, List.nil_append]
    refine ⟨0, ?_, fun _ => rfl⟩
    by_cases hc : d.isCode = true
    · cases hld : lookupKey kvs "disable_all" with
      | none =>
        have : disableOf kvs = false := by unfold disableOf; rw [hdis, hld]; rfl
        simp [this, secInst, specSectionValue, hl, hld]
      | some v =>
        have hb := (hs _ _ (mem_of_lookupKey hld)).1 rfl
        cases v <;> simp [TV.isBool] at hb
        rename_i b
        have : disableOf kvs = b := by unfold disableOf; rw [hdis, hld]; rfl
        cases b <;> simp [this, secInst, specSectionValue, hl, hld, hc, List.replicate]
    · have hc' : d.isCode = false := by simpa using hc
      have : secInst d mp p kvs = none := by
        simp only [secInst, specSectionValue, hl, hc']
        cases lookupKey kvs "disable_all" with
        | none => rfl
        | some v => cases v <;> simp
          <;> rename_i b <;> cases b <;> simp
      simp [this, hc']

/-! ### More sorting lemmas: partition, congruence, map, buckets, groups -/

theorem sorted_partition {α : Type} (le : α → α → Bool) (hi : α → Bool) : ∀ (S : List α), SortedBy le S →
    (∀ x ∈ S, ∀ y ∈ S, hi x = true → hi y = false → le y x = false) →
    S = S.filter hi ++ S.filter (fun x => !hi x) := by
  intro S
  induction S with
  | nil => intro _ _; rfl
  | cons s S ih =>
    intro hs h
    unfold SortedBy at hs ih
    rw [List.pairwise_cons] at hs
    have ih' := ih hs.2 (fun x hx y hy => h x (by simp [hx]) y (by simp [hy]))
    by_cases hh : hi s = true
    · simp only [List.filter_cons, hh, if_true, Bool.not_true, Bool.false_eq_true, if_false, List.cons_append]
      rw [← ih']
    · have hh' : hi s = false := by simpa using hh
      have hall : ∀ z ∈ S, hi z = false := by
        intro z hz
        cases hz' : hi z with
        | false => rfl
        | true =>
          have := h z (by simp [hz]) s (by simp) hz' hh'
          rw [hs.1 z hz] at this; simp at this
      have h1 : S.filter hi = [] := filter_eq_nil' hall
      have h2 : S.filter (fun x => !hi x) = S := filter_eq_self' (fun z hz => by simp [hall z hz])
      simp [List.filter_cons, hh', h1, h2]

theorem sortBy_partition {α : Type} (le : α → α → Bool) (htot : TotalLe le) (htr : TransLe le) (hi : α → Bool)
    (l : List α) (h : ∀ x ∈ l, ∀ y ∈ l, hi x = true → hi y = false → le y x = false) :
    sortBy le l = sortBy le (l.filter hi) ++ sortBy le (l.filter (fun x => !hi x)) := by
  have := sorted_partition le hi (sortBy le l) (sorted_sortBy le htot htr l)
    (fun x hx y hy => h x ((mem_sortBy le).1 hx) y ((mem_sortBy le).1 hy))
  rw [filter_sortBy le htot htr, filter_sortBy le htot htr] at this
  exact this

theorem sortBy_of_sorted {α : Type} (le : α → α → Bool) : ∀ (l : List α), SortedBy le l → sortBy le l = l := by
  intro l
  induction l with
  | nil => intro _; rfl
  | cons x xs ih =>
    intro h
    unfold SortedBy at h ih
    rw [List.pairwise_cons] at h
    simp only [sortBy]
    rw [ih h.2]
    exact insertBy_of_le_all le h.1

theorem insertBy_congr {α : Type} (le1 le2 : α → α → Bool) (x : α) : ∀ (ys : List α),
    (∀ b ∈ ys, le1 x b = le2 x b) → insertBy le1 x ys = insertBy le2 x ys := by
  intro ys
  induction ys with
  | nil => intro _; rfl
  | cons y ys ih =>
    intro h
    simp only [insertBy]
    rw [h y (by simp), ih (fun b hb => h b (by simp [hb]))]

theorem sortBy_congr {α : Type} (le1 le2 : α → α → Bool) : ∀ (l : List α),
    (∀ a ∈ l, ∀ b ∈ l, le1 a b = le2 a b) → sortBy le1 l = sortBy le2 l := by
  intro l
  induction l with
  | nil => intro _; rfl
  | cons x xs ih =>
    intro h
    simp only [sortBy]
    rw [ih (fun a ha b hb => h a (by simp [ha]) b (by simp [hb]))]
    exact insertBy_congr le1 le2 x _ (fun b hb => h x (by simp) b (by simp [(mem_sortBy le2).1 hb]))

theorem insertBy_map {α β : Type} (le1 : α → α → Bool) (le2 : β → β → Bool) (f : α → β)
    (h : ∀ a b, le2 (f a) (f b) = le1 a b) (x : α) : ∀ (ys : List α),
    (insertBy le1 x ys).map f = insertBy le2 (f x) (ys.map f) := by
  intro ys
  induction ys with
  | nil => rfl
  | cons y ys ih =>
    simp only [insertBy, List.map_cons, h]
    split <;> simp [ih]

theorem sortBy_map {α β : Type} (le1 : α → α → Bool) (le2 : β → β → Bool) (f : α → β)
    (h : ∀ a b, le2 (f a) (f b) = le1 a b) : ∀ (l : List α),
    (sortBy le1 l).map f = sortBy le2 (l.map f) := by
  intro l
  induction l with
  | nil => rfl
  | cons x xs ih => simp only [sortBy, List.map_cons, insertBy_map le1 le2 f h, ih]

theorem best_map {α β : Type} (le1 : α → α → Bool) (le2 : β → β → Bool) (f : α → β)
    (h : ∀ a b, le2 (f a) (f b) = le1 a b) : ∀ (l : List α), (best le1 l).map f = best le2 (l.map f) := by
  intro l
  induction l with
  | nil => rfl
  | cons x xs ih =>
    simp only [best, List.map_cons, Option.map_some, ← ih]
    cases best le1 xs with
    | none => simp [pick]
    | some b => simp only [pick, Option.map_some, h]; split <;> rfl

/-- Comparison of (specificity, value) pairs: more specific first. -/
def pairLe (p q : Nat × Val) : Bool := decide (q.1 ≤ p.1)

theorem mostSpecific_eq_best (es : List (Nat × Val)) : mostSpecific es = best pairLe es := by
  induction es with
  | nil => rfl
  | cons e r ih =>
    simp only [mostSpecific, best, ih]
    cases best pairLe r with
    | none => simp [pick]
    | some b =>
      simp only [pick, pairLe]
      by_cases h : e.1 < b.1
      · have : ¬ b.1 ≤ e.1 := by omega
        simp [h, this]
      · have : b.1 ≤ e.1 := by omega
        simp [h, this]

theorem mem_bucketsDown {es : List (Nat × Val)} {x : Nat × Val} : ∀ (N : Nat), x ∈ bucketsDown es N → x ∈ es := by
  intro N
  induction N with
  | zero => intro h; simp only [bucketsDown, List.mem_filter] at h; exact h.1
  | succ n ih =>
    intro h
    simp only [bucketsDown, List.mem_append, List.mem_filter] at h
    rcases h with h | h
    · exact h.1
    · exact ih h

theorem bucketsDown_le {es : List (Nat × Val)} {x : Nat × Val} : ∀ (N : Nat), x ∈ bucketsDown es N → x.1 ≤ N := by
  intro N
  induction N with
  | zero => intro h; simp only [bucketsDown, List.mem_filter, beq_iff_eq] at h; omega
  | succ n ih =>
    intro h
    simp only [bucketsDown, List.mem_append, List.mem_filter, beq_iff_eq] at h
    rcases h with h | h
    · omega
    · have := ih h; omega

theorem bucketsDown_cons_gt (x : Nat × Val) (es : List (Nat × Val)) : ∀ (n : Nat), n < x.1 →
    bucketsDown (x :: es) n = bucketsDown es n := by
  intro n
  induction n with
  | zero =>
    intro h
    have : (x.1 == 0) = false := by simp; omega
    simp [bucketsDown, List.filter_cons, this]
  | succ m ih =>
    intro h
    have : (x.1 == m + 1) = false := by simp; omega
    simp only [bucketsDown, List.filter_cons, this, if_false, Bool.false_eq_true]
    rw [ih (by omega)]

theorem insertBy_buckets (x : Nat × Val) (es : List (Nat × Val)) : ∀ (N : Nat), x.1 ≤ N →
    insertBy pairLe x (bucketsDown es N) = bucketsDown (x :: es) N := by
  intro N
  induction N with
  | zero =>
    intro hx
    have hx0 : x.1 = 0 := by omega
    simp only [bucketsDown, List.filter_cons, hx0, beq_self_eq_true, if_true]
    apply insertBy_of_le_all
    intro z hz
    simp only [List.mem_filter, beq_iff_eq] at hz
    simp [pairLe, hz.2, hx0]
  | succ n ih =>
    intro hx
    by_cases hxn : x.1 = n + 1
    · have h1 : bucketsDown (x :: es) (n + 1) = x :: bucketsDown es (n + 1) := by
        simp only [bucketsDown, List.filter_cons, hxn, beq_self_eq_true, if_true, List.cons_append]
        rw [bucketsDown_cons_gt x es n (by omega)]
      rw [h1]
      apply insertBy_of_le_all
      intro z hz
      have := bucketsDown_le _ hz
      simp [pairLe]; omega
    · have hb : (x.1 == n + 1) = false := by simp [hxn]
      simp only [bucketsDown, List.filter_cons, hb, if_false, Bool.false_eq_true]
      rw [insertBy_append_right pairLe, ih (by omega)]
      intro z hz
      simp only [List.mem_filter, beq_iff_eq] at hz
      simp [pairLe]; omega

theorem bucketsDown_nil : ∀ (N : Nat), bucketsDown [] N = [] := by
  intro N; induction N with
  | zero => rfl
  | succ n ih => simp [bucketsDown, ih]

/-- The stable sort by descending specificity is the bucket order of the spec. -/
theorem sortBy_eq_buckets (N : Nat) : ∀ (es : List (Nat × Val)), (∀ e ∈ es, e.1 ≤ N) →
    sortBy pairLe es = bucketsDown es N := by
  intro es
  induction es with
  | nil => intro _; simp [sortBy, bucketsDown_nil]
  | cons x es ih =>
    intro h
    simp only [sortBy]
    rw [ih (fun e he => h e (by simp [he])), insertBy_buckets x es N (h x (by simp))]

/-- A run of identical elements in front behaves like one for `best`. -/
theorem best_run {α : Type} (le : α → α → Bool) (hrefl : ∀ a, le a a = true) (i : α) :
    ∀ (l : List α), l ≠ [] → (∀ x ∈ l, x = i) → ∀ (r : List α),
    best le (l ++ r) = some (pick le i (best le r)) := by
  intro l
  induction l with
  | nil => intro h; exact absurd rfl h
  | cons x xs ih =>
    intro _ hall r
    have hx : x = i := hall x (by simp)
    subst hx
    cases xs with
    | nil => simp [best]
    | cons y ys =>
      have := ih (by simp) (fun z hz => hall z (by simp [hz])) r
      simp only [List.cons_append, best] at this ⊢
      rw [Option.some.injEq] at this
      rw [this]
      cases best le r with
      | none => simp [pick, hrefl]
      | some b =>
        simp only [pick]
        by_cases h : le x b = true
        · simp [h, hrefl]
        · simp [h]

/-- `best` over groups: each group is empty or a non-empty run of one element. -/
theorem best_groups {α γ : Type} (le : α → α → Bool) (hrefl : ∀ a, le a a = true) (G : γ → List α)
    (g : γ → Option α) : ∀ (cs : List γ),
    (∀ c ∈ cs, ∀ i, g c = some i → G c ≠ [] ∧ ∀ x ∈ G c, x = i) →
    (∀ c ∈ cs, g c = none → G c = []) →
    best le (cs.flatMap G) = best le (cs.filterMap g) := by
  intro cs
  induction cs with
  | nil => intro _ _; rfl
  | cons c cs ih =>
    intro h1 h2
    have ih' := ih (fun c' hc' => h1 c' (by simp [hc'])) (fun c' hc' => h2 c' (by simp [hc']))
    simp only [List.flatMap_cons, List.filterMap_cons]
    cases hg : g c with
    | none => simp [h2 c (by simp) hg, ih']
    | some i =>
      have hc := h1 c (by simp) i hg
      rw [best_run le hrefl i (G c) hc.1 hc.2, ih']
      simp [best]

/-! ### One file: its sorted relevant instances against the spec's reading of the file -/

def lenLe (a b : Inst) : Bool := decide (b.app.length ≤ a.app.length)
def pairOf (i : Inst) : Nat × Val := (i.app.length, i.val)
def hiInst (i : Inst) : Bool := decide (1 ≤ i.app.length)

theorem lenLe_total : TotalLe lenLe := by intro a b; simp only [lenLe, decide_eq_true_eq]; omega
theorem lenLe_trans : TransLe lenLe := by intro a b c; simp only [lenLe, decide_eq_true_eq]; omega
theorem lenLe_refl (a : Inst) : lenLe a a = true := by simp [lenLe]

theorem sortBy_key_len {p : Nat} {l : List Inst} (h : ∀ i ∈ l, IsFileAt p i) : sortBy keyLe l = sortBy lenLe l :=
  sortBy_congr keyLe lenLe l (fun a ha b hb => by rw [keyLe_file (h a ha) (h b hb)]; rfl)

def ovPart (reg : Registry) (p : Nat) (body : Table) : List Inst :=
  match lookupKey body "overrides" with
  | some v => ovInsts reg p v
  | none => []

theorem settingInsts_app {reg mp p kv i} (h : i ∈ settingInsts reg mp p kv) : i.app = mp := by
  unfold settingInsts at h
  split at h
  · simp at h
  · split at h
    · split at h
      · simp at h; subst h; rfl
      · simp at h
    · simp at h

theorem tailOf_app {reg mp p items i} (h : i ∈ tailOf reg mp p items) : i.app = mp := by
  unfold tailOf disableTail at h
  split at h
  · simp only [List.mem_map] at h
    obtain ⟨c, _, rfl⟩ := h
    rfl
  · simp at h

theorem sectionPure_app {reg mp p items i} (h : i ∈ sectionPure reg mp p items) : i.app = mp := by
  simp only [sectionPure, List.mem_append, List.mem_flatMap] at h
  rcases h with ⟨kv, _, h⟩ | h
  · exact settingInsts_app h
  · exact tailOf_app h

theorem pySplit_length_pos (m : String) : 1 ≤ (pySplit m).length := by
  have := pySplit_ne_nil m
  cases h : pySplit m with
  | nil => exact absurd h this
  | cons x xs => simp

theorem ovInsts_hi {reg p v i} (h : i ∈ ovInsts reg p v) : hiInst i = true := by
  unfold ovInsts at h
  split at h
  · simp only [List.mem_flatMap] at h
    obtain ⟨ov, _, h⟩ := h
    unfold overridePure at h
    split at h
    · split at h
      · rename_i m _
        have := sectionPure_app h
        simp [hiInst, this, pySplit_length_pos]
      · simp at h
    · simp at h
  · simp at h

theorem topPure_filter_hi (reg : Registry) (p : Nat) (body : Table) (hn : keysNodup body) :
    (topPure reg p [] body).filter hiInst = ovPart reg p body := by
  unfold topPure ovPart
  have htail : (tailOf reg [] p body).filter hiInst = [] :=
    filter_eq_nil' (fun x hx => by simp [hiInst, tailOf_app hx])
  rw [List.filter_append, htail, List.append_nil, List.filter_flatMap,
    ← flatMap_key (fun v => ovInsts reg p v) "overrides" body hn]
  apply flatMap_congr'
  intro kv _
  by_cases h1 : kv.1 = "extend_config"
  · have : (kv.1 == "overrides") = false := by simp [h1]
    simp [topItemPure, h1, this]
  · by_cases h2 : kv.1 = "overrides"
    · simp only [topItemPure, h1, h2, beq_self_eq_true, if_true, beq_iff_eq, if_false]
      simp only [show ("overrides" = "extend_config") = False from by simp, if_false]
      exact filter_eq_self' (fun x hx => ovInsts_hi hx)
    · simp only [topItemPure, beq_iff_eq, h1, h2, if_false]
      exact filter_eq_nil' (fun x hx => by simp [hiInst, settingInsts_app hx])

theorem topPure_filter_lo (reg : Registry) (p : Nat) (body : Table) :
    (topPure reg p [] body).filter (fun x => !hiInst x) = sectionPure reg [] p body := by
  unfold topPure sectionPure
  have htail : (tailOf reg [] p body).filter (fun x => !hiInst x) = tailOf reg [] p body :=
    filter_eq_self' (fun x hx => by simp [hiInst, tailOf_app hx])
  rw [List.filter_append, htail, List.filter_flatMap]
  congr 1
  apply flatMap_congr'
  intro kv _
  by_cases h1 : kv.1 = "extend_config"
  · simp [topItemPure, h1, settingInsts, isStructural]
  · by_cases h2 : kv.1 = "overrides"
    · simp only [topItemPure, h1, h2, beq_self_eq_true, if_true, beq_iff_eq, if_false]
      simp only [show ("overrides" = "extend_config") = False from by simp, if_false]
      rw [filter_eq_nil' (fun x hx => by simp [ovInsts_hi hx])]
      simp [settingInsts, isStructural, h2]
    · simp only [topItemPure, beq_iff_eq, h1, h2, if_false]
      exact filter_eq_self' (fun x hx => by simp [hiInst, settingInsts_app hx])

theorem filter_comm' {α : Type} (p q : α → Bool) (l : List α) : (l.filter p).filter q = (l.filter q).filter p := by
  induction l with
  | nil => rfl
  | cons x xs ih =>
    by_cases hp : p x = true <;> by_cases hq : q x = true <;> simp [List.filter_cons, hp, hq, ih]

theorem relevant_filter (d : OptDecl) (mod : List String) (p : Inst → Bool) (l : List Inst) :
    (relevant d mod l).filter p = relevant d mod (l.filter p) := by
  unfold relevant
  rw [filter_comm' _ p, filter_comm' (fun x => x.name == d.name) p]

theorem relevant_flatMap {γ : Type} (d : OptDecl) (mod : List String) (f : γ → List Inst) (l : List γ) :
    relevant d mod (l.flatMap f) = l.flatMap (fun c => relevant d mod (f c)) := by
  unfold relevant
  rw [List.filter_flatMap, List.filter_flatMap]

/-- The single instance the spec attributes to an override for module path `mod`. -/
def overrideInst (d : OptDecl) (mod : List String) (p : Nat) (ov : TV) : Option Inst :=
  match ov with
  | .tbl kvs =>
    (match lookupKey kvs "module" with
      | some (.str m) => if (pySplit m).isPrefixOf mod then secInst d (pySplit m) p kvs else none
      | _ => none)
  | _ => none

theorem overrideInst_pair (d : OptDecl) (mod : List String) (p : Nat) (ov : TV) :
    (overrideInst d mod p ov).map pairOf = overrideEntry d mod ov := by
  unfold overrideInst overrideEntry
  cases ov with
  | tbl kvs =>
    simp only
    cases lookupKey kvs "module" with
    | none => rfl
    | some mv =>
      cases mv with
      | str m =>
        simp only
        by_cases hp : (pySplit m).isPrefixOf mod = true
        · simp only [hp, if_true, secInst, Option.map_map]
          cases specSectionValue d kvs <;> simp [pairOf, fileInst]
        · simp [hp]
      | _ => rfl
  | _ => rfl

theorem prefix_take_beq : ∀ (mp mod : List String), mp.isPrefixOf mod = true →
    (mod.take mp.length == mp) = true := by
  intro mp
  induction mp with
  | nil => intro mod _; simp
  | cons x xs ih =>
    intro mod h
    cases mod with
    | nil => simp [List.isPrefixOf] at h
    | cons y ys =>
      simp only [List.isPrefixOf, Bool.and_eq_true, beq_iff_eq] at h
      have := ih ys h.2
      simp only [beq_iff_eq] at this
      simp [h.1, this]

theorem isPrefixOf_length : ∀ (mp mod : List String), mp.isPrefixOf mod = true → mp.length ≤ mod.length := by
  intro mp
  induction mp with
  | nil => intro mod _; simp
  | cons x xs ih =>
    intro mod h
    cases mod with
    | nil => simp [List.isPrefixOf] at h
    | cons y ys =>
      simp only [List.isPrefixOf, Bool.and_eq_true] at h
      have := ih ys h.2
      simp; omega

/-- **Override reading.** The relevant instances of one valid override are a non-empty run of
the instance the spec reads (exactly one for a non-error-code option), none if the spec reads
nothing or the override does not match the module path. -/
theorem override_exact {reg : Registry} {d : OptDecl} (ok : RegOK reg d) (mod : List String) (p : Nat) {ov : TV}
    (hv : specValidOverride reg ov = true) (hn : ∀ kvs, ov = .tbl kvs → keysNodup kvs) :
    (∀ i, overrideInst d mod p ov = some i →
      relevant d mod (overridePure reg p ov) ≠ [] ∧ ∀ x ∈ relevant d mod (overridePure reg p ov), x = i) ∧
    (overrideInst d mod p ov = none → relevant d mod (overridePure reg p ov) = []) ∧
    (d.isCode = false → relevant d mod (overridePure reg p ov) = (overrideInst d mod p ov).toList) := by
  cases ov with
  | tbl kvs =>
    have hsec := secOK_of_override hv
    simp only [specValidOverride, Bool.and_eq_true] at hv
    cases hm : lookupKey kvs "module" with
    | none => simp [hm] at hv
    | some mv =>
      cases mv with
      | str m =>
        obtain ⟨k, hk, hk0⟩ := section_exact ok (pySplit m) p hsec (hn kvs rfl)
        simp only [overrideInst, overridePure, hm, relevant]
        rw [hk]
        by_cases hp : (pySplit m).isPrefixOf mod = true
        · simp only [hp, if_true]
          cases hsi : secInst d (pySplit m) p kvs with
          | none => simp
          | some i =>
            have happ : i.applicable mod = true := by
              simp only [secInst, Option.map_eq_some_iff] at hsi
              obtain ⟨x, _, rfl⟩ := hsi
              simpa [Inst.applicable, fileInst] using prefix_take_beq _ _ hp
            simp only
            have hrep : (List.replicate (k + 1) i).filter (fun x => x.applicable mod) = List.replicate (k + 1) i :=
              filter_eq_self' (fun x hx => by rw [(List.mem_replicate.1 hx).2]; exact happ)
            rw [hrep]
            refine ⟨fun j hj => ?_, by simp, fun hc => ?_⟩
            · have : i = j := by simpa using hj
              subst this
              exact ⟨by simp, fun x hx => (List.mem_replicate.1 hx).2⟩
            · rw [hk0 hc]; simp [List.replicate]
        · simp only [hp, if_false, Bool.false_eq_true]
          cases hsi : secInst d (pySplit m) p kvs with
          | none => simp
          | some i =>
            have happ : i.applicable mod = false := by
              simp only [secInst, Option.map_eq_some_iff] at hsi
              obtain ⟨x, _, rfl⟩ := hsi
              cases h : (fileInst d.name x (pySplit m) p).applicable mod with
              | false => rfl
              | true =>
                exfalso; apply hp
                apply take_beq_prefix
                simpa [Inst.applicable, fileInst] using h
            simp only
            have hrep : (List.replicate (k + 1) i).filter (fun x => x.applicable mod) = [] :=
              filter_eq_nil' (fun x hx => by rw [(List.mem_replicate.1 hx).2]; exact happ)
            rw [hrep]; simp
      | _ => simp [hm] at hv
  | _ => simp [specValidOverride] at hv

theorem own_isFile {reg d mod p body} : ∀ i ∈ relevant d mod (topPure reg p [] body), IsFileAt p i :=
  fun i hi => isFile_own (mem_relevant.1 hi).1

/-- The sorted relevant instances of one file: the override part (most specific first), then the
top-level part. -/
theorem own_sorted {reg : Registry} {d : OptDecl} (mod : List String) (p : Nat) {body : Table} (hn : keysNodup body) :
    sortBy keyLe (relevant d mod (topPure reg p [] body)) =
      sortBy lenLe (relevant d mod (ovPart reg p body)) ++ sortBy lenLe (relevant d mod (sectionPure reg [] p body)) := by
  rw [sortBy_key_len own_isFile,
    sortBy_partition lenLe lenLe_total lenLe_trans hiInst,
    relevant_filter, relevant_filter, topPure_filter_hi reg p body hn, topPure_filter_lo]
  intro x _ y _ hx hy
  simp only [hiInst, decide_eq_true_eq, decide_eq_false_iff_not] at hx hy
  simp only [lenLe, decide_eq_false_iff_not]
  omega

theorem top_part {reg : Registry} {d : OptDecl} (ok : RegOK reg d) (mod : List String) (p : Nat) {body : Table}
    (hb : BodyOK reg body) :
    ∃ k, sortBy lenLe (relevant d mod (sectionPure reg [] p body)) =
        (match secInst d [] p body with | some i => List.replicate (k + 1) i | none => []) ∧
      (d.isCode = false → k = 0) := by
  obtain ⟨k, hk, hk0⟩ := section_exact ok [] p (secOK_of_body hb.valid) hb.keys
  refine ⟨k, ?_, hk0⟩
  have happ : ((sectionPure reg [] p body).filter (·.name == d.name)).filter (·.applicable mod) =
      (sectionPure reg [] p body).filter (·.name == d.name) :=
    filter_eq_self' (fun x hx => by
      have := sectionPure_app (List.mem_filter.1 hx).1
      simp [Inst.applicable, this])
  unfold relevant
  rw [happ, hk]
  cases secInst d [] p body with
  | none => rfl
  | some i =>
    apply sortBy_of_sorted
    unfold SortedBy
    rw [List.pairwise_replicate]
    right; exact lenLe_refl i

theorem ovPart_specOverrides {reg : Registry} {d : OptDecl} (mod : List String) (p : Nat) (body : Table) :
    ∃ ovs, ovPart reg p body = ovs.flatMap (overridePure reg p) ∧
      specOverrides d body mod = ovs.filterMap (overrideEntry d mod) ∧
      (∀ ov ∈ ovs, ("overrides", TV.arr ovs) ∈ body) := by
  unfold ovPart specOverrides
  cases hl : lookupKey body "overrides" with
  | none => exact ⟨[], by simp⟩
  | some v =>
    cases v with
    | arr ovs => exact ⟨ovs, by simp [ovInsts], by simp, fun _ _ => mem_of_lookupKey hl⟩
    | _ => exact ⟨[], by simp [ovInsts]⟩

theorem filterMap_map' {α β γ : Type} (f : α → Option β) (g : β → γ) (l : List α) :
    (l.filterMap f).map g = l.filterMap (fun a => (f a).map g) := by
  induction l with
  | nil => rfl
  | cons x xs ih =>
    simp only [List.filterMap_cons]
    cases f x <;> simp [ih]

/-- **File reading, first match.** The first of the file's sorted relevant instances carries
the value of the most specific matching override, otherwise the top-level value. -/
theorem file_first {reg : Registry} {d : OptDecl} (ok : RegOK reg d) (mod : List String) (p : Nat) {body : Table}
    (hb : BodyOK reg body) :
    ((sortBy keyLe (relevant d mod (topPure reg p [] body))).head?).map (·.val) = specFileFirst d mod body := by
  rw [own_sorted mod p hb.keys, List.head?_append]
  obtain ⟨k, hT, _⟩ := top_part ok mod p hb
  obtain ⟨ovs, hO, hS, hmem⟩ := ovPart_specOverrides (reg := reg) (d := d) mod p body
  have hex : ∀ ov ∈ ovs, _ := fun ov hov => by
    have hin := hmem ov hov
    obtain ⟨hval, hnd⟩ := hb.overrides hin
    have hv : specValidOverride reg ov = true := by
      simp only [List.all_eq_true] at hval; exact hval ov hov
    exact override_exact ok mod p hv (fun kvs he => hnd kvs (he ▸ hov))
  have hbest : (best lenLe (relevant d mod (ovPart reg p body))).map pairOf = mostSpecific (specOverrides d body mod) := by
    rw [hO, relevant_flatMap,
      best_groups lenLe lenLe_refl (fun c => relevant d mod (overridePure reg p c)) (overrideInst d mod p) ovs,
      best_map lenLe pairLe pairOf (fun _ _ => rfl), filterMap_map', hS, mostSpecific_eq_best]
    · have : (fun a => Option.map pairOf (overrideInst d mod p a)) = overrideEntry d mod :=
        funext (overrideInst_pair d mod p)
      rw [this]
    · intro ov hov
      exact (hex ov hov).1
    · intro ov hov
      exact (hex ov hov).2.1
  rw [head_sortBy lenLe lenLe_total lenLe_trans, hT]
  unfold specFileFirst
  rw [← hbest]
  cases best lenLe (relevant d mod (ovPart reg p body)) with
  | some i => simp [pairOf]
  | none =>
    simp only [Option.map_none, Option.none_or]
    cases hsi : secInst d [] p body with
    | none =>
      simp only [secInst, Option.map_eq_none_iff] at hsi
      simp [hsi]
    | some i =>
      simp only [secInst, Option.map_eq_some_iff] at hsi
      obtain ⟨x, hx, rfl⟩ := hsi
      simp [List.replicate, hx, fileInst]

/-- **File reading, all values.** For an option that is not an error code, the values of the
file's sorted relevant instances are exactly the spec's list for the file. -/
theorem file_all {reg : Registry} {d : OptDecl} (ok : RegOK reg d) (mod : List String) (p : Nat) {body : Table}
    (hb : BodyOK reg body) (hc : d.isCode = false) :
    (sortBy keyLe (relevant d mod (topPure reg p [] body))).map (·.val) = specFileAll d mod body := by
  rw [own_sorted mod p hb.keys, List.map_append]
  obtain ⟨k, hT, hk0⟩ := top_part ok mod p hb
  obtain ⟨ovs, hO, hS, hmem⟩ := ovPart_specOverrides (reg := reg) (d := d) mod p body
  have hOeq : relevant d mod (ovPart reg p body) = ovs.filterMap (overrideInst d mod p) := by
    rw [hO, relevant_flatMap]
    have : ∀ ov ∈ ovs, relevant d mod (overridePure reg p ov) = (overrideInst d mod p ov).toList := by
      intro ov hov
      have hin := hmem ov hov
      obtain ⟨hval, hnd⟩ := hb.overrides hin
      have hv : specValidOverride reg ov = true := by
        simp only [List.all_eq_true] at hval; exact hval ov hov
      exact (override_exact ok mod p hv (fun kvs he => hnd kvs (he ▸ hov))).2.2 hc
    rw [flatMap_congr' this]
    clear this hmem hO hS
    induction ovs with
    | nil => rfl
    | cons ov ovs ih =>
      simp only [List.flatMap_cons, List.filterMap_cons, ih]
      cases overrideInst d mod p ov <;> simp
  have hpairs : (relevant d mod (ovPart reg p body)).map pairOf = specOverrides d body mod := by
    rw [hOeq, filterMap_map', hS]
    have : (fun a => Option.map pairOf (overrideInst d mod p a)) = overrideEntry d mod :=
      funext (overrideInst_pair d mod p)
    rw [this]
  have hle : ∀ e ∈ specOverrides d body mod, e.1 ≤ mod.length := by
    intro e he
    rw [hS] at he
    simp only [List.mem_filterMap] at he
    obtain ⟨ov, _, hoe⟩ := he
    simp only [overrideEntry] at hoe
    split at hoe
    · split at hoe
      · split at hoe
        · rename_i hp
          simp only [Option.map_eq_some_iff] at hoe
          obtain ⟨x, _, rfl⟩ := hoe
          exact isPrefixOf_length _ _ hp
        · simp at hoe
      · simp at hoe
    · simp at hoe
  have h1 : (sortBy lenLe (relevant d mod (ovPart reg p body))).map (·.val) =
      (bucketsDown (specOverrides d body mod) mod.length).map (·.2) := by
    have := sortBy_map lenLe pairLe pairOf (fun _ _ => rfl) (relevant d mod (ovPart reg p body))
    rw [hpairs, sortBy_eq_buckets mod.length _ hle] at this
    rw [← this, List.map_map]
    rfl
  rw [h1, hT, hk0 hc]
  unfold specFileAll
  congr 1
  cases hsi : secInst d [] p body with
  | none =>
    simp only [secInst, Option.map_eq_none_iff] at hsi
    simp [hsi]
  | some i =>
    simp only [secInst, Option.map_eq_some_iff] at hsi
    obtain ⟨x, hx, rfl⟩ := hsi
    simp [List.replicate, hx, fileInst]

/-! ### Command line + chain: the whole lookup -/

theorem specStack_linked (fs : FS) : ∀ (fuel : Nat) (p : String) (seen : List String) (stack : List Table),
    specStack fs fuel p seen = some stack → linked stack ∧ stack ≠ [] := by
  intro fuel
  induction fuel with
  | zero => intro p seen stack h; simp [specStack] at h
  | succ fuel ih =>
    intro p seen stack h
    unfold specStack at h
    by_cases hs : p ∈ seen
    · simp [hs] at h
    · have hc : seen.contains p = false := by simp [hs]
      simp only [hc, if_false, Bool.false_eq_true] at h
      cases hg : fs.get p with
      | none => simp [hg] at h
      | some body =>
        simp only [hg] at h
        cases he : lookupKey body "extend_config" with
        | none =>
          simp only [he, Option.some.injEq] at h
          subst h
          exact ⟨⟨by simp, trivial⟩, by simp⟩
        | some tv =>
          cases tv with
          | str t =>
            simp only [he, Option.map_eq_some_iff] at h
            obtain ⟨rest, hrest, rfl⟩ := h
            obtain ⟨hl, _⟩ := ih t (p :: seen) rest hrest
            refine ⟨⟨fun _ => ?_, hl⟩, by simp⟩
            have := mem_of_lookupKey he
            simp only [hasExt, List.any_eq_true]
            exact ⟨_, this, by simp⟩
          | _ => simp [he] at h

def mkCli (nv : String × Val) : Inst := { name := nv.1, val := nv.2, app := [], cli := true, prio := 0 }

theorem cliInsts_eq (cli : List (String × Val)) : cliInsts cli = cli.map mkCli := by
  unfold cliInsts mkCli
  apply List.map_congr_left
  intro nv _; rfl

theorem relevant_cli (d : OptDecl) (mod : List String) : ∀ (cli : List (String × Val)),
    (cli.map (·.1)).Nodup →
    relevant d mod (cliInsts cli) = ((cliValue cli d.name).map (fun v => mkCli (d.name, v))).toList := by
  intro cli
  rw [cliInsts_eq]
  induction cli with
  | nil => intro _; rfl
  | cons nv r ih =>
    intro hn
    simp only [List.map_cons, List.nodup_cons] at hn
    by_cases hk : nv.1 = d.name
    · have hnone : cliValue r d.name = none := by
        simp only [cliValue, Option.map_eq_none_iff, List.find?_eq_none]
        intro x hx hxk
        apply hn.1
        rw [hk, ← (beq_iff_eq.1 hxk)]
        exact List.mem_map.2 ⟨x, hx, rfl⟩
      have ih' := ih hn.2
      rw [hnone] at ih'
      simp only [relevant, Option.map_none, Option.toList_none] at ih'
      obtain ⟨n, v⟩ := nv
      simp only at hk; subst hk
      simp only [relevant, List.map_cons, List.filter_cons, mkCli, beq_self_eq_true, if_true]
      rw [show (List.filter (fun x => x.applicable mod) (List.filter (fun x => x.name == d.name) (List.map mkCli r))) = [] from ih']
      simp [cliValue, Inst.applicable, mkCli]
    · have hb : (nv.1 == d.name) = false := by simp [hk]
      have ih' := ih hn.2
      simp only [relevant] at ih' ⊢
      simp only [List.map_cons, List.filter_cons, mkCli, hb, if_false, Bool.false_eq_true]
      rw [ih']
      simp [cliValue, List.find?_cons, hb, mkCli]

theorem keyLe_cli_any {a b : Inst} (ha : a.cli = true ∧ a.prio = 0 ∧ a.app = [])
    (hb : b.cli = false ∨ (b.cli = true ∧ b.prio = 0 ∧ b.app = [])) : keyLe a b = true := by
  rcases hb with hb | hb
  · simp [keyLe, Inst.cliRank, ha.1, hb]
  · simp [keyLe, Inst.cliRank, ha.1, ha.2.1, ha.2.2, hb.1, hb.2.1, hb.2.2]

/-- The sorted relevant instances of command line + valid chain: the command-line instance, then
one layer per file in inclusion order. -/
theorem all_sorted {reg : Registry} {d : OptDecl} {mod : List String}
    {cli : List (String × Val)} (hcli : (cli.map (·.1)).Nodup) {stack : List Table}
    (hb : ∀ b ∈ stack, BodyOK reg b) (hl : linked stack) :
    sortBy keyLe (relevant d mod (cliInsts cli ++ chainPure reg 0 stack)) =
      ((cliValue cli d.name).map (fun v => mkCli (d.name, v))).toList ++ layers reg d mod 0 stack := by
  rw [relevant_append, relevant_cli d mod cli hcli, sortBy_append_le, chain_sorted stack 0 hb hl]
  · congr 1
    cases cliValue cli d.name <;> simp [sortBy, insertBy]
  · intro a ha b hb'
    cases hv : cliValue cli d.name with
    | none => simp [hv] at ha
    | some v =>
      simp only [hv, Option.map_some, Option.toList_some, List.mem_singleton] at ha
      subst ha
      exact keyLe_cli_any ⟨rfl, rfl, rfl⟩ (Or.inl (isFile_chainPure stack 0 b (mem_relevant.1 hb').1).1)

theorem head?_flatMap {α β : Type} (f : α → List β) : ∀ (l : List α),
    (l.flatMap f).head? = l.findSome? (fun a => (f a).head?) := by
  intro l
  induction l with
  | nil => rfl
  | cons x xs ih =>
    simp only [List.flatMap_cons, List.head?_append, List.findSome?_cons, ih]
    cases (f x).head? <;> simp

theorem findSome?_map' {α β γ : Type} (f : α → Option β) (g : β → γ) : ∀ (l : List α),
    (l.findSome? f).map g = l.findSome? (fun a => (f a).map g) := by
  intro l
  induction l with
  | nil => rfl
  | cons x xs ih =>
    simp only [List.findSome?_cons]
    cases f x <;> simp [ih]

theorem findSome?_congr' {α β : Type} {f g : α → Option β} : ∀ {l : List α}, (∀ a ∈ l, f a = g a) →
    l.findSome? f = l.findSome? g := by
  intro l
  induction l with
  | nil => intro _; rfl
  | cons x xs ih =>
    intro h
    simp only [List.findSome?_cons]
    rw [h x (by simp), ih (fun a ha => h a (by simp [ha]))]

theorem getFirst_eq_head (d : OptDecl) (insts : List Inst) (mod : List String) :
    getFirst d insts mod = (((sortBy keyLe (relevant d mod insts)).head?).map (·.val)).getD d.dflt := by
  rw [getFirst_eq_best, head_sortBy keyLe keyLe_total keyLe_trans]
  cases best keyLe (relevant d mod insts) <;> rfl

/-- The first value of the layers is the first file's reading that is not empty. -/
theorem layers_head {reg : Registry} {d : OptDecl} (ok : RegOK reg d) (mod : List String) :
    ∀ (stack : List Table) (p : Nat), (∀ b ∈ stack, BodyOK reg b) →
    ((layers reg d mod p stack).head?).map (·.val) = stack.findSome? (specFileFirst d mod) := by
  intro stack
  induction stack with
  | nil => intro p _; rfl
  | cons b rest ih =>
    intro p hb
    have h1 := file_first ok mod p (hb b (by simp))
    have h2 := ih (p + 1) (fun b' hb' => hb b' (by simp [hb']))
    simp only [layers, List.head?_append, List.findSome?_cons, ← h1, ← h2]
    cases (sortBy keyLe (relevant d mod (topPure reg p [] b))).head? <;> simp

/-- First-match options on command line + valid chain equal the spec. -/
theorem first_eq_spec {reg : Registry} {d : OptDecl} (ok : RegOK reg d) {mod : List String}
    {cli : List (String × Val)} (hcli : (cli.map (·.1)).Nodup) {stack : List Table}
    (hb : ∀ b ∈ stack, BodyOK reg b) (hl : linked stack) :
    getFirst d (cliInsts cli ++ chainPure reg 0 stack) mod = specFirst d cli stack mod := by
  rw [getFirst_eq_head, all_sorted hcli hb hl]
  unfold specFirst
  cases hv : cliValue cli d.name with
  | some v => simp [mkCli]
  | none =>
    simp only [Option.map_none, Option.toList_none, List.nil_append]
    rw [layers_head ok mod stack 0 hb]

theorem flatMap_flatMap' {α β γ : Type} (f : α → List β) (g : β → List γ) : ∀ (l : List α),
    (l.flatMap f).flatMap g = l.flatMap (fun a => (f a).flatMap g) := by
  intro l
  induction l with
  | nil => rfl
  | cons x xs ih => simp [List.flatMap_cons, List.flatMap_append, ih]

theorem flatMap_val_map (l : List Inst) :
    l.flatMap (fun i => i.val.asStrs) = (l.map (·.val)).flatMap (·.asStrs) := by
  induction l with
  | nil => rfl
  | cons x xs ih => simp [List.flatMap_cons, ih]

/-- The values of the layers are the files' value lists in inclusion order. -/
theorem layers_values {reg : Registry} {d : OptDecl} (ok : RegOK reg d) (mod : List String)
    (hc : d.isCode = false) : ∀ (stack : List Table) (p : Nat), (∀ b ∈ stack, BodyOK reg b) →
    (layers reg d mod p stack).flatMap (fun i => i.val.asStrs) =
      stack.flatMap (fun b => (specFileAll d mod b).flatMap (·.asStrs)) := by
  intro stack
  induction stack with
  | nil => intro p _; rfl
  | cons b rest ih =>
    intro p hb
    simp only [layers, List.flatMap_append, List.flatMap_cons]
    rw [ih (p + 1) (fun b' hb' => hb b' (by simp [hb'])), flatMap_val_map,
      file_all ok mod p (hb b (by simp)) hc]

/-- Concatenated options on command line + valid chain equal the spec. -/
theorem concat_eq_spec {reg : Registry} {d : OptDecl} (ok : RegOK reg d) {mod : List String}
    {cli : List (String × Val)} (hcli : (cli.map (·.1)).Nodup) {stack : List Table}
    (hb : ∀ b ∈ stack, BodyOK reg b) (hl : linked stack) (hc : d.isCode = false) :
    getConcat d (cliInsts cli ++ chainPure reg 0 stack) mod = .strs (specConcatList d cli stack mod) := by
  rw [getConcat_eq_sorted, all_sorted hcli hb hl]
  unfold specConcatList
  simp only [List.flatMap_append]
  rw [layers_values ok mod hc stack 0 hb]
  congr 2
  cases cliValue cli d.name <;> simp [mkCli]

/-! ## Part D — rejection: what a successful parse implies -/

/-- What `_parse_config_section` itself checks of a setting. -/
def weakSetting (reg : Registry) (k : String) (v : TV) : Bool :=
  match reg.find k with
  | some d => d.kind != .other && (parseValue d.kind v).isSome
  | none => false

def weakValidOverride (reg : Registry) (ov : TV) : Bool :=
  match ov with
  | .tbl kvs =>
    (match lookupKey kvs "module" with | some (.str _) => true | _ => false) &&
    kvs.all fun kv =>
      if kv.1 == "module" || kv.1 == "extend_config" then true
      else if kv.1 == "disable_all" then kv.2.isBool
      else if kv.1 == "overrides" then false
      else weakSetting reg kv.1 kv.2
  | _ => false

def weakValidBody (reg : Registry) (body : Table) : Bool :=
  body.all fun kv =>
    if kv.1 == "module" then false
    else if kv.1 == "extend_config" then kv.2.isStr
    else if kv.1 == "overrides" then (match kv.2 with | .arr ovs => ovs.all (weakValidOverride reg) | _ => false)
    else if kv.1 == "disable_all" then kv.2.isBool
    else weakSetting reg kv.1 kv.2

theorem mapM_ok_inv {α β ε : Type} (f : α → Except ε β) : ∀ (l : List α) (outs : List β),
    l.mapM f = .ok outs → ∀ x ∈ l, ∃ o, f x = .ok o := by
  intro l
  induction l with
  | nil => intro _ _ x hx; simp at hx
  | cons y ys ih =>
    intro outs h x hx
    rw [List.mapM_cons] at h
    cases hy : f y with
    | error e => simp [hy, bind, Except.bind] at h
    | ok o =>
      simp only [hy, bind, Except.bind] at h
      cases hys : List.mapM f ys with
      | error e => simp [hys] at h
      | ok os =>
        rcases List.mem_cons.1 hx with rfl | hx
        · exact ⟨o, hy⟩
        · exact ih os hys x hx

theorem parseSection_ok_inv {reg ext onOv mp prio} {items : Table} {out : List Inst}
    (h : parseSection reg ext onOv mp prio items = .ok out) :
    (mp.isEmpty && items.any (·.1 == "module")) = false ∧
    ∀ kv ∈ items, ∃ o, itemInsts reg ext onOv mp prio kv = .ok o := by
  rw [parseSection_nf] at h
  by_cases hc : (mp.isEmpty && items.any (·.1 == "module")) = true
  · simp [hc] at h
  · simp only [hc, if_false, Bool.false_eq_true] at h
    refine ⟨by cases hx : (mp.isEmpty && items.any (·.1 == "module")) <;> simp_all, ?_⟩
    cases hm : List.mapM (itemInsts reg ext onOv mp prio) items with
    | error e => simp [hm, Except.map] at h
    | ok outs => exact mapM_ok_inv _ items outs hm

theorem weakSetting_of_item {reg ext onOv mp prio} {k : String} {v : TV} {o : List Inst}
    (hs : isStructural k = false) (h : itemInsts reg ext onOv mp prio (k, v) = .ok o) :
    weakSetting reg k v = true := by
  unfold isStructural at hs
  simp only [Bool.or_eq_false_iff, beq_eq_false_iff_ne, ne_eq] at hs
  obtain ⟨⟨⟨h1, h2⟩, h3⟩, h4⟩ := hs
  simp only [itemInsts, beq_iff_eq, h1, h2, h3, h4, if_false] at h
  unfold weakSetting
  cases hf : reg.find k with
  | none => simp [hf] at h
  | some d =>
    simp only [hf] at h ⊢
    by_cases ho : d.kind = .other
    · simp [ho] at h
    · simp only [beq_iff_eq, ho, if_false] at h
      cases hp : parseValue d.kind v with
      | none => simp [hp] at h
      | some x => simp [ho]

theorem parseOverride_ok_inv {reg ext prio} {ov : TV} {o : List Inst}
    (h : parseOverride reg ext prio ov = .ok o) : weakValidOverride reg ov = true := by
  cases ov with
  | tbl kvs =>
    unfold parseOverride at h
    cases hm : lookupKey kvs "module" with
    | none => simp [hm] at h
    | some mv =>
      cases mv with
      | str m =>
        simp only [hm] at h
        obtain ⟨_, hitems⟩ := parseSection_ok_inv h
        simp only [weakValidOverride, hm, Bool.true_and, List.all_eq_true]
        intro kv hkv
        obtain ⟨k, v⟩ := kv
        obtain ⟨o', ho'⟩ := hitems (k, v) hkv
        by_cases h1 : k = "module"
        · simp [h1]
        by_cases h2 : k = "extend_config"
        · simp [h2]
        by_cases h4 : k = "disable_all"
        · subst h4
          cases v <;> simp [itemInsts, TV.isBool] at ho' ⊢
        by_cases h3 : k = "overrides"
        · subst h3; simp [itemInsts, nestedOv] at ho'
        have := weakSetting_of_item (by simp [isStructural, h1, h2, h3, h4]) ho'
        simp [h1, h4, h2, h3, this]
      | _ => simp [hm] at h
  | _ => simp [parseOverride] at h

theorem parseOverrides_ok_inv {reg ext prio} : ∀ {ovs : List TV} {acc o : List Inst},
    ovs.foldlM (fun acc ov => do let r ← parseOverride reg ext prio ov; pure (acc ++ r)) acc = .ok o →
    ovs.all (weakValidOverride reg) = true := by
  intro ovs
  induction ovs with
  | nil => intro _ _ _; rfl
  | cons ov ovs ih =>
    intro acc o h
    rw [List.foldlM_cons] at h
    cases hov : parseOverride reg ext prio ov with
    | error e => simp [hov, bind, Except.bind] at h
    | ok r =>
      simp only [hov, bind, Except.bind, pure, Except.pure] at h
      simp only [List.all_cons, Bool.and_eq_true]
      exact ⟨parseOverride_ok_inv hov, ih h⟩

/-- A successful parse of a top-level table: the table passes the checks the code makes, and
every `extend_config` target was parsed successfully. -/
theorem parseTop_ok_inv {reg ext prio} {body : Table} {out : List Inst}
    (h : parseTop reg ext prio body = .ok out) :
    weakValidBody reg body = true ∧ ∀ t, ("extend_config", TV.str t) ∈ body → ∃ o, ext t (prio + 1) = .ok o := by
  unfold parseTop at h
  obtain ⟨hmod, hitems⟩ := parseSection_ok_inv h
  simp only [List.isEmpty_nil, Bool.true_and] at hmod
  rw [List.any_eq_false] at hmod
  constructor
  · simp only [weakValidBody, List.all_eq_true]
    intro kv hkv
    obtain ⟨k, v⟩ := kv
    obtain ⟨o, ho⟩ := hitems (k, v) hkv
    have h1 : ¬ k = "module" := by simpa using hmod (k, v) hkv
    simp only [beq_iff_eq, h1, if_false]
    by_cases h2 : k = "extend_config"
    · subst h2
      cases v <;> simp [itemInsts, TV.isStr] at ho ⊢
    by_cases h3 : k = "overrides"
    · subst h3
      simp only [h2, if_false, if_true]
      simp only [itemInsts, beq_iff_eq, h1, h2, if_false, if_true] at ho
      cases v with
      | arr ovs => exact parseOverrides_ok_inv (acc := []) ho
      | _ => simp [parseOverrides] at ho
    by_cases h4 : k = "disable_all"
    · subst h4
      cases v <;> simp [itemInsts, TV.isBool] at ho ⊢
    simp only [h2, h3, h4, if_false]
    exact weakSetting_of_item (by simp [isStructural, h1, h2, h3, h4]) ho
  · intro t ht
    obtain ⟨o, ho⟩ := hitems _ ht
    simp only [itemInsts] at ho
    exact ⟨o, by simpa using ho⟩

/-- **A successful `parse_config_file` follows an existing, repetition-free chain of files, each
of which passes the checks the code makes.** In particular recursive inclusion, a missing file and
a non-string `extend_config` make it fail. -/
theorem parseFile_ok_inv (reg : Registry) (fs : FS) : ∀ (fuel : Nat) (p : String) (prio : Nat)
    (seen : List String) (out : List Inst), parseFile reg fs fuel p prio seen = .ok out →
    ∃ stack, specStack fs fuel p seen = some stack ∧ ∀ b ∈ stack, weakValidBody reg b = true := by
  intro fuel
  induction fuel with
  | zero => intro p prio seen out h; simp [parseFile] at h
  | succ fuel ih =>
    intro p prio seen out h
    unfold parseFile at h
    cases hg : fs.get p with
    | none => simp [hg] at h
    | some body =>
      simp only [hg] at h
      by_cases hs : p ∈ seen
      · simp [hs] at h
      · have hc : seen.contains p = false := by simp [hs]
        simp only [hc, if_false, Bool.false_eq_true] at h
        obtain ⟨hweak, hext⟩ := parseTop_ok_inv h
        unfold specStack
        simp only [hc, if_false, Bool.false_eq_true, hg]
        cases he : lookupKey body "extend_config" with
        | none => exact ⟨[body], rfl, by simpa using hweak⟩
        | some tv =>
          have hmem := mem_of_lookupKey he
          cases tv with
          | str t =>
            obtain ⟨o, ho⟩ := hext t hmem
            obtain ⟨rest, hrest, hall⟩ := ih t (prio + 1) (p :: seen) o ho
            refine ⟨body :: rest, by simp [hrest], ?_⟩
            intro b hb
            rcases List.mem_cons.1 hb with rfl | hb
            · exact hweak
            · exact hall b hb
          | _ =>
            exfalso
            simp only [weakValidBody, List.all_eq_true] at hweak
            have := hweak _ hmem
            simp [TV.isStr] at this

theorem specRead_of_parse {k : OptKind} {v : TV} {x : Val} (h : parseValue k v = some x) :
    specRead k v = some x := by
  cases k <;> cases v <;> simp_all [specRead, parseValue]

/-- After the fixes the parser's own check of a setting is the spec's. -/
theorem specValidSetting_of_weak {reg : Registry} {k : String} {v : TV} (hw : weakSetting reg k v = true) :
    specValidSetting reg k v = true := by
  unfold weakSetting at hw
  unfold specValidSetting
  cases hf : reg.find k with
  | none => simp [hf] at hw
  | some d =>
    simp only [hf, Bool.and_eq_true] at hw ⊢
    cases hp : parseValue d.kind v with
    | none => simp [hp] at hw
    | some x => simp [specRead_of_parse hp]

theorem weakSetting_of_specValid {reg : Registry} {k : String} {v : TV} (hw : specValidSetting reg k v = true) :
    weakSetting reg k v = true := by
  unfold specValidSetting at hw
  unfold weakSetting
  cases hf : reg.find k with
  | none => simp [hf] at hw
  | some d =>
    simp only [hf] at hw ⊢
    cases hr : specRead d.kind v with
    | none => simp [hr] at hw
    | some x =>
      obtain ⟨hp, hk⟩ := parse_of_specRead hr
      simp [hp, hk]

/-- One file lies inside the domain of the rejection theorem: no `extend_config` inside override
tables, distinct keys. -/
structure BodyClean (body : Table) : Prop where
  noExtInOv : ∀ kvs ∈ (sectionsOf body).tail, kvs.any (·.1 == "extend_config") = false
  nodup : tableNodup body = true

theorem specValid_of_weak {reg : Registry} {body : Table} (hw : weakValidBody reg body = true)
    (hc : BodyClean body) : specValidBody reg body = true := by
  have hkeys : keysNodup body := by
    have := hc.nodup
    simp only [tableNodup, Bool.and_eq_true, decide_eq_true_eq] at this
    exact this.1
  simp only [weakValidBody, List.all_eq_true] at hw
  simp only [specValidBody, List.all_eq_true]
  intro kv hkv
  obtain ⟨k, v⟩ := kv
  have hwk := hw (k, v) hkv
  simp only at hwk ⊢
  by_cases h1 : k = "module"
  · simp [h1] at hwk
  by_cases h2 : k = "extend_config"
  · simpa [h1, h2] using hwk
  by_cases h3 : k = "overrides"
  · subst h3
    simp only [beq_iff_eq, h1, h2, if_false, if_true] at hwk ⊢
    cases v with
    | arr ovs =>
      simp only [List.all_eq_true] at hwk ⊢
      intro ov hov
      have hwo := hwk ov hov
      have hl := lookupKey_of_mem hkeys hkv
      cases ov with
      | tbl kvs =>
        have hin : kvs ∈ (sectionsOf body).tail := by
          simp only [sectionsOf, hl, List.tail_cons, List.mem_filterMap]
          exact ⟨TV.tbl kvs, hov, rfl⟩
        have hnd : keysNodup kvs := by
          have := hc.nodup
          simp only [tableNodup, Bool.and_eq_true, decide_eq_true_eq, List.all_eq_true] at this
          have := this.2 _ hkv
          simp only [List.all_eq_true] at this
          simpa using this _ hov
        simp only [weakValidOverride, Bool.and_eq_true, List.all_eq_true] at hwo
        simp only [specValidOverride, Bool.and_eq_true, List.all_eq_true]
        refine ⟨hwo.1, ?_⟩
        intro kv' hkv'
        obtain ⟨k', v'⟩ := kv'
        have hw' := hwo.2 (k', v') hkv'
        simp only at hw' ⊢
        by_cases g1 : k' = "module"
        · subst g1
          have := lookupKey_of_mem hnd hkv'
          have hm := hwo.1
          rw [this] at hm
          cases v' <;> simp [TV.isStr] at hm ⊢
        by_cases g4 : k' = "disable_all"
        · subst g4
          simpa [g1] using hw'
        by_cases g3 : k' = "overrides"
        · simp [g1, g4, g3] at hw'
        by_cases g2 : k' = "extend_config"
        · exfalso
          have := hc.noExtInOv kvs hin
          rw [List.any_eq_false] at this
          have := this (k', v') hkv'
          simp [g2] at this
        simp [g1, g4, g2, g3] at hw'
        have := specValidSetting_of_weak hw'
        simp [g1, g4, g2, g3, this]
      | _ => simp [weakValidOverride] at hwo
    | _ => simp at hwk
  by_cases h4 : k = "disable_all"
  · subst h4
    simpa [h1, h2, h3] using hwk
  simp only [beq_iff_eq, h1, h2, h3, h4, if_false] at hwk ⊢
  exact specValidSetting_of_weak hwk

theorem any_false_of_not {α : Type} {l : List α} {p : α → Bool} (h : ¬ l.any p = true) :
    ∀ x ∈ l, p x = false := by
  intro x hx
  cases hp : p x with
  | false => rfl
  | true => exact absurd (List.any_eq_true.2 ⟨x, hx, hp⟩) h

theorem bodyClean_of_stack {stack : List Table}
    (h3 : extendInOverride stack = false) (h4 : stack.all tableNodup = true) :
    ∀ b ∈ stack, BodyClean b := by
  intro b hb
  simp only [extendInOverride, List.any_eq_false] at h3
  exact ⟨fun kvs hk => any_false_of_not (h3 b hb) kvs hk, (List.all_eq_true.1 h4) b hb⟩

/-- A section with one of the named defects fails the parser's checks. -/
theorem weak_false_of_sectionDefect_top {reg : Registry} {body : Table}
    (h : sectionDefect reg false body = true) : weakValidBody reg body = false := by
  simp only [sectionDefect, List.any_eq_true] at h
  obtain ⟨kv, hkv, hd⟩ := h
  cases hw : weakValidBody reg body with
  | false => rfl
  | true =>
    exfalso
    simp only [weakValidBody, List.all_eq_true] at hw
    have := hw kv hkv
    obtain ⟨k, v⟩ := kv
    simp only [Bool.or_eq_true, Bool.and_eq_true, Bool.not_eq_true', beq_iff_eq, Bool.false_eq_true,
      false_and, or_false] at hd
    by_cases h1 : k = "module"
    · simp [h1] at this
    rcases hd with ⟨hs, hv⟩ | ⟨hk, hv⟩
    · simp only [isStructural, Bool.or_eq_false_iff, beq_eq_false_iff_ne, ne_eq] at hs
      obtain ⟨⟨⟨_, g2⟩, g3⟩, g4⟩ := hs
      simp only [beq_iff_eq, h1, g2, g3, g4, if_false] at this
      rw [specValidSetting_of_weak this] at hv; cases hv
    · subst hk
      simp [hv] at this

theorem weak_false_of_namedDefect {reg : Registry} {body : Table} (h : namedDefect reg body = true) :
    weakValidBody reg body = false := by
  simp only [namedDefect, Bool.or_eq_true] at h
  rcases h with h | h
  · exact weak_false_of_sectionDefect_top h
  · simp only [List.any_eq_true, Bool.and_eq_true, beq_iff_eq] at h
    obtain ⟨kv, hkv, hk, hd⟩ := h
    obtain ⟨k, v⟩ := kv
    simp only at hk hd
    subst hk
    cases hw : weakValidBody reg body with
    | false => rfl
    | true =>
      exfalso
      simp only [weakValidBody, List.all_eq_true] at hw
      have := hw _ hkv
      simp only [show (("overrides" : String) == "module") = false from by decide,
        show (("overrides" : String) == "extend_config") = false from by decide,
        beq_self_eq_true, if_true, if_false, Bool.false_eq_true] at this
      cases v with
      | arr ovs =>
        simp only [List.all_eq_true] at this
        simp only [List.any_eq_true] at hd
        obtain ⟨ov, hov, hod⟩ := hd
        have hwo := this ov hov
        cases ov with
        | tbl kvs =>
          simp only [weakValidOverride, Bool.and_eq_true, List.all_eq_true] at hwo
          simp only [sectionDefect, List.any_eq_true] at hod
          obtain ⟨kv', hkv', hd'⟩ := hod
          obtain ⟨k', v'⟩ := kv'
          have hw' := hwo.2 _ hkv'
          simp only [Bool.or_eq_true, Bool.and_eq_true, Bool.not_eq_true', beq_iff_eq, true_and] at hd'
          rcases hd' with (⟨hs, hv⟩ | ⟨hk', hv⟩) | hk'
          · simp only [isStructural, Bool.or_eq_false_iff, beq_eq_false_iff_ne, ne_eq] at hs
            obtain ⟨⟨⟨g1, g2⟩, g3⟩, g4⟩ := hs
            simp [g1, g2, g3, g4] at hw'
            rw [specValidSetting_of_weak hw'] at hv; cases hv
          · subst hk'; simp [hv] at hw'
          · subst hk'; simp at hw'
        | _ => simp [weakValidOverride] at hwo
      | _ => simp at this

/-- Decidable equality of results, for the `decide`d witnesses in Props/C18.lean. -/
instance {ε α : Type} [DecidableEq ε] [DecidableEq α] : DecidableEq (Except ε α) := fun a b =>
  match a, b with
  | .ok x, .ok y => if h : x = y then isTrue (by rw [h]) else isFalse (by intro e; cases e; exact h rfl)
  | .error x, .error y => if h : x = y then isTrue (by rw [h]) else isFalse (by intro e; cases e; exact h rfl)
  | .ok _, .error _ => isFalse (by intro e; cases e)
  | .error _, .ok _ => isFalse (by intro e; cases e)

end Pya.C18
