import PyaModel.Spec.OpsSpec
/-!
# Proofs/C19 — helper lemmas for Props/C19 (literal subscripts, binary-operator protocol)
-/
namespace Pya.C19

/-! ## member sequences and expansions -/

theorem memberSequence_none_iff {α : Type} (ms : List (Bool × α)) :
    memberSequence ms = none ↔ hasMany ms = true := by
  induction ms with
  | nil => simp [memberSequence, hasMany]
  | cons h t ih =>
    obtain ⟨many, m⟩ := h
    cases many <;> simp_all [memberSequence, hasMany]

theorem memberSequence_some {α : Type} (ms : List (Bool × α)) (xs : List α)
    (h : memberSequence ms = some xs) : xs = ms.map (·.2) ∧ hasMany ms = false := by
  induction ms generalizing xs with
  | nil => simp_all [memberSequence, hasMany]
  | cons hd t ih =>
    obtain ⟨many, m⟩ := hd
    cases many
    · simp [memberSequence] at h
      obtain ⟨ys, hys, rfl⟩ := h
      have := ih ys hys
      simp_all [hasMany]
    · simp [memberSequence] at h

theorem memberSequence_of_noMany {α : Type} (ms : List (Bool × α)) (h : hasMany ms = false) :
    memberSequence ms = some (ms.map (·.2)) := by
  cases hm : memberSequence ms with
  | none => rw [memberSequence_none_iff] at hm; simp [hm] at h
  | some xs => rw [(memberSequence_some ms xs hm).1]

/-- A member list without variadic members stands for exactly one sequence. -/
theorem expand_noMany {α : Type} (ms : List (Bool × α)) (h : hasMany ms = false) (ns : List Nat) :
    expand ms ns = ms.map (·.2) := by
  induction ms with
  | nil => simp [expand]
  | cons hd t ih =>
    obtain ⟨many, m⟩ := hd
    cases many
    · simp_all [expand, hasMany]
    · simp [hasMany] at h

/-- A fixed prefix is unaffected by the expansion. -/
theorem expand_fixed_prefix {α : Type} (pre rest : List (Bool × α)) (h : hasMany pre = false)
    (ns : List Nat) : expand (pre ++ rest) ns = pre.map (·.2) ++ expand rest ns := by
  induction pre with
  | nil => simp
  | cons hd t ih =>
    obtain ⟨many, m⟩ := hd
    cases many
    · simp_all [expand, hasMany]
    · simp [hasMany] at h

/-- A fixed suffix is unaffected by the expansion (it consumes no counts). -/
theorem expand_fixed_suffix {α : Type} (pre suf : List (Bool × α)) (h : hasMany suf = false)
    (ns : List Nat) : ∃ ys, expand (pre ++ suf) ns = ys ++ suf.map (·.2) := by
  induction pre generalizing ns with
  | nil => exact ⟨[], by simp [expand_noMany suf h]⟩
  | cons hd t ih =>
    obtain ⟨many, m⟩ := hd
    cases many
    · obtain ⟨ys, hys⟩ := ih ns
      exact ⟨m :: ys, by simp [expand, hys]⟩
    · cases ns with
      | nil =>
        obtain ⟨ys, hys⟩ := ih []
        exact ⟨ys, by simp [expand, hys]⟩
      | cons n ns =>
        obtain ⟨ys, hys⟩ := ih ns
        exact ⟨List.replicate n m ++ ys, by simp [expand, hys]⟩

/-- Every element of an expansion is one of the members. -/
theorem expand_mem {α : Type} (ms : List (Bool × α)) (ns : List Nat) (x : α)
    (h : x ∈ expand ms ns) : ∃ e ∈ ms, e.2 = x := by
  induction ms generalizing ns with
  | nil => simp [expand] at h
  | cons hd t ih =>
    obtain ⟨many, m⟩ := hd
    cases many
    · simp only [expand, List.mem_cons] at h
      rcases h with rfl | h
      · exact ⟨(false, x), by simp, rfl⟩
      · obtain ⟨e, he, hx⟩ := ih ns h
        exact ⟨e, by simp [he], hx⟩
    · cases ns with
      | nil =>
        simp only [expand] at h
        obtain ⟨e, he, hx⟩ := ih [] h
        exact ⟨e, by simp [he], hx⟩
      | cons n ns =>
        simp only [expand, List.mem_append, List.mem_replicate] at h
        rcases h with ⟨_, rfl⟩ | h
        · exact ⟨(true, x), by simp, rfl⟩
        · obtain ⟨e, he, hx⟩ := ih ns h
          exact ⟨e, by simp [he], hx⟩

/-! ## CPython indexing -/

theorem elemAt_mem {α : Type} (xs : List α) (k : Int) (x : α) (h : elemAt xs k = some x) : x ∈ xs := by
  unfold elemAt at h
  split at h
  · exact List.mem_of_getElem? h
  · exact List.mem_reverse.mp (List.mem_of_getElem? h)

/-- `members[key]` as CPython computes it (add `len` once) is indexing from the back through
`reverse`. -/
theorem pyIndex_eq_elemAt {α : Type} (xs : List α) (k : Int) : pyIndex xs k = elemAt xs k := by
  unfold pyIndex elemAt
  by_cases hk : k < 0
  · have hk' : ¬ k ≥ 0 := by omega
    simp only [hk, hk', if_true, if_false]
    by_cases hle : -k ≤ (xs.length : Int)
    · simp only [hle, if_true]
      have h1 : (-k - 1).toNat < xs.length := by omega
      rw [List.getElem?_reverse h1]
      congr 1
      omega
    · simp only [hle, if_false]
      symm
      apply List.getElem?_eq_none
      simp
      omega
  · have hk' : k ≥ 0 := by omega
    simp [hk, hk']

theorem elemAt_isSome_iff {α : Type} (xs : List α) (k : Int) :
    (elemAt xs k).isSome = true ↔ (-(xs.length : Int) ≤ k ∧ k < (xs.length : Int)) := by
  unfold elemAt
  by_cases hk : k ≥ 0
  · simp only [hk, if_true]
    rw [Option.isSome_iff_exists]
    constructor
    · rintro ⟨a, ha⟩
      have := (List.getElem?_eq_some_iff.mp ha).1
      omega
    · intro h
      have h1 : k.toNat < xs.length := by omega
      exact ⟨xs[k.toNat], List.getElem?_eq_getElem h1⟩
  · simp only [hk, if_false]
    rw [Option.isSome_iff_exists]
    constructor
    · rintro ⟨a, ha⟩
      have := (List.getElem?_eq_some_iff.mp ha).1
      simp only [List.length_reverse] at this
      omega
    · intro h
      have h1 : (-k - 1).toNat < xs.reverse.length := by simp only [List.length_reverse]; omega
      exact ⟨xs.reverse[(-k - 1).toNat], List.getElem?_eq_getElem h1⟩

/-! ## the fully known branch, in closed form -/

private theorem literal_branch {α : Type} (typ : SeqTyp) (xs : List α) (k : Int) :
    (if -(xs.length : Int) ≤ k ∧ k < (xs.length : Int) then
      (match pyIndex xs k with
       | some m => GetRes.member m
       | none => GetRes.error)
     else if typ = .tuple then GetRes.error else GetRes.fallback) =
    (match elemAt xs k with
     | some x => GetRes.member x
     | none => if typ = .tuple then GetRes.error else GetRes.fallback) := by
  have hr := elemAt_isSome_iff xs k
  rw [pyIndex_eq_elemAt]
  cases he : elemAt xs k with
  | none =>
    have : ¬ (-(xs.length : Int) ≤ k ∧ k < (xs.length : Int)) := by rw [← hr, he]; simp
    rw [if_neg this]
  | some x =>
    have : (-(xs.length : Int) ≤ k ∧ k < (xs.length : Int)) := by rw [← hr, he]; simp
    rw [if_pos this]

/-- Without variadic members `getitem` is CPython's indexing of the member list: the element, or
(out of range) the error for tuples / the common type for lists. -/
theorem getitem_noMany {α : Type} (typ : SeqTyp) (ms : List (Bool × α)) (h : hasMany ms = false) (k : Int) :
    getitem typ ms k =
      (match elemAt (ms.map (·.2)) k with
       | some x => GetRes.member x
       | none => if typ = .tuple then GetRes.error else GetRes.fallback) := by
  unfold getitem
  rw [memberSequence_of_noMany ms h]
  exact literal_branch typ _ k

/-! ## the scanning loops -/

/-- If the loop returns a member, the list is `pre ++ (false, m) :: post` with `pre` free of
variadic members and of length `target - i`. -/
theorem scan_some {α : Type} (tgt : Nat) (i : Nat) (l : List (Bool × α)) (m : α)
    (h : scan tgt i l = some m) (hi : i ≤ tgt) :
    ∃ pre post, l = pre ++ (false, m) :: post ∧ pre.length = tgt - i ∧ hasMany pre = false := by
  induction l generalizing i with
  | nil => simp [scan] at h
  | cons hd t ih =>
    obtain ⟨many, x⟩ := hd
    cases many
    · simp only [scan, Bool.false_eq_true, if_false] at h
      by_cases he : (i == tgt) = true
      · simp only [he, if_true, Option.some.injEq] at h
        subst h
        have : i = tgt := by simpa using he
        exact ⟨[], t, by simp, by simp [this], by simp [hasMany]⟩
      · simp only [he] at h
        have hne : i ≠ tgt := by simpa using he
        obtain ⟨pre, post, hl, hlen, hm⟩ := ih (i + 1) h (by omega)
        refine ⟨(false, x) :: pre, post, by simp [hl], by simp [hlen]; omega, by simpa [hasMany] using hm⟩
    · simp [scan] at h

/-! ## soundness of the two scanning branches -/

theorem covers_fallback {α : Type} [BEq α] [LawfulBEq α] (ms : List (Bool × α)) (ns : List Nat)
    (k : Int) (x : α) (h : elemAt (expand ms ns) k = some x) : (GetRes.fallback).covers ms x = true := by
  obtain ⟨e, he, hx⟩ := expand_mem ms ns x (elemAt_mem _ _ _ h)
  simp only [GetRes.covers, List.any_eq_true]
  exact ⟨e, he, by simp [hx]⟩

theorem front_sound {α : Type} [BEq α] [LawfulBEq α] (ms : List (Bool × α)) (k : Int) (hk : k ≥ 0)
    (ns : List Nat) (x : α) (h : elemAt (expand ms ns) k = some x) :
    (match scan k.toNat 0 ms with | some m => GetRes.member m | none => GetRes.fallback).covers ms x = true := by
  cases hs : scan k.toNat 0 ms with
  | none => exact covers_fallback ms ns k x h
  | some m =>
    obtain ⟨pre, post, hl, hlen, hno⟩ := scan_some k.toNat 0 ms m hs (by omega)
    subst hl
    rw [expand_fixed_prefix pre _ hno] at h
    simp only [elemAt, hk, if_true, expand] at h
    have hlen' : (pre.map (·.2)).length = k.toNat := by simp [hlen]
    rw [List.getElem?_append_right (by omega)] at h
    simp [hlen'] at h
    simp [GetRes.covers, h]

theorem back_sound {α : Type} [BEq α] [LawfulBEq α] (ms : List (Bool × α)) (k : Int) (hk : ¬ k ≥ 0)
    (ns : List Nat) (x : α) (h : elemAt (expand ms ns) k = some x) :
    (match scan (-k - 1).toNat 0 ms.reverse with | some m => GetRes.member m | none => GetRes.fallback).covers ms x = true := by
  cases hs : scan (-k - 1).toNat 0 ms.reverse with
  | none => exact covers_fallback ms ns k x h
  | some m =>
    obtain ⟨pre, post, hl, hlen, hno⟩ := scan_some _ 0 ms.reverse m hs (by omega)
    have hms : ms = post.reverse ++ ((false, m) :: pre.reverse) := by
      have := congrArg List.reverse hl
      simpa using this
    have hno' : hasMany ((false, m) :: pre.reverse) = false := by
      simp only [hasMany, List.any_cons, List.any_reverse, Bool.false_or]
      exact hno
    obtain ⟨ys, hys⟩ := expand_fixed_suffix post.reverse _ hno' ns
    rw [hms, hys] at h
    have hrev : (ys ++ List.map (·.2) ((false, m) :: pre.reverse)).reverse
        = pre.map (·.2) ++ m :: ys.reverse := by simp
    simp only [elemAt, hk, if_false] at h
    rw [hrev] at h
    have hlen' : (pre.map (·.2)).length = (-k - 1).toNat := by simp [hlen]
    rw [List.getElem?_append_right (by omega)] at h
    simp [hlen'] at h
    simp [GetRes.covers, h]

/-! ## the binary-operator protocol: finite case analysis -/

theorem cpy_te_iff (same rprio : Bool) (l r : RSide)
    (h3 : Dbin_sameTypeReflected same l r = false) (h4 : Dbin_firstRaisesTE same rprio l r = false) :
    cpyBinop same rprio l r = .typeError ↔ (l.yields = false ∧ r.yields = false) := by
  obtain ⟨lh, lrt⟩ := l
  obtain ⟨rh, rrt⟩ := r
  cases same <;> cases rprio <;> cases lh <;> cases rh <;> cases lrt <;> cases rrt <;>
    simp_all [cpyBinop, attempt, RSide.yields, Dbin_sameTypeReflected, Dbin_firstRaisesTE]



theorem errs_iff_not_yields (s : Side) (h : Dbin_stub s = false) :
    s.errs = !s.rside.yields := by
  obtain ⟨has, sig, any, rt⟩ := s
  cases has <;> cases sig <;> cases rt <;>
    simp_all [Dbin_stub, Side.errs, Side.rside, RSide.yields]

theorem lit_value (s : Side) (h : Dbin_stub s = false) (he : s.errs = false) (hl : s.literal = true) :
    s.has = true ∧ s.rt = .value := by
  obtain ⟨has, sig, any, rt⟩ := s
  cases has <;> cases sig <;> cases rt <;>
    simp_all [Dbin_stub, Side.errs, Side.literal, Side.rside, RSide.yields]

theorem binop_leftLit (l r : Side) (h : binop l r = .leftLit) : l.errs = false ∧ l.literal = true := by
  unfold binop at h
  cases hl : l.errs <;> cases hr : r.errs <;> cases hll : l.literal <;> simp_all <;>
    (repeat' split at h) <;> simp_all

theorem binop_rightLit (l r : Side) (h : binop l r = .rightLit) :
    l.errs = true ∧ r.errs = false ∧ r.literal = true := by
  unfold binop at h
  cases hl : l.errs <;> cases hr : r.errs <;> cases hrl : r.literal <;> simp_all <;>
    (repeat' split at h) <;> simp_all

theorem cpy_fromLeft (same rprio : Bool) (l r : RSide) (hl : l.has = true) (hv : l.rt = .value)
    (h4 : Dbin_firstRaisesTE same rprio l r = false) (h5 : Dbin_subclassReflected same rprio l r = false) :
    cpyBinop same rprio l r = .fromLeft := by
  obtain ⟨lh, lrt⟩ := l
  obtain ⟨rh, rrt⟩ := r
  simp only at hl hv
  subst hl hv
  cases same <;> cases rprio <;> cases rh <;> cases rrt <;>
    simp_all [cpyBinop, attempt, RSide.yields, Dbin_firstRaisesTE, Dbin_subclassReflected]

theorem cpy_fromRight (same rprio : Bool) (l r : RSide) (hr : r.has = true) (hv : r.rt = .value)
    (hl : l.yields = false) (h3 : Dbin_sameTypeReflected same l r = false)
    (h4 : Dbin_firstRaisesTE same rprio l r = false) :
    cpyBinop same rprio l r = .fromRight := by
  obtain ⟨lh, lrt⟩ := l
  obtain ⟨rh, rrt⟩ := r
  simp only at hr hv
  subst hr hv
  cases same <;> cases rprio <;> cases lh <;> cases lrt <;>
    simp_all [cpyBinop, attempt, RSide.yields, Dbin_sameTypeReflected, Dbin_firstRaisesTE]

end Pya.C19
