import PyaModel.Spec.TypeEvalSpec
import PyaModel.Proofs.C04
import PyaModel.Generated.ClassTable
/-!
# Proofs/C20 — helper lemmas for the type-evaluation theorems

Part 1: arguments that are not unions — every condition takes exactly one side, the variable maps it
returns leave the environment unchanged, every block returns a singleton: the model computes what the
reference interpreter computes.
-/
namespace Pya.C20

/-! ## environments -/

/-- every entry of `m` already holds in `e` -/
def Stable (e : Env) (m : VarMap) : Prop := ∀ k t, m.lookup k = some t → e k = some t

theorem Stable.nil (e : Env) : Stable e [] := by intro k t h; simp at h

theorem Stable.single {e : Env} {v : String} {a : Ty} (h : e v = some a) : Stable e [(v, a)] := by
  intro k t hk
  simp only [List.lookup_cons, List.lookup_nil] at hk
  split at hk
  · rename_i hkv
    have : k = v := by simpa using hkv
    subst this; cases hk; exact h
  · cases hk

theorem Stable.append {e : Env} {l n : VarMap} (hl : Stable e l) (hn : Stable e n) :
    Stable e (l ++ n) := by
  intro k t h
  rw [List.lookup_append] at h
  cases hlk : l.lookup k with
  | some t' => rw [hlk] at h; simp at h; subst h; exact hl k t' hlk
  | none => rw [hlk] at h; simp at h; exact hn k t h

theorem over_stable {e : Env} {m : VarMap} (h : Stable e m) : e.over m = e := by
  funext s
  unfold Env.over
  cases hs : m.lookup s with
  | none => rfl
  | some t => simp [h s t hs]

/-! ## values that are not unions -/

theorem flatten1_nonunion {a : Ty} (h : isUnionVal a = false) : flatten1 a = [a] := by
  cases a with
  | union ts => simp [isUnionVal] at h
  | annotated t => cases t <;> simp_all [isUnionVal, flatten1]
  | _ => simp [flatten1]

theorem unite_single {a : Ty} (h : isUnionVal a = false) : unite [a] = a := by
  simp [unite, flatten1_nonunion h, dedup, dictMem]

theorem narrow_keep (tbl : ClassTable) {t a : Ty} (h : isUnionVal a = false)
    (hk : narrowTag tbl t a = .keep) : narrow tbl t a = a := by
  simp [narrow, flatten1_nonunion h, narrowPos, hk, unite_single h]

theorem decompose_nonunion (tbl : ClassTable) (x : Bool) (t : Ty) {a : Ty}
    (h : isUnionVal a = false) : decompose tbl x t a = none := by
  cases a with
  | union ts => simp [isUnionVal] at h
  | annotated u => cases u <;> simp_all [isUnionVal, decompose, unannotate]
  | _ => simp [decompose, unannotate]

/-- what a condition returns when it is `b` for the (non-union) arguments: exactly the `b` side, with a
variable map that changes nothing -/
def GoodRet (e : Env) (r : CondRet) (b : Bool) : Prop :=
  if b then r.right = none ∧ ∃ l, r.left = some l ∧ Stable e l
  else r.left = none ∧ ∃ rr, r.right = some rr ∧ Stable e rr

theorem GoodRet.reverse {e : Env} {r : CondRet} {b : Bool} (h : GoodRet e r b) :
    GoodRet e r.reverse (!b) := by
  cases b <;> simpa [GoodRet, CondRet.reverse] using h

theorem ofTypeRet_eq (tbl : ClassTable) {e : Env} {v : String} {a : Ty} (t : Ty) (x : Bool)
    (hv : e v = some a) : ofTypeRet tbl e v t x = ofTypeVal tbl v t x a := by
  simp only [ofTypeRet, hv]

theorem ofTypeRet_nonunion (tbl : ClassTable) {e : Env} {v : String} {a : Ty} (t : Ty) (x : Bool)
    (hv : e v = some a) (hnu : isUnionVal a = false)
    (hk : ca tbl x t a = true → narrowTag tbl t a = .keep) :
    GoodRet e (ofTypeRet tbl e v t x) (ca tbl x t a) := by
  rw [ofTypeRet_eq tbl t x hv]
  unfold ofTypeVal
  by_cases hc : ca tbl x t a = true
  · rw [hc, narrow_keep tbl hnu (hk hc)]
    exact ⟨rfl, _, rfl, Stable.single hv⟩
  · have hc' : ca tbl x t a = false := by simpa using hc
    rw [hc', decompose_nonunion tbl x t hnu]
    exact ⟨rfl, _, rfl, Stable.nil e⟩

/-! ## well-formed bodies (every name a condition mentions is a parameter of the call) -/

mutual
def Cond.wf (ps : Positions) (e : Env) : Cond → Bool
  | .ofType v _ _ => (e v).isSome
  | .cmp v _ _ => (e v).isSome
  | .kind _ v => (ps.lookup v).isSome
  | .sys _ => true
  | .not c => c.wf ps e
  | .and cs => Cond.wfL ps e cs
  | .or cs => Cond.wfL ps e cs
def Cond.wfL (ps : Positions) (e : Env) : List Cond → Bool
  | [] => true
  | c :: cs => c.wf ps e && Cond.wfL ps e cs
end

mutual
def Stmt.wf (ps : Positions) (e : Env) : Stmt → Bool
  | .ite c b o => c.wf ps e && Stmt.wfL ps e b && Stmt.wfL ps e o
  | _ => true
def Stmt.wfL (ps : Positions) (e : Env) : List Stmt → Bool
  | [] => true
  | s :: ss => s.wf ps e && Stmt.wfL ps e ss
end

/-- the hypotheses about the environment shared by the lemmas on non-union arguments -/
structure NU (tbl : ClassTable) (e : Env) (ts : List (String × Ty × Bool)) : Prop where
  nonunion : ∀ v a, e v = some a → isUnionVal a = false
  keep : ∀ vtx ∈ ts, ∀ a, e vtx.1 = some a → ca tbl vtx.2.2 vtx.2.1 a = true →
    narrowTag tbl vtx.2.1 a = .keep

theorem NU.mono {tbl e ts ts'} (h : NU tbl e ts) (hs : ∀ x ∈ ts', x ∈ ts) : NU tbl e ts' :=
  ⟨h.nonunion, fun vtx hv => h.keep vtx (hs vtx hv)⟩

mutual
theorem evalCond_nonunion (tbl : ClassTable) (ps : Positions) (e : Env) :
    ∀ (c : Cond), NU tbl e c.tests → c.wf ps e = true →
      GoodRet e (evalCond tbl ps e c) (refCond tbl ps e c)
  | .ofType v t x, h, hw => by
    simp only [Cond.wf, Option.isSome_iff_exists] at hw
    obtain ⟨a, ha⟩ := hw
    simp only [evalCond, refCond, ha]
    exact ofTypeRet_nonunion tbl t x ha (h.nonunion v a ha)
      (h.keep (v, t, x) (by simp [Cond.tests]) a ha)
  | .cmp v k neg, h, hw => by
    simp only [Cond.wf, Option.isSome_iff_exists] at hw
    obtain ⟨a, ha⟩ := hw
    have hg := ofTypeRet_nonunion tbl (.known k) true ha (h.nonunion v a ha)
      (h.keep (v, .known k, true) (by simp [Cond.tests]) a ha)
    simp only [evalCond, refCond, ha]
    cases neg
    · simpa using hg
    · simpa using hg.reverse
  | .kind f v, _, hw => by
    simp only [Cond.wf, Option.isSome_iff_exists] at hw
    obtain ⟨p, hp⟩ := hw
    simp only [evalCond, refCond, hp]
    have hk : kindMatch f p = specKind f (akindOf p) := by
      cases f <;> cases p <;> rfl
    rw [← hk]
    cases hm : kindMatch f p <;> simp [GoodRet, Stable.nil]
  | .sys b, _, _ => by
    cases b <;> simp [evalCond, refCond, GoodRet, Stable.nil]
  | .not c, h, hw => by
    simp only [evalCond, refCond]
    exact (evalCond_nonunion tbl ps e c (h.mono (by simp [Cond.tests])) (by simpa [Cond.wf] using hw)).reverse
  | .and cs, h, hw => by
    simp only [evalCond, refCond]
    exact evalAnd_nonunion tbl ps e cs [] (h.mono (by simp [Cond.tests])) (by simpa [Cond.wf] using hw)
      (Stable.nil e)
  | .or cs, h, hw => by
    simp only [evalCond, refCond]
    exact evalOr_nonunion tbl ps e cs [] (h.mono (by simp [Cond.tests])) (by simpa [Cond.wf] using hw)
      (Stable.nil e)
theorem evalAnd_nonunion (tbl : ClassTable) (ps : Positions) (e : Env) :
    ∀ (cs : List Cond) (narrowed : VarMap), NU tbl e (Cond.testsL cs) → Cond.wfL ps e cs = true →
      Stable e narrowed →
      GoodRet e (evalAnd tbl ps e narrowed [] cs) (refAll tbl ps e cs)
  | [], narrowed, _, _, hn => by
    simp only [evalAnd, refAll, uniteVarmaps]
    exact ⟨rfl, _, rfl, hn⟩
  | c :: cs, narrowed, h, hw, hn => by
    simp only [Cond.wfL, Bool.and_eq_true] at hw
    have hc := evalCond_nonunion tbl ps e c (h.mono fun x hx => by simp only [Cond.testsL]; exact List.mem_append_left _ hx) hw.1
    simp only [evalAnd, refAll]
    cases hb : refCond tbl ps e c
    · rw [hb] at hc
      simp only [GoodRet, Bool.false_eq_true, if_false] at hc
      obtain ⟨hl, rr, hr, hs⟩ := hc
      simp only [hl, hr, Bool.false_and]
      exact ⟨rfl, rr, rfl, hs⟩
    · rw [hb] at hc
      simp only [GoodRet, if_true] at hc
      obtain ⟨hr, l, hl, hs⟩ := hc
      simp only [hl, hr, Bool.true_and, over_stable hs]
      exact evalAnd_nonunion tbl ps e cs (l ++ narrowed) (h.mono fun x hx => by simp only [Cond.testsL]; exact List.mem_append_right _ hx) hw.2
        (hs.append hn)
theorem evalOr_nonunion (tbl : ClassTable) (ps : Positions) (e : Env) :
    ∀ (cs : List Cond) (narrowed : VarMap), NU tbl e (Cond.testsL cs) → Cond.wfL ps e cs = true →
      Stable e narrowed →
      GoodRet e (evalOr tbl ps e narrowed [] cs) (refAny tbl ps e cs)
  | [], narrowed, _, _, hn => by
    simp only [evalOr, refAny, uniteVarmaps]
    exact ⟨rfl, _, rfl, hn⟩
  | c :: cs, narrowed, h, hw, hn => by
    simp only [Cond.wfL, Bool.and_eq_true] at hw
    have hc := evalCond_nonunion tbl ps e c (h.mono fun x hx => by simp only [Cond.testsL]; exact List.mem_append_left _ hx) hw.1
    simp only [evalOr, refAny]
    cases hb : refCond tbl ps e c
    · rw [hb] at hc
      simp only [GoodRet, Bool.false_eq_true, if_false] at hc
      obtain ⟨hl, rr, hr, hs⟩ := hc
      simp only [hl, hr, Bool.false_or, over_stable hs]
      exact evalOr_nonunion tbl ps e cs (rr ++ narrowed) (h.mono fun x hx => by simp only [Cond.testsL]; exact List.mem_append_right _ hx) hw.2
        (hs.append hn)
    · rw [hb] at hc
      simp only [GoodRet, if_true] at hc
      obtain ⟨hr, l, hl, hs⟩ := hc
      simp only [hl, hr, Bool.true_or]
      exact ⟨rfl, l, rfl, hs⟩
end

mutual
theorem evalStmt_nonunion (tbl : ClassTable) (ps : Positions) (e : Env) :
    ∀ (s : Stmt), NU tbl e s.tests → s.wf ps e = true →
      evalStmt tbl ps e s = ([(refStmt tbl ps e s).1], (refStmt tbl ps e s).2)
  | .pass, _, _ => by simp [evalStmt, refStmt]
  | .ret t, _, _ => by simp [evalStmt, refStmt]
  | .err m, _, _ => by simp [evalStmt, refStmt]
  | .ite c b o, h, hw => by
    simp only [Stmt.wf, Bool.and_eq_true] at hw
    have hc := evalCond_nonunion tbl ps e c (h.mono fun x hx => by
      simp only [Stmt.tests]; exact List.mem_append_left _ (List.mem_append_left _ hx)) hw.1.1
    have hb := evalBlock_nonunion tbl ps e b [] (h.mono fun x hx => by
      simp only [Stmt.tests]; exact List.mem_append_left _ (List.mem_append_right _ hx)) hw.1.2
    have ho := evalBlock_nonunion tbl ps e o [] (h.mono fun x hx => by
      simp only [Stmt.tests]; exact List.mem_append_right _ hx) hw.2
    simp only [evalStmt, refStmt]
    cases hr : refCond tbl ps e c
    · rw [hr] at hc
      simp only [GoodRet, Bool.false_eq_true, if_false] at hc
      obtain ⟨hl, rr, hrr, hs⟩ := hc
      simp only [hl, hrr, over_stable hs, ho, Bool.false_eq_true, if_false, List.nil_append]
    · rw [hr] at hc
      simp only [GoodRet, if_true] at hc
      obtain ⟨hrr, l, hl, hs⟩ := hc
      simp only [hl, hrr, over_stable hs, hb, if_true, List.nil_append]
theorem evalBlock_nonunion (tbl : ClassTable) (ps : Positions) (e : Env) :
    ∀ (ss : List Stmt) (possible : List (Option Ty)), NU tbl e (Stmt.testsL ss) →
      Stmt.wfL ps e ss = true →
      evalBlock tbl ps e possible ss =
        (possible ++ [(refBlock tbl ps e ss).1], (refBlock tbl ps e ss).2)
  | [], possible, _, _ => by simp [evalBlock, refBlock]
  | s :: ss, possible, h, hw => by
    simp only [Stmt.wfL, Bool.and_eq_true] at hw
    have hs := evalStmt_nonunion tbl ps e s (h.mono fun x hx => by simp only [Stmt.testsL]; exact List.mem_append_left _ hx) hw.1
    have hss := fun p => evalBlock_nonunion tbl ps e ss p (h.mono fun x hx => by simp only [Stmt.testsL]; exact List.mem_append_right _ hx) hw.2
    simp only [evalBlock, refBlock, hs]
    cases hr : (refStmt tbl ps e s).1 with
    | some t => simp
    | none => simp [hss]
end

/-! ## from the decidable hypotheses of the property theorem to `NU` -/

theorem lookup_mem {k : String} {t : Ty} : ∀ {m : VarMap}, m.lookup k = some t → ∃ k', (k', t) ∈ m
  | [], h => by simp at h
  | (k', t') :: m, h => by
    simp only [List.lookup_cons] at h
    split at h
    · cases h; exact ⟨k', by simp⟩
    · obtain ⟨k'', hk⟩ := lookup_mem h
      exact ⟨k'', by simp [hk]⟩

/-- no variable of the call is a union -/
def nonUnionVars (vars : VarMap) : Bool := vars.all fun kv => !isUnionVal kv.2

theorem nu_of_hyps (tbl : ClassTable) (vars : VarMap) (body : List Stmt)
    (hnu : nonUnionVars vars = true) (hD : D20_retyped tbl vars body = false) :
    NU tbl (Env.ofList vars) (Stmt.testsL body) := by
  have hnon : ∀ v a, Env.ofList vars v = some a → isUnionVal a = false := by
    intro v a h
    obtain ⟨k', hk⟩ := lookup_mem (m := vars) h
    simp only [nonUnionVars, List.all_eq_true] at hnu
    simpa using hnu _ hk
  refine ⟨hnon, ?_⟩
  intro vtx hv a ha hc
  simp only [D20_retyped, List.any_eq_false] at hD
  have h1 := hD vtx hv
  have ha' : vars.lookup vtx.1 = some a := ha
  simp only [retypedTest, ha', flatten1_nonunion (hnon _ _ ha), List.any_cons, List.any_nil,
    Bool.or_false, hc, Bool.true_and] at h1
  simpa using h1

mutual
/-- with `exclude_any`, an `Any` argument is accepted exactly by a pattern that is `Any`, has an `Any`
alternative, or is `Annotated` around one -/
def acceptsAnyX : Ty → Bool
  | .any => true
  | .union es => acceptsAnyXL es
  | .annotated t => acceptsAnyX t
  | _ => false
def acceptsAnyXL : List Ty → Bool
  | [] => false
  | e :: es => acceptsAnyX e || acceptsAnyXL es
end

mutual
theorem ca_excl_any (tbl : ClassTable) : ∀ t, ca tbl true t .any = acceptsAnyX t
  | .any => by simp [ca, acceptsAnyX]
  | .union es => by simp [ca, acceptsAnyX, caAnyL_excl_any tbl es]
  | .annotated t => by simp [ca, acceptsAnyX, ca_excl_any tbl t]
  | .known _ => by simp [ca, acceptsAnyX]
  | .typed _ => by simp [ca, acceptsAnyX]
  | .newtype _ _ => by simp [ca, acceptsAnyX]
  | .generic _ _ => by simp [ca, acceptsAnyX]
  | .seq _ _ => by simp [ca, acceptsAnyX]
  | .many _ => by simp [ca, acceptsAnyX]
  | .subclass _ => by simp [ca, acceptsAnyX]
  | .tvar _ => by simp [ca, acceptsAnyX]
theorem caAnyL_excl_any (tbl : ClassTable) : ∀ es, caAnyL tbl true es .any = acceptsAnyXL es
  | [] => by simp [caAnyL, acceptsAnyXL]
  | e :: es => by simp [caAnyL, acceptsAnyXL, ca_excl_any tbl e, caAnyL_excl_any tbl es]
end

mutual
theorem ca_perm_any (tbl : ClassTable) : ∀ t, ca tbl false t .any = true
  | .any => by simp [ca]
  | .union es => by simp [ca]
  | .annotated t => by simp [ca, ca_perm_any tbl t]
  | .known _ => by simp [ca]
  | .typed _ => by simp [ca]
  | .newtype _ _ => by simp [ca]
  | .generic _ _ => by simp [ca]
  | .seq _ _ => by simp [ca]
  | .many _ => by simp [ca]
  | .subclass _ => by simp [ca]
  | .tvar _ => by simp [ca]
end

/-! ## Witness and regression computations on the live class table

`ca` is defined by well-founded recursion, which the kernel does not unfold: closed facts are obtained by
unfolding its equation lemmas (`ca_fact`) and the evaluations are driven by `simp` with those facts. -/

macro "ca_fact" : tactic =>
  `(tactic| (simp only [ca, caAllR, caAnyL, typedCA, typOf, clsOf] <;> decide +kernel))

theorem lt_k1_k1 (x : Bool) : ca liveTable x (.known (.int 1)) (.known (.int 1)) = true := by cases x <;> ca_fact
theorem lt_k1_str (x : Bool) : ca liveTable x (.known (.int 1)) (.typed C.str) = false := by cases x <;> ca_fact
theorem lt_int_int (x : Bool) : ca liveTable x (.typed C.int) (.typed C.int) = true := by cases x <;> ca_fact
theorem lt_int_str (x : Bool) : ca liveTable x (.typed C.int) (.typed C.str) = false := by cases x <;> ca_fact
theorem lt_str_int (x : Bool) : ca liveTable x (.typed C.str) (.typed C.int) = false := by cases x <;> ca_fact
theorem lt_str_str (x : Bool) : ca liveTable x (.typed C.str) (.typed C.str) = true := by cases x <;> ca_fact
theorem lt_int_k1 (x : Bool) : ca liveTable x (.typed C.int) (.known (.int 1)) = true := by cases x <;> ca_fact
theorem lt_k1_int (x : Bool) : ca liveTable x (.known (.int 1)) (.typed C.int) = false := by cases x <;> ca_fact
theorem lt_int_obj (x : Bool) : ca liveTable x (.typed C.int) (.typed C.object) = false := by cases x <;> ca_fact
theorem lt_obj_int (x : Bool) : ca liveTable x (.typed C.object) (.typed C.int) = true := by cases x <;> ca_fact
theorem lt_k1_obj (x : Bool) : ca liveTable x (.known (.int 1)) (.typed C.object) = false := by cases x <;> ca_fact
theorem lt_int_k0 (x : Bool) : ca liveTable x (.typed C.int) (.known (.int 0)) = true := by cases x <;> ca_fact
theorem lt_str_k0 (x : Bool) : ca liveTable x (.typed C.str) (.known (.int 0)) = false := by cases x <;> ca_fact
theorem lt_k0_k0 (x : Bool) : ca liveTable x (.known (.int 0)) (.known (.int 0)) = true := by cases x <;> ca_fact
theorem lt_k0_str (x : Bool) : ca liveTable x (.known (.int 0)) (.typed C.str) = false := by cases x <;> ca_fact

theorem tag_k1_k1 : narrowTag liveTable (.known (.int 1)) (.known (.int 1)) = .keep := by
  simp [narrowTag, overlapping, deliteral, unannotate, overlapBase, clsOf, lt_int_int, lt_k1_k1, univAssignable]
theorem tag_int_k1 : narrowTag liveTable (.typed C.int) (.known (.int 1)) = .keep := by
  simp [narrowTag, overlapping, deliteral, unannotate, overlapBase, clsOf, lt_int_int, lt_int_k1, univAssignable]
theorem tag_int_any : narrowTag liveTable (.typed C.int) .any = .pattern := by
  simp [narrowTag, overlapping, deliteral, unannotate, overlapBase, ca_perm_any, univAssignable]
theorem tag_str_str : narrowTag liveTable (.typed C.str) (.typed C.str) = .keep := by
  simp [narrowTag, overlapping, deliteral, unannotate, overlapBase, lt_str_str, univAssignable]
theorem tag_int_int : narrowTag liveTable (.typed C.int) (.typed C.int) = .keep := by
  simp [narrowTag, overlapping, deliteral, unannotate, overlapBase, lt_int_int, univAssignable]

/-! ### fallThrough (still a finding): `if x == 1: return int` / `if x == 1: return str else: return bytes`
on `x: Literal[1] | str` -/
def wU : Ty := .union [.known (.int 1), .typed C.str]

theorem otv_k1_wU : ofTypeVal liveTable "x" (.known (.int 1)) true wU =
    ⟨some [("x", .known (.int 1))], some [("x", .typed C.str)]⟩ := by
  simp [wU, ofTypeVal, ca_union_right, caAllR, lt_k1_k1, lt_k1_str, decompose, unannotate, subtractUnions, flatten1,
    unite, dedup, dictMem, Ty.hashEq, Ty.beq]

def wFallBody : List Stmt :=
  [.ite (.cmp "x" (.int 1) false) [.ret (.typed C.int)] [],
   .ite (.cmp "x" (.int 1) false) [.ret (.typed C.str)] [.ret (.typed C.bytes)]]

theorem fallThrough_model :
    evaluate liveTable [] (Env.ofList [("x", wU)]) (.typed C.complex) wFallBody =
      (.union [.typed C.int, .typed C.str, .typed C.bytes], []) := by
  have hx : Env.ofList [("x", wU)] "x" = some wU := by simp [Env.ofList]
  simp [wFallBody, evaluate, evalBlock, evalStmt, evalCond, ofTypeRet, hx, otv_k1_wU, finalize, unite, flatten1,
    dedup, dictMem, Ty.hashEq, C.int, C.str, C.bytes]

theorem fallThrough_ref :
    refUnion liveTable [] [("x", wU)] (.typed C.complex) wFallBody =
      (.union [.typed C.int, .typed C.bytes], []) := by
  simp [wFallBody, wU, refUnion, splitVars, flatten1, refRun, refBlock, refStmt, refCond, Env.ofList, lt_k1_k1, lt_k1_str,
    unite, dedup, dictMem, Ty.hashEq, C.int, C.bytes]

/-! ### retyped (still a finding): `if is_of_type(x, int, exclude_any=False): (if is_of_type(x, int): return int
else: return str)` on `Any` -/
def wRetBody : List Stmt :=
  [.ite (.ofType "x" (.typed C.int) false) [.ite (.ofType "x" (.typed C.int) true) [.ret (.typed C.int)] [.ret (.typed C.str)]] []]

theorem retyped_model :
    evaluate liveTable [] (Env.ofList [("x", .any)]) (.typed C.float) wRetBody = (.typed C.int, []) := by
  have hx : Env.ofList [("x", Ty.any)] "x" = some .any := by simp [Env.ofList]
  have hn : narrow liveTable (.typed C.int) .any = .typed C.int := by
    simp [narrow, flatten1, narrowPos, tag_int_any, unite, dedup, dictMem]
  have hx2 : (Env.ofList [("x", Ty.any)]).over [("x", .typed C.int)] "x" = some (.typed C.int) := by
    simp [Env.over]
  simp [wRetBody, evaluate, evalBlock, evalStmt, evalCond, ofTypeRet, ofTypeVal, hx, hx2, hn, ca_perm_any, lt_int_int, finalize]

theorem retyped_ref :
    refRun liveTable [] (Env.ofList [("x", .any)]) (.typed C.float) wRetBody = (.typed C.str, []) := by
  simp [wRetBody, refRun, refBlock, refStmt, refCond, Env.ofList, ca_perm_any, ca_excl_any, acceptsAnyX]

/-! ### overlapNarrow (repaired by faaff0c): `if is_of_type(x, int): (if x == 1: return int else: return str)
else: return bytes` on `object | Literal[1]` -/
def wOvU : Ty := .union [.typed C.object, .known (.int 1)]
def wOvBody : List Stmt :=
  [.ite (.ofType "x" (.typed C.int) true)
     [.ite (.cmp "x" (.int 1) false) [.ret (.typed C.int)] [.ret (.typed C.str)]] [.ret (.typed C.bytes)]]

theorem otv_int_wOvU : ofTypeVal liveTable "x" (.typed C.int) true wOvU =
    ⟨some [("x", .known (.int 1))], some [("x", .typed C.object)]⟩ := by
  simp [wOvU, ofTypeVal, ca_union_right, caAllR, lt_int_obj, lt_int_k1, decompose, unannotate, subtractUnions, flatten1,
    unite, dedup, dictMem, Ty.hashEq, Ty.beq]

theorem otv_k1_k1 : ofTypeVal liveTable "x" (.known (.int 1)) true (.known (.int 1)) =
    ⟨some [("x", .known (.int 1))], none⟩ := by
  simp [ofTypeVal, lt_k1_k1, narrow, flatten1, narrowPos, tag_k1_k1, unite, dedup, dictMem]

theorem overlapNarrow_model :
    evaluate liveTable [] (Env.ofList [("x", wOvU)]) (.typed C.complex) wOvBody =
      (.union [.typed C.int, .typed C.bytes], []) := by
  have hx : Env.ofList [("x", wOvU)] "x" = some wOvU := by simp [Env.ofList]
  have hx2 : (Env.ofList [("x", wOvU)]).over [("x", .known (.int 1))] "x" = some (.known (.int 1)) := by
    simp [Env.over]
  simp only [wOvBody, evaluate, evalBlock, evalStmt, evalCond, ofTypeRet, hx, otv_int_wOvU, hx2, otv_k1_k1]
  simp [finalize, unite, flatten1, dedup, dictMem, Ty.hashEq, C.int, C.bytes]

theorem overlapNarrow_ref :
    refUnion liveTable [] [("x", wOvU)] (.typed C.complex) wOvBody =
      (.union [.typed C.bytes, .typed C.int], []) := by
  simp [wOvBody, wOvU, refUnion, splitVars, flatten1, refRun, refBlock, refStmt, refCond, Env.ofList, lt_int_obj, lt_int_k1,
    lt_k1_k1]
  simp [unite, flatten1, dedup, dictMem, Ty.hashEq, C.int, C.bytes]

/-! ### boolOpDrop (repaired by 4713671): `if is_of_type(x, int) or is_of_type(x, str): (if x == 0: return int
else: return str) else: return bytes` on `Literal[0] | str` -/
def wDropU : Ty := .union [.known (.int 0), .typed C.str]
def wDropBody : List Stmt :=
  [.ite (.or [.ofType "x" (.typed C.int) true, .ofType "x" (.typed C.str) true])
     [.ite (.cmp "x" (.int 0) false) [.ret (.typed C.int)] [.ret (.typed C.str)]] [.ret (.typed C.bytes)]]

theorem otv_int_wDropU : ofTypeVal liveTable "x" (.typed C.int) true wDropU =
    ⟨some [("x", .known (.int 0))], some [("x", .typed C.str)]⟩ := by
  simp [wDropU, ofTypeVal, ca_union_right, caAllR, lt_int_k0, lt_int_str, decompose, unannotate, subtractUnions, flatten1,
    unite, dedup, dictMem, Ty.hashEq, Ty.beq]
theorem otv_str_str : ofTypeVal liveTable "x" (.typed C.str) true (.typed C.str) =
    ⟨some [("x", .typed C.str)], none⟩ := by
  simp [ofTypeVal, lt_str_str, narrow, flatten1, narrowPos, tag_str_str, unite, dedup, dictMem]
theorem otv_k0_wDropU : ofTypeVal liveTable "x" (.known (.int 0)) true wDropU =
    ⟨some [("x", .known (.int 0))], some [("x", .typed C.str)]⟩ := by
  simp [wDropU, ofTypeVal, ca_union_right, caAllR, lt_k0_k0, lt_k0_str, decompose, unannotate, subtractUnions, flatten1,
    unite, dedup, dictMem, Ty.hashEq, Ty.beq]

theorem wDrop_stop : stopMap [[("x", Ty.known (.int 0))]] (some [("x", .typed C.str)]) = some [("x", wDropU)] := by
  simp [stopMap, uniteVarmaps, wDropU, unite, flatten1, dedup, dictMem, Ty.hashEq, Ty.beq]

theorem boolOpDrop_model :
    evaluate liveTable [] (Env.ofList [("x", wDropU)]) (.typed C.complex) wDropBody =
      (.union [.typed C.int, .typed C.str], []) := by
  have hx : Env.ofList [("x", wDropU)] "x" = some wDropU := by simp [Env.ofList]
  have hx2 : (Env.ofList [("x", wDropU)]).over [("x", .typed C.str)] "x" = some (.typed C.str) := by simp [Env.over]
  have hx3 : (Env.ofList [("x", wDropU)]).over [("x", wDropU)] "x" = some wDropU := by simp [Env.over]
  simp only [wDropBody, evaluate, evalBlock, evalStmt, evalCond, evalOr, ofTypeRet, hx, otv_int_wDropU, hx2, otv_str_str,
    List.nil_append, List.append_nil, wDrop_stop, hx3, otv_k0_wDropU]
  simp [finalize, unite, flatten1, dedup, dictMem, Ty.hashEq, C.int, C.str]

theorem boolOpDrop_ref :
    refUnion liveTable [] [("x", wDropU)] (.typed C.complex) wDropBody =
      (.union [.typed C.int, .typed C.str], []) := by
  simp [wDropBody, wDropU, refUnion, splitVars, flatten1, refRun, refBlock, refStmt, refCond, refAny, Env.ofList,
    lt_int_k0, lt_int_str, lt_str_str, lt_k0_k0, lt_k0_str]
  simp [unite, flatten1, dedup, dictMem, Ty.hashEq, C.int, C.str]

/-! ### ellipsisDefault (repaired by d1ebe72): the document's `with_defaults` example,
`def f(x: int = ...) -> bytes: if is_of_type(x, int): return str`, called as `f()` -/
def wEllCase : EvalCase :=
  ⟨[⟨"x", .posOrKw, .ann (.typed C.int)⟩], [], .typed C.bytes,
   [.ite (.ofType "x" (.typed C.int) true) [.ret (.typed C.str)] []]⟩

theorem ell_ctx : context wEllCase = some ([("x", .dflt)], [("x", .typed C.int)]) := by rfl

theorem otv_int_int : ofTypeVal liveTable "x" (.typed C.int) true (.typed C.int) =
    ⟨some [("x", .typed C.int)], none⟩ := by
  simp [ofTypeVal, lt_int_int, narrow, flatten1, narrowPos, tag_int_int, unite, dedup, dictMem]

theorem ellipsisDefault_model : evalCall liveTable wEllCase = some (.typed C.str, []) := by
  simp only [evalCall, ell_ctx, Option.map_some]
  simp [wEllCase, evaluate, evalBlock, evalStmt, evalCond, ofTypeRet, Env.ofList, otv_int_int, finalize]
theorem ellipsisDefault_ref : refCall liveTable wEllCase = some (.typed C.str, []) := by
  have : specContext wEllCase = some ([("x", .dflt)], [("x", .typed C.int)]) := by rfl
  simp only [refCall, this, Option.map_some]
  simp [wEllCase, refUnion, splitVars, flatten1, refRun, refBlock, refStmt, refCond, Env.ofList, lt_int_int]
  simp [unite, flatten1, dedup, dictMem]

end Pya.C20
