import PyaModel.Proofs.C20
import PyaModel.Proofs.C14
/-!
# Proofs/C20Union — one union-typed argument: the evaluator distributes over the members

Setting: a distinguished variable `x` whose value is the union of a duplicate-free list `S0` of
non-union, hashable members; every other variable is a non-union. Along the execution the value of
`x` is always `unite L` for a duplicate-free list `L` of members of `S0` (`GoodL`), and the model's
branches correspond to the sub-lists of members for which the reference condition is true / false.
-/
namespace Pya.C20

theorem isUnionVal_eq_isU (t : Ty) : isUnionVal t = t.isU := by
  cases t with
  | annotated u => cases u <;> rfl
  | _ => rfl

/-- a duplicate-free list of non-union, self-hash-equal values (the members of a normal union) -/
structure GoodL (L : List Ty) : Prop where
  notU : ∀ m ∈ L, m.isU = false
  refl : ∀ m ∈ L, Ty.hashEq m m = true
  nodup : HNodup L

theorem GoodL.nil : GoodL [] := ⟨by simp, by simp, List.Pairwise.nil⟩

theorem GoodL.unite_eq_pack {L : List Ty} (h : GoodL L) : unite L = pack L := by
  rw [unite_eq, flatMap_flatten1_of_not_isU h.notU]
  have := dedup_of_hnodup [] L (by simpa using h.nodup)
  simpa using congrArg pack this

theorem GoodL.flatten1_unite {L : List Ty} (h : GoodL L) : flatten1 (unite L) = L := by
  rw [h.unite_eq_pack]; exact flatten1_pack h.notU

theorem GoodL.unite_flat {L : List Ty} (h : GoodL L) : (unite L).flat = true := by
  rw [h.unite_eq_pack]; exact flat_pack h.notU

theorem GoodL.nodup' {L : List Ty} (h : GoodL L) : L.Nodup := by
  have hn := h.nodup
  unfold HNodup at hn
  refine List.Pairwise.imp_of_mem ?_ hn
  intro a _ ha _ hab heq
  subst heq
  rw [Ty.keq_self (h.refl a ha)] at hab
  cases hab

/-- any duplicate-free list of members of a good list is good (in any order) -/
theorem GoodL.of_subset {L P : List Ty} (h : GoodL L) (hs : ∀ a ∈ P, a ∈ L) (hn : P.Nodup) : GoodL P := by
  refine ⟨fun m hm => h.notU m (hs m hm), fun m hm => h.refl m (hs m hm), ?_⟩
  unfold HNodup
  refine List.Pairwise.imp_of_mem ?_ hn
  intro a b ha hb hab
  -- a ≠ b, both in L: they sit at different positions of L
  have hL := h.nodup
  unfold HNodup at hL
  have key : ∀ {l : List Ty}, l.Pairwise (fun e v => Ty.keq e v = false) → ∀ a ∈ l, ∀ b ∈ l, a ≠ b →
      Ty.keq a b = false := by
    intro l hl
    induction hl with
    | nil => intro a ha; simp at ha
    | cons hx _ ih =>
      rename_i x xs
      intro a ha b hb hne
      simp only [List.mem_cons] at ha hb
      rcases ha with rfl | ha <;> rcases hb with rfl | hb
      · exact absurd rfl hne
      · exact hx b hb
      · rw [Ty.keq_comm]; exact hx a ha
      · exact ih a ha b hb hne
  exact key hL a (hs a ha) b (hs b hb) hab

theorem GoodL.filter {L : List Ty} (h : GoodL L) (p : Ty → Bool) : GoodL (L.filter p) :=
  h.of_subset (fun _ ha => (List.mem_filter.mp ha).1) (h.nodup'.filter p)

/-! ## assignability, decomposition and narrowing of `unite L` -/

theorem ca_unite (tbl : ClassTable) (b : Bool) (t : Ty) {L : List Ty} (h : GoodL L) :
    ca tbl b t (unite L) = L.all (fun m => ca tbl b t m) := by
  rw [h.unite_eq_pack]
  match L with
  | [] => simp [pack, ca_union_right, caAllR]
  | [m] => simp [pack]
  | m1 :: m2 :: l => simp only [pack]; rw [ca_union_right, caAllR_eq_all]

theorem decompose_unite (tbl : ClassTable) (b : Bool) (t : Ty) {L : List Ty} (h : GoodL L)
    (hnall : L.all (fun m => ca tbl b t m) = false) :
    decompose tbl b t (unite L) =
      if L.any (fun m => ca tbl b t m) then some (unite (L.filter fun m => !ca tbl b t m)) else none := by
  rw [h.unite_eq_pack]
  match L with
  | [] => simp at hnall
  | [m] =>
    have hm : ca tbl b t m = false := by simpa using hnall
    simp only [pack, List.any_cons, hm, List.any_nil, Bool.or_false, Bool.false_eq_true, if_false]
    exact decompose_nonunion tbl b t (by rw [isUnionVal_eq_isU]; exact h.notU m (by simp))
  | m1 :: m2 :: l => simp [pack, decompose, unannotate]

/-- two members of a good list that hash equal are the same member -/
theorem GoodL.eq_of_hashEq {L : List Ty} (h : GoodL L) {a b : Ty} (ha : a ∈ L) (hb : b ∈ L)
    (hab : Ty.keq a b = true) : a = b := by
  have key : ∀ {l : List Ty}, l.Pairwise (fun e v => Ty.keq e v = false) → ∀ a ∈ l, ∀ b ∈ l, a ≠ b →
      Ty.keq a b = false := by
    intro l hl
    induction hl with
    | nil => intro a ha; simp at ha
    | cons hx _ ih =>
      rename_i x xs
      intro a ha b hb hne
      simp only [List.mem_cons] at ha hb
      rcases ha with rfl | ha <;> rcases hb with rfl | hb
      · exact absurd rfl hne
      · exact hx b hb
      · rw [Ty.keq_comm]; exact hx a ha
      · exact ih a ha b hb hne
  apply Classical.byContradiction
  intro hne
  have := key h.nodup a ha b hb hne
  rw [hab] at this
  cases this

theorem filterMap_narrowPos_keep (tbl : ClassTable) (t : Ty) :
    ∀ (L : List Ty), (∀ m ∈ L, narrowTag tbl t m = .keep) → L.filterMap (narrowPos tbl t) = L
  | [], _ => rfl
  | m :: L, hp => by
    have hm := hp m (by simp)
    have ih := filterMap_narrowPos_keep tbl t L (fun a ha => hp a (by simp [ha]))
    simp [narrowPos, hm, ih]

/-- a full match whose members are all kept by the positive narrowing leaves the union as it is -/
theorem narrow_unite_keep (tbl : ClassTable) (t : Ty) {L : List Ty} (h : GoodL L)
    (hp : ∀ m ∈ L, narrowTag tbl t m = .keep) : narrow tbl t (unite L) = unite L := by
  simp only [narrow, h.flatten1_unite, filterMap_narrowPos_keep tbl t L hp]

/-- `subtract_unions` of the non-matching members gives the matching ones -/
theorem subtract_unite {L : List Ty} (h : GoodL L) (p : Ty → Bool)
    {a1 a2 : Ty} (h1 : a1 ∈ L) (hp1 : p a1 = true) (h2 : a2 ∈ L) (hp2 : p a2 = false) :
    subtractUnions (unite L) (unite (L.filter fun m => !p m)) = unite (L.filter p) := by
  have hF : GoodL (L.filter fun m => !p m) := h.filter _
  have h2F : a2 ∈ L.filter fun m => !p m := List.mem_filter.mpr ⟨h2, by simp [hp2]⟩
  -- the union has at least two members, so it is a plain union
  have hne12 : a1 ≠ a2 := by intro heq; rw [heq, hp2] at hp1; cases hp1
  have hlen : L.length ≠ 1 := by
    intro hl
    obtain ⟨c, hc⟩ := List.length_eq_one_iff.mp hl
    rw [hc] at h1 h2
    simp only [List.mem_singleton] at h1 h2
    exact hne12 (h1.trans h2.symm)
  have hUL : unannotate (unite L) = .union L := by
    rw [h.unite_eq_pack, pack_of_length_ne_one hlen]; rfl
  -- the remaining value is not Never
  have hnot : ∀ r, r = unite (L.filter fun m => !p m) →
      subtractUnions (unite L) r =
        unite ((flatten1 (unannotate (unite L))).filter fun m => !dictMem m (flatten1 r)) := by
    intro r hr
    rw [hF.unite_eq_pack] at hr
    cases hfl : (L.filter fun m => !p m) with
    | nil => rw [hfl] at h2F; simp at h2F
    | cons f fs =>
      cases fs with
      | nil =>
        have hfu : f.isU = false := hF.notU f (by rw [hfl]; simp)
        rw [hfl] at hr
        have hr' : r = f := hr
        rw [hr']
        cases f <;> first | rfl | (simp [Ty.isU] at hfu)
      | cons f2 fs2 => rw [hfl] at hr; subst hr; rfl
  rw [hnot _ rfl, hUL, hF.flatten1_unite]
  congr 1
  simp only [flatten1]
  apply List.filter_congr
  intro m hm
  cases hpm : p m
  · have hmF : m ∈ L.filter fun m => !p m := List.mem_filter.mpr ⟨hm, by simp [hpm]⟩
    have : dictMem m (L.filter fun m => !p m) = true := dictMem_iff.mpr ⟨m, hmF, Ty.keq_self (h.refl m hm)⟩
    simp [this]
  · have : dictMem m (L.filter fun m => !p m) = false := by
      rw [dictMem_false_iff]
      intro e he
      cases hh : Ty.keq e m
      · rfl
      · have heL := (List.mem_filter.mp he).1
        have := h.eq_of_hashEq heL hm hh
        subst this
        have := (List.mem_filter.mp he).2
        simp [hpm] at this
    simp [this]

/-- `is_of_type` on a variable holding `unite L`: one-sided when all / no members match, otherwise
both sides with the matching / non-matching members -/
theorem ofTypeVal_unite (tbl : ClassTable) (x : String) (b : Bool) (t : Ty) {L : List Ty} (h : GoodL L)
    (hp : ∀ m ∈ L, ca tbl b t m = true → narrowTag tbl t m = .keep) :
    ofTypeVal tbl x t b (unite L) =
      if L.all (fun m => ca tbl b t m) then ⟨some [(x, unite L)], none⟩
      else if L.any (fun m => ca tbl b t m) then
        ⟨some [(x, unite (L.filter fun m => ca tbl b t m))], some [(x, unite (L.filter fun m => !ca tbl b t m))]⟩
      else ⟨none, some []⟩ := by
  unfold ofTypeVal
  rw [ca_unite tbl b t h]
  cases hall : L.all (fun m => ca tbl b t m)
  · simp only [Bool.false_eq_true, if_false, decompose_unite tbl b t h hall]
    cases hany : L.any (fun m => ca tbl b t m)
    · simp
    · obtain ⟨a1, ha1, hc1⟩ : ∃ a ∈ L, ca tbl b t a = true := by simpa using hany
      obtain ⟨a2, ha2, hc2⟩ : ∃ a ∈ L, ca tbl b t a = false := by simpa using hall
      simp only [if_true]
      rw [subtract_unite h (fun m => ca tbl b t m) ha1 hc1 ha2 hc2]
  · have hevery : ∀ a ∈ L, ca tbl b t a = true := by simpa using hall
    rw [narrow_unite_keep tbl t h fun m hm => hp m hm (hevery m hm)]
    simp

/-! ## `unite_varmaps` -/


/-- lookup in an association list filtered and mapped by key-only functions -/
theorem lookup_filter_map (p : String → Bool) (f : String → Ty) (k : String) :
    ∀ (m : VarMap), ((m.filter fun kv => p kv.1).map fun kv => (kv.1, f kv.1)).lookup k =
      if (m.lookup k).isSome && p k then some (f k) else none
  | [] => by simp
  | (k', t) :: m => by
    have ih := lookup_filter_map p f k m
    by_cases hk : k = k'
    · subst hk
      cases hp : p k <;> simp [hp, ih]
    · have hkb : (k == k') = false := by simpa using hk
      have hl : List.lookup k ((k', t) :: m) = List.lookup k m := by
        rw [List.lookup_cons]; simp only [hkb]
      rw [hl]
      cases hp : p k'
      · simp only [List.filter_cons, hp, Bool.false_eq_true, if_false]; exact ih
      · simp only [List.filter_cons, hp, if_true, List.map_cons, List.lookup_cons, hkb]; exact ih

theorem uniteVarmaps_lookup (m : VarMap) (ms : List VarMap) (k : String) :
    ∃ u, uniteVarmaps (m :: ms) = some u ∧
      u.lookup k = if (m :: ms).all (fun vm => (vm.lookup k).isSome) then
        some (unite ((m :: ms).map fun vm => (vm.lookup k).getD Ty.never)) else none := by
  refine ⟨_, rfl, ?_⟩
  have := lookup_filter_map (fun k => ms.all fun vm => (vm.lookup k).isSome)
    (fun k => unite ((m :: ms).map fun vm => (vm.lookup k).getD Ty.never)) k m
  simp only [List.all_cons]
  exact this

/-- uniting copies of one non-union hashable value gives the value back -/
theorem unite_const {a : Ty} (hu : a.isU = false) (hr : Ty.hashEq a a = true) :
    ∀ (vs : List Ty), vs ≠ [] → (∀ v ∈ vs, v = a) → unite vs = a := by
  intro vs hne hall
  rw [unite_eq]
  have hf : vs.flatMap flatten1 = vs := flatMap_flatten1_of_not_isU fun t ht => by rw [hall t ht]; exact hu
  rw [hf]
  have hd : ∀ (n : Nat), dedup [a] (List.replicate n a) = [a] := by
    intro n
    induction n with
    | zero => simp [dedup]
    | succ n ih => simp [List.replicate_succ, dedup, dictMem, hr, Ty.beq_refl, ih]
  have hvs : vs = List.replicate vs.length a := List.eq_replicate_iff.mpr ⟨rfl, hall⟩
  rw [hvs]
  cases hn : vs.length with
  | zero => simp at hn; exact absurd hn hne
  | succ n => simp [List.replicate_succ, dedup, dictMem, hd, pack]


/-! ## environments around the distinguished variable -/

section Env
variable (x : String) (e0 : Env)

/-- the environment in which `x` holds the union of `L` -/
def EL (L : List Ty) : Env := fun s => if s = x then some (unite L) else e0 s
/-- the member environment: `x` holds the single member `m` -/
def E1 (m : Ty) : Env := fun s => if s = x then some m else e0 s

/-- the map agrees with the base environment outside `x` -/
def Okm (m : VarMap) : Prop := ∀ k, k ≠ x → ∀ t, m.lookup k = some t → e0 k = some t

theorem Okm.nil : Okm x e0 [] := by intro k _ t h; simp at h

theorem Okm.append {l n : VarMap} (hl : Okm x e0 l) (hn : Okm x e0 n) : Okm x e0 (l ++ n) := by
  intro k hk t h
  rw [List.lookup_append] at h
  cases hlk : l.lookup k with
  | some t' => rw [hlk] at h; simp at h; subst h; exact hl k hk t' hlk
  | none => rw [hlk] at h; simp at h; exact hn k hk t h

theorem Okm.single_x (v : Ty) : Okm x e0 [(x, v)] := by
  intro k hk t h
  simp only [List.lookup_cons, List.lookup_nil] at h
  split at h
  · rename_i hkx; exact absurd (by simpa using hkx) hk
  · cases h

theorem Okm.single_y {y : String} {a : Ty} (ha : e0 y = some a) : Okm x e0 [(y, a)] := by
  intro k _ t h
  simp only [List.lookup_cons, List.lookup_nil] at h
  split at h
  · rename_i hky
    have : k = y := by simpa using hky
    subst this; cases h; exact ha
  · cases h

theorem over_x {L P : List Ty} {l : VarMap} (hok : Okm x e0 l) (hx : l.lookup x = some (unite P)) :
    (EL x e0 L).over l = EL x e0 P := by
  funext s
  unfold Env.over EL
  by_cases hs : s = x
  · subst hs; simp [hx]
  · cases hl : l.lookup s with
    | none => simp [hs]
    | some t => simp [hs, hok s hs t hl]

theorem over_nox {L : List Ty} {l : VarMap} (hok : Okm x e0 l) (hx : l.lookup x = none) :
    (EL x e0 L).over l = EL x e0 L := by
  funext s
  unfold Env.over EL
  by_cases hs : s = x
  · subst hs; simp [hx]
  · cases hl : l.lookup s with
    | none => simp [hs]
    | some t => simp [hs, hok s hs t hl]

/-- `P` lists, without repetition, the members of `L` satisfying `p` -/
def Rep (L P : List Ty) (p : Ty → Bool) : Prop := P.Nodup ∧ ∀ a, a ∈ P ↔ (a ∈ L ∧ p a = true)

theorem Rep.filter {L : List Ty} (h : L.Nodup) (p : Ty → Bool) : Rep L (L.filter p) p :=
  ⟨h.filter p, fun a => by simp [List.mem_filter]⟩

theorem Rep.good {L P : List Ty} {p : Ty → Bool} (hL : GoodL L) (h : Rep L P p) : GoodL P :=
  hL.of_subset (fun a ha => ((h.2 a).mp ha).1) h.1

theorem Rep.self {L : List Ty} {p : Ty → Bool} (h : L.Nodup) (hall : ∀ a ∈ L, p a = true) : Rep L L p :=
  ⟨h, fun a => ⟨fun ha => ⟨ha, hall a ha⟩, fun ha => ha.1⟩⟩

theorem Rep.ne_nil {L P : List Ty} {p : Ty → Bool} (h : Rep L P p) (hex : ∃ a ∈ L, p a = true) : P ≠ [] := by
  obtain ⟨a, ha, hp⟩ := hex
  intro hnil
  have := (h.2 a).mpr ⟨ha, hp⟩
  simp [hnil] at this

/-- one side of a `ConditionReturn`, for the members of `L` satisfying `p`: absent when there is none,
otherwise a map that sets `x` to (a listing of) exactly those members, or that leaves `x` alone when
all members satisfy `p` -/
def Side (L : List Ty) (m : Option VarMap) (p : Ty → Bool) : Prop :=
  ((∀ a ∈ L, p a = false) → m = none) ∧
  ((∃ a ∈ L, p a = true) → ∃ l, m = some l ∧ Okm x e0 l ∧
      ((∃ P, Rep L P p ∧ l.lookup x = some (unite P)) ∨ (l.lookup x = none ∧ ∀ a ∈ L, p a = true)))

theorem Side.congr {L : List Ty} {m : Option VarMap} {p q : Ty → Bool} (h : Side x e0 L m p)
    (hpq : ∀ a ∈ L, p a = q a) : Side x e0 L m q := by
  refine ⟨fun hq => h.1 fun a ha => by rw [hpq a ha]; exact hq a ha, ?_⟩
  rintro ⟨a, ha, hqa⟩
  obtain ⟨l, hl, hok, hcase⟩ := h.2 ⟨a, ha, by rw [hpq a ha]; exact hqa⟩
  refine ⟨l, hl, hok, ?_⟩
  rcases hcase with ⟨P, hP, hx⟩ | ⟨hx, hall⟩
  · exact .inl ⟨P, ⟨hP.1, fun b => by
      rw [hP.2 b]
      constructor
      · rintro ⟨hb, hpb⟩; exact ⟨hb, by rw [← hpq b hb]; exact hpb⟩
      · rintro ⟨hb, hqb⟩; exact ⟨hb, by rw [hpq b hb]; exact hqb⟩⟩, hx⟩
  · exact .inr ⟨hx, fun b hb => by rw [← hpq b hb]; exact hall b hb⟩

/-- what a present side gives the branch: a good non-empty list of exactly the members satisfying `p`,
held by `x` in the branch's environment -/
theorem Side.env {L : List Ty} {m : Option VarMap} {p : Ty → Bool} (hL : GoodL L)
    (h : Side x e0 L m p) (hex : ∃ a ∈ L, p a = true) :
    ∃ l P, m = some l ∧ GoodL P ∧ P ≠ [] ∧ (∀ a, a ∈ P ↔ (a ∈ L ∧ p a = true)) ∧
      (EL x e0 L).over l = EL x e0 P := by
  obtain ⟨l, hl, hok, hcase⟩ := h.2 hex
  rcases hcase with ⟨P, hP, hx⟩ | ⟨hx, hall⟩
  · exact ⟨l, P, hl, hP.good hL, hP.ne_nil hex, hP.2, over_x x e0 hok hx⟩
  · refine ⟨l, L, hl, hL, ?_, fun a => ⟨fun ha => ⟨ha, hall a ha⟩, fun ha => ha.1⟩, over_nox x e0 hok hx⟩
    obtain ⟨a, ha, _⟩ := hex
    exact List.ne_nil_of_mem ha

end Env

/-! ## conditions on a union-typed variable -/


mutual
/-- the names tested by the argument-kind functions -/
def Cond.kvars : Cond → List String
  | .kind _ v => [v]
  | .not c => c.kvars
  | .and cs => Cond.kvarsL cs
  | .or cs => Cond.kvarsL cs
  | _ => []
def Cond.kvarsL : List Cond → List String
  | [] => []
  | c :: cs => c.kvars ++ Cond.kvarsL cs
end

mutual
def Stmt.kvars : Stmt → List String
  | .ite c b o => c.kvars ++ Stmt.kvarsL b ++ Stmt.kvarsL o
  | _ => []
def Stmt.kvarsL : List Stmt → List String
  | [] => []
  | s :: ss => s.kvars ++ Stmt.kvarsL ss
end

section Cond
variable (tbl : ClassTable) (ps : Positions) (x : String) (e0 : Env) (S0 : List Ty)

/-- hypotheses on the type tests of a (sub)body: the positive narrowing of a full match keeps every
matching member of `x` and the matched value of any other variable -/
structure TH (ts : List (String × Ty × Bool)) : Prop where
  precise : ∀ vtx ∈ ts, vtx.1 = x → ∀ m ∈ S0,
    ca tbl vtx.2.2 vtx.2.1 m = true → narrowTag tbl vtx.2.1 m = .keep
  other : ∀ vtx ∈ ts, vtx.1 ≠ x → ∃ a, e0 vtx.1 = some a ∧
    (ca tbl vtx.2.2 vtx.2.1 a = true → narrowTag tbl vtx.2.1 a = .keep)

theorem TH.mono {ts ts'} (h : TH tbl x e0 S0 ts) (hs : ∀ v ∈ ts', v ∈ ts) : TH tbl x e0 S0 ts' :=
  ⟨fun v hv => h.precise v (hs v hv), fun v hv => h.other v (hs v hv)⟩

/-- every other variable holds a non-union hashable value -/
def E0H : Prop := ∀ k a, k ≠ x → e0 k = some a → a.isU = false ∧ Ty.hashEq a a = true

def KH (ks : List String) : Prop := ∀ v ∈ ks, ∃ p, ps.lookup v = some p

theorem EL_x (L : List Ty) : EL x e0 L x = some (unite L) := by simp [EL]
theorem EL_y (L : List Ty) {y : String} (h : y ≠ x) : EL x e0 L y = e0 y := by simp [EL, h]
theorem E1_x (m : Ty) : E1 x e0 m x = some m := by simp [E1]
theorem E1_y (m : Ty) {y : String} (h : y ≠ x) : E1 x e0 m y = e0 y := by simp [E1, h]

/-- a type test on `x` -/
theorem ofTypeRet_x {L : List Ty} (hL : GoodL L) (hne : L ≠ []) (t : Ty) (b : Bool)
    (hp : ∀ m ∈ L, ca tbl b t m = true → narrowTag tbl t m = .keep) :
    Side x e0 L (ofTypeRet tbl (EL x e0 L) x t b).left (fun m => ca tbl b t m) ∧
    Side x e0 L (ofTypeRet tbl (EL x e0 L) x t b).right (fun m => !ca tbl b t m) := by
  rw [ofTypeRet_eq tbl t b (EL_x x e0 L), ofTypeVal_unite tbl x b t hL hp]
  obtain ⟨a0, ha0⟩ := List.exists_mem_of_ne_nil L hne
  cases hall : L.all (fun m => ca tbl b t m)
  · cases hany : L.any (fun m => ca tbl b t m)
    · -- no member matches
      simp only [Bool.false_eq_true, if_false]
      have hnone : ∀ a ∈ L, ca tbl b t a = false := by simpa using hany
      constructor
      · exact ⟨fun _ => rfl, fun ⟨a, ha, hc⟩ => by simp [hnone a ha] at hc⟩
      · refine ⟨fun h => by simpa [hnone a0 ha0] using h a0 ha0, fun _ => ⟨[], rfl, Okm.nil x e0, .inr ⟨rfl, ?_⟩⟩⟩
        intro a ha; simp [hnone a ha]
    · -- some match, some do not
      simp only [Bool.false_eq_true, if_false, if_true]
      obtain ⟨a1, ha1, hc1⟩ : ∃ a ∈ L, ca tbl b t a = true := by simpa using hany
      obtain ⟨a2, ha2, hc2⟩ : ∃ a ∈ L, ca tbl b t a = false := by
        simpa using hall
      constructor
      · refine ⟨fun h => by simp [h a1 ha1] at hc1, fun _ => ⟨_, rfl, Okm.single_x x e0 _, .inl ⟨_, Rep.filter hL.nodup' _, ?_⟩⟩⟩
        simp
      · refine ⟨fun h => by simpa [hc2] using h a2 ha2, fun _ => ⟨_, rfl, Okm.single_x x e0 _, .inl ⟨_, Rep.filter hL.nodup' _, ?_⟩⟩⟩
        simp
  · -- every member matches
    simp only [if_true]
    have hevery : ∀ a ∈ L, ca tbl b t a = true := by simpa using hall
    constructor
    · refine ⟨fun h => absurd (hevery a0 ha0) (by have := h a0 ha0; simp only at this; simp [this]), fun _ => ⟨_, rfl, Okm.single_x x e0 _, .inl ⟨L, Rep.self hL.nodup' hevery, ?_⟩⟩⟩
      simp
    · exact ⟨fun _ => rfl, fun ⟨a, ha, hc⟩ => by simp [hevery a ha] at hc⟩

theorem Side.const_true {L : List Ty} {l : VarMap} (hok : Okm x e0 l) (hx : l.lookup x = none)
    {p : Ty → Bool} (hp : ∀ a ∈ L, p a = true) (hne : L ≠ []) : Side x e0 L (some l) p := by
  obtain ⟨a0, ha0⟩ := List.exists_mem_of_ne_nil L hne
  exact ⟨fun h => absurd (h a0 ha0) (by simp [hp a0 ha0]),
    fun _ => ⟨l, rfl, hok, .inr ⟨hx, hp⟩⟩⟩

theorem Side.none_false {L : List Ty} {p : Ty → Bool} (hp : ∀ a ∈ L, p a = false) :
    Side x e0 L none p :=
  ⟨fun _ => rfl, fun ⟨a, ha, h⟩ => by simp [hp a ha] at h⟩

/-- a one-sided condition result whose truth value does not depend on the member -/
theorem side_const {L : List Ty} (hne : L ≠ []) {l : VarMap} (hok : Okm x e0 l) (hx : l.lookup x = none)
    (v : Bool) {p : Ty → Bool} (hp : ∀ a ∈ L, p a = v) :
    Side x e0 L (if v then some l else none) p ∧ Side x e0 L (if v then none else some l) (fun m => !p m) := by
  cases v
  · exact ⟨Side.none_false x e0 hp, Side.const_true x e0 hok hx (fun a ha => by simp [hp a ha]) hne⟩
  · exact ⟨Side.const_true x e0 hok hx hp hne, Side.none_false x e0 (fun a ha => by simp [hp a ha])⟩

theorem lookup_single_ne {y : String} (hy : y ≠ x) (a : Ty) : List.lookup x [(y, a)] = none := by
  have : (x == y) = false := by simpa using fun h => hy h.symm
  simp [List.lookup_cons, this]

/-- a type test on another (non-union) variable -/
theorem ofTypeRet_y {L : List Ty} (hne : L ≠ []) {y : String} (hy : y ≠ x) {a : Ty}
    (ha : e0 y = some a) (hu : a.isU = false) (t : Ty) (b : Bool)
    (hk : ca tbl b t a = true → narrowTag tbl t a = .keep) :
    Side x e0 L (ofTypeRet tbl (EL x e0 L) y t b).left (fun _ => ca tbl b t a) ∧
    Side x e0 L (ofTypeRet tbl (EL x e0 L) y t b).right (fun _ => !ca tbl b t a) := by
  have hy' : EL x e0 L y = some a := by rw [EL_y x e0 L hy]; exact ha
  have hu' : isUnionVal a = false := by rw [isUnionVal_eq_isU]; exact hu
  rw [ofTypeRet_eq tbl t b hy']
  unfold ofTypeVal
  cases hc : ca tbl b t a
  · simp only [Bool.false_eq_true, if_false, decompose_nonunion tbl b t hu']
    exact side_const x e0 hne (Okm.nil x e0) rfl false (fun _ _ => rfl)
  · simp only [if_true, narrow_keep tbl hu' (hk hc)]
    exact side_const x e0 hne (Okm.single_y x e0 ha) (lookup_single_ne x hy a) true (fun _ _ => rfl)

theorem Rep.congr {L P : List Ty} {p q : Ty → Bool} (h : Rep L P p) (hpq : ∀ a ∈ L, p a = q a) : Rep L P q :=
  ⟨h.1, fun a => by
    rw [h.2 a]
    constructor
    · rintro ⟨ha, hp⟩; exact ⟨ha, by rw [← hpq a ha]; exact hp⟩
    · rintro ⟨ha, hq⟩; exact ⟨ha, by rw [hpq a ha]; exact hq⟩⟩

/-- sub-listing: the members of `Lc` (which lists the `q`-members of `L`) satisfying `p` -/
theorem Rep.trans {L Lc P : List Ty} {q p : Ty → Bool} (h1 : Rep L Lc q) (h2 : Rep Lc P p) :
    Rep L P (fun a => q a && p a) :=
  ⟨h2.1, fun a => by
    rw [h2.2 a, h1.2 a]
    simp only [Bool.and_eq_true]
    constructor
    · rintro ⟨⟨ha, hq⟩, hp⟩; exact ⟨ha, hq, hp⟩
    · rintro ⟨ha, hq, hp⟩; exact ⟨⟨ha, hq⟩, hp⟩⟩

/-- invariant of `remaining_varmaps`: each map sets `x` to a flat value, the flattened members of
those values are `R` -/
structure RemInv (rs : List VarMap) (R : List Ty) : Prop where
  ok : ∀ r ∈ rs, Okm x e0 r ∧ (r.lookup x).isSome = true
  mem : (rs.map fun r => (r.lookup x).getD Ty.never).flatMap flatten1 = R
  ne : rs ≠ [] → R ≠ []

theorem RemInv.nil : RemInv x e0 [] [] := ⟨by simp, by simp, by simp⟩

theorem RemInv.snoc {rs : List VarMap} {R F : List Ty} {rr : VarMap} (h : RemInv x e0 rs R)
    (hok : Okm x e0 rr) (hx : rr.lookup x = some (unite F)) (hF : GoodL F) (hne : F ≠ []) :
    RemInv x e0 (rs ++ [rr]) (R ++ F) := by
  refine ⟨?_, ?_, ?_⟩
  · intro r hr
    simp only [List.mem_append, List.mem_singleton] at hr
    rcases hr with hr | rfl
    · exact h.ok r hr
    · exact ⟨hok, by simp [hx]⟩
  · simp [List.map_append, List.flatMap_append, h.mem, hx, hF.flatten1_unite]
  · intro _ hnil
    simp at hnil
    exact hne hnil.2

theorem uniteVarmaps_lookup' (m : VarMap) (ms : List VarMap) :
    ∃ u, uniteVarmaps (m :: ms) = some u ∧ ∀ k,
      u.lookup k = if (m :: ms).all (fun vm => (vm.lookup k).isSome) then
        some (unite ((m :: ms).map fun vm => (vm.lookup k).getD Ty.never)) else none := by
  refine ⟨_, rfl, fun k => ?_⟩
  obtain ⟨u, hu, hk⟩ := uniteVarmaps_lookup m ms k
  cases hu
  exact hk

/-- outside `x` a united map agrees with the base environment when its operands do -/
theorem uniteVarmaps_okm {m : VarMap} {ms : List VarMap} {u : VarMap} (hE : E0H x e0)
    (hok : ∀ r ∈ m :: ms, Okm x e0 r) (hu : uniteVarmaps (m :: ms) = some u) : Okm x e0 u := by
  obtain ⟨u', hu', hlk⟩ := uniteVarmaps_lookup' m ms
  rw [hu] at hu'
  cases hu'
  intro k hk t ht
  rw [hlk k] at ht
  split at ht
  · rename_i hall
    simp only [List.all_eq_true] at hall
    obtain ⟨tm, htm⟩ := Option.isSome_iff_exists.mp (hall m (by simp))
    have hem : e0 k = some tm := hok m (by simp) k hk tm htm
    obtain ⟨hu', hrefl⟩ := hE k tm hk hem
    have hconst : ∀ v ∈ (m :: ms).map (fun vm => (vm.lookup k).getD Ty.never), v = tm := by
      intro v hv
      obtain ⟨vm, hvm, rfl⟩ := List.mem_map.mp hv
      obtain ⟨tv, htv⟩ := Option.isSome_iff_exists.mp (hall vm hvm)
      have := hok vm hvm k hk tv htv
      rw [hem] at this
      cases this
      simp [htv]
    rw [unite_const hu' hrefl _ (by simp) hconst] at ht
    cases ht
    exact hem
  · cases ht

theorem uniteVarmaps_side {L : List Ty} {rs : List VarMap} {R : List Ty} {p : Ty → Bool}
    (hL : GoodL L) (hE : E0H x e0) (hr : RemInv x e0 rs R) (hR : Rep L R p) :
    Side x e0 L (uniteVarmaps rs) p := by
  match rs, hr with
  | [], hr =>
    have hnil : R = [] := by simpa using hr.mem.symm
    refine ⟨fun _ => rfl, fun ⟨a, ha, hp⟩ => ?_⟩
    have := (hR.2 a).mpr ⟨ha, hp⟩
    simp [hnil] at this
  | m :: ms, hr =>
    obtain ⟨u, hu, hlk⟩ := uniteVarmaps_lookup' m ms
    rw [hu]
    have hRne : R ≠ [] := hr.ne (by simp)
    obtain ⟨a0, ha0⟩ := List.exists_mem_of_ne_nil R hRne
    have ha0' := (hR.2 a0).mp ha0
    refine ⟨fun h => by simp [h a0 ha0'.1] at ha0', fun _ => ⟨u, rfl, ?_, .inl ⟨R, hR, ?_⟩⟩⟩
    · -- outside `x` the united map agrees with the base environment
      intro k hk t ht
      rw [hlk k] at ht
      split at ht
      · rename_i hall
        simp only [List.all_eq_true] at hall
        have hm : ∃ tm, m.lookup k = some tm := Option.isSome_iff_exists.mp (hall m (by simp))
        obtain ⟨tm, htm⟩ := hm
        have hem : e0 k = some tm := (hr.ok m (by simp)).1 k hk tm htm
        obtain ⟨hu', hrefl⟩ := hE k tm hk hem
        have hconst : ∀ v ∈ (m :: ms).map (fun vm => (vm.lookup k).getD Ty.never), v = tm := by
          intro v hv
          obtain ⟨vm, hvm, rfl⟩ := List.mem_map.mp hv
          obtain ⟨tv, htv⟩ := Option.isSome_iff_exists.mp (hall vm hvm)
          have := (hr.ok vm hvm).1 k hk tv htv
          rw [hem] at this
          cases this
          simp [htv]
        rw [unite_const hu' hrefl _ (by simp) hconst] at ht
        cases ht
        exact hem
      · cases ht
    · rw [hlk x]
      have hall : (m :: ms).all (fun vm => (vm.lookup x).isSome) = true := by
        simp only [List.all_eq_true]
        exact fun vm hvm => (hr.ok vm hvm).2
      rw [hall, if_pos rfl, unite_eq, hr.mem, unite_eq,
        flatMap_flatten1_of_not_isU (hR.good hL).notU]

/-- state of the `visit_BoolOp` loop: `Lc` lists the members still under consideration (those for
which every earlier operand had the continuing truth value, predicate `q`), `narrowed` is the
accumulated narrowing, `rs` the maps set aside, covering the members `R` where `q` fails -/
structure LoopInv (L Lc : List Ty) (q : Ty → Bool) (narrowed : VarMap) (rs : List VarMap) (R : List Ty) : Prop where
  cur : Rep L Lc q
  ne : Lc ≠ []
  nok : Okm x e0 narrowed
  nx : narrowed.lookup x = some (unite Lc) ∨ (narrowed.lookup x = none ∧ Lc = L)
  rem : RemInv x e0 rs R
  remrep : Rep L R (fun a => !q a)

theorem lookup_append_some {l n : VarMap} {k : String} {t : Ty} (h : l.lookup k = some t) :
    (l ++ n).lookup k = some t := by rw [List.lookup_append, h]; rfl

theorem lookup_append_none {l n : VarMap} {k : String} (h : l.lookup k = none) :
    (l ++ n).lookup k = n.lookup k := by rw [List.lookup_append, h]; rfl

/-- one iteration of the `and` loop (the `or` loop is the same with the sides exchanged): `rc` is the
operand's result, `pc` its reference truth value per member, `rest` the remaining iterations -/
theorem loop_step {L Lc : List Ty} {q : Ty → Bool} {narrowed : VarMap} {rs : List VarMap} {R : List Ty}
    (hL : GoodL L) (hE : E0H x e0) (inv : LoopInv x e0 L Lc q narrowed rs R)
    (go stop : Option VarMap) (pc : Ty → Bool)
    (rest : Env → VarMap → List VarMap → Option VarMap × Option VarMap) (pr : Ty → Bool)
    (hgo : Side x e0 Lc go pc) (hstop : Side x e0 Lc stop (fun m => !pc m))
    (ih : ∀ Lc' q' narrowed' rs' R', LoopInv x e0 L Lc' q' narrowed' rs' R' →
        Side x e0 L (rest (EL x e0 Lc') narrowed' rs').1 (fun m => q' m && pr m) ∧
        Side x e0 L (rest (EL x e0 Lc') narrowed' rs').2 (fun m => !(q' m && pr m))) :
    Side x e0 L (match (generalizing := false) go, stop with
      | none, rr => (none, stopMap rs rr)
      | some l, none => rest ((EL x e0 Lc).over l) (l ++ narrowed) rs
      | some l, some rr => rest ((EL x e0 Lc).over l) (l ++ narrowed) (rs ++ [rr])).1
        (fun m => q m && (pc m && pr m)) ∧
    Side x e0 L (match (generalizing := false) go, stop with
      | none, rr => (none, stopMap rs rr)
      | some l, none => rest ((EL x e0 Lc).over l) (l ++ narrowed) rs
      | some l, some rr => rest ((EL x e0 Lc).over l) (l ++ narrowed) (rs ++ [rr])).2
        (fun m => !(q m && (pc m && pr m))) := by
  have hLc : GoodL Lc := inv.cur.good hL
  have hinLc : ∀ a, a ∈ Lc ↔ (a ∈ L ∧ q a = true) := inv.cur.2
  obtain ⟨a0, ha0⟩ := List.exists_mem_of_ne_nil Lc inv.ne
  have hLne : L ≠ [] := List.ne_nil_of_mem ((hinLc a0).mp ha0).1
  by_cases hT : ∃ a ∈ Lc, pc a = true
  · obtain ⟨lg, hgo_eq, hgok, hgcase⟩ := hgo.2 hT
    subst hgo_eq
    by_cases hF : ∃ a ∈ Lc, (!pc a) = true
    · -- the operand matches part of the members: set the others aside and go on
      obtain ⟨ls, hstop_eq, hsok, hscase⟩ := hstop.2 hF
      subst hstop_eq
      simp only
      obtain ⟨a1, ha1, hp1⟩ := hT
      obtain ⟨a2, ha2, hp2⟩ := hF
      obtain ⟨T, hTrep, hTx⟩ : ∃ T, Rep Lc T pc ∧ lg.lookup x = some (unite T) := by
        rcases hgcase with h | ⟨_, hall⟩
        · exact h
        · rw [hall a2 ha2] at hp2; cases hp2
      obtain ⟨F, hFrep, hFx⟩ : ∃ F, Rep Lc F (fun m => !pc m) ∧ ls.lookup x = some (unite F) := by
        rcases hscase with h | ⟨_, hall⟩
        · exact h
        · have := hall a1 ha1; simp only [hp1] at this; cases this
      rw [over_x x e0 hgok hTx]
      have hFgood : GoodL F := hFrep.good hLc
      have inv' : LoopInv x e0 L T (fun a => q a && pc a) (lg ++ narrowed) (rs ++ [ls]) (R ++ F) := by
        refine ⟨inv.cur.trans hTrep, hTrep.ne_nil ⟨a1, ha1, hp1⟩, hgok.append x e0 inv.nok,
          .inl (lookup_append_some hTx), inv.rem.snoc x e0 hsok hFx hFgood (hFrep.ne_nil ⟨a2, ha2, hp2⟩), ?_⟩
        refine ⟨List.nodup_append.mpr ⟨inv.remrep.1, hFrep.1, ?_⟩, ?_⟩
        · intro a haR b hbF hab
          subst hab
          have h1 := ((inv.remrep.2 a).mp haR).2
          have h2 := ((hinLc a).mp ((hFrep.2 a).mp hbF).1).2
          simp [h2] at h1
        · intro a
          simp only [List.mem_append, inv.remrep.2 a, hFrep.2 a, hinLc a]
          cases hq : q a <;> cases hpa : pc a <;> simp
      have := ih T _ _ _ _ inv'
      refine ⟨this.1.congr x e0 fun a _ => by simp [Bool.and_assoc], this.2.congr x e0 fun a _ => by simp [Bool.and_assoc]⟩
    · -- the operand holds for every member under consideration: narrow and go on
      have hallT : ∀ a ∈ Lc, pc a = true := by
        intro a ha
        cases hpa : pc a
        · exact absurd ⟨a, ha, by simp [hpa]⟩ hF
        · rfl
      have hstop_eq := hstop.1 (fun a ha => by simp [hallT a ha])
      subst hstop_eq
      simp only
      have hq' : ∀ a ∈ L, (!q a) = !(q a && pc a) := by
        intro a ha
        cases hq : q a
        · simp
        · simp [hallT a ((hinLc a).mpr ⟨ha, hq⟩)]
      rcases hgcase with ⟨T, hTrep, hTx⟩ | ⟨hgx, _⟩
      · rw [over_x x e0 hgok hTx]
        have inv' : LoopInv x e0 L T (fun a => q a && pc a) (lg ++ narrowed) rs R :=
          ⟨inv.cur.trans hTrep, hTrep.ne_nil hT, hgok.append x e0 inv.nok, .inl (lookup_append_some hTx),
            inv.rem, inv.remrep.congr hq'⟩
        have := ih T _ _ _ _ inv'
        exact ⟨this.1.congr x e0 fun a _ => by simp [Bool.and_assoc], this.2.congr x e0 fun a _ => by simp [Bool.and_assoc]⟩
      · rw [over_nox x e0 hgok hgx]
        have hcur : Rep L Lc (fun a => q a && pc a) := by
          refine ⟨inv.cur.1, fun a => ?_⟩
          rw [hinLc a]
          constructor
          · rintro ⟨ha, hq⟩; exact ⟨ha, by simp [hq, hallT a ((hinLc a).mpr ⟨ha, hq⟩)]⟩
          · rintro ⟨ha, hq⟩; simp only [Bool.and_eq_true] at hq; exact ⟨ha, hq.1⟩
        have inv' : LoopInv x e0 L Lc (fun a => q a && pc a) (lg ++ narrowed) rs R :=
          ⟨hcur, inv.ne, hgok.append x e0 inv.nok, by rw [lookup_append_none hgx]; exact inv.nx,
            inv.rem, inv.remrep.congr hq'⟩
        have := ih Lc _ _ _ _ inv'
        exact ⟨this.1.congr x e0 fun a _ => by simp [Bool.and_assoc], this.2.congr x e0 fun a _ => by simp [Bool.and_assoc]⟩
  · -- the operand fails for every member under consideration: the loop stops
    have hallF : ∀ a ∈ Lc, pc a = false := by
      intro a ha
      cases hpa : pc a
      · rfl
      · exact absurd ⟨a, ha, hpa⟩ hT
    have hgo_eq := hgo.1 hallF
    subst hgo_eq
    simp only
    have hfalse : ∀ a ∈ L, (q a && (pc a && pr a)) = false := by
      intro a ha
      cases hq : q a
      · simp
      · simp [hallF a ((hinLc a).mpr ⟨ha, hq⟩)]
    refine ⟨Side.none_false x e0 hfalse, ?_⟩
    have htrue : ∀ a ∈ L, (!(q a && (pc a && pr a))) = true := fun a ha => by simp [hfalse a ha]
    obtain ⟨ls, hstop_eq, hsok, hscase⟩ := hstop.2 ⟨a0, ha0, by simp [hallF a0 ha0]⟩
    subst hstop_eq
    cases hrs : rs with
    | nil =>
      -- nothing was set aside: the operand's own map describes all members
      have hRnil : R = [] := by have := inv.rem.mem; simpa [hrs] using this.symm
      have hallq : ∀ a ∈ L, q a = true := by
        intro a ha
        cases hq : q a
        · have := (inv.remrep.2 a).mpr ⟨ha, by simp [hq]⟩
          simp [hRnil] at this
        · rfl
      rcases hscase with ⟨P, hPrep, hPx⟩ | ⟨hsx, _⟩
      · refine ⟨fun h => absurd (h a0 ((hinLc a0).mp ha0).1) (by simp [htrue a0 ((hinLc a0).mp ha0).1]),
          fun _ => ⟨ls, rfl, hsok, .inl ⟨P, ?_, hPx⟩⟩⟩
        refine (inv.cur.trans hPrep).congr fun a ha => ?_
        simp [hallq a ha, hallF a ((hinLc a).mpr ⟨ha, hallq a ha⟩)]
      · exact Side.const_true x e0 hsok hsx htrue hLne
    | cons r rs' =>
      -- members were set aside: the deciding operand's map is united with the maps set aside
      have hstopmap : stopMap (r :: rs') (some ls) = uniteVarmaps ((r :: rs') ++ [ls]) := rfl
      rw [hstopmap, ← hrs]
      rcases hscase with ⟨P, hPrep, hPx⟩ | ⟨hsx, _⟩
      · -- the operand's map names the members it rejects: all members are accounted for
        have hPne : P ≠ [] := hPrep.ne_nil ⟨a0, ha0, by simp [hallF a0 ha0]⟩
        have hrem := inv.rem.snoc x e0 hsok hPx (hPrep.good hLc) hPne
        refine uniteVarmaps_side x e0 hL hE hrem ⟨List.nodup_append.mpr ⟨inv.remrep.1, hPrep.1, ?_⟩, ?_⟩
        · intro a haR b hbP hab
          subst hab
          have h1 := ((inv.remrep.2 a).mp haR).2
          have h2 := ((hinLc a).mp ((hPrep.2 a).mp hbP).1).2
          simp [h2] at h1
        · intro a
          simp only [List.mem_append, inv.remrep.2 a, hPrep.2 a, hinLc a]
          constructor
          · rintro (⟨ha, _⟩ | ⟨⟨ha, _⟩, _⟩) <;> exact ⟨ha, htrue a ha⟩
          · rintro ⟨ha, _⟩
            by_cases hq : q a = true
            · exact .inr ⟨⟨ha, hq⟩, by simp [hallF a ((hinLc a).mpr ⟨ha, hq⟩)]⟩
            · exact .inl ⟨ha, by simpa using hq⟩
      · -- the operand's map does not mention `x`: neither does the united map
        have hcons : rs ++ [ls] = r :: (rs' ++ [ls]) := by rw [hrs]; rfl
        obtain ⟨u, hu, hlk⟩ := uniteVarmaps_lookup' r (rs' ++ [ls])
        rw [hcons, hu]
        refine Side.const_true x e0 ?_ ?_ htrue hLne
        · refine uniteVarmaps_okm x e0 hE (fun m hm => ?_) hu
          rw [← hcons] at hm
          simp only [List.mem_append, List.mem_singleton] at hm
          rcases hm with hm | rfl
          · exact (inv.rem.ok m hm).1
          · exact hsok
        · rw [hlk x]
          have : (r :: (rs' ++ [ls])).all (fun vm => (vm.lookup x).isSome) = false := by
            rw [List.all_eq_false]
            exact ⟨ls, by simp, by simp [hsx]⟩
          simp [this]

/-- end of either loop: `narrowed` describes the members that went all the way, the united remaining
maps those set aside -/
theorem loop_base {L Lc : List Ty} {q : Ty → Bool} {narrowed : VarMap} {rs : List VarMap} {R : List Ty}
    (hL : GoodL L) (hE : E0H x e0) (inv : LoopInv x e0 L Lc q narrowed rs R) :
    Side x e0 L (some narrowed) q ∧ Side x e0 L (uniteVarmaps rs) (fun a => !q a) := by
  refine ⟨?_, uniteVarmaps_side x e0 hL hE inv.rem inv.remrep⟩
  obtain ⟨a0, ha0⟩ := List.exists_mem_of_ne_nil Lc inv.ne
  have ha0' := (inv.cur.2 a0).mp ha0
  refine ⟨fun h => by simp [h a0 ha0'.1] at ha0', fun _ => ⟨narrowed, rfl, inv.nok, ?_⟩⟩
  rcases inv.nx with hx | ⟨hx, heq⟩
  · exact .inl ⟨Lc, inv.cur, hx⟩
  · refine .inr ⟨hx, fun a ha => ?_⟩
    have := inv.cur.2 a
    rw [heq] at this
    exact (this.mp ha).2

theorem LoopInv.init {L : List Ty} (hL : GoodL L) (hne : L ≠ []) :
    LoopInv x e0 L L (fun _ => true) [] [] [] :=
  ⟨Rep.self hL.nodup' (fun _ _ => rfl), hne, Okm.nil x e0, .inr ⟨rfl, rfl⟩, RemInv.nil x e0,
    ⟨List.nodup_nil, fun a => by simp⟩⟩

mutual
theorem evalCond_union (hE : E0H x e0) : ∀ (c : Cond) (L : List Ty), GoodL L → L ≠ [] → (∀ m ∈ L, m ∈ S0) →
    TH tbl x e0 S0 c.tests → KH ps c.kvars →
    Side x e0 L (evalCond tbl ps (EL x e0 L) c).left (fun m => refCond tbl ps (E1 x e0 m) c) ∧
    Side x e0 L (evalCond tbl ps (EL x e0 L) c).right (fun m => !refCond tbl ps (E1 x e0 m) c)
  | .ofType v t b, L, hL, hne, hs, th, _ => by
    simp only [evalCond, refCond]
    by_cases hv : v = x
    · subst hv
      simp only [E1_x]
      exact ofTypeRet_x tbl v e0 hL hne t b
        (fun m hm => th.precise (v, t, b) (by simp [Cond.tests]) rfl m (hs m hm))
    · obtain ⟨a, ha, hk⟩ := th.other (v, t, b) (by simp [Cond.tests]) hv
      simp only [E1_y x e0 _ hv, ha]
      exact ofTypeRet_y tbl x e0 hne hv ha (hE v a hv ha).1 t b hk
  | .cmp v k neg, L, hL, hne, hs, th, _ => by
    simp only [evalCond, refCond]
    by_cases hv : v = x
    · subst hv
      simp only [E1_x]
      have key := ofTypeRet_x tbl v e0 hL hne (.known k) true
        (fun m hm => th.precise (v, .known k, true) (by simp [Cond.tests]) rfl m (hs m hm))
      cases neg
      · exact ⟨key.1.congr v e0 fun a _ => by simp, key.2.congr v e0 fun a _ => by simp⟩
      · simp only [if_true, CondRet.reverse]
        exact ⟨key.2.congr v e0 fun a _ => by simp, key.1.congr v e0 fun a _ => by simp⟩
    · obtain ⟨a, ha, hk⟩ := th.other (v, .known k, true) (by simp [Cond.tests]) hv
      simp only [E1_y x e0 _ hv, ha]
      have key := ofTypeRet_y tbl x e0 hne hv ha (hE v a hv ha).1 (.known k) true hk
      cases neg
      · exact ⟨key.1.congr x e0 fun a _ => by simp, key.2.congr x e0 fun a _ => by simp⟩
      · simp only [if_true, CondRet.reverse]
        exact ⟨key.2.congr x e0 fun a _ => by simp, key.1.congr x e0 fun a _ => by simp⟩
  | .kind f v, L, _, hne, _, _, kh => by
    obtain ⟨p, hp⟩ := kh v (by simp [Cond.kvars])
    simp only [evalCond, refCond, hp]
    have hk : specKind f (akindOf p) = kindMatch f p := by cases f <;> cases p <;> rfl
    rw [hk]
    have := side_const x e0 hne (Okm.nil x e0) (l := []) rfl (kindMatch f p)
      (p := fun _ => kindMatch f p) (fun _ _ => rfl)
    cases hm : kindMatch f p <;> simpa [hm] using this
  | .sys b, L, _, hne, _, _, _ => by
    simp only [evalCond, refCond]
    have := side_const x e0 hne (Okm.nil x e0) (l := []) rfl b (p := fun _ => b) (fun _ _ => rfl)
    cases b <;> simpa using this
  | .not c, L, hL, hne, hs, th, kh => by
    have ih := evalCond_union hE c L hL hne hs (th.mono tbl x e0 S0 (by simp [Cond.tests]))
      (by simpa [Cond.kvars] using kh)
    simp only [evalCond, refCond, CondRet.reverse]
    exact ⟨ih.2, ih.1.congr x e0 fun a _ => by simp⟩
  | .and cs, L, hL, hne, hs, th, kh => by
    have ih := evalAnd_union hE cs L L (fun _ => true) [] [] [] hL hs (LoopInv.init x e0 hL hne)
      (th.mono tbl x e0 S0 (by simp [Cond.tests])) (by simpa [Cond.kvars] using kh)
    simp only [evalCond, refCond]
    exact ⟨ih.1.congr x e0 fun a _ => by simp, ih.2.congr x e0 fun a _ => by simp⟩
  | .or cs, L, hL, hne, hs, th, kh => by
    have ih := evalOr_union hE cs L L (fun _ => true) [] [] [] hL hs (LoopInv.init x e0 hL hne)
      (th.mono tbl x e0 S0 (by simp [Cond.tests])) (by simpa [Cond.kvars] using kh)
    simp only [evalCond, refCond]
    exact ⟨ih.2.congr x e0 fun a _ => by simp, ih.1.congr x e0 fun a _ => by simp⟩
theorem evalAnd_union (hE : E0H x e0) : ∀ (cs : List Cond) (L Lc : List Ty) (q : Ty → Bool) (narrowed : VarMap)
    (rs : List VarMap) (R : List Ty), GoodL L → (∀ m ∈ L, m ∈ S0) →
    LoopInv x e0 L Lc q narrowed rs R → TH tbl x e0 S0 (Cond.testsL cs) → KH ps (Cond.kvarsL cs) →
    Side x e0 L (evalAnd tbl ps (EL x e0 Lc) narrowed rs cs).left
      (fun m => q m && refAll tbl ps (E1 x e0 m) cs) ∧
    Side x e0 L (evalAnd tbl ps (EL x e0 Lc) narrowed rs cs).right
      (fun m => !(q m && refAll tbl ps (E1 x e0 m) cs))
  | [], L, Lc, q, narrowed, rs, R, hL, _, inv, _, _ => by
    have := loop_base x e0 hL hE inv
    simp only [evalAnd, refAll]
    exact ⟨this.1.congr x e0 fun a _ => by simp, this.2.congr x e0 fun a _ => by simp⟩
  | c :: cs, L, Lc, q, narrowed, rs, R, hL, hs, inv, th, kh => by
    have hLc : GoodL Lc := inv.cur.good hL
    have hsc : ∀ m ∈ Lc, m ∈ S0 := fun m hm => hs m ((inv.cur.2 m).mp hm).1
    have ihc := evalCond_union hE c Lc hLc inv.ne hsc
      (th.mono tbl x e0 S0 fun v hv => by simp only [Cond.testsL]; exact List.mem_append_left _ hv)
      (fun v hv => kh v (by simp only [Cond.kvarsL]; exact List.mem_append_left _ hv))
    have step := loop_step x e0 hL hE inv (evalCond tbl ps (EL x e0 Lc) c).left
      (evalCond tbl ps (EL x e0 Lc) c).right (fun m => refCond tbl ps (E1 x e0 m) c)
      (fun e n r => ((evalAnd tbl ps e n r cs).left, (evalAnd tbl ps e n r cs).right))
      (fun m => refAll tbl ps (E1 x e0 m) cs) ihc.1 ihc.2
      (fun Lc' q' n' rs' R' inv' => evalAnd_union hE cs L Lc' q' n' rs' R' hL hs inv'
        (th.mono tbl x e0 S0 fun v hv => by simp only [Cond.testsL]; exact List.mem_append_right _ hv)
        (fun v hv => kh v (by simp only [Cond.kvarsL]; exact List.mem_append_right _ hv)))
    simp only [evalAnd, refAll]
    revert step
    cases (evalCond tbl ps (EL x e0 Lc) c).left <;> cases (evalCond tbl ps (EL x e0 Lc) c).right <;>
      exact fun step => step
theorem evalOr_union (hE : E0H x e0) : ∀ (cs : List Cond) (L Lc : List Ty) (q : Ty → Bool) (narrowed : VarMap)
    (rs : List VarMap) (R : List Ty), GoodL L → (∀ m ∈ L, m ∈ S0) →
    LoopInv x e0 L Lc q narrowed rs R → TH tbl x e0 S0 (Cond.testsL cs) → KH ps (Cond.kvarsL cs) →
    Side x e0 L (evalOr tbl ps (EL x e0 Lc) narrowed rs cs).right
      (fun m => q m && !refAny tbl ps (E1 x e0 m) cs) ∧
    Side x e0 L (evalOr tbl ps (EL x e0 Lc) narrowed rs cs).left
      (fun m => !(q m && !refAny tbl ps (E1 x e0 m) cs))
  | [], L, Lc, q, narrowed, rs, R, hL, _, inv, _, _ => by
    have := loop_base x e0 hL hE inv
    simp only [evalOr, refAny]
    exact ⟨this.1.congr x e0 fun a _ => by simp, this.2.congr x e0 fun a _ => by simp⟩
  | c :: cs, L, Lc, q, narrowed, rs, R, hL, hs, inv, th, kh => by
    have hLc : GoodL Lc := inv.cur.good hL
    have hsc : ∀ m ∈ Lc, m ∈ S0 := fun m hm => hs m ((inv.cur.2 m).mp hm).1
    have ihc := evalCond_union hE c Lc hLc inv.ne hsc
      (th.mono tbl x e0 S0 fun v hv => by simp only [Cond.testsL]; exact List.mem_append_left _ hv)
      (fun v hv => kh v (by simp only [Cond.kvarsL]; exact List.mem_append_left _ hv))
    have step := loop_step x e0 hL hE inv (evalCond tbl ps (EL x e0 Lc) c).right
      (evalCond tbl ps (EL x e0 Lc) c).left (fun m => !refCond tbl ps (E1 x e0 m) c)
      (fun e n r => ((evalOr tbl ps e n r cs).right, (evalOr tbl ps e n r cs).left))
      (fun m => !refAny tbl ps (E1 x e0 m) cs) ihc.2
      (ihc.1.congr x e0 fun a _ => by simp)
      (fun Lc' q' n' rs' R' inv' => evalOr_union hE cs L Lc' q' n' rs' R' hL hs inv'
        (th.mono tbl x e0 S0 fun v hv => by simp only [Cond.testsL]; exact List.mem_append_right _ hv)
        (fun v hv => kh v (by simp only [Cond.kvarsL]; exact List.mem_append_right _ hv)))
    simp only [evalOr, refAny, Bool.not_or]
    revert step
    cases (evalCond tbl ps (EL x e0 Lc) c).left <;> cases (evalCond tbl ps (EL x e0 Lc) c).right <;>
      exact fun step => step
end

end Cond

/-! ## statements and blocks -/

section Stmts
variable (tbl : ClassTable) (ps : Positions) (x : String) (e0 : Env) (S0 : List Ty)

/-- the model's result of a statement / block on `EL L` lists exactly the members' reference results -/
def ResOK (L : List Ty) (possible : List (Option Ty)) (r : EvalRet × List String)
    (ref : Ty → Option Ty × List String) : Prop :=
  (∀ o, o ∈ r.1 ↔ (o ∈ possible ∨ ∃ m ∈ L, (ref m).1 = o)) ∧
  (∀ msg, msg ∈ r.2 ↔ ∃ m ∈ L, msg ∈ (ref m).2)

def pbFall : EvalRet → List Stmt → Bool := fun r ss => r.any Option.isSome && !ss.all isPass

theorem refBlock_allPass : ∀ (ss : List Stmt) (e : Env), ss.all isPass = true → refBlock tbl ps e ss = (none, [])
  | [], _, _ => by simp [refBlock]
  | s :: ss, e, h => by
    rw [List.all_cons, Bool.and_eq_true] at h
    obtain ⟨h1, h2⟩ := h
    cases s with
    | pass => simp [refBlock, refStmt, refBlock_allPass ss e h2]
    | ret _ => simp [isPass] at h1
    | err _ => simp [isPass] at h1
    | ite _ _ _ => simp [isPass] at h1

theorem resOK_const {L : List Ty} (hne : L ≠ []) (v : Option Ty) (errs : List String)
    (possible : List (Option Ty)) : ResOK L possible (possible ++ [v], errs) (fun _ => (v, errs)) := by
  obtain ⟨a0, ha0⟩ := List.exists_mem_of_ne_nil L hne
  refine ⟨fun o => ?_, fun msg => ⟨fun h => ⟨a0, ha0, h⟩, fun ⟨_, _, h⟩ => h⟩⟩
  simp only [List.mem_append, List.mem_singleton]
  exact ⟨fun h => h.imp id fun h => ⟨a0, ha0, h.symm⟩, fun h => h.imp id fun ⟨_, _, h⟩ => h.symm⟩

mutual
theorem evalStmt_union (hE : E0H x e0) : ∀ (s : Stmt) (L : List Ty), GoodL L → L ≠ [] → (∀ m ∈ L, m ∈ S0) →
    TH tbl x e0 S0 s.tests → KH ps s.kvars →
    walkStmt tbl ps pbFall (EL x e0 L) s = false →
    ResOK L [] (evalStmt tbl ps (EL x e0 L) s) (fun m => refStmt tbl ps (E1 x e0 m) s)
  | .pass, L, _, hne, _, _, _, _ => by
    simpa [evalStmt, refStmt] using resOK_const hne none [] []
  | .ret t, L, _, hne, _, _, _, _ => by
    simpa [evalStmt, refStmt] using resOK_const hne (some t) [] []
  | .err e, L, _, hne, _, _, _, _ => by
    simpa [evalStmt, refStmt] using resOK_const hne none [e] []
  | .ite c b o, L, hL, hne, hs, th, kh, hf => by
    simp only [walkStmt] at hf
    have hc := evalCond_union tbl ps x e0 S0 hE c L hL hne hs
      (th.mono tbl x e0 S0 fun v hv => by simp only [Stmt.tests]; exact List.mem_append_left _ (List.mem_append_left _ hv))
      (fun v hv => kh v (by simp only [Stmt.kvars]; exact List.mem_append_left _ (List.mem_append_left _ hv)))
    have thb : TH tbl x e0 S0 (Stmt.testsL b) := th.mono tbl x e0 S0 fun v hv => by
      simp only [Stmt.tests]; exact List.mem_append_left _ (List.mem_append_right _ hv)
    have tho : TH tbl x e0 S0 (Stmt.testsL o) := th.mono tbl x e0 S0 fun v hv => by
      simp only [Stmt.tests]; exact List.mem_append_right _ hv
    have khb : KH ps (Stmt.kvarsL b) := fun v hv => kh v (by
      simp only [Stmt.kvars]; exact List.mem_append_left _ (List.mem_append_right _ hv))
    have kho : KH ps (Stmt.kvarsL o) := fun v hv => kh v (by
      simp only [Stmt.kvars]; exact List.mem_append_right _ hv)
    simp only [ResOK, evalStmt, refStmt, List.not_mem_nil, false_or]
    have hf2 := hf
    by_cases hT : ∃ a ∈ L, refCond tbl ps (E1 x e0 a) c = true
    · obtain ⟨lT, T, hlT, hTg, hTne, hTmem, hTenv⟩ := hc.1.env x e0 hL hT
      by_cases hF : ∃ a ∈ L, (!refCond tbl ps (E1 x e0 a) c) = true
      · obtain ⟨lF, F, hlF, hFg, hFne, hFmem, hFenv⟩ := hc.2.env x e0 hL hF
        rw [hlT, hlF] at hf2 ⊢
        simp only [hTenv, hFenv, Bool.or_eq_false_iff] at hf2 ⊢
        have ihb := evalBlock_union hE b T [] hTg hTne (fun m hm => hs m ((hTmem m).mp hm).1) thb khb hf2.1
        have iho := evalBlock_union hE o F [] hFg hFne (fun m hm => hs m ((hFmem m).mp hm).1) tho kho hf2.2
        simp only [ResOK, List.not_mem_nil, false_or] at ihb iho
        constructor
        · intro o'
          rw [List.mem_append, ihb.1 o', iho.1 o']
          constructor
          · rintro (⟨m, hm, h⟩ | ⟨m, hm, h⟩)
            · exact ⟨m, ((hTmem m).mp hm).1, by rw [if_pos ((hTmem m).mp hm).2]; exact h⟩
            · have := ((hFmem m).mp hm).2
              exact ⟨m, ((hFmem m).mp hm).1, by rw [if_neg (by simpa using this)]; exact h⟩
          · rintro ⟨m, hm, h⟩
            cases hr : refCond tbl ps (E1 x e0 m) c
            · rw [hr] at h
              exact .inr ⟨m, (hFmem m).mpr ⟨hm, by simp [hr]⟩, by simpa using h⟩
            · rw [hr] at h
              exact .inl ⟨m, (hTmem m).mpr ⟨hm, hr⟩, by simpa using h⟩
        · intro msg
          rw [List.mem_append, ihb.2 msg, iho.2 msg]
          constructor
          · rintro (⟨m, hm, h⟩ | ⟨m, hm, h⟩)
            · exact ⟨m, ((hTmem m).mp hm).1, by rw [if_pos ((hTmem m).mp hm).2]; exact h⟩
            · have := ((hFmem m).mp hm).2
              exact ⟨m, ((hFmem m).mp hm).1, by rw [if_neg (by simpa using this)]; exact h⟩
          · rintro ⟨m, hm, h⟩
            cases hr : refCond tbl ps (E1 x e0 m) c
            · rw [hr] at h
              exact .inr ⟨m, (hFmem m).mpr ⟨hm, by simp [hr]⟩, by simpa using h⟩
            · rw [hr] at h
              exact .inl ⟨m, (hTmem m).mpr ⟨hm, hr⟩, by simpa using h⟩
      · have hallT : ∀ a ∈ L, refCond tbl ps (E1 x e0 a) c = true := by
          intro a ha
          cases hr : refCond tbl ps (E1 x e0 a) c
          · exact absurd ⟨a, ha, by simp [hr]⟩ hF
          · rfl
        have hnone := hc.2.1 (fun a ha => by simp [hallT a ha])
        rw [hlT, hnone] at hf2 ⊢
        simp only [hTenv] at hf2 ⊢
        have ihb := evalBlock_union hE b T [] hTg hTne (fun m hm => hs m ((hTmem m).mp hm).1) thb khb hf2
        simp only [ResOK, List.not_mem_nil, false_or] at ihb
        constructor
        · intro o'
          rw [ihb.1 o']
          constructor
          · rintro ⟨m, hm, h⟩
            exact ⟨m, ((hTmem m).mp hm).1, by rw [if_pos ((hTmem m).mp hm).2]; exact h⟩
          · rintro ⟨m, hm, h⟩
            rw [if_pos (hallT m hm)] at h
            exact ⟨m, (hTmem m).mpr ⟨hm, hallT m hm⟩, h⟩
        · intro msg
          rw [ihb.2 msg]
          constructor
          · rintro ⟨m, hm, h⟩
            exact ⟨m, ((hTmem m).mp hm).1, by rw [if_pos ((hTmem m).mp hm).2]; exact h⟩
          · rintro ⟨m, hm, h⟩
            rw [if_pos (hallT m hm)] at h
            exact ⟨m, (hTmem m).mpr ⟨hm, hallT m hm⟩, h⟩
    · have hallF : ∀ a ∈ L, refCond tbl ps (E1 x e0 a) c = false := by
        intro a ha
        cases hr : refCond tbl ps (E1 x e0 a) c
        · rfl
        · exact absurd ⟨a, ha, hr⟩ hT
      obtain ⟨a0, ha0⟩ := List.exists_mem_of_ne_nil L hne
      have hF : ∃ a ∈ L, (!refCond tbl ps (E1 x e0 a) c) = true := ⟨a0, ha0, by simp [hallF a0 ha0]⟩
      obtain ⟨lF, F, hlF, hFg, hFne, hFmem, hFenv⟩ := hc.2.env x e0 hL hF
      have hnone := hc.1.1 hallF
      rw [hlF, hnone] at hf2 ⊢
      simp only [hFenv] at hf2 ⊢
      have iho := evalBlock_union hE o F [] hFg hFne (fun m hm => hs m ((hFmem m).mp hm).1) tho kho hf2
      simp only [ResOK, List.not_mem_nil, false_or] at iho
      constructor
      · intro o'
        rw [iho.1 o']
        constructor
        · rintro ⟨m, hm, h⟩
          exact ⟨m, ((hFmem m).mp hm).1, by rw [if_neg (by simp [hallF m ((hFmem m).mp hm).1])]; exact h⟩
        · rintro ⟨m, hm, h⟩
          rw [if_neg (by simp [hallF m hm])] at h
          exact ⟨m, (hFmem m).mpr ⟨hm, by simp [hallF m hm]⟩, h⟩
      · intro msg
        rw [iho.2 msg]
        constructor
        · rintro ⟨m, hm, h⟩
          exact ⟨m, ((hFmem m).mp hm).1, by rw [if_neg (by simp [hallF m ((hFmem m).mp hm).1])]; exact h⟩
        · rintro ⟨m, hm, h⟩
          rw [if_neg (by simp [hallF m hm])] at h
          exact ⟨m, (hFmem m).mpr ⟨hm, by simp [hallF m hm]⟩, h⟩
theorem evalBlock_union (hE : E0H x e0) : ∀ (ss : List Stmt) (L : List Ty) (possible : List (Option Ty)),
    GoodL L → L ≠ [] → (∀ m ∈ L, m ∈ S0) →
    TH tbl x e0 S0 (Stmt.testsL ss) → KH ps (Stmt.kvarsL ss) →
    walkBlock tbl ps pbFall (EL x e0 L) ss = false →
    ResOK L possible (evalBlock tbl ps (EL x e0 L) possible ss) (fun m => refBlock tbl ps (E1 x e0 m) ss)
  | [], L, possible, _, hne, _, _, _, _ => by
    simpa [evalBlock, refBlock] using resOK_const hne none [] possible
  | s :: ss, L, possible, hL, hne, hs, th, kh, hf => by
    simp only [walkBlock, Bool.or_eq_false_iff] at hf
    have ihs := evalStmt_union hE s L hL hne hs
      (th.mono tbl x e0 S0 fun v hv => by simp only [Stmt.testsL]; exact List.mem_append_left _ hv)
      (fun v hv => kh v (by simp only [Stmt.kvarsL]; exact List.mem_append_left _ hv)) hf.1
    simp only [ResOK, List.not_mem_nil, false_or] at ihs
    have thss : TH tbl x e0 S0 (Stmt.testsL ss) :=
      th.mono tbl x e0 S0 fun v hv => by simp only [Stmt.testsL]; exact List.mem_append_right _ hv
    have khss : KH ps (Stmt.kvarsL ss) := fun v hv => kh v (by
      simp only [Stmt.kvarsL]; exact List.mem_append_right _ hv)
    simp only [ResOK, evalBlock, refBlock]
    by_cases hall : (evalStmt tbl ps (EL x e0 L) s).1.all Option.isSome = true
    · -- every member returns in `s`
      simp only [hall, if_true]
      have hret : ∀ m ∈ L, ∃ t, (refStmt tbl ps (E1 x e0 m) s).1 = some t := by
        intro m hm
        cases hr : (refStmt tbl ps (E1 x e0 m) s).1 with
        | some t => exact ⟨t, rfl⟩
        | none =>
          have := (ihs.1 none).mpr ⟨m, hm, hr⟩
          simp only [List.all_eq_true] at hall
          have := hall none this
          simp at this
      constructor
      · intro o
        rw [List.mem_append, ihs.1 o]
        constructor
        · rintro (h | ⟨m, hm, h⟩)
          · exact .inl h
          · obtain ⟨t, ht⟩ := hret m hm
            exact .inr ⟨m, hm, by simp only [ht] at h ⊢; exact h⟩
        · rintro (h | ⟨m, hm, h⟩)
          · exact .inl h
          · obtain ⟨t, ht⟩ := hret m hm
            exact .inr ⟨m, hm, by simp only [ht] at h ⊢; exact h⟩
      · intro msg
        rw [ihs.2 msg]
        constructor
        · rintro ⟨m, hm, h⟩
          obtain ⟨t, ht⟩ := hret m hm
          exact ⟨m, hm, by simp only [ht]; exact h⟩
        · rintro ⟨m, hm, h⟩
          obtain ⟨t, ht⟩ := hret m hm
          exact ⟨m, hm, by simp only [ht] at h; exact h⟩
    · -- some member falls through `s`
      simp only [hall, Bool.false_eq_true, if_false] at hf ⊢
      have hf2 := hf.2
      simp only [Bool.or_eq_false_iff] at hf2
      have ihss := evalBlock_union hE ss L (possible ++ (evalStmt tbl ps (EL x e0 L) s).1.filter Option.isSome)
        hL hne hs thss khss hf2.2
      simp only [ResOK] at ihss
      -- a member that falls through `s` exists
      obtain ⟨m0, hm0, hm0n⟩ : ∃ m ∈ L, (refStmt tbl ps (E1 x e0 m) s).1 = none := by
        have : ∃ o ∈ (evalStmt tbl ps (EL x e0 L) s).1, o.isSome = false := by
          simpa using hall
        obtain ⟨o, ho, hon⟩ := this
        cases o with
        | some t => simp at hon
        | none => exact (ihs.1 none).mp ho
      -- either nobody returns in `s`, or the rest of the block is inert
      have hcase : (∀ m ∈ L, (refStmt tbl ps (E1 x e0 m) s).1 = none) ∨ ss.all isPass = true := by
        have := hf2.1
        simp only [pbFall, Bool.and_eq_false_iff] at this
        rcases this with h | h
        · left
          intro m hm
          cases hr : (refStmt tbl ps (E1 x e0 m) s).1 with
          | none => rfl
          | some t =>
            have hmem := (ihs.1 (some t)).mpr ⟨m, hm, hr⟩
            have : (evalStmt tbl ps (EL x e0 L) s).1.any Option.isSome = true :=
              List.any_eq_true.mpr ⟨some t, hmem, rfl⟩
            rw [this] at h; cases h
        · right; simpa using h
      constructor
      · intro o
        rw [ihss.1 o, List.mem_append, List.mem_filter, ihs.1 o]
        constructor
        · rintro ((h | ⟨⟨m, hm, h⟩, hsome⟩) | ⟨m, hm, h⟩)
          · exact .inl h
          · refine .inr ⟨m, hm, ?_⟩
            rw [h]
            cases o with
            | none => simp at hsome
            | some t => rfl
          · rcases hcase with hnone | hpass
            · exact .inr ⟨m, hm, by rw [hnone m hm]; exact h⟩
            · rw [refBlock_allPass tbl ps ss _ hpass] at h
              refine .inr ⟨m0, hm0, ?_⟩
              rw [hm0n, refBlock_allPass tbl ps ss _ hpass]; exact h
        · rintro (h | ⟨m, hm, h⟩)
          · exact .inl (.inl h)
          · cases hr : (refStmt tbl ps (E1 x e0 m) s).1 with
            | some t =>
              rw [hr] at h
              simp only at h
              subst h
              exact .inl (.inr ⟨⟨m, hm, hr⟩, rfl⟩)
            | none =>
              rw [hr] at h
              exact .inr ⟨m, hm, h⟩
      · intro msg
        rw [List.mem_append, ihs.2 msg, ihss.2 msg]
        constructor
        · rintro (⟨m, hm, h⟩ | ⟨m, hm, h⟩)
          · refine ⟨m, hm, ?_⟩
            cases hr : (refStmt tbl ps (E1 x e0 m) s).1 <;> simp [h]
          · rcases hcase with hnone | hpass
            · exact ⟨m, hm, by rw [hnone m hm]; simp [h]⟩
            · rw [refBlock_allPass tbl ps ss _ hpass] at h; simp at h
        · rintro ⟨m, hm, h⟩
          cases hr : (refStmt tbl ps (E1 x e0 m) s).1 with
          | some t => rw [hr] at h; exact .inl ⟨m, hm, h⟩
          | none =>
            rw [hr] at h
            simp only [List.mem_append] at h
            exact h.imp (fun h => ⟨m, hm, h⟩) (fun h => ⟨m, hm, h⟩)
end

end Stmts

/-! ## assembling the call-level statement -/

mutual
theorem refStmt_ret_mem (tbl : ClassTable) (ps : Positions) (e : Env) :
    ∀ (s : Stmt) (t : Ty), (refStmt tbl ps e s).1 = some t → t ∈ s.rets
  | .pass, t, h => by simp [refStmt] at h
  | .ret t', t, h => by simp [refStmt] at h; simp [Stmt.rets, h]
  | .err _, t, h => by simp [refStmt] at h
  | .ite c b o, t, h => by
    simp only [refStmt] at h
    simp only [Stmt.rets, List.mem_append]
    split at h
    · exact .inl (refBlock_ret_mem tbl ps e b t h)
    · exact .inr (refBlock_ret_mem tbl ps e o t h)
theorem refBlock_ret_mem (tbl : ClassTable) (ps : Positions) (e : Env) :
    ∀ (ss : List Stmt) (t : Ty), (refBlock tbl ps e ss).1 = some t → t ∈ Stmt.retsL ss
  | [], t, h => by simp [refBlock] at h
  | s :: ss, t, h => by
    simp only [refBlock] at h
    simp only [Stmt.retsL, List.mem_append]
    cases hs : (refStmt tbl ps e s).1 with
    | some t' =>
      rw [hs] at h
      simp only [Option.some.injEq] at h
      subst h
      exact .inl (refStmt_ret_mem tbl ps e s t' hs)
    | none =>
      rw [hs] at h
      exact .inr (refBlock_ret_mem tbl ps e ss t h)
end

mutual
theorem Cond.wf_tests (ps : Positions) (e : Env) : ∀ (c : Cond), c.wf ps e = true →
    (∀ vtx ∈ c.tests, (e vtx.1).isSome = true) ∧ (∀ v ∈ c.kvars, (ps.lookup v).isSome = true)
  | .ofType v t b, h => by simpa [Cond.wf, Cond.tests, Cond.kvars] using h
  | .cmp v k n, h => by simpa [Cond.wf, Cond.tests, Cond.kvars] using h
  | .kind f v, h => by simpa [Cond.wf, Cond.tests, Cond.kvars] using h
  | .sys b, _ => by simp [Cond.tests, Cond.kvars]
  | .not c, h => by simpa [Cond.tests, Cond.kvars] using Cond.wf_tests ps e c (by simpa [Cond.wf] using h)
  | .and cs, h => by simpa [Cond.tests, Cond.kvars] using Cond.wfL_tests ps e cs (by simpa [Cond.wf] using h)
  | .or cs, h => by simpa [Cond.tests, Cond.kvars] using Cond.wfL_tests ps e cs (by simpa [Cond.wf] using h)
theorem Cond.wfL_tests (ps : Positions) (e : Env) : ∀ (cs : List Cond), Cond.wfL ps e cs = true →
    (∀ vtx ∈ Cond.testsL cs, (e vtx.1).isSome = true) ∧ (∀ v ∈ Cond.kvarsL cs, (ps.lookup v).isSome = true)
  | [], _ => by simp [Cond.testsL, Cond.kvarsL]
  | c :: cs, h => by
    simp only [Cond.wfL, Bool.and_eq_true] at h
    have h1 := Cond.wf_tests ps e c h.1
    have h2 := Cond.wfL_tests ps e cs h.2
    simp only [Cond.testsL, Cond.kvarsL, List.mem_append]
    exact ⟨fun v hv => hv.elim (h1.1 v) (h2.1 v), fun v hv => hv.elim (h1.2 v) (h2.2 v)⟩
end

mutual
theorem Stmt.wf_tests (ps : Positions) (e : Env) : ∀ (s : Stmt), s.wf ps e = true →
    (∀ vtx ∈ s.tests, (e vtx.1).isSome = true) ∧ (∀ v ∈ s.kvars, (ps.lookup v).isSome = true)
  | .pass, _ => by simp [Stmt.tests, Stmt.kvars]
  | .ret _, _ => by simp [Stmt.tests, Stmt.kvars]
  | .err _, _ => by simp [Stmt.tests, Stmt.kvars]
  | .ite c b o, h => by
    simp only [Stmt.wf, Bool.and_eq_true] at h
    have h1 := Cond.wf_tests ps e c h.1.1
    have h2 := Stmt.wfL_tests ps e b h.1.2
    have h3 := Stmt.wfL_tests ps e o h.2
    simp only [Stmt.tests, Stmt.kvars, List.mem_append]
    exact ⟨fun v hv => hv.elim (fun hv => hv.elim (h1.1 v) (h2.1 v)) (h3.1 v),
      fun v hv => hv.elim (fun hv => hv.elim (h1.2 v) (h2.2 v)) (h3.2 v)⟩
theorem Stmt.wfL_tests (ps : Positions) (e : Env) : ∀ (ss : List Stmt), Stmt.wfL ps e ss = true →
    (∀ vtx ∈ Stmt.testsL ss, (e vtx.1).isSome = true) ∧ (∀ v ∈ Stmt.kvarsL ss, (ps.lookup v).isSome = true)
  | [], _ => by simp [Stmt.testsL, Stmt.kvarsL]
  | s :: ss, h => by
    simp only [Stmt.wfL, Bool.and_eq_true] at h
    have h1 := Stmt.wf_tests ps e s h.1
    have h2 := Stmt.wfL_tests ps e ss h.2
    simp only [Stmt.testsL, Stmt.kvarsL, List.mem_append]
    exact ⟨fun v hv => hv.elim (h1.1 v) (h2.1 v), fun v hv => hv.elim (h1.2 v) (h2.2 v)⟩
end

/-- uniting two lists with the same elements gives `==` results (members hash-reflexive) -/
theorem unite_beq_of_same_set {A B : List Ty} (hAB : ∀ v, v ∈ A ↔ v ∈ B)
    (hr : ∀ v ∈ A, ∀ y ∈ flatten1 v, Ty.hashEq y y = true) : Ty.beq (unite A) (unite B) = true := by
  rw [unite_eq, unite_eq]
  have hXY : ∀ y, y ∈ A.flatMap flatten1 ↔ y ∈ B.flatMap flatten1 := by
    intro y
    simp only [List.mem_flatMap]
    exact ⟨fun ⟨v, hv, hy⟩ => ⟨v, (hAB v).mp hv, hy⟩, fun ⟨v, hv, hy⟩ => ⟨v, (hAB v).mpr hv, hy⟩⟩
  have hrX : ∀ y ∈ A.flatMap flatten1, Ty.hashEq y y = true := by
    intro y hy
    obtain ⟨v, hv, hyv⟩ := List.mem_flatMap.mp hy
    exact hr v hv y hyv
  have hrY : ∀ y ∈ B.flatMap flatten1, Ty.hashEq y y = true := fun y hy => hrX y ((hXY y).mpr hy)
  have cover : ∀ {X Y : List Ty}, (∀ y, y ∈ X ↔ y ∈ Y) → (∀ y ∈ Y, Ty.hashEq y y = true) →
      ∀ x ∈ dedup [] X, ∃ y ∈ dedup [] Y, Ty.keq y x = true := by
    intro X Y hxy hry x hx
    exact dedup_coverH Y hry x ((hxy x).mp (dedup_nil_sub X x hx))
  have single : ∀ {X Y : List Ty}, (∀ y, y ∈ X ↔ y ∈ Y) → (∀ y ∈ X, Ty.hashEq y y = true) →
      (dedup [] X).length = 1 → (dedup [] Y).length = 1 := by
    intro X Y hxy hrx h1
    obtain ⟨a, ha⟩ := List.length_eq_one_iff.mp h1
    have hall : ∀ y ∈ dedup [] Y, Ty.keq a y = true := by
      intro y hy
      have hyX : y ∈ X := (hxy y).mpr (dedup_nil_sub Y y hy)
      obtain ⟨e, he, hey⟩ := dedup_coverH X hrx y hyX
      rw [ha] at he
      simp only [List.mem_singleton] at he
      subst he
      exact hey
    have hle := hnodup_all_rel (dedup_hnodup [] Y List.Pairwise.nil) hall
    have hne : dedup [] Y ≠ [] := by
      intro hnil
      have hY : Y = [] := (dedup_nil_iff Y).mp hnil
      have : a ∈ dedup [] X := by rw [ha]; simp
      have := (hxy a).mp (dedup_nil_sub X a this)
      simp [hY] at this
    cases hd : dedup [] Y with
    | nil => exact absurd hd hne
    | cons y ys =>
      rw [hd] at hle
      simp only [List.length_cons] at hle ⊢
      omega
  exact pack_beq (cover hXY hrY) (cover (fun y => (hXY y).symm) hrX)
    ⟨single hXY hrX, single (fun y => (hXY y).symm) hrY⟩

/-- replace the value of every `x` entry -/
def setx (x : String) (m : Ty) (vars : VarMap) : VarMap :=
  vars.map fun kv => if kv.1 = x then (x, m) else kv

theorem splitVars_nonunion : ∀ (vars : VarMap), (∀ kv ∈ vars, kv.2.isU = false) → splitVars vars = [vars]
  | [], _ => rfl
  | (k, t) :: rest, h => by
    have ht := flatten1_of_not_isU (h (k, t) (by simp))
    have ih := splitVars_nonunion rest (fun kv hkv => h kv (by simp [hkv]))
    simp only at ht
    simp [splitVars, ht, ih]

theorem setx_noop (x : String) (m : Ty) : ∀ (vars : VarMap), (∀ kv ∈ vars, kv.1 ≠ x) → setx x m vars = vars
  | [], _ => rfl
  | kv :: rest, h => by
    have := setx_noop x m rest (fun kv' hkv => h kv' (by simp [hkv]))
    simp only [setx] at this ⊢
    simp [h kv (by simp), this]

/-- a call with exactly one `x` entry, holding the union of `S0`, every other entry a non-union -/
def OneUnion (x : String) (S0 : List Ty) : VarMap → Prop
  | [] => False
  | (k, t) :: rest =>
    (k = x ∧ t = .union S0 ∧ ∀ kv ∈ rest, kv.1 ≠ x ∧ kv.2.isU = false) ∨
    (k ≠ x ∧ t.isU = false ∧ OneUnion x S0 rest)

theorem flatMap_single {α β : Type} (f : α → β) : ∀ (l : List α), l.flatMap (fun a => [f a]) = l.map f
  | [] => rfl
  | a :: l => by simp [List.flatMap_cons, flatMap_single f l]

theorem splitVars_oneUnion (x : String) (S0 : List Ty) : ∀ (vars : VarMap), OneUnion x S0 vars →
    splitVars vars = S0.map fun m => setx x m vars
  | [], h => by cases h
  | (k, t) :: rest, h => by
    rcases h with ⟨hk, ht, hrest⟩ | ⟨hk, ht, hrest⟩
    · subst hk ht
      have h1 := splitVars_nonunion rest (fun kv hkv => (hrest kv hkv).2)
      have h2 : ∀ m, setx k m rest = rest := fun m => setx_noop k m rest (fun kv hkv => (hrest kv hkv).1)
      have h3 : ∀ m, setx k m ((k, Ty.union S0) :: rest) = (k, m) :: rest := by
        intro m
        have := h2 m
        simp only [setx] at this ⊢
        simp [this]
      simp only [splitVars, flatten1, h1, List.map_cons, List.map_nil, h3]
      exact flatMap_single _ S0
    · have ih := splitVars_oneUnion x S0 rest hrest
      simp only [splitVars, flatten1_of_not_isU ht, ih, List.flatMap_cons, List.flatMap_nil, List.append_nil,
        List.map_map]
      apply List.map_congr_left
      intro m _
      simp [setx, hk]

theorem ofList_setx (x : String) (S0 : List Ty) (m : Ty) : ∀ (vars : VarMap), OneUnion x S0 vars →
    Env.ofList (setx x m vars) = E1 x (Env.ofList vars) m
  | [], h => by cases h
  | (k, t) :: rest, h => by
    funext s
    rcases h with ⟨hk, _, hrest⟩ | ⟨hk, _, hrest⟩
    · subst hk
      have h2 : setx k m rest = rest := setx_noop k m rest (fun kv hkv => (hrest kv hkv).1)
      by_cases hs : s = k
      · subst hs; simp [Env.ofList, setx, E1]
      · have hsb : (s == k) = false := by simpa using hs
        simp only [Env.ofList, setx, E1, List.map_cons, if_true, List.lookup_cons, hsb, hs, if_false]
        have := h2
        simp only [setx] at this
        rw [this]
    · have ih := congrFun (ofList_setx x S0 m rest hrest) s
      by_cases hs : s = k
      · subst hs
        simp [Env.ofList, setx, E1, hk]
      · have hsb : (s == k) = false := by simpa using hs
        simp only [Env.ofList, setx, E1, List.map_cons, hk, if_false, List.lookup_cons, hsb] at ih ⊢
        exact ih

theorem oneUnion_lookup (x : String) (S0 : List Ty) : ∀ (vars : VarMap), OneUnion x S0 vars →
    vars.lookup x = some (.union S0) ∧ ∀ k a, k ≠ x → vars.lookup k = some a → a.isU = false
  | [], h => by cases h
  | (k, t) :: rest, h => by
    rcases h with ⟨hk, ht, hrest⟩ | ⟨hk, ht, hrest⟩
    · subst hk ht
      refine ⟨by simp, fun k' a hk' hl => ?_⟩
      have hb : (k' == k) = false := by simpa using hk'
      simp only [List.lookup_cons, hb] at hl
      obtain ⟨k'', hmem⟩ := lookup_mem hl
      exact (hrest _ hmem).2
    · obtain ⟨ih1, ih2⟩ := oneUnion_lookup x S0 rest hrest
      have hb : (x == k) = false := by simpa using fun h => hk h.symm
      refine ⟨by simp [List.lookup_cons, hb, ih1], fun k' a hk' hl => ?_⟩
      by_cases hkk : k' = k
      · subst hkk; simp at hl; subst hl; exact ht
      · have hb' : (k' == k) = false := by simpa using hkk
        simp only [List.lookup_cons, hb'] at hl
        exact ih2 k' a hk' hl




theorem lookup_mem' {k : String} {t : Ty} : ∀ {m : VarMap}, m.lookup k = some t → (k, t) ∈ m
  | [], h => by simp at h
  | (k', t') :: m, h => by
    simp only [List.lookup_cons] at h
    split at h
    · rename_i hk
      have : k = k' := by simpa using hk
      subst this; cases h; simp
    · exact List.mem_cons_of_mem _ (lookup_mem' h)

theorem oneUnion_of_bool (x : String) : ∀ (vars : VarMap), oneUnionB x vars = true →
    ∃ S0, OneUnion x S0 vars
  | [], h => by simp [oneUnionB] at h
  | (k, t) :: rest, h => by
    simp only [oneUnionB] at h
    by_cases hk : k = x
    · simp only [hk, if_true, Bool.and_eq_true, List.all_eq_true] at h
      cases t with
      | union S0 =>
        refine ⟨S0, .inl ⟨hk, rfl, fun kv hkv => ?_⟩⟩
        have := h.2 kv hkv
        simp only [bne_iff_ne, ne_eq, Bool.not_eq_true'] at this
        exact ⟨this.1, by rw [← isUnionVal_eq_isU]; exact this.2⟩
      | _ => simp at h
    · simp only [hk, if_false, Bool.and_eq_true, Bool.not_eq_true'] at h
      obtain ⟨S0, hS⟩ := oneUnion_of_bool x rest h.2
      exact ⟨S0, .inr ⟨hk, by rw [← isUnionVal_eq_isU]; exact h.1, hS⟩⟩

/-- the core of the union-distribution theorem -/
theorem eval_union_core (tbl : ClassTable) (ps : Positions) (vars : VarMap) (retAnn : Ty)
    (body : List Stmt) (x : String)
    (hwf : Stmt.wfL ps (Env.ofList vars) body = true)
    (hx : unionArgOK x vars = true) (ho : othersOK x vars = true) (hr : retsOK retAnn body = true)
    (h1 : D20_fallThrough tbl ps (Env.ofList vars) body = false)
    (h4 : D20_retyped tbl vars body = false) :
    Ty.beq (evaluate tbl ps (Env.ofList vars) retAnn body).1 (refUnion tbl ps vars retAnn body).1 = true ∧
    ∀ msg, msg ∈ (evaluate tbl ps (Env.ofList vars) retAnn body).2 ↔
      msg ∈ (refUnion tbl ps vars retAnn body).2 := by
  -- the union variable and its members
  simp only [unionArgOK, Bool.and_eq_true] at hx
  obtain ⟨S0, hOne⟩ := oneUnion_of_bool x vars hx.1
  obtain ⟨hlx, hothers⟩ := oneUnion_lookup x S0 vars hOne
  have hgm : goodMembers S0 = true := by have := hx.2; rw [hlx] at this; exact this
  simp only [goodMembers, Bool.and_eq_true, decide_eq_true_eq, List.all_eq_true, Bool.not_eq_true'] at hgm
  obtain ⟨⟨hlen, hmem⟩, hdup⟩ := hgm
  have hS0 : GoodL S0 :=
    ⟨fun m hm => by rw [← isUnionVal_eq_isU]; exact (hmem m hm).1, fun m hm => (hmem m hm).2,
      hnodup_of_dupIn hdup⟩
  have hS0ne : S0 ≠ [] := by intro h; simp [h] at hlen
  -- the environment
  let e0 := Env.ofList vars
  have hEL : EL x e0 S0 = e0 := by
    funext s
    by_cases hs : s = x
    · subst hs
      simp only [EL, if_true]
      rw [hS0.unite_eq_pack, pack_of_length_ne_one (by omega)]
      exact hlx.symm
    · simp [EL, hs]
  have hE : E0H x e0 := by
    intro k a hk hka
    refine ⟨hothers k a hk hka, ?_⟩
    have hm := lookup_mem' (m := vars) hka
    simp only [othersOK, List.all_eq_true] at ho
    have := ho _ hm
    simpa [hk] using this
  -- hypotheses on the tests
  obtain ⟨hwt, hwk⟩ := Stmt.wfL_tests ps e0 body hwf
  have hth : TH tbl x e0 S0 (Stmt.testsL body) := by
    constructor
    · intro vtx hv hvx m hm hc
      simp only [D20_retyped, List.any_eq_false] at h4
      have r1 := h4 vtx hv
      simp only [retypedTest, hvx, hlx, flatten1, List.any_eq_true, not_exists, not_and, Bool.and_eq_true] at r1
      have r1' := r1 m hm
      simpa [hc] using r1'
    · intro vtx hv hvx
      obtain ⟨a, ha⟩ := Option.isSome_iff_exists.mp (hwt vtx hv)
      refine ⟨a, ha, fun hc => ?_⟩
      have hu := hothers vtx.1 a hvx ha
      simp only [D20_retyped, List.any_eq_false] at h4
      have r1 := h4 vtx hv
      have ha' : vars.lookup vtx.1 = some a := ha
      simp only [retypedTest, ha', flatten1_of_not_isU hu, List.any_cons, List.any_nil, Bool.or_false, hc,
        Bool.true_and] at r1
      simpa using r1
  have hkh : KH ps (Stmt.kvarsL body) := fun v hv => Option.isSome_iff_exists.mp (hwk v hv)
  -- the model side
  have hf : walkBlock tbl ps pbFall (EL x e0 S0) body = false := by
    rw [hEL]; exact h1
  have hres := evalBlock_union tbl ps x e0 S0 hE body S0 [] hS0 hS0ne (fun _ h => h) hth hkh hf
  rw [hEL] at hres
  simp only [ResOK, List.not_mem_nil, false_or] at hres
  -- the reference side
  have hruns : (splitVars vars).map (fun vm => refRun tbl ps (Env.ofList vm) retAnn body) =
      S0.map (fun m => refRun tbl ps (E1 x e0 m) retAnn body) := by
    rw [splitVars_oneUnion x S0 vars hOne, List.map_map]
    apply List.map_congr_left
    intro m _
    simp only [Function.comp, ofList_setx x S0 m vars hOne]
    rfl
  simp only [evaluate, refUnion, hruns]
  constructor
  · -- the type
    have hB : ∀ v, v ∈ (evalBlock tbl ps e0 [] body).1.map (fun o => o.getD retAnn) ↔
        v ∈ (S0.map (fun m => refRun tbl ps (E1 x e0 m) retAnn body)).map (·.1) := by
      intro v
      simp only [List.mem_map, refRun]
      constructor
      · rintro ⟨o, ho, rfl⟩
        obtain ⟨m, hm, hmo⟩ := (hres.1 o).mp ho
        exact ⟨_, ⟨m, hm, rfl⟩, by simp [hmo]⟩
      · rintro ⟨_, ⟨m, hm, rfl⟩, rfl⟩
        exact ⟨_, (hres.1 _).mpr ⟨m, hm, rfl⟩, rfl⟩
    have hok : ∀ v ∈ (evalBlock tbl ps e0 [] body).1.map (fun o => o.getD retAnn), okRet v = true := by
      intro v hv
      obtain ⟨o, ho, rfl⟩ := List.mem_map.mp hv
      obtain ⟨m, _, hmo⟩ := (hres.1 o).mp ho
      simp only [retsOK, List.all_cons, Bool.and_eq_true, List.all_eq_true] at hr
      cases o with
      | none => exact hr.1
      | some t => exact hr.2 t (refBlock_ret_mem tbl ps _ body t hmo)
    have hrefl : ∀ v ∈ (evalBlock tbl ps e0 [] body).1.map (fun o => o.getD retAnn),
        ∀ y ∈ flatten1 v, Ty.hashEq y y = true := by
      intro v hv y hy
      have := hok v hv
      simp only [okRet, Bool.and_eq_true, List.all_eq_true] at this
      exact this.2 y hy
    have hgen := unite_beq_of_same_set hB hrefl
    -- `_evaluate_ret` does not unite a single return
    match hshape : (evalBlock tbl ps e0 [] body).1 with
    | [o] =>
      rw [hshape] at hgen hok
      simp only [finalize]
      have hk := hok (o.getD retAnn) (by simp)
      simp only [okRet, Bool.and_eq_true, Bool.not_eq_true'] at hk
      have hsingle : unite [o.getD retAnn] = o.getD retAnn := unite_single_normal hk.1.1 hk.1.2
      simpa [hsingle] using hgen
    | [] => rw [hshape] at hgen; simpa [finalize] using hgen
    | o1 :: o2 :: os => rw [hshape] at hgen; simpa [finalize] using hgen
  · -- the messages
    intro msg
    rw [hres.2 msg, List.mem_eraseDups, List.mem_flatMap]
    simp only [List.mem_map, refRun]
    constructor
    · rintro ⟨m, hm, h⟩; exact ⟨_, ⟨m, hm, rfl⟩, h⟩
    · rintro ⟨_, ⟨m, hm, rfl⟩, h⟩; exact ⟨m, hm, h⟩


/-! ## the worked example of Props/C20 (non-vacuity of the union theorem) -/

/-! the example call

`def f(x, y): if x == 1: show_error("E1"); return int` / `elif is_positional(x) and is_of_type(y, int):
return str` / `else: return bytes`, called as `f(v, 1)` with `v: Literal[1] | str`. -/
def exPs : Positions := [("x", .idx 0), ("y", .idx 1)]
def exVars : VarMap := [("x", wU), ("y", .known (.int 1))]
def exBody : List Stmt :=
  [.ite (.cmp "x" (.int 1) false) [.err "E1", .ret (.typed C.int)]
    [.ite (.and [.kind .positional "x", .ofType "y" (.typed C.int) true]) [.ret (.typed C.str)]
      [.ret (.typed C.bytes)]]]


theorem ex_lookup_x : List.lookup "x" exVars = some wU := by rfl

theorem ex_lookup_y : List.lookup "y" exVars = some (.known (.int 1)) := by rfl

theorem ex_retyped : D20_retyped liveTable exVars exBody = false := by
  simp [D20_retyped, exBody, Stmt.testsL, Stmt.tests, Cond.tests, Cond.testsL, retypedTest, ex_lookup_x, ex_lookup_y,
    wU, flatten1, lt_k1_k1, lt_k1_str, tag_k1_k1, lt_int_k1, tag_int_k1]

theorem ex_env_x : Env.ofList exVars "x" = some wU := by rfl

theorem ex_env_y (m : VarMap) (hm : m.lookup "y" = none) : (Env.ofList exVars).over m "y" = some (.known (.int 1)) := by
  simp [Env.over, hm]; rfl

theorem otv_int_k1_y : ofTypeVal liveTable "y" (.typed C.int) true (.known (.int 1)) =
    ⟨some [("y", .known (.int 1))], none⟩ := by
  simp [ofTypeVal, lt_int_k1, narrow, flatten1, narrowPos, tag_int_k1, unite, dedup, dictMem]

theorem ex_ps_x : List.lookup "x" exPs = some (.idx 0) := by rfl

theorem ex_cond2 (m : VarMap) (hm : m.lookup "y" = none) :
    evalCond liveTable exPs ((Env.ofList exVars).over m)
      (.and [.kind .positional "x", .ofType "y" (.typed C.int) true]) = ⟨some [("y", .known (.int 1))], none⟩ := by
  have h1 : ((Env.ofList exVars).over m).over [] = (Env.ofList exVars).over m := by
    funext s; simp [Env.over]
  simp only [evalCond, evalAnd, ex_ps_x, kindMatch, if_true, h1, ofTypeRet, ex_env_y m hm, otv_int_k1_y,
    List.append_nil, uniteVarmaps]

theorem ex_cond1 : evalCond liveTable exPs (Env.ofList exVars) (.cmp "x" (.int 1) false) =
    ⟨some [("x", .known (.int 1))], some [("x", .typed C.str)]⟩ := by
  simp only [evalCond, ofTypeRet, ex_env_x, otv_k1_wU]
  rfl

theorem ex_fall : D20_fallThrough liveTable exPs (Env.ofList exVars) exBody = false := by
  simp only [D20_fallThrough, exBody, walkBlock, walkStmt, evalStmt, ex_cond1,
    ex_cond2 [("x", .typed C.str)] (by rfl), evalBlock]
  simp

end Pya.C20
