import PyaModel.Proofs.C01
import PyaModel.Proofs.C01Composite
import PyaModel.Proofs.C01CmpChain
/-!
# Props/C01 — inferred values are sound with respect to execution (stages S1, S2a, S1b, S1c, S3a: the MiniPy fragment)

Fragment (`Core/MiniPy.lean`): functions with declared parameter types; expressions: literals, names,
tuple / list displays, subscripts with a literal int index, conditional expressions, calls to annotated helper
functions, `a + b` on ints / bools / strs; conditions `x is None`, `x is not None`, `not …`; statements: assignment, iterable unpacking
`x1, …, xn = e` (no starred target), augmented assignment `x += e` (ints / bools / strs), `if`/`else` (nested, with
early `return`), `return`, and `for x in e: body`
(any iterable value of the fragment, any number of iterations, nested loops; no break / continue / else).
Loops: `infer` models pyanalyze's three visits of a loop body (two while collecting, one while checking, the reads of
the checking visit using the definitions recorded by both collecting visits); that scheme is NOT a fixed-point
iteration, so the theorem carries the decidable side condition `loopNotFix = false` — the definitions the body
leaves are covered by the ones assumed at the loop head — which is exactly what fails in the known class
`loopCarriedLiteral` (`loopCarried_witness`). The model of the three visits is exact only for bodies made of
assignments / unpackings without conditional expressions (`simpleBody`); other bodies raise `frag`.
Calls: the helper functions are a parameter `impl` of the semantics; the theorems assume `ImplOk impl prog.rets` —
whatever a helper returns belongs to its declared return type (for ALL arguments: the assumption is on the callee's
semantics, not on the arguments it is given).
`infer` is the model of what pyanalyze infers for every expression node (validated against the real
pyanalyze on every run, stream `mini`), `exec` is CPython's behaviour (`Spec/MiniSem.lean`, validated against
CPython, stream `eval`), membership is `mem` (`Spec/Mem.lean`).

`while`, break / continue / loop `else`, `try`, `match`, generic / builtin calls, starred unpacking, the other
operators and `+` on other operand types (flagged `frag`), boolean operators and the other narrowing forms of the property are NOT covered by these theorems; for them the verdict rests on the execution search of the harness.
-/
namespace Pya.C01
open Pya

/-- **C01 on the fragment, full-strength statement** (false: `literalEqMerge_witness`). Whenever the function
is called on arguments drawn from the declared parameter types, every value an expression node evaluates to
belongs to a value pyanalyze inferred for that node. -/
def InferSound (impl : Impl) (prog : Prog) : Prop :=
  ∀ (args : List Obj), argsOk prog.params args = true →
    ∀ n o, (n, o) ∈ (exec impl prog args).2 → ∃ T, (n, T) ∈ (infer prog).log ∧ mem liveTable o T = true

/-- **Soundness outside the exception classes (stages S1, S2a, S1b, S1c, S3a).** For every program of the fragment — any
size, any nesting of `if`/`else`, conditional expressions and `for` loops, unpacking and helper calls included —, for
all helper
implementations that respect their declared return types (`ImplOk`), on which the inference raises no flag
(`noneReject`: the model of `is_assignable(Literal[None])` rejects a member that contains `None`, never
observed; `literalEqMerge`: a literal subscript selects an element equal to 0 / 1 / False / True out of a
literal container, or a literal container holding such an element is unpacked or iterated; `loopNotFix`: the
definition nodes a loop body leaves are not covered by those assumed at the loop head; `frag`: a loop body that is
not `simpleBody`, a subscript / unpacking
with an unpacked tuple member or on a base that is not a tuple / list form), and for all arguments drawn from the declared parameter types: every value an evaluated expression node
yields at run time is a member of the value inferred for that node. Proved by induction on the program, with
`unite_mem` (C14) for the joins and the C19 `getitem` lemmas for subscripts. -/
theorem infer_sound_partial (impl : Impl) (prog : Prog) (himpl : ImplOk impl prog.rets)
    (hflags : (infer prog).flags.none = true) : InferSound impl prog := by
  intro args hargs n o hn
  have hinv := Inv_init prog.params args 0 hargs
  haveI : ImplOkC impl prog.rets := ⟨himpl⟩
  have h := inferBlock_sound (impl := impl) (R := prog.rets) prog.body (initSt prog) [] 0 (initEnv 0 args) hinv hflags
  exact h.1 n o hn

/-- **An expression inferred as `Never` is never reached** (same fragment, same hypotheses): if every value
recorded for a node is the empty union, no execution evaluates the node. -/
theorem never_unreachable_partial (impl : Impl) (prog : Prog) (himpl : ImplOk impl prog.rets)
    (hflags : (infer prog).flags.none = true)
    (args : List Obj) (hargs : argsOk prog.params args = true) (n : Path)
    (hnever : ∀ T, (n, T) ∈ (infer prog).log → T = Ty.never) :
    ∀ o, (n, o) ∉ (exec impl prog args).2 := by
  intro o hn
  obtain ⟨T, hT, hm⟩ := infer_sound_partial impl prog himpl hflags args hargs n o hn
  rw [hnever T hT] at hm
  simp [Ty.never, mem, memAny] at hm

/-- The narrowing step alone: applying the `is None` / `is not None` constraint to a member that contains the
runtime value keeps the value, whenever the test really has that outcome on it. -/
theorem narrow_none_keeps (o : Obj) (pos : Bool) (m : Ty) (hm : mem liveTable o m = true)
    (hc : (isNoneObj o == pos) = true)
    (hok : (pos && (match unannot m with
        | .known _ => false
        | _ => mem liveTable .none m && !ca liveTable false m (.known .none))) = false) :
    (narrowNone pos m).any (fun v => mem liveTable o v) = true :=
  narrowNone_keeps o pos m hm hc hok

/-- A literal subscript of a value containing the sequence yields a value containing the element (all value
shapes of the fragment: literal tuples / lists, tuple / list forms, `list[T]`, `tuple[T, ...]`, unions). -/
theorem subscript_sound_partial (o r : Obj) (v : Ty) (i : Int) (hm : mem liveTable o v = true)
    (hs : subObj o i = some r) (hf : (subscript v i).2.none = true) :
    mem liveTable r (subscript v i).1 = true :=
  subscript_sound o r v i hm hs hf

/-- Unpacking a value that contains the iterable yields, target by target, values containing the elements (all value
shapes of the fragment; unions are unpacked member-wise and united column-wise). -/
theorem unpack_sound_partial (o : Obj) (v : Ty) (n : Nat) (os : List Obj) (hm : mem liveTable o v = true)
    (hi : iterObj o = some os) (hlen : os.length = n) (hf : (unpackVals v n).2.none = true) :
    R2 (fun x t => mem liveTable x t) os (unpackVals v n).1 = true :=
  unpackVals_sound o v n os hm hi hlen hf

/-! ## The exception class `literalEqMerge` is real

```python
def f(x: None):
    t = (1,) if x is not None else (True,)
    return t[0]
```
`unite_values(Literal[(1,)], Literal[(True,)])` keeps only `Literal[(1,)]` (`KnownValue.__eq__` and `__hash__`
identify the two tuples), so `t[0]` is inferred as `Literal[1]`; `f(None)` evaluates it to `True`. -/
def witnessProg : Prog :=
  { params := [.known .none],
    body := [.assign 1 (.ite (.isNone 0 false) (.disp false [.lit (.int 1)]) (.disp false [.lit (.bool true)])),
             .ret (.sub (.var 1) 0)] }

/-- a kernel-evaluable upper bound of `mem`: exact on literals, `true` elsewhere -/
def memK1 (o : Obj) : Ty → Bool
  | .known k => Obj.same o k
  | _ => true

def memK (o : Obj) : Ty → Bool
  | .known k => Obj.same o k
  | .union ts => ts.any (memK1 o)
  | _ => true

theorem memK1_of_mem (o : Obj) (T : Ty) (h : mem liveTable o T = true) : memK1 o T = true := by
  cases T <;> simp_all [memK1, mem]

theorem memK_of_mem (o : Obj) (T : Ty) (h : mem liveTable o T = true) : memK o T = true := by
  cases T with
  | union ts =>
    simp only [mem] at h
    rw [memAny_eq_any] at h
    obtain ⟨t, ht, hm⟩ := List.any_eq_true.mp h
    exact List.any_eq_true.mpr ⟨t, ht, memK1_of_mem o t hm⟩
  | _ => simp_all [memK, mem]

/-- decidable necessary condition of the statement for one argument tuple -/
def soundOnK (prog : Prog) (args : List Obj) : Bool :=
  (exec (fun _ _ => none) prog args).2.all fun no => (infer prog).log.any fun nT => nT.1 == no.1 && memK no.2 nT.2

theorem soundOnK_of_InferSound (prog : Prog) (args : List Obj) (h : InferSound (fun _ _ => none) prog)
    (hargs : argsOk prog.params args = true) : soundOnK prog args = true := by
  unfold soundOnK
  rw [List.all_eq_true]
  intro ⟨n, o⟩ hno
  obtain ⟨T, hT, hm⟩ := h args hargs n o hno
  exact List.any_eq_true.mpr ⟨(n, T), hT, by simp [memK_of_mem o T hm]⟩

theorem witness_args_ok : argsOk witnessProg.params [Obj.none] = true := by
  simp [argsOk, witnessProg, mem, Obj.same, Obj.tag, Obj.pyEq]
theorem witness_flag : (infer witnessProg).flags.litEq = true := by decide +kernel
theorem witness_unsound : soundOnK witnessProg [Obj.none] = false := by decide +kernel

/-! ## The exception class `loopCarriedLiteral` (`loopNotFix`) is real

```python
def f():
    t = ()
    for x in (2, 3, 5):
        t = (t,)
    return t
```
The read of `t` in the loop body is inferred from the definitions of the two collecting visits:
`Literal[()] | Literal[(((),),)]`; in the second iteration it is `((),)`. -/
def witnessLoop : Prog :=
  { params := [],
    body := [.assign 0 (.disp false []),
             .forS 1 (.disp false [.lit (.int 2), .lit (.int 3), .lit (.int 5)]) [.assign 0 (.disp false [.var 0])],
             .ret (.var 0)] }

theorem witnessLoop_flag : (infer witnessLoop).flags.loopNotFix = true := by decide +kernel
theorem witnessLoop_unsound : soundOnK witnessLoop [] = false := by decide +kernel

/-- **Witness for `loopCarriedLiteral`:** the full statement is false on a loop whose body updates a variable from its
own previous value. -/
theorem loopCarried_witness : ¬ InferSound (fun _ _ => none) witnessLoop := fun h => by
  have := soundOnK_of_InferSound witnessLoop [] h (by simp [argsOk, witnessLoop])
  rw [witnessLoop_unsound] at this
  cases this

/-- the counter: ```python
def f():
    n = 0
    for x in (2, 3):
        n += 1
    return n          # inferred Literal[1] | Literal[3]; really 2
``` -/
def witnessCounter : Prog :=
  { params := [],
    body := [.assign 0 (.lit (.int 0)),
             .forS 1 (.disp false [.lit (.int 2), .lit (.int 3)]) [.aug 0 (.lit (.int 1))],
             .ret (.var 0)] }

theorem witnessCounter_flag : (infer witnessCounter).flags.loopNotFix = true := by decide +kernel
theorem witnessCounter_unsound : soundOnK witnessCounter [] = false := by decide +kernel

/-- **Second witness for `loopCarriedLiteral`:** a literal counter. -/
theorem loopCounter_witness : ¬ InferSound (fun _ _ => none) witnessCounter := fun h => by
  have := soundOnK_of_InferSound witnessCounter [] h (by simp [argsOk, witnessCounter])
  rw [witnessCounter_unsound] at this
  cases this

/-- **Witness for `literalEqMerge`:** the full statement is false. -/
theorem literalEqMerge_witness : ¬ InferSound (fun _ _ => none) witnessProg := fun h => by
  have := soundOnK_of_InferSound witnessProg [Obj.none] h witness_args_ok
  rw [witness_unsound] at this
  cases this

/-! ## The hypotheses are satisfiable by non-trivial programs

```python
def g(x: Literal[5, None], t: tuple[int, str]):
    y = x if x is not None else 0
    u = (y, t[1])
    if x is None:
        z = u[1]
    else:
        return t[0]
    return [z, y][0]
``` -/
def exProg : Prog :=
  { params := [.union [.known (.int 5), .known .none], .seq C.tuple [.typed C.int, .typed C.str]],
    body := [.assign 2 (.ite (.isNone 0 false) (.var 0) (.lit (.int 0))),
             .assign 3 (.disp false [.var 2, .sub (.var 1) 1]),
             .ifs (.isNone 0 true) [.assign 4 (.sub (.var 3) 1)] [.ret (.sub (.var 1) 0)],
             .ret (.sub (.disp true [.var 4, .var 2]) 0)] }

/-- ```python
def g2(t: tuple[int, str], x: Literal[5, None]):
    a, b = t
    c, d = (a, h1(x))          # h1: (object) -> Optional[str]
    return [b, d][1] if x is None else h0(c)   # h0: (object) -> int
``` -/
def exProg2 : Prog :=
  { params := [.seq C.tuple [.typed C.int, .typed C.str], .union [.known (.int 5), .known .none]],
    rets := [.typed C.int, .union [.typed C.str, .known .none]],
    body := [.unpack [2, 3] (.var 0),
             .unpack [4, 5] (.disp false [.var 2, .call 1 [.var 1]]),
             .ret (.ite (.isNone 1 true) (.sub (.disp true [.var 3, .var 5]) 1) (.call 0 [.var 4]))] }

example : (infer exProg2).flags.none = true := by decide +kernel
example (impl : Impl) (h : ImplOk impl exProg2.rets) : InferSound impl exProg2 :=
  infer_sound_partial impl exProg2 h (by decide +kernel)

/-- ```python
def g3(xs: list[int], t: tuple[int, str]):
    y = t[0]
    for x in xs:
        z = (x, y)      # reads the loop-carried y: its definitions before the loop and at the end of the body
        y = x
    return [y]
``` -/
def exProg3 : Prog :=
  { params := [.generic C.list [.typed C.int], .seq C.tuple [.typed C.int, .typed C.str]],
    body := [.assign 2 (.sub (.var 1) 0),
             .forS 3 (.var 0) [.assign 4 (.disp false [.var 3, .var 2]), .assign 2 (.var 3)],
             .ret (.disp true [.var 2])] }

example : (infer exProg3).flags.none = true := by decide +kernel
example (impl : Impl) : InferSound impl exProg3 :=
  infer_sound_partial impl exProg3 (fun f os r _ => by simp [exProg3, mem]) (by decide +kernel)

/-- a counter with non-literal increments IS covered (the inferred `int` is a fixed point): ```python
def g4(xs: list[int], s: str):
    n = 0
    for x in xs:
        n += x
        s += "a"
    return (n + 1, s)
``` -/
def exProg4 : Prog :=
  { params := [.generic C.list [.typed C.int], .typed C.str],
    body := [.assign 2 (.lit (.int 0)),
             .forS 3 (.var 0) [.aug 2 (.var 3), .aug 1 (.lit (.str "a"))],
             .ret (.disp false [.add (.var 2) (.lit (.int 1)), .var 1])] }

example : (infer exProg4).flags.none = true := by decide +kernel
example (impl : Impl) : InferSound impl exProg4 :=
  infer_sound_partial impl exProg4 (fun f os r _ => by simp [exProg4, mem]) (by decide +kernel)

example : (infer exProg).flags.none = true := by decide +kernel
theorem exProg_args_ok : argsOk exProg.params [.none, .tuple [.int 3, .str "b"]] = true := by
  simp [argsOk, exProg, mem, memAny, memSeq, matchSeq, clsOf, Obj.same, Obj.tag, Obj.pyEq]
  decide +kernel
example : (exec (fun _ _ => none) exProg [.none, .tuple [.int 3, .str "b"]]).2.length = 12 := by decide +kernel
example (impl : Impl) : InferSound impl exProg :=
  infer_sound_partial impl exProg (fun f os r _ => by simp [exProg, mem]) (by decide +kernel)


/-! ## Composite variables: assigning to a prefix forgets every composite below it

`Core/Composite.lean` models the bookkeeping of `x[k1][k2]` / `x.a.b` in `FunctionScope` (`_add_composite`, `set`). The
bounds of the loop in `_add_composite` are regenerated from the live source on every run
(`Generated/CompositeBounds.lean`); the theorems below are stated about the regenerated bounds, so a change of the loop
breaks `composite_bounds_ok` (and with it the build) before any program is run. -/

/-- the loop is `for i in range(1, len(varname.attributes))` -/
theorem composite_bounds_ok : addCompositeLo = 1 ∧ addCompositeHiOff = 0 := by decide

/-- **Every proper prefix is recorded.** A composite of any depth is recorded under each of its proper prefixes — the
root, the parent, the grand-parent, … (full strength, all paths). -/
theorem composite_recorded_under_every_prefix (c p : CPath) (h : properPrefix p c = true) :
    p ∈ recordedUnder addCompositeLo addCompositeHiOff c := by
  rw [composite_bounds_ok.1, composite_bounds_ok.2]
  exact recorded_under_proper_prefix c p h

/-- **Invalidation invariant** (full strength): in a state in which every live composite is recorded as
`_add_composite` records it, `FunctionScope.set` on `p` leaves no live composite that has `p` as a proper prefix, at
every depth. Well-formedness holds initially and is preserved by narrowing / stores (`touch`) and by assignments. -/
theorem composite_assign_invalidates (st : CompState) (p c : CPath)
    (h : st.wf addCompositeLo addCompositeHiOff) (hp : properPrefix p c = true) :
    c ∉ (st.assign addCompositeLo addCompositeHiOff p).live := by
  rw [composite_bounds_ok.1, composite_bounds_ok.2] at h ⊢
  exact assign_invalidates st p c h hp

theorem composite_wf_preserved (st : CompState) (c : CPath) (h : st.wf addCompositeLo addCompositeHiOff) :
    (st.touch addCompositeLo addCompositeHiOff c).wf addCompositeLo addCompositeHiOff ∧
    (st.assign addCompositeLo addCompositeHiOff c).wf addCompositeLo addCompositeHiOff :=
  ⟨wf_touch _ _ st c h, wf_assign _ _ st c h⟩

/-- the loop bound matters: with `range(1, len - 1)` the immediate parent is not a recorded prefix, and an assignment to
`x[0]` leaves the narrowing of `x[0][1]` alive -/
theorem composite_bound_witness :
    [0] ∉ recordedUnder 1 1 [0, 1] ∧
    [0, 1] ∈ (((⟨[], []⟩ : CompState).touch 1 1 [0, 1]).assign 1 1 [0]).live := by decide

example : ((⟨[], []⟩ : CompState).touch addCompositeLo addCompositeHiOff [0, 1]).wf addCompositeLo addCompositeHiOff :=
  wf_touch _ _ _ _ (wf_empty _ _)
example : [0, 1] ∉ (((⟨[], []⟩ : CompState).touch addCompositeLo addCompositeHiOff [0, 1]).assign
    addCompositeLo addCompositeHiOff [0]).live :=
  composite_assign_invalidates _ [0] [0, 1] (wf_touch _ _ _ _ (wf_empty _ _)) (by decide)

/-! ## chained comparisons as tests (`Core/CmpChain.lean`)

`visit_Compare` builds the conjunction of the constraints of ALL links of `e0 op1 e1 op2 e2 …`, the non-narrowing ones
(`NULL_CONSTRAINT`) included. The model (`Chain.Test`: chains of links under `not`; variables ranging over unions of
int / str / None literals) is compared with what pyanalyze infers in both branches of generated `if` statements
(stream `chain`), its run-time reading with CPython (stream `chainEval`). -/

open Chain in
/-- **Both branches are sound** (full strength, every test of the chain fragment): if the run-time values of the
variables are in the scope before the test, they are in the scope of the branch that is taken — the `if`-branch when
the test is true, the `else`-branch (also: the body of `while not …`, the code after `assert`-failure paths) when it is
false. `ω` gives the truth values of the links that narrow nothing. -/
theorem chain_branches_sound (ρ : Chain.Var → Lit) (ω : Nat → Bool) (sc : Chain.Scope) (t : Chain.Test)
    (hs : sc.has ρ) :
    (t.eval ρ ω = true → (t.branches sc).1.has ρ) ∧ (t.eval ρ ω = false → (t.branches sc).2.has ρ) :=
  branches_sound ρ ω sc t hs

open Chain in
/-- a chain with a link that narrows nothing (`x < hi`, `f(x) == 1`) leaves the scope of its else-branch as it was:
the chain may have failed because of that link alone -/
theorem chain_else_unchanged_of_opaque_link (sc : Chain.Scope) (ls : List Link) (h : Link.opaque ∈ ls) :
    ((Chain.Test.chain ls).branches sc).2 = sc :=
  chain_else_unchanged sc ls h

open Chain in
/-- the non-narrowing links must stay in the conjunction: without them (`chainConDropNull`) the else-branch of
`0 < x < hi` with `x : Literal[0, 1]` is narrowed to `Literal[0]`, although `x = 1`, `hi = 1` takes that branch -/
theorem chain_drop_null_witness :
    let links := [Link.narrowing 0 (.ord .gt (.int 0)) true, Link.opaque]
    let sc : Chain.Scope := [(0, [.int 0, .int 1])]
    let ρ : Chain.Var → Lit := fun _ => .int 1
    let ω : Nat → Bool := fun _ => false
    sc.has ρ ∧ (Chain.Test.chain links).eval ρ ω = false ∧
    narrow sc (chainConDropNull links).invert.apply = [(0, [.int 0])] ∧
    ((Chain.Test.chain links).branches sc).2 = sc := by
  refine ⟨?_, by decide, by decide, by decide⟩
  intro e he
  simp only [List.mem_singleton] at he
  subst he
  decide

end Pya.C01
