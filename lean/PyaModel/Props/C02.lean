import PyaModel.Proofs.C02
import PyaModel.Generated.ClassTable
import PyaModel.Generated.NarrowTables
import PyaModel.Spec.NarrowSites
/-!
# Props/C02 — narrowing never loses the actual value and never widens

Property theorems only. Model: `Pya.C02.narrow` (Core/Narrow.lean: `constrain_value` with the
constraint the checker builds for the condition, the else branch with its inverse). Spec:
`holds` (Python's meaning of the test on an object), `mem` (membership of an object in a type),
`tested` (the type the test asks for) — Spec/NarrowSpec.lean, Spec/Mem.lean.
-/
set_option linter.unusedSimpArgs false
namespace Pya.C02

/-- Obligation over the regenerated tables (re-checked by the kernel on every run): `bool` and the
Enum classes of the universe have no other class below them, are reflexive and are neither user /
builtin classes nor metaclasses as required; `_get_type_boolability` only answers erroring /
boolable / type_always_true. -/
theorem liveTables_ok : narrowLaws liveTable liveBool = true := by decide +kernel

/-- **C02 (the actual value is never lost), full-strength statement** — false of the pinned
pyanalyze, see the witnesses below. For every well-formed value `V`, every condition of the fragment,
both polarities and every object of `V` within the quantifier's side conditions: if the condition
evaluates to `pol` on the object, the object belongs to the type inferred in that branch. -/
def NarrowKeeps (tbl : ClassTable) (T : BoolTable) : Prop :=
  ∀ (V : Ty) (c : Cond) (pol : Bool) (o : Obj),
    valueOk V = true → condOk tbl c o = true → condWf tbl c = true → objOk tbl T o = true →
    mem tbl o V = true → holds tbl c o = pol → mem tbl o (narrow tbl T V c pol) = true

/-- **C02 outside the exception classes.** For all tables satisfying `narrowLaws`, every flat value
`V`, every condition kind (isinstance, issubclass, is / is not, == / !=, in / not in, truthiness,
`len` comparisons in both operand orders, TypeIs, TypeGuard, class pattern, assert_is_instance, assert_is), both polarities
and every object `o ∈ V` on which the test is defined (`condOk`): if the test evaluates to `pol` on
`o` and the input is in none of the exception classes (`d02 … = []`: `noIntersection`, `promote`,
`acceptsNonMember`, `literalInexact`, `alwaysTrueWrong`, `promoteIsValue`, `reversedLenCompare`; on the live tables
`alwaysTrueWrong` is empty, see `alwaysTrueWrong_absent_live`), then `o` belongs to the narrowed type
of the branch taken. No bound on the size of `V`, of the literals or of the object. -/
theorem narrow_keeps_partial (tbl : ClassTable) (T : BoolTable) (hL : narrowLaws tbl T = true)
    (V : Ty) (c : Cond) (pol : Bool) (o : Obj)
    (hV : valueOk V = true) (hc : condOk tbl c o = true) (hw : condWf tbl c = true)
    (ho : objOk tbl T o = true) (hD : d02 tbl T V c pol o = [])
    (hm : mem tbl o V = true) (hh : holds tbl c o = pol) :
    mem tbl o (narrow tbl T V c pol) = true :=
  narrow_keeps_core (nlaws_of tbl T hL) hV hc hw ho hD hm hh

/-- The same for the tables regenerated from the live tree. -/
theorem narrow_keeps_live (V : Ty) (c : Cond) (pol : Bool) (o : Obj)
    (hV : valueOk V = true) (hc : condOk liveTable c o = true) (hw : condWf liveTable c = true)
    (ho : objOk liveTable liveBool o = true) (hD : d02 liveTable liveBool V c pol o = [])
    (hm : mem liveTable o V = true) (hh : holds liveTable c o = pol) :
    mem liveTable o (narrow liveTable liveBool V c pol) = true :=
  narrow_keeps_partial liveTable liveBool liveTables_ok V c pol o hV hc hw ho hD hm hh

/-- **Narrowing never widens** — full strength: whatever the value, the condition and the
polarity, every object of the narrowed type belongs to the original type or to the tested type. -/
theorem narrow_no_widen (tbl : ClassTable) (T : BoolTable) (hL : narrowLaws tbl T = true)
    (V : Ty) (c : Cond) (pol : Bool) (o : Obj) (hw : condWf tbl c = true)
    (h : mem tbl o (narrow tbl T V c pol) = true) :
    mem tbl o V = true ∨ mem tbl o (tested c) = true :=
  narrow_no_widen_core (nlaws_of tbl T hL) hw h

/-- Obligation over the regenerated tables: no class that `_get_type_boolability` calls "always
true" has a class with falsy instances below it (holds since /repo c376956; before it `Hashable`,
`Iterable` and `Container` violated it). -/
theorem liveTables_noLeak : noLeakTable liveTable liveBool = true := by decide +kernel

/-- **A verdict "always true" is right for every object of the type** (`value_always_true`,
`value_always_true_mutable`, `type_always_true`: the three classes `is_safely_true` accepts and the
negative truthiness branch removes) — for every value over tables in which no always-true class has a
class with falsy instances below it (a decidable table-level hypothesis). -/
theorem always_true_sound (tbl : ClassTable) (T : BoolTable) (hN : noLeakTable tbl T = true)
    (V : Ty) (o : Obj) (hb : (getBool tbl T V).safelyTrue = true) (hm : mem tbl o V = true) :
    truthy o = true :=
  always_true_core hb (verdictLeak_false_of_noLeak hN V) hm

/-- **Full strength on the live tables**: every "always true" verdict of the modelled
`get_boolability` is right for every member object, for all values. -/
theorem always_true_sound_live (V : Ty) (o : Obj)
    (hb : (getBool liveTable liveBool V).safelyTrue = true) (hm : mem liveTable o V = true) :
    truthy o = true :=
  always_true_sound liveTable liveBool liveTables_noLeak V o hb hm

/-- The per-value form for arbitrary tables: only the members of `V` need to be free of the leak
(`verdictLeak`, the table-level form of class `alwaysTrueWrong`). -/
theorem always_true_sound_partial (tbl : ClassTable) (T : BoolTable) (V : Ty) (o : Obj)
    (hb : (getBool tbl T V).safelyTrue = true) (hD : verdictLeak tbl T V = false)
    (hm : mem tbl o V = true) : truthy o = true :=
  always_true_core hb hD hm

/-- On tables without such a leak no input falls in the exception class `alwaysTrueWrong` … -/
theorem alwaysTrueWrong_absent (tbl : ClassTable) (T : BoolTable) (hN : noLeakTable tbl T = true)
    (V : Ty) (c : Cond) (pol : Bool) (o : Obj) (hV : valueOk V = true) :
    "alwaysTrueWrong" ∉ d02 tbl T V c pol o :=
  alwaysTrueWrong_absent_core hN hV

/-- … in particular on the live tables: the class is empty there (repaired by /repo c376956). -/
theorem alwaysTrueWrong_absent_live (V : Ty) (c : Cond) (pol : Bool) (o : Obj)
    (hV : valueOk V = true) : "alwaysTrueWrong" ∉ d02 liveTable liveBool V c pol o :=
  alwaysTrueWrong_absent liveTable liveBool liveTables_noLeak V c pol o hV

/-- **A verdict "always false" is right for every object of the type** — full strength; stated for
`value_always_false` (the only class `is_safely_false` accepts and the positive truthiness branch
removes) and for the mutable class `value_always_false_mutable`, which the code deliberately does
not narrow on. -/
theorem always_false_sound (tbl : ClassTable) (T : BoolTable) (hL : narrowLaws tbl T = true)
    (V : Ty) (o : Obj)
    (hb : getBool tbl T V = .vaFalse ∨ getBool tbl T V = .vaFalseMut)
    (hm : mem tbl o V = true) : truthy o = false :=
  always_false_core (nlaws_of tbl T hL) hb hm

/-! ## Singleton patterns (`case None` / `case True` / `case False`) and `is` tests

A singleton pattern is an *identity* test: the `==`/`!=` exemption of the property's quantifier does
not apply to it (`condOk` only asks that the literal is a singleton). -/

/-- **The negated branch of an identity test is sound at full strength**: for every value and every
object of it that is not the singleton, the object stays in the type inferred for `x is not l` /
for the cases after `case l:` — whatever `==`-equal literals of other types (`1` vs `True`, `0` vs
`False`) the value contains. No exception class. -/
theorem singleton_neg_keeps (tbl : ClassTable) (T : BoolTable) (hL : narrowLaws tbl T = true)
    (V : Ty) (l o : Obj) (hV : valueOk V = true) (hs : isSingleton tbl l = true)
    (hw : l.wf tbl = true) (ho : objOk tbl T o = true)
    (hm : mem tbl o V = true) (hh : Obj.same o l = false) :
    mem tbl o (narrow tbl T V (.is l) false) = true := by
  apply narrow_keeps_partial tbl T hL V (.is l) false o hV _ hw ho _ hm (by simpa [holds] using hh)
  · simpa [condOk, Cond.literals] using hs
  · simp [d02, dCond, dK, Cond.kAt, Cond.k, K.invert]

/-- **The positive branch of an identity test** keeps the singleton unless a non-literal member that
contains it does not accept it (class `literalInexact`, the only exception). -/
theorem singleton_pos_keeps (tbl : ClassTable) (T : BoolTable) (hL : narrowLaws tbl T = true)
    (V : Ty) (l : Obj) (hV : valueOk V = true) (hs : isSingleton tbl l = true)
    (hw : l.wf tbl = true) (ho : objOk tbl T l = true)
    (hD : d02 tbl T V (.is l) true l = []) (hm : mem tbl l V = true) :
    mem tbl l (narrow tbl T V (.is l) true) = true := by
  apply narrow_keeps_partial tbl T hL V (.is l) true l hV _ hw ho hD hm (by simp [holds, Obj.same_refl])
  simpa [condOk, Cond.literals] using hs

/-- **Whole `match` statements with singleton patterns**: for every statement whose patterns are
`None` / `True` / `False` / `_` (any number, any order), every subject type whose non-literal members
accept the singleton literals they contain (`singOk`, the absence of `literalInexact` for these three
literals) and every object of it: the object belongs to the type inferred for the subject in the body
of the case that really runs, or on the fall-through path if no case matches
(`firstMatch` = CPython's identity semantics: `1` does not match `case True`). -/
theorem match_singletons_sound (tbl : ClassTable) (T : BoolTable) (hL : narrowLaws tbl T = true)
    (V : Ty) (ps : List Pat) (o : Obj) (hp : singlePats ps = true) (hV : singOk tbl V = true)
    (ho : objOk tbl T o = true) (hm : mem tbl o V = true) :
    mem tbl o (matchBody tbl T V ps (firstMatch tbl ps o)) = true :=
  match_singletons_core (nlaws_of tbl T hL) hp hV ho hm

/-- The model distinguishes identity patterns from value patterns: on `Literal[1, "a"]` the cases
after `case True:` (identity) still contain `1`, whereas the `!=` reading — what a value pattern
`== True` does, and what is exempted there by the quantifier — removes it. -/
theorem singleton_is_not_value :
    matchBody liveTable liveBool (.union [.known (.int 1), .known (.str "a")])
      [.singleton (.bool true), .wildcard] 1 = .union [.known (.int 1), .known (.str "a")] ∧
    matchBody liveTable liveBool (.union [.known (.int 1), .known (.str "a")])
      [.value (.bool true), .wildcard] 1 = .known (.str "a") ∧
    firstMatch liveTable [.singleton (.bool true), .wildcard] (.int 1) = 1 := by
  refine ⟨?_, ?_, ?_⟩
  · simp [matchBody, caseKs, Pat.negKs, Pat.ac, Cond.k, AC.mkAnd, spliceAnd, absorbAnd, hasNull, AC.isNull, AC.invert, K.invert, AC.apply,
      constrainKs, flatten1, applySeq, applyK, applyPred, unann, Obj.same, Obj.tag, unite, dedup, dictMem,
      Ty.hashEq, Ty.beq, Obj.hashable, Obj.pyEq]
  · simp [matchBody, caseKs, Pat.negKs, Pat.ac, Cond.k, AC.mkAnd, spliceAnd, absorbAnd, hasNull, AC.isNull, AC.invert, K.invert, AC.apply,
      constrainKs, flatten1, applySeq, applyK, applyPred, unann, Obj.pyEq, unite, dedup, dictMem]
  · simp [firstMatch, Pat.matches, Obj.same, Obj.tag]

/-- non-vacuity of `match_singletons_sound`: `int | None | Literal[True]` with
`case True: … case None: … case _:` and the subject `1` (which only the wildcard takes) -/
example : singlePats [.singleton (.bool true), .singleton .none, .wildcard] = true := by decide +kernel
example : singOk liveTable (.union [.typed C.int, .known .none, .known (.bool true)]) = true := by
  have h1 : liveTable.nominalK false C.int C.none = false := by decide +kernel
  have h2 : liveTable.issub C.none C.int = false := by decide +kernel
  have h3 : liveTable.nominalK false C.int C.bool = true := by decide +kernel
  have h4 : sub liveTable C.none C.int = false := by decide +kernel
  have h5 : sub liveTable C.bool C.int = true := by decide +kernel
  simp [singOk, flatten1, singOkM, unann, singles, mem, clsOf, ca, typedCA, h1, h2, h3, h4, h5]
example : firstMatch liveTable [.singleton (.bool true), .singleton .none, .wildcard] (.int 1) = 2 := by
  simp [firstMatch, Pat.matches, Obj.same, Obj.tag]

/-! ## Comparisons with the literal on the left: `n <op> len(x)` -/

/-- `liveBool` with the regenerated flag `lenRevMirrored` set to `b` -/
def liveBoolWith (b : Bool) : BoolTable := { liveBool with lenRevMirrored := b }

theorem liveBool_eq : liveBool = liveBoolWith liveBool.lenRevMirrored := rfl

/-- `tuple[int] | tuple[int, int, int]` -/
def exLenV : Ty := .union [.seq C.tuple [.typed C.int], .seq C.tuple [.typed C.int, .typed C.int, .typed C.int]]

/-- class `reversedLenCompare` (the code as long as it does not mirror the operator): `2 < len(x)`
is true for `(1, 1, 1)`, but the if branch is inferred `tuple[int]` — the constraint is the one of
`len(x) < 2`. -/
theorem reversedLen_witness :
    mem liveTable (.tuple [.int 1, .int 1, .int 1]) exLenV = true ∧
    holds liveTable (.lenRev .lt 2) (.tuple [.int 1, .int 1, .int 1]) = true ∧
    narrow liveTable (liveBoolWith false) exLenV (.lenRev .lt 2) true = .seq C.tuple [.typed C.int] ∧
    d02 liveTable (liveBoolWith false) exLenV (.lenRev .lt 2) true (.tuple [.int 1, .int 1, .int 1])
      = ["reversedLenCompare"] := by
  have h1 : sub liveTable C.tuple C.tuple = true := by decide +kernel
  have h2 : sub liveTable C.int C.int = true := by decide +kernel
  have h3 : (liveBoolWith false).isMutable C.tuple = false := by decide +kernel
  have hm : mem liveTable (.tuple [.int 1, .int 1, .int 1]) exLenV = true := by
    simp [exLenV, mem, memAny, memSeq, matchSeq, clsOf, h1, h2]
  have h4 : (liveBoolWith false).lenRevMirrored = false := rfl
  refine ⟨hm, by simp [holds, objLen, CmpOp.eval], ?_, ?_⟩
  · simp [narrow, exLenV, Cond.k, h3, h4, constrainKs, flatten1, applySeq, applyK, applyPred, lenOfValue,
      hasManyMember, CmpOp.eval, unite, dedup, dictMem]
  · simp [d02, dCond, objLen, CmpOp.eval, h4, exLenV, flatten1, mem, memSeq, matchSeq, clsOf, h1, h2, dK,
      Cond.kAt, Cond.k]

/-- … and the behaviour once the operator is mirrored (`Lt ↔ Gt`, `LtE ↔ GtE`): the if branch is
`tuple[int, int, int]` and the input is in no exception class. -/
theorem reversedLen_fixed :
    narrow liveTable (liveBoolWith true) exLenV (.lenRev .lt 2) true
      = .seq C.tuple [.typed C.int, .typed C.int, .typed C.int] ∧
    d02 liveTable (liveBoolWith true) exLenV (.lenRev .lt 2) true (.tuple [.int 1, .int 1, .int 1]) = [] := by
  have h1 : sub liveTable C.tuple C.tuple = true := by decide +kernel
  have h2 : sub liveTable C.int C.int = true := by decide +kernel
  have h3 : (liveBoolWith true).isMutable C.tuple = false := by decide +kernel
  have h4 : (liveBoolWith true).lenRevMirrored = true := rfl
  refine ⟨?_, ?_⟩
  · simp [narrow, exLenV, Cond.k, h3, h4, CmpOp.mirror, constrainKs, flatten1, applySeq, applyK, applyPred,
      lenOfValue, hasManyMember, CmpOp.eval, unite, dedup, dictMem]
  · simp [d02, dCond, objLen, h4, exLenV, flatten1, mem, memSeq, matchSeq, clsOf, h1, h2, dK,
      Cond.kAt, Cond.k]

/-- On tables whose code mirrors the operator the class `reversedLenCompare` is empty (so
`narrow_keeps_partial` needs no exception for comparisons with the literal on the left). -/
theorem reversedLen_absent (T : BoolTable) (h : T.lenRevMirrored = true) (c : Cond) (o : Obj) :
    dCond T c o = [] := by
  unfold dCond
  cases c <;> simp only [h, Bool.not_true, Bool.false_and, Bool.false_eq_true, if_false]
  split <;> rfl

/-! ## Every condition of the grammar: `and` / `or` / `not` over atoms on the narrowed variable, atoms
on other variables and opaque operands -/

/-- **The ideal constraint algebra is sound for every condition of the grammar**, under every
valuation of the opaque bits and every object of the other variable (`ρ`): if every atom on the
narrowed variable, taken in the polarity it has for the object (`holds`), is a constraint that keeps
the object (what `narrow_keeps_partial` establishes per atom), then whenever the whole condition
evaluates to `pol` in state `ρ`, the object belongs to the type inferred in that branch. Trees of any
depth; `NULL` (opaque operand) and constraints on other variables are the unit of AND and absorbing
for OR; the `NULL`-absorption rules of `AndConstraint.make` / `OrConstraint.make` are included. -/
theorem narrowBIdeal_keeps (tbl : ClassTable) (T : BoolTable) (ρ : Env) (V : Ty) (b : BCond) (pol : Bool)
    (o : Obj) (hleaf : ∀ c ∈ b.leaves, KeepsK tbl T (c.kAt T (holds tbl c o)) o)
    (hm : mem tbl o V = true) (hh : holdsB tbl ρ b o = pol) :
    mem tbl o (narrowBIdeal tbl T V b pol) = true :=
  narrowBIdeal_keeps_core hleaf hm hh

/-- **The constraint the checker extracts from the value of the condition** (`narrowB`: with the
member values of `and` / `or` expressions read back by `extract_constraints`) keeps the object in the
branch taken for every condition of the grammar and every valuation — outside the exception class
`nullAbsorbLeak` (decidable: the extracted constraint narrows `V` like the ideal one in both
branches). -/
theorem narrowB_keeps_partial (tbl : ClassTable) (T : BoolTable) (ρ : Env) (V : Ty) (b : BCond)
    (pol : Bool) (o : Obj) (hleaf : ∀ c ∈ b.leaves, KeepsK tbl T (c.kAt T (holds tbl c o)) o)
    (hD : nullAbsorbLeak tbl T V b = [])
    (hm : mem tbl o V = true) (hh : holdsB tbl ρ b o = pol) :
    mem tbl o (narrowB tbl T V b pol) = true :=
  narrowB_keeps_core hleaf hD hm hh

/-- **`A or <operand without constraint>` narrows nothing**: a disjunction one of whose operands is
opaque activates no constraint at all on the variable, whatever the other operands are — the positive
branch keeps the declared type. -/
theorem or_with_opaque_narrows_nothing (T : BoolTable) (bs : List BCond) (i : Nat)
    (h : BCond.opaque i ∈ bs) : ((BCond.or bs).acIdeal T).apply = [] := by
  simp only [BCond.acIdeal, acL_eq_map]
  exact mkOr_null_apply _ (List.mem_map.mpr ⟨_, h, rfl⟩)

/-- … so `x: int | None`, `if x is None or flag():` leaves `x: int | None` in the body (the object
`5` enters it when `flag()` is true), while the else branch is `int` — for the extracted constraint
too, and the same with an atom on another variable instead of `flag()`. -/
theorem or_opaque_example :
    narrowB liveTable liveBool (.union [.typed C.int, .known .none])
      (.or [.leaf (.is .none), .opaque 0]) true = .union [.typed C.int, .known .none] ∧
    holdsB liveTable { bits := [true] } (.or [.leaf (.is .none), .opaque 0]) (.int 5) = true ∧
    narrowB liveTable liveBool (.union [.typed C.int, .known .none])
      (.or [.leaf (.is .none), .opaque 0]) false = .typed C.int ∧
    narrowB liveTable liveBool (.union [.typed C.int, .known .none])
      (.or [.leaf (.is .none), .other .truthy]) true = .union [.typed C.int, .known .none] := by
  have h1 : liveTable.nominalK false C.int C.none = false := by decide +kernel
  have h2 : liveTable.issub C.none C.int = false := by decide +kernel
  refine ⟨?_, by simp [holdsB, holdsAny, holds, Obj.same, Obj.tag], ?_, ?_⟩
  · simp [narrowB, constrain, BCond.ac, BCond.cv, BCond.flatL, CVal.ext, CVal.flat, AC.isNull, AC.mkOr, spliceOr,
      absorbOr, dedupNull, hasNull, AC.apply, AC.groups, constrainKs, flatten1, applySeq, unite, dedup, dictMem, Ty.hashEq,
      Ty.beq, Obj.hashable]
  · simp [narrowB, constrain, BCond.ac, BCond.cv, BCond.flatL, CVal.ext, CVal.flat, AC.isNull, AC.mkOr, spliceOr,
      absorbOr, dedupNull, hasNull, AC.invert, AC.invertL, AC.apply, AC.applyL, Cond.k, K.invert, constrainKs, flatten1,
      applySeq, applyK, applyPred, unann, Obj.same, Obj.tag, Obj.pyEq, unite, dedup, dictMem]
  · simp [narrowB, constrain, BCond.ac, BCond.cv, BCond.flatL, CVal.ext, CVal.flat, AC.isNull, AC.mkOr, spliceOr,
      absorbOr, dedupNull, hasNull, AC.apply, AC.groups, constrainKs, flatten1, applySeq, unite, dedup, dictMem, Ty.hashEq,
      Ty.beq, Obj.hashable]

/-- `liveBool` with the regenerated flag `andValueLeaks` set to `b` -/
def liveBoolLeak (b : Bool) : BoolTable := { liveBool with andValueLeaks := b }

/-- class `nullAbsorbLeak` (the code as long as the member values of an `and` expression keep the
operands' constraint annotations): `x: int | None`, `if not (p() and (p() or x is None)):` — for `p()`
false the body runs with `x = None`, but the body is inferred `int`: the conjunction collapses to
`NULL` and `extract_constraints` reads `x is None` back from the member values as
`OR(NULL, x is None)`, whose inverse asserts `x is not None`. The ideal algebra narrows nothing. -/
theorem nullAbsorbLeak_witness :
    let b : BCond := .not (.and [.opaque 0, .or [.opaque 0, .leaf (.is .none)]])
    let V : Ty := .union [.typed C.int, .known .none]
    mem liveTable .none V = true ∧
    holdsB liveTable { bits := [false] } b .none = true ∧
    narrowB liveTable (liveBoolLeak true) V b true = .typed C.int ∧
    narrowBIdeal liveTable (liveBoolLeak true) V b true = V ∧
    nullAbsorbLeak liveTable (liveBoolLeak true) V b = ["nullAbsorbLeak"] := by
  have h1 : liveTable.nominalK false C.int C.none = false := by decide +kernel
  have h2 : liveTable.issub C.none C.int = false := by decide +kernel
  have h3 : (liveBoolLeak true).andValueLeaks = true := rfl
  have hn : narrowB liveTable (liveBoolLeak true) (.union [.typed C.int, .known .none])
      (.not (.and [.opaque 0, .or [.opaque 0, .leaf (.is .none)]])) true = .typed C.int := by
    simp [narrowB, constrain, BCond.ac, BCond.cv, BCond.flatL, BCond.extL, CVal.ext, CVal.flat, AC.isNull, AC.mkOr,
      AC.mkAnd, spliceOr, spliceAnd, absorbOr, absorbAnd, dedupNull, hasNull, AC.invert, AC.invertL, AC.apply,
      AC.applyL, Cond.k, K.invert, constrainKs, flatten1, applySeq, applyK, applyPred, unann, Obj.same, Obj.tag,
      Obj.pyEq, unite, dedup, dictMem, h3]
  have hi : narrowBIdeal liveTable (liveBoolLeak true) (.union [.typed C.int, .known .none])
      (.not (.and [.opaque 0, .or [.opaque 0, .leaf (.is .none)]])) true
        = .union [.typed C.int, .known .none] := by
    simp [narrowBIdeal, constrain, BCond.acIdeal, BCond.acIdealL, AC.isNull, AC.mkOr, AC.mkAnd, spliceOr, spliceAnd,
      absorbOr, absorbAnd, dedupNull, hasNull, AC.invert, AC.invertL, AC.apply, AC.applyL, AC.groups, constrainKs,
      flatten1, applySeq, unite, dedup, dictMem, Ty.hashEq, Ty.beq, Obj.hashable]
  refine ⟨by simp [mem, memAny, Obj.same, Obj.tag, Obj.pyEq], ?_, hn, hi, ?_⟩
  · simp [holdsB, holdsAll, holdsAny]
  · simp only [nullAbsorbLeak, hn, hi]
    simp [Ty.beq, Ty.beqList, Ty.subsetBy, Ty.memBy]

/-- … and once the member values are stripped (`andValueLeaks = false`) the same input narrows
nothing, like the ideal algebra. -/
theorem nullAbsorbLeak_fixed :
    narrowB liveTable (liveBoolLeak false) (.union [.typed C.int, .known .none])
      (.not (.and [.opaque 0, .or [.opaque 0, .leaf (.is .none)]])) true
        = .union [.typed C.int, .known .none] := by
  have h3 : (liveBoolLeak false).andValueLeaks = false := rfl
  simp [narrowB, constrain, BCond.ac, BCond.cv, BCond.flatL, BCond.extL, CVal.ext, CVal.flat, AC.isNull, AC.mkOr,
    AC.mkAnd, spliceOr, spliceAnd, absorbOr, absorbAnd, dedupNull, hasNull, AC.invert, AC.invertL, AC.apply,
    AC.applyL, AC.groups, constrainKs, flatten1, applySeq, unite, dedup, dictMem, Ty.hashEq, Ty.beq, Obj.hashable, h3]

/-! ## `match` statements with guards; the extracted constraint on trees without leak -/

/-- Obligation over the regenerated tables: the member values of an `and` expression do not carry the
operands' constraints any more (/repo ec8deb0), so `extract_constraints` cannot read them back. -/
theorem liveTables_noAndLeak : liveBool.andValueLeaks = false := by decide +kernel

/-- **The constraint the checker extracts from the value of a condition is sound for every tree of the
grammar** when `and` values do not leak (the live tree): atoms on the narrowed variable, on captures,
on other variables, opaque operands, `and`/`or`/`not` of any depth; every valuation of the opaque bits
and every object of the other variable. Full strength — no exception class beyond the atoms'. -/
theorem narrowB_keeps (tbl : ClassTable) (T : BoolTable) (hnl : T.andValueLeaks = false) (ρ : Env)
    (V : Ty) (b : BCond) (pol : Bool) (o : Obj) (hw : b.wfB = true)
    (hleaf : ∀ c ∈ b.leaves, KeepsK tbl T (c.kAt T (holds tbl c o)) o)
    (hm : mem tbl o V = true) (hh : holdsB tbl ρ b o = pol) :
    mem tbl o (narrowB tbl T V b pol) = true := by
  have hs := cv_sat (tbl := tbl) (ρ := ρ) (o := o) (G := fun k => KeepsK tbl T k o) hnl b hw hleaf
  unfold CvOk at hs
  unfold narrowB constrain BCond.ac
  apply constrainKs_keeps _ hm
  cases pol <;> simp only [hh, Bool.false_eq_true, if_false, if_true] at hs ⊢
  · exact sat_apply (fun _ h => h) _ hs.1
  · exact sat_apply (fun _ h => h) _ hs.1

/-- **`match` statements with guards**: for every statement whose patterns are `None` / `True` /
`False` / `_` (or a capture) and whose cases carry arbitrary guards of the grammar (atoms on the
subject, on a capture, on another variable, opaque operands, trees of them), every valuation of the
opaque bits `ρ` and every object of the subject type: the object belongs to the type inferred for the
subject in the body of the case that really runs — the first one whose pattern matches *and whose
guard is true* — or on the fall-through path. Hypotheses: no leak in `and` values, `singOk` (absence
of `literalInexact` for the three singleton literals), and the guards' atoms on the subject keep the
object (`GuardsOk`). Extends `match_singletons_sound`. -/
theorem match_guarded_sound (tbl : ClassTable) (T : BoolTable) (hL : narrowLaws tbl T = true)
    (hnl : T.andValueLeaks = false) (ρ : Env) (V : Ty) (cs : List MCase) (o : Obj)
    (hp : gsinglePats cs = true) (hV : singOk tbl V = true)
    (hg : GuardsOk tbl T (fun m => singOkM tbl m = true) o cs)
    (ho : objOk tbl T o = true) (hm : mem tbl o V = true) :
    mem tbl o (gmatchBody tbl T V cs (gfirstMatch tbl ρ cs o)) = true :=
  match_guarded_core (nlaws_of tbl T hL) hnl hp hg hV ho hm

/-- **A case with an opaque guard narrows nothing for the following cases and the code after the
statement**, whatever its pattern: `AndConstraint.make([pattern, NULL]).invert()` is
`OR(¬pattern, NULL)`, which applies nothing — an object that matched the pattern but failed the guard
flows on. -/
theorem guard_opaque_keeps_subject (T : BoolTable) (p : Pat) (i : Nat) :
    MCase.negKs T ⟨p, some (.opaque i)⟩ = [] := by
  simp only [MCase.negKs, MCase.acs, BCond.ac, BCond.cv, ext_eq, baseOf, AC.isNull, if_true]
  exact mkAnd_null_invert_apply _ (by simp)

/-- … e.g. `x: int | None`, `match x: case None if undecided(): … case _:` — the second case still
sees `int | None` (and `None` reaches it when the guard is false), whereas without the guard it sees
`int`. -/
theorem guard_opaque_example :
    gmatchBody liveTable liveBool (.union [.typed C.int, .known .none])
      [⟨.singleton .none, some (.opaque 0)⟩, ⟨.wildcard, none⟩] 1 = .union [.typed C.int, .known .none] ∧
    gfirstMatch liveTable { bits := [false] } [⟨.singleton .none, some (.opaque 0)⟩, ⟨.wildcard, none⟩] .none = 1 ∧
    gmatchBody liveTable liveBool (.union [.typed C.int, .known .none])
      [⟨.singleton .none, none⟩, ⟨.wildcard, none⟩] 1 = .typed C.int := by
  refine ⟨?_, by simp [gfirstMatch, MCase.takes, Pat.matches, holdsB, Obj.same_refl], ?_⟩
  · have h := guard_opaque_keeps_subject liveBool (.singleton .none) 0
    simp only [gmatchBody, gcaseKs, List.take, List.flatMap_cons, List.flatMap_nil, h]
    simp [MCase.posKs, MCase.acs, Pat.ac, AC.applyL, AC.apply, constrainKs, flatten1, applySeq, applyK, applyPred,
      unite, dedup, dictMem, Ty.hashEq, Ty.beq, Obj.hashable]
  · simp [gmatchBody, gcaseKs, MCase.negKs, MCase.posKs, MCase.acs, Pat.ac, Cond.k, AC.mkAnd, spliceAnd, absorbAnd,
      hasNull, AC.isNull, AC.invert, K.invert, AC.applyL, AC.apply, constrainKs, flatten1, applySeq, applyK,
      applyPred, unann, Obj.same, Obj.tag, Obj.pyEq, unite, dedup, dictMem]

/-- **Every place where constraints are combined or inverted is registered**: the list scanned from
the live source (`liveSites`: calls of `AndConstraint.make`, `OrConstraint.make`,
`EquivalentConstraint.make`, `.invert()`, `extract_constraints`, `constraint_from_condition`,
`add_constraint` in name_check_visitor.py / stacked_scopes.py / patma.py, by enclosing function and
number of calls) is contained in the registry `registeredSites`, which names for each site the stream
that reaches it with a `NULL_CONSTRAINT` operand at every position (or says that it is outside the
fragment: `uncoveredSites`). -/
theorem constraint_combination_sites_registered : liveSites.all siteRegistered = true := by
  decide +kernel

/-- the registered sites no stream exercises (explicitly outside the fragment) -/
theorem uncovered_sites :
    uncoveredSites =
      [("NameCheckVisitor.check_call", "AndConstraint.make"), ("NameCheckVisitor.check_call", "OrConstraint.make"),
       ("NameCheckVisitor.check_call", "add_constraint"), ("PatmaVisitor.visit_MatchClass", "AndConstraint.make"),
       ("PatmaVisitor.visit_MatchMapping", "AndConstraint.make"),
       ("PatmaVisitor.visit_MatchSequence", "AndConstraint.make")] := by
  decide +kernel

/-! ## Constraint algebra -/

/-- inverting a concrete constraint twice gives it back -/
theorem invert_invert (k : K) : k.invert.invert = k := K.invert_invert k

/-- inverting an abstract constraint twice gives it back (a `PredicateProvider` inverts to the null
constraint, so it is excluded) -/
theorem ac_invert_invert (a : AC) (h : a.noProvider = true) : a.invert.invert = a :=
  AC.invert_invert a h

/-- **AND is sound**: if every concrete constraint of every conjunct keeps the object (maps every
value containing it to a value containing it), `constrain_value` with the conjunction keeps it. -/
theorem and_make_sound (tbl : ClassTable) (T : BoolTable) (o : Obj) (V : Ty) (cs : List AC)
    (h : ∀ c ∈ cs, ∀ k ∈ c.apply, KeepsK tbl T k o) (hm : mem tbl o V = true) :
    mem tbl o (constrain tbl T V (.and cs)) = true :=
  and_keeps h hm

/-- **OR is sound**: an OR of constraints keeps every object that the constraints of *one*
disjunct keep. -/
theorem or_make_sound (tbl : ClassTable) (T : BoolTable) (o : Obj) (V : Ty) (cs : List AC)
    (h : ∃ c ∈ cs, ∀ k ∈ c.apply, KeepsK tbl T k o) (hm : mem tbl o V = true) :
    mem tbl o (constrain tbl T V (.or cs)) = true :=
  or_keeps h hm

/-- De Morgan, as the code implements it: `~(A and B) = ~A or ~B`, `~(A or B) = ~A and ~B`. -/
theorem invert_de_morgan (cs : List AC) :
    (AC.and cs).invert = .or (AC.invertL cs) ∧ (AC.or cs).invert = .and (AC.invertL cs) :=
  ⟨invert_and cs, invert_or cs⟩

/-! ## Witnesses: the full statement is false in each exception class (live tables)

Class ids of the live table: 0 `object`, 1 `int`, 2 `bool`, 3 `float`, 8 `tuple`, 9 `list`, 19 `Hashable`,
24 `B(A)`, 25 `Cc(A)`, 26 `D(B, Cc)`. The model functions are defined by well-founded recursion, so
the evaluations unfold the equation lemmas with `simp` and leave the closed table look-ups to
`decide +kernel`. -/

/-- class `promote`: `x: int`, `isinstance(x, float)` is false for `0`, but the else branch is
inferred `Never`. -/
theorem promote_witness :
    mem liveTable (.int 0) (.typed C.int) = true ∧
    holds liveTable (.isinst [C.float]) (.int 0) = false ∧
    narrow liveTable liveBool (.typed C.int) (.isinst [C.float]) false = Ty.never ∧
    d02 liveTable liveBool (.typed C.int) (.isinst [C.float]) false (.int 0) = ["promote"] := by
  have h1 : liveTable.nominal false C.float C.int = true := by decide +kernel
  have h2 : sub liveTable C.int C.int = true := by decide +kernel
  have h3 : sub liveTable C.int C.float = true := by decide +kernel
  have h4 : liveTable.issub C.int C.float = false := by decide +kernel
  refine ⟨by simp [mem, clsOf, h2], by simp [holds, clsOf, h4], ?_, ?_⟩
  · simp [narrow, constrainKs, Cond.k, K.invert, flatten1, applySeq, applyK, applyPred, unite, dedup,
      dictMem, unann, ca, typedCA, typOf, univAssignable, h1, Ty.never]
  · simp [d02, dCond, flatten1, mem, clsOf, h2, h3, dK, Cond.kAt, Cond.k, K.invert, tested, unite, dedup, dictMem,
      unann, ca, typedCA, typOf, univAssignable, h1]

/-- class `noIntersection`: `x: B`, `isinstance(x, Cc)` is true for an instance of `D(B, Cc)`, but
the if branch is inferred `Never`. -/
theorem noIntersection_witness :
    mem liveTable (.inst 26 0) (.typed 24) = true ∧
    holds liveTable (.isinst [25]) (.inst 26 0) = true ∧
    narrow liveTable liveBool (.typed 24) (.isinst [25]) true = Ty.never ∧
    d02 liveTable liveBool (.typed 24) (.isinst [25]) true (.inst 26 0) = ["noIntersection"] := by
  have h1 : liveTable.nominal false 25 24 = false := by decide +kernel
  have h2 : liveTable.nominal false 24 25 = false := by decide +kernel
  have h3 : sub liveTable 26 24 = true := by decide +kernel
  have h4 : liveTable.issub 26 25 = true := by decide +kernel
  refine ⟨by simp [mem, clsOf, h3], by simp [holds, clsOf, h4], ?_, ?_⟩
  · simp [narrow, constrainKs, Cond.k, flatten1, applySeq, applyK, applyPred, unite, dedup, dictMem,
      unann, ca, typedCA, typOf, overlapping, deliteral, h1, h2, Ty.never]
  · simp [d02, dCond, flatten1, mem, clsOf, h3, dK, Cond.kAt, Cond.k, unite, dedup, dictMem,
      unann, ca, typedCA, typOf, overlapping, deliteral, h1, h2]

/-- class `acceptsNonMember`: `x: object`, `isinstance(x, Hashable)` is false for `[]`, but
`Hashable` *accepts* `object` (which has a `__hash__`), so the else branch is inferred `Never`.
(The variant `x: list` — `list.__hash__` is `None` — is no longer accepted on the live tree.) -/
theorem acceptsNonMember_witness :
    mem liveTable (.list []) (.typed C.object) = true ∧
    holds liveTable (.isinst [19]) (.list []) = false ∧
    narrow liveTable liveBool (.typed C.object) (.isinst [19]) false = Ty.never ∧
    d02 liveTable liveBool (.typed C.object) (.isinst [19]) false (.list []) = ["acceptsNonMember"] := by
  have h1 : liveTable.nominal false 19 C.object = true := by decide +kernel
  have h2 : sub liveTable C.list C.object = true := by decide +kernel
  have h3 : sub liveTable C.list 19 = false := by decide +kernel
  have h4 : liveTable.issub C.list 19 = false := by decide +kernel
  refine ⟨by simp [mem, clsOf, h2], by simp [holds, clsOf, h4], ?_, ?_⟩
  · simp [narrow, constrainKs, Cond.k, K.invert, flatten1, applySeq, applyK, applyPred, unite, dedup,
      dictMem, unann, ca, typedCA, typOf, univAssignable, h1, Ty.never]
  · simp [d02, dCond, flatten1, mem, clsOf, h2, h3, dK, Cond.kAt, Cond.k, K.invert, tested, unite, dedup, dictMem,
      unann, ca, typedCA, typOf, univAssignable, h1]

/-- class `literalInexact` (the C03 finding `variadicTuple` seen through narrowing):
`x: tuple[int, *tuple[str, ...]]`, `x == (1, "a")` is true for `(1, "a")`, but the if branch is
inferred `Never`. -/
theorem literalInexact_witness :
    mem liveTable (.tuple [.int 1, .str "a"]) (.seq C.tuple [.typed C.int, .many (.typed C.str)]) = true ∧
    holds liveTable (.eq (.tuple [.int 1, .str "a"])) (.tuple [.int 1, .str "a"]) = true ∧
    narrow liveTable liveBool (.seq C.tuple [.typed C.int, .many (.typed C.str)])
      (.eq (.tuple [.int 1, .str "a"])) true = Ty.never ∧
    d02 liveTable liveBool (.seq C.tuple [.typed C.int, .many (.typed C.str)])
      (.eq (.tuple [.int 1, .str "a"])) true (.tuple [.int 1, .str "a"]) = ["literalInexact"] := by
  have h2 : sub liveTable C.tuple C.tuple = true := by decide +kernel
  have h3 : sub liveTable C.int C.int = true := by decide +kernel
  have h4 : sub liveTable C.str C.str = true := by decide +kernel
  have hm : mem liveTable (.tuple [.int 1, .str "a"]) (.seq C.tuple [.typed C.int, .many (.typed C.str)]) = true := by
    simp [mem, memSeq, matchSeq, clsOf, h2, h3, h4]
  refine ⟨hm, by simp [holds, Obj.pyEq, Obj.pyEqList], ?_, ?_⟩
  · simp [narrow, constrainKs, Cond.k, flatten1, applySeq, applyK, applyPred, unann, ca, caZipK, Ty.never]
  · simp [d02, dCond, flatten1, hm, dK, Cond.kAt, Cond.k, unann, ca, caZipK]

/-- Regression witness of the repaired class `alwaysTrueWrong` (/repo c376956): `x: Hashable` is now
boolable, `0` is hashable and falsy, and the `not x` branch keeps `Hashable`. (Before the repair the
branch was inferred `Never`; if the defect returns, the regenerated table breaks this theorem and
`liveTables_noLeak`, and the corpus case fails.) -/
theorem alwaysTrueWrong_fixed :
    mem liveTable (.int 0) (.typed 19) = true ∧
    holds liveTable .truthy (.int 0) = false ∧
    getBool liveTable liveBool (.typed 19) = .boolable ∧
    narrow liveTable liveBool (.typed 19) .truthy false = .typed 19 ∧
    d02 liveTable liveBool (.typed 19) .truthy false (.int 0) = [] := by
  have h1 : liveBool.typeBool 19 = .boolable := by decide +kernel
  have h2 : sub liveTable C.int 19 = true := by decide +kernel
  refine ⟨by simp [mem, clsOf, h2], by simp [holds, truthy], ?_, ?_, ?_⟩
  · simp [getBool, unannAll, boolNoMvv, h1]
  · simp [narrow, constrainKs, Cond.k, K.invert, flatten1, applySeq, applyK, unann, getBool, unannAll,
      boolNoMvv, h1, Boolab.safelyTrue, unite, dedup, dictMem]
  · simp [d02, dCond, flatten1, mem, clsOf, h2, dK, Cond.kAt, Cond.k, K.invert, unann, getBool, unannAll,
      boolNoMvv, h1, Boolab.safelyTrue]

/-- class `promoteIsValue`: `x: float`, `assert_is(x, True)`: `True` is a `float` by promotion, but
the `is_value` constraint tests `isinstance(True, float)` and infers `Never`. -/
theorem promoteIsValue_witness :
    mem liveTable (.bool true) (.typed C.float) = true ∧
    holds liveTable (.assertIs (.bool true)) (.bool true) = true ∧
    narrow liveTable liveBool (.typed C.float) (.assertIs (.bool true)) true = Ty.never ∧
    d02 liveTable liveBool (.typed C.float) (.assertIs (.bool true)) true (.bool true) = ["promoteIsValue"] := by
  have h1 : liveTable.issub C.bool C.float = false := by decide +kernel
  have h2 : sub liveTable C.bool C.float = true := by decide +kernel
  refine ⟨by simp [mem, clsOf, h2], by simp [holds, Obj.same, Obj.pyEq], ?_, ?_⟩
  · simp [narrow, constrainKs, Cond.k, flatten1, applySeq, applyK, unann, typOf?, clsOf, h1, Ty.never]
  · simp [d02, dCond, flatten1, mem, clsOf, h2, dK, Cond.kAt, Cond.k, unann, typOf?, h1]

/-- Hence the full statement fails on the live tables. -/
theorem narrowKeeps_live_false : ¬ NarrowKeeps liveTable liveBool := by
  intro h
  have := h (.typed C.int) (.isinst [C.float]) false (.int 0) (by decide +kernel) (by decide +kernel)
    (by decide +kernel) (by decide +kernel) promote_witness.1 promote_witness.2.1
  rw [promote_witness.2.2.1] at this
  simp [Ty.never, mem, memAny] at this

/-! ## Non-vacuity: the hypotheses are met by non-trivial inputs, and narrowing really narrows -/

/-- `int | str | None` -/
def exV : Ty := .union [.typed C.int, .typed C.str, .known .none]
def exC : Cond := .isinst [C.int]
example : valueOk exV = true := by decide +kernel
example : condOk liveTable exC (.int 1) = true := by decide +kernel
example : condWf liveTable exC = true := by decide +kernel
example : objOk liveTable liveBool (.int 1) = true := by decide +kernel
theorem exV_facts :
    mem liveTable (.int 1) exV = true ∧ holds liveTable exC (.int 1) = true ∧
    d02 liveTable liveBool exV exC true (.int 1) = [] ∧
    narrow liveTable liveBool exV exC true = .typed C.int ∧
    narrow liveTable liveBool exV exC false = .union [.typed C.str, .known .none] := by
  have h1 : liveTable.nominal false C.int C.int = true := by decide +kernel
  have h2 : liveTable.nominal false C.int C.str = false := by decide +kernel
  have h3 : liveTable.nominal false C.str C.int = false := by decide +kernel
  have h4 : liveTable.nominal false C.int C.none = false := by decide +kernel
  have h5 : liveTable.nominal false C.none C.int = false := by decide +kernel
  have h6 : liveTable.nominalK false C.int C.none = false := by decide +kernel
  have h7 : liveTable.issub C.none C.int = false := by decide +kernel
  have h8 : sub liveTable C.int C.int = true := by decide +kernel
  have h9 : sub liveTable C.int C.str = false := by decide +kernel
  have h10 : liveTable.issub C.int C.int = true := by decide +kernel
  refine ⟨by simp [exV, mem, memAny, clsOf, h8], by simp [exC, holds, clsOf, h10], ?_, ?_, ?_⟩
  · simp [d02, dCond, exV, exC, flatten1, mem, clsOf, h8, h9, Obj.same, Obj.tag, dK, Cond.kAt, Cond.k, unite,
      dedup, dictMem, unann, ca, typedCA, typOf, overlapping, deliteral, h1]
  · simp [narrow, exV, exC, constrainKs, Cond.k, flatten1, applySeq, applyK, applyPred, unite, dedup,
      dictMem, unann, ca, typedCA, typOf, overlapping, deliteral, univAssignable, clsOf, h1, h2, h3, h4,
      h5, h6, h7, Ty.hashEq, Ty.beq]
  · simp [narrow, exV, exC, constrainKs, Cond.k, K.invert, flatten1, applySeq, applyK, applyPred, unite,
      dedup, dictMem, unann, ca, typedCA, typOf, univAssignable, clsOf, h1, h2, h4, h6, h7, Ty.hashEq,
      Ty.beq, Obj.hashable, Obj.same, Obj.tag]

/-- the object is kept, through the theorem -/
example : mem liveTable (.int 1) (narrow liveTable liveBool exV exC true) = true :=
  narrow_keeps_live exV exC true (.int 1) (by decide +kernel) (by decide +kernel) (by decide +kernel)
    (by decide +kernel) exV_facts.2.2.1 exV_facts.1 exV_facts.2.1

/-- `x: tuple[int] | tuple[int, str]`, `len(x) == 2`, the object `(1, "a")`: the side conditions of a
`len` test are satisfiable and no exception class applies -/
def exV2 : Ty := .union [.seq C.tuple [.typed C.int], .seq C.tuple [.typed C.int, .typed C.str]]
example : valueOk exV2 = true := by decide +kernel
example : condOk liveTable (.len .eq 2) (.tuple [.int 1, .str "a"]) = true := by decide +kernel
example : objOk liveTable liveBool (.tuple [.int 1, .str "a"]) = true := by decide +kernel
example : d02 liveTable liveBool exV2 (.len .eq 2) true (.tuple [.int 1, .str "a"]) = [] := by
  simp [d02, dCond, dK, Cond.kAt, Cond.k]

/-- the verdict theorems are not vacuous: `tuple[int, str]` is "always true", has no leak, and
`()`-typed values are "always false" -/
example : (getBool liveTable liveBool (.seq C.tuple [.typed C.int, .typed C.str])).safelyTrue = true := by
  simp [getBool, unannAll, boolNoMvv, isManyAll, Boolab.safelyTrue]
example : verdictLeak liveTable liveBool (.seq C.tuple [.typed C.int, .typed C.str]) = false := by
  decide +kernel
/-- a user class without `__bool__`/`__len__` is still "always true" on the live tables: the theorem is not vacuous there -/
example : (getBool liveTable liveBool (.typed 23)).safelyTrue = true := by
  have h1 : liveBool.typeBool 23 = .typeTrue := by decide +kernel
  simp [getBool, unannAll, boolNoMvv, h1, Boolab.safelyTrue]
example : getBool liveTable liveBool (.seq C.tuple []) = .vaFalse := by
  simp [getBool, unannAll, boolNoMvv]

end Pya.C02
