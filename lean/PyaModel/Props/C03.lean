import PyaModel.Spec.WF
import PyaModel.Generated.ClassTable
import PyaModel.Proofs.C03
/-!
# Props/C03 — assignability of a concrete value equals runtime membership

Property theorems only. Model: `Pya.ca` (Core/Assign.lean, follows `Value.can_assign` branch by
branch). Spec: `Pya.mem` (Spec/Mem.lean, structural membership of an object in a static type).
-/
namespace Pya

/-- Obligation over the regenerated class table (re-checked by the kernel on every run): the
class-level verdicts pyanalyze computes on the live tree satisfy the laws of `Spec/TableLaws`
(nominal relation = issubclass + numeric tower outside protocol targets; reflexivity; generic
bases of the builtin containers; builtin ids in range; `tuple`/`list` non-protocol with one
parameter and without further subclasses in the object universe). -/
theorem liveTable_ok : tableOk liveTable = true := by decide +kernel

/-- **C03, full-strength statement** (false of the pinned pyanalyze: see the three witnesses
below). For every well-formed static type and well-formed object, the checker accepts the literal
exactly when the object is a member of the type. -/
def AssignKnownEqMem (tbl : ClassTable) : Prop :=
  ∀ (T : Ty) (o : Obj), T.wf tbl = true → o.wf tbl = true →
    ca tbl false T (.known o) = mem tbl o T

/-- **C03, outside the exception classes.** For every class table satisfying the laws of
`Spec/TableLaws`, every well-formed fully static type `T` and every well-formed object `o` such
that `T` has no unpacked tuple member (class `variadicTuple`), `o` contains no frozenset (class
`frozensetLiteral`), the pair is not a `str`/`bytes` object against a generic ABC target (where the
property text is silent) and is not a class object against a protocol target (class
`protoClassObj`): the model of pyanalyze's `T.can_assign(KnownValue(o))` succeeds exactly when `o`
is structurally a member of `T`. -/
theorem assign_known_eq_mem_partial (tbl : ClassTable) (htbl : tableOk tbl = true)
    (T : Ty) (o : Obj) (hT : T.wf tbl = true) (ho : o.wf tbl = true)
    (h1 : T.hasMany = false) (h2 : o.hasFset = false)
    (h3 : strVsGeneric T o = false) (h4 : protoClassObj tbl T o = false) :
    ca tbl false T (.known o) = mem tbl o T :=
  ca_known_eq_mem tbl (laws_of_tableOk tbl htbl) T o
    ⟨hT, ho, h1, h2, Bool.and_eq_false_iff.mp h3, Bool.and_eq_false_iff.mp h4⟩

/-- The same statement for the class table regenerated from the live tree. -/
theorem assign_known_eq_mem_live (T : Ty) (o : Obj)
    (hT : T.wf liveTable = true) (ho : o.wf liveTable = true)
    (h1 : T.hasMany = false) (h2 : o.hasFset = false)
    (h3 : strVsGeneric T o = false) (h4 : protoClassObj liveTable T o = false) :
    ca liveTable false T (.known o) = mem liveTable o T :=
  assign_known_eq_mem_partial liveTable liveTable_ok T o hT ho h1 h2 h3 h4

/-! ## Witnesses: the full statement is false in each exception class (live table)

`ca`/`mem` are defined by well-founded recursion, which the kernel does not unfold: the
evaluations below unfold the equation lemmas with `simp only` and leave the closed table look-ups
to `decide +kernel`. -/

/-- class `variadicTuple`: `(1, "a")` is a `tuple[int, *tuple[str, ...]]` but is rejected. -/
theorem variadicTuple_witness :
    ca liveTable false (.seq C.tuple [.typed C.int, .many (.typed C.str)])
        (.known (.tuple [.int 1, .str "a"])) = false ∧
    mem liveTable (.tuple [.int 1, .str "a"]) (.seq C.tuple [.typed C.int, .many (.typed C.str)])
      = true := by
  simp only [ca, caZipK, mem, memSeq, matchSeq, typedCA, clsOf]
  decide +kernel

/-- class `frozensetLiteral`: `frozenset({1})` is accepted as a `frozenset[str]`. -/
theorem frozensetLiteral_witness :
    ca liveTable false (.generic C.frozenset [.typed C.str]) (.known (.fset [.int 1])) = true ∧
    mem liveTable (.fset [.int 1]) (.generic C.frozenset [.typed C.str]) = false := by
  have h : liveTable.gbase C.frozenset C.frozenset = some [.param 0] := by rfl
  simp only [ca, theirArgs, clsOf, h, instArgs, mem, memArgs, memAll, typedCA, Option.map_some,
    List.map_cons, List.map_nil, List.getD_nil, List.length_cons, List.length_nil,
    beq_self_eq_true, if_true, caArgs, caArg, ca_any]
  decide +kernel

/-- class `protoClassObj`: the class object `dict` is accepted as a `Container` (class 17). -/
theorem protoClassObj_witness :
    ca liveTable false (.typed 17) (.known (.cls C.dict)) = true ∧
    mem liveTable (.cls C.dict) (.typed 17) = false := by
  simp only [ca, mem, typedCA, clsOf]
  decide +kernel

/-- Hence the full statement fails on the live table. -/
theorem assignKnownEqMem_live_false : ¬ AssignKnownEqMem liveTable := by
  intro h
  have := h (.typed 17) (.cls C.dict) (by decide +kernel) (by decide +kernel)
  rw [protoClassObj_witness.1, protoClassObj_witness.2] at this
  cases this

/-! ## Non-vacuity: the hypotheses are met by non-trivial inputs, and both verdicts occur -/

/-- `list[int | Literal["a"]]` -/
def exTy : Ty := .generic C.list [.union [.typed C.int, .known (.str "a")]]
def exObj : Obj := .list [.int 1, .str "a"]
def exObjBad : Obj := .list [.int 1, .str "b"]
example : exTy.wf liveTable = true := by decide +kernel
example : exObj.wf liveTable = true := by decide +kernel
example : exTy.hasMany = false := by decide +kernel
example : exObj.hasFset = false := by decide +kernel
example : strVsGeneric exTy exObj = false := by decide +kernel
example : protoClassObj liveTable exTy exObj = false := by decide +kernel
example : mem liveTable exObj exTy = true := by
  simp only [exObj, exTy, mem, memArgs, memAll, memAny, clsOf]
  decide +kernel
example : ca liveTable false exTy (.known exObj) = true := by
  have h : liveTable.gbase C.list C.list = some [.param 0] := by rfl
  simp only [exObj, exTy, ca, theirArgs, clsOf, h, instArgs, typedCA, Option.map_some,
    List.map_cons, List.map_nil, List.getD_cons_zero, List.length_cons, List.length_nil,
    beq_self_eq_true, if_true, caArgs, caArg, caMems, caAnyL]
  decide +kernel
example : mem liveTable exObjBad exTy = false := by
  simp only [exObjBad, exTy, mem, memArgs, memAll, memAny, clsOf]
  decide +kernel
/-- the rejected literal, through the theorem -/
example : ca liveTable false exTy (.known exObjBad) = false := by
  rw [assign_known_eq_mem_live exTy exObjBad (by decide +kernel) (by decide +kernel)
    (by decide +kernel) (by decide +kernel) (by decide +kernel) (by decide +kernel)]
  simp only [exObjBad, exTy, mem, memArgs, memAll, memAny, clsOf]
  decide +kernel

/-- `Mapping[int, tuple[float, type[int]]]` (class 18 = `Mapping`) against `{1: (2, bool)}`:
a two-parameter ABC target, a sequence form, numeric promotion, a class object. -/
def exTy2 : Ty := .generic 18 [.typed C.int, .seq C.tuple [.typed C.float, .subclass C.int]]
def exObj2 : Obj := .dict [.int 1] [.tuple [.int 2, .cls C.bool]]
example : exTy2.wf liveTable = true := by decide +kernel
example : exObj2.wf liveTable = true := by decide +kernel
example : exTy2.hasMany = false := by decide +kernel
example : exObj2.hasFset = false := by decide +kernel
example : strVsGeneric exTy2 exObj2 = false := by decide +kernel
example : protoClassObj liveTable exTy2 exObj2 = false := by decide +kernel
example : mem liveTable exObj2 exTy2 = true := by
  simp only [exObj2, exTy2, mem, memArgs, memAll, memSeq, matchSeq, clsOf]
  decide +kernel
example : ca liveTable false exTy2 (.known exObj2) = true := by
  rw [assign_known_eq_mem_live exTy2 exObj2 (by decide +kernel) (by decide +kernel)
    (by decide +kernel) (by decide +kernel) (by decide +kernel) (by decide +kernel)]
  simp only [exObj2, exTy2, mem, memArgs, memAll, memSeq, matchSeq, clsOf]
  decide +kernel

end Pya
