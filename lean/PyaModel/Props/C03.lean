import PyaModel.Spec.WF
import PyaModel.Generated.ClassTable
/-!
# Props/C03 — assignability of a concrete value equals runtime membership
-/
namespace Pya

/-- Obligation over the regenerated class table (re-checked by the kernel on every run): the
class-level verdicts pyanalyze computes on the live tree satisfy the laws of `Spec/TableLaws`
(nominal relation = issubclass + numeric tower outside protocol targets; reflexivity; generic
bases of the builtin containers). -/
theorem liveTable_ok : tableOk liveTable = true := by decide +kernel

end Pya
