import PyaModel.Proofs.C04
import PyaModel.Proofs.C04Mono
import PyaModel.Proofs.C04Refl
import PyaModel.Proofs.C04Sound
import PyaModel.Generated.ClassTable
/-!
# Props/C04 — type-to-type assignability: lattice laws of the model `ca`

`ca tbl x A B` models `A.can_assign(B, ctx)` with `x = ctx.should_exclude_any()`
(Core/Assign.lean). The laws below hold for every class table, every mode and all terms —
no size bound. Soundness for membership, reflexivity and exclude-any monotonicity are in the
second half of this file.
-/
namespace Pya

/-- **Any accepts every type** (`AnyValue.can_assign`), in both modes. -/
theorem assign_any_left (tbl : ClassTable) (x : Bool) (b : Ty) : ca tbl x .any b = true := by
  unfold ca; rfl

/-- **Any is accepted by every type** in the normal mode. -/
theorem assign_any_right (tbl : ClassTable) : ∀ a : Ty, ca tbl false a .any = true
  | .annotated t => by
    have := assign_any_right tbl t
    simp [ca, this]
  | .any => by simp [ca]
  | .known _ => by simp [ca]
  | .typed _ => by simp [ca]
  | .newtype _ _ => by simp [ca]
  | .generic _ _ => by simp [ca]
  | .seq _ _ => by simp [ca]
  | .many _ => by simp [ca]
  | .union _ => by simp [ca]
  | .subclass _ => by simp [ca]
  | .tvar _ => by simp [ca]

/-- **Never is accepted everywhere**, in both modes. -/
theorem assign_never (tbl : ClassTable) (x : Bool) (a : Ty) : ca tbl x a Ty.never = true := by
  cases a <;> simp [Ty.never, ca, caAllR]

/-- **A union on the right is accepted exactly when each of its members is.** -/
theorem assign_union_right_iff (tbl : ClassTable) (x : Bool) (a : Ty) (bs : List Ty) :
    ca tbl x a (.union bs) = true ↔ ∀ b ∈ bs, ca tbl x a b = true := by
  rw [ca_union_right, caAllR_eq_all]; simp

/-- **A union accepts whatever one of its members accepts** — full strength, for every
right-hand side (after the repair of `MultiValuedValue.can_assign` for `Annotated[Never]`,
/repo commit 637d1c5; before it the statement failed on exactly that input). -/
theorem assign_union_left (tbl : ClassTable) (x : Bool) (a : Ty) (as : List Ty) (b : Ty)
    (ha : a ∈ as) (h : ca tbl x a b = true) : ca tbl x (.union as) b = true :=
  ca_union_left tbl x a as ha b h

/-- Regression witness of the repaired defect: both `int` and `int | str` accept `Annotated[Never]`. -/
theorem annotatedNever_fixed (tbl : ClassTable) (x : Bool) :
    ca tbl x (.typed C.int) (.annotated Ty.never) = true ∧
    ca tbl x (.union [.typed C.int, .typed C.str]) (.annotated Ty.never) = true := by
  constructor <;> simp [Ty.never, ca, caAllR]

/-! # Second half: exclude-any monotonicity, reflexivity, `object` as top, soundness for membership

All four are stated for **every** class table satisfying the decidable laws `tableOk`
(Spec/TableLaws.lean, re-checked on the regenerated live table by the kernel on every run:
`liveTable_ok4` below) and for all terms — no size bound. Side conditions are decidable predicates
of Spec/WF.lean, Spec/D03.lean, Spec/D04.lean, Spec/D04Sound.lean. -/

/-- Obligation over the regenerated class table: the class-level verdicts of the live tree satisfy
the table laws, including those added for the theorems below (`c04Law`: mode-monotone, reflexive,
`object` on top, transitive outside non-generic protocols, generic bases of the builtin containers). -/
theorem liveTable_ok4 : tableOk liveTable = true := by decide +kernel

/-- **Switching on the "Any only matches Any" mode never turns a rejection into an acceptance**:
whatever `A.can_assign(B)` accepts under `should_exclude_any()` it accepts in the normal mode.
For all terms (no well-formedness needed). -/
theorem exclude_any_monotone (tbl : ClassTable) (htbl : tableOk tbl = true) (a b : Ty)
    (h : ca tbl true a b = true) : ca tbl false a b = true :=
  let L4 := laws4_of_tableOk tbl htbl
  ca_mono_all tbl L4.monoN L4.monoK L4.monoC a b h

/-- **Every type accepts itself**, in both modes: for every term that is well-formed in the weak
sense `Ty.wfR` (class ids in range, generics fully applied, unpacked members only inside sequence
forms, no free type variable; `Any`, NewTypes, literals, `type[Protocol]`, variadic tuples allowed). -/
theorem assign_refl (tbl : ClassTable) (htbl : tableOk tbl = true) (x : Bool) (a : Ty)
    (ha : a.wfR tbl = true) : ca tbl x a a = true :=
  (ca_refl_all (laws4_of_tableOk tbl htbl) x a).1 ha

/-- `Ty.wfR` covers every fully static well-formed type (`Ty.wf`). -/
theorem wfR_of_wf_static (tbl : ClassTable) (htbl : tableOk tbl = true) (a : Ty)
    (ha : a.wf tbl = true) : a.wfR tbl = true :=
  (wfR_of_wf (laws_of_tableOk tbl htbl) a).1 ha

/-- **`object` accepts everything**, in both modes: every Any-free well-formed right-hand side
(`Ty.wfB`: as `Ty.wf`, protocols under `type[...]` allowed). -/
theorem assign_object_top (tbl : ClassTable) (htbl : tableOk tbl = true) (x : Bool) (b : Ty)
    (hb : b.wfB tbl = true) : ca tbl x (.typed C.object) b = true :=
  ca_object_top (laws_of_tableOk tbl htbl) (laws4_of_tableOk tbl htbl) x b hb

/-- `Ty.wfB` covers every fully static well-formed type (`Ty.wf`). -/
theorem wfB_of_wf_static (tbl : ClassTable) (a : Ty) (ha : a.wf tbl = true) : a.wfB tbl = true :=
  (wfB_of_wf a).1 ha

/-- **C04 soundness, full-strength statement** (false of the pinned pyanalyze even outside the
documented leniencies: see the witnesses below). Between fully static types, whenever `B` is
accepted where `A` is expected, every object of `B` is an object of `A`. -/
def AssignSound (tbl : ClassTable) : Prop :=
  ∀ (A B : Ty) (o : Obj), A.wf tbl = true → B.wfB tbl = true → strict04 tbl A B = true →
    o.wf tbl = true → ca tbl false A B = true → mem tbl o B = true → mem tbl o A = true

/-- **C04 soundness outside the exception classes.** For every class table satisfying `tableOk`,
every fully static well-formed `A` (`Ty.wf`), every Any-free well-formed `B` (`Ty.wfB`) outside the
documented leniencies (`strict04`: no bare generic / bare `type` / frozenset literal in `B`; not a
fixed-length sequence form in `A` against a homogeneous generic in `B`) and outside the exception
classes `d04Sound` (`protoDown` ⊇ `metaclassAttr`, `virtualMeta`, `newtypeBase`,
`metaclassTyped`, `literalEq`, `protoClassObj` — each with a witness below): if the model of pyanalyze's
`A.can_assign(B)` succeeds, then every well-formed object without a frozenset inside that belongs
to `B` belongs to `A`. -/
theorem assign_sound_partial (tbl : ClassTable) (htbl : tableOk tbl = true) (A B : Ty)
    (hA : A.wf tbl = true) (hB : B.wfB tbl = true) (hs : strict04 tbl A B = true)
    (hd : d04Sound tbl A B = false) (hca : ca tbl false A B = true)
    (o : Obj) (ho : o.wf tbl = true) (hof : o.hasFset = false) (hm : mem tbl o B = true) :
    mem tbl o A = true :=
  sound_all (laws_of_tableOk tbl htbl) (laws4_of_tableOk tbl htbl) A B hA hB (SH_of_bool hs hd) hca
    o ho hof hm

/-- The same statement for the class table regenerated from the live tree. -/
theorem assign_sound_live (A B : Ty) (hA : A.wf liveTable = true) (hB : B.wfB liveTable = true)
    (hs : strict04 liveTable A B = true) (hd : d04Sound liveTable A B = false)
    (hca : ca liveTable false A B = true)
    (o : Obj) (ho : o.wf liveTable = true) (hof : o.hasFset = false)
    (hm : mem liveTable o B = true) : mem liveTable o A = true :=
  assign_sound_partial liveTable liveTable_ok4 A B hA hB hs hd hca o ho hof hm

/-! ## Witnesses: soundness fails in each exception class (live table)

Each witness: the pair is well-formed and outside the leniencies, the model accepts `B` for `A`,
the object belongs to `B` and not to `A`. Every disjunct of `d04Sound` has one. -/

/-- class `protoDown` (the part already known as `metaclassAttr`): `Iterable` (15) accepts the Enum
class `Color` (27) — the *metaclass* defines `__iter__` — but a `Color` member is not iterable. -/
theorem metaclassAttr_witness :
    ca liveTable false (.typed 15) (.typed 27) = true ∧
    mem liveTable (.inst 27 0) (.typed 27) = true ∧ mem liveTable (.inst 27 0) (.typed 15) = false := by
  simp only [ca, typedCA, typOf, mem, clsOf]
  decide +kernel

/-- class `protoDown`, new part: `Hashable` (19) accepts `object` (0) (`object.__hash__` exists), but
the list `[]` is an `object` and is not hashable — `issubclass` is not transitive at `Hashable`. -/
theorem protoDown_witness :
    ca liveTable false (.typed 19) (.typed 0) = true ∧
    mem liveTable (.list []) (.typed 0) = true ∧ mem liveTable (.list []) (.typed 19) = false := by
  simp only [ca, typedCA, typOf, mem, clsOf]
  decide +kernel

/-- class `virtualMeta`: `ABCMeta` (32) accepts `type[Sequence]` (class 14, whose metaclass it is),
but the class object `list` is a `type[Sequence]` (virtual subclass) and `type(list)` is `type`. -/
theorem virtualMeta_witness :
    ca liveTable false (.typed 32) (.subclass 14) = true ∧
    mem liveTable (.cls 9) (.subclass 14) = true ∧ mem liveTable (.cls 9) (.typed 32) = false := by
  simp only [ca, typedCA, typOf, mem, clsOf]
  decide +kernel

/-- class `metaclassTyped`: `type[Color]` accepts a value of the metaclass type `EnumType` (31), but
the class object `IE` (28, another Enum) is an `EnumType` and not a subclass of `Color`. -/
theorem metaclassTyped_witness :
    ca liveTable false (.subclass 27) (.typed 31) = true ∧
    mem liveTable (.cls 28) (.typed 31) = true ∧ mem liveTable (.cls 28) (.subclass 27) = false := by
  simp only [ca, mem, clsOf]
  decide +kernel

/-- class `newtypeBase`: a NewType over `int` accepts `int`, but `True` is an `int` and not a member
of the NewType (whose members are the objects of class exactly `int`). -/
theorem newtypeBase_witness :
    ca liveTable false (.newtype 0 C.int) (.typed C.int) = true ∧
    mem liveTable (.bool true) (.typed C.int) = true ∧
    mem liveTable (.bool true) (.newtype 0 C.int) = false := by
  simp only [ca, typedCA, typOf, mem, clsOf]
  decide +kernel

/-- class `literalEq` (an artefact of literal equality, not of `can_assign`): `tuple[bool, ...]`
accepts `Literal[(True,)]`; `(1,) == (True,)` and both are tuples, so `(1,)` belongs to the literal
type, but `1` is not a `bool`. -/
theorem literalEq_witness :
    ca liveTable false (.generic C.tuple [.typed C.bool]) (.known (.tuple [.bool true])) = true ∧
    mem liveTable (.tuple [.int 1]) (.known (.tuple [.bool true])) = true ∧
    mem liveTable (.tuple [.int 1]) (.generic C.tuple [.typed C.bool]) = false := by
  have h : liveTable.gbase C.tuple C.tuple = some [.param 0] := by rfl
  simp only [ca, theirArgs, h, instArgs, typedCA, mem, memArgs, memAll, clsOf, Option.map_some,
    List.map_cons, List.map_nil, List.getD_cons_zero, List.length_cons, List.length_nil,
    beq_self_eq_true, if_true, caArgs, caArg, caMems]
  decide +kernel

/-- class `protoClassObj` (the C03 class): `Container` (17) accepts the literal class object `dict`. -/
theorem protoClassObj_witness4 :
    ca liveTable false (.typed 17) (.known (.cls C.dict)) = true ∧
    mem liveTable (.cls C.dict) (.known (.cls C.dict)) = true ∧
    mem liveTable (.cls C.dict) (.typed 17) = false := by
  simp only [ca, typedCA, mem, clsOf]
  decide +kernel

/-- The object-side condition "no frozenset inside `o`" is needed as well: `list[set[int]]` accepts
`Literal[[{5}]]`; `[frozenset({5})] == [{5}]` and both are lists, so it belongs to the literal type,
but a frozenset is not a `set`. -/
theorem fsetObject_witness :
    ca liveTable false (.generic C.list [.generic C.set [.typed C.int]])
      (.known (.list [.set [.int 5]])) = true ∧
    mem liveTable (.list [.fset [.int 5]]) (.known (.list [.set [.int 5]])) = true ∧
    mem liveTable (.list [.fset [.int 5]]) (.generic C.list [.generic C.set [.typed C.int]]) = false := by
  have h1 : liveTable.gbase C.list C.list = some [.param 0] := by rfl
  have h2 : liveTable.gbase C.set C.set = some [.param 0] := by rfl
  simp only [ca, theirArgs, h1, h2, instArgs, typedCA, mem, memArgs, memAll, clsOf, Option.map_some,
    List.map_cons, List.map_nil, List.getD_cons_zero, List.length_cons, List.length_nil,
    beq_self_eq_true, if_true, caArgs, caArg, caMems]
  decide +kernel

/-- Hence the full statement fails on the live table. -/
theorem assignSound_live_false : ¬ AssignSound liveTable := by
  intro h
  have := h (.typed 19) (.typed 0) (.list []) (by decide +kernel) (by decide +kernel)
    (by decide +kernel) (by decide +kernel) protoDown_witness.1 protoDown_witness.2.1
  rw [protoDown_witness.2.2] at this
  cases this

/-- The two leniencies of the property text are real: L1 `list[int]` accepts bare `list`, L2
`tuple[()]` accepts `tuple[int, ...]`. -/
theorem leniency_witnesses :
    (ca liveTable false (.generic C.list [.typed C.int]) (.typed C.list) = true ∧
      mem liveTable (.list [.str "a"]) (.typed C.list) = true ∧
      mem liveTable (.list [.str "a"]) (.generic C.list [.typed C.int]) = false) ∧
    (ca liveTable false (.seq C.tuple []) (.generic C.tuple [.typed C.int]) = true ∧
      mem liveTable (.tuple [.int 1]) (.generic C.tuple [.typed C.int]) = true ∧
      mem liveTable (.tuple [.int 1]) (.seq C.tuple []) = false) := by
  have h1 : liveTable.gbase C.list C.list = some [.param 0] := by rfl
  have h2 : liveTable.gbase C.tuple C.tuple = some [.param 0] := by rfl
  simp only [ca, theirArgs, h1, h2, instArgs, typedCA, typOf, mem, memArgs, memAll, memSeq,
    matchSeq, clsOf, Option.map_some, List.map_cons, List.map_nil, List.getD_cons_zero, List.getD_nil,
    List.length_cons, List.length_nil, beq_self_eq_true, if_true, caArgs, caArg, caAnyM, ca_any]
  decide +kernel

/-! ## Non-vacuity: the hypotheses are met by non-trivial inputs -/

/-- `list[int | str]` accepts `list[bool]` in the "Any only matches Any" mode, hence in the normal one. -/
example : ca liveTable false (.generic C.list [.union [.typed C.int, .typed C.str]])
    (.generic C.list [.typed C.bool]) = true := by
  refine exclude_any_monotone liveTable liveTable_ok4 _ _ ?_
  have h : liveTable.gbase C.list C.list = some [.param 0] := by rfl
  simp only [ca, theirArgs, h, instArgs, typedCA, typOf, Option.map_some, List.map_cons,
    List.map_nil, List.getD_cons_zero, List.length_cons, List.length_nil, beq_self_eq_true, if_true,
    caArgs, caArg, caAnyL]
  decide +kernel
/-- … while a union accepts `Any` only in the normal mode (the two modes differ). -/
example : ca liveTable true (.union [.typed C.int, .typed C.str]) .any = false ∧
    ca liveTable false (.union [.typed C.int, .typed C.str]) .any = true := by
  simp [ca, caAnyL]

/-- `Mapping[int, tuple[*tuple[str, ...], type[Iterable]]] | Literal[1.5-ish class object]`:
a two-parameter ABC, a variadic tuple, `type[Protocol]`, a union, a literal. -/
def exTyR : Ty :=
  .union [.generic 18 [.typed C.int, .seq C.tuple [.many (.typed C.str), .subclass 15]], .known (.cls C.float)]
example : exTyR.wfR liveTable = true := by decide +kernel
example : exTyR.wf liveTable = false := by decide +kernel
example : ca liveTable true exTyR exTyR = true :=
  assign_refl liveTable liveTable_ok4 true exTyR (by decide +kernel)
/-- every fully static well-formed type is covered by `wfR` and `wfB` -/
example : (Ty.generic 18 [.typed C.int, .seq C.tuple [.typed C.float, .subclass C.int]]).wfR liveTable = true :=
  wfR_of_wf_static liveTable liveTable_ok4 _ (by decide +kernel)
example : (Ty.generic 18 [.typed C.int, .seq C.tuple [.typed C.float, .subclass C.int]]).wfB liveTable = true :=
  wfB_of_wf_static liveTable _ (by decide +kernel)
example : exTyR.wfB liveTable = true := by decide +kernel
example : ca liveTable true (.typed C.object) exTyR = true :=
  assign_object_top liveTable liveTable_ok4 true exTyR (by decide +kernel)

/-- `Sequence[float]` ← `list[bool] | tuple[int, float]`: an ABC target, promotion, a union and a
fixed-length tuple on the right. -/
def exA : Ty := .generic 14 [.typed C.float]
def exB : Ty := .union [.generic C.list [.typed C.bool], .seq C.tuple [.typed C.int, .typed C.float]]
def exO : Obj := .tuple [.int 1, .flt 0]
example : exA.wf liveTable = true := by decide +kernel
example : exB.wfB liveTable = true := by decide +kernel
example : strict04 liveTable exA exB = true := by decide +kernel
example : d04Sound liveTable exA exB = false := by decide +kernel
example : exO.wf liveTable = true := by decide +kernel
example : exO.hasFset = false := by decide +kernel
/-- `Sequence[str] | tuple[int, *tuple[str, ...]]` ← `Literal["a"] | tuple[bool, *tuple[str, ...]]`:
a variadic tuple on both sides and a `str` literal against a generic ABC are inside the theorem. -/
def exA2 : Ty := .union [.generic 14 [.typed C.str], .seq C.tuple [.typed C.int, .many (.typed C.str)]]
def exB2 : Ty := .union [.known (.str "a"), .seq C.tuple [.typed C.bool, .many (.typed C.str)]]
example : exA2.wf liveTable = true := by decide +kernel
example : exB2.wfB liveTable = true := by decide +kernel
example : strict04 liveTable exA2 exB2 = true := by decide +kernel
example : d04Sound liveTable exA2 exB2 = false := by decide +kernel

theorem exAB_accepts : ca liveTable false exA exB = true := by
  have h1 : liveTable.gbase C.list 14 = some [.param 0] := by rfl
  have h2 : liveTable.gbase C.tuple 14 = some [.param 0] := by rfl
  simp only [exA, exB, ca, caAllR, theirArgs, h1, h2, instArgs, typedCA, typOf, Option.map_some,
    List.map_cons, List.map_nil, List.getD_cons_zero, List.length_cons, List.length_nil,
    beq_self_eq_true, if_true, caArgs, caArg, caMems]
  decide +kernel
theorem exO_in_B : mem liveTable exO exB = true := by
  simp only [exO, exB, mem, memAny, memArgs, memAll, memSeq, matchSeq, clsOf]
  decide +kernel
/-- the conclusion, through the theorem -/
example : mem liveTable exO exA = true :=
  assign_sound_live exA exB (by decide +kernel) (by decide +kernel) (by decide +kernel)
    (by decide +kernel) exAB_accepts exO (by decide +kernel) (by decide +kernel) exO_in_B

end Pya
