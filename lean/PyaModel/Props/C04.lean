import PyaModel.Proofs.C04
import PyaModel.Generated.ClassTable
/-!
# Props/C04 — type-to-type assignability: lattice laws of the model `ca`

`ca tbl x A B` models `A.can_assign(B, ctx)` with `x = ctx.should_exclude_any()`
(Core/Assign.lean). The laws below hold for every class table, every mode and all terms —
no size bound. Soundness for membership, reflexivity and exclude-any monotonicity are in the
second half of this file.
-/
namespace Pya

/-- **Any accepts every type** (`AnyValue.can_assign`), in both modes. -/
theorem assign_any_left (tbl : ClassTable) (x : Bool) (b : Ty) : ca tbl x .any b = true := by
  unfold ca; rfl

/-- **Any is accepted by every type** in the normal mode. -/
theorem assign_any_right (tbl : ClassTable) : ∀ a : Ty, ca tbl false a .any = true
  | .annotated t => by
    have := assign_any_right tbl t
    simp [ca, this]
  | .any => by simp [ca]
  | .known _ => by simp [ca]
  | .typed _ => by simp [ca]
  | .newtype _ _ => by simp [ca]
  | .generic _ _ => by simp [ca]
  | .seq _ _ => by simp [ca]
  | .many _ => by simp [ca]
  | .union _ => by simp [ca]
  | .subclass _ => by simp [ca]
  | .tvar _ => by simp [ca]

/-- **Never is accepted everywhere**, in both modes. -/
theorem assign_never (tbl : ClassTable) (x : Bool) (a : Ty) : ca tbl x a Ty.never = true := by
  cases a <;> simp [Ty.never, ca, caAllR]

/-- **A union on the right is accepted exactly when each of its members is.** -/
theorem assign_union_right_iff (tbl : ClassTable) (x : Bool) (a : Ty) (bs : List Ty) :
    ca tbl x a (.union bs) = true ↔ ∀ b ∈ bs, ca tbl x a b = true := by
  rw [ca_union_right, caAllR_eq_all]; simp

/-- **A union accepts whatever one of its members accepts** — full strength, for every
right-hand side (after the repair of `MultiValuedValue.can_assign` for `Annotated[Never]`,
/repo commit 637d1c5; before it the statement failed on exactly that input). -/
theorem assign_union_left (tbl : ClassTable) (x : Bool) (a : Ty) (as : List Ty) (b : Ty)
    (ha : a ∈ as) (h : ca tbl x a b = true) : ca tbl x (.union as) b = true :=
  ca_union_left tbl x a as ha b h

/-- Regression witness of the repaired defect: both `int` and `int | str` accept `Annotated[Never]`. -/
theorem annotatedNever_fixed (tbl : ClassTable) (x : Bool) :
    ca tbl x (.typed C.int) (.annotated Ty.never) = true ∧
    ca tbl x (.union [.typed C.int, .typed C.str]) (.annotated Ty.never) = true := by
  constructor <;> simp [Ty.never, ca, caAllR]

end Pya
