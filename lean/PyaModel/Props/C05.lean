import PyaModel.Proofs.C05
/-!
# Props/C05 — argument-to-parameter binding agrees with CPython

Property theorems only. Model: `Pya.pyaBind` (Core/Sig.lean, follows
`Signature.bind_arguments` branch by branch). Spec: `Pya.cpyBind`
(Spec/CpyBind.lean, CPython's three-pass binder).
-/
namespace Pya

/-- **C05, literal call shapes, full strength.** For every `def` header (any number of
parameters of every kind, any default pattern, distinct names) and every call with
`n` positional arguments and distinct keyword names `ks` (no bound on either),
pyanalyze's binder fails (⇒ `incompatible_call`) exactly when CPython raises
`TypeError` while binding. -/
theorem bind_literal_iff (s : DefSig) (hwf : s.WF) (n : Nat) (ks : List String)
    (hks : ks.Nodup) :
    pyaBind s.params (litActual n ks) = none ↔ cpyBind s ⟨n, ks⟩ = false := by
  rw [← nf_eq_cpy s hwf n ks hks, ← pya_eq_nf]
  cases pyaBind s.params (litActual n ks) <;> simp

/-- Same statement, read as "accepted ⇔ binds". -/
theorem bind_literal_accepts_iff (s : DefSig) (hwf : s.WF) (n : Nat) (ks : List String)
    (hks : ks.Nodup) :
    (pyaBind s.params (litActual n ks)).isSome = cpyBind s ⟨n, ks⟩ := by
  rw [← nf_eq_cpy s hwf n ks hks, ← pya_eq_nf]

/-! Non-vacuity: the hypotheses are met by a signature using every parameter kind, and both
verdicts occur. `def f(a, /, b, c=0, *args, d, e=0, **kw)` -/
def exSig : DefSig :=
  { po := [⟨"a", false⟩], pk := [⟨"b", false⟩, ⟨"c", true⟩], vp := some "args",
    ko := [⟨"d", false⟩, ⟨"e", true⟩], vk := some "kw" }
example : exSig.WF := by unfold DefSig.WF; decide
example : cpyBind exSig ⟨2, ["d", "a"]⟩ = true := by decide     -- f(1, 2, d=1, a=1): `a` goes to **kw
example : cpyBind exSig ⟨2, ["b", "d"]⟩ = false := by decide    -- f(1, 2, b=1, d=1): multiple values
example : (pyaBind exSig.params (litActual 2 ["d", "a"])).isSome = true := by decide
example : pyaBind exSig.params (litActual 2 ["b", "d"]) = none := by decide

end Pya
