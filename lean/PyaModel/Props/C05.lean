import PyaModel.Proofs.C05
import PyaModel.Proofs.C05Star
import PyaModel.Proofs.C05Perm
/-!
# Props/C05 — argument-to-parameter binding agrees with CPython

Property theorems only. Model: `Pya.pyaBind` (Core/Sig.lean, follows
`Signature.bind_arguments` branch by branch). Spec: `Pya.cpyBind`
(Spec/CpyBind.lean, CPython's three-pass binder).
-/
namespace Pya

/-- **C05, literal call shapes, full strength.** For every `def` header (any number of
parameters of every kind, any default pattern, distinct names) and every call with
`n` positional arguments and distinct keyword names `ks` (no bound on either),
pyanalyze's binder fails (⇒ `incompatible_call`) exactly when CPython raises
`TypeError` while binding. -/
theorem bind_literal_iff (s : DefSig) (hwf : s.WF) (n : Nat) (ks : List String)
    (hks : ks.Nodup) :
    pyaBind s.params (litActual n ks) = none ↔ cpyBind s ⟨n, ks⟩ = false := by
  rw [← nf_eq_cpy s hwf n ks hks, ← pya_eq_nf]
  cases pyaBind s.params (litActual n ks) <;> simp

/-- Same statement, read as "accepted ⇔ binds". -/
theorem bind_literal_accepts_iff (s : DefSig) (hwf : s.WF) (n : Nat) (ks : List String)
    (hks : ks.Nodup) :
    (pyaBind s.params (litActual n ks)).isSome = cpyBind s ⟨n, ks⟩ := by
  rw [← nf_eq_cpy s hwf n ks hks, ← pya_eq_nf]

/-! Non-vacuity: the hypotheses are met by a signature using every parameter kind, and both
verdicts occur. `def f(a, /, b, c=0, *args, d, e=0, **kw)` -/
def exSig : DefSig :=
  { po := [⟨"a", false⟩], pk := [⟨"b", false⟩, ⟨"c", true⟩], vp := some "args",
    ko := [⟨"d", false⟩, ⟨"e", true⟩], vk := some "kw" }
example : exSig.WF := by unfold DefSig.WF; decide
example : cpyBind exSig ⟨2, ["d", "a"]⟩ = true := by decide     -- f(1, 2, d=1, a=1): `a` goes to **kw
example : cpyBind exSig ⟨2, ["b", "d"]⟩ = false := by decide    -- f(1, 2, b=1, d=1): multiple values
example : (pyaBind exSig.params (litActual 2 ["d", "a"])).isSome = true := by decide
example : pyaBind exSig.params (litActual 2 ["b", "d"]) = none := by decide

/-! ## Second sentence of C05: `*args` / `**kwargs` of unknown length

Stated at the level of `Actual` (what `preprocess_args` hands to `bind_arguments`), for *plain*
actuals: every positional and keyword definitely provided, keyword names distinct
(`Actual.plain`, Spec/Expand.lean). `IsExpansion a k extra`: the concrete call with `k` elements
taken from `*args` and keyword names `extra` taken from `**kwargs`; `NonEmpty a k extra`: at
least one element is taken from every star argument that is present. -/

/-- **C05 (A), with the witness named.** If pyanalyze's binder accepts a plain actual, the
expansion computed from the signature binds under CPython: `witK s a` elements from `*args`
(just enough to reach the last positional parameter without default; `0` without `*args`) and
the keyword names `witExtra s a` from `**kwargs` (the required keyword-capable parameters that
are still unfilled). -/
theorem bind_star_accept_witness (s : DefSig) (hwf : s.WF) (a : Actual) (hp : a.plain = true)
    (h : pyaBind s.params a ≠ none) :
    IsExpansion a (witK s a) (witExtra s a) ∧
      cpyBind s ⟨a.pos.length + witK s a, a.kws.map (·.1) ++ witExtra s a⟩ = true :=
  accept_witness s hwf a hp h

/-- **C05 (A), full strength: accepted ⇒ some concrete expansion binds.** For every `def`
header with distinct names and every plain actual (any number of positionals and keywords,
`*args` and/or `**kwargs` of unknown length or neither), if the binder does not fail then there
are `k` and `extra` forming an expansion of the star arguments such that CPython binds the
concrete call. No exception class. -/
theorem bind_star_accept (s : DefSig) (hwf : s.WF) (a : Actual) (hp : a.plain = true)
    (h : pyaBind s.params a ≠ none) :
    ∃ k extra, IsExpansion a k extra ∧
      cpyBind s ⟨a.pos.length + k, a.kws.map (·.1) ++ extra⟩ = true :=
  ⟨witK s a, witExtra s a, accept_witness s hwf a hp h⟩

/-- The full-strength statement of clause (B) for one signature and actual: rejected ⇒ no
expansion that takes at least one element from every star argument binds. It is *false* of
pyanalyze in the class `D05_starThenKw` (`starThenKw_witness`). -/
def BindStarReject (s : DefSig) (a : Actual) : Prop :=
  pyaBind s.params a = none → ∀ k extra, IsExpansion a k extra → NonEmpty a k extra →
    cpyBind s ⟨a.pos.length + k, a.kws.map (·.1) ++ extra⟩ = false

/-- **C05 (B): rejected ⇒ no non-empty expansion binds, outside `starThenKw`.** For every
`def` header with distinct names and every plain actual that is not in the exception class
`D05_starThenKw` (`*args` present and a keyword naming a positional-or-keyword parameter
strictly after the first slot `*args` would fill), if the binder fails then CPython raises
`TypeError` for every expansion taking at least one element from every star argument. Every
other failing branch of `bindStep` / `bindFinish` is covered; no further exception class is
needed. -/
theorem bind_star_reject_partial (s : DefSig) (hwf : s.WF) (a : Actual) (hp : a.plain = true)
    (hD : D05_starThenKw s.params a = false) : BindStarReject s a :=
  fun h k extra hexp hne => reject_core s hwf a hp hD h k extra hexp hne

/-- `def f(a, b)` and the call `f(*xs, b=1)`. -/
def starThenKwSig : DefSig :=
  { po := [], pk := [⟨"a", false⟩, ⟨"b", false⟩], vp := none, ko := [], vk := none }
def starThenKwAct : Actual :=
  { pos := [], starArgs := true, kws := [("b", true)], starKw := false, kwReq := false }

/-- **Witness for the exception class `starThenKw`.** `def f(a, b)`, `f(*xs, b=1)`: the input
is well-formed, plain and in the class; pyanalyze rejects the call although the non-empty
expansion `xs = [1]` (the call `f(1, b=1)`) binds — so `BindStarReject` is false here. -/
theorem starThenKw_witness :
    starThenKwSig.WF ∧ starThenKwAct.plain = true ∧
    D05_starThenKw starThenKwSig.params starThenKwAct = true ∧
    pyaBind starThenKwSig.params starThenKwAct = none ∧
    IsExpansion starThenKwAct 1 [] ∧ NonEmpty starThenKwAct 1 [] ∧
    cpyBind starThenKwSig ⟨starThenKwAct.pos.length + 1, starThenKwAct.kws.map (·.1) ++ []⟩ = true ∧
    ¬ BindStarReject starThenKwSig starThenKwAct := by
  refine ⟨by unfold DefSig.WF; decide, by decide, by decide, by decide, by decide, by decide,
    by decide, ?_⟩
  intro h
  have := h (by decide) 1 [] (by decide) (by decide)
  exact absurd this (by decide)

/-! ### The same two clauses for statically shaped syntactic calls (`Arg` lists)

`preprocess` (the model of `preprocess_args`) turns the argument list into an `Actual`, which is
always plain (`preprocess_plain`); all `*xs` of unknown length are merged into one `starArgs`
flag and all `**d` into one `starKw` flag, so "one element from every star argument" implies
`NonEmpty`. -/

/-- (A) through `preprocess`: an accepted call has a binding expansion. -/
theorem call_star_accept (s : DefSig) (hwf : s.WF) (args : List Arg) (a : Actual)
    (hpre : preprocess args = some a) (h : pyaCall s.params args ≠ none) :
    ∃ k extra, IsExpansion a k extra ∧
      cpyBind s ⟨a.pos.length + k, a.kws.map (·.1) ++ extra⟩ = true := by
  refine bind_star_accept s hwf a (preprocess_plain args a hpre) ?_
  simpa [pyaCall, hpre] using h

/-- (B) through `preprocess`: a call rejected by the binder (not already by `preprocess_args`)
and outside `starThenKw` has no binding non-empty expansion. -/
theorem call_star_reject_partial (s : DefSig) (hwf : s.WF) (args : List Arg) (a : Actual)
    (hpre : preprocess args = some a) (hD : D05_starThenKw s.params a = false)
    (h : pyaCall s.params args = none) : ∀ k extra, IsExpansion a k extra → NonEmpty a k extra →
      cpyBind s ⟨a.pos.length + k, a.kws.map (·.1) ++ extra⟩ = false :=
  bind_star_reject_partial s hwf a (preprocess_plain args a hpre) hD
    (by simpa [pyaCall, hpre] using h)

/-! Non-vacuity of every hypothesis set, on `def f(a, /, b, c=0, *args, d, e=0, **kw)` (`exSig`)
with both star arguments present. -/

/-- `f(1, *xs, e=1, **d)`: accepted. -/
def exStarAcc : Actual :=
  { pos := [true], starArgs := true, kws := [("e", true)], starKw := true, kwReq := true }
/-- `f(1, 2, *xs, b=1, **d)`: rejected (`b` filled twice), not in `starThenKw`. -/
def exStarRej : Actual :=
  { pos := [true, true], starArgs := true, kws := [("b", true)], starKw := true, kwReq := true }

-- hypotheses of (A): well-formed, plain, accepted; the computed witness is f(1, x1, e=1, d=…)
example : exSig.WF ∧ exStarAcc.plain = true ∧ pyaBind exSig.params exStarAcc ≠ none := by
  refine ⟨by unfold DefSig.WF; decide, by decide, by decide⟩
example : witK exSig exStarAcc = 1 ∧ witExtra exSig exStarAcc = ["d"] := by decide
example : cpyBind exSig ⟨1 + 1, ["e"] ++ ["d"]⟩ = true := by decide
-- hypotheses of (B): well-formed, plain, outside the class, rejected; non-empty expansions exist
example : exSig.WF ∧ exStarRej.plain = true ∧ D05_starThenKw exSig.params exStarRej = false ∧
    pyaBind exSig.params exStarRej = none ∧
    IsExpansion exStarRej 1 ["d"] ∧ NonEmpty exStarRej 1 ["d"] := by
  refine ⟨by unfold DefSig.WF; decide, by decide, by decide, by decide, by decide, by decide⟩
example : cpyBind exSig ⟨2 + 1, ["b"] ++ ["d"]⟩ = false := by decide
-- the same through `preprocess`: f(1, *xs, e=1, **d) and f(1, 2, *xs, b=1, **d)
example : preprocess [.pos, .starUnk, .kw "e", .dstarUnk] = some exStarAcc := by rfl
example : preprocess [.pos, .pos, .starUnk, .kw "b", .dstarUnk] = some exStarRej := by rfl
-- (B) also speaks about rejections with a single star argument, e.g. `def f(a)`: f(1, *xs)
example : pyaBind [⟨"a", .posOrKw, false⟩] ⟨[true], true, [], false, false⟩ = none := by decide

/-! ## The order of the keyword section does not matter; a name supplied twice is rejected

Python allows explicit keywords `a=1`, dict displays `**{'a': 1}` and `**d` in any relative order
after the positional section. `Arg.isKwItem` singles out these items (`kw`, `dstarLit`,
`dstarUnk`); `pre` below is the (arbitrary) part of the call before the keyword section. -/

/-- **Model, full result.** For every parameter list (not only `def`-shaped ones) and every two
syntactic calls with the same prefix whose keyword sections are permutations of each other,
`preprocess_args` + `bind_arguments` give the same result: the same verdict and, when accepted,
the same bound positions. No exception class. -/
theorem bind_kw_section_perm (sig : List Param) (pre K₁ K₂ : List Arg) (h : K₁.Perm K₂)
    (hK : ∀ x ∈ K₁, x.isKwItem = true) :
    pyaCall sig (pre ++ K₁) = pyaCall sig (pre ++ K₂) :=
  pyaCall_kwsec_perm sig pre K₁ K₂ h hK

/-- The same, read as "rejected for one order ⇔ rejected for the other". -/
theorem bind_kw_section_perm_verdict (sig : List Param) (pre K₁ K₂ : List Arg) (h : K₁.Perm K₂)
    (hK : ∀ x ∈ K₁, x.isKwItem = true) :
    pyaCall sig (pre ++ K₁) = none ↔ pyaCall sig (pre ++ K₂) = none := by
  rw [pyaCall_kwsec_perm sig pre K₁ K₂ h hK]

/-- **Spec, concrete calls.** CPython's verdict on a concrete syntactic call does not depend on
the order of the keyword section (indeed on no reordering of the items: only the number of
positional values and the multiset of keyword names matter). -/
theorem cpy_kw_section_perm_concrete (s : DefSig) (pre K₁ K₂ : List Arg) (h : K₁.Perm K₂) :
    cpyCall s (pre ++ K₁) = cpyCall s (pre ++ K₂) :=
  cpyCall_perm s (List.Perm.append_left pre h)

/-- **Spec, with expansions: the set of binding expansions is the same.** Every concrete
expansion of `pre ++ K₁` (each `*xs` replaced by a tuple of some length, each `**d` by a dict
with some key list) splits into an expansion `cp` of the prefix and an expansion `ck₁` of the
keyword section, and there is an expansion `ck₂` of `K₂`, a permutation of `ck₁` (the same value
for the same item), such that `cp ++ ck₂` expands `pre ++ K₂` and CPython gives both concrete
calls the same verdict. With `h.symm` this is a one-to-one correspondence of binding expansions. -/
theorem cpy_kw_section_perm (s : DefSig) (pre K₁ K₂ : List Arg) (h : K₁.Perm K₂) (c₁ : List Arg)
    (hc : Expands (pre ++ K₁) c₁) :
    ∃ cp ck₁ ck₂, c₁ = cp ++ ck₁ ∧ Expands pre cp ∧ Expands K₂ ck₂ ∧ ck₁.Perm ck₂ ∧
      Expands (pre ++ K₂) (cp ++ ck₂) ∧ cpyCall s c₁ = cpyCall s (cp ++ ck₂) := by
  obtain ⟨cp, ck₁, rfl, hp, hk⟩ := expands_append c₁ hc
  obtain ⟨ck₂, hk2, hperm⟩ := expands_perm h ck₁ hk
  exact ⟨cp, ck₁, ck₂, rfl, hp, hk2, hperm, expands_append_mk hp hk2,
    cpyCall_perm s (List.Perm.append_left cp hperm)⟩

/-- **A name supplied twice is rejected, whatever the callee.** If two different items of a
call (explicit keyword or key of a `**` dict display, in either order, anything in between)
supply the same name `x`, pyanalyze's pipeline reports the call for every parameter list, CPython
raises `TypeError` for every `def`, and so it does for every concrete expansion of the call. -/
theorem duplicate_keyword_rejected (sig : List Param) (s : DefSig) (A B C : List Arg)
    (a b : Arg) (x : String) (ha : x ∈ a.kwNames) (hb : x ∈ b.kwNames) :
    pyaCall sig (A ++ a :: B ++ b :: C) = none ∧
    cpyCall s (A ++ a :: B ++ b :: C) = false ∧
    ∀ c, Expands (A ++ a :: B ++ b :: C) c → cpyCall s c = false := by
  refine ⟨by unfold pyaCall; rw [preprocess_duplicate A B C a b x ha hb]; rfl,
    cpyBind_not_nodup s _ (cCallOf_duplicate A B C a b x ha hb), ?_⟩
  intro c hc
  obtain ⟨c1, c2, rfl, h1, h2⟩ := expands_append c hc
  obtain ⟨cA, c3, rfl, _, h3⟩ := expands_append c1 h1
  obtain ⟨a', cB, rfl, haa, _⟩ := expands_cons_inv h3
  obtain ⟨b', cC, rfl, hbb, _⟩ := expands_cons_inv h2
  exact cpyBind_not_nodup s _
    (cCallOf_duplicate cA cB cC a' b' x (argExp_kwNames haa ha) (argExp_kwNames hbb hb))

/-! Non-vacuity. `def f(a, /, b, c=0, *args, d, e=0, **kw)` (`exSig`); the calls
`f(1, *xs, d=1, **{'e': 2}, **dd)` and `f(1, *xs, **dd, **{'e': 2}, d=1)` (accepted), and the
seeded defect's shape `f(1, **{'d': 1}, d=2)` (rejected by both). -/
example : [Arg.kw "d", .dstarLit ["e"], .dstarUnk].Perm [.dstarUnk, .dstarLit ["e"], .kw "d"] := by
  decide
example : ∀ x ∈ [Arg.kw "d", .dstarLit ["e"], .dstarUnk], x.isKwItem = true := by decide
example : (pyaCall exSig.params ([.pos, .starUnk] ++ [.kw "d", .dstarLit ["e"], .dstarUnk])).isSome
    = true := by decide
example : (pyaCall exSig.params ([.pos, .starUnk] ++ [.dstarUnk, .dstarLit ["e"], .kw "d"])).isSome
    = true := by decide
example : Expands ([.pos, .starUnk] ++ [.kw "d", .dstarLit ["e"], .dstarUnk])
    ([.pos, .starLit 1] ++ [.kw "d", .dstarLit ["e"], .dstarLit ["z"]]) :=
  .cons (.same _ rfl) (.cons (.star 1) (.cons (.same _ rfl) (.cons (.same _ rfl)
    (.cons (.dstar ["z"]) .nil))))
example : cpyCall exSig ([.pos, .starLit 1] ++ [.kw "d", .dstarLit ["e"], .dstarLit ["z"]]) = true := by
  decide
example : "d" ∈ (Arg.dstarLit ["d"]).kwNames ∧ "d" ∈ (Arg.kw "d").kwNames := by decide
example : pyaCall exSig.params ([.pos] ++ .dstarLit ["d"] :: [] ++ .kw "d" :: []) = none := by decide

end Pya
