import PyaModel.Proofs.C05
import PyaModel.Proofs.C05Star
/-!
# Props/C05 — argument-to-parameter binding agrees with CPython

Property theorems only. Model: `Pya.pyaBind` (Core/Sig.lean, follows
`Signature.bind_arguments` branch by branch). Spec: `Pya.cpyBind`
(Spec/CpyBind.lean, CPython's three-pass binder).
-/
namespace Pya

/-- **C05, literal call shapes, full strength.** For every `def` header (any number of
parameters of every kind, any default pattern, distinct names) and every call with
`n` positional arguments and distinct keyword names `ks` (no bound on either),
pyanalyze's binder fails (⇒ `incompatible_call`) exactly when CPython raises
`TypeError` while binding. -/
theorem bind_literal_iff (s : DefSig) (hwf : s.WF) (n : Nat) (ks : List String)
    (hks : ks.Nodup) :
    pyaBind s.params (litActual n ks) = none ↔ cpyBind s ⟨n, ks⟩ = false := by
  rw [← nf_eq_cpy s hwf n ks hks, ← pya_eq_nf]
  cases pyaBind s.params (litActual n ks) <;> simp

/-- Same statement, read as "accepted ⇔ binds". -/
theorem bind_literal_accepts_iff (s : DefSig) (hwf : s.WF) (n : Nat) (ks : List String)
    (hks : ks.Nodup) :
    (pyaBind s.params (litActual n ks)).isSome = cpyBind s ⟨n, ks⟩ := by
  rw [← nf_eq_cpy s hwf n ks hks, ← pya_eq_nf]

/-! Non-vacuity: the hypotheses are met by a signature using every parameter kind, and both
verdicts occur. `def f(a, /, b, c=0, *args, d, e=0, **kw)` -/
def exSig : DefSig :=
  { po := [⟨"a", false⟩], pk := [⟨"b", false⟩, ⟨"c", true⟩], vp := some "args",
    ko := [⟨"d", false⟩, ⟨"e", true⟩], vk := some "kw" }
example : exSig.WF := by unfold DefSig.WF; decide
example : cpyBind exSig ⟨2, ["d", "a"]⟩ = true := by decide     -- f(1, 2, d=1, a=1): `a` goes to **kw
example : cpyBind exSig ⟨2, ["b", "d"]⟩ = false := by decide    -- f(1, 2, b=1, d=1): multiple values
example : (pyaBind exSig.params (litActual 2 ["d", "a"])).isSome = true := by decide
example : pyaBind exSig.params (litActual 2 ["b", "d"]) = none := by decide

/-! ## Second sentence of C05: `*args` / `**kwargs` of unknown length

Stated at the level of `Actual` (what `preprocess_args` hands to `bind_arguments`), for *plain*
actuals: every positional and keyword definitely provided, keyword names distinct
(`Actual.plain`, Spec/Expand.lean). `IsExpansion a k extra`: the concrete call with `k` elements
taken from `*args` and keyword names `extra` taken from `**kwargs`; `NonEmpty a k extra`: at
least one element is taken from every star argument that is present. -/

/-- **C05 (A), with the witness named.** If pyanalyze's binder accepts a plain actual, the
expansion computed from the signature binds under CPython: `witK s a` elements from `*args`
(just enough to reach the last positional parameter without default; `0` without `*args`) and
the keyword names `witExtra s a` from `**kwargs` (the required keyword-capable parameters that
are still unfilled). -/
theorem bind_star_accept_witness (s : DefSig) (hwf : s.WF) (a : Actual) (hp : a.plain = true)
    (h : pyaBind s.params a ≠ none) :
    IsExpansion a (witK s a) (witExtra s a) ∧
      cpyBind s ⟨a.pos.length + witK s a, a.kws.map (·.1) ++ witExtra s a⟩ = true :=
  accept_witness s hwf a hp h

/-- **C05 (A), full strength: accepted ⇒ some concrete expansion binds.** For every `def`
header with distinct names and every plain actual (any number of positionals and keywords,
`*args` and/or `**kwargs` of unknown length or neither), if the binder does not fail then there
are `k` and `extra` forming an expansion of the star arguments such that CPython binds the
concrete call. No exception class. -/
theorem bind_star_accept (s : DefSig) (hwf : s.WF) (a : Actual) (hp : a.plain = true)
    (h : pyaBind s.params a ≠ none) :
    ∃ k extra, IsExpansion a k extra ∧
      cpyBind s ⟨a.pos.length + k, a.kws.map (·.1) ++ extra⟩ = true :=
  ⟨witK s a, witExtra s a, accept_witness s hwf a hp h⟩

/-- The full-strength statement of clause (B) for one signature and actual: rejected ⇒ no
expansion that takes at least one element from every star argument binds. It is *false* of
pyanalyze in the class `D05_starThenKw` (`starThenKw_witness`). -/
def BindStarReject (s : DefSig) (a : Actual) : Prop :=
  pyaBind s.params a = none → ∀ k extra, IsExpansion a k extra → NonEmpty a k extra →
    cpyBind s ⟨a.pos.length + k, a.kws.map (·.1) ++ extra⟩ = false

/-- **C05 (B): rejected ⇒ no non-empty expansion binds, outside `starThenKw`.** For every
`def` header with distinct names and every plain actual that is not in the exception class
`D05_starThenKw` (`*args` present and a keyword naming a positional-or-keyword parameter
strictly after the first slot `*args` would fill), if the binder fails then CPython raises
`TypeError` for every expansion taking at least one element from every star argument. Every
other failing branch of `bindStep` / `bindFinish` is covered; no further exception class is
needed. -/
theorem bind_star_reject_partial (s : DefSig) (hwf : s.WF) (a : Actual) (hp : a.plain = true)
    (hD : D05_starThenKw s.params a = false) : BindStarReject s a :=
  fun h k extra hexp hne => reject_core s hwf a hp hD h k extra hexp hne

/-- `def f(a, b)` and the call `f(*xs, b=1)`. -/
def starThenKwSig : DefSig :=
  { po := [], pk := [⟨"a", false⟩, ⟨"b", false⟩], vp := none, ko := [], vk := none }
def starThenKwAct : Actual :=
  { pos := [], starArgs := true, kws := [("b", true)], starKw := false, kwReq := false }

/-- **Witness for the exception class `starThenKw`.** `def f(a, b)`, `f(*xs, b=1)`: the input
is well-formed, plain and in the class; pyanalyze rejects the call although the non-empty
expansion `xs = [1]` (the call `f(1, b=1)`) binds — so `BindStarReject` is false here. -/
theorem starThenKw_witness :
    starThenKwSig.WF ∧ starThenKwAct.plain = true ∧
    D05_starThenKw starThenKwSig.params starThenKwAct = true ∧
    pyaBind starThenKwSig.params starThenKwAct = none ∧
    IsExpansion starThenKwAct 1 [] ∧ NonEmpty starThenKwAct 1 [] ∧
    cpyBind starThenKwSig ⟨starThenKwAct.pos.length + 1, starThenKwAct.kws.map (·.1) ++ []⟩ = true ∧
    ¬ BindStarReject starThenKwSig starThenKwAct := by
  refine ⟨by unfold DefSig.WF; decide, by decide, by decide, by decide, by decide, by decide,
    by decide, ?_⟩
  intro h
  have := h (by decide) 1 [] (by decide) (by decide)
  exact absurd this (by decide)

/-! ### The same two clauses for statically shaped syntactic calls (`Arg` lists)

`preprocess` (the model of `preprocess_args`) turns the argument list into an `Actual`, which is
always plain (`preprocess_plain`); all `*xs` of unknown length are merged into one `starArgs`
flag and all `**d` into one `starKw` flag, so "one element from every star argument" implies
`NonEmpty`. -/

/-- (A) through `preprocess`: an accepted call has a binding expansion. -/
theorem call_star_accept (s : DefSig) (hwf : s.WF) (args : List Arg) (a : Actual)
    (hpre : preprocess args = some a) (h : pyaCall s.params args ≠ none) :
    ∃ k extra, IsExpansion a k extra ∧
      cpyBind s ⟨a.pos.length + k, a.kws.map (·.1) ++ extra⟩ = true := by
  refine bind_star_accept s hwf a (preprocess_plain args a hpre) ?_
  simpa [pyaCall, hpre] using h

/-- (B) through `preprocess`: a call rejected by the binder (not already by `preprocess_args`)
and outside `starThenKw` has no binding non-empty expansion. -/
theorem call_star_reject_partial (s : DefSig) (hwf : s.WF) (args : List Arg) (a : Actual)
    (hpre : preprocess args = some a) (hD : D05_starThenKw s.params a = false)
    (h : pyaCall s.params args = none) : ∀ k extra, IsExpansion a k extra → NonEmpty a k extra →
      cpyBind s ⟨a.pos.length + k, a.kws.map (·.1) ++ extra⟩ = false :=
  bind_star_reject_partial s hwf a (preprocess_plain args a hpre) hD
    (by simpa [pyaCall, hpre] using h)

/-! Non-vacuity of every hypothesis set, on `def f(a, /, b, c=0, *args, d, e=0, **kw)` (`exSig`)
with both star arguments present. -/

/-- `f(1, *xs, e=1, **d)`: accepted. -/
def exStarAcc : Actual :=
  { pos := [true], starArgs := true, kws := [("e", true)], starKw := true, kwReq := true }
/-- `f(1, 2, *xs, b=1, **d)`: rejected (`b` filled twice), not in `starThenKw`. -/
def exStarRej : Actual :=
  { pos := [true, true], starArgs := true, kws := [("b", true)], starKw := true, kwReq := true }

-- hypotheses of (A): well-formed, plain, accepted; the computed witness is f(1, x1, e=1, d=…)
example : exSig.WF ∧ exStarAcc.plain = true ∧ pyaBind exSig.params exStarAcc ≠ none := by
  refine ⟨by unfold DefSig.WF; decide, by decide, by decide⟩
example : witK exSig exStarAcc = 1 ∧ witExtra exSig exStarAcc = ["d"] := by decide
example : cpyBind exSig ⟨1 + 1, ["e"] ++ ["d"]⟩ = true := by decide
-- hypotheses of (B): well-formed, plain, outside the class, rejected; non-empty expansions exist
example : exSig.WF ∧ exStarRej.plain = true ∧ D05_starThenKw exSig.params exStarRej = false ∧
    pyaBind exSig.params exStarRej = none ∧
    IsExpansion exStarRej 1 ["d"] ∧ NonEmpty exStarRej 1 ["d"] := by
  refine ⟨by unfold DefSig.WF; decide, by decide, by decide, by decide, by decide, by decide⟩
example : cpyBind exSig ⟨2 + 1, ["b"] ++ ["d"]⟩ = false := by decide
-- the same through `preprocess`: f(1, *xs, e=1, **d) and f(1, 2, *xs, b=1, **d)
example : preprocess [.pos, .starUnk, .kw "e", .dstarUnk] = some exStarAcc := by rfl
example : preprocess [.pos, .pos, .starUnk, .kw "b", .dstarUnk] = some exStarRej := by rfl
-- (B) also speaks about rejections with a single star argument, e.g. `def f(a)`: f(1, *xs)
example : pyaBind [⟨"a", .posOrKw, false⟩] ⟨[true], true, [], false, false⟩ = none := by decide

end Pya
